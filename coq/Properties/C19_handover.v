(* C19, hand-over part — waiters that time out or are cancelled while others keep waiting, then the release / Event.Set
   (model: Client/WaitQueue.v; runtime side: harness/client/scenario_handover.go). *)
From Coq Require Import NArith List Bool.
From Slock Require Import Gen.GenClient Client.Prims Client.PrimsProofs Client.WaitQueue.
Import ListNotations.
Local Open Scope N_scope.

(* ================================================================================================================
   Hand-over with waiters that time out / are cancelled (Client/WaitQueue.v: one key with its wait queue, the `waited`
   flag and the wake-up pass).  Two explicit hypotheses:
     waited_guard   = doTimeOut and cancelWaitLock clear `waited` only under `GetWaitLock() == nil`
                      (switches regenerated from server/db.go on every run),
     no_lost_wakeup = UnLock, doTimeOut and cancelWaitLock run the wake-up pass they leave pending — the client-level
                      face of the engine theorems C04_unlock_pending, C04_timeout_pending, C04_cancel_pending,
                      C04_wake_pass_within_fuel, C04_wake_done_meaning (coq/Properties/C04.v), which discharge it over
                      the engine model.
   Both hold for the source as it is (Example C19_handover_hypotheses_hold_today, by reflexivity on the regenerated
   switches: it stops checking when the source changes). *)
Example C19_handover_hypotheses_hold_today : waited_guard /\ no_lost_wakeup.
Proof. repeat split; reflexivity. Qed.

Definition C19_ids (l : list waiter) : list N := map (fun w => r_id (w_req w)) l.
Definition C19_lk i := mkReq i lock_count lock_rcount false false false false.

(* every reachable state (arrivals, timeouts, cancellations, releases in any order): a live queued request implies the
   key's `waited` flag, and the queue is in service order (descending priority, FIFO among equals) *)
Theorem C19_waited_flag_covers_live_waiters : waited_guard -> forall ops,
  (live (ws_queue (wrun w0 ops)) <> [] -> ws_waited (wrun w0 ops) = true) /\
  Sorted.StronglySorted (fun a b : waiter => w_pri b <= w_pri a) (ws_queue (wrun w0 ops)).
Proof. exact waited_flag_covers_live_waiters. Qed.
Goal True. idtac "ASSUMPTIONS-OF C19_waited_flag_covers_live_waiters". Abort.
Print Assumptions C19_waited_flag_covers_live_waiters.
Example C19_waited_flag_nonvacuous :
  let ops := [WArrive (C19_lk 1) 0 true false; WArrive (C19_lk 2) 0 true false; WArrive (C19_lk 3) 0 true false;
              WTimeout 2; WCancel 3] in
  C19_ids (live (ws_queue (wrun w0 (firstn 4 ops)))) = [3] /\ ws_waited (wrun w0 (firstn 4 ops)) = true /\
  live (ws_queue (wrun w0 ops)) = [] /\ ws_waited (wrun w0 ops) = false.
Proof. cbv zeta. repeat split; vm_compute; reflexivity. Qed.

(* the next release serves the queue: in every reachable state a successful unlock is followed by a pass that serves a
   prefix of the live queue in service order and stops only when nothing live is left or doLock refuses the live head *)
Theorem C19_release_serves_queue_head : waited_guard -> no_lost_wakeup -> forall ops o,
  let st := wrun w0 ops in
  match o with
  | WUnlock id rc p => snd (unlock (ws_holds st) id rc p) = true
  | WUnlockHead p => snd (unlock_head (ws_holds st) p) = true
  | _ => False
  end ->
  live (ws_queue st) = wserved st o ++ live (ws_queue (wstep st o)) /\
  match live (ws_queue (wstep st o)) with
  | [] => True
  | w :: _ => wake_grant (ws_holds (wstep st o)) (w_req w) = false
  end.
Proof. exact release_serves_queue_head. Qed.
Goal True. idtac "ASSUMPTIONS-OF C19_release_serves_queue_head". Abort.
Print Assumptions C19_release_serves_queue_head.
Example C19_release_serves_queue_head_nonvacuous :
  let sem i := mkReq i (semaphore_count 2) semaphore_rcount false false false false in
  let ops := [WArrive (sem 1) 0 true false; WArrive (sem 2) 0 true false; WArrive (sem 3) 0 true false;
              WArrive (sem 4) 0 true false; WArrive (sem 5) 0 true false; WCancel 3] in
  let st := wrun w0 ops in
  snd (unlock_head (ws_holds st) false) = true /\
  C19_ids (live (ws_queue st)) = [4; 5] /\ C19_ids (wserved st (WUnlockHead false)) = [4] /\
  C19_ids (live (ws_queue (wstep st (WUnlockHead false)))) = [5] /\ map h_id (ws_holds (wstep st (WUnlockHead false))) = [2; 4].
Proof. cbv zeta. repeat split; vm_compute; reflexivity. Qed.

(* Lock: any history, then waiter `id` times out, then the only holder unlocks: the FIFO head of the remaining live
   waiters gets the lock, alone, and the others stay queued in order *)
Theorem C19_lock_handover_after_timeout : waited_guard -> no_lost_wakeup -> forall ops id h w rest,
  let st := wrun w0 (ops ++ [WTimeout id]) in
  ws_holds st = [h] -> h_depth h = 1 ->
  live (ws_queue st) = w :: rest -> plain_waiter w -> r_count (w_req w) = lock_count ->
  forall rc p,
  let o := WUnlock (h_id h) rc p in
  ws_holds (wstep st o) = [mkHold (r_id (w_req w)) 1 lock_count (r_rcount (w_req w))] /\
  wserved st o = [w] /\ live (ws_queue (wstep st o)) = rest.
Proof. exact lock_handover_after_timeout. Qed.
Goal True. idtac "ASSUMPTIONS-OF C19_lock_handover_after_timeout". Abort.
Print Assumptions C19_lock_handover_after_timeout.
Example C19_lock_handover_after_timeout_nonvacuous :
  let ops := [WArrive (C19_lk 1) 0 true false; WArrive (C19_lk 2) 0 true false; WArrive (C19_lk 3) 0 true false;
              WArrive (C19_lk 4) 0 true false; WArrive (C19_lk 9) 0 false false] in
  let st := wrun w0 (ops ++ [WTimeout 2]) in
  ws_holds st = [mkHold 1 1 0 0] /\ C19_ids (live (ws_queue st)) = [3; 4] /\
  Forall plain_waiter (live (ws_queue st)) /\
  C19_ids (wserved st (WUnlock 1 0 false)) = [3] /\ ws_holds (wstep st (WUnlock 1 0 false)) = [mkHold 3 1 0 0].
Proof. cbv zeta. repeat split; try (vm_compute; reflexivity). vm_compute. repeat constructor. Qed.

(* Semaphore(n) / MaxConcurrentFlow(n): any history, then a waiter times out, then Release (the oldest hold is unlocked):
   the first request served is the FIFO head of the remaining live waiters *)
Theorem C19_semaphore_handover_after_timeout : waited_guard -> no_lost_wakeup -> forall n ops id w rest,
  1 <= n -> n <= 0xffff ->
  let st := wrun w0 (ops ++ [WTimeout id]) in
  Forall (fun h => h_count h = semaphore_count n /\ h_depth h = 1) (ws_holds st) ->
  ws_holds st <> [] -> locked (ws_holds st) <= n ->
  live (ws_queue st) = w :: rest -> plain_waiter w -> r_count (w_req w) = semaphore_count n ->
  forall p, exists more, wserved st (WUnlockHead p) = w :: more.
Proof. exact semaphore_handover_after_timeout. Qed.
Goal True. idtac "ASSUMPTIONS-OF C19_semaphore_handover_after_timeout". Abort.
Print Assumptions C19_semaphore_handover_after_timeout.
Example C19_semaphore_handover_after_timeout_nonvacuous :
  let sem i := mkReq i (semaphore_count 3) semaphore_rcount false false false false in
  let ops := [WArrive (sem 1) 0 true false; WArrive (sem 2) 0 true false; WArrive (sem 3) 0 true false;
              WArrive (sem 4) 0 true false; WArrive (sem 5) 0 true false; WArrive (sem 6) 0 true false] in
  let st := wrun w0 (ops ++ [WTimeout 4]) in
  Forall (fun h => h_count h = semaphore_count 3 /\ h_depth h = 1) (ws_holds st) /\ locked (ws_holds st) = 3 /\
  C19_ids (live (ws_queue st)) = [5; 6] /\ C19_ids (wserved st (WUnlockHead false)) = [5] /\
  map h_id (ws_holds (wstep st (WUnlockHead false))) = [2; 3; 5].
Proof. cbv zeta. repeat split; try (vm_compute; reflexivity). vm_compute. repeat constructor. Qed.

(* PriorityLock (and any release that frees the key): any history, then a waiter times out, then the release: the request
   served first is the head of the live queue and no live waiter has a higher priority *)
Theorem C19_prioritylock_handover_after_timeout : waited_guard -> no_lost_wakeup -> forall ops id w rest hid rc p,
  let st := wrun w0 (ops ++ [WTimeout id]) in
  unlock (ws_holds st) hid rc p = ([], true) ->
  live (ws_queue st) = w :: rest -> r_wait_unlock (w_req w) = false ->
  (exists more, wserved st (WUnlock hid rc p) = w :: more) /\
  Forall (fun x => w_pri x <= w_pri w) (live (ws_queue st)).
Proof. exact prioritylock_handover_after_timeout. Qed.
Goal True. idtac "ASSUMPTIONS-OF C19_prioritylock_handover_after_timeout". Abort.
Print Assumptions C19_prioritylock_handover_after_timeout.
Example C19_prioritylock_handover_after_timeout_nonvacuous :
  let pl i p := mkReq i prioritylock_count (prioritylock_rcount p) (prio_flag_of (prioritylock_timeout 5)) false false false in
  let ops := [WArrive (pl 1 0) 0 true false; WArrive (pl 2 1) 1 true false; WArrive (pl 3 9) 9 true false;
              WArrive (pl 4 5) 5 true false; WArrive (pl 5 9) 9 true false] in
  let st := wrun w0 (ops ++ [WTimeout 3]) in     (* the first priority-9 waiter gives up *)
  C19_ids (live (ws_queue st)) = [5; 4; 2] /\ unlock (ws_holds st) 1 0 true = ([], true) /\
  C19_ids (wserved st (WUnlock 1 0 true)) = [5] /\ map h_id (ws_holds (wstep st (WUnlock 1 0 true))) = [5] /\
  C19_ids (live (ws_queue (wstep st (WUnlock 1 0 true)))) = [4; 2].
Proof. cbv zeta. repeat split; vm_compute; reflexivity. Qed.

(* Event: any history, then a Wait times out, then Set: EVERY remaining live Wait is served by the pass — default-set
   mode (Set = unlock of the event lock) and default-clear mode (Set = arrival of the event lock on the free key) *)
Theorem C19_event_set_releases_all_after_timeout : waited_guard -> no_lost_wakeup -> forall ops id,
  let st := wrun w0 (ops ++ [WTimeout id]) in
  (forall hid rc p,
     unlock (ws_holds st) hid rc p = ([], true) ->
     (forall w, In w (live (ws_queue st)) -> r_exp0 (w_req w) = true /\ r_wait_unlock (w_req w) = false) ->
     wserved st (WUnlock hid rc p) = live (ws_queue st) /\ live (ws_queue (wstep st (WUnlock hid rc p))) = [])
  /\
  (forall r pri ww outr,
     ws_holds st = [] -> r_count r = event_clearmode_eventlock_count -> r_exp0 r = false -> r_wait_unlock r = false ->
     (forall w, In w (live (ws_queue st)) -> r_exp0 (w_req w) = true /\ r_count (w_req w) = event_clearmode_wait_count) ->
     wserved st (WArrive r pri ww outr) = live (ws_queue st) /\ live (ws_queue (wstep st (WArrive r pri ww outr))) = []).
Proof. exact event_set_releases_all_after_timeout. Qed.
Goal True. idtac "ASSUMPTIONS-OF C19_event_set_releases_all_after_timeout". Abort.
Print Assumptions C19_event_set_releases_all_after_timeout.
Example C19_event_set_releases_all_after_timeout_nonvacuous :
  (* default-set: Clear = event lock 77; Waits 50..52 queue; 50 gives up; Set = unlock 77 *)
  let ws i := mkReq i event_setmode_wait_count event_setmode_wait_rcount false true false false in
  let el := mkReq 77 event_setmode_eventlock_count event_setmode_eventlock_rcount false false false true in
  let st := wrun w0 ([WArrive el 0 true false; WArrive (ws 50) 0 true false; WArrive (ws 51) 0 true false; WArrive (ws 52) 0 true false] ++ [WTimeout 50]) in
  (* default-clear: key free; Waits 60..62 (wait-when-unlock flag from the generated timeout word) queue; 61 gives up; Set =
     event lock 78 arrives.  Whether 60 and 62 are still queued after the timeout depends on the regenerated switch
     wake_pass_rechecks_wait_when_unlock (see the next theorem); the statement computes for both values *)
  let wc i := mkReq i event_clearmode_wait_count event_clearmode_wait_rcount false true (wait_unlock_flag_of (event_clearmode_wait_timeout 3)) false in
  let sl := mkReq 78 event_clearmode_eventlock_count event_clearmode_eventlock_rcount false false false true in
  let sc := wrun w0 ([WArrive (wc 60) 0 true false; WArrive (wc 61) 0 true false; WArrive (wc 62) 0 true false] ++ [WTimeout 61]) in
  unlock (ws_holds st) 77 0 false = ([], true) /\ C19_ids (live (ws_queue st)) = [51; 52] /\
  C19_ids (wserved st (WUnlock 77 0 false)) = [51; 52] /\
  ws_holds sc = [] /\ C19_ids (live (ws_queue sc)) = (if wake_pass_rechecks_wait_when_unlock then [60; 62] else []) /\
  C19_ids (wserved sc (WArrive sl 0 true false)) = (if wake_pass_rechecks_wait_when_unlock then [60; 62] else []) /\
  map h_id (ws_holds (wstep sc (WArrive sl 0 true false))) = [78].
Proof. cbv zeta. repeat split; vm_compute; reflexivity. Qed.

(* default-clear Event with the wake-up pass as it is (it does not re-check the wait-when-unlock flag): when one Wait of a
   CLEAR event times out, the pass that doTimeOut runs serves every other queued Wait although the key is free — "Wait
   returns only once the event is set" fails without any Set.  Second trigger of the recorded finding
   C19-event-wake-pass-ignores-unlock-to-wait, replayed on the real server by the hand-over scenario event-clear
   (signature monitor:event:wait-returned-while-clear:default-clear) *)
Theorem C19_event_clearmode_wait_timeout_serves_other_waits : waited_guard -> no_lost_wakeup ->
  wake_pass_rechecks_wait_when_unlock = false -> forall ops id,
  let st := wrun w0 ops in
  ws_holds st = [] ->
  (forall w, In w (live (ws_queue st)) -> r_exp0 (w_req w) = true) ->
  wserved st (WTimeout id) = live (kill id (ws_queue st)) /\ ws_holds (wstep st (WTimeout id)) = [].
Proof. exact event_clearmode_wait_timeout_serves_other_waits. Qed.
Goal True. idtac "ASSUMPTIONS-OF C19_event_clearmode_wait_timeout_serves_other_waits". Abort.
Print Assumptions C19_event_clearmode_wait_timeout_serves_other_waits.
Example C19_event_clearmode_wait_timeout_nonvacuous :
  let wc i := mkReq i event_clearmode_wait_count event_clearmode_wait_rcount false true (wait_unlock_flag_of (event_clearmode_wait_timeout 3)) false in
  let st := wrun w0 [WArrive (wc 60) 0 true false; WArrive (wc 61) 0 true false; WArrive (wc 62) 0 true false] in
  ws_holds st = [] /\ C19_ids (live (ws_queue st)) = [60; 61; 62] /\
  (forall w, In w (live (ws_queue st)) -> r_exp0 (w_req w) = true) /\
  C19_ids (wserved st (WTimeout 61)) = (if wake_pass_rechecks_wait_when_unlock then [] else [60; 62]).
Proof.
  cbv zeta. repeat split; try (vm_compute; reflexivity).
  intros w. vm_compute. intros [<-|[<-|[<-|[]]]]; reflexivity.
Qed.

(* the guard is necessary: a doTimeOut that may clear `waited` while a live request is still queued strands it — holder 1,
   waiters 2 and 3, waiter 2 times out, the holder unlocks: key free, waiter 3 still queued and acceptable to doLock, nothing
   served, flag clear (so no later pass looks at it); with the guard the same history serves waiter 3 *)
Theorem C19_handover_needs_the_timeout_guard :
  let lk i := mkReq i lock_count lock_rcount false false false false in
  let st3 := fst (arrive (fst (arrive (fst (arrive w0 (lk 1) 0 true false)) (lk 2) 0 true false)) (lk 3) 0 true false) in
  let st4 := fst (leave_queue false true st3 2) in
  let out5 := release true st4 (unlock (ws_holds st4) 1 0 false) in
  ws_holds st3 = [mkHold 1 1 0 0] /\ map (fun w => r_id (w_req w)) (live (ws_queue st3)) = [2; 3] /\
  map (fun w => r_id (w_req w)) (live (ws_queue st4)) = [3] /\ ws_waited st4 = false /\
  ws_holds (fst out5) = [] /\ snd out5 = [] /\ map (fun w => r_id (w_req w)) (live (ws_queue (fst out5))) = [3] /\
  wake_grant (ws_holds (fst out5)) (lk 3) = true /\ ~ quiescent (fst out5) /\
  let st4g := fst (leave_queue true true st3 2) in
  map (fun w => r_id (w_req w)) (snd (release true st4g (unlock (ws_holds st4g) 1 0 false))) = [3].
Proof. exact handover_needs_the_timeout_guard. Qed.
Goal True. idtac "ASSUMPTIONS-OF C19_handover_needs_the_timeout_guard". Abort.
Print Assumptions C19_handover_needs_the_timeout_guard.
Example C19_handover_needs_the_timeout_guard_is_about_the_model_step :
  (* the unguarded step is what wstep_g runs when the regenerated switch is false *)
  forall st id, wstep_g false true st (WTimeout id) = fst (leave_queue false timeout_runs_wake_pass st id).
Proof. reflexivity. Qed.
