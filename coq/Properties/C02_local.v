(* C02, refusal part (local form): a request answered with a refusal code changes nothing (UnLock: only
   UnlockErrorCount + 1) and leaves no wake-up pass.  Every state, no reachability assumption. *)
From Coq Require Import String List NArith ZArith.
From Slock Require Import Engine.Types Engine.Queues Engine.Timers Engine.Engine Engine.Engine2
  Engine.LocalC02 Engine.LocalC04Thms.
Import ListNotations.
Open Scope N_scope.

(* UnLock has exactly three kinds of outcome:
   (1) refusal: one reply UNLOCK_ERROR / UNOWN_ERROR / LOCK_ACK_WAITING / STATE_ERROR to the requester; the state is
       unchanged except UnlockErrorCount + 1; no pass;
   (2) cancel-wait success: ... LOCKED_ERROR to the canceller, then UNLOCK_ERROR to the cancelled request;
   (3) otherwise no event carries a refusal code. *)
Theorem C02_unlock_refusal_unchanged : forall s conn c s' ev w,
  unlock_step s conn c = (s', ev, w) ->
  (s' = bump (fun n => n <| n_unlockerr := (n_unlockerr n + 1)%Z |>) s /\ w = None
   /\ exists res lc lrc d,
        ev = [reply conn c res lc lrc d]
        /\ (res = R_UNLOCK_ERROR \/ res = R_UNOWN_ERROR \/ res = R_ACK_WAITING \/ res = R_STATE_ERROR))
  \/ (exists ev1 lc lrc d wconn wcmd,
        Forall (fun e => match e with
                         | EReply _ _ res _ _ _ _ _ _ =>
                             ~ (res = R_UNLOCK_ERROR \/ res = R_UNOWN_ERROR \/ res = R_ACK_WAITING \/ res = R_STATE_ERROR)
                         | _ => True end) ev1 /\
        ev = ev1 ++ [reply conn c R_LOCKED_ERROR lc lrc d; reply wconn wcmd R_UNLOCK_ERROR lc lrc d])
  \/ Forall (fun e => match e with
                      | EReply _ _ res _ _ _ _ _ _ =>
                          ~ (res = R_UNLOCK_ERROR \/ res = R_UNOWN_ERROR \/ res = R_ACK_WAITING \/ res = R_STATE_ERROR)
                      | _ => True end) ev.
Proof. exact unlock_step_outcomes. Qed.
Goal True. idtac "ASSUMPTIONS-OF C02_unlock_refusal_unchanged". Abort.
Print Assumptions C02_unlock_refusal_unchanged.
(* unlocking with a LockId that holds nothing on a held key: UNOWN_ERROR (7) *)
Example C02_unlock_refusal_unchanged_nonvacuous :
  exists s', unlock_step ex_held2 3 (mkCmd false 9 0 99 5 0 0 0 0 0 0 None)
             = (s', [EReply 3 9 R_UNOWN_ERROR 2 0 99 0 0 None], None).
Proof. eexists. vm_compute. reflexivity. Qed.

(* corollary: a single refusal reply *)
Theorem C02_unlock_refusal_single : forall s conn c s' ev w e res,
  unlock_step s conn c = (s', ev, w) -> ev = [e] ->
  match e with EReply _ _ r _ _ _ _ _ _ => Some r | _ => None end = Some res ->
  (res = R_UNLOCK_ERROR \/ res = R_UNOWN_ERROR \/ res = R_ACK_WAITING \/ res = R_STATE_ERROR) ->
  s' = bump (fun n => n <| n_unlockerr := (n_unlockerr n + 1)%Z |>) s /\ w = None
  /\ exists lc lrc d, e = reply conn c res lc lrc d.
Proof. exact unlock_refusal_single. Qed.
Goal True. idtac "ASSUMPTIONS-OF C02_unlock_refusal_single". Abort.
Print Assumptions C02_unlock_refusal_single.
Example C02_unlock_refusal_single_nonvacuous :
  exists s', unlock_step (init_db 0 0) 3 (mkCmd false 9 0 99 5 0 0 0 0 0 0 None)
             = (s', [EReply 3 9 R_UNLOCK_ERROR 0 0 99 0 0 None], None).
Proof. eexists. vm_compute. reflexivity. Qed.

(* Lock: a reply LOCK_ACK_WAITING, UNOWN_ERROR, or LOCKED_ERROR to a request without the update flag means that the
   state is exactly the old one (the key's manager existed before: nothing is created or removed) and no pass is
   pending *)
Theorem C02_lock_refusal_unchanged : forall s conn c s' ev w e res,
  lock_step s conn c = (s', ev, w) -> In e ev ->
  match e with EReply _ _ r _ _ _ _ _ _ => Some r | _ => None end = Some res ->
  (res = R_ACK_WAITING \/ res = R_UNOWN_ERROR \/ (res = R_LOCKED_ERROR /\ has (c_flag c) LOCK_FLAG_UPDATE = false)) ->
  s' = s /\ w = None.
Proof. exact lock_refusal_unchanged. Qed.
Goal True. idtac "ASSUMPTIONS-OF C02_lock_refusal_unchanged". Abort.
Print Assumptions C02_lock_refusal_unchanged.
(* holder A (LockId 7, Rcount 0) locks again: LOCKED_ERROR (5) *)
Example C02_lock_refusal_unchanged_nonvacuous :
  lock_step ex_held2 1 (mkCmd true 4 0 7 5 0 0 0 10 1 0 None)
  = (ex_held2, [EReply 1 4 R_LOCKED_ERROR 2 1 7 1 0 None], None).
Proof. vm_compute. reflexivity. Qed.
