From Coq Require Import NArith List Lia.
From Slock Require Import Base.Bytes Gen.GenConsts Gen.GenCodecs Codec.CodecThms Codec.CodecInst Codec.ValueFrame.
Import ListNotations.
Local Open Scope N_scope.

(* ---- diagnostics read by checks/C14.py (printed before the first theorem so that they do not mix with the
        Print Assumptions blocks) ---- *)
(* which branch the current source selects (read by checks/C14.py) *)
Goal True. let b := eval vm_compute in (len_ERROR_MSG <? result_code_count) in idtac "C14-RESULT-TEXT-REFUTED" b. Abort.
Goal True. let b := eval vm_compute in len_ERROR_MSG in idtac "C14-LEN-ERROR-MSG" b. Abort.
Goal True. let b := eval vm_compute in result_code_count in idtac "C14-RESULT-CODE-COUNT" b. Abort.

(* the defined byte positions named in the theorems, for the monitors of checks/C14.py *)
Goal True. let v := eval vm_compute in Command_defined in idtac "C14-DEFINED Command" v. Abort.
Goal True. let v := eval vm_compute in ResultCommand_defined in idtac "C14-DEFINED ResultCommand" v. Abort.
Goal True. let v := eval vm_compute in InitCommand_defined in idtac "C14-DEFINED InitCommand" v. Abort.
Goal True. let v := eval vm_compute in InitResultCommand_defined in idtac "C14-DEFINED InitResultCommand" v. Abort.
Goal True. let v := eval vm_compute in LockCommand_defined in idtac "C14-DEFINED LockCommand" v. Abort.
Goal True. let v := eval vm_compute in LockResultCommand_defined in idtac "C14-DEFINED LockResultCommand" v. Abort.
Goal True. let v := eval vm_compute in StateCommand_defined in idtac "C14-DEFINED StateCommand" v. Abort.
Goal True. let v := eval vm_compute in StateResultCommand_defined in idtac "C14-DEFINED StateResultCommand" v. Abort.
Goal True. let v := eval vm_compute in AdminCommand_defined in idtac "C14-DEFINED AdminCommand" v. Abort.
Goal True. let v := eval vm_compute in AdminResultCommand_defined in idtac "C14-DEFINED AdminResultCommand" v. Abort.
Goal True. let v := eval vm_compute in PingCommand_defined in idtac "C14-DEFINED PingCommand" v. Abort.
Goal True. let v := eval vm_compute in PingResultCommand_defined in idtac "C14-DEFINED PingResultCommand" v. Abort.
Goal True. let v := eval vm_compute in QuitCommand_defined in idtac "C14-DEFINED QuitCommand" v. Abort.
Goal True. let v := eval vm_compute in QuitResultCommand_defined in idtac "C14-DEFINED QuitResultCommand" v. Abort.
Goal True. let v := eval vm_compute in LeaderCommand_defined in idtac "C14-DEFINED LeaderCommand" v. Abort.
Goal True. let v := eval vm_compute in SubscribeCommand_defined in idtac "C14-DEFINED SubscribeCommand" v. Abort.
Goal True. let v := eval vm_compute in SubscribeResultCommand_defined in idtac "C14-DEFINED SubscribeResultCommand" v. Abort.
Goal True. let v := eval vm_compute in PublishLock_defined in idtac "C14-DEFINED PublishLock" v. Abort.
Goal True. let v := eval vm_compute in AofLock_defined in idtac "C14-DEFINED AofLock" v. Abort.
Goal True. let v := eval vm_compute in CallCommand_defined in idtac "C14-DEFINED CallCommand" v. Abort.
Goal True. let v := eval vm_compute in CallResultCommand_defined in idtac "C14-DEFINED CallResultCommand" v. Abort.
Goal True. let v := eval vm_compute in LeaderResultCommand_defined in idtac "C14-DEFINED LeaderResultCommand" v. Abort.


(* ---- LOCK / UNLOCK request frame (protocol.LockCommand): lossless both ways, no reserved byte ---- *)
Theorem C14_lock_command_decode_encode :
  forall m s old, LockCommand_wf m -> LockCommand_Decode s (LockCommand_Encode m old) = m.
Proof. exact LockCommand_decode_encode. Qed.
Goal True. idtac "ASSUMPTIONS-OF C14_lock_command_decode_encode". Abort.
Print Assumptions C14_lock_command_decode_encode.

Theorem C14_lock_command_encode_decode :
  forall b s old, length b = 64%nat -> bytes b -> LockCommand_Encode (LockCommand_Decode s b) old = b.
Proof. exact LockCommand_encode_decode_full. Qed.
Goal True. idtac "ASSUMPTIONS-OF C14_lock_command_encode_decode". Abort.
Print Assumptions C14_lock_command_encode_decode.

(* ---- every fixed-layout command / result type: decode(encode m) = m for all field values in the range of the
        Go field types; encode(decode b) reproduces every defined byte of every byte string b; reserved bytes
        are written as zero; 64 bytes; defined ++ blank = 0..63 (blank positions named in Codec/CodecThms*.v) ---- *)
Theorem C14_fixed_codecs :
  codec_ok Command Command_wf Command_Encode Command_Decode Command_defined Command_blank /\
  codec_ok ResultCommand ResultCommand_wf ResultCommand_Encode ResultCommand_Decode ResultCommand_defined ResultCommand_blank /\
  codec_ok InitCommand InitCommand_wf InitCommand_Encode InitCommand_Decode InitCommand_defined InitCommand_blank /\
  codec_ok InitResultCommand InitResultCommand_wf InitResultCommand_Encode InitResultCommand_Decode InitResultCommand_defined InitResultCommand_blank /\
  codec_ok LockCommand LockCommand_wf LockCommand_Encode LockCommand_Decode LockCommand_defined LockCommand_blank /\
  codec_ok LockResultCommand LockResultCommand_wf LockResultCommand_Encode LockResultCommand_Decode LockResultCommand_defined LockResultCommand_blank /\
  codec_ok StateCommand StateCommand_wf StateCommand_Encode StateCommand_Decode StateCommand_defined StateCommand_blank /\
  codec_ok StateResultCommand StateResultCommand_wf StateResultCommand_Encode StateResultCommand_Decode StateResultCommand_defined StateResultCommand_blank /\
  codec_ok AdminCommand AdminCommand_wf AdminCommand_Encode AdminCommand_Decode AdminCommand_defined AdminCommand_blank /\
  codec_ok AdminResultCommand AdminResultCommand_wf AdminResultCommand_Encode AdminResultCommand_Decode AdminResultCommand_defined AdminResultCommand_blank /\
  codec_ok PingCommand PingCommand_wf PingCommand_Encode PingCommand_Decode PingCommand_defined PingCommand_blank /\
  codec_ok PingResultCommand PingResultCommand_wf PingResultCommand_Encode PingResultCommand_Decode PingResultCommand_defined PingResultCommand_blank /\
  codec_ok QuitCommand QuitCommand_wf QuitCommand_Encode QuitCommand_Decode QuitCommand_defined QuitCommand_blank /\
  codec_ok QuitResultCommand QuitResultCommand_wf QuitResultCommand_Encode QuitResultCommand_Decode QuitResultCommand_defined QuitResultCommand_blank /\
  codec_ok LeaderCommand LeaderCommand_wf LeaderCommand_Encode LeaderCommand_Decode LeaderCommand_defined LeaderCommand_blank /\
  codec_ok SubscribeCommand SubscribeCommand_wf SubscribeCommand_Encode SubscribeCommand_Decode SubscribeCommand_defined SubscribeCommand_blank /\
  codec_ok SubscribeResultCommand SubscribeResultCommand_wf SubscribeResultCommand_Encode SubscribeResultCommand_Decode SubscribeResultCommand_defined SubscribeResultCommand_blank /\
  codec_ok PublishLock PublishLock_wf PublishLock_Encode PublishLock_Decode PublishLock_defined PublishLock_blank.
Proof. exact fixed_codecs_ok. Qed.
Goal True. idtac "ASSUMPTIONS-OF C14_fixed_codecs". Abort.
Print Assumptions C14_fixed_codecs.

(* ---- the server's hand-inlined lock-frame decoder and result encoder agree with the protocol package ---- *)
Theorem C14_server_inlined_decoder_agrees :
  forall s b,
    Server_Decode_Lock s b =
      LockCommand_set_magic_version (LockCommand_Decode s b) (LockCommand_Magic s) (LockCommand_Version s) /\
    Server_Decode_Unlock s b =
      LockCommand_set_magic_version (LockCommand_Decode s b) (LockCommand_Magic s) (LockCommand_Version s) /\
    (LockCommand_Magic s = MAGIC -> LockCommand_Version s = VERSION -> nth 0 b 0 = MAGIC -> nth 1 b 0 = VERSION ->
       Server_Decode_Lock s b = LockCommand_Decode s b /\ Server_Decode_Unlock s b = LockCommand_Decode s b).
Proof.
  exact (fun s b => conj (Server_Decode_Lock_agrees s b) (conj (Server_Decode_Unlock_agrees s b)
    (fun hm hv h0 h1 => conj (Server_Decode_Lock_eq s b hm hv h0 h1) (Server_Decode_Unlock_eq s b hm hv h0 h1)))).
Qed.
Goal True. idtac "ASSUMPTIONS-OF C14_server_inlined_decoder_agrees". Abort.
Print Assumptions C14_server_inlined_decoder_agrees.

Theorem C14_server_inlined_result_encoder_agrees :
  forall command result lcount lrcount data_is_nil buf old,
    Server_ResultEncode_args_wf command result lcount lrcount ->
    Server_ResultEncode command result lcount lrcount data_is_nil buf =
    LockResultCommand_Encode (Server_result_record command result lcount lrcount data_is_nil) old.
Proof. exact Server_ResultEncode_eq. Qed.
Goal True. idtac "ASSUMPTIONS-OF C14_server_inlined_result_encoder_agrees". Abort.
Print Assumptions C14_server_inlined_result_encoder_agrees.

(* ---- variable-length strings inside fixed frames: CALL method name (<= 38 bytes), CALL result error type (<= 37),
        LEADER result host (<= 43 bytes with explicit length byte).  Guards: length bound (otherwise Encode returns
        an error), no NUL byte at either end (the padding scheme cannot represent it: see the refuted lemma) ---- *)
Theorem C14_variable_length_codecs :
  (forall m s old, CallCommand_wf m -> (length (CallCommand_MethodName m) <= 38)%nat ->
     no_nul_ends (CallCommand_MethodName m) -> CallCommand_Decode s (CallCommand_Encode m old) = m) /\
  (forall m s old, CallResultCommand_wf m -> (length (CallResultCommand_ErrType m) <= 37)%nat ->
     no_nul_ends (CallResultCommand_ErrType m) -> CallResultCommand_Decode s (CallResultCommand_Encode m old) = m) /\
  (forall m s old, LeaderResultCommand_wf m -> (length (LeaderResultCommand_Host m) <= 43)%nat ->
     LeaderResultCommand_HostLen m = N.of_nat (length (LeaderResultCommand_Host m)) ->
     LeaderResultCommand_Decode s (LeaderResultCommand_Encode m old) = m /\
     LeaderResultCommand_Decode_outcome s (LeaderResultCommand_Encode m old) = 0) /\
  (forall b s old, bytes b -> forall i, In i CallCommand_defined ->
     nth i (CallCommand_Encode (CallCommand_Decode s b) old) 0 = nth i b 0) /\
  (forall b s old, bytes b -> forall i, In i CallResultCommand_defined ->
     nth i (CallResultCommand_Encode (CallResultCommand_Decode s b) old) 0 = nth i b 0) /\
  (forall b s old, bytes b -> forall i, In i LeaderResultCommand_defined ->
     nth i (LeaderResultCommand_Encode (LeaderResultCommand_Decode s b) old) 0 = nth i b 0).
Proof.
  exact (conj CallCommand_decode_encode (conj CallResultCommand_decode_encode (conj LeaderResultCommand_decode_encode
        (conj CallCommand_encode_decode (conj CallResultCommand_encode_decode LeaderResultCommand_encode_decode))))).
Qed.
Goal True. idtac "ASSUMPTIONS-OF C14_variable_length_codecs". Abort.
Print Assumptions C14_variable_length_codecs.

(* the unguarded CALL statement is false (witness: method name "a\000"), and LEADER result frames whose length byte
   exceeds 43 are not decodable (panic today, error once repaired) *)
Theorem C14_variable_length_limits :
  (exists m s old, CallCommand_wf m /\ (length (CallCommand_MethodName m) <= 38)%nat /\
     CallCommand_Decode s (CallCommand_Encode m old) <> m) /\
  (forall b s, length b = 64%nat -> bytes b -> 43 < nth 20 b 0 -> LeaderResultCommand_Decode_outcome s b <> 0).
Proof. exact (conj CallCommand_decode_encode_unguarded_refuted LeaderResultCommand_decode_fails_on_long_hostlen). Qed.
Goal True. idtac "ASSUMPTIONS-OF C14_variable_length_limits". Abort.
Print Assumptions C14_variable_length_limits.

(* ---- value frames with property headers (hand model Codec/ValueFrame.v, tied by the correspondence check) ---- *)
Theorem C14_value_frames :
  (forall data stage typ flag ps, Forall vprop_ok ps -> vprops_len ps < 65536 ->
     let f := frame_of (frame_build data stage typ flag (Some ps)) in
     frame_props f = Some (Some (map vprop_norm ps)) /\ frame_value f = Some data) /\
  (forall data stage typ flag, N.land flag LOCK_DATA_FLAG_CONTAINS_PROPERTY = 0 ->
     let f := frame_of (frame_build data stage typ flag None) in
     frame_props f = Some None /\ frame_value f = Some data) /\
  (forall data stage typ flag props, stage < 4 ->
     let f := frame_of (frame_build data stage typ flag props) in
     frame_stage f = stage /\ frame_type f = typ mod 64) /\
  (forall data stage typ flag props,
     let f := frame_of (frame_build data stage typ flag props) in
     N.of_nat (length f) < 4294967296 ->
     nth 0 f 0 + 256 * nth 1 f 0 + 65536 * nth 2 f 0 + 16777216 * nth 3 f 0 = N.of_nat (length f) - 4).
Proof.
  exact (conj frame_build_read_props (conj frame_build_read_plain (conj frame_build_read_header frame_build_length_prefix))).
Qed.
Goal True. idtac "ASSUMPTIONS-OF C14_value_frames". Abort.
Print Assumptions C14_value_frames.

(* ---- README byte tables (transcribed in Codec/Readme.v) ---- *)
Theorem C14_readme_offsets :
  (forall m old i, (i < 64)%nat -> nth i (LockCommand_Encode m old) 0 = readme_request_byte m i) /\
  (forall m old i, (i < 64)%nat -> nth i (LockResultCommand_Encode m old) 0 = readme_response_byte m i).
Proof. exact (conj LockCommand_encode_readme LockResultCommand_encode_readme). Qed.
Goal True. idtac "ASSUMPTIONS-OF C14_readme_offsets". Abort.
Print Assumptions C14_readme_offsets.

(* ---- AOF record (re-used by C07/C08/C09/C16) ---- *)
Theorem C14_aof_record_roundtrip :
  (forall m s old, AofLock_wf m -> AofLock_Decode s (AofLock_Encode m old) = m) /\
  (forall b s, length b = 64%nat -> bytes b -> AofLock_Encode (AofLock_Decode s b) b = b) /\
  (forall b s old, bytes b -> forall i, In i AofLock_defined ->
      nth i (AofLock_Encode (AofLock_Decode s b) old) 0 = nth i b 0).
Proof. exact (conj AofLock_decode_encode (conj AofLock_encode_decode_inplace AofLock_encode_decode)). Qed.
Goal True. idtac "ASSUMPTIONS-OF C14_aof_record_roundtrip". Abort.
Print Assumptions C14_aof_record_roundtrip.

(* ---- every result code has a text rendering: holds iff the generated table is long enough; exactly one
        branch is selected by the generated constants ---- *)
Theorem C14_result_text_rendering :
  if len_ERROR_MSG <? result_code_count then result_text_gap /\ ~ result_text_total
  else result_text_total /\ ~ result_text_gap.
Proof. exact result_text_dichotomy. Qed.
Goal True. idtac "ASSUMPTIONS-OF C14_result_text_rendering". Abort.
Print Assumptions C14_result_text_rendering.
(* ---- non-vacuity: the hypotheses are satisfiable ---- *)
Example C14_lock_command_wf_inhabited :
  LockCommand_wf (mkLockCommand 86 1 1 (repeat 7 16) 0 0 (repeat 1 16) (repeat 2 16) 0 5 0 10 0 0).
Proof. unfold LockCommand_wf. cbn. repeat split; try lia; repeat constructor. Qed.
Example C14_buffer_inhabited : length (repeat 255 64) = 64%nat /\ bytes (repeat 255 64).
Proof. split; [reflexivity|]. unfold bytes. cbn. repeat constructor. Qed.
Example C14_aof_wf_inhabited :
  AofLock_wf (mkAofLock 1 3 4096 1700000000 0 0 (repeat 1 16) (repeat 2 16) 0 0 0 60 0 0).
Proof. unfold AofLock_wf. cbn. repeat split; try lia; repeat constructor. Qed.
Example C14_call_inhabited :
  CallCommand_wf (mkCallCommand 86 1 7 (repeat 0 16) 0 3 1 5 [76; 73; 83; 84]) /\ no_nul_ends [76; 73; 83; 84].
Proof. split; [unfold CallCommand_wf; cbn; repeat split; try lia; repeat constructor; lia | split; cbn; discriminate]. Qed.
Example C14_value_frame_inhabited :
  Forall vprop_ok [mkVprop 1 (Some [107]); mkVprop 2 None] /\ vprops_len [mkVprop 1 (Some [107]); mkVprop 2 None] < 65536.
Proof. split; [repeat constructor; cbn; lia | cbn; lia]. Qed.
Example C14_server_args_inhabited :
  Server_ResultEncode_args_wf (mkLockCommand 86 1 1 (repeat 7 16) 0 0 (repeat 1 16) (repeat 2 16) 0 5 0 10 0 0) 0 1 0.
Proof. unfold Server_ResultEncode_args_wf, LockCommand_wf. cbn. repeat split; try lia; repeat constructor. Qed.
