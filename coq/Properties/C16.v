(* C16 — log compaction preserves the recoverable state, even if interrupted.  Model: coq/Aof/Rewrite.v (directory =
   association list file name -> bytes; compaction = ordered list of file-system mutations); proofs: RewriteProofs.v. *)
From Coq Require Import List NArith ZArith Bool Lia.
From Slock Require Import Aof.AofRec Aof.AofFile Aof.AofLoad Aof.AofProofs Aof.Rewrite Aof.RewriteProofs.
Import ListNotations.
Open Scope N_scope.

(* (a) What loadRewriteAofFiles writes (any buffer size, AppendLock/WriteLockData/Flush/Close) and a later start reads
   back is exactly the list of kept items, in order, each with its own value: nothing torn, no value shifted. *)
Theorem C16_compaction_filters_and_keeps_order :
  forall (fx : fixes) (bs rbs : nat) (now : Z) (l : list item) (lbuf : bytes),
  (64 <= rbs)%nat -> Forall wf_ditem l -> lbuf_ok lbuf ->
  let '(a, d) := apply_trace (run_ops bs (mkwst [] []) (item_ops l)) header [] in
  exists lb, load_file fx rbs now (Some a) (Some d) lbuf
             = (live now (map (fun it => (norm (fst it), snd it)) l), SCont, lb) /\ lbuf_ok lb.
Proof. exact rewrite_file_roundtrip. Qed.
Goal True. idtac "ASSUMPTIONS-OF C16_compaction_filters_and_keeps_order". Abort.
Print Assumptions C16_compaction_filters_and_keeps_order.
Example C16_compaction_filters_and_keeps_order_nonvacuous :
  Forall wf_ditem [(w_rec 1 0x2000, Some (w_val 7)); (w_rec 2 0, None)].
Proof.
  apply Forall_cons; [split; [reflexivity|split; [reflexivity|split; [simpl; lia|reflexivity]]]|].
  apply Forall_cons; [split; reflexivity|apply Forall_nil].
Qed.

(* (a) in the form of the property: for every replay function (lock engine) that does not depend on the records
   HasLock rejects — the hypothesis on has_lock: it keeps exactly the records of holds that are still live —
   recovering from the compacted file gives the same state as the list the compaction read. *)
Theorem C16_compaction_preserves_replay :
  forall (S : Type) (replay : list item -> S) (has_lock : bytes -> option bytes -> bool)
         (fx : fixes) (bs rbs : nat) (now : Z) (l : list item),
  (64 <= rbs)%nat -> Forall wf_ditem (kept has_lock l) ->
  replay (live now (map (fun it => (norm (fst it), snd it)) (kept has_lock l))) = replay l ->
  let '(a, d) := apply_trace (run_ops bs (mkwst [] []) (item_ops (kept has_lock l))) header [] in
  exists its, recover fx rbs [(FRewrite, a); (FRewriteDat, d)] now = ROk its /\ replay its = replay l.
Proof. exact @compaction_preserves_replay. Qed.
Goal True. idtac "ASSUMPTIONS-OF C16_compaction_preserves_replay". Abort.
Print Assumptions C16_compaction_preserves_replay.
Example C16_compaction_preserves_replay_nonvacuous :
  Forall wf_ditem (kept all_live [(w_rec 2 0, None)]) /\
  length (live w_now (map (fun it => (norm (fst it), snd it)) (kept all_live [(w_rec 2 0, None)]))) = length [(w_rec 2 0, @None bytes)].
Proof. split; [apply Forall_cons; [split; reflexivity|apply Forall_nil]|vm_compute; reflexivity]. Qed.

(* (b) refuted on the faithful model: clearRewriteAofFiles removes the inputs BEFORE renaming rewrite.aof.tmp. *)
Theorem C16_refuted_crash_before_rename :
  recover today 4096 c_dir w_now = ROk [(w_rec 1 0, None); (w_rec 2 0, None)] /\
  length (compact_steps all_live today 4096 true c_dir 1 w_now) = 8%nat /\
  recover today 4096 (crash_after all_live today 4096 true c_dir 1 w_now 5) w_now = ROk [] /\
  recover today 4096 (crash_after all_live today 4096 true c_dir 1 w_now 6) w_now = ROk [] /\
  recover today 4096 (compact all_live today 4096 true c_dir 1 w_now) w_now
    = ROk [(mark_rewrited (w_rec 1 0), None); (mark_rewrited (w_rec 2 0), None)].
Proof. exact refuted_crash_before_rename. Qed.
Goal True. idtac "ASSUMPTIONS-OF C16_refuted_crash_before_rename". Abort.
Print Assumptions C16_refuted_crash_before_rename.

Theorem C16_refuted_value_file_renamed_separately :
  recover today 4096 c_dir_v w_now = ROk [(w_rec 1 0x2000, Some (w_val 7))] /\
  recover today 4096 (crash_after all_live today 4096 true c_dir_v 1 w_now 7) w_now = RStartFails ENoDataFile [] /\
  recover today 4096 (compact all_live today 4096 true c_dir_v 1 w_now) w_now
    = ROk [(mark_rewrited (w_rec 1 0x2000), Some (w_val 7))].
Proof. exact refuted_value_file_renamed_separately. Qed.
Goal True. idtac "ASSUMPTIONS-OF C16_refuted_value_file_renamed_separately". Abort.
Print Assumptions C16_refuted_value_file_renamed_separately.
