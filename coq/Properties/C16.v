(* C16 — log compaction preserves the recoverable state, even if interrupted.  Model: coq/Aof/Rewrite.v (directory =
   association list file name -> bytes; compaction = ordered list of file-system mutations); proofs: RewriteProofs.v. *)
From Coq Require Import List NArith ZArith Bool Lia.
From Slock Require Import Aof.AofRec Aof.AofFile Aof.AofLoad Aof.AofProofs Aof.Rewrite Aof.RewriteProofs.
Import ListNotations.
Open Scope N_scope.

(* (a) What loadRewriteAofFiles writes (any buffer size, AppendLock/WriteLockData/Flush/Close) and a later start reads
   back is exactly the list of kept items, in order, each with its own value: nothing torn, no value shifted. *)
Theorem C16_compaction_filters_and_keeps_order :
  forall (fx : fixes) (bs rbs : nat) (now : Z) (l : list item) (lbuf : bytes),
  (64 <= rbs)%nat -> Forall wf_ditem l -> lbuf_ok lbuf ->
  let '(a, d) := apply_trace (run_ops bs (mkwst [] []) (item_ops l)) header [] in
  exists lb, load_file fx rbs now (Some a) (Some d) lbuf
             = (live now (map (fun it => (norm (fst it), snd it)) l), SCont, lb) /\ lbuf_ok lb.
Proof. exact rewrite_file_roundtrip. Qed.
Goal True. idtac "ASSUMPTIONS-OF C16_compaction_filters_and_keeps_order". Abort.
Print Assumptions C16_compaction_filters_and_keeps_order.
Example C16_compaction_filters_and_keeps_order_nonvacuous :
  Forall wf_ditem [(w_rec 1 0x2000, Some (w_val 7)); (w_rec 2 0, None)].
Proof.
  apply Forall_cons; [split; [reflexivity|split; [reflexivity|split; [simpl; lia|reflexivity]]]|].
  apply Forall_cons; [split; reflexivity|apply Forall_nil].
Qed.

(* (a) in the form of the property: for every replay function (lock engine) that does not depend on the records
   HasLock rejects — the hypothesis on has_lock: it keeps exactly the records of holds that are still live —
   recovering from the compacted file gives the same state as the list the compaction read. *)
Theorem C16_compaction_preserves_replay :
  forall (S : Type) (replay : list item -> S) (has_lock : bytes -> option bytes -> bool)
         (fx : fixes) (bs rbs : nat) (now : Z) (l : list item),
  (64 <= rbs)%nat -> Forall wf_ditem (kept has_lock l) ->
  replay (live now (map (fun it => (norm (fst it), snd it)) (kept has_lock l))) = replay l ->
  let '(a, d) := apply_trace (run_ops bs (mkwst [] []) (item_ops (kept has_lock l))) header [] in
  exists its, recover fx rbs [(FRewrite, a); (FRewriteDat, d)] now = ROk its /\ replay its = replay l.
Proof. exact @compaction_preserves_replay. Qed.
Goal True. idtac "ASSUMPTIONS-OF C16_compaction_preserves_replay". Abort.
Print Assumptions C16_compaction_preserves_replay.
Example C16_compaction_preserves_replay_nonvacuous :
  Forall wf_ditem (kept all_live [(w_rec 2 0, None)]) /\
  length (live w_now (map (fun it => (norm (fst it), snd it)) (kept all_live [(w_rec 2 0, None)]))) = length [(w_rec 2 0, @None bytes)].
Proof. split; [apply Forall_cons; [split; reflexivity|apply Forall_nil]|vm_compute; reflexivity]. Qed.

(* (b) refuted on the faithful model: clearRewriteAofFiles removes the inputs BEFORE renaming rewrite.aof.tmp. *)
Theorem C16_refuted_crash_before_rename :
  recover today 4096 c_dir w_now = ROk [(w_rec 1 0, None); (w_rec 2 0, None)] /\
  length (compact_steps all_live today 4096 true c_dir 1 w_now) = 8%nat /\
  recover today 4096 (crash_after all_live today 4096 true c_dir 1 w_now 5) w_now = ROk [] /\
  recover today 4096 (crash_after all_live today 4096 true c_dir 1 w_now 6) w_now = ROk [] /\
  recover today 4096 (compact all_live today 4096 true c_dir 1 w_now) w_now
    = ROk [(mark_rewrited (w_rec 1 0), None); (mark_rewrited (w_rec 2 0), None)].
Proof. exact refuted_crash_before_rename. Qed.
Goal True. idtac "ASSUMPTIONS-OF C16_refuted_crash_before_rename". Abort.
Print Assumptions C16_refuted_crash_before_rename.

Theorem C16_refuted_value_file_renamed_separately :
  recover today 4096 c_dir_v w_now = ROk [(w_rec 1 0x2000, Some (w_val 7))] /\
  recover today 4096 (crash_after all_live today 4096 true c_dir_v 1 w_now 7) w_now = RStartFails ENoDataFile [] /\
  recover today 4096 (compact all_live today 4096 true c_dir_v 1 w_now) w_now
    = ROk [(mark_rewrited (w_rec 1 0x2000), Some (w_val 7))].
Proof. exact refuted_value_file_renamed_separately. Qed.
Goal True. idtac "ASSUMPTIONS-OF C16_refuted_value_file_renamed_separately". Abort.
Print Assumptions C16_refuted_value_file_renamed_separately.

(* (c) At most one compaction is active.  The entry guard of rewriteAofFiles as a state machine over the two flags of
   the Aof struct (idle / rewriting / wait-rewrite; source switch: the guard tests isRewriting — read from the source
   text by checks/C16.py, and the flag values are read from the real struct at every crash point).  For EVERY sequence
   of requests (size threshold, admin command, start-up, barrier), follower rotations and completions: never two active
   compactions, and isRewriting says exactly whether one is active. *)
Theorem C16_at_most_one_compaction :
  forall evs : list gevent,
  let g := grun true evs g_idle in
  (g_active g <= 1)%nat /\ (g_rewriting g = true <-> g_active g = 1%nat).
Proof. exact guard_at_most_one. Qed.
Goal True. idtac "ASSUMPTIONS-OF C16_at_most_one_compaction". Abort.
Print Assumptions C16_at_most_one_compaction.
Example C16_at_most_one_compaction_nonvacuous :
  grun true [GRequest; GRequest; GDefer; GFinish; GRequest] g_idle = mkguard true false 1.
Proof. reflexivity. Qed.

(* (c) A request that arrives while a compaction runs changes NOTHING (no flag, no second compaction: the code drops it,
   it does not defer it); in every other state it starts one and clears the wait flag. *)
Theorem C16_request_while_rewriting_is_dropped :
  forall g : guard,
  (g_rewriting g = true -> gstep true g GRequest = g /\ gmark_of true g GRequest = []) /\
  (g_rewriting g = false -> gstep true g GRequest = mkguard true false (S (g_active g)) /\ gmark_of true g GRequest = [GStarted]).
Proof. exact guard_request_spec. Qed.
Goal True. idtac "ASSUMPTIONS-OF C16_request_while_rewriting_is_dropped". Abort.
Print Assumptions C16_request_while_rewriting_is_dropped.
Example C16_request_while_rewriting_is_dropped_nonvacuous :
  g_rewriting (gstep true g_idle GRequest) = true /\ g_rewriting g_idle = false.
Proof. split; reflexivity. Qed.

(* (c) In every history the compactions that start and the compactions that finish alternate, beginning with a start:
   a compaction starts only after the previous one has returned (GFinish = the deferred function of rewriteAofFiles,
   which runs after clearRewriteAofFiles has renamed the result). *)
Theorem C16_compactions_start_after_the_previous_finished :
  forall evs : list gevent, alternates true (glog true evs g_idle) = true.
Proof. exact guard_starts_alternate. Qed.
Goal True. idtac "ASSUMPTIONS-OF C16_compactions_start_after_the_previous_finished". Abort.
Print Assumptions C16_compactions_start_after_the_previous_finished.
Example C16_compactions_start_after_the_previous_finished_nonvacuous :
  glog true [GRequest; GRequest; GFinish; GRequest] g_idle = [GStarted; GFinished; GStarted].
Proof. reflexivity. Qed.

(* the switch matters: with the guard on the other flag two requests give two active compactions *)
Theorem C16_guard_on_other_flag_overlaps :
  g_active (grun false [GRequest; GRequest] g_idle) = 2%nat /\ alternates true (glog false [GRequest; GRequest] g_idle) = false.
Proof. exact guard_on_other_flag_overlaps. Qed.
Goal True. idtac "ASSUMPTIONS-OF C16_guard_on_other_flag_overlaps". Abort.
Print Assumptions C16_guard_on_other_flag_overlaps.

(* ([fresh]: source switch of loadRewriteAofFiles, false = today: a left-over rewrite.aof.tmp is appended to; the theorems
   of (d) hold for both variants, the refutations above are about directories without a left-over tmp file, where the two
   variants coincide: compact_steps_no_stale_tmp.)
   (d) Appends during the rewrite go to a file that is not among the inputs: findRewriteAofFiles never returns the
   current append file or a later one (nor their value files), and every mutation of the compaction goroutine stays
   inside its footprint (tmp pair, rewrite pair, append files with a smaller index). *)
Theorem C16_appends_avoid_the_compaction_inputs :
  forall (has_lock : bytes -> option bytes -> bool) (fx : fixes) (bs : nat) (fresh : bool) (d : dir) (cur : N) (now : Z),
  (forall l i, rewrite_inputs d cur = Some l -> cur <= i -> ~ In (FAppend i) l /\ ~ In (FAppendDat i) (map dat_of l)) /\
  Forall (local_mut cur) (compact_steps_v has_lock fx bs fresh false d cur now) /\
  (forall k f, local_file cur f = false -> dget (crash_after_v has_lock fx bs fresh false d cur now k) f = dget d f) /\
  compact_steps_v has_lock fx bs fresh true d cur now =
    [MPut (FAppend (cur + 1)) header; MPut (FAppendDat (cur + 1)) []] ++
    compact_steps_v has_lock fx bs fresh false (run_steps d [MPut (FAppend (cur + 1)) header; MPut (FAppendDat (cur + 1)) []]) (cur + 1) now.
Proof. exact appends_avoid_inputs. Qed.
Goal True. idtac "ASSUMPTIONS-OF C16_appends_avoid_the_compaction_inputs". Abort.
Print Assumptions C16_appends_avoid_the_compaction_inputs.
Example C16_appends_avoid_the_compaction_inputs_nonvacuous :
  rewrite_inputs (run_steps c_dir [MPut (FAppend 2) header; MPut (FAppendDat 2) []]) 2 = Some [FAppend 1] /\
  length (compact_steps all_live today 4096 false (run_steps c_dir [MPut (FAppend 2) header; MPut (FAppendDat 2) []]) 2 w_now) = 6%nat.
Proof. split; vm_compute; reflexivity. Qed.

(* (d) Compaction at a busy moment.  [fs]: what the rest of the server does to the directory meanwhile (flushed appends to
   the current or a newer append file, rotations); [ms]: ANY interleaving of the compaction goroutine's mutations with
   them.  The directory is the one of the quiescent compaction with the appends on top (= the appends first, then the
   compaction), and EVERY crash image of the busy run is a crash image of the quiescent compaction with a prefix of the
   appends on top; a restart recovers the same from both. *)
Theorem C16_busy_compaction_is_quiescent_compaction_plus_appends :
  forall (has_lock : bytes -> option bytes -> bool) (fx : fixes) (bs : nat) (fresh : bool) (rbs : nat) (d : dir) (cur : N) (now : Z)
         (fs ms : list mutation),
  let cs := compact_steps_v has_lock fx bs fresh false d cur now in
  Forall (fun f => foreign_mut cur f = true) fs -> merge cs fs ms ->
  dir_equiv (run_steps d ms) (run_steps (compact_v has_lock fx bs fresh false d cur now) fs) /\
  dir_equiv (run_steps d ms) (run_steps (run_steps d fs) cs) /\
  forall n, exists k j,
    dir_equiv (run_steps d (firstn n ms)) (run_steps (crash_after_v has_lock fx bs fresh false d cur now k) (firstn j fs)) /\
    forall rnow, recover fx rbs (run_steps d (firstn n ms)) rnow
                 = recover fx rbs (run_steps (crash_after_v has_lock fx bs fresh false d cur now k) (firstn j fs)) rnow.
Proof. exact busy_compaction. Qed.
Goal True. idtac "ASSUMPTIONS-OF C16_busy_compaction_is_quiescent_compaction_plus_appends". Abort.
Print Assumptions C16_busy_compaction_is_quiescent_compaction_plus_appends.
Example C16_busy_compaction_is_quiescent_compaction_plus_appends_nonvacuous :
  let d := run_steps c_dir [MPut (FAppend 2) header; MPut (FAppendDat 2) []] in
  let fs := [MPut (FAppend 2) (header ++ w_rec 3 0); MPut (FAppend 3) header] in
  Forall (fun f => foreign_mut 2 f = true) fs /\
  exists ms, merge (compact_steps all_live today 4096 false d 2 w_now) fs ms /\ length ms = 8%nat /\
             recover today 4096 (run_steps d ms) w_now
             = ROk [(mark_rewrited (w_rec 1 0), None); (mark_rewrited (w_rec 2 0), None); (w_rec 3 0, None)].
Proof.
  cbv zeta. split; [repeat constructor|].
  eexists. split; [|split].
  - vm_compute. apply merge_l. apply merge_r. apply merge_l. apply merge_l. apply merge_r. apply merge_l. apply merge_l. apply merge_l. apply merge_nil.
  - reflexivity.
  - vm_compute. reflexivity.
Qed.
