(* C20 -- internal queues refine a plain deque (resp. a stable priority queue).  Statements only; proofs in coq/Queue/. *)
From Coq Require Import List ZArith Bool Lia.
From Slock Require Import Queue.SegQueue Queue.ListLemmas Queue.SegQueueInv Queue.SegQueueOps Queue.SegQueueRefine.
From Slock Require Import Queue.KeyQueues Queue.KeyQueuesProofs Queue.KeyWaitLockProofs.
From Slock Require Import Queue.SegQueueFrame Queue.LongWait Queue.LongWaitProofs.
Import ListNotations.
Open Scope Z_scope.

(* ===== segmented queue of server/queue.go (LockQueue = LockCommandQueue = LockManagerQueue) ===== *)

(* constructor: for ALL parameters 1 <= base, 1 <= nodes, 1 <= size < 2^30 the invariant holds and the queue is empty *)
Theorem C20_seg_new : forall base nodes size, 1 <= base -> 1 <= nodes -> 1 <= size < POW30 ->
  exists q, new base nodes size = Ok q /\ Inv q /\ abs q = [] /\ room q = 0.
Proof. exact new_spec. Qed.
Goal True. idtac "ASSUMPTIONS-OF C20_seg_new". Abort.
Print Assumptions C20_seg_new.

(* every covered method (Push, PushLeft, Pop, PopRight, Head, Tail, Len) preserves the representation invariant,
   never panics and returns / leaves exactly what the plain deque (left room, contents) does *)
Theorem C20_seg_step_refines_partial : forall q o, Inv q -> covered o = true ->
  exists q', step q o = Ok (q', snd (dq_step (absq q) o)) /\ Inv q' /\ absq q' = fst (dq_step (absq q) o).
Proof. exact step_refines. Qed.
Goal True. idtac "ASSUMPTIONS-OF C20_seg_step_refines_partial". Abort.
Print Assumptions C20_seg_step_refines_partial.

(* ALL operation lists over the covered methods, ALL constructor parameters: the observations of the queue are
   exactly those of the plain deque started empty with left room 0; the run ends normally (no Panic, no OutOfFuel).
   PARTIAL: Iter*, Resize, Rellac, Reset, freeQueue, Restructuring, Hole are modelled and compared with the Go code
   but their refinement lemmas are not proved (coq/Queue/STATUS.md); Shrink / Restructuring / restructuringLong are
   refuted below. *)
Theorem C20_seg_refines_deque_partial : forall base nodes size ops,
  1 <= base -> 1 <= nodes -> 1 <= size < POW30 -> forallb covered ops = true ->
  exists qf, run_new base nodes size ops = (fst (dq_run (0, []) ops), EDone, Some qf) /\ Inv qf /\
             absq qf = snd (dq_run (0, []) ops).
Proof. exact seg_new_run_refines_partial. Qed.
Goal True. idtac "ASSUMPTIONS-OF C20_seg_refines_deque_partial". Abort.
Print Assumptions C20_seg_refines_deque_partial.

(* refutations on the faithful model; each witness is replayed on the Go code (corpus/C20/f*.json) *)
Theorem C20_shrink_refuted :
  exists ops, fst (fst (run_new 1 1 2 (ops ++ [OpLen; OpIter]))) =
                [OUnit; OUnit; OUnit; OInt 3; ONodes [[Some 1%N; Some 2%N]; [Some 3%N]]]
           /\ fst (fst (run_new 1 1 2 (ops ++ [OpShrink 0; OpLen; OpIter]))) =
                [OUnit; OUnit; OUnit; OInt 2; OInt 1; ONodes [[]; [Some 3%N]]].
Proof. exact shrink_refuted. Qed.
Goal True. idtac "ASSUMPTIONS-OF C20_shrink_refuted". Abort.
Print Assumptions C20_shrink_refuted.

Theorem C20_restructuring_refuted :
  exists ops, snd (fst (run_new 1 1 1 ops)) = EPanic /\
              forallb (fun o => match o with OpPush _ | OpPopRight | OpHole _ | OpRestructuring => true | _ => false end) ops = true.
Proof. exact restructuring_refuted. Qed.
Goal True. idtac "ASSUMPTIONS-OF C20_restructuring_refuted". Abort.
Print Assumptions C20_restructuring_refuted.

Theorem C20_restructuringLong_refuted :
  exists ops, snd (fst (run_new 5 5 1 ops)) = EPanic /\
              forallb (fun o => match o with OpPush _ | OpPop | OpRestructuringLong | OpReset => true | _ => false end) ops = true.
Proof. exact restructuringLong_refuted. Qed.
Goal True. idtac "ASSUMPTIONS-OF C20_restructuringLong_refuted". Abort.
Print Assumptions C20_restructuringLong_refuted.

(* ===== per-key queues of server/lock.go ===== *)

(* LockManagerRingQueue: FIFO *)
Theorem C20_ring_fifo : forall (r : ring) (x : option N), ring_inv r ->
  (ring_abs (ring_push r x) = ring_abs r ++ [x] /\ ring_inv (ring_push r x)) /\
  (snd (ring_pop r) = hd None (ring_abs r) /\ ring_abs (fst (ring_pop r)) = tl (ring_abs r) /\ ring_inv (fst (ring_pop r))) /\
  ring_len r = Z.of_nat (length (ring_abs r)) /\ concat (ring_iter r) = ring_abs r.
Proof.
  intros r x I. split; [apply ring_push_abs; auto|]. split; [apply ring_pop_abs; auto|].
  split; [apply ring_len_abs; auto | apply ring_iter_abs].
Qed.
Goal True. idtac "ASSUMPTIONS-OF C20_ring_fifo". Abort.
Print Assumptions C20_ring_fifo.

(* LockManagerPriorityRingQueue: stable priority queue (insertion after all elements of priority >= that of x) *)
Theorem C20_priority_ring_stable : forall (pf : N -> N) (st : store) (q : prq) (i : N),
  (forall j, prio_of st j = pf j) -> pq_inv pf q ->
  (exists q', pq_push st q (Some i) = Ok q' /\ pq_abs q' = spec_insert pf (Some i) (pq_abs q) /\ pq_inv pf q' /\ pq_size q' = pq_size q) /\
  (snd (pq_pop q) = hd None (pq_abs q) /\ pq_abs (fst (pq_pop q)) = tl (pq_abs q) /\ pq_inv pf (fst (pq_pop q))) /\
  pq_len q = Z.of_nat (length (pq_abs q)) /\ concat (pq_iter q) = pq_abs q /\ sorted_desc pf (pq_abs q).
Proof.
  intros pf st q i P I. split; [apply pq_push_abs; auto|]. split; [apply pq_pop_abs; auto|].
  split; [apply (pq_len_abs pf); auto|]. split; [apply pq_iter_abs | apply pq_abs_sorted; auto].
Qed.
Goal True. idtac "ASSUMPTIONS-OF C20_priority_ring_stable". Abort.
Print Assumptions C20_priority_ring_stable.

(* LockManagerWaitQueue, plain mode (inline fastQueue -> ring queue): Push appends, possibly after dropping exactly the
   entries tombstoned at that moment (order of the others preserved, one refCount decrement per dropped entry) *)
Theorem C20_wait_queue_push_fifo : forall (pf : N -> N) (st : store) (q : wq) (x : option N),
  wq_inv pf q -> plain_mode q ->
  exists q' st', wq_push st q x = Ok (q', st') /\ wq_inv pf q' /\ plain_mode q' /\
    ((wq_abs q' = wq_abs q ++ [x] /\ st' = st) \/
     (wq_abs q' = filter (live wait_dead st) (wq_abs q) ++ [x] /\
      st' = fold_left dec_slot (filter (tomb wait_dead st) (wq_abs q)) st)).
Proof. exact wq_push_plain. Qed.
Goal True. idtac "ASSUMPTIONS-OF C20_wait_queue_push_fifo". Abort.
Print Assumptions C20_wait_queue_push_fifo.

Theorem C20_wait_queue_pop : forall (pf : N -> N) (q : wq), wq_inv pf q ->
  (snd (wq_pop q) = hd None (wq_abs q) /\ wq_abs (fst (wq_pop q)) = tl (wq_abs q) /\ wq_inv pf (fst (wq_pop q)) /\
   (plain_mode q -> plain_mode (fst (wq_pop q)))) /\
  wq_len q = Z.of_nat (length (wq_abs q)) /\ concat (wq_iter q) = wq_abs q.
Proof. intros pf q I. split; [apply wq_pop_abs; auto|]. split; [apply (wq_len_abs pf); auto | apply wq_iter_abs]. Qed.
Goal True. idtac "ASSUMPTIONS-OF C20_wait_queue_pop". Abort.
Print Assumptions C20_wait_queue_pop.

(* representation switch to the priority ring: RePushPriorityRingQueue = stable priority sort of the FIFO content *)
Theorem C20_wait_queue_repush_stable_sort : forall (pf : N -> N) (st : store) (q : wq),
  (forall j, prio_of st j = pf j) -> wq_inv pf q -> plain_mode q -> Forall is_some (wq_abs q) ->
  exists q', wq_repush st q = Ok q' /\ wq_abs q' = spec_sort pf (wq_abs q) /\ wq_inv pf q' /\ w_findex q' = -1 /\
             (exists p, w_ring q' = RPrio p).
Proof. exact wq_repush_abs. Qed.
Goal True. idtac "ASSUMPTIONS-OF C20_wait_queue_repush_stable_sort". Abort.
Print Assumptions C20_wait_queue_repush_stable_sort.

(* the same switch stated for the MIXED representation explicitly: a non-empty inline part fastQueue[fastIndex:]
   followed by a plain ring (the inline array overflowed at its maximal capacity full of live waiters).  Both parts are
   carried into the priority ring, the ring part after the inline part; Len afterwards is the sum of the two lengths
   (nothing lost, nothing duplicated).  (C20_wait_queue_repush_stable_sort above already quantifies over every
   plain-mode state: wq_abs = inline part ++ ring part.) *)
Theorem C20_wait_queue_repush_mixed : forall (pf : N -> N) (st : store) (q : wq) (s : slice) (r : ring),
  (forall j, prio_of st j = pf j) -> wq_inv pf q ->
  w_fast q = Some s -> w_ring q = RPlain r -> 0 <= w_findex q < Z.of_nat (length (s_data s)) ->
  Forall is_some (skipn (Z.to_nat (w_findex q)) (s_data s)) -> Forall is_some (ring_abs r) ->
  exists q' p, wq_repush st q = Ok q' /\ w_ring q' = RPrio p /\ w_findex q' = -1 /\ wq_inv pf q' /\
    wq_abs q' = spec_sort pf (skipn (Z.to_nat (w_findex q)) (s_data s) ++ ring_abs r) /\
    wq_len q' = Z.of_nat (length (skipn (Z.to_nat (w_findex q)) (s_data s))) + Z.of_nat (length (ring_abs r)).
Proof. exact wq_repush_mixed. Qed.
Goal True. idtac "ASSUMPTIONS-OF C20_wait_queue_repush_mixed". Abort.
Print Assumptions C20_wait_queue_repush_mixed.

Theorem C20_wait_queue_push_priority : forall (pf : N -> N) (st : store) (q : wq) (p : prq) (i : N),
  (forall j, prio_of st j = pf j) -> wq_inv pf q -> w_ring q = RPrio p ->
  exists q', wq_push st q (Some i) = Ok (q', st) /\ wq_inv pf q' /\ (exists p', w_ring q' = RPrio p') /\
             wq_abs q' = spec_insert pf (Some i) (wq_abs q).
Proof. exact wq_push_prio. Qed.
Goal True. idtac "ASSUMPTIONS-OF C20_wait_queue_push_priority". Abort.
Print Assumptions C20_wait_queue_push_priority.

(* LockManagerLockQueue (fastQueue -> scale queue = segmented queue NewLockQueue(1, 8, 256)), instantiated with the
   segmented-queue refinement above (sq_abs := abs, sq_ok := Inv) *)
Theorem C20_lock_queue_push_fifo : forall (st : store) (q : lq) (i : N), lq_inv Inv q ->
  exists q' st', lq_push st q (Some i) = Ok (q', st') /\ lq_inv Inv q' /\
    ((lq_abs abs q' = lq_abs abs q ++ [Some i] /\ st' = st) \/
     (lq_abs abs q' = filter (live lock_dead st) (lq_abs abs q) ++ [Some i] /\
      st' = fold_left dec_slot (filter (tomb lock_dead st) (lq_abs abs q)) st)).
Proof.
  apply (lq_push_abs abs Inv).
  - destruct (new_spec 1 8 256) as (q0 & E & I & A & _); try (unfold POW30; lia). exists q0. auto.
  - intros q x I. destruct (Push_spec q x I) as (q' & E & I' & A & _). eauto.
Qed.
Goal True. idtac "ASSUMPTIONS-OF C20_lock_queue_push_fifo". Abort.
Print Assumptions C20_lock_queue_push_fifo.

Theorem C20_lock_queue_pop : forall (q : lq), lq_inv Inv q ->
  (exists q', lq_pop q = Ok (q', hd None (lq_abs abs q)) /\ lq_abs abs q' = tl (lq_abs abs q) /\ lq_inv Inv q') /\
  lq_len q = Ok (Z.of_nat (length (lq_abs abs q))).
Proof.
  intros q I. split.
  - apply (lq_pop_abs abs Inv); auto.
    + intros q0 x I0. destruct (Push_spec q0 x I0) as (q' & E & I' & A & _). eauto.
    + intros q0 I0. destruct (Pop_spec q0 I0) as (q' & E & I' & A & _). exists q'. auto.
  - apply (lq_len_abs abs Inv); auto. intros q0 I0. apply Len_spec; auto.
Qed.
Goal True. idtac "ASSUMPTIONS-OF C20_lock_queue_pop". Abort.
Print Assumptions C20_lock_queue_pop.

(* ===== long-wait tables of server/db.go: LongWaitLockQueue / LongWaitLockFreeQueue ===== *)

(* constructor: for ALL parameters the invariant holds, the queue is an empty sequence and both counters are 0 *)
Theorem C20_longwait_new : forall (st : istore) (base nodes size time : Z),
  1 <= base -> 1 <= nodes -> nodes + 1 < P31 -> 1 <= size < POW30 ->
  exists l, lw_new base nodes size time = Ok l /\ LWInv st l /\ lw_abs l = [] /\ lw_count l = 0 /\ lw_free l = 0 /\
            lw_time l = time /\ baseQueueSize (lw_locks l) = size /\ Z.of_nat (length (queues (lw_locks l))) = nodes.
Proof. exact lw_new_spec. Qed.
Goal True. idtac "ASSUMPTIONS-OF C20_longwait_new". Abort.
Print Assumptions C20_longwait_new.

(* every operation (Push, Remove in place, Remove + the restructure trigger of RemoveLongTimeOut/RemoveLongExpried, Pop,
   Len, restructuring, the consumer idiom) preserves the invariant, never panics and returns / leaves exactly what the
   plain sequence with deletions `spec_step` does: the slot list (holes included), lockCount and freeCount *)
Theorem C20_longwait_step_refines : forall (st : istore) (l : lwq) (o : lop),
  LWInv st l -> wf_op (lw_abs l) o -> lw_guard l ->
  exists l' st', lw_step st l o = Ok (l', st', snd (spec_step (lw_rel l) o)) /\ LWInv st' l' /\
                 lw_rel l' = fst (spec_step (lw_rel l) o) /\ lw_time l' = lw_time l.
Proof. exact lw_step_refines. Qed.
Goal True. idtac "ASSUMPTIONS-OF C20_longwait_step_refines". Abort.
Print Assumptions C20_longwait_step_refines.

(* ALL operation lists, ALL constructor parameters: the observations of a LongWaitLockQueue are exactly those of the
   plain sequence with deletions started empty; the run ends normally.  Side conditions (lw_okrun): the callers' contract
   (push only a lock that is not queued, remove only a queued lock) and the int32 guards (fewer than 2^31 - 1 nodes,
   baseQueueSize << tailNodeIndex < 2^31 when restructuring). *)
Theorem C20_longwait_refines_sequence : forall (base nodes size : Z) (ops : list lop),
  1 <= base -> 1 <= nodes -> nodes + 1 < P31 -> 1 <= size < POW30 ->
  (forall l, lw_new base nodes size 0 = Ok l -> lw_okrun (fun _ => 0) l ops) ->
  lw_run_new base nodes size ops = (spec_run ([], 0, 0) ops, EDone).
Proof. exact lw_new_run_refines. Qed.
Goal True. idtac "ASSUMPTIONS-OF C20_longwait_refines_sequence". Abort.
Print Assumptions C20_longwait_refines_sequence.

(* what Len reports, exactly: the number of slots INCLUDING the holes left by Remove and not yet compacted (not the number
   of live locks); the number of live locks is lockCount - freeCount (used by admin.go) *)
Theorem C20_longwait_len_counts_slots : forall (st : istore) (l : lwq), LWInv st l ->
  lw_len l = Ok (Z.of_nat (length (lw_abs l))) /\
  lw_count l - lw_free l = Z.of_nat (length (ids (lw_abs l))).
Proof. exact lw_len_counts_slots. Qed.
Goal True. idtac "ASSUMPTIONS-OF C20_longwait_len_counts_slots". Abort.
Print Assumptions C20_longwait_len_counts_slots.

(* what the consumers (checkTimeTimeOut, checkTimeExpried, flushTimeOut, flushExpried) rely on: "n := Len(); n times
   Pop(), skipping nil" returns exactly the live locks in insertion order and leaves the queue empty *)
Theorem C20_longwait_consume_complete : forall (st : istore) (l : lwq), LWInv st l ->
  exists n l' st', lw_len l = Ok n /\ consume (Z.to_nat n) st l [] = Ok (l', st', ids (lw_abs l)) /\ lw_abs l' = [] /\ LWInv st' l'.
Proof. exact lw_consume_complete. Qed.
Goal True. idtac "ASSUMPTIONS-OF C20_longwait_consume_complete". Abort.
Print Assumptions C20_longwait_consume_complete.

(* concrete instance (production parameters): three pushes, one Remove: Len() = 3 although 2 locks are live
   (lockCount 3, freeCount 1), and Len() times Pop() returns both survivors *)
Theorem C20_longwait_len_counts_holes_example :
  lw_run_new 4 64 256 [LPush 1%N; LPush 2%N; LPush 3%N; LRemove 1%N; LLen; LConsume] =
    ([LUnit; LUnit; LUnit; LUnit; LLens 3 3 1; LList [2%N; 3%N]], EDone).
Proof. exact lw_len_counts_holes_example. Qed.
Goal True. idtac "ASSUMPTIONS-OF C20_longwait_len_counts_holes_example". Abort.
Print Assumptions C20_longwait_len_counts_holes_example.

(* LongWaitLockFreeQueue is a LIFO stack of released queues with a fixed capacity: Get pops the most recently released
   queue (counters reset, new bucket time) or builds a fresh (4, 64, 256) one when empty; Free pushes the Reset queue
   while there is room and drops it otherwise; Pop drops the top; Len is the height *)
Theorem C20_longwait_free_queue_lifo : forall (f : lwfree) (s : list lwq) (top l : lwq) (t now : Z) (q' : sq),
  (fq_rep f (s ++ [top]) -> exists f', fq_get f t = Ok (f', mkLW (lw_locks top) t 0 0) /\ fq_rep f' s) /\
  (fq_rep f [] -> fq_get f t = (l0 <- lw_new 4 64 LONG_LOCKS_QUEUE_INIT_SIZE t ;; Ok (f, l0))) /\
  (fq_rep f s -> Reset (lw_locks l) = Ok q' ->
     if Z.of_nat (length s) <=? fq_max f
     then exists f', fq_free f l now = Ok f' /\ fq_rep f' (s ++ [mkLW q' now (-1) (-1)])
     else fq_free f l now = Ok f) /\
  (fq_rep f s -> fq_len f = Z.of_nat (length s)).
Proof.
  intros f s top l t now q'. split; [apply fq_get_top|]. split; [apply fq_get_empty|]. split; [apply fq_free_rep | apply fq_len_rep].
Qed.
Goal True. idtac "ASSUMPTIONS-OF C20_longwait_free_queue_lifo". Abort.
Print Assumptions C20_longwait_free_queue_lifo.

(* non-vacuity: the hypotheses are satisfiable by concrete states *)
Example C20_nonvacuous_seg : exists q, new 4 16 4096 = Ok q /\ Inv q.
Proof. destruct (new_spec 4 16 4096) as (q & E & I & _); try (unfold POW30; lia). eauto. Qed.
Example C20_nonvacuous_covered : forallb covered [OpPush (Some 1%N); OpPushLeft (Some 2%N); OpPop; OpPopRight; OpHead; OpTail; OpLen] = true.
Proof. reflexivity. Qed.
Example C20_nonvacuous_ring : ring_inv (ring_new 4).
Proof. apply ring_new_abs. Qed.
(* a concrete MIXED wait queue: two waiters still in the inline array, one in the ring *)
Example C20_nonvacuous_mixed_wait_queue :
  let r := ring_push (ring_new 64) (Some 3%N) in
  let q := mkWq (Some (mkSlice [Some 1%N; Some 2%N] 143)) 0 (RPlain r) in
  wq_inv (fun _ => 0%N) q /\ w_fast q = Some (mkSlice [Some 1%N; Some 2%N] 143) /\ w_ring q = RPlain r /\
  0 <= w_findex q < 2 /\ Forall is_some [Some 1%N; Some 2%N] /\ Forall is_some (ring_abs r).
Proof.
  cbv zeta. destruct (ring_push_abs (ring_new 64) (Some 3%N) (proj2 (ring_new_abs 64))) as [A I].
  split; [split; [cbn; lia|exact I]|]. split; [reflexivity|]. split; [reflexivity|]. split; [cbn; lia|].
  split; [repeat constructor; eexists; reflexivity|]. rewrite A, (proj1 (ring_new_abs 64)). repeat constructor. eexists; reflexivity.
Qed.
(* a concrete long-wait run satisfying the side conditions (smallest nodes: 1, 2, 4 slots; trigger, restructure, consume) *)
Example C20_nonvacuous_longwait : forall l, lw_new 1 1 1 0 = Ok l ->
  lw_okrun (fun _ => 0) l [LPush 1%N; LPush 2%N; LPush 3%N; LPush 4%N; LRemovePolicy 2%N; LLen; LRemove 3%N; LPop; LRestructure; LLen; LConsume].
Proof. exact lw_okrun_nonvacuous. Qed.
Example C20_nonvacuous_free_queue : fq_rep (fq_new 8096) [].
Proof. apply fq_new_rep. lia. Qed.
