(* C17 (counters are exact), replies: which state the two counters of a reply are read from.
   Every reply is `EReply conn req result LCount LRCount lockid count rcount data` with LCount = uint16 of
   LockManager.locked and LRCount = Lock.locked (re-entrant depth) of the addressed hold.
     mlk s k = `locked` of key k in state s (0 without manager);  dep s r = depth of record r in s (0 if freed)
   The local theorems hold for EVERY state (no invariant); s' is always the state returned by the critical section
   itself, which is not the final state of the step when a wake-up pass follows. *)
From Coq Require Import List NArith ZArith String Bool Lia.
From Slock Require Import Engine.Types Engine.Queues Engine.Timers Engine.Engine Engine.Engine2 Engine.InvDef Engine.InvProps
  Engine.RunReply.
Import ListNotations.
Open Scope N_scope.

Definition c17r_st (h : list action) : db := fst (run (init_db 1000000 1) h).
Definition c17r_L (req lockid key timeout expried count rcount : N) : cmd :=
  make_cmd true req 0 lockid key 0 timeout 0 expried count rcount None.
Definition c17r_U (req flag lockid key rcount : N) : cmd := make_cmd false req flag lockid key 0 0 0 0 0 rcount None.
Definition c17r_held : list action := [AReq 1 (c17r_L 1 101 7 5 10 0 3)].
Definition c17r_depth2 : list action := [AReq 1 (c17r_L 1 101 7 5 10 0 3); AReq 1 (c17r_L 2 101 7 5 10 0 3)].
Definition c17r_wait : list action := [AReq 1 (c17r_L 1 101 7 5 10 0 0); AReq 2 (c17r_L 2 102 7 5 10 0 0)].

(* Lock: LCount = `locked` before the request (+1 for a grant) = `locked` of the state Lock returns unless Lock
   removed the key's manager (STATE_ERROR, TIMEOUT, Expried = 0); LRCount = depth, in the state returned, of the
   addressed hold (lock_addr: the holder with the request's LockId, the oldest holder with the show flag) or of the
   new record; all three parts are in the predicate lock_reply_ok = lro (Engine/RunReplyLock.v) *)
Theorem C17_lock_reply_exact : forall s conn c s' ev w,
  lock_step s conn c = (s', ev, w) -> Forall (lock_reply_ok s c s') ev.
Proof. exact lock_step_counts. Qed.
Goal True. idtac "ASSUMPTIONS-OF C17_lock_reply_exact". Abort.
Print Assumptions C17_lock_reply_exact.
Example C17_lock_reply_exact_nonvacuous :
  snd (fst (lock_step (c17r_st c17r_held) 1 (c17r_L 2 101 7 5 10 0 3)))
    = [EGrant 7 1 false 1 0 0; EReply 1 2 R_SUCCED 2 2 101 0 3 None]
  /\ lock_addr (c17r_st c17r_held) (c17r_L 2 101 7 5 10 0 3) = Some 1
  /\ mlk (c17r_st c17r_held) 7 = 1 /\ dep (c17r_st c17r_held) 1 = 1.
Proof. vm_compute. repeat split; reflexivity. Qed.

Theorem C17_lock_reply_lcount : forall s conn c s' ev w,
  lock_step s conn c = (s', ev, w) ->
  Forall (fun e => match e with
                   | EReply _ _ res lc _ _ _ _ _ =>
                       lc = u16 (if (res =? R_SUCCED) && (0 <? c_expried c) then add32 (mlk s (c_key c)) 1 else mlk s (c_key c))
                       /\ (lc = u16 (mlk s' (c_key c)) \/ aget (mgrs s') (c_key c) = None)
                   | _ => True end) ev.
Proof. exact lock_step_lcount. Qed.
Goal True. idtac "ASSUMPTIONS-OF C17_lock_reply_lcount". Abort.
Print Assumptions C17_lock_reply_lcount.
(* a probe (Expried = 0) on a fresh key: the manager is created and removed again by the same call *)
Example C17_lock_reply_lcount_nonvacuous :
  snd (fst (lock_step (c17r_st []) 1 (c17r_L 2 101 9 0 0 0 0))) = [EReply 1 2 R_SUCCED 0 0 101 0 0 None]
  /\ aget (mgrs (fst (fst (lock_step (c17r_st []) 1 (c17r_L 2 101 9 0 0 0 0))))) 9 = None
  /\ snd (fst (lock_step (c17r_st c17r_held) 2 (c17r_L 2 102 7 0 10 0 0))) = [EReply 2 2 R_TIMEOUT 1 0 102 0 0 None].
Proof. vm_compute. repeat split; reflexivity. Qed.

Theorem C17_lock_reply_lrcount : forall s conn c s' ev w,
  lock_step s conn c = (s', ev, w) ->
  Forall (fun e => match e with
                   | EReply _ _ res _ lrc _ _ _ _ =>
                       (res = R_TIMEOUT \/ res = R_STATE_ERROR -> lrc = 0)
                       /\ (res <> R_TIMEOUT -> res <> R_STATE_ERROR ->
                           match lock_addr s c with
                           | Some r => lrc = dep s' r
                           | None => lrc = (if (res =? R_SUCCED) && (0 <? c_expried c) then 1 else 0)
                                     /\ (res = R_SUCCED -> lrc = dep s' (next s))
                           end)
                   | _ => True end) ev.
Proof. exact lock_step_lrcount. Qed.
Goal True. idtac "ASSUMPTIONS-OF C17_lock_reply_lrcount". Abort.
Print Assumptions C17_lock_reply_lrcount.
(* refusal of a re-lock beyond RCount: LOCKED_ERROR carries the current depth *)
Example C17_lock_reply_lrcount_nonvacuous :
  snd (fst (lock_step (c17r_st c17r_held) 1 (c17r_L 2 101 7 5 10 0 0))) = [EReply 1 2 R_LOCKED_ERROR 1 1 101 0 0 None]
  /\ snd (fst (lock_step (c17r_st []) 1 (c17r_L 1 101 7 5 10 0 3)))
     = [EGrant 7 1 true 0 0 0; EReply 1 1 R_SUCCED 1 1 101 0 3 None].
Proof. vm_compute. split; reflexivity. Qed.

(* UnLock: per reply site (predicate uro, Engine/RunReplyUnlock.v): SUCCED carries `locked` and the depth of the
   state UnLock returns (depth d-1 after one level, 0 after a full release); ACK_WAITING the unchanged `locked` and
   depth of the addressed hold; the other errors the unchanged `locked` and 0; the two replies of a cancel-wait
   the value `locked` has before the key's manager is possibly removed *)
Theorem C17_unlock_reply_exact : forall s conn c s' ev w,
  unlock_step s conn c = (s', ev, w) -> Forall (uro s c s') ev.
Proof. exact unlock_step_counts. Qed.
Goal True. idtac "ASSUMPTIONS-OF C17_unlock_reply_exact". Abort.
Print Assumptions C17_unlock_reply_exact.
Example C17_unlock_reply_exact_nonvacuous :
  snd (fst (unlock_step (c17r_st c17r_depth2) 1 (c17r_U 3 0 101 7 1))) = [ERelease 7 1 1; EReply 1 3 R_SUCCED 1 1 101 0 1 None]
  /\ snd (fst (unlock_step (c17r_st c17r_depth2) 1 (c17r_U 3 0 101 7 0))) = [ERelease 7 1 2; EReply 1 3 R_SUCCED 0 0 101 0 0 None]
  /\ unlock_addr (c17r_st c17r_depth2) (c17r_U 3 0 101 7 1) = Some 1 /\ dep (c17r_st c17r_depth2) 1 = 2.
Proof. vm_compute. repeat split; reflexivity. Qed.

Theorem C17_unlock_reply_lcount : forall s conn c s' ev w,
  unlock_step s conn c = (s', ev, w) ->
  Forall (fun e => match e with
                   | EReply _ _ res lc _ _ _ _ _ =>
                       lc = u16 (mlk s' (c_key c))
                       \/ (aget (mgrs s') (c_key c) = None /\ (res = R_LOCKED_ERROR \/ res = R_UNLOCK_ERROR)
                           /\ exists r, cancel_tgt s c = Some r /\ lc = u16 (cancel_val s (c_key c) r))
                   | _ => True end) ev.
Proof. exact unlock_step_lcount_post. Qed.
Goal True. idtac "ASSUMPTIONS-OF C17_unlock_reply_lcount". Abort.
Print Assumptions C17_unlock_reply_lcount.
Example C17_unlock_reply_lcount_nonvacuous :
  snd (fst (unlock_step (c17r_st c17r_wait) 2 (c17r_U 3 2 102 7 0)))
    = [EReply 2 3 R_LOCKED_ERROR 1 0 102 0 0 None; EReply 2 2 R_UNLOCK_ERROR 1 0 102 0 0 None]
  /\ cancel_tgt (c17r_st c17r_wait) (c17r_U 3 2 102 7 0) = Some 2.
Proof. vm_compute. split; reflexivity. Qed.

Theorem C17_cancel_wait_reply_exact : forall s conn c s' ev w,
  cancel_wait_lock s conn c = (s', ev, w) ->
  match cancel_tgt s c with
  | None => Forall (rcr R_UNLOCK_ERROR (mlk s' (c_key c)) 0) ev /\ mfr s s' /\ deq s s'
  | Some r => Forall (rc2 (cancel_val s (c_key c) r) 0) ev
              /\ (mlk s' (c_key c) = cancel_val s (c_key c) r \/ aget (mgrs s') (c_key c) = None)
              /\ dep s' r = 0
  end.
Proof. exact cancel_wait_lock_counts. Qed.
Goal True. idtac "ASSUMPTIONS-OF C17_cancel_wait_reply_exact". Abort.
Print Assumptions C17_cancel_wait_reply_exact.
Example C17_cancel_wait_reply_exact_nonvacuous :
  snd (fst (cancel_wait_lock (c17r_st c17r_wait) 2 (c17r_U 3 2 102 7 0)))
    = [EReply 2 3 R_LOCKED_ERROR 1 0 102 0 0 None; EReply 2 2 R_UNLOCK_ERROR 1 0 102 0 0 None]
  /\ cancel_val (c17r_st c17r_wait) 7 2 = 1.
Proof. vm_compute. split; reflexivity. Qed.

(* full release: LCount is read at the very end, after a possible removal of the manager *)
Theorem C17_release_reply_exact : forall s k conn c r d s' ev,
  release_hold s k conn c r d = (s', ev) ->
  Forall (rcr R_SUCCED (mlk s' k) 0) ev /\ (mlk s' k = mlk s k \/ aget (mgrs s') k = None) /\ dep s' r = 0.
Proof. exact release_hold_counts. Qed.
Goal True. idtac "ASSUMPTIONS-OF C17_release_reply_exact". Abort.
Print Assumptions C17_release_reply_exact.
Example C17_release_reply_exact_nonvacuous :
  snd (release_hold (c17r_st c17r_held) 7 1 (c17r_U 3 0 101 7 0) 1 1) = [ERelease 7 1 1; EReply 1 3 R_SUCCED 1 0 101 0 0 None].
Proof. vm_compute. reflexivity. Qed.

(* one grant of the wake-up pass: both counters are those of the state right after the grant *)
Theorem C17_wake_reply_exact : forall s k r via s' ev,
  wake_grant s k r via = (s', ev) -> aget (mgrs s) k <> None -> Forall (wro s k r s') ev.
Proof. exact wake_grant_counts. Qed.
Goal True. idtac "ASSUMPTIONS-OF C17_wake_reply_exact". Abort.
Print Assumptions C17_wake_reply_exact.
Definition c17r_released : db := fst (fst (unlock_step (c17r_st c17r_wait) 1 (c17r_U 3 0 101 7 0))).
Example C17_wake_reply_exact_nonvacuous :
  snd (wake_grant c17r_released 7 2 None) = [EGrant 7 2 true 0 0 0; EReply 2 2 R_SUCCED 1 1 102 0 0 None]
  /\ mlk c17r_released 7 = 0 /\ mlk (fst (wake_grant c17r_released 7 2 None)) 7 = 1.
Proof. vm_compute. repeat split; reflexivity. Qed.

Theorem C17_wake_iter_reply_exact : forall s w s' ev res,
  wake_iter s w = (s', ev, res) ->
  match res with
  | WDone => ev = []
  | WMore => exists r, snd (get_wait_lock s (w_key w)) = Some r
                       /\ Forall (wro (fst (get_wait_lock s (w_key w))) (w_key w) r s') ev
  end.
Proof. exact wake_iter_counts. Qed.
Goal True. idtac "ASSUMPTIONS-OF C17_wake_iter_reply_exact". Abort.
Print Assumptions C17_wake_iter_reply_exact.
Example C17_wake_iter_reply_exact_nonvacuous :
  snd (wake_iter c17r_released (mkWake 7 (Some 1))) = WMore
  /\ snd (get_wait_lock c17r_released 7) = Some 2.
Proof. vm_compute. split; reflexivity. Qed.

(* doTimeOut / doExpried: LCount = `locked` of the state returned (read after everything), LRCount = 0 = the depth
   of the record in that state; the last conjunct of tro gives the value in terms of the state before *)
Theorem C17_timeout_reply_exact : forall s r s' ev w l,
  do_timeout s r = (s', ev, w) -> aget (store s) r = Some l ->
  Forall (tro R_TIMEOUT (cancel_val s (l_key l) r) s r (l_key l) s') ev.
Proof. exact do_timeout_counts. Qed.
Goal True. idtac "ASSUMPTIONS-OF C17_timeout_reply_exact". Abort.
Print Assumptions C17_timeout_reply_exact.
Example C17_timeout_reply_exact_nonvacuous :
  snd (fst (do_timeout (c17r_st c17r_wait) 2)) = [EReply 2 2 R_TIMEOUT 1 0 102 0 0 None]
  /\ exists l, aget (store (c17r_st c17r_wait)) 2 = Some l /\ l_key l = 7.
Proof. split; [vm_compute; reflexivity|]. eexists. split; vm_compute; reflexivity. Qed.

Theorem C17_expried_reply_exact : forall s r s' ev w l,
  do_expried s r = (s', ev, w) -> aget (store s) r = Some l ->
  Forall (tro R_EXPRIED (sub32 (mlk s (l_key l)) (dep s r)) s r (l_key l) s') ev.
Proof. exact do_expried_counts. Qed.
Goal True. idtac "ASSUMPTIONS-OF C17_expried_reply_exact". Abort.
Print Assumptions C17_expried_reply_exact.
Example C17_expried_reply_exact_nonvacuous :
  snd (fst (do_expried (c17r_st c17r_depth2) 1)) = [ERelease 7 1 2; EReply 1 2 R_EXPRIED 0 0 101 0 3 None]
  /\ mlk (c17r_st c17r_depth2) 7 = 2.
Proof. vm_compute. split; reflexivity. Qed.

(* a request at sequential granularity: the direct replies are exact for the state s1 returned by Lock / UnLock, the
   replies of the wake-up pass for the state returned by their own grant (wake_exact: the chain of iterations) *)
Theorem C17_step_req_reply_exact : forall s conn c,
  exists s1 ev1 w ev2,
    req_section s conn c = (s1, ev1, w)
    /\ step s (AReq conn c) = (fst (step s (AReq conn c)), ev1 ++ ev2)
    /\ Forall (req_ok s c s1) ev1
    /\ (forall wk, w = Some wk -> w_key wk = c_key c)
    /\ pass_exact w s1 ev2 (fst (step s (AReq conn c))).
Proof. exact step_req_counts. Qed.
Goal True. idtac "ASSUMPTIONS-OF C17_step_req_reply_exact". Abort.
Print Assumptions C17_step_req_reply_exact.
Example C17_step_req_reply_exact_nonvacuous :
  snd (step (c17r_st c17r_wait) (AReq 1 (c17r_U 3 0 101 7 0)))
    = [ERelease 7 1 1; EReply 1 3 R_SUCCED 0 0 101 0 0 None; EGrant 7 2 true 0 0 0; EReply 2 2 R_SUCCED 1 1 102 0 0 None].
Proof. vm_compute. reflexivity. Qed.

(* the SUCCED reply of an UnLock says LCount 0 although the key is held again (by the woken waiter) when the step ends *)
Theorem C17_unlock_reply_not_final_state :
  let '(s, evs) := run (init_db 1000000 1) unlock_wake_history in
  last evs [] = [ERelease 7 1 1; EReply 1 3 R_SUCCED 0 0 101 0 0 None;
                 EGrant 7 2 true 0 0 0; EReply 2 2 R_SUCCED 1 1 102 0 0 None]
  /\ mlk s 7 = 1.
Proof. exact unlock_reply_not_final_state. Qed.
Goal True. idtac "ASSUMPTIONS-OF C17_unlock_reply_not_final_state". Abort.
Print Assumptions C17_unlock_reply_not_final_state.

(* the sweeps: every fired record is answered by doTimeOut / doExpried (exact for the state they return) followed by
   its wake-up pass *)
Theorem C17_sweep_t_reply_exact : forall s,
  sweep_t_exact (Z.to_nat (now s + 1 - checkT s)) (s <| checkT := (now s + 1)%Z |>) (checkT s) (now s)
    (fst (step s ASweepT)) (snd (step s ASweepT)).
Proof. exact step_sweep_t_counts. Qed.
Goal True. idtac "ASSUMPTIONS-OF C17_sweep_t_reply_exact". Abort.
Print Assumptions C17_sweep_t_reply_exact.
Example C17_sweep_t_reply_exact_nonvacuous :
  snd (step (c17r_st (c17r_wait ++ [AAdvance 6])) ASweepT) = [EReply 2 2 R_TIMEOUT 1 0 102 0 0 None].
Proof. vm_compute. reflexivity. Qed.

Theorem C17_sweep_e_reply_exact : forall s,
  sweep_e_exact (Z.to_nat (now s + 1 - checkE s)) (s <| checkE := (now s + 1)%Z |>) (checkE s) (now s)
    (fst (step s ASweepE)) (snd (step s ASweepE)).
Proof. exact step_sweep_e_counts. Qed.
Goal True. idtac "ASSUMPTIONS-OF C17_sweep_e_reply_exact". Abort.
Print Assumptions C17_sweep_e_reply_exact.
(* the EXPRIED reply carries LCount 0, the waiter granted by the pass of the same step LCount 1 *)
Example C17_sweep_e_reply_exact_nonvacuous :
  snd (step (c17r_st [AReq 1 (c17r_L 1 101 7 5 3 0 0); AReq 2 (c17r_L 2 102 7 50 10 0 0); AAdvance 4]) ASweepE)
    = [ERelease 7 1 1; EReply 1 1 R_EXPRIED 0 0 101 0 0 None; EGrant 7 2 true 0 0 0; EReply 2 2 R_SUCCED 1 1 102 0 0 None].
Proof. vm_compute. reflexivity. Qed.

(* all runs, all states: a TIMEOUT, EXPRIED or STATE_ERROR reply carries LRCount 0 *)
Theorem C17_zero_lrcount_run : forall s acts, Forall (Forall zero_lrc) (snd (run s acts)).
Proof. exact zero_lrc_run. Qed.
Goal True. idtac "ASSUMPTIONS-OF C17_zero_lrcount_run". Abort.
Print Assumptions C17_zero_lrcount_run.
Example C17_zero_lrcount_run_nonvacuous :
  snd (run (init_db 1000000 1) (c17r_wait ++ [AAdvance 6; ASweepT]))
    = [[EGrant 7 1 true 0 0 0; EReply 1 1 R_SUCCED 1 1 101 0 0 None]; []; []; [EReply 2 2 R_TIMEOUT 1 0 102 0 0 None]].
Proof. vm_compute. reflexivity. Qed.

(* core runs: `locked` is the sum of the holders' depths (hsum), so LCount of a Lock reply is that sum in the state
   before the request, plus one for a grant, truncated to 16 bits -- and not truncated below 65535 levels *)
Theorem C17_lock_reply_holder_sum : forall t0 a acts conn c s1 ev1 w,
  core acts -> lock_step (fst (run (init_db t0 a) acts)) conn c = (s1, ev1, w) ->
  Forall (fun e => match e with
                   | EReply _ _ res lc _ _ _ _ _ =>
                       lc = u16 (if granted res (c_expried c)
                                 then add32 (hsum (fst (run (init_db t0 a) acts)) (c_key c)) 1
                                 else hsum (fst (run (init_db t0 a) acts)) (c_key c))
                   | _ => True end) ev1.
Proof. exact lock_reply_sum. Qed.
Goal True. idtac "ASSUMPTIONS-OF C17_lock_reply_holder_sum". Abort.
Print Assumptions C17_lock_reply_holder_sum.
Example C17_lock_reply_holder_sum_nonvacuous :
  core c17r_depth2 /\ hsum (c17r_st c17r_depth2) 7 = 2
  /\ snd (fst (lock_step (c17r_st c17r_depth2) 1 (c17r_L 3 101 7 5 10 0 3)))
     = [EGrant 7 1 false 2 0 0; EReply 1 3 R_SUCCED 3 3 101 0 3 None].
Proof. split; [split; [repeat constructor|vm_compute; reflexivity]|split; vm_compute; reflexivity]. Qed.

Theorem C17_lock_reply_holder_sum_small : forall t0 a acts conn c s1 ev1 w,
  core acts -> lock_step (fst (run (init_db t0 a) acts)) conn c = (s1, ev1, w) ->
  hsum (fst (run (init_db t0 a) acts)) (c_key c) < 65535 ->
  Forall (fun e => match e with
                   | EReply _ _ res lc _ _ _ _ _ =>
                       lc = (if granted res (c_expried c) then hsum (fst (run (init_db t0 a) acts)) (c_key c) + 1
                             else hsum (fst (run (init_db t0 a) acts)) (c_key c))
                   | _ => True end) ev1.
Proof. exact lock_reply_sum_small. Qed.
Goal True. idtac "ASSUMPTIONS-OF C17_lock_reply_holder_sum_small". Abort.
Print Assumptions C17_lock_reply_holder_sum_small.
Example C17_lock_reply_holder_sum_small_nonvacuous :
  core c17r_held /\ hsum (c17r_st c17r_held) 7 = 1
  /\ snd (fst (lock_step (c17r_st c17r_held) 2 (c17r_L 2 102 7 0 10 0 0))) = [EReply 2 2 R_TIMEOUT 1 0 102 0 0 None].
Proof. split; [split; [repeat constructor|vm_compute; reflexivity]|split; vm_compute; reflexivity]. Qed.

(* core runs: the state UnLock returns satisfies the invariant, so the LCount of its replies is the holder sum of
   THAT state (not of the final state of the step) *)
Theorem C17_unlock_reply_holder_sum : forall t0 a acts conn c s1 ev1 w,
  core (acts ++ [AReq conn c]) -> c_lock c = false ->
  unlock_step (fst (run (init_db t0 a) acts)) conn c = (s1, ev1, w) ->
  Forall (fun e => match e with
                   | EReply _ _ res lc _ _ _ _ _ =>
                       lc = u16 (hsum s1 (c_key c))
                       \/ (aget (mgrs s1) (c_key c) = None /\ (res = R_LOCKED_ERROR \/ res = R_UNLOCK_ERROR))
                   | _ => True end) ev1.
Proof. exact unlock_reply_sum. Qed.
Goal True. idtac "ASSUMPTIONS-OF C17_unlock_reply_holder_sum". Abort.
Print Assumptions C17_unlock_reply_holder_sum.
Example C17_unlock_reply_holder_sum_nonvacuous :
  core (c17r_depth2 ++ [AReq 1 (c17r_U 3 0 101 7 1)])
  /\ snd (fst (unlock_step (c17r_st c17r_depth2) 1 (c17r_U 3 0 101 7 1))) = [ERelease 7 1 1; EReply 1 3 R_SUCCED 1 1 101 0 1 None]
  /\ hsum (fst (fst (unlock_step (c17r_st c17r_depth2) 1 (c17r_U 3 0 101 7 1)))) 7 = 1.
Proof. split; [split; [repeat constructor|vm_compute; reflexivity]|split; vm_compute; reflexivity]. Qed.

Theorem C17_req_section_state_inv : forall t0 a acts conn c,
  core (acts ++ [AReq conn c]) -> Inv (fst (fst (req_section (fst (run (init_db t0 a) acts)) conn c))).
Proof. exact core_req_post_inv. Qed.
Goal True. idtac "ASSUMPTIONS-OF C17_req_section_state_inv". Abort.
Print Assumptions C17_req_section_state_inv.
Example C17_req_section_state_inv_nonvacuous : core (c17r_wait ++ [AReq 1 (c17r_U 3 0 101 7 0)]).
Proof. split; [repeat constructor|vm_compute; reflexivity]. Qed.

(* core runs, a whole request step: every reply -- direct or sent by the wake-up pass -- carries the 16-bit
   truncation of the holder sum of the key in a state S satisfying the invariant (the state returned by the critical
   section that sent it; the state before the request for a reply sent while the key's manager is removed), and the
   final state of the step satisfies the invariant *)
Theorem C17_step_req_holder_sum : forall t0 a acts conn c,
  core (acts ++ [AReq conn c]) ->
  Inv (fst (step (fst (run (init_db t0 a) acts)) (AReq conn c)))
  /\ Forall (fun e => match e with
                      | EReply _ _ _ lc _ _ _ _ _ => exists S, Inv S /\ lc = u16 (hsum S (c_key c))
                      | _ => True end) (snd (step (fst (run (init_db t0 a) acts)) (AReq conn c))).
Proof. exact step_req_sum. Qed.
Goal True. idtac "ASSUMPTIONS-OF C17_step_req_holder_sum". Abort.
Print Assumptions C17_step_req_holder_sum.
Example C17_step_req_holder_sum_nonvacuous :
  core (c17r_wait ++ [AReq 1 (c17r_U 3 0 101 7 0)])
  /\ snd (step (c17r_st c17r_wait) (AReq 1 (c17r_U 3 0 101 7 0)))
     = [ERelease 7 1 1; EReply 1 3 R_SUCCED 0 0 101 0 0 None; EGrant 7 2 true 0 0 0; EReply 2 2 R_SUCCED 1 1 102 0 0 None].
Proof. split; [split; [repeat constructor|vm_compute; reflexivity]|vm_compute; reflexivity]. Qed.
