(* C10, engine part: a database that is not the leader refuses client requests without changing anything, and does
   not end a replicated (persisted) hold on its own clock.  Every state, no reachability assumption. *)
From Coq Require Import String List NArith ZArith.
From Slock Require Import Engine.Types Engine.Queues Engine.Timers Engine.Engine Engine.Engine2 Engine.LocalC10.
Import ListNotations.
Open Scope N_scope.

(* LOCK on a non-leader (not from the log, not caught by the concurrent-check pre-check): exactly one event, the
   reply STATE_ERROR on the requesting connection with the request's id; no grant, no release, no log record.
   The state is returned unchanged, except that an UNREFERENCED manager of that key is removed (a manager created
   by this very request is unreferenced and removed again: then the state is exactly the old one). *)
Theorem C10_nonleader_lock_refused : forall s conn c,
  c_lock c = true -> leader s = false -> has (c_flag c) LOCK_FLAG_FROM_AOF = false -> lock_pre s conn c = None ->
  step s (AReq conn c) =
    (remove_mgr_if_unref s (c_key c),
     [EReply conn (c_req c) R_STATE_ERROR (m_locked (getm s (c_key c)) mod 65536) 0 (c_lockid c) (c_count c) (c_rcount c)
        (data_of (remove_mgr_if_unref s (c_key c)) (c_key c))]).
Proof. exact lock_nonleader_step. Qed.
Goal True. idtac "ASSUMPTIONS-OF C10_nonleader_lock_refused". Abort.
Print Assumptions C10_nonleader_lock_refused.
Example C10_nonleader_lock_refused_nonvacuous :
  let s := init_db 0 0 <| leader := false |> in
  let c := mkCmd true 1 0 7 5 0 0 0 10 0 0 None in
  c_lock c = true /\ leader s = false /\ has (c_flag c) LOCK_FLAG_FROM_AOF = false /\ lock_pre s 1 c = None.
Proof. vm_compute. auto. Qed.

(* side condition under which nothing at all changes: the key has no manager, or a referenced one *)
Theorem C10_nonleader_lock_state_unchanged : forall s conn c,
  c_lock c = true -> leader s = false -> has (c_flag c) LOCK_FLAG_FROM_AOF = false -> lock_pre s conn c = None ->
  match aget (mgrs s) (c_key c) with Some m => m_ref m <> 0 | None => True end ->
  step s (AReq conn c) =
    (s, [EReply conn (c_req c) R_STATE_ERROR (m_locked (getm s (c_key c)) mod 65536) 0 (c_lockid c) (c_count c) (c_rcount c)
           (data_of s (c_key c))]).
Proof. exact lock_nonleader_unchanged. Qed.
Goal True. idtac "ASSUMPTIONS-OF C10_nonleader_lock_state_unchanged". Abort.
Print Assumptions C10_nonleader_lock_state_unchanged.
(* a follower holding key 5 (record applied from the leader's log) refuses a client LOCK on key 5 and on a fresh key 6 *)
Example C10_nonleader_lock_state_unchanged_nonvacuous :
  let s := fst (step (fst (step (init_db 0 0) (AReq 1 (mkCmd true 1 0 7 5 0 0 0 10 0 0 None)))) (ARole false)) in
  leader s = false
  /\ (exists m, aget (mgrs s) 5 = Some m /\ m_ref m <> 0) /\ aget (mgrs s) 6 = None
  /\ lock_pre s 2 (mkCmd true 2 0 8 5 0 5 0 10 0 0 None) = None.
Proof. vm_compute. repeat split; try reflexivity. eexists. split; [reflexivity|discriminate]. Qed.

(* in general: what the removal of an unreferenced manager can change *)
Theorem C10_nonleader_lock_frame : forall s k,
  let s' := remove_mgr_if_unref s k in
  (forall k', k' <> k -> aget (mgrs s') k' = aget (mgrs s) k')
  /\ (aget (mgrs s') k = aget (mgrs s) k
      \/ (exists m, aget (mgrs s) k = Some m /\ m_ref m = 0 /\ aget (mgrs s') k = None))
  /\ store s' = store s /\ next s' = next s /\ twheel s' = twheel s /\ tlong s' = tlong s
  /\ ewheel s' = ewheel s /\ elong s' = elong s /\ now s' = now s /\ checkT s' = checkT s /\ checkE s' = checkE s
  /\ leader s' = leader s /\ cfg_aoftime s' = cfg_aoftime s.
Proof. exact remove_mgr_if_unref_frame. Qed.
Goal True. idtac "ASSUMPTIONS-OF C10_nonleader_lock_frame". Abort.
Print Assumptions C10_nonleader_lock_frame.
Example C10_nonleader_lock_frame_nonvacuous :
  remove_mgr_if_unref (setm (init_db 0 0) 5 new_mgr) 5 <> setm (init_db 0 0) 5 new_mgr.
Proof. vm_compute. discriminate. Qed.

(* UNLOCK on a non-leader (not from the log): one reply, STATE_ERROR if the key has a manager, UNLOCK_ERROR if it has
   none (UnLock looks the key up before it looks at the role); the state is unchanged except UnlockErrorCount + 1 *)
Theorem C10_nonleader_unlock_refused : forall s conn c,
  c_lock c = false -> leader s = false -> has (c_flag c) UNLOCK_FLAG_FROM_AOF = false ->
  step s (AReq conn c) =
    (s <| cnt := cnt s <| n_unlockerr := (n_unlockerr (cnt s) + 1)%Z |> |>,
     [match aget (mgrs s) (c_key c) with
      | Some m => EReply conn (c_req c) R_STATE_ERROR (m_locked m mod 65536) 0 (c_lockid c) (c_count c) (c_rcount c)
                    (data_of s (c_key c))
      | None => EReply conn (c_req c) R_UNLOCK_ERROR 0 0 (c_lockid c) (c_count c) (c_rcount c) None
      end]).
Proof. exact unlock_nonleader_step. Qed.
Goal True. idtac "ASSUMPTIONS-OF C10_nonleader_unlock_refused". Abort.
Print Assumptions C10_nonleader_unlock_refused.
Example C10_nonleader_unlock_refused_nonvacuous :
  let s := fst (step (fst (step (init_db 0 0) (AReq 1 (mkCmd true 1 0 7 5 0 0 0 10 0 0 None)))) (ARole false)) in
  snd (step s (AReq 1 (mkCmd false 2 0 7 5 0 0 0 0 0 0 None))) = [EReply 1 2 R_STATE_ERROR 1 0 7 0 0 None]
  /\ snd (step s (AReq 1 (mkCmd false 2 0 7 6 0 0 0 0 0 0 None))) = [EReply 1 2 R_UNLOCK_ERROR 0 0 7 0 0 None].
Proof. vm_compute. auto. Qed.

(* the concurrent-check pre-check (lock flag 0x08, Timeout 0) answers TIMEOUT without touching the state, any role *)
Theorem C10_precheck_timeout_no_change : forall s conn c ev,
  c_lock c = true -> lock_pre s conn c = Some ev ->
  step s (AReq conn c) = (s, ev)
  /\ has (c_flag c) LOCK_FLAG_CONCURRENT_CHECK = true /\ c_timeout c = 0
  /\ exists lc d, ev = [EReply conn (c_req c) R_TIMEOUT (lc mod 65536) 0 (c_lockid c) (c_count c) (c_rcount c) d].
Proof. exact lock_pre_step_full. Qed.
Goal True. idtac "ASSUMPTIONS-OF C10_precheck_timeout_no_change". Abort.
Print Assumptions C10_precheck_timeout_no_change.
Example C10_precheck_timeout_no_change_nonvacuous :
  lock_pre (init_db 0 0) 1 (mkCmd true 1 8 7 5 512 0 0 10 0 0 None) = Some [EReply 1 1 R_TIMEOUT 0 0 7 0 0 None].
Proof. vm_compute. reflexivity. Qed.

(* a due expiry of a persisted hold on a non-leader, within EXPRIED_WAIT_LEADER_MAX_TIME: the hold does not end --
   no event at all (no release, no reply, no log record), no wake-up pass, key table and counters unchanged, the
   record keeps its depth and is re-armed 30 s ahead (in the long table: not before checkExpriedTime) *)
Theorem C10_follower_does_not_expire : forall s r l,
  aget (store s) r = Some l -> l_expried l = false -> leader s = false -> l_isaof l = true ->
  ((l_eT l <= 0)%Z \/ (now s - l_eT l < EXPRIED_WAIT_LEADER_MAX_TIME)%Z) ->
  exists s',
    do_expried s r = (s', [], None)
    /\ mgrs s' = mgrs s /\ cnt s' = cnt s /\ leader s' = false /\ now s' = now s
    /\ twheel s' = twheel s /\ tlong s' = tlong s /\ next s' = next s
    /\ (forall r', r' <> r -> aget (store s') r' = aget (store s) r')
    /\ exists l',
         aget (store s') r = Some l'
         /\ l_expried l' = false /\ l_locked l' = l_locked l /\ l_isaof l' = true /\ l_cmd l' = l_cmd l
         /\ l_conn l' = l_conn l /\ l_ack l' = l_ack l /\ l_timeouted l' = l_timeouted l /\ l_refc l' = l_refc l
         /\ (l_eT l' = (now s + 30)%Z \/ (8 < l_ecc l /\ (now s + 30 < checkE s)%Z /\ l_eT l' = checkE s))
         /\ (now s' - l_eT l' < EXPRIED_WAIT_LEADER_MAX_TIME)%Z
         /\ (if l_long l' then In r (wheel_get (elong s') (lkey (l_eT l')))
             else exists slot, In r (wheel_get (ewheel s') slot)).
Proof. exact follower_does_not_expire. Qed.
Goal True. idtac "ASSUMPTIONS-OF C10_follower_does_not_expire". Abort.
Print Assumptions C10_follower_does_not_expire.
(* leader grants and logs a hold (aofTime 0), node becomes follower, 20 s pass: the hold (deadline 11) is due *)
Example C10_follower_does_not_expire_nonvacuous :
  let s := fst (run (init_db 0 0) [AReq 1 (mkCmd true 1 0 7 5 0 0 0 10 0 0 None); ARole false; AAdvance 20]) in
  exists l, aget (store s) 1 = Some l /\ l_expried l = false /\ leader s = false /\ l_isaof l = true
            /\ (now s - l_eT l < EXPRIED_WAIT_LEADER_MAX_TIME)%Z /\ (l_eT l < now s)%Z.
Proof. vm_compute. eexists. repeat split; reflexivity. Qed.

(* every sequence of client requests (not claiming to come from the replicated log) and clock advances at a
   non-leader: each request gets exactly one reply, with code STATE_ERROR (10), UNLOCK_ERROR (6: unlock of an
   unknown key) or TIMEOUT (8: concurrent-check pre-check) -- nothing is granted, queued, released or logged; lock
   records, timer structures and the role never change; a key manager is never created or modified, only an
   unreferenced one may be dropped *)
Theorem C10_follower_refuses_every_request : forall acts s,
  leader s = false ->
  Forall (fun a => match a with
                   | AReq _ c => (if c_lock c then has (c_flag c) LOCK_FLAG_FROM_AOF
                                  else has (c_flag c) UNLOCK_FLAG_FROM_AOF) = false
                   | AAdvance _ => True
                   | _ => False end) acts ->
  (let s' := fst (run s acts) in
   leader s' = leader s /\ store s' = store s /\ next s' = next s
   /\ twheel s' = twheel s /\ tlong s' = tlong s /\ ewheel s' = ewheel s /\ elong s' = elong s
   /\ checkT s' = checkT s /\ checkE s' = checkE s /\ cfg_aoftime s' = cfg_aoftime s
   /\ forall k, aget (mgrs s') k = aget (mgrs s) k
                \/ (aget (mgrs s') k = None /\ exists m, aget (mgrs s) k = Some m /\ m_ref m = 0))
  /\ Forall (fun ev => ev = [] \/
                       exists conn req res lc lrc lid cnt rc d,
                         ev = [EReply conn req res lc lrc lid cnt rc d]
                         /\ (res = R_STATE_ERROR \/ res = R_UNLOCK_ERROR \/ res = R_TIMEOUT))
            (snd (run s acts)).
Proof. exact follower_run. Qed.
Goal True. idtac "ASSUMPTIONS-OF C10_follower_refuses_every_request". Abort.
Print Assumptions C10_follower_refuses_every_request.
Example C10_follower_refuses_every_request_nonvacuous :
  let s := fst (step (fst (step (init_db 0 0) (AReq 1 (mkCmd true 1 0 7 5 0 0 0 10 0 0 None)))) (ARole false)) in
  snd (run s [AReq 2 (mkCmd true 2 0 8 5 0 5 0 10 0 0 None); AAdvance 3; AReq 1 (mkCmd false 3 0 7 5 0 0 0 0 0 0 None)])
  = [[EReply 2 2 R_STATE_ERROR 1 0 8 0 0 None]; []; [EReply 1 3 R_STATE_ERROR 1 0 7 0 0 None]].
Proof. vm_compute. reflexivity. Qed.

(* observation (not a violation of C10: the follower is more conservative than "waits up to 300 s"): the 300 s window
   is measured from the last re-arm (expriedTime is overwritten with now + 30), so with a regularly running expiry
   sweep a follower never ends a persisted hold by itself; witness by evaluation *)
Theorem C10_follower_wait_exceeds_300_witness :
  (let '(s', evs) := run rearm_s0 (concat (repeat [AAdvance 100; ASweepE] 10)) in
   now s' = 1000%Z /\ concat evs = [] /\ m_locked (getm s' 5) = 1
   /\ exists l, aget (store s') 1 = Some l /\ l_expried l = false /\ l_locked l = 1 /\ l_eT l = 1030%Z)
  /\ (let '(s', evs) := run rearm_s0 [AAdvance 1000; ASweepE] in
      concat evs = [ERelease 5 1 1; EReply 1 1 R_EXPRIED 0 0 7 0 0 None] /\ aget (store s') 1 = None).
Proof. exact follower_wait_exceeds_300_witness. Qed.
Goal True. idtac "ASSUMPTIONS-OF C10_follower_wait_exceeds_300_witness". Abort.
Print Assumptions C10_follower_wait_exceeds_300_witness.
