(* C17, drained states, key managers and the reference-count floor: in every state reachable by core actions (requests without require-ack /
   millisecond flags and without value frames, clock advances, sweeps, role changes; runs of fewer than 2^24 - 2 actions)
   every key manager present has at least one lock record (refCount <> 0 and a stored record of its key); hence once
   every lock record has been freed there is no key manager left, KeyCount = LockedCount = WaitCount = 0 and no timeout /
   expiry structure holds a reference.  This completes C17_drained of C17.v. *)
From Coq Require Import List NArith ZArith String Bool Lia.
From Slock Require Import Engine.Types Engine.Queues Engine.Timers Engine.Engine Engine.Engine2 Engine.InvDef Engine.InvMain Engine.InvProps
  Engine.RunDrain Engine.RunDrainMain Engine.RunDrainFloor Engine.RunDrainFloor2 Engine.RunDrainFloor5.
Import ListNotations.
Open Scope N_scope.

Definition c17d_hist : list action :=
  [AReq 1 (make_cmd true 1 0 101 7 0 5 0 3 0 0 None); AReq 2 (make_cmd true 2 0 102 7 0 2 0 3 0 0 None);
   AReq 2 (make_cmd true 3 0 103 9 0 0 0 70 1 0 None); AReq 1 (make_cmd false 4 0 103 9 0 0 0 0 0 0 None);
   AAdvance 4; ASweepT; ASweepE; AAdvance 4; ASweepT; ASweepE; AAdvance 4; ASweepT; ASweepE;
   AAdvance 80; ASweepT; ASweepE].

(* every key manager has a lock record *)
Theorem C17_manager_has_record : forall t0 a acts, core acts ->
  forall k m, aget (mgrs (fst (run (init_db t0 a) acts))) k = Some m ->
    m_ref m <> 0 /\ exists r l, aget (store (fst (run (init_db t0 a) acts))) r = Some l /\ l_key l = k.
Proof. exact reach_mgr_has_record. Qed.
Goal True. idtac "ASSUMPTIONS-OF C17_manager_has_record". Abort.
Print Assumptions C17_manager_has_record.
Example C17_manager_has_record_nonvacuous :
  core (firstn 4 c17d_hist)
  /\ (exists m, aget (mgrs (fst (run (init_db 1000000 1) (firstn 4 c17d_hist)))) 9 = Some m /\ m_ref m = 1)
  /\ (exists l, aget (store (fst (run (init_db 1000000 1) (firstn 4 c17d_hist)))) 3 = Some l /\ l_key l = 9 /\ l_locked l = 0).
Proof.
  split; [split; [repeat constructor|vm_compute; reflexivity]|].
  split; eexists; (split; [vm_compute; reflexivity|]); [|split]; vm_compute; reflexivity.
Qed.

(* drained: no lock record left => no key manager left, all counters zero, no reference anywhere *)
Theorem C17_drained_complete : forall t0 a acts, core acts -> store (fst (run (init_db t0 a) acts)) = [] ->
  mgrs (fst (run (init_db t0 a) acts)) = [] /\ n_key (cnt (fst (run (init_db t0 a) acts))) = 0%Z
  /\ n_locked (cnt (fst (run (init_db t0 a) acts))) = 0%Z /\ n_wait (cnt (fst (run (init_db t0 a) acts))) = 0%Z
  /\ wrefs (twheel (fst (run (init_db t0 a) acts))) = [] /\ wrefs (tlong (fst (run (init_db t0 a) acts))) = []
  /\ wrefs (ewheel (fst (run (init_db t0 a) acts))) = [] /\ wrefs (elong (fst (run (init_db t0 a) acts))) = [].
Proof. exact reach_drained_complete. Qed.
Goal True. idtac "ASSUMPTIONS-OF C17_drained_complete". Abort.
Print Assumptions C17_drained_complete.
Example C17_drained_complete_nonvacuous :
  core c17d_hist /\ store (fst (run (init_db 1000000 1) c17d_hist)) = []
  /\ length (mgrs (fst (run (init_db 1000000 1) (firstn 4 c17d_hist)))) = 2%nat
  /\ length (store (fst (run (init_db 1000000 1) (firstn 6 c17d_hist)))) = 2%nat.
Proof.
  split; [split; [repeat constructor|vm_compute; reflexivity]|].
  split; [vm_compute; reflexivity|]. split; vm_compute; reflexivity.
Qed.

(* the inductive step behind both: one core action keeps "every key manager has refCount <> 0" (with the invariant) *)
Theorem C17_manager_refcount_step : forall s a, Inv s -> J2 s -> core_action a = true -> next s < MAXREC ->
  Inv (fst (step s a)) /\ J2 (fst (step s a)).
Proof. exact (fun s a G HJ Ha Hb => conj (inv_step s a G Ha Hb) (J2_step s a G HJ Ha Hb)). Qed.
Goal True. idtac "ASSUMPTIONS-OF C17_manager_refcount_step". Abort.
Print Assumptions C17_manager_refcount_step.
Example C17_manager_refcount_step_nonvacuous :
  Inv (init_db 1000000 1) /\ J2 (init_db 1000000 1) /\ next (init_db 1000000 1) < MAXREC
  /\ core_action (AReq 1 (make_cmd true 1 0 101 7 0 5 0 3 0 0 None)) = true.
Proof. split; [apply inv_init|]. split; [apply J2_init|]. split; reflexivity. Qed.

(* the reference-count floor: every stored lock record has refCount >= 1 (with C17_refcount_exact of C17.v: it is
   referenced by a holder list, a wait queue, a wheel slot or a long table -- no stored record is leaked); a record
   with an outstanding hold sits on the expiry wheel / long table exactly once; a released or expired record holds
   nothing *)
Theorem C17_refcount_floor : forall t0 a acts, core acts ->
  forall r l, aget (store (fst (run (init_db t0 a) acts))) r = Some l ->
    1 <= l_refc l
    /\ (0 < l_locked l -> (occ r (wrefs (ewheel (fst (run (init_db t0 a) acts)))) + occ r (wrefs (elong (fst (run (init_db t0 a) acts)))) = 1)%nat)
    /\ (l_expried l = true -> l_locked l = 0).
Proof. exact reach_refc_floor. Qed.
Goal True. idtac "ASSUMPTIONS-OF C17_refcount_floor". Abort.
Print Assumptions C17_refcount_floor.
Example C17_refcount_floor_nonvacuous :
  core (firstn 4 c17d_hist)
  /\ (exists l, aget (store (fst (run (init_db 1000000 1) (firstn 4 c17d_hist)))) 1 = Some l /\ l_refc l = 2 /\ l_locked l = 1)
  /\ (exists l, aget (store (fst (run (init_db 1000000 1) (firstn 4 c17d_hist)))) 3 = Some l /\ l_refc l = 1 /\ l_expried l = true).
Proof.
  split; [split; [repeat constructor|vm_compute; reflexivity]|].
  split; eexists; (split; [vm_compute; reflexivity|]); split; vm_compute; reflexivity.
Qed.

(* the inductive step of the floor (J1 /\ J3 /\ J4 as JR with an empty sweeper list) *)
Theorem C17_refcount_floor_step : forall s a, Inv s -> JR s [] -> core_action a = true -> next s < MAXREC ->
  Inv (fst (step s a)) /\ JR (fst (step s a)) [].
Proof. exact (fun s a G HJ Ha Hb => conj (inv_step s a G Ha Hb) (JR_step s a G HJ Ha Hb)). Qed.
Goal True. idtac "ASSUMPTIONS-OF C17_refcount_floor_step". Abort.
Print Assumptions C17_refcount_floor_step.
Example C17_refcount_floor_step_nonvacuous :
  Inv (init_db 1000000 1) /\ JR (init_db 1000000 1) [] /\ next (init_db 1000000 1) < MAXREC.
Proof. split; [apply inv_init|]. split; [apply JR_init|reflexivity]. Qed.
