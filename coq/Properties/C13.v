(* C13 — no client byte stream can crash the server: the protocol-layer theorems (statements only; proofs in
   Proto/ProtoProofs.v and Proto/Current.v).  Models: Proto/Binary.v, Proto/TextCmds.v.  `current_fixes`,
   `current_tfixes` (Proto/SrcFlags.v) and `len_ERROR_MSG`, `result_codes` (Gen/GenConsts.v) are regenerated from the
   source text of the tree under test on every run of checks/C13.py; the `*_claim` predicates (Proto/Current.v) say
   "for ALL inputs no Panic" when the guard is present in the source and "there is an input with Panic" otherwise. *)
From Coq Require Import List NArith ZArith Bool String.
From Slock Require Import Gen.GenConsts Proto.Binary Proto.TextCmds Proto.ProtoProofs Proto.SrcFlags Proto.Current.
Import ListNotations.
Local Open Scope N_scope.

Theorem C13_binary_no_crash :
  forall (fx : fixes) (cap : N) (db_exists : N -> bool)
         (engine_lock engine_unlock : lockcmd -> outcome unit) (call_handler : callcmd -> list N -> outcome unit)
         (command_handler : N -> list N -> outcome unit) (text_session : list N -> outcome (list N))
         (text_conn : list N -> outcome unit),
    (forall c, engine_lock c <> Panic) -> (forall c, engine_unlock c <> Panic) ->
    (forall k content, call_handler k content <> Panic) -> (forall ty buf, command_handler ty buf <> Panic) ->
    (forall inp, text_session inp <> Panic) -> (forall inp, text_conn inp <> Panic) ->
    fx_short_frame fx = true ->
    forall (first_read : N) (inp : list N),
      let r := handle_conn fx cap db_exists engine_lock engine_unlock call_handler command_handler text_session text_conn first_read inp in
      snd r <> EndCrash /\ snd r <> EndOutOfFuel.
Proof. exact C13_binary_no_crash_l. Qed.
Goal True. idtac "ASSUMPTIONS-OF C13_binary_no_crash". Abort.
Print Assumptions C13_binary_no_crash.
Example C13_binary_no_crash_nonvacuous :
  handle_conn all_fixes 1048576 (fun _ => true) ok_engine ok_engine ok_call ok_command ok_text ok_text_conn 64
              (witness_lock_frame ++ witness_short_data ++ [86; 1; 5] ++ repeat 0 61)
  = ([EvLock (with_data (match decode_lock witness_lock_frame with Ok c => c | _ => with_data (match decode_lock [] with Ok c => c | _ => {| c_type := 0; c_reqid := []; c_flag := 0; c_dbid := 0; c_lockid := []; c_lockkey := []; c_timeout := 0; c_tflag := 0; c_expried := 0; c_eflag := 0; c_count := 0; c_rcount := 0; c_data := None |} end) None end)
                        (Some {| d_data := [0; 0; 0; 0]; d_stage := 1; d_type := 0; d_flag := 0 |})); EvCommand 5], EndClosed E_EOF).
Proof. vm_compute. reflexivity. Qed.

Theorem C13_refuted_short_data_frame :
  forall (fx : fixes) (cap : N) (db_exists : N -> bool), fx_short_frame fx = false ->
    exists buf rest, process_parse fx cap db_exists ok_engine ok_engine ok_call ok_command ok_text buf rest = Crash.
Proof. exact C13_refuted_short_data_frame_l. Qed.
Goal True. idtac "ASSUMPTIONS-OF C13_refuted_short_data_frame". Abort.
Print Assumptions C13_refuted_short_data_frame.
Example C13_refuted_short_data_frame_nonvacuous : fx_short_frame no_fixes = false.
Proof. reflexivity. Qed.

Theorem C13_binary_current : binary_claim current_fixes.
Proof. exact C13_binary_current_l. Qed.
Goal True. idtac "ASSUMPTIONS-OF C13_binary_current". Abort.
Print Assumptions C13_binary_current.
Example C13_binary_current_nonvacuous : exists c : lockcmd, ok_engine c <> Panic.
Proof. eexists {| c_type := 1; c_reqid := []; c_flag := 0; c_dbid := 0; c_lockid := []; c_lockkey := []; c_timeout := 0; c_tflag := 0; c_expried := 0; c_eflag := 0; c_count := 0; c_rcount := 0; c_data := None |}. discriminate. Qed.

Theorem C13_read_bytes_frame :
  forall cap inp, read_bytes_frame cap inp <> Panic /\
    (forall buf rest, read_bytes_frame cap inp = Ok (buf, rest) -> 4 <= len buf /\ len buf <= cap + 4 /\ len rest <= len inp).
Proof. exact C13_read_bytes_frame_l. Qed.
Goal True. idtac "ASSUMPTIONS-OF C13_read_bytes_frame". Abort.
Print Assumptions C13_read_bytes_frame.
Example C13_read_bytes_frame_nonvacuous : read_bytes_frame 1048576 [1; 0; 0; 0; 7; 9] = Ok ([1; 0; 0; 0; 7], [9]).
Proof. vm_compute. reflexivity. Qed.

Theorem C13_new_lock_data_precondition :
  forall fx data, (6 <= len data -> new_lock_data fx data <> Panic) /\
                  (fx_short_frame fx = true -> new_lock_data fx data <> Panic) /\
                  (fx_short_frame fx = false -> len data < 6 -> new_lock_data fx data = Panic).
Proof. exact C13_new_lock_data_precondition_l. Qed.
Goal True. idtac "ASSUMPTIONS-OF C13_new_lock_data_precondition". Abort.
Print Assumptions C13_new_lock_data_precondition.
Example C13_new_lock_data_precondition_nonvacuous : new_lock_data no_fixes [2; 0; 0; 0; 66; 16] = Ok {| d_data := [2; 0; 0; 0; 66; 16]; d_stage := 1; d_type := 2; d_flag := 16 |}.
Proof. vm_compute. reflexivity. Qed.

Theorem C13_embedded_current : embedded_claim current_fixes /\ (forall d, decode_lock_command all_fixes d <> Panic).
Proof. exact C13_embedded_current_l. Qed.
Goal True. idtac "ASSUMPTIONS-OF C13_embedded_current". Abort.
Print Assumptions C13_embedded_current.
Example C13_embedded_nonvacuous : exists e, decode_lock_command all_fixes witness_embedded_short = Ok e /\ e_alloc e = 5.
Proof. eexists. split; vm_compute; reflexivity. Qed.

Theorem C13_call_dbid_current : call_claim current_fixes.
Proof. exact C13_call_dbid_current_l. Qed.
Goal True. idtac "ASSUMPTIONS-OF C13_call_dbid_current". Abort.
Print Assumptions C13_call_dbid_current.
Example C13_call_dbid_nonvacuous : call_dbs_index no_fixes 256 300 = Panic /\ call_dbs_index all_fixes 256 300 = Ok false.
Proof. split; reflexivity. Qed.

Theorem C13_text_convert_current :
  convert_claim current_tfixes /\ (forall pt ns nms a, a <> [] -> convert tall_fixes pt ns nms a <> Panic).
Proof. exact C13_text_convert_current_l. Qed.
Goal True. idtac "ASSUMPTIONS-OF C13_text_convert_current". Abort.
Print Assumptions C13_text_convert_current.
Example C13_text_convert_nonvacuous :
  exists c, convert tall_fixes 15 0%Z 0%Z (A ["SET"; "k"; "v"; "EX"; "10"]%string) = Ok c /\ t_expried c = 10 /\ t_flag c = 34.
Proof. eexists. repeat split; vm_compute; reflexivity. Qed.

Theorem C13_error_msg_current : errmsg_claim.
Proof. exact C13_error_msg_current_l. Qed.
Goal True. idtac "ASSUMPTIONS-OF C13_error_msg_current". Abort.
Print Assumptions C13_error_msg_current.
Example C13_error_msg_nonvacuous : In RESULT_LOCK_ACK_WAITING result_codes /\ write_lock_result 12 12 = Panic /\ write_lock_result 13 12 = Ok tt.
Proof. repeat split; vm_compute; auto 20. Qed.

Theorem C13_text_writers_current :
  writers_claim current_tfixes /\
  (forall r vs al, write_append_result tall_fixes r vs al <> Panic) /\ (forall re a, scan_args tall_fixes re a <> Panic).
Proof. exact C13_text_writers_current_l. Qed.
Goal True. idtac "ASSUMPTIONS-OF C13_text_writers_current". Abort.
Print Assumptions C13_text_writers_current.
Example C13_text_writers_nonvacuous :
  scan_args tall_fixes (fun _ => true) (A ["SCAN"; "0"; "MATCH"]%string) = Err E_ARGCOUNT /\ write_append_result tall_fixes 0 None 3 = Ok 3.
Proof. split; vm_compute; reflexivity. Qed.

Theorem C13_isolation :
  forall fx cap dbe el eu ch cm ts (s : conns) (c c' : N), c <> c' ->
    cget (fst (conn_step fx cap dbe el eu ch cm ts s c)) c' = cget s c'.
Proof. exact C13_isolation_l. Qed.
Goal True. idtac "ASSUMPTIONS-OF C13_isolation". Abort.
Print Assumptions C13_isolation.
Example C13_isolation_nonvacuous :
  cget (fst (conn_step all_fixes 1048576 (fun _ => true) ok_engine ok_engine ok_call ok_command ok_text
                       [(1, ([0; 1; 2], [])); (2, ([86; 1; 5], []))] 1)) 2 = Some ([86; 1; 5], []) /\
  cget (fst (conn_step all_fixes 1048576 (fun _ => true) ok_engine ok_engine ok_call ok_command ok_text
                       [(1, ([0; 1; 2], [])); (2, ([86; 1; 5], []))] 1)) 1 = None.
Proof. split; vm_compute; reflexivity. Qed.

