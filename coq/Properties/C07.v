(* C07 - restart recovers exactly the persisted, still-live holds.  Statements only; proofs in Restart/RestartProofs.v.
   Model: Restart/Recover.v (LoadAofFile filter, GetLockCommandExpriedTime, HandleLoad replayed through the lock-engine
   model Engine/*.v).  The property as stated is REFUTED by the faithful model in several ways (C07_refuted_*: each
   witness is replayed on the real code by checks/C07.py, corpus/C07); the guarded statements that do hold are the
   conversion bounds, the emission rules and the all-expired case. *)
From Coq Require Import String.
From Slock Require Import Engine.Types Engine.Queues Engine.Timers Engine.Engine Engine.Engine2.
From Slock Require Import Restart.Recover Restart.RestartProofs.
Open Scope Z_scope.

(* ---- (a) remaining-lifetime conversions: GetLockCommandExpriedTime (GetAofLockExpriedTime ...) ---- *)
Theorem C07_conv_seconds :
  forall (fx : bool) (ef expried : N) (eT ctime now' : Z) (st : N),
    unit_seconds ef -> 0 <= ctime -> 0 < eT - ctime < 65536 -> ctime <= now' < eT ->
    let r := conv_rec ef (etime_of ef expried eT ctime) ctime st in
    load_skip r now' = false /\ (0 < cmd_expried_time_fx fx r now')%N /\
    deadline_of ef (cmd_expried_time_fx fx r now') now' = eT + 1.
Proof. exact conv_seconds. Qed.
Goal True. idtac "ASSUMPTIONS-OF C07_conv_seconds". Abort.
Print Assumptions C07_conv_seconds.
Example C07_conv_seconds_nonvacuous :
  unit_seconds 0 /\ 0 <= 1000 /\ 0 < 1031 - 1000 < 65536 /\ 1000 <= 1010 < 1031 /\
  deadline_of 0 (cmd_expried_time_fx false (conv_rec 0 (etime_of 0 30 1031 1000) 1000 0) 1010) 1010 = 1032.
Proof. vm_compute. repeat split; discriminate. Qed.

Theorem C07_conv_seconds_expired :
  forall (ef expried : N) (eT ctime now' : Z) (st : N),
    unit_seconds ef -> 0 <= ctime -> 0 < eT - ctime < 65536 -> eT <= now' ->
    load_skip (conv_rec ef (etime_of ef expried eT ctime) ctime st) now' = true.
Proof. exact conv_seconds_expired. Qed.
Goal True. idtac "ASSUMPTIONS-OF C07_conv_seconds_expired". Abort.
Print Assumptions C07_conv_seconds_expired.
Example C07_conv_seconds_expired_nonvacuous :
  unit_seconds 256 /\ load_skip (conv_rec 256 (etime_of 256 30 1031 1000) 1000 0) 1031 = true.
Proof. vm_compute. repeat split. Qed.

Theorem C07_conv_minutes :
  forall (fx : bool) (ef expried : N) (eT ctime now' : Z) (st : N),
    unit_minutes ef -> 0 < eT - ctime -> eT - ctime <= 60 * 65535 -> ctime <= now' ->
    let r := conv_rec ef (etime_of ef expried eT ctime) ctime st in
    let x := cmd_expried_time_fx fx r now' in
    load_skip r now' = false ->
    ((0 < x)%N -> eT - 59 <= deadline_of ef x now' <= eT + 60) /\ (x = 0%N -> eT - now' <= 60).
Proof. exact conv_minutes. Qed.
Goal True. idtac "ASSUMPTIONS-OF C07_conv_minutes". Abort.
Print Assumptions C07_conv_minutes.
Example C07_conv_minutes_nonvacuous :
  unit_minutes 64 /\ load_skip (conv_rec 64 (etime_of 64 5 1301 1000) 1000 0) 1100 = false /\
  cmd_expried_time_fx false (conv_rec 64 (etime_of 64 5 1301 1000) 1000 0) 1100 = 4%N /\
  deadline_of 64 4 1100 = 1341.
Proof. vm_compute. repeat split. Qed.

Theorem C07_refuted_ms :
  exists (ef expried : N) (start now' : Z),
    unit_millis ef /\
    let eT := deadline_of ef expried start in
    let r := conv_rec ef (etime_of ef expried eT start) start 0 in
    start <= now' < eT /\ load_skip r now' = false /\
    deadline_of ef (cmd_expried_time_fx false r now') now' - eT = 50.
Proof. exact refuted_ms. Qed.
Goal True. idtac "ASSUMPTIONS-OF C07_refuted_ms". Abort.
Print Assumptions C07_refuted_ms.

Theorem C07_conv_ms_repaired :
  forall (ef expried : N) (start ctime now' : Z),
    unit_millis ef -> (expried < 65536)%N ->
    let eT := deadline_of ef expried start in
    0 <= ctime - start < 65535 -> ctime <= now' -> now' + 1 < eT ->
    let r := conv_rec ef (etime_of ef expried eT ctime) ctime (Z.to_N (ctime - start)) in
    (0 < cmd_expried_time_fx true r now')%N /\ deadline_of ef (cmd_expried_time_fx true r now') now' = eT.
Proof. exact conv_ms_repaired. Qed.
Goal True. idtac "ASSUMPTIONS-OF C07_conv_ms_repaired". Abort.
Print Assumptions C07_conv_ms_repaired.
Example C07_conv_ms_repaired_nonvacuous :
  unit_millis 1280 /\ (60000 < 65536)%N /\ 1050 + 1 < deadline_of 1280 60000 1000 /\
  deadline_of 1280 (cmd_expried_time_fx true (conv_rec 1280 (etime_of 1280 60000 1061 1000) 1000 0) 1050) 1050 = 1061.
Proof. vm_compute. repeat split. Qed.

(* ---- (b) emission rules (LockDB.AddExpried / LockManager.PushLockAof) ---- *)
Theorem C07_emit_when_due :
  forall (s : db) (k r : N) (l : lockrec),
    leader s = true -> aget (store s) r = Some l ->
    l_isaof l = false -> l_aoftime l <> 255%N -> Z.of_N (l_aoftime l) <= now s - l_start l ->
    l_locked l = 1%N -> has (c_flag (l_cmd l)) LOCK_FLAG_FROM_AOF = false ->
    exists s' rec,
      add_expried s k r = (s', [EAof rec]) /\
      a_lock rec = true /\ a_lockid rec = c_lockid (l_cmd l) /\ a_key rec = c_key (l_cmd l) /\
      a_count rec = c_count (l_cmd l) /\ a_rcount rec = c_rcount (l_cmd l) /\
      (exists l', aget (store s') r = Some l' /\ l_isaof l' = true).
Proof. exact add_expried_emits. Qed.
Goal True. idtac "ASSUMPTIONS-OF C07_emit_when_due". Abort.
Print Assumptions C07_emit_when_due.

Theorem C07_emit_silent :
  forall (s : db) (k r : N) (l : lockrec),
    aget (store s) r = Some l ->
    l_aoftime l = 255%N \/ l_isaof l = true \/ now s - l_start l < Z.of_N (l_aoftime l) ->
    snd (add_expried s k r) = [].
Proof. exact add_expried_silent. Qed.
Goal True. idtac "ASSUMPTIONS-OF C07_emit_silent". Abort.
Print Assumptions C07_emit_silent.

(* non-vacuity of both emission rules on states reached by the engine model: a persist-immediately hold is recorded in
   the granting step, a never-persist hold never, a default-delay (1 s) hold at the first re-check *)
Example C07_emit_nonvacuous :
  (exists rec, records_of (snd (run (init_db 1000 1) [AReq 1 (lockc 1 0 101 7 0 0 256 30 0 0)])) = [rec] /\ a_lockid rec = 101%N) /\
  records_of (snd (run (init_db 1000 1) (AReq 1 (lockc 1 0 101 7 0 0 512 30 0 0) :: ticks 40))) = [] /\
  records_of (snd (run (init_db 1000 1) [AReq 1 (lockc 1 0 101 7 0 0 0 30 0 0)])) = [] /\
  (exists rec, records_of (snd (run (init_db 1000 1) (AReq 1 (lockc 1 0 101 7 0 0 0 30 0 0) :: ticks 1))) = [rec] /\ a_ctime rec = 1001).
Proof. vm_compute. repeat split; eexists; split; reflexivity. Qed.

(* ---- (c) restart ---- *)
Theorem C07_restart_after_all_expired :
  forall (aoft : N) (recs : list aofrec) (wall dbnow : Z),
    (forall r, In r recs -> load_skip r wall = true) ->
    holds_of (recover_at aoft recs wall dbnow) = [].
Proof. exact recover_all_skipped. Qed.
Goal True. idtac "ASSUMPTIONS-OF C07_restart_after_all_expired". Abort.
Print Assumptions C07_restart_after_all_expired.
Example C07_restart_after_all_expired_nonvacuous :
  let '(s, recs, s') := run_and_recover 1000 1 (AReq 1 (lockc 1 0 101 7 0 0 256 30 0 0) :: ticks 3) 1040 1040 in
  recs <> [] /\ (forall r, In r recs -> load_skip r 1040 = true) /\ holds_of s <> [] /\ holds_of s' = [].
Proof. vm_compute. repeat split; try discriminate. intros r [<- | []]. reflexivity. Qed.

(* positive instance of the whole pipeline: persist-immediately + default-delay holds on two keys, a never-persist hold,
   a released hold; restart 5 s later: exactly the two persisted live holds are back, deadlines + 1 *)
Example C07_pipeline_instance :
  let acts := [AReq 1 (lockc 1 0 101 7 0 0 256 30 0 0); AReq 1 (lockc 2 0 102 8 0 0 512 30 0 0);
               AReq 1 (lockc 3 0 103 9 0 0 0 30 0 0); AReq 1 (lockc 4 0 104 10 0 0 0 30 0 2);
               AReq 1 (lockc 5 0 104 10 0 0 0 30 0 2)] ++ ticks 3 ++ [AReq 1 (unlockc 7 0 103 9 0 0)] in
  let '(s, recs, s') := run_and_recover 1000 1 acts 1008 1008 in
  holds_of s = [(7%N, 101%N, 1%N, 0%N, 0%N, 1031, None); (8%N, 102%N, 1%N, 0%N, 0%N, 1031, None);
                (10%N, 104%N, 2%N, 0%N, 2%N, 1031, None)] /\
  holds_of s' = [(7%N, 101%N, 1%N, 0%N, 0%N, 1032, None); (10%N, 104%N, 2%N, 0%N, 2%N, 1032, None)].
Proof. vm_compute. split; reflexivity. Qed.

(* ---- refutations of the property as stated (model witnesses, replayed on the Go code) ---- *)
Theorem C07_refuted_released_hold_restored :
  exists (t0 : Z) (aoft : N) (acts : list action) (now' : Z),
    let '(s, recs, s') := run_and_recover t0 aoft acts now' now' in
    now s <= now' /\ holds_of s = [] /\ holds_of s' = [(259%N, 102%N, 1%N, 65535%N, 0%N, MAXT, None)].
Proof. exact refuted_released_hold_restored. Qed.
Goal True. idtac "ASSUMPTIONS-OF C07_refuted_released_hold_restored". Abort.
Print Assumptions C07_refuted_released_hold_restored.

Theorem C07_refuted_live_hold_lost :
  exists (t0 : Z) (aoft : N) (acts : list action) (now' : Z),
    let '(s, recs, s') := run_and_recover t0 aoft acts now' now' in
    now s <= now' /\
    (exists h, holds_full s = [h] /\ h_isaof h = true /\ h_depth h = 1%N /\ now' + 3000 < h_deadline h) /\
    holds_of s' = [].
Proof. exact refuted_live_hold_lost. Qed.
Goal True. idtac "ASSUMPTIONS-OF C07_refuted_live_hold_lost". Abort.
Print Assumptions C07_refuted_live_hold_lost.

Theorem C07_refuted_delay_horizon :
  exists (t0 : Z) (aoft : N) (acts : list action) (now' : Z),
    let '(s, recs, s') := run_and_recover t0 aoft acts now' now' in
    now s = now' /\
    (exists h, holds_full s = [h] /\ h_isaof h = false /\ h_aoftime h = aoft /\
               Z.of_N aoft <= now s - h_start h /\ now' + 100 < h_deadline h) /\
    recs = [] /\ holds_of s' = [].
Proof. exact refuted_delay_horizon. Qed.
Goal True. idtac "ASSUMPTIONS-OF C07_refuted_delay_horizon". Abort.
Print Assumptions C07_refuted_delay_horizon.
