(* C01, global half: in every state reachable by core actions the key's `locked` counter is exactly the sum of the
   re-entrant depths of its outstanding holds; the holder structures are duplicate-free, live and complete.
   (The admission rule on the counters an EGrant event records is the local half, Properties/C01.v.) *)
From Coq Require Import List NArith ZArith String Bool Lia.
From Slock Require Import Engine.Types Engine.Queues Engine.Timers Engine.Engine Engine.Engine2 Engine.InvDef Engine.InvMain Engine.InvProps.
Import ListNotations.
Open Scope N_scope.

Theorem C01_locked_is_sum_of_holds : forall t0 a acts, core acts ->
  forall k, m_locked (getm (fst (run (init_db t0 a) acts)) k)
            = sumdepth (fst (run (init_db t0 a) acts)) (holders (getm (fst (run (init_db t0 a) acts)) k)).
Proof. exact reach_locked_is_sum. Qed.
Goal True. idtac "ASSUMPTIONS-OF C01_locked_is_sum_of_holds". Abort.
Print Assumptions C01_locked_is_sum_of_holds.

Definition c01_demo : list action :=
  [AReq 1 (make_cmd true 1 0 101 7 0 5 0 10 2 2 None); AReq 2 (make_cmd true 2 0 102 7 0 5 0 10 2 0 None);
   AReq 1 (make_cmd true 3 0 101 7 0 5 0 10 2 2 None); AReq 3 (make_cmd true 4 0 103 7 0 5 0 10 0 0 None)].
Example C01_locked_is_sum_of_holds_nonvacuous :
  core c01_demo
  /\ m_locked (getm (fst (run (init_db 1000000 1) c01_demo)) 7) = 3
  /\ holders (getm (fst (run (init_db 1000000 1) c01_demo)) 7) = [1; 2].
Proof. split; [split; [repeat constructor|vm_compute; reflexivity]|split; vm_compute; reflexivity]. Qed.

Theorem C01_holders_wellformed : forall t0 a acts, core acts ->
  forall k m, aget (mgrs (fst (run (init_db t0 a) acts))) k = Some m ->
    (forall r, In r (holders m) -> exists l, aget (store (fst (run (init_db t0 a) acts))) r = Some l /\ l_key l = k
                                             /\ r < next (fst (run (init_db t0 a) acts)))
    /\ NoDup (holders m)
    /\ (forall c, m_cur m = Some c -> 0 < l_locked (getl (fst (run (init_db t0 a) acts)) c))
    /\ (m_cur m = None -> m_locked m = 0 /\ holders m = [])
    /\ m_locked m < 4294967296.
Proof. exact reach_holders_wf. Qed.
Goal True. idtac "ASSUMPTIONS-OF C01_holders_wellformed". Abort.
Print Assumptions C01_holders_wellformed.
Example C01_holders_wellformed_nonvacuous :
  exists m, aget (mgrs (fst (run (init_db 1000000 1) c01_demo))) 7 = Some m /\ m_cur m = Some 1.
Proof. eexists. split; vm_compute; reflexivity. Qed.

Theorem C01_no_hold_lost : forall t0 a acts, core acts ->
  forall r l, aget (store (fst (run (init_db t0 a) acts))) r = Some l -> 0 < l_locked l ->
    In r (holders (getm (fst (run (init_db t0 a) acts)) (l_key l))) /\ l_locked l <= 255 /\ l_timeouted l = true.
Proof. exact reach_no_hold_lost. Qed.
Goal True. idtac "ASSUMPTIONS-OF C01_no_hold_lost". Abort.
Print Assumptions C01_no_hold_lost.
Example C01_no_hold_lost_nonvacuous :
  exists l, aget (store (fst (run (init_db 1000000 1) c01_demo))) 1 = Some l /\ l_locked l = 2.
Proof. eexists. split; vm_compute; reflexivity. Qed.
