(* C17: counters are exact, reference counts are exact, nothing freed is reachable -- in every state reachable by
   core actions (requests without require-ack / millisecond flags and without value frames, clock advances, sweeps,
   role changes) in runs of fewer than 2^24 - 2 actions (core). *)
From Coq Require Import List NArith ZArith String Bool Lia.
From Slock Require Import Engine.Types Engine.Queues Engine.Timers Engine.Engine Engine.Engine2 Engine.InvDef Engine.InvMain Engine.InvProps.
Import ListNotations.
Open Scope N_scope.

Definition c17_demo : list action :=
  [AReq 1 (make_cmd true 1 0 101 7 0 5 0 10 0 0 None); AReq 2 (make_cmd true 2 0 102 7 0 5 0 10 0 0 None);
   AReq 2 (make_cmd true 3 0 103 9 0 0 0 70 1 0 None); AAdvance 3; ASweepT; ASweepE;
   AReq 1 (make_cmd false 4 0 101 7 0 0 0 0 0 0 None)].
Definition c17_wait : list action :=
  [AReq 1 (make_cmd true 1 0 101 7 0 5 0 10 0 0 None); AReq 2 (make_cmd true 2 0 102 7 0 5 0 10 0 0 None)].

(* LockedCount = sum over keys of `locked`; WaitCount = number of live waiters (stored records not yet answered);
   KeyCount = number of key managers *)
Theorem C17_counters_exact : forall t0 a acts, core acts ->
  n_locked (cnt (fst (run (init_db t0 a) acts))) = Z.of_N (sum_locked (mgrs (fst (run (init_db t0 a) acts))))
  /\ n_wait (cnt (fst (run (init_db t0 a) acts))) = Z.of_nat (live_cnt (store (fst (run (init_db t0 a) acts))))
  /\ n_key (cnt (fst (run (init_db t0 a) acts))) = Z.of_nat (length (mgrs (fst (run (init_db t0 a) acts))))
  /\ NoDup (map fst (mgrs (fst (run (init_db t0 a) acts)))) /\ NoDup (map fst (store (fst (run (init_db t0 a) acts)))).
Proof. exact reach_counters. Qed.
Goal True. idtac "ASSUMPTIONS-OF C17_counters_exact". Abort.
Print Assumptions C17_counters_exact.
Example C17_counters_exact_nonvacuous :
  core c17_demo
  /\ n_locked (cnt (fst (run (init_db 1000000 1) c17_demo))) = 2%Z
  /\ n_key (cnt (fst (run (init_db 1000000 1) c17_demo))) = 2%Z
  /\ n_wait (cnt (fst (run (init_db 1000000 1) c17_wait))) = 1%Z.
Proof. split; [split; [repeat constructor|vm_compute; reflexivity]|repeat split; vm_compute; reflexivity]. Qed.

(* a live waiter is in the wait queue of its key exactly once, holds nothing and is in no holder list *)
Theorem C17_live_waiters : forall t0 a acts, core acts ->
  forall r l, aget (store (fst (run (init_db t0 a) acts))) r = Some l -> l_timeouted l = false ->
    occ r (m_wq (getm (fst (run (init_db t0 a) acts)) (l_key l))) = 1%nat /\ dead_waiter l = false /\ l_locked l = 0
    /\ occ r (holders (getm (fst (run (init_db t0 a) acts)) (l_key l))) = O.
Proof. exact reach_live_waiter. Qed.
Goal True. idtac "ASSUMPTIONS-OF C17_live_waiters". Abort.
Print Assumptions C17_live_waiters.
Example C17_live_waiters_nonvacuous :
  exists l, aget (store (fst (run (init_db 1000000 1) c17_wait))) 2 = Some l
            /\ l_timeouted l = false.
Proof. eexists. split; vm_compute; reflexivity. Qed.

(* refCount of every stored lock record = number of structures holding it *)
Theorem C17_refcount_exact : forall t0 a acts, core acts ->
  forall r l, aget (store (fst (run (init_db t0 a) acts))) r = Some l ->
    N.to_nat (l_refc l) = refs_to (fst (run (init_db t0 a) acts)) r (l_key l)
    /\ aget (mgrs (fst (run (init_db t0 a) acts))) (l_key l) <> None /\ r < next (fst (run (init_db t0 a) acts)).
Proof. exact reach_refcount. Qed.
Goal True. idtac "ASSUMPTIONS-OF C17_refcount_exact". Abort.
Print Assumptions C17_refcount_exact.
Example C17_refcount_exact_nonvacuous :
  exists l, aget (store (fst (run (init_db 1000000 1) c17_demo))) 2 = Some l /\ l_refc l = 3.
Proof. eexists. split; vm_compute; reflexivity. Qed.

(* every reference held by a wheel, a long table, a holder list or a wait queue points at a stored (not freed) record
   of the right key: no use after free is possible from these structures *)
Theorem C17_no_dangling_reference : forall t0 a acts, core acts ->
  (forall r, In r (wrefs (twheel (fst (run (init_db t0 a) acts))) ++ wrefs (tlong (fst (run (init_db t0 a) acts)))
                   ++ wrefs (ewheel (fst (run (init_db t0 a) acts))) ++ wrefs (elong (fst (run (init_db t0 a) acts)))) ->
             aget (store (fst (run (init_db t0 a) acts))) r <> None)
  /\ (forall k m r, aget (mgrs (fst (run (init_db t0 a) acts))) k = Some m -> In r (holders m ++ m_wq m) ->
        exists l, aget (store (fst (run (init_db t0 a) acts))) r = Some l /\ l_key l = k).
Proof. exact reach_no_dangling. Qed.
Goal True. idtac "ASSUMPTIONS-OF C17_no_dangling_reference". Abort.
Print Assumptions C17_no_dangling_reference.
Example C17_no_dangling_reference_nonvacuous :
  wrefs (ewheel (fst (run (init_db 1000000 1) c17_demo))) = [2; 1; 3] /\ wrefs (twheel (fst (run (init_db 1000000 1) c17_demo))) = [2].
Proof. split; vm_compute; reflexivity. Qed.

(* LockManager.refCount = number of stored records of the key; a key without manager has no record *)
Theorem C17_manager_refcount : forall t0 a acts, core acts ->
  forall k, match aget (mgrs (fst (run (init_db t0 a) acts))) k with
            | Some m => N.to_nat (m_ref m) = key_cnt k (store (fst (run (init_db t0 a) acts)))
            | None => key_cnt k (store (fst (run (init_db t0 a) acts))) = O
            end.
Proof. exact reach_mgr_refcount. Qed.
Goal True. idtac "ASSUMPTIONS-OF C17_manager_refcount". Abort.
Print Assumptions C17_manager_refcount.
Example C17_manager_refcount_nonvacuous :
  exists m, aget (mgrs (fst (run (init_db 1000000 1) c17_demo))) 7 = Some m /\ m_ref m = 2.
Proof. eexists. split; vm_compute; reflexivity. Qed.

(* drained states (partial): once every lock record has been freed, LockedCount = WaitCount = 0, no wheel / long table
   holds a reference and every key manager still present is idle.  (That no key manager is then present at all, i.e.
   KeyCount = 0, needs "every manager has a record": proved in C17_drain.v, C17_manager_has_record / C17_drained_complete.) *)
Theorem C17_drained : forall t0 a acts, core acts -> store (fst (run (init_db t0 a) acts)) = [] ->
  n_locked (cnt (fst (run (init_db t0 a) acts))) = 0%Z /\ n_wait (cnt (fst (run (init_db t0 a) acts))) = 0%Z
  /\ wrefs (twheel (fst (run (init_db t0 a) acts))) = [] /\ wrefs (tlong (fst (run (init_db t0 a) acts))) = []
  /\ wrefs (ewheel (fst (run (init_db t0 a) acts))) = [] /\ wrefs (elong (fst (run (init_db t0 a) acts))) = []
  /\ forall k m, aget (mgrs (fst (run (init_db t0 a) acts))) k = Some m ->
       m_locked m = 0 /\ holders m = [] /\ m_wq m = [] /\ m_ref m = 0.
Proof. exact reach_drained. Qed.
Goal True. idtac "ASSUMPTIONS-OF C17_drained". Abort.
Print Assumptions C17_drained.
Definition c17_drain : list action :=
  [AReq 1 (make_cmd true 1 0 101 7 0 5 0 3 0 0 None); AReq 2 (make_cmd true 2 0 102 7 0 2 0 3 0 0 None);
   AAdvance 4; ASweepT; ASweepE; AAdvance 4; ASweepT; ASweepE; AAdvance 4; ASweepT; ASweepE].
Example C17_drained_nonvacuous :
  core c17_drain /\ store (fst (run (init_db 1000000 1) c17_drain)) = [] /\ mgrs (fst (run (init_db 1000000 1) c17_drain)) = []
  /\ n_key (cnt (fst (run (init_db 1000000 1) c17_drain))) = 0%Z.
Proof. split; [split; [repeat constructor|vm_compute; reflexivity]|repeat split; vm_compute; reflexivity]. Qed.

(* Outside the core subset the statements above are FALSE of the model (and of the Go code it mirrors): re-entrant
   re-locks with the require-ack flag register acknowledgements for which no reference is taken; acknowledging them
   frees a live hold (depth 3) together with its key manager and leaves the expiry wheel pointing at the freed record,
   which doExpried then uses (EPanic "uaf:doExpried"). *)
Theorem C17_refuted_reentrant_ack :
  let '(s, evs) := run (init_db 1000000 0) ack_uaf_history in
  existsb is_uaf (last evs []) = true
  /\ (let s5 := fst (run (init_db 1000000 0) (firstn 5 ack_uaf_history)) in
      aget (store s5) 1 = None /\ aget (mgrs s5) 7 = None /\ wrefs (ewheel s5) = [1])
  /\ (let s3 := fst (run (init_db 1000000 0) (firstn 3 ack_uaf_history)) in
      m_locked (getm s3 7) = 3 /\ m_cur (getm s3 7) = Some 1).
Proof. exact C11_refuted_reentrant_ack. Qed.
Goal True. idtac "ASSUMPTIONS-OF C17_refuted_reentrant_ack". Abort.
Print Assumptions C17_refuted_reentrant_ack.
