(* C12 — election safety. Statements only; proofs live in Arbiter/*.v and Base/Quorum.v. *)
From Coq Require Import List NArith ZArith Bool.
From Slock Require Import Base.Quorum Arbiter.Vote Arbiter.Select Arbiter.Paxosish Arbiter.Guarded Arbiter.ArbiterProofs.
Import ListNotations.
Open Scope N_scope.

(* (b) CompareAofId is a strict total order on ids spanning less than the wrap-around window *)
Theorem C12_compare_in_window : forall o a b,
  o < M64 -> wf_aof a -> wf_aof b -> inwin o a -> inwin o b ->
  compareAofId a b = lexcmp (key o a) (ctime a) (key o b) (ctime b).
Proof. exact compare_in_window. Qed.
Goal True. idtac "ASSUMPTIONS-OF C12_compare_in_window". Abort.
Print Assumptions C12_compare_in_window.

Theorem C12_aof_order : forall o a b c,
  o < M64 -> wf_aof a -> wf_aof b -> wf_aof c -> inwin o a -> inwin o b -> inwin o c ->
  ~ aof_lt a a /\ (aof_lt a b -> ~ aof_lt b a) /\ (a <> b -> aof_lt a b \/ aof_lt b a) /\
  (aof_lt a b -> aof_lt b c -> aof_lt a c).
Proof. exact aof_order_in_window. Qed.
Goal True. idtac "ASSUMPTIONS-OF C12_aof_order". Abort.
Print Assumptions C12_aof_order.
Example C12_aof_order_nonvacuous :
  exists o a b c, o < M64 /\ wf_aof a /\ wf_aof b /\ wf_aof c /\ inwin o a /\ inwin o b /\ inwin o c /\ aof_lt a b /\ aof_lt b c.
Proof.
  exists 18446744073709551000, (mkAof 18446744073709551610 7), (mkAof 3 1), (mkAof 3 2).
  unfold wf_aof, inwin, aof_lt; cbn [aid ctime]. repeat split; vm_compute; reflexivity.
Qed.

(* (b) DoVote proposes the maximum of the data-bearing, non-zero-weight responders *)
Theorem C12_doVote_picks_maximum : forall o rs,
  o < M64 -> (forall v, In v rs -> eligible v = true -> vwin o v) ->
  match doVoteSelect rs with
  | None => forall v, In v rs -> eligible v = false
  | Some s => In s rs /\ eligible s = true /\ forall v, In v rs -> eligible v = true -> rank_le o v s
  end.
Proof. exact doVote_picks_maximum. Qed.
Goal True. idtac "ASSUMPTIONS-OF C12_doVote_picks_maximum". Abort.
Print Assumptions C12_doVote_picks_maximum.
Example C12_doVote_nonvacuous :
  doVoteSelect [mkV 0 1 0 (mkAof 5 1) 0; mkV 1 0 0 (mkAof 9 9) 0; mkV 2 1 1 (mkAof 9 9) 0; mkV 3 2 0 (mkAof 5 1) 0]
  = Some (mkV 3 2 0 (mkAof 5 1) 0).
Proof. vm_compute. reflexivity. Qed.

(* (b) a data-bearing member whose own log is newer refuses, and the refusal fails the candidate's proposal *)
Theorem C12_newer_log_rejects : forall isself cfg i nd p h a,
  n_abst nd = false -> arbiter_of cfg i = 0 -> aof_gt (n_log nd) a = true ->
  on_proposal isself cfg i nd p h a = (RErr E_REJECT 0, nd).
Proof. exact newer_log_rejects. Qed.
Goal True. idtac "ASSUMPTIONS-OF C12_newer_log_rejects". Abort.
Print Assumptions C12_newer_log_rejects.

(* (a) REFUTED as stated: two overlapping candidacies, no restart, no loss -> two DoCommit successes for two leaders *)
Theorem C12_refuted_no_restart :
  exists cfg s acts, init_ok cfg s /\ no_restart acts = true /\
    exists c1 i1 h1 c2 i2 h2, wins (snd (run cfg s acts)) = [(c1, i1, h1); (c2, i2, h2)] /\ c1 <> c2 /\ h1 <> h2.
Proof. exact refuted_two_winners_without_restart. Qed.
Goal True. idtac "ASSUMPTIONS-OF C12_refuted_no_restart". Abort.
Print Assumptions C12_refuted_no_restart.

Theorem C12_refuted_proposal_id_monotone :
  exists cfg s acts a k, init_ok cfg s /\ no_restart (acts ++ [a]) = true /\
    let s1 := fst (run cfg s acts) in pid_of (fst (step cfg s1 a)) k < pid_of s1 k.
Proof. exact refuted_proposal_id_monotone_without_restart. Qed.
Goal True. idtac "ASSUMPTIONS-OF C12_refuted_proposal_id_monotone". Abort.
Print Assumptions C12_refuted_proposal_id_monotone.

(* (c) REFUTED: one restart between commit and announcement *)
Theorem C12_refuted_restart :
  exists cfg s acts, init_ok cfg s /\ length (filter is_restart acts) = 1%nat /\
    filter is_ghost (snd (run cfg s acts)) = [EvLostLock 1] /\
    exists c1 i1 h1 c2 i2 h2, wins (snd (run cfg s acts)) = [(c1, i1, h1); (c2, i2, h2)] /\ c1 <> c2 /\ h1 <> h2.
Proof. exact refuted_restart_two_winners. Qed.
Goal True. idtac "ASSUMPTIONS-OF C12_refuted_restart". Abort.
Print Assumptions C12_refuted_restart.

(* (a)+(c) what DOES hold, for all schedules incl. restarts: if no candidate tally overwrote the candidate's own acceptor
   fields (EvOverwrite) and no member restarted while holding an election lock (EvLostLock), DoCommit succeeded at most
   once in the whole run. "Overlap in time" in the model: both candidacies lie in one run from a cluster state without
   election locks (init_ok) with no announcement/offline event in between - so the theorem covers overlapping AND
   sequential candidacies. *)
Theorem C12_single_winner_guarded : forall cfg s acts,
  init_ok cfg s ->
  (forall e, In e (snd (run cfg s acts)) -> is_ghost e = false) ->
  (length (wins (snd (run cfg s acts))) <= 1)%nat.
Proof. exact single_winner_guarded. Qed.
Goal True. idtac "ASSUMPTIONS-OF C12_single_winner_guarded". Abort.
Print Assumptions C12_single_winner_guarded.
Example C12_single_winner_guarded_nonvacuous :
  init_ok cfg3 init3 /\ (forall e, In e (snd (run cfg3 init3 (firstn 12 sched_restart))) -> is_ghost e = false) /\
  wins (snd (run cfg3 init3 (firstn 12 sched_restart))) = [(0, 2, 1)].
Proof. exact single_winner_guarded_nonvacuous. Qed.

(* (a) numbers: the only writers that can lower proposalId / commitId are a tally flagged EvOverwrite and a restart *)
Theorem C12_numbers_monotone_per_operation :
  (forall isself cfg t nd k f p h a r nd', handle isself cfg t nd k f p h a = (r, nd') ->
      n_pid nd <= n_pid nd' /\ n_cid nd <= n_cid nd') /\
  (forall c nd nd' es, tally c nd = (nd', es) -> (forall e, In e es -> is_ghost e = false) ->
      n_pid nd' = n_pid nd /\ n_cid nd' = n_cid nd) /\
  (forall remote nd m r, n_pid (record remote nd m r) = n_pid nd /\ n_cid (record remote nd m r) = n_cid nd) /\
  (forall k c nd pidx ph, n_pid (fst (start_phase k c nd pidx ph)) = n_pid nd /\ n_cid (fst (start_phase k c nd pidx ph)) = n_cid nd) /\
  (forall cfg c nd, n_pid (vote_succed cfg c nd) = n_pid nd /\ n_cid (vote_succed cfg c nd) = n_cid nd).
Proof. exact numbers_monotone_per_operation. Qed.
Goal True. idtac "ASSUMPTIONS-OF C12_numbers_monotone_per_operation". Abort.
Print Assumptions C12_numbers_monotone_per_operation.

(* quorum intersection used by the single-winner proof *)
Theorem C12_quorum_intersect : forall (U l1 l2 : list N),
  NoDup l1 -> NoDup l2 -> incl l1 U -> incl l2 U -> (length U < length l1 + length l2)%nat -> exists x, In x l1 /\ In x l2.
Proof. exact (quorum_intersect N.eq_dec). Qed.
Goal True. idtac "ASSUMPTIONS-OF C12_quorum_intersect". Abort.
Print Assumptions C12_quorum_intersect.

(* (a) numbers do regress at a restart (known finding C12-numbers-regress-on-restart): the committed number ... *)
Theorem C12_refuted_commit_id_monotone_restart :
  exists cfg s acts m, init_ok cfg s /\
    let s1 := fst (run cfg s acts) in cid_of (fst (step cfg s1 (ARestart m))) m < cid_of s1 m.
Proof. exact refuted_commit_id_monotone_restart. Qed.
Goal True. idtac "ASSUMPTIONS-OF C12_refuted_commit_id_monotone_restart". Abort.
Print Assumptions C12_refuted_commit_id_monotone_restart.

(* ... and an accepted, not yet committed number is forgotten by any restart, even one the guarded theorem allows *)
Theorem C12_refuted_proposal_id_monotone_restart :
  exists cfg s acts m, init_ok cfg s /\
    let s1 := fst (run cfg s acts) in
    filter is_ghost (snd (run cfg s (acts ++ [ARestart m]))) = [] /\
    pid_of (fst (step cfg s1 (ARestart m))) m < pid_of s1 m.
Proof. exact refuted_proposal_id_monotone_restart. Qed.
Goal True. idtac "ASSUMPTIONS-OF C12_refuted_proposal_id_monotone_restart". Abort.
Print Assumptions C12_refuted_proposal_id_monotone_restart.
