(* C02 (part): who may release.  The lookup performed by UnLock and by the re-entrant branch of Lock only ever returns
   an outstanding hold of that key bearing exactly that LockId (reachable states of the core subset); an UnLock whose
   LockId the lookup does not find, without unlock-first / cancel-wait, is refused with UNLOCK_ERROR (key idle) or
   UNOWN_ERROR (held by others) and changes nothing but UnlockErrorCount. *)
From Coq Require Import List NArith ZArith String Bool Lia.
From Slock Require Import Engine.Types Engine.Queues Engine.Timers Engine.Engine Engine.Engine2 Engine.InvDef Engine.InvMain Engine.InvProps.
Import ListNotations.
Open Scope N_scope.

Definition c02_demo : list action :=
  [AReq 1 (make_cmd true 1 0 101 7 0 5 0 10 2 2 None); AReq 2 (make_cmd true 2 0 102 7 0 5 0 10 2 0 None)].

Theorem C02_lookup_only_owner : forall t0 a acts, core acts ->
  forall k m id r, aget (mgrs (fst (run (init_db t0 a) acts))) k = Some m ->
    get_locked_lock (fst (run (init_db t0 a) acts)) m id = Some r ->
    exists l, aget (store (fst (run (init_db t0 a) acts))) r = Some l /\ l_key l = k /\ 0 < l_locked l
              /\ c_lockid (l_cmd l) = id /\ In r (holders m).
Proof. exact reach_lookup_sound. Qed.
Goal True. idtac "ASSUMPTIONS-OF C02_lookup_only_owner". Abort.
Print Assumptions C02_lookup_only_owner.
Example C02_lookup_only_owner_nonvacuous :
  core c02_demo
  /\ exists m, aget (mgrs (fst (run (init_db 1000000 1) c02_demo))) 7 = Some m
               /\ get_locked_lock (fst (run (init_db 1000000 1) c02_demo)) m 102 = Some 2.
Proof. split; [split; [repeat constructor|vm_compute; reflexivity]|eexists; split; vm_compute; reflexivity]. Qed.

Theorem C02_unlock_refused : forall s conn c m,
  aget (mgrs s) (c_key c) = Some m ->
  negb (leader s) && negb (has (c_flag c) UNLOCK_FLAG_FROM_AOF) = false ->
  has (c_flag c) UNLOCK_FLAG_FIRST = false -> has (c_flag c) UNLOCK_FLAG_CANCEL_WAIT = false ->
  get_locked_lock s m (c_lockid c) = None ->
  unlock_step s conn c =
    (bump (fun n => n <| n_unlockerr := (n_unlockerr n + 1)%Z |>) s,
     [reply conn c (if m_locked m =? 0 then R_UNLOCK_ERROR else R_UNOWN_ERROR) (m_locked m) 0 (data_of s (c_key c))], None).
Proof. exact unlock_refused. Qed.
Goal True. idtac "ASSUMPTIONS-OF C02_unlock_refused". Abort.
Print Assumptions C02_unlock_refused.
Example C02_unlock_refused_nonvacuous :
  match aget (mgrs (fst (run (init_db 1000000 1) c02_demo))) 7 with
  | Some m => get_locked_lock (fst (run (init_db 1000000 1) c02_demo)) m 103 = None /\ m_locked m = 2
  | None => False
  end.
Proof. vm_compute. split; reflexivity. Qed.
