(* C04, local form: every step that decreases a key's `locked` counter, ends a hold (release event) or answers a
   queued request leaves a wake-up pass pending for that key; what a finished pass guarantees; the pass always
   terminates within the fuel `finish` gives it.  Every state (no reachability assumption).
   Each of lock_step, unlock_step, cancel_wait_lock, do_timeout, do_expried, do_ack returns (state, events, pending pass). *)
From Coq Require Import String List NArith ZArith.
From Slock Require Import Engine.Types Engine.Queues Engine.Timers Engine.Engine Engine.Engine2
  Engine.LocalWake Engine.LocalC04Thms.
Import ListNotations.
Open Scope N_scope.

(* ---- Lock: `locked` of an existing manager decreases only at the key of the returned pass (in fact Lock never
   ends a hold: no release event); a returned pass is for the request's key ---- *)
Theorem C04_lock_pending : forall s conn c s' ev w,
  lock_step s conn c = (s', ev, w) ->
  (forall k m m', aget (mgrs s) k = Some m -> aget (mgrs s') k = Some m' -> m_locked m' < m_locked m ->
                  exists wk, w = Some wk /\ w_key wk = k)
  /\ (forall wk, w = Some wk -> w_key wk = c_key c)
  /\ Forall (fun e => match e with ERelease _ _ _ => False | _ => True end) ev.
Proof. exact lock_step_pending. Qed.
Goal True. idtac "ASSUMPTIONS-OF C04_lock_pending". Abort.
Print Assumptions C04_lock_pending.
(* a re-entrant re-lock returns a pass *)
Example C04_lock_pending_nonvacuous :
  exists s' ev, lock_step ex_held2 1 (mkCmd true 4 0 7 5 0 0 0 10 1 3 None) = (s', ev, Some (mkWake 5 (Some 1))).
Proof. eexists. eexists. vm_compute. reflexivity. Qed.

(* ---- UnLock ---- *)
Theorem C04_unlock_pending : forall s conn c s' ev w,
  unlock_step s conn c = (s', ev, w) ->
  (forall k m m', aget (mgrs s) k = Some m -> aget (mgrs s') k = Some m' -> m_locked m' < m_locked m ->
                  exists wk, w = Some wk /\ w_key wk = k)
  /\ (forall wk, w = Some wk -> w_key wk = c_key c)
  /\ Forall (fun e => match e with ERelease k _ _ => k = c_key c | _ => True end) ev
  /\ (w = None -> Forall (fun e => match e with ERelease _ _ _ => False | _ => True end) ev).
Proof. exact unlock_step_pending. Qed.
Goal True. idtac "ASSUMPTIONS-OF C04_unlock_pending". Abort.
Print Assumptions C04_unlock_pending.
Example C04_unlock_pending_nonvacuous :
  exists s' ev w m m', unlock_step ex_waiting 1 (mkCmd false 5 0 7 5 0 0 0 0 0 0 None) = (s', ev, w)
    /\ aget (mgrs ex_waiting) 5 = Some m /\ aget (mgrs s') 5 = Some m' /\ m_locked m' < m_locked m.
Proof. do 5 eexists. vm_compute. repeat split; reflexivity. Qed.

(* ---- cancelWaitLock: either nothing was queued under that LockId (UNLOCK_ERROR to the canceller, only
   UnlockErrorCount changes) or a pass is returned ---- *)
Theorem C04_cancel_pending : forall s conn c s' ev w,
  cancel_wait_lock s conn c = (s', ev, w) ->
  (forall k m m', aget (mgrs s) k = Some m -> aget (mgrs s') k = Some m' -> m_locked m' < m_locked m ->
                  exists wk, w = Some wk /\ w_key wk = k)
  /\ Forall (fun e => match e with ERelease k _ _ => k = c_key c | _ => True end) ev
  /\ ((w = None /\ s' = bump (fun n => n <| n_unlockerr := (n_unlockerr n + 1)%Z |>) s
       /\ ev = [reply conn c R_UNLOCK_ERROR (m_locked (getm s (c_key c))) 0 (data_of s (c_key c))])
      \/ w = Some (mkWake (c_key c) None)).
Proof. exact cancel_wait_lock_pending. Qed.
Goal True. idtac "ASSUMPTIONS-OF C04_cancel_pending". Abort.
Print Assumptions C04_cancel_pending.
(* the queued request W is cancelled: it is answered UNLOCK_ERROR (6) and a pass is pending *)
Example C04_cancel_pending_nonvacuous :
  exists s' e1, cancel_wait_lock ex_waiting 3 (mkCmd false 6 2 9 5 0 0 0 0 0 0 None)
                = (s', [e1; EReply 3 3 R_UNLOCK_ERROR 2 0 9 0 0 None], Some (mkWake 5 None)).
Proof. eexists. eexists. vm_compute. reflexivity. Qed.

(* ---- doTimeOut: a record that is not yet tombstoned (held with ack pending, or queued) always leaves a pass ---- *)
Theorem C04_timeout_pending : forall s r s' ev w,
  do_timeout s r = (s', ev, w) ->
  (forall k m m', aget (mgrs s) k = Some m -> aget (mgrs s') k = Some m' -> m_locked m' < m_locked m ->
                  exists wk, w = Some wk /\ w_key wk = k)
  /\ ((w = None /\ Forall (fun e => match e with EAof _ | EPanic _ => True | _ => False end) ev)
      \/ (exists l, aget (store s) r = Some l /\ l_timeouted l = false /\ w = Some (mkWake (l_key l) None)
                    /\ Forall (fun e => match e with ERelease k _ _ => k = l_key l | _ => True end) ev)).
Proof. exact do_timeout_pending. Qed.
Goal True. idtac "ASSUMPTIONS-OF C04_timeout_pending". Abort.
Print Assumptions C04_timeout_pending.
(* the queued request W (record 3) times out: TIMEOUT (8) reply, pass pending *)
Example C04_timeout_pending_nonvacuous :
  exists s', do_timeout ex_waiting 3 = (s', [EReply 3 3 R_TIMEOUT 2 0 9 0 0 None], Some (mkWake 5 None)).
Proof. eexists. vm_compute. reflexivity. Qed.

(* ---- doExpried ---- *)
Theorem C04_expried_pending : forall s r s' ev w,
  do_expried s r = (s', ev, w) ->
  (forall k m m', aget (mgrs s) k = Some m -> aget (mgrs s') k = Some m' -> m_locked m' < m_locked m ->
                  exists wk, w = Some wk /\ w_key wk = k)
  /\ ((w = None /\ Forall (fun e => match e with EAof _ | EPanic _ => True | _ => False end) ev)
      \/ (exists l, aget (store s) r = Some l /\ l_expried l = false /\ w = Some (mkWake (l_key l) None)
                    /\ Forall (fun e => match e with ERelease k _ _ => k = l_key l | _ => True end) ev)).
Proof. exact do_expried_pending. Qed.
Goal True. idtac "ASSUMPTIONS-OF C04_expried_pending". Abort.
Print Assumptions C04_expried_pending.
Example C04_expried_pending_nonvacuous :
  exists s' ev m m', do_expried ex_waiting 1 = (s', ev, Some (mkWake 5 None))
    /\ aget (mgrs ex_waiting) 5 = Some m /\ aget (mgrs s') 5 = Some m' /\ m_locked m' < m_locked m.
Proof. do 4 eexists. vm_compute. repeat split; reflexivity. Qed.

(* ---- DoAckLock ---- *)
Theorem C04_ack_pending : forall s r ok s' ev w,
  do_ack s r ok = (s', ev, w) ->
  (forall k m m', aget (mgrs s) k = Some m -> aget (mgrs s') k = Some m' -> m_locked m' < m_locked m ->
                  exists wk, w = Some wk /\ w_key wk = k)
  /\ ((w = None /\ Forall (fun e => match e with ERelease _ _ _ => False | _ => True end) ev)
      \/ (exists l, aget (store s) r = Some l /\ w = Some (mkWake (l_key l) None)
                    /\ Forall (fun e => match e with ERelease k _ _ => k = l_key l | _ => True end) ev)).
Proof. exact do_ack_pending. Qed.
Goal True. idtac "ASSUMPTIONS-OF C04_ack_pending". Abort.
Print Assumptions C04_ack_pending.
(* a require-ack lock (timeout flag 0x1000) whose acknowledgement fails is rolled back: release + pass *)
Example C04_ack_pending_nonvacuous :
  let s := fst (step (init_db 0 0) (AReq 1 (mkCmd true 1 0 7 5 4096 5 0 10 0 0 None))) in
  exists s' ev, do_ack s 1 false = (s', ERelease 5 1 1 :: ev, Some (mkWake 5 None)).
Proof. eexists. eexists. vm_compute. reflexivity. Qed.

(* ---- the pass itself: an iteration ends the pass (WDone) only if the key has no manager, or the manager is not
   `waited`, or the wait queue is EMPTY after the tombstoned heads were discarded (then `waited` is cleared), or the
   first live waiter -- the head of the queue -- is not admissible (doLock false) ---- *)
Theorem C04_wake_done_meaning : forall s w s' ev,
  wake_iter s w = (s', ev, WDone) ->
  ev = [] /\
  (aget (mgrs s) (w_key w) = None /\ s' = s
   \/ (exists m, aget (mgrs s) (w_key w) = Some m /\ m_waited m = false /\ s' = s)
   \/ (exists m, aget (mgrs s) (w_key w) = Some m /\ m_waited m = true
         /\ snd (get_wait_lock s (w_key w)) = None
         /\ s' = remove_mgr_if_unref (updm (fst (get_wait_lock s (w_key w))) (w_key w)
                                       (fun m => m <| m_waited := false |>)) (w_key w)
         /\ forall m1, aget (mgrs (fst (get_wait_lock s (w_key w)))) (w_key w) = Some m1 ->
                       m_wait m1 = None \/ exists q1, m_wait m1 = Some q1 /\ wq_items q1 = [])
   \/ (exists m r, aget (mgrs s) (w_key w) = Some m /\ m_waited m = true
         /\ snd (get_wait_lock s (w_key w)) = Some r
         /\ do_lock (fst (get_wait_lock s (w_key w))) (w_key w) r = false
         /\ s' = fst (get_wait_lock s (w_key w))
         /\ dead_waiter (getl s' r) = false
         /\ forall m1, aget (mgrs s') (w_key w) = Some m1 -> exists q1, m_wait m1 = Some q1 /\ wq_head q1 = Some r)).
Proof. exact wake_iter_done_meaning. Qed.
Goal True. idtac "ASSUMPTIONS-OF C04_wake_done_meaning". Abort.
Print Assumptions C04_wake_done_meaning.
(* W (Count 0) is the live head and not admissible while A and B hold *)
Example C04_wake_done_meaning_nonvacuous :
  exists s', wake_iter ex_waiting (mkWake 5 None) = (s', [], WDone)
             /\ snd (get_wait_lock ex_waiting 5) = Some 3 /\ do_lock (fst (get_wait_lock ex_waiting 5)) 5 3 = false.
Proof. eexists. vm_compute. repeat split; reflexivity. Qed.

(* ---- the pass never runs out of fuel: within wake_fuel iterations a WDone iteration is reached (each WMore
   iteration tombstones the waiter it served, the next GetWaitLock pops it: the queue strictly shrinks), so more
   fuel changes nothing, and what `finish` returns is the request's events followed by a complete pass ---- *)
Theorem C04_wake_pass_within_fuel : forall s ev w,
  wake_done_within (wake_fuel s (w_key w)) s w = true
  /\ (forall n, (wake_fuel s (w_key w) <= n)%nat -> run_wake n s w = run_wake (wake_fuel s (w_key w)) s w)
  /\ exists s' ev', finish (s, ev, Some w) = (s', ev ++ ev') /\ wake_trace s w s' ev'.
Proof. exact wake_pass_within_fuel. Qed.
Goal True. idtac "ASSUMPTIONS-OF C04_wake_pass_within_fuel". Abort.
Print Assumptions C04_wake_pass_within_fuel.
(* A and B unlock: the pass after B's unlock grants W (one WMore iteration, then WDone) *)
Example C04_wake_pass_within_fuel_nonvacuous :
  let s := fst (step ex_waiting (AReq 1 (mkCmd false 5 0 7 5 0 0 0 0 0 0 None))) in
  In (EGrant 5 3 true 0 0 0) (snd (step s (AReq 2 (mkCmd false 6 0 8 5 0 0 0 0 0 0 None)))).
Proof. vm_compute. auto 10. Qed.

(* the state in which a request (sweep, ack) ends after its pass is the result of a WDone iteration: by
   C04_wake_done_meaning the key then has no manager / is not `waited` / has an empty queue / has a live head waiter
   that doLock does not accept *)
Theorem C04_finish_ends_done : forall s ev w s' evs,
  finish (s, ev, Some w) = (s', evs) -> exists s0, wake_iter s0 w = (s', [], WDone).
Proof. exact finish_ends_done. Qed.
Goal True. idtac "ASSUMPTIONS-OF C04_finish_ends_done". Abort.
Print Assumptions C04_finish_ends_done.
Example C04_finish_ends_done_nonvacuous :
  exists s1 ev1, unlock_step ex_waiting 1 (mkCmd false 5 0 7 5 0 0 0 0 0 0 None) = (s1, ev1, Some (mkWake 5 (Some 1))).
Proof. do 2 eexists. vm_compute. reflexivity. Qed.
