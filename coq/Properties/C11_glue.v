(* C11, glue around the ack counter (see coq/AckGlue/README.md):
     A. quorum bookkeeping  -- ReplicationManager.{addServerChannel, removeServerChannel, GetOrNewAckDB, SwitchToLeader,
                               UpdateDBAckCount}: which number an ack-lock has to collect (model AckGlue/Quorum.v; the
                               formula is Gen.GenDecision.UpdateDBAckCount, regenerated from the Go source);
     B. flush / ack reports -- AofFile.{WriteLock, WriteLockData, Flush, Close}, Aof.Flush: when "the record reached the
                               leader's own log" is reported for a buffered ack request (model AckGlue/Flush.v). *)
From Coq Require Import List NArith ZArith Bool Lia.
From Slock Require Import Gen.GenDecision AckGlue.Quorum AckGlue.Flush AckGlue.FlushProofs AckGlue.QuorumEngine.
From Slock Require Import Engine.Ack.
Import ListNotations.
Open Scope N_scope.

(* ================================================================================================ A. quorum *)

(* A1: every operation sequence without a replica-set member-list change: after EVERY operation every existing ack DB
   holds UpdateDBAckCount of the current follower list / configuration *)
Theorem C11_glue_quorum_current : forall ops q,
  all_current q -> forallb (fun op => negb (is_arbiter_op op)) ops = true ->
  Forall (fun r => all_current (fst r)) (qtrace q ops).
Proof. exact quorum_all_current. Qed.
Goal True. idtac "ASSUMPTIONS-OF C11_glue_quorum_current". Abort.
Print Assumptions C11_glue_quorum_current.
Example C11_glue_quorum_current_nonvacuous :
  all_current (q_init 1 None)
  /\ forallb (fun op => negb (is_arbiter_op op)) [QGetDB 0; QAdd 7; QReg 0; QAdd 8; QRemove 7; QLeader] = true
  /\ map (fun r => q_dbs (fst r)) (qtrace (q_init 1 None) [QGetDB 0; QAdd 7; QReg 3; QAdd 8; QRemove 7])
     = [[(0, 1)]; [(0, 2)]; [(0, 2); (3, 2)]; [(0, 2); (3, 2)]; [(0, 2); (3, 2)]].
Proof. split; [constructor|split; vm_compute; reflexivity]. Qed.

(* A2: without a replica set (slock.arbiterManager == nil) this holds for ALL operation sequences *)
Theorem C11_glue_quorum_current_no_replset : forall ops q,
  q_arb q = None -> all_current q -> Forall (fun r => all_current (fst r)) (qtrace q ops).
Proof. exact quorum_all_current_no_replset. Qed.
Goal True. idtac "ASSUMPTIONS-OF C11_glue_quorum_current_no_replset". Abort.
Print Assumptions C11_glue_quorum_current_no_replset.
Example C11_glue_quorum_current_no_replset_nonvacuous : forall mode,
  q_arb (q_init mode None) = None /\ all_current (q_init mode None).
Proof. intro. split; [reflexivity|constructor]. Qed.

(* A3: with a replica set: whatever happened before, a follower joining / leaving or SwitchToLeader makes every count
   current again *)
Theorem C11_glue_quorum_recompute : forall ops q op,
  recomputes op = true -> all_current (qrun q (ops ++ [op])).
Proof. exact quorum_current_after_recompute. Qed.
Goal True. idtac "ASSUMPTIONS-OF C11_glue_quorum_recompute". Abort.
Print Assumptions C11_glue_quorum_recompute.
Example C11_glue_quorum_recompute_nonvacuous :
  recomputes (QAdd 1) = true /\ recomputes (QRemove 1) = true /\ recomputes QLeader = true.
Proof. repeat split. Qed.

(* A4: an ack-lock registered at any time (PushLock -> GetOrNewAckDB -> ProcessLeaderPushLock: lock.ackCount :=
   db.ackCount) is told to collect exactly UpdateDBAckCount of the follower list of that moment *)
Theorem C11_glue_registration_count : forall ops q,
  all_current q -> forallb (fun op => negb (is_arbiter_op op)) ops = true ->
  Forall (fun r => match snd r with Some c => c = cur_count (fst r) | None => True end) (qtrace q ops).
Proof. exact quorum_registration_count_run. Qed.
Goal True. idtac "ASSUMPTIONS-OF C11_glue_registration_count". Abort.
Print Assumptions C11_glue_registration_count.
Example C11_glue_registration_count_nonvacuous :
  map snd (qtrace (q_init 0 None) [QReg 0; QAdd 1; QReg 0; QAdd 2; QReg 5; QRemove 1; QReg 0])
  = [Some 1; None; Some 2; None; Some 3; None; Some 2].
Proof. vm_compute. reflexivity. Qed.

(* A5: what the number is (statements about the GENERATED function) *)
Theorem C11_glue_count_all : forall n, (0 <= n < 255)%Z -> forall mode maj, mode <> 1 ->
  UpdateDBAckCount (mk_UpdateDBAckCount_in false mode n maj) = Z.to_N (n + 1).
Proof. exact count_all. Qed.
Goal True. idtac "ASSUMPTIONS-OF C11_glue_count_all". Abort.
Print Assumptions C11_glue_count_all.

Theorem C11_glue_count_majority : forall n, (0 <= n < 255)%Z -> forall maj,
  let c := Z.of_N (UpdateDBAckCount (mk_UpdateDBAckCount_in false 1 n maj)) in
  (c = (n + 1) / 2 + 1 /\ n + 1 < 2 * c /\ c <= n + 1 + 1 /\ (1 <= n -> c <= n + 1))%Z.
Proof. exact count_majority. Qed.
Goal True. idtac "ASSUMPTIONS-OF C11_glue_count_majority". Abort.
Print Assumptions C11_glue_count_majority.

Theorem C11_glue_count_replset : forall n, (0 <= n < 255)%Z -> forall mode maj,
  (mode = 2 -> UpdateDBAckCount (mk_UpdateDBAckCount_in true mode n maj) = Z.to_N (n + 1))
  /\ (mode <> 2 -> (0 <= maj < 256)%Z -> UpdateDBAckCount (mk_UpdateDBAckCount_in true mode n maj) = Z.to_N maj).
Proof.
  intros n Hn mode maj. split; [intros ->; exact (count_replset_all n Hn maj)|exact (count_replset_majority n mode maj)].
Qed.
Goal True. idtac "ASSUMPTIONS-OF C11_glue_count_replset". Abort.
Print Assumptions C11_glue_count_replset.

Theorem C11_glue_count_table :
  map (fun n => UpdateDBAckCount (mk_UpdateDBAckCount_in false 0 n 0)) [0; 1; 2]%Z = [1; 2; 3]
  /\ map (fun n => UpdateDBAckCount (mk_UpdateDBAckCount_in false 1 n 0)) [0; 1; 2]%Z = [1; 2; 2]
  /\ map (fun n => UpdateDBAckCount (mk_UpdateDBAckCount_in false 2 n 0)) [0; 1; 2]%Z = [1; 2; 3].
Proof. exact count_table. Qed.
Goal True. idtac "ASSUMPTIONS-OF C11_glue_count_table". Abort.
Print Assumptions C11_glue_count_table.

(* A6: reachable states without a replica set: every ack DB asks for followers+1 ("all": the leader's own flush counts
   as one) resp. the strict majority of the followers+1 nodes *)
Theorem C11_glue_count_meaning : forall ops mode,
  let q := qrun (q_init mode None) ops in
  (length (q_chans q) < 255)%nat ->
  forall d c, In (d, c) (q_dbs q) ->
    if N.eqb mode 1 then Z.of_N c = ((Z.of_nat (length (q_chans q)) + 1) / 2 + 1)%Z
    else c = N.of_nat (length (q_chans q) + 1).
Proof. exact quorum_count_meaning. Qed.
Goal True. idtac "ASSUMPTIONS-OF C11_glue_count_meaning". Abort.
Print Assumptions C11_glue_count_meaning.
Example C11_glue_count_meaning_nonvacuous :
  let q := qrun (q_init 1 None) [QAdd 1; QAdd 2; QGetDB 4] in
  (length (q_chans q) < 255)%nat /\ In (4, 2) (q_dbs q).
Proof. vm_compute. split; [repeat constructor|left; reflexivity]. Qed.

(* A7: the count is the `cfg` of the engine-level C11 theorems (Engine/Ack.v keeps it constant during a run): those
   theorems, which hold for every cfg, apply with the count an ack DB holds in any reachable bookkeeping state *)
Theorem C11_glue_engine_cfg : forall ops mode d c t0 aoft,
  let q := qrun (q_init mode None) ops in
  db_count q d = Some c ->
  a_cfg (init_astate t0 aoft c) = UpdateDBAckCount (count_in q).
Proof. exact quorum_engine_cfg. Qed.
Goal True. idtac "ASSUMPTIONS-OF C11_glue_engine_cfg". Abort.
Print Assumptions C11_glue_engine_cfg.
Example C11_glue_engine_cfg_nonvacuous : db_count (qrun (q_init 0 None) [QAdd 1; QReg 0]) 0 = Some 2.
Proof. vm_compute. reflexivity. Qed.

(* A8 (refutation): with a replica set and a mode other than 2 a member-list change (AddMember / RemoveMember /
   UpdateMember / announcement) does not recompute: the DB keeps the majority of the OLD list *)
Theorem C11_glue_quorum_current_refuted_replset :
  exists ops, let q := qrun (q_init 0 (Some [false])) ops in
    ~ all_current q /\ db_count q 0 = Some 1 /\ cur_count q = 2.
Proof. exact quorum_all_current_refuted_replset. Qed.
Goal True. idtac "ASSUMPTIONS-OF C11_glue_quorum_current_refuted_replset". Abort.
Print Assumptions C11_glue_quorum_current_refuted_replset.

(* ================================================================================================ B. flush *)

(* B1: every operation sequence (appends with/without value and require-ack, flushes and closes, any write outcomes,
   any buffer size): the requests are reported in the order they were buffered, each at most once; the requests not
   reported yet are exactly the content of ackRequests *)
Theorem C11_glue_flush_fifo_once : forall cap ops,
  let r := frun cap f_init ops in
  map fst (snd r) ++ f_acks (fst r) = f_regd (fst r) /\ NoDup (f_regd (fst r)).
Proof. exact flush_reports_fifo_once. Qed.
Goal True. idtac "ASSUMPTIONS-OF C11_glue_flush_fifo_once". Abort.
Print Assumptions C11_glue_flush_fifo_once.
Example C11_glue_flush_fifo_once_nonvacuous :
  let r := frun 4 f_init [FAppend true None WOk WOk WOk; FAppend false (Some 9) WOk WOk WOk;
                          FAppend true (Some 9) WOk WOk WOk; FFlush false WOk (WFail 0);
                          FAppend true None WOk WOk WOk] in
  snd r = [(0, false); (2, false)] /\ f_acks (fst r) = [3] /\ f_regd (fst r) = [0; 2; 3].
Proof. vm_compute. repeat split. Qed.

(* B2: one operation from any reachable state.
   (1) a request reported true has its 64-byte record in the main file and, if it was appended with a value, the value
       in the .dat file -- EXCEPT the record being appended by this very operation when the operation ends in an error
       (its value is written unbuffered AFTER the report; B5 shows the exception is real);
   (3) an operation of an open file that ends in an error leaves windex = dwindex = ackIndex = 0;
   (2) so does every Flush / Close, successful or not: a request never stays buffered across a flush *)
Theorem C11_glue_flush_step : forall cap ops op st' rep err,
  let st := fst (frun cap f_init ops) in
  fstep cap st op = (st', rep, err) ->
  (forall r, In (r, true) rep ->
     In r (f_dmain st') /\
     (In r (f_wants st') -> In r (f_ddata st') \/ (err = true /\ r = f_next st /\ appends_data op = true)))
  /\ (f_open st = true -> err = true -> bufs_empty st')
  /\ (is_flush_op op = true -> bufs_empty st').
Proof. exact flush_step_props. Qed.
Goal True. idtac "ASSUMPTIONS-OF C11_glue_flush_step". Abort.
Print Assumptions C11_glue_flush_step.
Example C11_glue_flush_step_nonvacuous :
  fstep 4 (fst (frun 4 f_init [FAppend true (Some 9) WOk WOk WOk])) (FFlush true WOk WOk)
  = (mkF true 1 [] [] [] [0] [0] [0] [0], [(0, true)], false)
  /\ fstep 4 (fst (frun 4 f_init [FAppend true (Some 9) WOk WOk WOk])) (FFlush true WOk (WFail 3))
  = (mkF true 1 [] [] [] [0] [] [0] [0], [(0, false)], true).
Proof. split; vm_compute; reflexivity. Qed.

(* B3: "true means durable" for every operation that did not itself end in an error *)
Theorem C11_glue_flush_true_durable : forall cap ops op st' rep,
  let st := fst (frun cap f_init ops) in
  fstep cap st op = (st', rep, false) -> forall r, In (r, true) rep -> durable st' r.
Proof. exact flush_true_durable. Qed.
Goal True. idtac "ASSUMPTIONS-OF C11_glue_flush_true_durable". Abort.
Print Assumptions C11_glue_flush_true_durable.
Example C11_glue_flush_true_durable_nonvacuous :
  exists st' rep, fstep 1 (fst (frun 1 f_init [])) (FAppend true (Some 9) WOk WOk WOk) = (st', rep, false)
                  /\ In (0, true) rep.
Proof. eexists. eexists. vm_compute. split; [reflexivity|left; reflexivity]. Qed.

(* B4: the buffers never overflow: ackIndex <= windex/64 < len(wbuf)/64 and dwindex <= len(dwbuf) after every operation *)
Theorem C11_glue_flush_in_range : forall cap ops,
  let st := fst (frun cap f_init ops) in
  (1 <= cap)%nat ->
  (length (f_acks st) <= length (f_main st) < cap)%nat /\ dsum (f_data st) <= dcap cap.
Proof. exact flush_buffers_in_range. Qed.
Goal True. idtac "ASSUMPTIONS-OF C11_glue_flush_in_range". Abort.
Print Assumptions C11_glue_flush_in_range.

(* B5 (refutation): "reported true => the whole record is in the log" is false for the current code.  wbuf of one
   record; a require-ack record with a value: WriteLock's own Flush reports it true, then WriteLockData's unbuffered
   write of the value fails *)
Theorem C11_glue_flush_true_durable_refuted :
  exists cap ops, let r := frun cap f_init ops in
    exists x, In (x, true) (snd r) /\ In x (f_wants (fst r)) /\ ~ In x (f_ddata (fst r)).
Proof. exact flush_true_durable_refuted. Qed.
Goal True. idtac "ASSUMPTIONS-OF C11_glue_flush_true_durable_refuted". Abort.
Print Assumptions C11_glue_flush_true_durable_refuted.
