(* C05 — wait timeouts fire in [T, T+2 s], never early, never after a grant.
   Model: coq/Engine/{Types,Queues,Timers,Engine,Engine2}.v (validated against the Go code on every run);
   proofs: coq/Engine/Time*.v.  Core subset (TimeBase.core_action): Lock/UnLock requests without the
   require-ack / millisecond flags and without a value frame, clock advances k >= 0, both sweeps, role changes.
   TA (TimeInv.v) is the timeout invariant; it holds in init_db and is preserved by every core action. *)
From Coq Require Import List NArith ZArith Bool Lia String.
From Slock Require Import Engine.Types Engine.Queues Engine.Timers Engine.Engine Engine.Engine2.
From Slock Require Import Engine.TimeBase Engine.TimeFrame Engine.TimeStep Engine.TimeWheel Engine.TimeInv Engine.TimeRun.
From Slock Require Import Engine.TimeEvents Engine.TimeWhere Engine.TimeThm Engine.TimeMono Engine.TimeEvLock Engine.TimeFinal.
From Slock Require Import Engine.TimeLocal Engine.TimeRegular Engine.TimeZero.
Import ListNotations.
Open Scope N_scope.

(* a concrete run used for the non-vacuity examples: request 2 (Timeout = 3 s) waits behind request 1 and is
   answered TIMEOUT by the sweep of second t0 + 4 *)
Definition c05_demo : list action :=
  [AReq 1 (make_cmd true 1 0 101 7 0 5 0 10 0 0 None); AReq 2 (make_cmd true 2 0 102 7 0 3 0 10 0 0 None);
   AAdvance 1; ASweepT; ASweepE; AAdvance 1; ASweepT; ASweepE; AAdvance 1; ASweepT; ASweepE; AAdvance 1; ASweepT; ASweepE].

(* the invariant: initial states, every core action *)
Theorem C05_invariant_init : forall t0 aoft, (0 <= t0)%Z -> TA (init_db t0 aoft).
Proof. exact TA_init. Qed.
Goal True. idtac "ASSUMPTIONS-OF C05_invariant_init". Abort.
Print Assumptions C05_invariant_init.

Theorem C05_invariant_step : forall s a, TA s -> core_action a -> TA (fst (step s a)).
Proof. exact step_TA. Qed.
Goal True. idtac "ASSUMPTIONS-OF C05_invariant_step". Abort.
Print Assumptions C05_invariant_step.
Example C05_invariant_step_nonvacuous : TA (init_db 1000000 1) /\ Forall core_action c05_demo.
Proof. split; [apply TA_init; lia|]. repeat constructor; cbn; lia. Qed.

(* (a) NEVER EARLY, any tick sizes, any sweep schedule.  A TIMEOUT reply emitted by a timeout sweep answers a Lock
   request of an earlier step (state sq, server time now sq) of the same run; it goes to that request's connection with
   its request id (the command is echoed with at most the LockId replaced, which the show flag does), and the sweep
   runs at a server time >= now sq + Timeout*unit + 1 (unit = 60 with the minute flag). *)
Theorem C05_a_never_early : forall s0 acts,
  TA s0 -> (forall r l, ~ tlive s0 r l) -> Forall core_action acts ->
  forall s, In (s, ASweepT) (run_states s0 acts) ->
  forall e, In e (snd (step s ASweepT)) -> is_tr e = true ->
  exists sq conn c lockid lc lrc d,
    In (sq, AReq conn c) (run_states s0 acts) /\ c_lock c = true /\ (0 <? c_timeout c) = true
    /\ e = reply conn (c <| c_lockid := lockid |>) R_TIMEOUT lc lrc d
    /\ (now sq + Z.of_N (c_timeout c) * tunit c + 1 <= now s)%Z.
Proof. exact timeout_never_early. Qed.
Goal True. idtac "ASSUMPTIONS-OF C05_a_never_early". Abort.
Print Assumptions C05_a_never_early.
Example C05_a_never_early_nonvacuous :
  (forall r l, ~ tlive (init_db 1000000 1) r l)
  /\ exists s e, In (s, ASweepT) (run_states (init_db 1000000 1) c05_demo) /\ In e (snd (step s ASweepT)) /\ is_tr e = true
                 /\ now s = 1000004%Z.
Proof.
  split; [intros r l [G _]; discriminate|].
  eexists _, _. split; [|split; [|split]].
  - cbn [c05_demo run_states]. do 12 right. left. reflexivity.
  - vm_compute. left. reflexivity.
  - reflexivity.
  - vm_compute. reflexivity.
Qed.

(* ... and every other TIMEOUT reply of any run is the immediate answer to the Lock request of that very step, which is
   then not queued: Timeout = 0 (or the timeout-when-data flag) *)
Theorem C05_a_other_timeouts_immediate : forall s a e,
  In e (snd (step s a)) -> is_tr e = true ->
  a = ASweepT \/ exists conn c, a = AReq conn c /\ c_lock c = true /\ immediate_timeout conn c e.
Proof. exact timeout_replies_classified. Qed.
Goal True. idtac "ASSUMPTIONS-OF C05_a_other_timeouts_immediate". Abort.
Print Assumptions C05_a_other_timeouts_immediate.

(* (a) at the level of doTimeOut calls: whenever a sweep calls doTimeOut on a live waiter, the deadline computed at
   queueing time has been reached *)
Theorem C05_a_call_level : forall s, TA s ->
  forall s' r l, In (s', r) (timeout_calls s) -> tlive s' r l ->
  now s' = now s /\ (timeout_deadline (l_cmd l) (l_start l) <= now s)%Z.
Proof. exact timeout_call_not_early. Qed.
Goal True. idtac "ASSUMPTIONS-OF C05_a_call_level". Abort.
Print Assumptions C05_a_call_level.

(* (b) NO LOSS / UPPER BOUND.  One sweep: if every live waiter is stored under a not yet swept second <= its deadline
   (TW), the sweep lags by fewer than 7 seconds and does not hit a freed record (no EPanic; excluded by the heap
   invariant of Engine/Inv*.v), then afterwards TW holds again and no live waiter has a deadline <= now. *)
Theorem C05_b_sweep_no_loss : forall s,
  TA s -> TW [] (checkT s) s -> (now s < checkT s + 7)%Z -> ~ has_panic (snd (sweep_timeouts s)) ->
  TW [] (now s + 1) (fst (sweep_timeouts s))
  /\ forall r l, tlive (fst (sweep_timeouts s)) r l -> (now s < l_tT l)%Z.
Proof. exact sweep_timeouts_no_loss. Qed.
Goal True. idtac "ASSUMPTIONS-OF C05_b_sweep_no_loss". Abort.
Print Assumptions C05_b_sweep_no_loss.

(* Runs: in every core run whose timeout sweeps satisfy sweep_ok (lag < 7 s, no crash on a freed record), after every
   timeout sweep each waiter that is still queued has its deadline queue time + T*unit + 1 strictly in the future.
   With unit ticks (AAdvance 1; ASweepT) the sweep at server time D = t0 + T*unit + 1 therefore answers every waiter
   with deadline D that was not granted or cancelled before: TIMEOUT at t0 + T*unit + 1 <= t0 + T*unit + 2. *)
Theorem C05_b_no_loss : forall s0 acts,
  TA s0 -> TW [] (checkT s0) s0 -> Forall core_action acts -> Forall sweep_ok (run_states s0 acts) ->
  forall s, In (s, ASweepT) (run_states s0 acts) ->
  forall r l, tlive (fst (sweep_timeouts s)) r l ->
  (now s < timeout_deadline (l_cmd l) (l_start l))%Z.
Proof. exact timeout_no_loss_run. Qed.
Goal True. idtac "ASSUMPTIONS-OF C05_b_no_loss". Abort.
Print Assumptions C05_b_no_loss.
Example C05_b_no_loss_nonvacuous :
  TW [] (checkT (init_db 1000000 1)) (init_db 1000000 1) /\ Forall sweep_ok (run_states (init_db 1000000 1) c05_demo).
Proof.
  split; [apply TW_init|].
  match goal with |- Forall _ ?x => let y := eval vm_compute in x in replace x with y by (vm_compute; reflexivity) end.
  repeat (apply Forall_cons; [|]); try apply Forall_nil; unfold sweep_ok; cbn [snd fst]; try exact I.
  all: split; [vm_compute; reflexivity|].
  all: match goal with |- ~ has_panic ?x => let y := eval vm_compute in x in replace x with y by (vm_compute; reflexivity) end.
  all: repeat (apply no_panic_cons; [intros site; discriminate|]); apply no_panic_nil.
Qed.

(* a waiter that is overdue when such a sweep starts is no longer waiting when it ends (answered TIMEOUT by the sweep
   or granted by one of its wake-up passes) *)
Theorem C05_b_overdue_answered : forall s r l,
  TA s -> TW [] (checkT s) s -> (now s < checkT s + 7)%Z -> ~ has_panic (snd (sweep_timeouts s)) ->
  tlive s r l -> (l_tT l <= now s)%Z -> tdead (fst (sweep_timeouts s)) r.
Proof. exact sweep_answers_overdue. Qed.
Goal True. idtac "ASSUMPTIONS-OF C05_b_overdue_answered". Abort.
Print Assumptions C05_b_overdue_answered.

(* Regular schedules (TimeRegular.regular): core requests, expiry sweeps and role changes anywhere, clock ticks of one
   second, and a timeout sweep between any two ticks.  Then the lag condition holds by construction, no waiter is
   overdue when a sweep starts, a waiter whose deadline equals `now` is gone after the sweep, and nobody with a
   reached deadline is left. *)
Theorem C05_b_regular_no_loss : forall t0 aoft acts,
  (0 <= t0)%Z -> regular true acts -> Forall no_sweep_panic (run_states (init_db t0 aoft) acts) ->
  Forall sweep_ok (run_states (init_db t0 aoft) acts)
  /\ forall s, In (s, ASweepT) (run_states (init_db t0 aoft) acts) ->
       (forall r l, tlive s r l -> (now s <= l_tT l)%Z)
       /\ (forall r l, tlive s r l -> l_tT l = now s -> tdead (fst (sweep_timeouts s)) r)
       /\ (forall r l, tlive (fst (sweep_timeouts s)) r l -> (now s < timeout_deadline (l_cmd l) (l_start l))%Z).
Proof. exact regular_no_loss. Qed.
Goal True. idtac "ASSUMPTIONS-OF C05_b_regular_no_loss". Abort.
Print Assumptions C05_b_regular_no_loss.
Example C05_b_regular_no_loss_nonvacuous :
  regular true c05_demo /\ Forall no_sweep_panic (run_states (init_db 1000000 1) c05_demo).
Proof.
  split; [cbn; repeat split|].
  match goal with |- Forall _ ?x => let y := eval vm_compute in x in replace x with y by (vm_compute; reflexivity) end.
  repeat (apply Forall_cons; [|]); try apply Forall_nil; unfold no_sweep_panic; cbn [snd fst]; try exact I.
  all: match goal with |- ~ has_panic ?x => let y := eval vm_compute in x in replace x with y by (vm_compute; reflexivity) end.
  all: repeat (apply no_panic_cons; [intros site; discriminate|]); apply no_panic_nil.
Qed.

(* (a)+(b) under a regular schedule: the TIMEOUT reply of a sweep is emitted at server time EXACTLY
   queue time + Timeout*unit + 1 (within the window [T, T+2 s] of the property) *)
Theorem C05_ab_regular_exact : forall t0 aoft acts,
  (0 <= t0)%Z -> regular true acts -> Forall no_sweep_panic (run_states (init_db t0 aoft) acts) ->
  forall s, In (s, ASweepT) (run_states (init_db t0 aoft) acts) ->
  forall e, In e (snd (step s ASweepT)) -> is_tr e = true ->
  exists sq conn c lockid lc lrc d,
    In (sq, AReq conn c) (run_states (init_db t0 aoft) acts) /\ c_lock c = true
    /\ e = reply conn (c <| c_lockid := lockid |>) R_TIMEOUT lc lrc d
    /\ now s = (now sq + Z.of_N (c_timeout c) * tunit c + 1)%Z.
Proof. exact regular_timeout_exact. Qed.
Goal True. idtac "ASSUMPTIONS-OF C05_ab_regular_exact". Abort.
Print Assumptions C05_ab_regular_exact.

(* (c) Timeout = 0: the request is never queued -- the timeout wheel is untouched, no record becomes a live waiter, and
   if it is answered TIMEOUT that reply is the immediate one, addressed to the requester *)
Theorem C05_c_timeout0_not_queued : forall s conn c,
  TA s -> core_cmd c -> c_timeout c = 0 ->
  tframe core_cmd s (fst (fst (lock_step s conn c))) /\ twheel (fst (fst (lock_step s conn c))) = twheel s
  /\ (forall r l', tlive (fst (fst (lock_step s conn c))) r l' -> exists l, tlive s r l)
  /\ forall e, In e (snd (fst (lock_step s conn c))) -> is_tr e = true -> immediate_timeout conn c e.
Proof. exact lock_timeout0_not_queued. Qed.
Goal True. idtac "ASSUMPTIONS-OF C05_c_timeout0_not_queued". Abort.
Print Assumptions C05_c_timeout0_not_queued.
(* whenever Lock itself answers TIMEOUT (Timeout = 0 and not accepted; also the concurrent-check pre-checks and the
   timeout-when-data flag), the reply is the immediate one for this request and nothing of it is retained: the record
   allocated for it is freed again, every other record, every wait queue and all timer structures are unchanged *)
Theorem C05_c_immediate_timeout_retains_nothing : forall s conn c,
  TA s -> forall e, In e (snd (fst (lock_step s conn c))) -> is_tr e = true ->
  immediate_timeout conn c e /\ retained_nothing s (fst (fst (lock_step s conn c))).
Proof. exact lock_timeout_immediate. Qed.
Goal True. idtac "ASSUMPTIONS-OF C05_c_immediate_timeout_retains_nothing". Abort.
Print Assumptions C05_c_immediate_timeout_retains_nothing.
(* concrete instance: key 7 is held; a second Lock with Timeout = 0 is answered TIMEOUT at once, and managers
   (hence wait queues), records and timeout structures are exactly as before: the record was freed *)
Example C05_c_timeout0_nonvacuous :
  let s := fst (step (init_db 1000000 1) (AReq 1 (make_cmd true 1 0 101 7 0 5 0 10 0 0 None))) in
  let c := make_cmd true 2 0 102 7 0 0 0 10 0 0 None in
  TA s /\ core_cmd c /\ c_timeout c = 0
  /\ snd (fst (lock_step s 2 c)) = [EReply 2 2 R_TIMEOUT 1 0 102 0 0 None]
  /\ (let s' := fst (fst (lock_step s 2 c)) in
      mgrs s' = mgrs s /\ store s' = store s /\ twheel s' = twheel s /\ tlong s' = tlong s).
Proof.
  cbv zeta. split; [apply step_TA; [apply TA_init; lia|repeat split]|].
  split; [repeat split|]. split; [reflexivity|]. vm_compute. repeat split.
Qed.

(* (d) exclusion with grant / cancel.  doTimeOut on a tombstoned record (granted, cancelled, timed out) answers nothing *)
Theorem C05_d_tombstone_silent : forall s r l,
  aget (store s) r = Some l -> l_timeouted l = true ->
  snd (fst (do_timeout s r)) = [] /\ snd (do_timeout s r) = None.
Proof. exact do_timeout_tombstone. Qed.
Goal True. idtac "ASSUMPTIONS-OF C05_d_tombstone_silent". Abort.
Print Assumptions C05_d_tombstone_silent.

(* doTimeOut tombstones (or frees) the record before it replies; a grant by a wake-up pass does the same *)
Theorem C05_d_timeout_tombstones : forall s r, tdead (fst (fst (do_timeout s r))) r.
Proof. exact (do_timeout_kills core_cmd). Qed.
Goal True. idtac "ASSUMPTIONS-OF C05_d_timeout_tombstones". Abort.
Print Assumptions C05_d_timeout_tombstones.

Theorem C05_d_grant_tombstones : forall s k r via,
  core_cmd (l_cmd (getl s r)) -> r < next s -> tdead (fst (wake_grant s k r via)) r.
Proof. exact (wake_grant_kills core_cmd core_dummy). Qed.
Goal True. idtac "ASSUMPTIONS-OF C05_d_grant_tombstones". Abort.
Print Assumptions C05_d_grant_tombstones.

(* the wake-up pass only ever picks a live waiter *)
Theorem C05_d_wake_skips_dead : forall s k s' r,
  get_wait_lock s k = (s', Some r) -> dead_waiter (getl s' r) = false.
Proof. exact get_wait_lock_live. Qed.
Goal True. idtac "ASSUMPTIONS-OF C05_d_wake_skips_dead". Abort.
Print Assumptions C05_d_wake_skips_dead.

(* and a tombstoned record never becomes a live waiter again, in any core run *)
Theorem C05_d_dead_forever : forall acts s r,
  TA s -> Forall core_action acts -> r < next s -> tdead s r ->
  forall s' a, In (s', a) (run_states s acts) -> tdead s' r /\ r < next s'.
Proof. exact dead_forever. Qed.
Goal True. idtac "ASSUMPTIONS-OF C05_d_dead_forever". Abort.
Print Assumptions C05_d_dead_forever.
