(* C07 - restart recovers exactly the persisted, still-live holds: TWO restarts on one data directory.
   Statements only; proofs in Restart/SimTwice.v (on top of Restart/Sim*.v).  Models: Engine/*.v (lock engine; the
   release of a hold is written to the log by Timers.push_unlock_aof = LockManager.PushUnLockAof, which decides on the
   UNLOCK command's FROM_AOF flag, NOT on the flag of the hold's command), Restart/Recover.v (`two_restarts`: run 1 on
   a fresh leader -> stop -> `recover_at` -> run 2 on the restarted leader, its records appended to the kept log ->
   stop -> `recover_at`).

   SUB-LANGUAGE: run 1 = any history of the sub-language of Properties/C07_sim.v (`sub_hist`); run 2 = UNLOCK
   requests with Flag 0 (`unlock_req`), by any connection, for any key / LockId: those that name a restored hold
   release it, the others are refused.  Time never runs backwards: now(stop 1) <= dbnow1 <= wall1, dbnow1 <= dbnow2 <=
   wall2, wall1 <= wall2 (DB clock <= wall clock at each restart, as in C07_sim_two_clocks).

   NOT proved (differential only, checks/C07.py two-restart histories): new LOCK requests, re-locks, clock advances
   and sweeps in run 2; more than two restarts.  What is missing for composing C07_sim with itself: the writer
   invariant `WS`/`WL`/`wb` of Restart/SimWInv.v, SimLedger.v is stated for runs that start from `init_db`; the state
   after a restart differs in three respects: (1) the held commands carry Flag = FROM_AOF and l_eT = dbnow + remaining
   + 1 instead of start + Expried + 1 (`wrec` demands Flag 0 and the latter), (2) the log still contains the LOCK
   records of holds that expired during the outage and never get a closing record, so a later LOCK record of the same
   key is not "well bracketed" (`wb` demands a free ledger entry; only the FILTERED ledger is free), (3) the deadlines
   on disk are one second behind the re-armed ones.  `C07_twice_restart_establishes` is the part of that invariant
   that IS established by `recover_at` and suffices for releases. *)
From Coq Require Import String.
From Slock Require Import Engine.Types Engine.Queues Engine.Timers Engine.Engine Engine.Engine2.
From Slock Require Import Restart.Recover Restart.RestartProofs Restart.SimBase Restart.SimExec Restart.SimInv
  Restart.SimReader Restart.SimLedger Restart.SimWInv Restart.SimWriter Restart.SimMain Restart.SimTwice.
Open Scope Z_scope.

(* ---- run 1 / restart / releases of restored holds / restart ----
   after the FIRST restart: the persisted holds of the first stop that are live at wall1, deadline + 1 (= C07_sim);
   after the SECOND restart: exactly the holds of the second stop (all of them restored by the first restart, hence
   marked persisted) whose deadline ON DISK (re-armed deadline - 1) lies after wall2, with the same key / LockId /
   depth / Count / Rcount / deadline / value: a hold released in run 2 does not come back, nothing is lost *)
Theorem C07_twice :
  forall (t0 : Z) (aoft : N) (acts1 : list action) (wall1 dbnow1 : Z) (acts2 : list action) (wall2 dbnow2 : Z),
    0 <= t0 -> sub_hist acts1 -> Forall unlock_req acts2 ->
    let '(s, s1, s2, recs2, s'') := two_restarts t0 aoft acts1 wall1 dbnow1 acts2 wall2 dbnow2 in
    now s <= dbnow1 -> dbnow1 <= wall1 -> dbnow1 <= dbnow2 -> dbnow2 <= wall2 -> wall1 <= wall2 ->
    holds_of s1 =
      map (fun h => (h_key h, h_lockid h, h_depth h, h_count h, h_rcount h, h_deadline h + 1, h_value h))
          (filter (fun h => h_isaof h && (wall1 <? h_deadline h)) (holds_full s)) /\
    holds_of s'' =
      map (fun h => (h_key h, h_lockid h, h_depth h, h_count h, h_rcount h, h_deadline h, h_value h))
          (filter (fun h => h_isaof h && (wall2 <? h_deadline h - 1)) (holds_full s2)).
Proof. exact twice_pipeline. Qed.
Goal True. idtac "ASSUMPTIONS-OF C07_twice". Abort.
Print Assumptions C07_twice.
Example C07_twice_nonvacuous :
  0 <= 1000 /\ sub_hist twice_run1 /\ Forall unlock_req twice_run2 /\
  let '(s, s1, s2, recs2, s'') := two_restarts 1000 1 twice_run1 1002 1002 twice_run2 1004 1003 in
  now s <= 1002 /\
  holds_of s1 = [(7%N, 101%N, 1%N, 0%N, 0%N, 1122, None); (8%N, 102%N, 1%N, 0%N, 0%N, 1122, None); (9%N, 103%N, 1%N, 0%N, 0%N, 1005, None)] /\
  map h_isaof (holds_full s1) = [true; true; true] /\
  holds_of s2 = [(8%N, 102%N, 1%N, 0%N, 0%N, 1122, None); (9%N, 103%N, 1%N, 0%N, 0%N, 1005, None)] /\
  map (fun r => (a_lock r, a_key r, a_lockid r, a_ctime r, a_etime r)) recs2 =
    [(true, 7%N, 101%N, 1000, 121%N); (true, 8%N, 102%N, 1000, 121%N); (true, 9%N, 103%N, 1000, 4%N);
     (false, 7%N, 101%N, 1002, 120%N)] /\
  holds_of s'' = [(8%N, 102%N, 1%N, 0%N, 0%N, 1122, None)].
Proof.
  split; [discriminate|]. split; [exact (proj1 twice_example_sub)|]. split; [exact (proj2 twice_example_sub)|].
  vm_compute. repeat split; discriminate.
Qed.

(* ---- the concrete shape of the seeded change C07-r2-3: lock / restart / unlock / restart ----
   for every key, LockId, term (seconds unit, any persistence bits), connections, request ids and times: whatever the
   first restart restored (the hold, iff it was persisted and is live at wall1), after the owner's UNLOCK in run 2 the
   key is free at the second stop and stays free after the second restart *)
Theorem C07_twice_lock_restart_unlock_restart :
  forall (t0 : Z) (aoft conn : N) (c : cmd) (conn' : N) (u : cmd) (wall1 dbnow1 wall2 dbnow2 : Z),
    0 <= t0 -> sub_lock c -> sub_unlock u -> c_key u = c_key c -> c_lockid u = c_lockid c ->
    let '(s, s1, s2, recs2, s'') := two_restarts t0 aoft [AReq conn c] wall1 dbnow1 [AReq conn' u] wall2 dbnow2 in
    now s <= dbnow1 -> dbnow1 <= wall1 -> dbnow1 <= dbnow2 -> dbnow2 <= wall2 -> wall1 <= wall2 ->
    holds_of s1 =
      map (fun h => (h_key h, h_lockid h, h_depth h, h_count h, h_rcount h, h_deadline h + 1, h_value h))
          (filter (fun h => h_isaof h && (wall1 <? h_deadline h)) (holds_full s)) /\
    holds_of s2 = [] /\ holds_of s'' = [].
Proof. exact twice_lock_unlock. Qed.
Goal True. idtac "ASSUMPTIONS-OF C07_twice_lock_restart_unlock_restart". Abort.
Print Assumptions C07_twice_lock_restart_unlock_restart.
Example C07_twice_lock_restart_unlock_restart_nonvacuous :
  let c := make_cmd true 1 0 101 7 0 0 256 120 0 0 None in
  let u := make_cmd false 2 0 101 7 0 0 0 0 0 0 None in
  0 <= 1000 /\ sub_lock c /\ sub_unlock u /\
  let '(s, s1, s2, recs2, s'') := two_restarts 1000 1 [AReq 1 c] 1005 1005 [AReq 2 u] 1010 1010 in
  now s <= 1005 /\
  holds_of s1 = [(7%N, 101%N, 1%N, 0%N, 0%N, 1122, None)] /\      (* the hold IS restored by the first restart ... *)
  c_flag (l_cmd (getl s1 1%N)) = 4%N /\                            (* ... with the replayed command: Flag = FROM_AOF *)
  map (fun r => (a_lock r, a_key r, a_lockid r, a_ctime r)) recs2 = [(true, 7%N, 101%N, 1000); (false, 7%N, 101%N, 1005)] /\
  holds_of s2 = [] /\ holds_of s'' = [].
Proof.
  cbv zeta. split; [discriminate|]. split; [repeat split; vm_compute; try reflexivity; discriminate|].
  split; [split; reflexivity|]. vm_compute. repeat split; discriminate.
Qed.

(* ---- what `recover_at` establishes for the run that follows (invariant P2 of Restart/SimTwice.v): a well-shaped
   leader at the DB clock of the restart whose holds are exactly the entries of the filtered ledger of the log, each
   one marked persisted and carrying the replayed command (Flag = FROM_AOF), deadline re-armed; the entries are
   seconds-unit LOCK records written before the restart and live at its wall clock ---- *)
Theorem C07_twice_restart_establishes :
  forall (t0 : Z) (aoft : N) (acts1 : list action) (wall1 dbnow1 : Z),
    0 <= t0 -> sub_hist acts1 ->
    let '(s, recs, s1) := run_and_recover t0 aoft acts1 wall1 dbnow1 in
    now s <= dbnow1 -> dbnow1 <= wall1 -> P2 dbnow1 wall1 s1 (ledger_at wall1 recs).
Proof. exact restart_establishes. Qed.
Goal True. idtac "ASSUMPTIONS-OF C07_twice_restart_establishes". Abort.
Print Assumptions C07_twice_restart_establishes.
Example C07_twice_restart_establishes_nonvacuous :
  let '(s, recs, s1) := run_and_recover 1000 1 twice_run1 1002 1002 in
  now s <= 1002 /\ map fst (ledger_at 1002 recs) = [9%N; 8%N; 7%N] /\
  map (fun k => c_flag (l_cmd (getl s1 k))) [1%N; 2%N; 3%N] = [4%N; 4%N; 4%N].
Proof. vm_compute. repeat split; discriminate. Qed.
