(* Value-operation layer shared by C15 and C13 (see coq/Data/STATUS.md). *)
From Coq Require Import List NArith ZArith String Bool Lia.
From Slock Require Import Data.Data Data.DataProofs Data.Spec Data.Refine.
Import ListNotations.
Open Scope N_scope.

(* C13 part: with the guards of proposed_fixes/data_*.diff in the source, no value frame -- any bytes, any request
   parameters, any stored value with its 6-byte header -- crashes ProcessLockData or exhausts the model's fuel. *)
Theorem C15_data_no_panic_repaired : forall env frame cur ld,
  cur_ok cur -> good (process_lock_data_ex all_fixes env frame cur ld).
Proof. exact process_lock_data_no_panic. Qed.
Goal True. idtac "ASSUMPTIONS-OF C15_data_no_panic_repaired". Abort.
Print Assumptions C15_data_no_panic_repaired.
Example C15_data_no_panic_repaired_nonvacuous : cur_ok (Some (w_value 0 [97])) /\ cur_ok None.
Proof. split; [vm_compute; discriminate|exact I]. Qed.

(* ... for every sequence of frames *)
Theorem C15_data_no_panic_sequences : forall steps cur ld,
  cur_ok cur ->
  match run_frames all_fixes steps cur ld with
  | Ok (cur', _) => cur_ok cur'
  | Unsupported => True
  | Panic _ | OutOfFuel => False
  end.
Proof. exact run_frames_no_panic. Qed.
Goal True. idtac "ASSUMPTIONS-OF C15_data_no_panic_sequences". Abort.
Print Assumptions C15_data_no_panic_sequences.

(* the same statement is false for the unrepaired source *)
Theorem C15_data_no_panic_refuted :
  exists env frame cur ld, cur_ok cur /\ is_panic (process_lock_data_fx no_fixes env frame cur ld) = true.
Proof. exact Data_no_panic_refuted. Qed.
Goal True. idtac "ASSUMPTIONS-OF C15_data_no_panic_refuted". Abort.
Print Assumptions C15_data_no_panic_refuted.

(* fuel never runs out, whatever the variant of the source *)
Theorem C15_data_fuel_ok : forall fx env frame cur ld, process_lock_data_fx fx env frame cur ld <> OutOfFuel.
Proof. exact process_lock_data_fuel_ok. Qed.
Goal True. idtac "ASSUMPTIONS-OF C15_data_fuel_ok". Abort.
Print Assumptions C15_data_fuel_ok.

(* C15 part: SET, UNSET, INCR, APPEND, SHIFT, PUSH frames built by the client constructors leave exactly the value
   the sequential interpreter Spec.apply computes, for every sequence, stored value and request parameters. *)
Theorem C15_data_refines_spec : forall env ops cur ld,
  Forall (fun o => simple_op o /\ wf_op o) ops -> wf_cur cur ->
  exists cur', run_ops env ops cur ld = Ok cur'
               /\ abs all_fixes cur' = fold_left Spec.apply ops (abs all_fixes cur) /\ wf_cur cur'.
Proof. exact run_ops_refines_spec. Qed.
Goal True. idtac "ASSUMPTIONS-OF C15_data_refines_spec". Abort.
Print Assumptions C15_data_refines_spec.
Example C15_data_refines_spec_nonvacuous :
  Forall (fun o => simple_op o /\ wf_op o)
         [OSet 0 [] [97]; OIncr 1 [] (-3); OAppend 16 [1; 0; 7] [98]; OShift 2; OPush 0 [] [99]; OUnset 0]
  /\ wf_cur None.
Proof.
  split; [|exact I].
  repeat constructor; cbn; try reflexivity; try lia; try (exists 1, 0, [7]; split; reflexivity).
Qed.

(* a frame stopped by the stage / first-or-last gate leaves value and lock data untouched (any variant) *)
Theorem C15_data_gate_ignored : forall fx fuel env c cur ld,
  gate env c = false -> process_lcd fx (S fuel) env c cur ld = Ok (cur, ld, c_data c).
Proof. exact process_gate_ignored. Qed.
Goal True. idtac "ASSUMPTIONS-OF C15_data_gate_ignored". Abort.
Print Assumptions C15_data_gate_ignored.

(* PIPELINE is not the left fold of its items in the unrepaired source *)
Theorem C15_data_pipeline_fold_refuted : forall fx, fx_pipeline_fold fx = false ->
  (do r <- process_lock_data_fx fx (env_plain false) w_pipeline_ab None None; Ok (get_lock_data (fst r)))
    = Ok (Some [3; 0; 0; 0; 0; 0; 98])
  /\ (do r <- run_frames fx [(env_plain false, [3; 0; 0; 0; 0; 0; 97]); (env_plain false, [3; 0; 0; 0; 3; 0; 98])] None None;
      Ok (get_lock_data (fst r)))
    = Ok (Some [4; 0; 0; 0; 0; 0; 97; 98]).
Proof. exact Data_refuted_pipeline_fold. Qed.
Goal True. idtac "ASSUMPTIONS-OF C15_data_pipeline_fold_refuted". Abort.
Print Assumptions C15_data_pipeline_fold_refuted.
