(* C01, user-level form: the capacity bound, for every state reached by core actions from the initial state.
   It combines the local admission theorem (Properties/C01.v: every new-holder grant satisfies doLock on the pre-state
   counters) with the global invariant (Properties/C01_global.v: `locked` is the sum of the depths of the outstanding
   holds, every hold is in its key's holder list exactly once) by an induction over the critical sections of a run
   (Engine/RunScheme.v) that uses any-state summaries of what each critical section does to the lock records
   (Engine/RunDsc.v, RunDscSteps.v): a record starts to hold only in the grant branch of Lock (new record) and in the
   grant of a wake-up iteration, and only when doLock accepted it against the `locked` counter of a state in which the
   invariant holds.
     - all users of key k pass Count c < 0xffff: never more than c + 1 simultaneous HOLDERS (lock records with depth > 0);
     - Count 0: never two holders; `locked` is the re-entrant depth of the single holder;
     - if moreover every user passes Rcount <= p: `locked` (outstanding holds, depth included) <= (c + 1) * (p + 1),
       hence <= c + 1 when nobody re-enters (Rcount 0);
     - `locked` <= c + 1 is FALSE when holders re-enter (witness: Count 0, Rcount 2, one LockId locking three times:
       one holder, locked = 3): the "c + 1 simultaneous holds" of the property counts holders, not levels;
     - general form at every new-holder grant of any run, from any state. *)
From Coq Require Import List NArith ZArith String Bool Lia.
From Slock Require Import Engine.Types Engine.Queues Engine.Timers Engine.Engine Engine.Engine2 Engine.InvDef Engine.InvMain
  Engine.InvProps Engine.RunC01.
Import ListNotations.
Open Scope N_scope.

(* three holders with Count 2 on key 7; the fourth request is not accepted (it queues) *)
Definition c01b_demo : list action :=
  [AReq 1 (make_cmd true 1 0 101 7 0 5 0 10 2 0 None); AReq 2 (make_cmd true 2 0 102 7 0 5 0 10 2 0 None);
   AReq 3 (make_cmd true 3 0 103 7 0 5 0 10 2 0 None); AReq 4 (make_cmd true 4 0 104 7 0 5 0 10 2 0 None)].
(* Count 1, Rcount 1: two holders, each re-entered once; the fifth request is refused *)
Definition c01b_deep : list action :=
  [AReq 1 (make_cmd true 1 0 101 7 0 5 0 10 1 1 None); AReq 2 (make_cmd true 2 0 102 7 0 5 0 10 1 1 None);
   AReq 1 (make_cmd true 3 0 101 7 0 5 0 10 1 1 None); AReq 2 (make_cmd true 4 0 102 7 0 5 0 10 1 1 None);
   AReq 2 (make_cmd true 5 0 102 7 0 5 0 10 1 1 None)].
(* Count 0: LockId 101 holds key 7 at depth 2, LockId 102 waits *)
Definition c01b_mutex : list action :=
  [AReq 1 (make_cmd true 1 0 101 7 0 5 0 10 0 3 None); AReq 2 (make_cmd true 2 0 102 7 0 5 0 10 0 0 None);
   AReq 1 (make_cmd true 3 0 101 7 0 5 0 10 0 3 None)].

(* every Lock request of the history on key k carries Count c < 0xffff  ==>  at most c + 1 holders of k *)
Theorem C01_holders_bound : forall k c t0 a acts,
  c < 65535 -> core acts ->
  Forall (fun x => match x with AReq _ cm => c_lock cm = true -> c_key cm = k -> c_count cm = c | _ => True end) acts ->
  N.of_nat (length (filter (fun r => 0 <? l_locked (getl (fst (run (init_db t0 a) acts)) r))
                           (holders (getm (fst (run (init_db t0 a) acts)) k)))) <= c + 1.
Proof. exact holders_bound. Qed.
Goal True. idtac "ASSUMPTIONS-OF C01_holders_bound". Abort.
Print Assumptions C01_holders_bound.
Example C01_holders_bound_nonvacuous :
  core c01b_demo /\ count_is 7 2 c01b_demo
  /\ live_holders (fst (run (init_db 1000000 1) c01b_demo)) 7 = [1; 2; 3].
Proof.
  split; [split; [repeat constructor|vm_compute; reflexivity]|].
  split; [repeat constructor; intros; reflexivity|vm_compute; reflexivity].
Qed.

(* Count 0 = mutual exclusion: the key is idle, or exactly one lock record holds it and `locked` is its depth *)
Theorem C01_count0_mutual_exclusion : forall k t0 a acts,
  core acts ->
  Forall (fun x => match x with AReq _ cm => c_lock cm = true -> c_key cm = k -> c_count cm = 0 | _ => True end) acts ->
  let s := fst (run (init_db t0 a) acts) in
  (live_holders s k = [] /\ m_locked (getm s k) = 0)
  \/ exists r, live_holders s k = [r] /\ m_locked (getm s k) = l_locked (getl s r) /\ 0 < l_locked (getl s r).
Proof. exact count0_mutex. Qed.
Goal True. idtac "ASSUMPTIONS-OF C01_count0_mutual_exclusion". Abort.
Print Assumptions C01_count0_mutual_exclusion.
Example C01_count0_mutual_exclusion_nonvacuous :
  core c01b_mutex /\ count_is 7 0 c01b_mutex
  /\ live_holders (fst (run (init_db 1000000 1) c01b_mutex)) 7 = [1]
  /\ m_locked (getm (fst (run (init_db 1000000 1) c01b_mutex)) 7) = 2.
Proof.
  split; [split; [repeat constructor|vm_compute; reflexivity]|].
  split; [repeat constructor; intros; reflexivity|split; vm_compute; reflexivity].
Qed.

(* Count c and Rcount <= p for all users of key k: outstanding holds, depth included *)
Theorem C01_locked_bound : forall k c p t0 a acts,
  c < 65535 -> core acts ->
  Forall (fun x => match x with AReq _ cm => c_lock cm = true -> c_key cm = k -> c_count cm = c | _ => True end) acts ->
  Forall (fun x => match x with AReq _ cm => c_lock cm = true -> c_key cm = k -> c_rcount cm <= p | _ => True end) acts ->
  m_locked (getm (fst (run (init_db t0 a) acts)) k) <= (c + 1) * (p + 1).
Proof. exact locked_bound. Qed.
Goal True. idtac "ASSUMPTIONS-OF C01_locked_bound". Abort.
Print Assumptions C01_locked_bound.
(* the bound is attained: Count 1, Rcount 1, locked = 4 *)
Example C01_locked_bound_nonvacuous :
  core c01b_deep /\ count_is 7 1 c01b_deep /\ rcount_le 7 1 c01b_deep
  /\ m_locked (getm (fst (run (init_db 1000000 1) c01b_deep)) 7) = 4.
Proof.
  split; [split; [repeat constructor|vm_compute; reflexivity]|].
  split; [repeat constructor; intros; reflexivity|].
  split; [repeat constructor; intros; vm_compute; discriminate|vm_compute; reflexivity].
Qed.

(* nobody re-enters: at most c + 1 outstanding holds *)
Theorem C01_locked_bound_no_reentry : forall k c t0 a acts,
  c < 65535 -> core acts ->
  Forall (fun x => match x with AReq _ cm => c_lock cm = true -> c_key cm = k -> c_count cm = c | _ => True end) acts ->
  Forall (fun x => match x with AReq _ cm => c_lock cm = true -> c_key cm = k -> c_rcount cm <= 0 | _ => True end) acts ->
  m_locked (getm (fst (run (init_db t0 a) acts)) k) <= c + 1.
Proof. exact locked_bound_norcount. Qed.
Goal True. idtac "ASSUMPTIONS-OF C01_locked_bound_no_reentry". Abort.
Print Assumptions C01_locked_bound_no_reentry.
Example C01_locked_bound_no_reentry_nonvacuous :
  core c01b_demo /\ count_is 7 2 c01b_demo /\ rcount_le 7 0 c01b_demo
  /\ m_locked (getm (fst (run (init_db 1000000 1) c01b_demo)) 7) = 3.
Proof.
  split; [split; [repeat constructor|vm_compute; reflexivity]|].
  split; [repeat constructor; intros; reflexivity|].
  split; [repeat constructor; intros; vm_compute; discriminate|vm_compute; reflexivity].
Qed.

(* with re-entrant levels `locked` exceeds c + 1 *)
Theorem C01_locked_bound_refuted_with_reentry :
  core reentrant_history /\ count_is 7 0 reentrant_history
  /\ m_locked (getm (fst (run (init_db 1000000 1) reentrant_history)) 7) = 3
  /\ live_holders (fst (run (init_db 1000000 1) reentrant_history)) 7 = [1].
Proof. exact depth_bound_refuted. Qed.
Goal True. idtac "ASSUMPTIONS-OF C01_locked_bound_refuted_with_reentry". Abort.
Print Assumptions C01_locked_bound_refuted_with_reentry.

(* general form, every new-holder grant of every run from every state: the holds outstanding before the grant (depth
   included) are at most the request's Count and the Count of the oldest holder, or the key was idle; the only other
   case needs both Counts to be 0xffff *)
Theorem C01_grant_general : forall s acts,
  Forall (Forall (fun e => match e with
                           | EGrant _ _ true before cc rc =>
                               before = 0 \/ (before <= N.min cc rc /\ before < 65535)
                               \/ (65535 <= before < 2147483647 /\ cc = 65535 /\ rc = 65535)
                           | _ => True end)) (snd (run s acts)).
Proof. exact grant_general. Qed.
Goal True. idtac "ASSUMPTIONS-OF C01_grant_general". Abort.
Print Assumptions C01_grant_general.
Example C01_grant_general_nonvacuous :
  In (EGrant 7 3 true 2 2 2) (concat (snd (run (init_db 1000000 1) c01b_demo))).
Proof. vm_compute. auto 10. Qed.
