(* C11, soundness of the acknowledgement layer's run monitor: `reg_sound` (a registered record is allocated and still
   carries the RequestId it was registered under -- a HYPOTHESIS of C11_late_ack_never_answers_another_request) and
   `arun_ok` (registrations are fresh) are derived for the run class `ack_core` (Engine/AckSoundDefs.v) from ONE closed
   proposition about the lock engine, `EngineAccounting`: there is an engine invariant E that accounts for the
   reference taken for the acknowledgement path ("+1 per pending record") and is closed under the engine entry points
   the layer calls (eng_contract: 12 clauses).  Everything about the layer itself -- ProcessLeaderPushLock /
   PushUnLock in record-queue order, ProcessLeaderAofed / Acked, RequestId uniqueness, index discipline -- is proved
   (Engine/AckSoundLayer.v, C11_sound_layer below: complete, quantified over E).
   The theorems named `_partial` keep `EngineAccounting` as their hypothesis: it is NOT proved here (the heap invariant
   of Engine/Inv*.v excludes require-ack locks by its clauses ro_ack / ro_cmd / ro_live and would have to be
   re-established with a fourth kind of reference).
   ack_core: requests are core (no value frame, no millisecond flags) and never select the never-persist mode; a request
   with the require-ack flag is a plain LOCK (flag 0), Rcount 0, Expried > 0; no role change, no direct DoAckLock;
   configured aofTime <> 0xff, 1 <= ackCount < 255; pairwise distinct RequestIds; acknowledgement events name issued
   indices; no timeout sweep rolls back a hold whose LOCK record it wrote itself (late registration). *)
From Coq Require Import String List NArith ZArith.
From Slock Require Import Engine.Types Engine.Queues Engine.Timers Engine.Engine Engine.Engine2 Engine.Ack.
From Slock Require Import Engine.AckProofsBase Engine.AckProofsAck Engine.AckProofsWait Engine.AckProofsTimeout
  Engine.AckProofsGrant Engine.AckProofsRel Engine.AckProofsGlobal Engine.AckProofsUnreg Engine.AckProofsRefute
  Engine.AckSoundDefs Engine.AckSoundLayer Engine.AckSoundThms.
Import ListNotations.
Open Scope N_scope.

(* the histories of the non-vacuity examples (key 7, connection = first argument of AReq) *)
Definition sx_ack (req lockid : N) : cmd := make_cmd true req 0 lockid 7 4096 5 0 10 0 0 None.   (* require-ack LOCK *)
Definition sx_lock (req lockid : N) : cmd := make_cmd true req 0 lockid 7 0 5 0 10 0 0 None.     (* plain LOCK *)
Definition sx_unlock (req lockid : N) : cmd := make_cmd false req 0 lockid 7 0 0 0 0 0 0 None.   (* UNLOCK *)
(* ackCount 2: ack-lock, aofed, acked -> SUCCED *)
Definition sx_run1 : list aaction := [AAct (AReq 1 (sx_ack 1 101)); AAckEvt 0 true; AAckEvt 0 true].
(* ackCount 1: plain holder 101; ack-lock 102 queues; the unlock grants it (registration 0); its acknowledgement never
   comes: the timeout sweep rolls it back (TIMEOUT), the UNLOCK record drops the registration; the late event does nothing *)
Definition sx_run2 : list aaction :=
  [AAct (AReq 1 (sx_lock 1 101)); AAct (AReq 2 (sx_ack 2 102)); AAct (AReq 1 (sx_unlock 3 101));
   AAct (AAdvance 6); AAct ASweepT; AAckEvt 0 true].
(* ackCount 1: ack-lock 101 pending; a LOCK and an UNLOCK naming it get LOCK_ACK_WAITING; a negative event: ERROR *)
Definition sx_run3 : list aaction :=
  [AAct (AReq 1 (sx_ack 1 101)); AAct (AReq 2 (sx_ack 2 101)); AAct (AReq 2 (sx_unlock 3 101)); AAckEvt 0 false; AAckEvt 0 true].

(* ---------------------------------------------------------------- the run class is decidable on concrete runs *)
Theorem C11_sound_ack_core_checker : forall t0 aoft cfg acts,
  ack_core_b t0 aoft cfg acts = true -> ack_core t0 aoft cfg acts.
Proof. exact ack_core_b_sound. Qed.
Goal True. idtac "ASSUMPTIONS-OF C11_sound_ack_core_checker". Abort.
Print Assumptions C11_sound_ack_core_checker.
Example C11_sound_ack_core_checker_nonvacuous :
  ack_core_b 1000000 1 2 sx_run1 = true /\ ack_core_b 1000000 1 1 sx_run2 = true /\ ack_core_b 1000000 1 1 sx_run3 = true.
Proof. vm_compute. repeat split. Qed.

(* each recorded root cause is outside the class, and for its own reason: (request shapes, RequestIds, run conditions) *)
Example C11_sound_ack_core_excludes_the_findings :
  let parts t0 aoft cfg acts := (forallb aact_ok acts, nodupb (reqids acts), run_conds_b (init_astate t0 aoft cfg) acts) in
  parts 1000000%Z 0 1 run_reentrant = (false, true, true)                 (* re-entrant re-lock with the flag: Rcount > 0 *)
  /\ parts 1000000%Z 1 1 run_never_persist = (false, true, true)          (* eflag 0x0200 *)
  /\ parts 1000000%Z 0 1 run_late_registration = (true, true, false)      (* the sweep rolls back what it granted *)
  /\ parts 1000000%Z 1 1 run_duplicate_request_id = (true, false, true).  (* RequestId 1 twice *)
Proof. vm_compute. repeat split. Qed.

(* ---------------------------------------------------------------- the layer (complete; quantified over E) *)
(* For EVERY engine invariant E that satisfies the contract, every ack_core run passes the monitor arun_ok2 = arun_ok
   (fresh registrations, issued indices, DoAckLock driven by the layer only) + reg_sound before every action, and ends
   in the layer invariant AInv E (AckSoundDefs.v: E holds of the engine state with P = the registered records; every
   registration carries the RequestId of its record's command and a counter in 1 .. 254; issued, distinct indices). *)
Theorem C11_sound_layer : forall E, eng_contract E -> forall t0 aoft cfg acts,
  ack_core t0 aoft cfg acts ->
  arun_ok2 (init_astate t0 aoft cfg) acts = true
  /\ exists Q, AInv E cfg Q (fst (arun (init_astate t0 aoft cfg) acts)).
Proof. exact ack_core_run_ok. Qed.
Goal True. idtac "ASSUMPTIONS-OF C11_sound_layer". Abort.
Print Assumptions C11_sound_layer.
Example C11_sound_layer_nonvacuous :
  ack_core 1000000 1 1 sx_run2 /\ arun_ok2 (init_astate 1000000 1 1) sx_run2 = true.
Proof. split; [apply ack_core_b_sound|]; vm_compute; reflexivity. Qed.

(* every run, NO hypothesis: the table never holds a RequestId twice (ProcessLeaderPushLock refuses it) *)
Theorem C11_sound_registrations_distinct_requests : forall t0 aoft cfg acts,
  NoDup (regq (fst (arun (init_astate t0 aoft cfg) acts))).
Proof. intros. apply (registrations_distinct_requests acts (init_astate t0 aoft cfg)). constructor. Qed.
Goal True. idtac "ASSUMPTIONS-OF C11_sound_registrations_distinct_requests". Abort.
Print Assumptions C11_sound_registrations_distinct_requests.
Example C11_sound_registrations_distinct_requests_nonvacuous :
  regq (fst (arun (init_astate 1000000 1 1) (firstn 3 sx_run2))) = [2].
Proof. vm_compute. reflexivity. Qed.

(* ---------------------------------------------------------------- reg_sound, discharged up to EngineAccounting *)
Theorem C11_sound_reg_sound_partial : EngineAccounting -> forall t0 aoft cfg pre post,
  ack_core t0 aoft cfg (pre ++ post) -> reg_sound (fst (arun (init_astate t0 aoft cfg) pre)) = true.
Proof. exact sound_reg_sound_partial. Qed.
Goal True. idtac "ASSUMPTIONS-OF C11_sound_reg_sound_partial". Abort.
Print Assumptions C11_sound_reg_sound_partial.
Example C11_sound_reg_sound_partial_nonvacuous :
  ack_core 1000000 1 1 (firstn 3 sx_run2 ++ skipn 3 sx_run2)
  /\ a_reg (fst (arun (init_astate 1000000 1 1) (firstn 3 sx_run2))) = [(0, (2, 2))]
  /\ reg_sound (fst (arun (init_astate 1000000 1 1) (firstn 3 sx_run2))) = true.
Proof. split; [apply ack_core_b_sound; vm_compute; reflexivity|]. vm_compute. split; reflexivity. Qed.

Theorem C11_sound_monitor_partial : EngineAccounting -> forall t0 aoft cfg acts,
  ack_core t0 aoft cfg acts -> arun_ok2 (init_astate t0 aoft cfg) acts = true.
Proof. exact sound_monitor_partial. Qed.
Goal True. idtac "ASSUMPTIONS-OF C11_sound_monitor_partial". Abort.
Print Assumptions C11_sound_monitor_partial.
Example C11_sound_monitor_partial_nonvacuous : ack_core 1000000 1 2 sx_run1.
Proof. apply ack_core_b_sound. vm_compute. reflexivity. Qed.

(* the invariant at the end of every ack_core run, spelled out *)
Theorem C11_sound_invariant_partial : EngineAccounting -> forall t0 aoft cfg acts,
  ack_core t0 aoft cfg acts ->
  let st := fst (arun (init_astate t0 aoft cfg) acts) in
  (forall i q r, In (i, (q, r)) (a_reg st) ->
     exists l, aget (store (a_db st)) r = Some l /\ c_req (l_cmd l) = q /\ l_ack l <> 255 /\ 0 < l_ack l
               /\ l_locked l <> 0 /\ l_expried l = true /\ l_timeouted l = false)
  /\ (forall r, l_ack (getl (a_db st) r) <> 255 -> exists i q, In (i, (q, r)) (a_reg st))
  /\ NoDup (regs st)
  /\ idx_ok st /\ NoDup (map fst (a_reg st)) /\ NoDup (regq st)
  /\ leader (a_db st) = true.
Proof. exact sound_invariant_partial. Qed.
Goal True. idtac "ASSUMPTIONS-OF C11_sound_invariant_partial". Abort.
Print Assumptions C11_sound_invariant_partial.
(* after the unlock of sx_run2: record 2 (request 2) is registered under index 0, pending with counter 1, a hold *)
Example C11_sound_invariant_partial_nonvacuous :
  let st := fst (arun (init_astate 1000000 1 1) (firstn 3 sx_run2)) in
  ack_core 1000000 1 1 (firstn 3 sx_run2) /\ a_reg st = [(0, (2, 2))]
  /\ option_map (fun l => (c_req (l_cmd l), l_ack l, l_locked l, l_refc l, l_expried l, l_timeouted l)) (aget (store (a_db st)) 2)
     = Some (2, 1, 1, 3, true, false).
Proof. split; [apply ack_core_b_sound; vm_compute; reflexivity|]. vm_compute. split; reflexivity. Qed.

(* ---------------------------------------------------------------- SUCCED needs the quorum, answers the registered request *)
(* In every ack_core run: if a positive acknowledgement event for index i emits a SUCCED reply, then i is a registration
   (of request q, record r), the reply goes to q's connection and RequestId, it was exactly the ackCount-th positive
   event for i and no negative event for i ever occurred, and what ran is DoAckLock(true) on r.  (Composition of
   C11_completion_needs_quorum and C11_late_ack_never_answers_another_request with their monitors discharged.) *)
Theorem C11_sound_succed_needs_quorum_partial : EngineAccounting -> forall t0 aoft cfg pre i,
  ack_core t0 aoft cfg (pre ++ [AAckEvt i true]) ->
  let st := fst (arun (init_astate t0 aoft cfg) pre) in
  forall e, In e (snd (ack_event st i true)) -> is_succed e = true ->
  exists q r l, reg_find (a_reg st) i = Some (q, r) /\ aget (store (a_db st)) r = Some l /\ c_req (l_cmd l) = q
    /\ reply_for (l_conn l) q e
    /\ (count_evt pre i true + 1 = N.to_nat cfg)%nat /\ count_evt pre i false = 0%nat
    /\ ack_event st i true = with_post (drop_reg (set_ack st r 0) i) (finish (do_ack (a_db (set_ack st r 0)) r true)).
Proof. exact sound_succed_needs_quorum_partial. Qed.
Goal True. idtac "ASSUMPTIONS-OF C11_sound_succed_needs_quorum_partial". Abort.
Print Assumptions C11_sound_succed_needs_quorum_partial.
Example C11_sound_succed_needs_quorum_partial_nonvacuous :
  ack_core 1000000 1 2 (firstn 2 sx_run1 ++ [AAckEvt 0 true])
  /\ answers (snd (arun (init_astate 1000000 1 2) sx_run1)) = [[]; []; [EReply 1 1 R_SUCCED 1 1 101 0 0 None]].
Proof. split; [apply ack_core_b_sound; vm_compute; reflexivity|vm_compute; reflexivity]. Qed.

(* ---------------------------------------------------------------- pending means LOCK_ACK_WAITING *)
Theorem C11_sound_pending_means_ack_waiting_partial : EngineAccounting -> forall t0 aoft cfg acts,
  ack_core t0 aoft cfg acts ->
  let st := fst (arun (init_astate t0 aoft cfg) acts) in
  let s := a_db st in
  forall i q r, In (i, (q, r)) (a_reg st) ->
  l_ack (getl s r) <> 255
  /\ (forall conn c m,
        lock_precheck s conn c = None -> aget (mgrs s) (c_key c) = Some m -> m_locked m <> 0 ->
        (has (c_flag c) LOCK_FLAG_SHOW = false \/ has (c_flag c) LOCK_FLAG_UPDATE = true) ->
        get_locked_lock s m (c_lockid (lock_target s m c)) = Some r ->
        lock_step s conn c =
          (s, [reply conn (lock_target s m c) R_ACK_WAITING (m_locked m) (l_locked (getl s r)) (data_of s (c_key c))], None))
  /\ (forall conn c m,
        aget (mgrs s) (c_key c) = Some m -> m_locked m <> 0 -> get_locked_lock s m (c_lockid c) = Some r ->
        unlock_step s conn c =
          (count_unlock_error s, [reply conn c R_ACK_WAITING (m_locked m) (l_locked (getl s r)) (data_of s (c_key c))], None))
  /\ (forall conn c m,
        aget (mgrs s) (c_key c) = Some m -> m_locked m <> 0 -> get_locked_lock s m (c_lockid c) = None ->
        has (c_flag c) UNLOCK_FLAG_FIRST = true -> m_cur m = Some r ->
        unlock_step s conn c =
          (count_unlock_error s, [reply conn c R_ACK_WAITING (m_locked m) (l_locked (getl s r)) (data_of s (c_key c))], None)).
Proof. exact sound_pending_means_ack_waiting_partial. Qed.
Goal True. idtac "ASSUMPTIONS-OF C11_sound_pending_means_ack_waiting_partial". Abort.
Print Assumptions C11_sound_pending_means_ack_waiting_partial.
Example C11_sound_pending_means_ack_waiting_partial_nonvacuous :
  ack_core 1000000 1 1 sx_run3
  /\ answers (snd (arun (init_astate 1000000 1 1) (firstn 3 sx_run3)))
     = [[]; [EReply 2 2 R_ACK_WAITING 1 1 101 0 0 None]; [EReply 2 3 R_ACK_WAITING 1 1 101 0 0 None]]
  /\ (let s := a_db (fst (arun (init_astate 1000000 1 1) (firstn 1 sx_run3))) in
      exists m, aget (mgrs s) 7 = Some m /\ m_locked m <> 0 /\ get_locked_lock s m 101 = Some 1
                /\ lock_precheck s 2 (sx_ack 2 101) = None).
Proof.
  split; [apply ack_core_b_sound; vm_compute; reflexivity|]. split; [vm_compute; reflexivity|].
  vm_compute. eexists. repeat split. discriminate.
Qed.

(* ---------------------------------------------------------------- failure rolls back *)
(* a negative acknowledgement event *)
Theorem C11_sound_negative_ack_rolls_back_partial : EngineAccounting -> forall t0 aoft cfg pre i q r,
  ack_core t0 aoft cfg (pre ++ [AAckEvt i false]) ->
  let st := fst (arun (init_astate t0 aoft cfg) pre) in
  reg_find (a_reg st) i = Some (q, r) ->
  exists l, aget (store (a_db st)) r = Some l /\ c_req (l_cmd l) = q
    /\ ack_event st i false = with_post (drop_reg st i) (finish (do_ack (a_db st) r false))
    /\ (forall s' ev w, do_ack (a_db st) r false = (s', ev, w) ->
          w = Some (mkWake (l_key l) None)
          /\ (exists lc lrc d, ends_with ev (ack_reply l R_ERROR lc lrc d))
          /\ (exists rest, ev = ERelease (l_key l) r (l_locked l) :: rest)
          /\ l_locked (getl s' r) = 0 /\ l_ack (getl s' r) = 255
          /\ Forall (reply_for (l_conn l) q) ev)
    /\ (forall acts ok, let st2 := fst (arun (fst (ack_event st i false)) acts) in ack_event st2 i ok = (st2, [])).
Proof. exact sound_negative_ack_rolls_back_partial. Qed.
Goal True. idtac "ASSUMPTIONS-OF C11_sound_negative_ack_rolls_back_partial". Abort.
Print Assumptions C11_sound_negative_ack_rolls_back_partial.
Example C11_sound_negative_ack_rolls_back_partial_nonvacuous :
  ack_core 1000000 1 1 (firstn 3 sx_run3 ++ [AAckEvt 0 false])
  /\ reg_find (a_reg (fst (arun (init_astate 1000000 1 1) (firstn 3 sx_run3)))) 0 = Some (1, 1)
  /\ answers (snd (arun (init_astate 1000000 1 1) sx_run3))
     = [[]; [EReply 2 2 R_ACK_WAITING 1 1 101 0 0 None]; [EReply 2 3 R_ACK_WAITING 1 1 101 0 0 None];
        [EReply 1 1 R_ERROR 0 0 101 0 0 None]; []].
Proof. split; [apply ack_core_b_sound; vm_compute; reflexivity|]. vm_compute. split; reflexivity. Qed.

(* the acknowledgement timeout: doTimeOut on a registered record answers the registered request once with TIMEOUT,
   removes the hold, leaves a wake-up pass pending; the RequestId lookup of the hold's UNLOCK record finds this very
   registration, which C11_unlock_record_drops_registration then drops for good *)
Theorem C11_sound_ack_timeout_rolls_back_partial : EngineAccounting -> forall t0 aoft cfg acts,
  ack_core t0 aoft cfg acts ->
  let st := fst (arun (init_astate t0 aoft cfg) acts) in
  forall i q r, In (i, (q, r)) (a_reg st) ->
  exists l, aget (store (a_db st)) r = Some l /\ c_req (l_cmd l) = q
    /\ reg_find_req (a_reg st) q = Some (i, r)
    /\ forall s' ev w, do_timeout (a_db st) r = (s', ev, w) ->
         w = Some (mkWake (l_key l) None)
         /\ (exists lc lrc d, ends_with ev (ack_reply l R_TIMEOUT lc lrc d))
         /\ (exists rest, ev = ERelease (l_key l) r (l_locked l) :: rest)
         /\ l_locked (getl s' r) = 0 /\ l_ack (getl s' r) = 255.
Proof. exact sound_ack_timeout_rolls_back_partial. Qed.
Goal True. idtac "ASSUMPTIONS-OF C11_sound_ack_timeout_rolls_back_partial". Abort.
Print Assumptions C11_sound_ack_timeout_rolls_back_partial.
(* sx_run2: granted by the unlock, timed out by the sweep, registration gone, the late event silent *)
Example C11_sound_ack_timeout_rolls_back_partial_nonvacuous :
  ack_core 1000000 1 1 sx_run2
  /\ a_reg (fst (arun (init_astate 1000000 1 1) (firstn 4 sx_run2))) = [(0, (2, 2))]
  /\ a_reg (fst (arun (init_astate 1000000 1 1) (firstn 5 sx_run2))) = []
  /\ answers (snd (arun (init_astate 1000000 1 1) sx_run2))
     = [[EReply 1 1 R_SUCCED 1 1 101 0 0 None]; []; [EReply 1 3 R_SUCCED 0 0 101 0 0 None]; [];
        [EReply 2 2 R_TIMEOUT 0 0 102 0 0 None]; []].
Proof. split; [apply ack_core_b_sound; vm_compute; reflexivity|]. vm_compute. repeat split. Qed.
