(* C18 — disconnect semantics: wills run once, nothing leaks or misroutes.
   Statements only; model coq/Conn/Conn.v (on top of coq/Engine/*.v), proofs coq/Conn/ConnProofs.v.
   cfg = the source-derived switches (will type rewrite in the text handlers, self-forward guard, closed guard of the
   text result push, AddProxy result honoured when a proxy is re-pointed); checks/C18.py recomputes them from
   server/protocol.go and names the variant in force.
   A command is an `xcmd` = DbId + LOCK/UNLOCK command; `db_missing` = the DbId for which ProcessCommad answers
   RESULT_UNKNOWN_DB (and returns an error when that answer cannot be written) instead of entering the engine. *)
From Coq Require Import List NArith ZArith Bool.
From Slock Require Import Engine.Types Engine.Engine2 Conn.Conn Conn.ConnProofs Conn.ConnRoute.
Import ListNotations.
Open Scope N_scope.

(* (a) Wills: exactly once, in registration order, at Close, never earlier.  A connection c that does not exist yet is
   opened -- binary under every variant, text under the variants that rewrite the will type -- and ANY actions follow
   (of any connections, sweeps, its own Close at any point, by whatever cause).  If the process survives and c's Close
   does not block, the will commands executed on behalf of c (will_steps: ProcessCommad reached db.Lock / db.UnLock, or
   -- for a will naming a missing database -- answered RESULT_UNKNOWN_DB, failed to write it and returned the error)
   are: none while c is open; exactly its registrations, each once, in order, once it is closed.  The registrations
   are arbitrary: a failing will is consumed like any other and does not stop the drain. *)
Theorem C18_wills_exactly_once : forall cf st1 c k acts,
  aget (cs_conns st1) c = None ->
  (k = KText -> fix_will_lock cf = true /\ fix_will_unlock cf = true) ->
  let st := fst (crun cf st1 (COpen c k :: acts)) in
  let ev := events (snd (crun cf st1 (COpen c k :: acts))) in
  cs_dead st = false -> ~ In c (cs_stuck st) ->
  will_steps c ev = if is_open (cs_conns st) c then [] else regs c ev.
Proof. exact wills_exactly_once. Qed.
Goal True. idtac "ASSUMPTIONS-OF C18_wills_exactly_once". Abort.
Print Assumptions C18_wills_exactly_once.
Example C18_wills_exactly_once_nonvacuous_binary :
  let r := crun cf_unrepaired (init_cstate 1000000 1) (COpen 1 KBin :: w_binary_ok) in
  cs_dead (fst r) = false /\ cs_stuck (fst r) = [] /\ is_open (cs_conns (fst r)) 1 = false /\
  will_steps 1 (events (snd r)) = [lockc 12 102 8 0 30; lockc 13 103 9 0 30; unlockc 14 101 7] /\
  frame_to 2 2 (events (snd r)) = true.
Proof. exact binary_wills_example. Qed.
Example C18_wills_exactly_once_nonvacuous_text :
  let r := crun cf_repaired (init_cstate 1000000 1) (COpen 1 KText :: [CWill 1 (lockc 1000001 101 7 0 30); CWill 1 (lockc 1000002 102 8 0 30); CClose 1]) in
  cs_dead (fst r) = false /\ cs_stuck (fst r) = [] /\ is_open (cs_conns (fst r)) 1 = false /\
  will_steps 1 (events (snd r)) = [lockc 1000001 101 7 0 30; lockc 1000002 102 8 0 30].
Proof. exact text_wills_example. Qed.
(* failing wills (missing database 9, DbId 0xff) between ordinary ones: all executed in order, the ordinary ones after
   a failing one still take effect in the engine *)
Example C18_wills_exactly_once_nonvacuous_failing :
  let r := crun cf_repaired (init_cstate 1000000 1) (COpen 1 KBin :: w_failing_wills) in
  cs_dead (fst r) = false /\ cs_stuck (fst r) = [] /\ is_open (cs_conns (fst r)) 1 = false /\
  will_steps 1 (events (snd r)) =
    [unlockd 9 12 101 7; unlockc 13 101 7; lockd 255 14 103 8 0 30; lockc 15 102 8 0 30; unlockd 255 16 102 8] /\
  regs 1 (events (snd r)) = will_steps 1 (events (snd r)) /\
  map db_missing (will_steps 1 (events (snd r))) = [true; false; true; false; true] /\
  n_locked (cnt (cs_db (fst r))) = 1%Z /\ n_unlock (cnt (cs_db (fst r))) = 1%Z.
Proof. exact failing_wills_example. Qed.

(* while the connection is open its will queue is exactly what it registered, in order *)
Theorem C18_will_queue_is_registrations : forall cf st1 c k acts,
  aget (cs_conns st1) c = None ->
  (k = KText -> fix_will_lock cf = true /\ fix_will_unlock cf = true) ->
  let st := fst (crun cf st1 (COpen c k :: acts)) in
  let ev := events (snd (crun cf st1 (COpen c k :: acts))) in
  cs_dead st = false -> ~ In c (cs_stuck st) -> is_open (cs_conns st) c = true ->
  wills_of st c = map (pair false) (regs c ev).
Proof. exact will_queue_is_registrations. Qed.
Goal True. idtac "ASSUMPTIONS-OF C18_will_queue_is_registrations". Abort.
Print Assumptions C18_will_queue_is_registrations.
Example C18_will_queue_nonvacuous :
  let r := crun cf_unrepaired (init_cstate 1000000 1) [COpen 1 KBin; CWill 1 (lockc 12 102 8 0 30); CWill 1 (unlockc 14 101 7)] in
  cs_dead (fst r) = false /\ is_open (cs_conns (fst r)) 1 = true /\
  wills_of (fst r) 1 = [(false, lockc 12 102 8 0 30); (false, unlockc 14 101 7)].
Proof. vm_compute. repeat split; reflexivity. Qed.

(* in ANY state, under every variant, a step other than the Close of c makes no engine call for a will of c *)
Theorem C18_wills_only_at_close : forall cf st a c,
  a <> CClose c -> will_steps c (snd (cstep cf st a)) = [].
Proof. exact wills_only_at_close. Qed.
Goal True. idtac "ASSUMPTIONS-OF C18_wills_only_at_close". Abort.
Print Assumptions C18_wills_only_at_close.
Example C18_wills_only_at_close_nonvacuous :
  let st := fst (crun cf_unrepaired (init_cstate 1000000 1) [COpen 1 KBin; COpen 2 KBin; CWill 1 (lockc 12 102 8 0 30)]) in
  CReq 2 (lockc 21 102 8 0 30) <> CClose 1 /\ will_steps 1 (snd (cstep cf_unrepaired st (CReq 2 (lockc 21 102 8 0 30)))) = [] /\
  will_steps 1 (snd (cstep cf_unrepaired st (CClose 1))) = [lockc 12 102 8 0 30].
Proof. split; [discriminate|]. vm_compute. split; reflexivity. Qed.

(* (b) Holds and queued requests: a Close that runs to its end changes the lock engine exactly as if the connection had
   issued its (runnable) will commands as ordinary requests one after the other (eng_step: the engine's request step;
   the identity for a will naming a missing database) -- nothing else of the engine is touched, so holds stay until
   unlocked / expired and queued requests end as the engine theorems (C03, C05, C06) say. *)
Theorem C18_close_engine_effect : forall cf st c kr,
  aget (cs_conns st) c = Some kr -> cs_dead st = false ->
  cs_dead (fst (cstep cf st (CClose c))) = false -> ~ In c (cs_stuck (fst (cstep cf st (CClose c)))) ->
  cs_db (fst (cstep cf st (CClose c))) =
  if k_open kr && match k_kind kr with KBin => true | KText => negb (text_busy st c) end
  then fold_left (eng_step c) (runnable (wills_of st c)) (cs_db st)
  else cs_db st.
Proof. exact close_engine_effect. Qed.
Goal True. idtac "ASSUMPTIONS-OF C18_close_engine_effect". Abort.
Print Assumptions C18_close_engine_effect.

Theorem C18_close_without_wills_keeps_engine : forall cf st c,
  wills_of st c = [] -> cs_db (fst (cstep cf st (CClose c))) = cs_db st.
Proof. exact close_without_wills_keeps_engine. Qed.
Goal True. idtac "ASSUMPTIONS-OF C18_close_without_wills_keeps_engine". Abort.
Print Assumptions C18_close_without_wills_keeps_engine.

Theorem C18_bookkeeping_keeps_engine : forall cf st a,
  match a with COpen _ _ | CInit _ _ | CWill _ _ => True | _ => False end ->
  cs_db (fst (cstep cf st a)) = cs_db st.
Proof. exact bookkeeping_keeps_engine. Qed.
Goal True. idtac "ASSUMPTIONS-OF C18_bookkeeping_keeps_engine". Abort.
Print Assumptions C18_bookkeeping_keeps_engine.
Example C18_close_engine_effect_nonvacuous :
  let st := fst (crun cf_unrepaired (init_cstate 1000000 1) [COpen 1 KBin; CReq 1 (lockc 11 101 7 0 30); CWill 1 (unlockc 14 101 7)]) in
  cs_dead (fst (cstep cf_unrepaired st (CClose 1))) = false /\ cs_stuck (fst (cstep cf_unrepaired st (CClose 1))) = [] /\
  runnable (wills_of st 1) = [unlockc 14 101 7] /\
  n_locked (cnt (cs_db st)) = 1%Z /\ n_locked (cnt (cs_db (fst (cstep cf_unrepaired st (CClose 1))))) = 0%Z.
Proof. vm_compute. repeat split; reflexivity. Qed.

(* (c) Replies: every frame produced by routing the replies of one engine step reaches an open connection that is
   either the requester itself, or is found from the requester's proxy target / the clients table entry of the
   requester's client id, possibly through closed connections still registered (forwarding chain `fwd`). *)
Theorem C18_routing : forall cf cs cl who evs rs0 to o r,
  In (CFrame to o r) (snd (fst (route cf cs cl rs0 who evs))) ->
  k_open (conn_of cs to) = true /\
  (to = o \/ exists c0, (aget (r_target rs0) o = Some (Some c0) \/ aget cl (k_cid (conn_of cs o)) = Some c0) /\ fwd cs cl c0 to).
Proof. exact route_sound. Qed.
Goal True. idtac "ASSUMPTIONS-OF C18_routing". Abort.
Print Assumptions C18_routing.
(* a reconnect under the same announced client id: the late expiry notice of closed connection 1 (client id 5) is
   delivered to connection 2, which registered client id 5 -- and to nobody when nobody registered it *)
Example C18_routing_nonvacuous :
  let r := crun cf_repaired (init_cstate 1000000 1)
             [COpen 1 KBin; CInit 1 5; CReq 1 (lockc 11 101 7 0 3); CClose 1; COpen 2 KBin; CInit 2 5; CAdvance 5; CSweepE] in
  frame_to 2 1 (events (snd r)) = true /\ aget (r_target (cs_rs (fst r))) 1 = Some (Some 2) /\
  let r' := crun cf_repaired (init_cstate 1000000 1)
             [COpen 1 KBin; CInit 1 5; CReq 1 (lockc 11 101 7 0 3); CClose 1; COpen 2 KBin; CInit 2 6; CAdvance 5; CSweepE] in
  frame_to 2 1 (events (snd r')) = false.
Proof. vm_compute. repeat split; reflexivity. Qed.


(* (c') Replies across reconnects, for every run from the initial state -- every interleaving of requests, wills, INIT
   and re-INIT, Close (with replies produced while it drains the wills) and sweeps -- under the variant in which a
   proxy is re-pointed only to a connection that accepted it (chk_addproxy, derived from the source).

   A proxy only ever points at an OPEN connection: its own, or one that announced the client id of the proxy's closed
   connection. *)
Theorem C18_proxy_target_accepting : forall cf t0 aoft acts,
  chk_addproxy cf = true ->
  let st := fst (crun cf (init_cstate t0 aoft) acts) in
  forall p c, aget (r_target (cs_rs st)) p = Some (Some c) ->
    is_open (cs_conns st) c = true /\
    (c = p \/ (is_open (cs_conns st) p = false /\ In (k_cid (conn_of (cs_conns st) p)) (evr (cs_ever st) c))).
Proof. exact proxy_target_accepting. Qed.
Goal True. idtac "ASSUMPTIONS-OF C18_proxy_target_accepting". Abort.
Print Assumptions C18_proxy_target_accepting.

(* SLock.clients[X] is an open binary connection whose current announced id is X ... *)
Theorem C18_registered_is_live_announcer : forall cf t0 aoft acts,
  chk_addproxy cf = true ->
  let st := fst (crun cf (init_cstate t0 aoft) acts) in
  cs_dead st = false ->
  forall X c, aget (cs_clients st) X = Some c -> ~ In c (cs_stuck st) ->
    is_open (cs_conns st) c = true /\ k_kind (conn_of (cs_conns st) c) = KBin /\
    k_inited (conn_of (cs_conns st) c) = true /\ k_cid (conn_of (cs_conns st) c) = X /\ In X (evr (cs_ever st) c).
Proof. exact registered_is_live_announcer. Qed.
Goal True. idtac "ASSUMPTIONS-OF C18_registered_is_live_announcer". Abort.
Print Assumptions C18_registered_is_live_announcer.

(* ... namely the one that announced X most recently: an accepted INIT registers the connection, and the entry stays
   until that connection re-INITs or closes or another connection announces X (any state, any variant) *)
Theorem C18_init_registers : forall cf st c cid k,
  cs_dead st = false -> aget (cs_conns st) c = Some k -> k_open k = true -> k_kind k = KBin ->
  aget (cs_clients (fst (cstep cf st (CInit c cid)))) cid = Some c /\
  In cid (evr (cs_ever (fst (cstep cf st (CInit c cid)))) c).
Proof. exact init_registers. Qed.
Goal True. idtac "ASSUMPTIONS-OF C18_init_registers". Abort.
Print Assumptions C18_init_registers.

Theorem C18_registration_stable : forall cf st a X c,
  aget (cs_clients st) X = Some c ->
  match a with CInit c' X' => c' <> c /\ X' <> X | CClose c' => c' <> c | _ => True end ->
  aget (cs_clients (fst (cstep cf st a))) X = Some c.
Proof. exact registration_stable. Qed.
Goal True. idtac "ASSUMPTIONS-OF C18_registration_stable". Abort.
Print Assumptions C18_registration_stable.

(* never to an unrelated client: every frame emitted by any step in any reachable state goes to the requester itself,
   or the requester is closed and the receiver is an open connection that announced the requester's client id *)
Theorem C18_frames_never_to_stranger : forall cf t0 aoft acts a,
  chk_addproxy cf = true ->
  let st := fst (crun cf (init_cstate t0 aoft) acts) in
  let st' := fst (cstep cf st a) in
  forall to o r, In (CFrame to o r) (snd (cstep cf st a)) ->
    is_open (cs_conns st') to = true /\
    (to = o \/ (is_open (cs_conns st') o = false /\ In (k_cid (conn_of (cs_conns st') o)) (evr (cs_ever st') to))).
Proof. exact frames_never_to_stranger. Qed.
Goal True. idtac "ASSUMPTIONS-OF C18_frames_never_to_stranger". Abort.
Print Assumptions C18_frames_never_to_stranger.

(* delivered or dropped: in every reachable state an asynchronous reply for a closed connection p with client id X is
   delivered to the open connection that adopted p's proxy, else to the connection registered under X (which then
   adopts the proxy); it is dropped only when there is neither *)
Theorem C18_reply_delivered_or_dropped : forall cf t0 aoft acts,
  chk_addproxy cf = true ->
  let st := fst (crun cf (init_cstate t0 aoft) acts) in
  cs_dead st = false ->
  forall p r, is_open (cs_conns st) p = false ->
    let X := k_cid (conn_of (cs_conns st) p) in
    (forall c, aget (cs_clients st) X = Some c -> ~ In c (cs_stuck st)) ->
    let res := async_result cf (cs_conns st) (cs_clients st) (cs_rs st) p r in
    snd res = OOk /\
    match aget (r_target (cs_rs st)) p with
    | Some (Some t) =>
        snd (fst res) = [CFrame t p r] /\ is_open (cs_conns st) t = true /\ In X (evr (cs_ever st) t)
    | _ =>
        match aget (cs_clients st) X with
        | Some c => snd (fst res) = [CFrame c p r] /\ is_open (cs_conns st) c = true /\ In X (evr (cs_ever st) c) /\
                    aget (r_target (fst (fst res))) p = Some (Some c)
        | None => snd (fst res) = [CDropped p r]
        end
    end.
Proof. exact reply_delivered_or_dropped. Qed.
Goal True. idtac "ASSUMPTIONS-OF C18_reply_delivered_or_dropped". Abort.
Print Assumptions C18_reply_delivered_or_dropped.
(* two reconnect generations of client id 5; a will of the first reconnect (connection 3) wakes a request of the closed
   original (connection 2) while 3 is being torn down; the second reconnect (connection 4) gets the next reply *)
Example C18_reply_delivered_nonvacuous :
  let st := fst (crun cf_repaired (init_cstate 1000000 1) w_reconnect_twice) in
  cs_dead st = false /\ cs_stuck st = [] /\ is_open (cs_conns st) 2 = false /\
  aget (r_target (cs_rs st)) 2 = Some None /\ aget (cs_clients st) 5 = Some 4 /\
  snd (fst (async_result cf_repaired (cs_conns st) (cs_clients st) (cs_rs st) 2 a_reply)) = [CFrame 4 2 a_reply] /\
  frame_to 4 2 (snd (cstep cf_repaired st (CReq 1 (unlockc 13 102 8)))) = true.
Proof. exact reconnect_twice_delivered. Qed.

(* after that reply: the proxy of closed connection 2 points at connection 4, which is open and announced client id 5;
   clients[5] is connection 4, open, INITed as 5; had connection 3 (closing) been asked it would have refused *)
Example C18_proxy_target_nonvacuous :
  let st := fst (crun cf_repaired (init_cstate 1000000 1) (w_reconnect_twice ++ [CReq 1 (unlockc 13 102 8)])) in
  chk_addproxy cf_repaired = true /\ cs_dead st = false /\ cs_stuck st = [] /\
  aget (r_target (cs_rs st)) 2 = Some (Some 4) /\ is_open (cs_conns st) 4 = true /\ is_open (cs_conns st) 2 = false /\
  k_cid (conn_of (cs_conns st) 2) = 5 /\ evr (cs_ever st) 4 = [5] /\
  aget (cs_clients st) 5 = Some 4 /\ k_inited (conn_of (cs_conns st) 4) = true /\ k_cid (conn_of (cs_conns st) 4) = 5 /\
  (* registration: INIT of an open binary connection registers it; another connection's request leaves it alone *)
  aget (cs_clients (fst (cstep cf_repaired st (CInit 1 5)))) 5 = Some 1 /\
  aget (cs_clients (fst (cstep cf_repaired st (CClose 1)))) 5 = Some 4.
Proof. vm_compute. repeat split; reflexivity. Qed.

(* ---- the property as stated is refuted by the faithful model (each witness is replayed on the Go code) ---- *)

(* unrepaired text handlers: a registered will is never executed; Close re-queues it *)
Theorem C18_refuted_text_will :
  exists acts c,
    let st := fst (crun cf_unrepaired (init_cstate 1000000 1) acts) in
    let ev := events (snd (crun cf_unrepaired (init_cstate 1000000 1) acts)) in
    cs_dead st = false /\ cs_stuck st = [] /\ is_open (cs_conns st) c = false /\
    regs c ev <> [] /\ will_steps c ev = [] /\ wills_of st c <> [].
Proof. exact text_will_refuted_ex. Qed.
Goal True. idtac "ASSUMPTIONS-OF C18_refuted_text_will". Abort.
Print Assumptions C18_refuted_text_will.

(* a binary connection that sent INIT and registered a replying will: Close never returns (unbounded recursion) *)
Theorem C18_refuted_closed_recursion :
  exists acts,
    cs_dead (fst (crun cf_unrepaired (init_cstate 1000000 1) acts)) = true /\
    has_crash (events (snd (crun cf_unrepaired (init_cstate 1000000 1) acts))) = true.
Proof. exact closed_recursion_refuted_ex. Qed.
Goal True. idtac "ASSUMPTIONS-OF C18_refuted_closed_recursion". Abort.
Print Assumptions C18_refuted_closed_recursion.

(* even with every repair in place: connection a never announces a client id, b registers the all-zero id, and an
   asynchronous reply to a's request is delivered to b *)
Theorem C18_refuted_zero_clientid :
  exists acts a b,
    let st := fst (crun cf_repaired (init_cstate 1000000 1) acts) in
    let ev := events (snd (crun cf_repaired (init_cstate 1000000 1) acts)) in
    a <> b /\ cs_dead st = false /\ frame_to b a ev = true /\
    k_inited (conn_of (cs_conns st) a) = false /\ regs a ev = [] /\
    (forall cid, ~ In (CInit a cid) acts).
Proof. exact zero_clientid_refuted_ex. Qed.
Goal True. idtac "ASSUMPTIONS-OF C18_refuted_zero_clientid". Abort.
Print Assumptions C18_refuted_zero_clientid.

(* with only the will type rewrite in place: the fifth replying will blocks Close for ever *)
Theorem C18_refuted_text_close_blocks :
  exists acts c,
    let st := fst (crun cf_text_will_only (init_cstate 1000000 1) acts) in
    let ev := events (snd (crun cf_text_will_only (init_cstate 1000000 1) acts)) in
    cs_dead st = false /\ In c (cs_stuck st) /\ is_open (cs_conns st) c = false /\
    Nat.ltb (length (will_steps c ev)) (length (regs c ev)) = true.
Proof. exact text_close_blocks_refuted_ex. Qed.
Goal True. idtac "ASSUMPTIONS-OF C18_refuted_text_close_blocks". Abort.
Print Assumptions C18_refuted_text_close_blocks.

(* with the AddProxy result ignored (the assignment of the proxy target no longer guarded): a proxy ends up glued to a
   closed connection and the next reply is dropped although an open connection is registered under the same client id *)
Theorem C18_refuted_proxy_glued :
  exists acts p c c2 r,
    let st := fst (crun cf_no_addproxy_check (init_cstate 1000000 1) acts) in
    cs_dead st = false /\ cs_stuck st = [] /\ is_open (cs_conns st) p = false /\
    aget (r_target (cs_rs st)) p = Some (Some c) /\ is_open (cs_conns st) c = false /\
    aget (cs_clients st) (k_cid (conn_of (cs_conns st) p)) = Some c2 /\ is_open (cs_conns st) c2 = true /\
    snd (fst (async_result cf_no_addproxy_check (cs_conns st) (cs_clients st) (cs_rs st) p r)) = [CDropped p r].
Proof. exact proxy_glued_refuted_ex. Qed.
Goal True. idtac "ASSUMPTIONS-OF C18_refuted_proxy_glued". Abort.
Print Assumptions C18_refuted_proxy_glued.
