(* C08 — crash at any byte of the log recovers a clean record prefix.  Model: coq/Aof/{AofRec,AofFile,AofLoad}.v;
   proofs: coq/Aof/AofProofs.v.  [fixes] is the source variant (checks/C08.py derives it from server/aof.go):
   [today] = the code as pinned, [repaired] = with proposed_fixes/c08_*.diff. *)
From Coq Require Import List NArith ZArith Bool Lia.
From Slock Require Import Aof.AofRec Aof.AofFile Aof.AofLoad Aof.AofProofs.
Import ListNotations.
Open Scope N_scope.

(* Every crash image of the write model has the crash shape: records are written before their values, a write may be
   cut at any byte (all 64 residues of a torn record, and the 12-byte header). *)
Theorem C08_writer_crash_shape : forall (bs : nat) (ops : list op) (k j : nat),
  Forall wf_op ops ->
  let '(A, D) := crash_image (fresh_trace bs ops) k j [] [] in crash_shape (items_of ops) A D.
Proof. exact writer_crash_shape. Qed.
Goal True. idtac "ASSUMPTIONS-OF C08_writer_crash_shape". Abort.
Print Assumptions C08_writer_crash_shape.
Example C08_writer_crash_shape_nonvacuous :
  Forall wf_op w_ops /\ crash_image (fresh_trace 4096 w_ops) 1 30 [] [] = (header ++ firstn 30 (w_rec 1 0x2000), []).
Proof. split; [exact w_ops_wf|vm_compute; reflexivity]. Qed.

(* End to end, repaired source: any workload, any buffer sizes, crash at any byte of any write: the next start succeeds
   and hands the engine exactly the live records of a prefix of the records written. *)
Theorem C08_crash_any_byte_repaired : forall (fx : fixes) (wbs rbs : nat) (now : Z) (ops : list op) (k j : nat),
  fixed_reader fx -> fx_hdr fx = true -> (64 <= rbs)%nat -> Forall wf_op ops ->
  let '(A, D) := crash_image (fresh_trace wbs ops) k j [] [] in
  exists n, (n <= length (items_of ops))%nat /\
            recover fx rbs (single_dir A D) now = ROk (live now (deliver (firstn n (items_of ops)))).
Proof. exact crash_any_byte_repaired. Qed.
Goal True. idtac "ASSUMPTIONS-OF C08_crash_any_byte_repaired". Abort.
Print Assumptions C08_crash_any_byte_repaired.
Example C08_crash_any_byte_repaired_nonvacuous :
  fixed_reader repaired /\ fx_hdr repaired = true /\ Forall wf_op w_ops.
Proof. split; [split; reflexivity|]. split; [reflexivity|exact w_ops_wf]. Qed.

(* First restart, repaired source: EVERY crash image recovers exactly the (expiry-filtered) records of some prefix of
   the records written; the start succeeds. *)
Theorem C08_first_restart_repaired : forall (fx : fixes) (bs : nat) (now : Z) (its : list witem) (A D : bytes),
  fixed_reader fx -> fx_hdr fx = true -> (64 <= bs)%nat -> Forall wf_item its -> crash_shape its A D ->
  exists k, (k <= length its)%nat /\ recover fx bs (single_dir A D) now = ROk (live now (deliver (firstn k its))).
Proof. exact first_restart_repaired. Qed.
Goal True. idtac "ASSUMPTIONS-OF C08_first_restart_repaired". Abort.
Print Assumptions C08_first_restart_repaired.
Example C08_first_restart_repaired_nonvacuous :
  fixed_reader repaired /\ fx_hdr repaired = true /\ (64 <= 4096)%nat /\ Forall wf_item w_its /\ crash_shape w_its w_torn_aof [].
Proof. repeat split; try reflexivity; try lia; [exact w_its_wf | exact (proj1 (proj2 refuted_torn_tail))]. Qed.

(* Two restarts, repaired source, for crash images that lost no value write: the second restart recovers what the
   first one recovered followed by everything appended in between. *)
Theorem C08_second_restart_repaired : forall (fx : fixes) (bs : nat) (now : Z) (its1 its2 : list witem) (n : nat) (A D : bytes),
  fixed_reader fx -> fx_hdr fx = true -> fx_trunc fx = true -> (64 <= bs)%nat ->
  Forall wf_item its1 -> Forall wf_item its2 -> clean_crash its1 n A D ->
  recover fx bs (single_dir A D) now = ROk (live now (deliver (firstn n its1))) /\
  let '(a0, d0) := open_append fx (Some A) (Some D) in
  recover fx bs (single_dir (a0 ++ concat (recs_of its2)) (d0 ++ vals its2)) now
    = ROk (live now (deliver (firstn n its1 ++ its2))).
Proof. exact second_restart_repaired. Qed.
Goal True. idtac "ASSUMPTIONS-OF C08_second_restart_repaired". Abort.
Print Assumptions C08_second_restart_repaired.
Example C08_second_restart_repaired_nonvacuous :
  clean_crash w_its 1 (header ++ concat (recs_of (firstn 1 w_its)) ++ firstn 20 (w_rec 2 0)) (vals (firstn 1 w_its)).
Proof. apply CC_body; [simpl; lia|]. apply tail_ok_firstn; [apply w_rec_wf64|lia]. Qed.

(* The same on the write model: after a value-clean crash, restart, any further workload written and closed, restart. *)
Theorem C08_second_restart_writer : forall (fx : fixes) (bs wbs : nat) (now : Z) (its1 : list witem) (ops2 : list op) (n : nat) (A D : bytes),
  fixed_reader fx -> fx_hdr fx = true -> fx_trunc fx = true -> (64 <= bs)%nat ->
  Forall wf_item its1 -> Forall wf_op ops2 -> clean_crash its1 n A D ->
  recover fx bs (single_dir A D) now = ROk (live now (deliver (firstn n its1))) /\
  recover fx bs (after_append fx wbs A D ops2) now = ROk (live now (deliver (firstn n its1 ++ items_of ops2))).
Proof. exact second_restart_writer. Qed.
Goal True. idtac "ASSUMPTIONS-OF C08_second_restart_writer". Abort.
Print Assumptions C08_second_restart_writer.
Example C08_second_restart_writer_nonvacuous :
  Forall wf_op w_ops /\
  clean_crash w_its 1 (header ++ concat (recs_of (firstn 1 w_its)) ++ firstn 20 (w_rec 2 0)) (vals (firstn 1 w_its)).
Proof. split; [exact w_ops_wf|exact C08_second_restart_repaired_nonvacuous]. Qed.

(* Values (the .dat side file).  AofFile.ReadLockData is modelled byte-exactly THROUGH bufio (read_data_b: first read,
   continuation loop of the 4-byte length prefix, first payload read, continuation loop at offset n+4); the loader uses
   it with a reader of bufSize*64 bytes, so every theorem above is about the buffered value reader.  The two theorems
   below are the bufio elimination for values: for EVERY reader state (any buffer size, any split of the stream between
   buffered bytes and the rest of the file) and values of any length. *)
Theorem C08_value_straddles_buffer : forall (r : rd) (v D' : bytes),
  wf_val v -> stream r = v ++ D' ->
  exists r', read_data_b (Some r) = inl (v, r') /\ stream r' = D' /\ r_size r' = r_size r.
Proof. exact value_straddles_buffer. Qed.
Goal True. idtac "ASSUMPTIONS-OF C08_value_straddles_buffer". Abort.
Print Assumptions C08_value_straddles_buffer.
(* length prefix straddles the buffered part, payload needs a continuation read, a second value follows *)
Example C08_value_straddles_buffer_nonvacuous :
  wf_val x_val /\ stream x_rd = x_val ++ x_next /\ r_buf x_rd = [40; 0] /\ r_size x_rd = 16%nat /\
  (exists d r1, rd_read x_rd 4 = (d, None, r1) /\ length d = 2%nat) /\
  exists r', read_data_b (Some x_rd) = inl (x_val, r') /\ stream r' = x_next.
Proof.
  split; [exact x_val_wf|]. split; [reflexivity|]. split; [reflexivity|]. split; [reflexivity|]. split.
  - do 2 eexists. split; [vm_compute; reflexivity|reflexivity].
  - eexists. split; [vm_compute; reflexivity|reflexivity].
Qed.

Theorem C08_value_reader_is_stream_reader : forall (r : rd),
  (forall v s', read_data (Some (stream r)) = inl (v, Some s') ->
     exists r', read_data_b (Some r) = inl (v, r') /\ stream r' = s' /\ r_size r' = r_size r) /\
  (forall e, read_data (Some (stream r)) = inr e -> read_data_b (Some r) = inr e).
Proof. exact value_reader_is_stream_reader. Qed.
Goal True. idtac "ASSUMPTIONS-OF C08_value_reader_is_stream_reader". Abort.
Print Assumptions C08_value_reader_is_stream_reader.
Example C08_value_reader_is_stream_reader_nonvacuous :
  read_data (Some (stream x_rd)) = inl (x_val, Some x_next) /\ read_data (Some (stream x_rd_cut)) = inr EOF.
Proof. split; vm_compute; reflexivity. Qed.

(* a value cut short by the crash is end of log (io.EOF), whatever the reader state *)
Theorem C08_value_truncated_is_eof : forall (r : rd) (v rest : bytes),
  wf_val v -> v = stream r ++ rest -> rest <> [] -> read_data_b (Some r) = inr EOF.
Proof. exact value_truncated_is_eof. Qed.
Goal True. idtac "ASSUMPTIONS-OF C08_value_truncated_is_eof". Abort.
Print Assumptions C08_value_truncated_is_eof.
Example C08_value_truncated_is_eof_nonvacuous :
  wf_val x_val /\ x_val = stream x_rd_cut ++ skipn 32 x_val /\ skipn 32 x_val <> [] /\ read_data_b (Some x_rd_cut) = inr EOF.
Proof. split; [exact x_val_wf|]. split; [reflexivity|]. split; [discriminate|vm_compute; reflexivity]. Qed.

(* The two caps that make the model executable with unary nat (requested payload length capped at file rest + 1, buffer
   size of the value reader capped at file length + 1) cannot be observed: the executable value reader equals the one
   that hands dataLen itself to bufio, and LoadAofFile equals LoadAofFile with bufio.NewReaderSize(dataFile, bufSize*64). *)
Theorem C08_executable_caps_unobservable :
  (forall dr : option rd, read_data_b dr = read_data_u dr) /\
  (forall (fx : fixes) (bs : nat) (now : Z) (aof dat : option bytes) (lbuf : bytes),
     load_file fx bs now aof dat lbuf = load_file_code fx bs now aof dat lbuf).
Proof. split; [exact read_data_cap_preserving|exact load_file_dat_rd]. Qed.
Goal True. idtac "ASSUMPTIONS-OF C08_executable_caps_unobservable". Abort.
Print Assumptions C08_executable_caps_unobservable.
(* the caps are active on a garbage length / a small file *)
Example C08_executable_caps_unobservable_nonvacuous :
  want_cap 4294967295 x_rd_cut = 33%nat /\ r_size (dat_rd 64 x_next) = 16%nat /\ r_size (dat_rd 64 (repeat 0 5000)) = 4096%nat.
Proof. split; [|split]; vm_compute; reflexivity. Qed.

(* The source as it is today (indeed any variant): cuts at record boundaries with the header whole. *)
Theorem C08_first_restart_today_record_boundary : forall (bs : nat) (now : Z) (its : list witem) (n : nat) (D rest : bytes),
  (64 <= bs)%nat -> Forall wf_item its -> (n <= length its)%nat -> vals (firstn n its) = D ++ rest ->
  exists k, (k <= n)%nat /\
    recover today bs (single_dir (header ++ concat (recs_of (firstn n its))) D) now = ROk (live now (deliver (firstn k its)))
    /\ (rest = [] -> k = n).
Proof. exact (first_restart_record_boundary today). Qed.
Goal True. idtac "ASSUMPTIONS-OF C08_first_restart_today_record_boundary". Abort.
Print Assumptions C08_first_restart_today_record_boundary.
Example C08_first_restart_today_record_boundary_nonvacuous :
  Forall wf_item v_its /\ (1 <= length v_its)%nat /\ vals (firstn 1 v_its) = [3; 0; 0] ++ [0; 0; 0; 7].
Proof. split; [exact (proj1 refuted_value_stolen)|]. split; [simpl; lia|reflexivity]. Qed.

(* Refutations on the faithful model of today's source (each witness is replayed on the real code by checks/C08.py). *)
Theorem C08_refuted_torn_tail :
  Forall wf_item w_its /\ crash_shape w_its w_torn_aof [] /\
  (exists ghost, recover today 4096 (single_dir w_torn_aof []) w_now = ROk (deliver (firstn 2 w_its) ++ [ghost])) /\
  forall k, recover today 4096 (single_dir w_torn_aof []) w_now <> ROk (live w_now (deliver (firstn k w_its))).
Proof. exact refuted_torn_tail. Qed.
Goal True. idtac "ASSUMPTIONS-OF C08_refuted_torn_tail". Abort.
Print Assumptions C08_refuted_torn_tail.

Theorem C08_refuted_straddle_start_fails :
  crash_shape w_its w_straddle_aof [] /\
  recover today 64 (single_dir w_straddle_aof []) w_now = RStartFails ELockLen (deliver (firstn 1 w_its)).
Proof. exact refuted_straddle_start_fails. Qed.
Goal True. idtac "ASSUMPTIONS-OF C08_refuted_straddle_start_fails". Abort.
Print Assumptions C08_refuted_straddle_start_fails.

Theorem C08_refuted_torn_header_start_fails :
  crash_shape w_its (firstn 5 header) [] /\
  recover today 4096 (single_dir (firstn 5 header) []) w_now = RStartFails ENotAof [].
Proof. exact refuted_torn_header_start_fails. Qed.
Goal True. idtac "ASSUMPTIONS-OF C08_refuted_torn_header_start_fails". Abort.
Print Assumptions C08_refuted_torn_header_start_fails.

Theorem C08_refuted_misaligned_append :
  crash_shape w_its w_torn20_aof [] /\
  recover today 4096 (after_append today 4096 w_torn20_aof [] [OItem (w_rec 4 0) []; OItem (w_rec 5 0) []]) w_now
    = RStartFails ELockLen (deliver (firstn 1 w_its)).
Proof. exact refuted_misaligned_append. Qed.
Goal True. idtac "ASSUMPTIONS-OF C08_refuted_misaligned_append". Abort.
Print Assumptions C08_refuted_misaligned_append.

(* not repaired by any switch: a value write lost in the crash *)
Theorem C08_refuted_value_stolen :
  Forall wf_item v_its /\ crash_shape v_its (header ++ w_rec 1 0x2000) [] /\
  recover repaired 4096 (single_dir (header ++ w_rec 1 0x2000) []) w_now = ROk [] /\
  recover repaired 4096 (after_append repaired 4096 (header ++ w_rec 1 0x2000) [] [OItem (w_rec 2 0x2000) (w_val 9)]) w_now
    = ROk [(w_rec 1 0x2000, Some (w_val 9))].
Proof. exact refuted_value_stolen. Qed.
Goal True. idtac "ASSUMPTIONS-OF C08_refuted_value_stolen". Abort.
Print Assumptions C08_refuted_value_stolen.
