(* C08 — crash at any byte of the log recovers a clean record prefix.  Model: coq/Aof/{AofRec,AofFile,AofLoad}.v;
   proofs: coq/Aof/AofProofs.v.  [fixes] is the source variant (checks/C08.py derives it from server/aof.go):
   [today] = the code as pinned, [repaired] = with proposed_fixes/c08_*.diff. *)
From Coq Require Import List NArith ZArith Bool Lia.
From Slock Require Import Aof.AofRec Aof.AofFile Aof.AofLoad Aof.AofProofs.
Import ListNotations.
Open Scope N_scope.

(* Every crash image of the write model has the crash shape: records are written before their values, a write may be
   cut at any byte (all 64 residues of a torn record, and the 12-byte header). *)
Theorem C08_writer_crash_shape : forall (bs : nat) (ops : list op) (k j : nat),
  Forall wf_op ops ->
  let '(A, D) := crash_image (fresh_trace bs ops) k j [] [] in crash_shape (items_of ops) A D.
Proof. exact writer_crash_shape. Qed.
Goal True. idtac "ASSUMPTIONS-OF C08_writer_crash_shape". Abort.
Print Assumptions C08_writer_crash_shape.
Example C08_writer_crash_shape_nonvacuous :
  Forall wf_op w_ops /\ crash_image (fresh_trace 4096 w_ops) 1 30 [] [] = (header ++ firstn 30 (w_rec 1 0x2000), []).
Proof. split; [exact w_ops_wf|vm_compute; reflexivity]. Qed.

(* End to end, repaired source: any workload, any buffer sizes, crash at any byte of any write: the next start succeeds
   and hands the engine exactly the live records of a prefix of the records written. *)
Theorem C08_crash_any_byte_repaired : forall (fx : fixes) (wbs rbs : nat) (now : Z) (ops : list op) (k j : nat),
  fixed_reader fx -> fx_hdr fx = true -> (64 <= rbs)%nat -> Forall wf_op ops ->
  let '(A, D) := crash_image (fresh_trace wbs ops) k j [] [] in
  exists n, (n <= length (items_of ops))%nat /\
            recover fx rbs (single_dir A D) now = ROk (live now (deliver (firstn n (items_of ops)))).
Proof. exact crash_any_byte_repaired. Qed.
Goal True. idtac "ASSUMPTIONS-OF C08_crash_any_byte_repaired". Abort.
Print Assumptions C08_crash_any_byte_repaired.
Example C08_crash_any_byte_repaired_nonvacuous :
  fixed_reader repaired /\ fx_hdr repaired = true /\ Forall wf_op w_ops.
Proof. split; [split; reflexivity|]. split; [reflexivity|exact w_ops_wf]. Qed.

(* First restart, repaired source: EVERY crash image recovers exactly the (expiry-filtered) records of some prefix of
   the records written; the start succeeds. *)
Theorem C08_first_restart_repaired : forall (fx : fixes) (bs : nat) (now : Z) (its : list witem) (A D : bytes),
  fixed_reader fx -> fx_hdr fx = true -> (64 <= bs)%nat -> Forall wf_item its -> crash_shape its A D ->
  exists k, (k <= length its)%nat /\ recover fx bs (single_dir A D) now = ROk (live now (deliver (firstn k its))).
Proof. exact first_restart_repaired. Qed.
Goal True. idtac "ASSUMPTIONS-OF C08_first_restart_repaired". Abort.
Print Assumptions C08_first_restart_repaired.
Example C08_first_restart_repaired_nonvacuous :
  fixed_reader repaired /\ fx_hdr repaired = true /\ (64 <= 4096)%nat /\ Forall wf_item w_its /\ crash_shape w_its w_torn_aof [].
Proof. repeat split; try reflexivity; try lia; [exact w_its_wf | exact (proj1 (proj2 refuted_torn_tail))]. Qed.

(* Two restarts, repaired source, for crash images that lost no value write: the second restart recovers what the
   first one recovered followed by everything appended in between. *)
Theorem C08_second_restart_repaired : forall (fx : fixes) (bs : nat) (now : Z) (its1 its2 : list witem) (n : nat) (A D : bytes),
  fixed_reader fx -> fx_hdr fx = true -> fx_trunc fx = true -> (64 <= bs)%nat ->
  Forall wf_item its1 -> Forall wf_item its2 -> clean_crash its1 n A D ->
  recover fx bs (single_dir A D) now = ROk (live now (deliver (firstn n its1))) /\
  let '(a0, d0) := open_append fx (Some A) (Some D) in
  recover fx bs (single_dir (a0 ++ concat (recs_of its2)) (d0 ++ vals its2)) now
    = ROk (live now (deliver (firstn n its1 ++ its2))).
Proof. exact second_restart_repaired. Qed.
Goal True. idtac "ASSUMPTIONS-OF C08_second_restart_repaired". Abort.
Print Assumptions C08_second_restart_repaired.
Example C08_second_restart_repaired_nonvacuous :
  clean_crash w_its 1 (header ++ concat (recs_of (firstn 1 w_its)) ++ firstn 20 (w_rec 2 0)) (vals (firstn 1 w_its)).
Proof. apply CC_body; [simpl; lia|]. apply tail_ok_firstn; [apply w_rec_wf64|lia]. Qed.

(* The same on the write model: after a value-clean crash, restart, any further workload written and closed, restart. *)
Theorem C08_second_restart_writer : forall (fx : fixes) (bs wbs : nat) (now : Z) (its1 : list witem) (ops2 : list op) (n : nat) (A D : bytes),
  fixed_reader fx -> fx_hdr fx = true -> fx_trunc fx = true -> (64 <= bs)%nat ->
  Forall wf_item its1 -> Forall wf_op ops2 -> clean_crash its1 n A D ->
  recover fx bs (single_dir A D) now = ROk (live now (deliver (firstn n its1))) /\
  recover fx bs (after_append fx wbs A D ops2) now = ROk (live now (deliver (firstn n its1 ++ items_of ops2))).
Proof. exact second_restart_writer. Qed.
Goal True. idtac "ASSUMPTIONS-OF C08_second_restart_writer". Abort.
Print Assumptions C08_second_restart_writer.
Example C08_second_restart_writer_nonvacuous :
  Forall wf_op w_ops /\
  clean_crash w_its 1 (header ++ concat (recs_of (firstn 1 w_its)) ++ firstn 20 (w_rec 2 0)) (vals (firstn 1 w_its)).
Proof. split; [exact w_ops_wf|exact C08_second_restart_repaired_nonvacuous]. Qed.

(* The source as it is today (indeed any variant): cuts at record boundaries with the header whole. *)
Theorem C08_first_restart_today_record_boundary : forall (bs : nat) (now : Z) (its : list witem) (n : nat) (D rest : bytes),
  (64 <= bs)%nat -> Forall wf_item its -> (n <= length its)%nat -> vals (firstn n its) = D ++ rest ->
  exists k, (k <= n)%nat /\
    recover today bs (single_dir (header ++ concat (recs_of (firstn n its))) D) now = ROk (live now (deliver (firstn k its)))
    /\ (rest = [] -> k = n).
Proof. exact (first_restart_record_boundary today). Qed.
Goal True. idtac "ASSUMPTIONS-OF C08_first_restart_today_record_boundary". Abort.
Print Assumptions C08_first_restart_today_record_boundary.
Example C08_first_restart_today_record_boundary_nonvacuous :
  Forall wf_item v_its /\ (1 <= length v_its)%nat /\ vals (firstn 1 v_its) = [3; 0; 0] ++ [0; 0; 0; 7].
Proof. split; [exact (proj1 refuted_value_stolen)|]. split; [simpl; lia|reflexivity]. Qed.

(* Refutations on the faithful model of today's source (each witness is replayed on the real code by checks/C08.py). *)
Theorem C08_refuted_torn_tail :
  Forall wf_item w_its /\ crash_shape w_its w_torn_aof [] /\
  (exists ghost, recover today 4096 (single_dir w_torn_aof []) w_now = ROk (deliver (firstn 2 w_its) ++ [ghost])) /\
  forall k, recover today 4096 (single_dir w_torn_aof []) w_now <> ROk (live w_now (deliver (firstn k w_its))).
Proof. exact refuted_torn_tail. Qed.
Goal True. idtac "ASSUMPTIONS-OF C08_refuted_torn_tail". Abort.
Print Assumptions C08_refuted_torn_tail.

Theorem C08_refuted_straddle_start_fails :
  crash_shape w_its w_straddle_aof [] /\
  recover today 64 (single_dir w_straddle_aof []) w_now = RStartFails ELockLen (deliver (firstn 1 w_its)).
Proof. exact refuted_straddle_start_fails. Qed.
Goal True. idtac "ASSUMPTIONS-OF C08_refuted_straddle_start_fails". Abort.
Print Assumptions C08_refuted_straddle_start_fails.

Theorem C08_refuted_torn_header_start_fails :
  crash_shape w_its (firstn 5 header) [] /\
  recover today 4096 (single_dir (firstn 5 header) []) w_now = RStartFails ENotAof [].
Proof. exact refuted_torn_header_start_fails. Qed.
Goal True. idtac "ASSUMPTIONS-OF C08_refuted_torn_header_start_fails". Abort.
Print Assumptions C08_refuted_torn_header_start_fails.

Theorem C08_refuted_misaligned_append :
  crash_shape w_its w_torn20_aof [] /\
  recover today 4096 (after_append today 4096 w_torn20_aof [] [OItem (w_rec 4 0) []; OItem (w_rec 5 0) []]) w_now
    = RStartFails ELockLen (deliver (firstn 1 w_its)).
Proof. exact refuted_misaligned_append. Qed.
Goal True. idtac "ASSUMPTIONS-OF C08_refuted_misaligned_append". Abort.
Print Assumptions C08_refuted_misaligned_append.

(* not repaired by any switch: a value write lost in the crash *)
Theorem C08_refuted_value_stolen :
  Forall wf_item v_its /\ crash_shape v_its (header ++ w_rec 1 0x2000) [] /\
  recover repaired 4096 (single_dir (header ++ w_rec 1 0x2000) []) w_now = ROk [] /\
  recover repaired 4096 (after_append repaired 4096 (header ++ w_rec 1 0x2000) [] [OItem (w_rec 2 0x2000) (w_val 9)]) w_now
    = ROk [(w_rec 1 0x2000, Some (w_val 9))].
Proof. exact refuted_value_stolen. Qed.
Goal True. idtac "ASSUMPTIONS-OF C08_refuted_value_stolen". Abort.
Print Assumptions C08_refuted_value_stolen.
