(* C10, forwarding half (process level): which result a client of a NON-LEADER text connection is handed.
   Model and proofs: Forward/Relay.v (transcribed from server/transparency.go and server/protocol.go).            *)
From Coq Require Import List NArith Bool.
Import ListNotations.
Require Import Slock.Forward.Relay.
Open Scope N_scope.

(* For every sequence of forwards (waiting commands, fire-and-forget PUSHes, failed forwards), every delivery of
   leader results (any order, any ids, duplicates, results nobody waits for) and every link drop: each result handed to
   the text client for command w is the leader's result carrying w's request id and really read from the link after
   w was forwarded (or the roll-back error made up for w by a link drop, or the +OK of w's own PUSH, or the error
   line of w's own failed forward) -- never the result of another command, never a PUSH's result, never shifted;
   and every forwarded command is answered exactly once, in order (the last one may still be waiting). *)
Theorem C10_proc_relay_exact : forall evs s,
  Forall ev_nonzero evs -> run init evs = Ok s ->
  Forall (sourced evs) (handed s) /\
  Forall (fun wr => answers (fst wr) (snd wr)) (handed s) /\
  map fst (handed s) ++ pending_list s = fwd_rids evs.
Proof. exact relay_exact. Qed.
Goal True. idtac "ASSUMPTIONS-OF C10_proc_relay_exact". Abort.
Print Assumptions C10_proc_relay_exact.

Example C10_proc_relay_exact_nonvacuous :
  (* PUSH 7 (queues on the leader), LOCK 8, the leader answers 8 first and the PUSH later, UNLOCK 9 is waiting *)
  let evs := [EFwdPush 7; EFwdWait 8; EReply 8 100; EReply 7 101; EFwdWait 9] in
  Forall ev_nonzero evs /\
  exists s, run init evs = Ok s /\ handed s = [(7, ROk); (8, RLeader 8 100)] /\ waiting s = Some 9.
Proof.
  split; [repeat constructor; discriminate|]. eexists. split; [vm_compute; reflexivity|]. split; reflexivity.
Qed.

(* The goroutine that reads the link never blocks on the result channel of the text connection. *)
Theorem C10_proc_relay_reader_never_blocks : forall evs,
  Forall ev_nonzero evs -> run init evs <> SenderBlocked.
Proof. exact relay_reader_never_blocks. Qed.
Goal True. idtac "ASSUMPTIONS-OF C10_proc_relay_reader_never_blocks". Abort.
Print Assumptions C10_proc_relay_reader_never_blocks.

Example C10_proc_relay_reader_never_blocks_nonvacuous :
  exists s, run init [EFwdPush 1; EFwdPush 2; EFwdPush 3; EFwdPush 4; EFwdPush 5; EReply 1 0; EReply 2 0; EReply 3 0;
                      EReply 4 0; EReply 5 0; EFwdWait 6; EReply 6 9] = Ok s /\ In (6, RLeader 6 9) (handed s).
Proof. eexists. split; [vm_compute; reflexivity|]. simpl. tauto. Qed.

(* A dropped leader link never leaves the text client's handler waiting: the waiting command is the latest one
   written, so rollbackLatestCommand answers it. *)
Theorem C10_proc_relay_drop_releases : forall evs s,
  Forall ev_nonzero evs -> run init (evs ++ [EDrop]) = Ok s -> waiting s = None.
Proof. exact relay_drop_releases. Qed.
Goal True. idtac "ASSUMPTIONS-OF C10_proc_relay_drop_releases". Abort.
Print Assumptions C10_proc_relay_drop_releases.

Example C10_proc_relay_drop_releases_nonvacuous :
  exists s, run init ([EFwdPush 3; EFwdWait 4] ++ [EDrop]) = Ok s /\ handed s = [(3, ROk); (4, RRollback 4)].
Proof. eexists. split; [vm_compute; reflexivity|reflexivity]. Qed.

(* REFUTED for the code as written, on the connection to the LEADER itself (the reference of "the same outcome from
   any node"): TextServerProtocol.ProcessLockResultCommand queues the result of a PUSH although nobody reads it;
   the next command that waits is handed the PUSH's result, and so on, shifted by one ... *)
Theorem C10_proc_direct_push_shifts_refuted : exists evs s w rid p,
  Forall dev_nonzero evs /\ drun false dinit evs = DOk s /\ In (w, RLeader rid p) (dhanded s) /\ rid <> w.
Proof. exact direct_push_shifts. Qed.
Goal True. idtac "ASSUMPTIONS-OF C10_proc_direct_push_shifts_refuted". Abort.
Print Assumptions C10_proc_direct_push_shifts_refuted.

(* ... and the fifth immediately answered PUSH of a connection blocks its goroutine for ever (channel capacity 4). *)
Theorem C10_proc_direct_push_blocks_refuted :
  drun false dinit [DPush 1 (Some 10); DPush 2 (Some 20); DPush 3 (Some 30); DPush 4 (Some 40); DPush 5 (Some 50)] = DBlocked.
Proof. exact direct_push_blocks. Qed.
Goal True. idtac "ASSUMPTIONS-OF C10_proc_direct_push_blocks_refuted". Abort.
Print Assumptions C10_proc_direct_push_blocks_refuted.

(* With the request-id guard in ProcessLockResultCommand (proposed_fixes/c10proc_text_push_result.diff) the leader's own
   text connection is exact too and never blocks. *)
Theorem C10_proc_direct_guarded_exact : forall evs s,
  Forall dev_nonzero evs -> drun true dinit evs = DOk s ->
  Forall (fun wr => answers (fst wr) (snd wr)) (dhanded s).
Proof. exact direct_guarded_exact. Qed.
Goal True. idtac "ASSUMPTIONS-OF C10_proc_direct_guarded_exact". Abort.
Print Assumptions C10_proc_direct_guarded_exact.

Theorem C10_proc_direct_guarded_never_blocks : forall evs,
  Forall dev_nonzero evs -> drun true dinit evs <> DBlocked.
Proof. exact direct_guarded_never_blocks. Qed.
Goal True. idtac "ASSUMPTIONS-OF C10_proc_direct_guarded_never_blocks". Abort.
Print Assumptions C10_proc_direct_guarded_never_blocks.

Example C10_proc_direct_guarded_nonvacuous :
  exists s, drun true dinit [DPush 1 (Some 10); DWait 2 (Some 20); DPush 3 None; DWait 4 None; DLate 3 30; DLate 4 40] = DOk s /\
            dhanded s = [(1, ROk); (2, RLeader 2 20); (3, ROk); (4, RLeader 4 40)].
Proof. eexists. split; [vm_compute; reflexivity|reflexivity]. Qed.

(* REFUTED for the code as written, binary connections: one (latestRequestId, latestCommandType) per link, so when the
   link to the leader drops with two commands in flight the older one is never answered. *)
Theorem C10_proc_binary_rollback_refuted : exists evs rid,
  In (BFwd rid) evs /\ In BDrop evs /\ ~ In rid (banswered (brun evs)) /\ In rid (binflight (brun evs)).
Proof. exact binary_rollback_loses_replies. Qed.
Goal True. idtac "ASSUMPTIONS-OF C10_proc_binary_rollback_refuted". Abort.
Print Assumptions C10_proc_binary_rollback_refuted.
