(* C07 - restart recovers exactly the persisted, still-live holds: the GENERAL SIMULATION on a sub-language.
   Statements only; proofs in Restart/Sim*.v (SimBase, SimExec, SimInv, SimReader, SimLedger, SimSweep, SimWInv,
   SimWriter, SimMain, SimRefute).  Models: Engine/*.v (lock engine), Restart/Recover.v (LoadAofFile filter,
   GetLockCommandExpriedTime, HandleLoad replayed through the engine model on a database in STATE_INIT).

   SUB-LANGUAGE (`sub_hist acts`, Restart/SimWriter.v; executable test `sub_hist_b`, Restart/SimMain.v):
     - actions: client requests, `AAdvance k` with 0 <= k, timeout sweeps, expiry sweeps; no acknowledgements (AAck),
       no role changes (the node is leader throughout); fewer than 2^32 - 2 actions (LockManager.refCount is uint32);
       initial database `init_db t0 aoft`, 0 <= t0, ANY configured persistence delay `aoft`; one database, one shard;
     - LOCK requests: Flag = 0 (no show / update / concurrent-check / value frame), TimeoutFlag = 0 and Timeout = 0 (no
       waiters, no require-ack, no priority), ExpriedFlag without the UNLIMITED / MILLISECOND / MINUTE bits (seconds unit;
       the persistence bits 0x0100 persist-immediately, 0x0200 never-persist, 0x1000 percent delay and all other bits are
       free), 0 < Expried <= 65534, Count = 0 (exclusive), Rcount = 0 (no re-entrancy), no data; LockId / key / RequestId /
       connection arbitrary (LockIds may be reused);
     - UNLOCK requests: Flag = 0 (no unlock-first / cancel-wait / value frame); everything else arbitrary.
   EXCLUDED FEATURES and why: re-locks / updates with other terms and the delay horizon are the known refutations
   C07_refuted_* of Properties/C07.v (the statement here is about holds MARKED persisted, `l_isaof`, so the delay
   horizon does not contradict it); shared holds (Count > 0) and Expried = 65535 are refuted below
   (C07_sim_refuted_shared_count, C07_sim_refuted_expried_65535: model witnesses, both reproduced on the Go code with
   harness/restart); waiters (Timeout > 0), minutes unit, unlock-first, Expried = 0 probes: not refuted, NOT proved.

   NOT proved: the simulation outside this sub-language; absence of panics (the invariant does not track the expiry
   wheels, a use-after-free of a wheel entry would be a panic event of the model, not a wrong census). *)
From Coq Require Import String.
From Slock Require Import Engine.Types Engine.Queues Engine.Timers Engine.Engine Engine.Engine2.
From Slock Require Import Restart.Recover Restart.RestartProofs Restart.SimBase Restart.SimExec Restart.SimInv
  Restart.SimReader Restart.SimLedger Restart.SimWInv Restart.SimWriter Restart.SimMain Restart.SimRefute.
Open Scope Z_scope.

(* ---- the general simulation: engine run -> record stream -> restart at now' >= now s ----
   the census of the restarted database = the holds of the final state s that are marked persisted and whose deadline
   lies after now', same key / LockId / depth / Count / Rcount / value, deadline + 1 (C07_conv_seconds), sorted by
   (key, LockId); nothing else: never-persist holds, not yet persisted holds, released and expired holds are absent *)
Theorem C07_sim :
  forall (t0 : Z) (aoft : N) (acts : list action) (now' : Z),
    0 <= t0 -> sub_hist acts ->
    let '(s, recs, s') := run_and_recover t0 aoft acts now' now' in
    now s <= now' ->
    holds_of s' =
    map (fun h => (h_key h, h_lockid h, h_depth h, h_count h, h_rcount h, h_deadline h + 1, h_value h))
        (filter (fun h => h_isaof h && (now' <? h_deadline h)) (holds_full s)).
Proof. exact sim_pipeline. Qed.
Goal True. idtac "ASSUMPTIONS-OF C07_sim". Abort.
Print Assumptions C07_sim.
Example C07_sim_nonvacuous :
  0 <= 1000 /\ sub_hist sim_example_hist /\
  let '(s, recs, s') := run_and_recover 1000 1 sim_example_hist 1012 1012 in
  now s <= 1012 /\ length recs = 6%nat /\
  holds_of s = [(7%N, 101%N, 1%N, 0%N, 0%N, 1031, None); (8%N, 102%N, 1%N, 0%N, 0%N, 1031, None);
                (9%N, 105%N, 1%N, 0%N, 0%N, 1044, None)] /\
  map h_isaof (holds_full s) = [true; false; true] /\
  holds_of s' = [(7%N, 101%N, 1%N, 0%N, 0%N, 1032, None); (9%N, 105%N, 1%N, 0%N, 0%N, 1045, None)].
Proof. split; [discriminate|]. split; [exact sim_example_sub|]. vm_compute. repeat split; discriminate. Qed.

(* the same with the two clocks of the code: LoadAofFile filters against the wall clock, GetLockCommandExpriedTime
   converts against the DB clock; now s <= dbnow <= wall: exactly the persisted holds still live at the WALL clock *)
Theorem C07_sim_two_clocks :
  forall (t0 : Z) (aoft : N) (acts : list action) (wall dbnow : Z),
    0 <= t0 -> sub_hist acts ->
    let '(s, recs, s') := run_and_recover t0 aoft acts wall dbnow in
    now s <= dbnow -> dbnow <= wall ->
    holds_of s' =
    map (fun h => (h_key h, h_lockid h, h_depth h, h_count h, h_rcount h, h_deadline h + 1, h_value h))
        (filter (fun h => h_isaof h && (wall <? h_deadline h)) (holds_full s)).
Proof. exact sim_pipeline_clocks. Qed.
Goal True. idtac "ASSUMPTIONS-OF C07_sim_two_clocks". Abort.
Print Assumptions C07_sim_two_clocks.
Example C07_sim_two_clocks_nonvacuous :
  0 <= 1000 /\ sub_hist sim_example_hist /\
  let '(s, recs, s') := run_and_recover 1000 1 sim_example_hist 1031 1030 in
  now s <= 1030 /\ 1030 <= 1031 /\
  holds_of s' = [(9%N, 105%N, 1%N, 0%N, 0%N, 1045, None)].
Proof. split; [discriminate|]. split; [exact sim_example_sub|]. vm_compute. repeat split; discriminate. Qed.

(* ---- writer side: invariant of the original run ----
   WS s: shape of the sub-language states + exact manager reference counts; WL s L: ledger L = persisted holds of s;
   wb: the stream is well bracketed (LOCK on a key without entry; UNLOCK closes the entry of its key, same LockId, same
   absolute deadline unless written at / after the deadline) *)
Theorem C07_sim_writer :
  forall (t0 : Z) (aoft : N) (acts : list action),
    0 <= t0 -> sub_hist acts ->
    exists s tr, run (init_db t0 aoft) acts = (s, tr) /\
      WS s /\ WL s (ledger_of (records_of tr)) /\ wb [] (records_of tr) /\
      Forall (fun r => a_ctime r <= now s) (records_of tr).
Proof. exact sim_writer. Qed.
Goal True. idtac "ASSUMPTIONS-OF C07_sim_writer". Abort.
Print Assumptions C07_sim_writer.
Example C07_sim_writer_nonvacuous :
  0 <= 1000 /\ sub_hist sim_example_hist /\
  map (fun r => (a_lock r, a_key r, a_lockid r, a_ctime r, a_etime r))
      (records_of (snd (run (init_db 1000 1) sim_example_hist))) =
  [(true, 7%N, 101%N, 1000, 31%N); (true, 10%N, 104%N, 1000, 6%N); (true, 9%N, 103%N, 1001, 30%N);
   (false, 9%N, 103%N, 1003, 28%N); (true, 9%N, 105%N, 1003, 41%N); (false, 10%N, 104%N, 1006, 0%N)].
Proof. split; [discriminate|]. split; [exact sim_example_sub|]. vm_compute. reflexivity. Qed.

(* ---- record streams: a well-bracketed seconds-unit stream written before T <= dbnow <= wall satisfies the replay
   discipline of the reader side, and LoadAofFile's per-record filter keeps exactly the entries that are still live ---- *)
Theorem C07_sim_stream :
  forall (T wall dbnow : Z) (recs : list aofrec),
    T <= dbnow -> dbnow <= wall -> wb [] recs -> Forall (fun r => a_ctime r <= T) recs ->
    replay_ok wall dbnow [] recs /\
    (forall k, aget (ledger_at wall recs) k = live_of wall (aget (ledger_of recs) k)).
Proof. exact wb_replay_nil. Qed.
Goal True. idtac "ASSUMPTIONS-OF C07_sim_stream". Abort.
Print Assumptions C07_sim_stream.
Example C07_sim_stream_nonvacuous :
  exists recs, length recs = 6%nat /\ wb [] recs /\ Forall (fun r => a_ctime r <= 1007) recs /\
               map fst (ledger_of recs) = [9%N; 7%N] /\ map fst (ledger_at 1012 recs) = [9%N; 7%N].
Proof.
  destruct (sim_writer 1000 1 sim_example_hist ltac:(discriminate) sim_example_sub) as (s & tr & P & _ & _ & Hwb & Hct).
  exists (records_of tr). assert (E : (s, tr) = run (init_db 1000 1) sim_example_hist) by (symmetry; exact P).
  assert (Es : now s = 1007) by (change s with (fst (s, tr)); rewrite E; vm_compute; reflexivity).
  rewrite Es in Hct. split; [|split; [exact Hwb|split; [exact Hct|]]];
    change tr with (snd (s, tr)); rewrite E; vm_compute; repeat split.
Qed.

(* ---- reader side: LoadAofFile + HandleLoad on a fresh database compute the filtered ledger ----
   for EVERY record list with the replay discipline (any unit except milliseconds, any Count / Rcount, two clocks) *)
Theorem C07_sim_reader :
  forall (aoft : N) (recs : list aofrec) (wall dbnow : Z),
    replay_ok wall dbnow [] recs ->
    ssorted tk (holds_of (recover_at aoft recs wall dbnow)) /\
    forall t, In t (holds_of (recover_at aoft recs wall dbnow)) <->
              exists k e, aget (ledger_at wall recs) k = Some e /\ t = entry_tuple dbnow e.
Proof. exact sim_reader. Qed.
Goal True. idtac "ASSUMPTIONS-OF C07_sim_reader". Abort.
Print Assumptions C07_sim_reader.
Example C07_sim_reader_nonvacuous :
  let recs := records_of (snd (run (init_db 1000 1) sim_example_hist)) in
  replay_ok 1012 1012 [] recs /\
  map (entry_tuple 1012) (map snd (ledger_at 1012 recs)) =
    [(9%N, 105%N, 1%N, 0%N, 0%N, 1045, None); (7%N, 101%N, 1%N, 0%N, 0%N, 1032, None)].
Proof. vm_compute. repeat split; discriminate. Qed.

(* ---- the hypotheses Count = 0 and Expried <= 65534 cannot be dropped (model witnesses, replayed on the Go code) ---- *)
Theorem C07_sim_refuted_shared_count :
  exists (t0 : Z) (aoft : N) (acts : list action) (now' : Z),
    0 <= t0 /\ sub_hist (map zero_count acts) /\
    let '(s, recs, s') := run_and_recover t0 aoft acts now' now' in
    now s <= now' /\
    expected_holds s now' = [(7%N, 102%N, 1%N, 1%N, 0%N, 1102, None); (7%N, 103%N, 1%N, 5%N, 0%N, 1102, None);
                             (7%N, 104%N, 1%N, 5%N, 0%N, 1102, None)] /\
    holds_of s' = [(7%N, 102%N, 1%N, 1%N, 0%N, 1102, None); (7%N, 103%N, 1%N, 5%N, 0%N, 1102, None)].
Proof. exact refuted_shared_count. Qed.
Goal True. idtac "ASSUMPTIONS-OF C07_sim_refuted_shared_count". Abort.
Print Assumptions C07_sim_refuted_shared_count.

Theorem C07_sim_refuted_expried_65535 :
  exists (t0 : Z) (aoft : N) (acts : list action) (now' : Z),
    0 <= t0 /\ sub_hist (map short_term acts) /\
    let '(s, recs, s') := run_and_recover t0 aoft acts now' now' in
    now s <= now' /\
    expected_holds s now' = [(7%N, 101%N, 1%N, 0%N, 0%N, 66537, None)] /\
    (exists r, recs = [r] /\ a_lock r = true /\ a_etime r = 0%N) /\
    holds_of s' = [].
Proof. exact refuted_expried_65535. Qed.
Goal True. idtac "ASSUMPTIONS-OF C07_sim_refuted_expried_65535". Abort.
Print Assumptions C07_sim_refuted_expried_65535.
