(* C03 -- exactly one terminal reply per request, to the right client (lock engine, core command subset).
   Model: coq/Engine/{Types,Queues,Timers,Engine,Engine2}.v (sequential granularity: a request, a sweep runs to completion
   including its wake-up pass).  Replies are projected to (connection, RequestId, result) by `rinfos`.
   Core subset (`core_action`): LOCK/UNLOCK without require-ack / millisecond flags and without value frames, clock
   advances, timeout sweeps, expiry sweeps, role changes.  RequestIds are unique over the whole history
   (`unique_reqids`; the property's "connection-unique RequestIds", taken globally for simplicity). *)
From Coq Require Import List NArith ZArith Bool Lia.
From Slock Require Import Engine.Types Engine.Queues Engine.Timers Engine.Engine Engine.Engine2
  Engine.ReplyBase Engine.ReplyLocal Engine.ReplyInv Engine.ReplyThm Engine.ReplyLive Engine.ReplyCmpl Engine.ReplyCmpl2.
Import ListNotations.
Open Scope N_scope.

(* sample history used by the non-vacuity examples: two locks on one key (second queued, then granted by the unlock),
   a third lock refused with TIMEOUT, an unlock, then time passes and both sweeps run (the second hold expires) *)
Definition c03_L (req lockid key timeout expried : N) : cmd := make_cmd true req 0 lockid key 0 timeout 0 expried 0 0 None.
Definition c03_U (req lockid key : N) : cmd := make_cmd false req 0 lockid key 0 0 0 0 0 0 None.
Definition c03_demo : list action :=
  [AReq 1 (c03_L 1 101 7 5 10); AReq 2 (c03_L 2 102 7 5 10); AReq 3 (c03_L 3 103 7 0 10); AReq 1 (c03_U 4 101 7);
   AAdvance 20; ASweepT; ASweepE].

(* T1 (local, no invariant): a request of the core subset is answered at once by exactly one terminal reply addressed to
   the requesting connection under its own RequestId (an unlock that cancels a waiter additionally answers the cancelled
   request, UNLOCK_ERROR, to the waiter's connection) -- or by nothing, and that exactly when it was put in the wait queue. *)
Theorem C03_immediate_reply : forall s conn c s1 ev1 w,
  core_cmd c -> req_step s conn c = (s1, ev1, w) ->
  (exists res, res <> R_EXPRIED
     /\ (rinfos ev1 = [(conn, c_req c, res)]
         \/ (exists r l, c_lock c = false /\ live_waiter s (c_key c) r l /\ c_lockid (l_cmd l) = c_lockid c
                         /\ rinfos ev1 = [(conn, c_req c, res); (l_conn l, c_req (l_cmd l), R_UNLOCK_ERROR)])))
  \/ (c_lock c = true /\ rinfos ev1 = [] /\ w = None /\ queued s s1 conn c).
Proof. exact immediate_reply. Qed.
Goal True. idtac "ASSUMPTIONS-OF C03_immediate_reply". Abort.
Print Assumptions C03_immediate_reply.
Example C03_immediate_reply_nonvacuous :
  core_cmd (c03_L 2 102 7 5 10)
  /\ (let s := fst (run (init_db 1000000 1) [AReq 1 (c03_L 1 101 7 5 10)]) in
      rinfos (snd (fst (req_step s 2 (c03_L 2 102 7 5 10)))) = []
      /\ rinfos (snd (fst (req_step s 3 (c03_L 3 103 7 0 10)))) = [(3, 3, R_TIMEOUT)]).
Proof. split; [repeat split|vm_compute; split; reflexivity]. Qed.

(* ... and the other replies of the same step come from the wake-up pass: one iteration grants the live head waiter
   (SUCCED to the waiter's connection under the waiter's RequestId) or replies nothing *)
Theorem C03_wake_iter_replies : forall s w s' ev res,
  wake_iter s w = (s', ev, res) ->
  rinfos ev = []
  \/ exists s1 r, get_wait_lock s (w_key w) = (s1, Some r) /\ l_timeouted (getl s1 r) = false
       /\ rinfos ev = [(l_conn (getl s1 r), c_req (l_cmd (getl s1 r)), R_SUCCED)].
Proof. exact wake_iter_replies. Qed.
Goal True. idtac "ASSUMPTIONS-OF C03_wake_iter_replies". Abort.
Print Assumptions C03_wake_iter_replies.
Example C03_wake_iter_replies_nonvacuous :
  let s := fst (run (init_db 1000000 1) [AReq 1 (c03_L 1 101 7 5 10); AReq 2 (c03_L 2 102 7 5 10)]) in
  let s1 := fst (fst (unlock_step s 1 (c03_U 4 101 7))) in
  rinfos (snd (fst (wake_iter s1 (mkWake 7 None)))) = [(2, 2, R_SUCCED)].
Proof. vm_compute. reflexivity. Qed.

(* T3: every reply of a run carries a RequestId that some request of the history sent, and is addressed to the connection
   that sent it (the only one, RequestIds being unique) -- also the asynchronous ones (grant, timeout, cancel, EXPRIED)
   and those for a hold whose terms were re-set by another connection's re-lock / update, which installs command and
   connection together.  Applied to a prefix of a history it says the request was issued earlier. *)
Theorem C03_right_client : forall t0 a acts s evs conn q res,
  Forall core_action acts -> unique_reqids acts -> run (init_db t0 a) acts = (s, evs) ->
  In (conn, q, res) (rinfos (concat evs)) ->
  (exists c, In (AReq conn c) acts /\ c_req c = q)
  /\ (forall conn' c', In (AReq conn' c') acts -> c_req c' = q -> conn' = conn).
Proof. exact reply_right_client. Qed.
Goal True. idtac "ASSUMPTIONS-OF C03_right_client". Abort.
Print Assumptions C03_right_client.
Example C03_right_client_nonvacuous :
  Forall core_action c03_demo /\ unique_reqids c03_demo
  /\ rinfos (concat (snd (run (init_db 1000000 1) c03_demo)))
     = [(1, 1, R_SUCCED); (3, 3, R_TIMEOUT); (1, 4, R_SUCCED); (2, 2, R_SUCCED); (2, 2, R_EXPRIED)].
Proof.
  split; [|split].
  - repeat constructor; cbn; lia.
  - unfold unique_reqids. vm_compute. repeat constructor; cbn; intuition discriminate.
  - vm_compute. reflexivity.
Qed.

(* T2: in the reply history of a run every terminal reply (result <> EXPRIED) is the first terminal reply of its
   RequestId, and every EXPRIED notice is the first EXPRIED of its RequestId and comes after a SUCCED (grant / re-lock) or
   LOCKED_ERROR (update) reply for the same RequestId -- the reply that answered the request that last set the hold's
   terms.  (`hist_ok`, Engine/ReplyInv.v) *)
Theorem C03_history_ok : forall t0 a acts s evs,
  Forall core_action acts -> unique_reqids acts -> run (init_db t0 a) acts = (s, evs) ->
  forall H1 i H2, rinfos (concat evs) = H1 ++ i :: H2 ->
    (i_res i <> R_EXPRIED -> forall j, In j H1 -> i_req j = i_req i -> i_res j = R_EXPRIED)
    /\ (i_res i = R_EXPRIED ->
        (forall j, In j H1 -> i_req j = i_req i -> i_res j <> R_EXPRIED)
        /\ exists j, In j H1 /\ i_req j = i_req i /\ (i_res j = R_SUCCED \/ i_res j = R_LOCKED_ERROR)).
Proof. exact reply_history_ok. Qed.
Goal True. idtac "ASSUMPTIONS-OF C03_history_ok". Abort.
Print Assumptions C03_history_ok.
Example C03_history_ok_nonvacuous :
  Forall core_action c03_demo /\ unique_reqids c03_demo
  /\ In (2, 2, R_EXPRIED) (rinfos (concat (snd (run (init_db 1000000 1) c03_demo)))).
Proof.
  split; [|split].
  - repeat constructor; cbn; lia.
  - unfold unique_reqids. vm_compute. repeat constructor; cbn; intuition discriminate.
  - vm_compute. tauto.
Qed.

(* ... hence at most one terminal reply and at most one EXPRIED notice per RequestId *)
Theorem C03_at_most_one : forall t0 a acts s evs q,
  Forall core_action acts -> unique_reqids acts -> run (init_db t0 a) acts = (s, evs) ->
  (length (filter (is_term q) (rinfos (concat evs))) <= 1)%nat
  /\ (length (filter (is_exp q) (rinfos (concat evs))) <= 1)%nat.
Proof. exact reply_at_most_one. Qed.
Goal True. idtac "ASSUMPTIONS-OF C03_at_most_one". Abort.
Print Assumptions C03_at_most_one.
Example C03_at_most_one_nonvacuous :
  let H := rinfos (concat (snd (run (init_db 1000000 1) c03_demo))) in
  length (filter (is_term 2) H) = 1%nat /\ length (filter (is_exp 2) H) = 1%nat /\ length (filter (is_exp 1) H) = 0%nat.
Proof. vm_compute. auto. Qed.

Theorem C03_expried_after_grant : forall t0 a acts s evs H1 conn q H2,
  Forall core_action acts -> unique_reqids acts -> run (init_db t0 a) acts = (s, evs) ->
  rinfos (concat evs) = H1 ++ (conn, q, R_EXPRIED) :: H2 ->
  exists conn' res, In (conn', q, res) H1 /\ (res = R_SUCCED \/ res = R_LOCKED_ERROR).
Proof. exact expried_after_grant. Qed.
Goal True. idtac "ASSUMPTIONS-OF C03_expried_after_grant". Abort.
Print Assumptions C03_expried_after_grant.
Example C03_expried_after_grant_nonvacuous :
  rinfos (concat (snd (run (init_db 1000000 1) c03_demo)))
  = [(1, 1, R_SUCCED); (3, 3, R_TIMEOUT); (1, 4, R_SUCCED); (2, 2, R_SUCCED)] ++ (2, 2, R_EXPRIED) :: [].
Proof. vm_compute. reflexivity. Qed.

(* T4 (completeness).  In every reachable state every request of the history has a terminal reply, or a lock record
   carrying its RequestId and connection is in the store and still awaits its reply (l_timeouted = false, no ack
   pending): nothing is lost.  [The timer theorems (C05) say such a record is answered by the timeout sweep at the latest.] *)
Theorem C03_reply_or_waiting : forall t0 a acts s evs conn c,
  Forall core_action acts -> unique_reqids acts -> run (init_db t0 a) acts = (s, evs) ->
  In (AReq conn c) acts ->
  has_term (c_req c) (rinfos (concat evs))
  \/ exists r l, aget (store s) r = Some l /\ c_req (l_cmd l) = c_req c /\ l_conn l = conn
                 /\ l_timeouted l = false /\ l_ack l = 255.
Proof. exact reply_or_waiting. Qed.
Goal True. idtac "ASSUMPTIONS-OF C03_reply_or_waiting". Abort.
Print Assumptions C03_reply_or_waiting.
Example C03_reply_or_waiting_nonvacuous :
  let acts := [AReq 1 (c03_L 1 101 7 5 10); AReq 2 (c03_L 2 102 7 5 10)] in
  Forall core_action acts /\ unique_reqids acts
  /\ rinfos (concat (snd (run (init_db 1000000 1) acts))) = [(1, 1, R_SUCCED)]
  /\ option_map (fun l => (c_req (l_cmd l), l_conn l, l_timeouted l, l_ack l))
       (aget (store (fst (run (init_db 1000000 1) acts))) 2) = Some (2, 2, false, 255).
Proof.
  split; [|split; [|split]].
  - repeat constructor; cbn; lia.
  - unfold unique_reqids. vm_compute. repeat constructor; cbn; intuition discriminate.
  - vm_compute. reflexivity.
  - vm_compute. reflexivity.
Qed.

(* ... hence at a drained state (decidable: no record of the store awaits a reply) every request of the history has
   exactly one terminal reply *)
Theorem C03_exactly_one_when_drained : forall t0 a acts s evs conn c,
  Forall core_action acts -> unique_reqids acts -> run (init_db t0 a) acts = (s, evs) ->
  drained s = true -> In (AReq conn c) acts ->
  length (filter (is_term (c_req c)) (rinfos (concat evs))) = 1%nat.
Proof. exact reply_exactly_one_when_drained. Qed.
Goal True. idtac "ASSUMPTIONS-OF C03_exactly_one_when_drained". Abort.
Print Assumptions C03_exactly_one_when_drained.
Example C03_exactly_one_when_drained_nonvacuous :
  Forall core_action c03_demo /\ unique_reqids c03_demo
  /\ drained (fst (run (init_db 1000000 1) c03_demo)) = true
  /\ drained (fst (run (init_db 1000000 1) [AReq 1 (c03_L 1 101 7 5 10); AReq 2 (c03_L 2 102 7 5 10)])) = false.
Proof.
  split; [|split; [|split]].
  - repeat constructor; cbn; lia.
  - unfold unique_reqids. vm_compute. repeat constructor; cbn; intuition discriminate.
  - vm_compute. reflexivity.
  - vm_compute. reflexivity.
Qed.
