(* C15, last sentence: the Redis-style text commands answer like a plain key-value store (see coq/Kv/README.md).
   Model: Kv/KvModel.v (converter + engine + result writer of one text command); specification: Kv/KvSpec.v. *)
From Coq Require Import List NArith ZArith String Bool Lia.
From Slock Require Import Kv.KvFlags Base.Util Engine.Types Kv.KvModel Kv.KvSpec Kv.KvInv Kv.KvRefine Kv.KvRefute.
Import ListNotations.
Open Scope N_scope.

(* PARTIAL (the fragment frag_run): every sequence of SET GET DEL SETNX GETSET INCR DECR INCRBY DECRBY APPEND EXISTS
   STRLEN that stays inside the fragment -- every key, value and increment byte string, every md5 function, every start
   time -- is answered by the server model, from the empty database on one connection, like the plain store.
   Missing from the full-strength statement: the cases excluded by frag_cmd (each one refuted below or, for SETNX on an
   existing key, answered correctly only after 16 ticks of the server clock) and the commands with a clock
   (EXPIRE / PERSIST / SETEX: differential check only). *)
Theorem C15_text_refines_store_partial : forall (md5 : bytes -> bytes) (t0 : Z) (cmds : list kvcmd),
  (t0 < MAXT - 5)%Z -> frag_run md5 [] [] cmds = true ->
  Forall2 rmatch (kv_run md5 (kv_init t0) (map encode cmds)) (spec_run md5 [] cmds).
Proof. exact kv_refines_store_partial. Qed.
Goal True. idtac "ASSUMPTIONS-OF C15_text_refines_store_partial". Abort.
Print Assumptions C15_text_refines_store_partial.
Example C15_text_refines_store_partial_nonvacuous :
  (1000 < MAXT - 5)%Z /\
  frag_run (fun _ => []) [] []
    [KSet (K "a") (K "1"); KGet (K "a"); KAppend (K "a") (K "bc"); KStrlen (K "a"); KGetSet (K "a") (K "x"); KIncr (K "n");
     KIncrBy (K "n") (K "41"); KDecrBy (K "n") (K "abc"); KGet (K "n"); KSetNX (K "l") (K "v"); KExists (K "l"); KDel (K "l");
     KSet (K "l") (K "w"); KDel (K "a"); KGet (K "a"); KDecr (K "n")] = true.
Proof. split; [reflexivity|vm_compute; reflexivity]. Qed.

(* the same per command, from every state that satisfies the invariant (the induction step of the theorem above) *)
Theorem C15_text_step_refines : forall (md5 : bytes -> bytes) (c : kvcmd) st sp nx,
  Inv (kv_db st) sp nx -> frag_cmd md5 sp nx c = true ->
  rmatch (snd (kv_step md5 st (encode c))) (snd (spec_step md5 sp c)) /\
  Inv (kv_db (fst (kv_step md5 st (encode c)))) (fst (spec_step md5 sp c)) (nx_step md5 sp nx c).
Proof. exact step_all. Qed.
Goal True. idtac "ASSUMPTIONS-OF C15_text_step_refines". Abort.
Print Assumptions C15_text_step_refines.
Example C15_text_step_refines_nonvacuous : Inv (kv_db (kv_init 1000)) [] [] /\ frag_cmd (fun _ => []) [] [] (KSet (K "a") (K "1")) = true.
Proof. split; [apply inv_init; reflexivity|reflexivity]. Qed.

(* the FULL-STRENGTH statement (all sequences, no fragment) is refuted by the faithful model: one witness per finding *)
Theorem C15_text_like_store_refuted : forall md5, ~ kv_like_store md5 1000.
Proof. intros md5. destruct (Kv_refuted_set_after_setnx_l md5) as (cmds & R & _). exact (refutes_not_like md5 cmds R). Qed.
Goal True. idtac "ASSUMPTIONS-OF C15_text_like_store_refuted". Abort.
Print Assumptions C15_text_like_store_refuted.

Theorem C15_text_refuted_set_after_setnx : forall md5, exists cmds, refutes md5 cmds /\
  kv_run md5 (kv_init 1000) (map encode cmds) = [RInt 1; RNil; RBulk (K "x")].
Proof. exact Kv_refuted_set_after_setnx_l. Qed.
Goal True. idtac "ASSUMPTIONS-OF C15_text_refuted_set_after_setnx". Abort.
Print Assumptions C15_text_refuted_set_after_setnx.

Theorem C15_text_refuted_incr_on_string : forall md5, exists cmds, refutes md5 cmds /\
  kv_run md5 (kv_init 1000) (map encode cmds) = [RStatus (K "OK"); RInt 54; RInt 54].
Proof. exact Kv_refuted_incr_on_string_l. Qed.
Goal True. idtac "ASSUMPTIONS-OF C15_text_refuted_incr_on_string". Abort.
Print Assumptions C15_text_refuted_incr_on_string.

Theorem C15_text_refuted_incr_overflow : forall md5, exists cmds, refutes md5 cmds /\
  kv_run md5 (kv_init 1000) (map encode cmds) = [RInt 9223372036854775807; RInt (-9223372036854775808)].
Proof. exact Kv_refuted_incr_overflow_l. Qed.
Goal True. idtac "ASSUMPTIONS-OF C15_text_refuted_incr_overflow". Abort.
Print Assumptions C15_text_refuted_incr_overflow.

Theorem C15_text_refuted_append_on_counter : forall md5, exists cmds, refutes md5 cmds /\
  kv_run md5 (kv_init 1000) (map encode cmds) = [RInt 1; RInt 10; RInt 1].
Proof. exact Kv_refuted_append_on_counter_l. Qed.
Goal True. idtac "ASSUMPTIONS-OF C15_text_refuted_append_on_counter". Abort.
Print Assumptions C15_text_refuted_append_on_counter.

(* SETNX on an existing key: right answer, after 16 ticks of the server clock (why it is outside the clock-free fragment) *)
Theorem C15_text_setnx_existing_waits : forall md5,
  let '(st1, _) := kv_step md5 (kv_init 1000) [K "SET"; K "a"; K "1"] in
  let '(_, r, n) := kv_step_t md5 st1 [K "SETNX"; K "a"; K "2"] in
  r = RInt 0 /\ n = 16.
Proof. exact Kv_setnx_existing_waits_l. Qed.
Goal True. idtac "ASSUMPTIONS-OF C15_text_setnx_existing_waits". Abort.
Print Assumptions C15_text_setnx_existing_waits.

(* commands with a clock: the runs themselves (no specification in Coq; judged by the Python oracle of the check) *)
Theorem C15_text_refuted_expire_missing : forall md5,
  kv_run md5 (kv_init 1000) [[K "EXPIRE"; K "b"; K "100"]; [K "EXISTS"; K "b"]; [K "GET"; K "b"]; [K "DEL"; K "b"]]
  = [RInt 1; RInt 0; RNil; RInt 1].
Proof. exact Kv_refuted_expire_missing_l. Qed.
Goal True. idtac "ASSUMPTIONS-OF C15_text_refuted_expire_missing". Abort.
Print Assumptions C15_text_refuted_expire_missing.

Theorem C15_text_refuted_persist_arity : forall md5,
  kv_run md5 (kv_init 1000) [[K "SET"; K "a"; K "x"]; [K "EXPIRE"; K "a"; K "100"]; [K "PERSIST"; K "a"]]
  = [RStatus (K "OK"); RInt 1; if kv_persist_fix then RInt 1 else RError (K "ERR Command Parse Args Count Error")].
Proof. exact Kv_refuted_persist_arity_l. Qed.
Goal True. idtac "ASSUMPTIONS-OF C15_text_refuted_persist_arity". Abort.
Print Assumptions C15_text_refuted_persist_arity.

Theorem C15_text_refuted_del_leaves_value : forall md5,
  kv_run md5 (kv_init 1000) [[K "SETEX"; K "k"; K "3"; K "ab"]; [K "DEL"; K "k"]; [K "GET"; K "k"];
                             [K "APPEND"; K "k"; K "cd"]; [K "GET"; K "k"]]
  = [RStatus (K "OK"); RInt 1; RNil; RInt 4; RBulk (K "abcd")].
Proof. exact Kv_refuted_del_leaves_value_l. Qed.
Goal True. idtac "ASSUMPTIONS-OF C15_text_refuted_del_leaves_value". Abort.
Print Assumptions C15_text_refuted_del_leaves_value.

Theorem C15_text_refuted_key_alias : forall md5,
  kv_run md5 (kv_init 1000) [[K "SET"; K "a"; K "1"]; [K "GET"; K "00000000000000000000000000000061"]]
  = [RStatus (K "OK"); RBulk (K "1")].
Proof. exact Kv_refuted_key_alias_l. Qed.
Goal True. idtac "ASSUMPTIONS-OF C15_text_refuted_key_alias". Abort.
Print Assumptions C15_text_refuted_key_alias.
