(* C03 outside the core subset (require-ack flag, acknowledgement layer Engine/Ack.v): the "at most one terminal reply"
   clause is false of the model -- and of the code (server/db.go re-entrant branch of Lock + DoAckLock). *)
From Coq Require Import List NArith ZArith Bool.
From Slock Require Import Engine.Types Engine.Engine Engine.Engine2 Engine.Ack
  Engine.ReplyLocal Engine.ReplyInv Engine.ReplyAckRefute.
Import ListNotations.
Open Scope N_scope.

Theorem C03_refuted_reentrant_ack :
  exists acts : list aaction,
    let H := rinfos (concat (snd (arun (init_astate 1000000 1 1) acts))) in
    H = [(1, 1, R_SUCCED); (1, 2, R_SUCCED); (1, 2, R_LOCKED_ERROR)]
    /\ length (filter (is_term 2) H) = 2%nat.
Proof. exists refute_history. exact reentrant_ack_two_replies. Qed.
Goal True. idtac "ASSUMPTIONS-OF C03_refuted_reentrant_ack". Abort.
Print Assumptions C03_refuted_reentrant_ack.
