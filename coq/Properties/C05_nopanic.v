(* C05 (b) without the "no panic" hypothesis.  The upper-bound theorems of Properties/C05.v assume that the timeout sweep
   does not hit a freed lock record (`~ has_panic (snd (sweep_timeouts s))`, `no_sweep_panic`, the second half of
   `sweep_ok`).  The heap invariant Inv of Engine/Inv*.v (property C17: every reference held by a wheel, a long table,
   a holder list or a wait queue points at a stored record) excludes that: in every state satisfying Inv the timeout
   sweep, the expiry sweep, and in fact every action of the core subset, emits no `EPanic` value of any kind (no
   "uaf:doTimeOut" / "uaf:doExpried", no wake-up pass out of fuel, no unmodelled millisecond branch, no value-layer
   crash).  The two developments define the core subset separately (InvDef.core_action : bool, TimeBase.core_action :
   Prop); they are proved equivalent.  Proofs: Engine/RunNoPanic.v, Engine/RunNoPanicRun.v. *)
From Coq Require Import List NArith ZArith Bool Lia String.
From Slock Require Import Engine.Types Engine.Queues Engine.Timers Engine.Engine Engine.Engine2.
From Slock Require Engine.InvDef Engine.InvProps.
From Slock Require Import Engine.TimeBase Engine.TimeInv Engine.TimeRun Engine.TimeWhere Engine.TimeThm Engine.TimeFinal
  Engine.TimeRegular Engine.TimeEvents.
From Slock Require Import Engine.RunNoPanic Engine.RunNoPanicRun.
Import ListNotations.
Open Scope N_scope.

(* request 2 (Timeout = 3 s) waits behind request 1 and is answered TIMEOUT by the sweep of second t0 + 4 *)
Definition c05np_demo : list action :=
  [AReq 1 (make_cmd true 1 0 101 7 0 5 0 10 0 0 None); AReq 2 (make_cmd true 2 0 102 7 0 3 0 10 0 0 None);
   AAdvance 1; ASweepT; ASweepE; AAdvance 1; ASweepT; ASweepE; AAdvance 1; ASweepT; ASweepE; AAdvance 1; ASweepT; ASweepE].

(* the two core subsets coincide *)
Theorem C05_core_subsets_agree : forall a, InvDef.core_action a = true <-> TimeBase.core_action a.
Proof. exact core_action_iff. Qed.
Goal True. idtac "ASSUMPTIONS-OF C05_core_subsets_agree". Abort.
Print Assumptions C05_core_subsets_agree.
Example C05_core_subsets_agree_nonvacuous :
  InvDef.core_action (AReq 1 (make_cmd true 1 0 101 7 0 5 0 10 0 0 None)) = true
  /\ InvDef.core_action (AReq 1 (make_cmd true 1 0 101 7 4096 5 0 10 0 0 None)) = false.
Proof. split; reflexivity. Qed.

(* the hypothesis itself: a state satisfying the heap invariant *)
Theorem C05_sweep_timeouts_no_panic : forall s, InvDef.Inv s -> ~ has_panic (snd (sweep_timeouts s)).
Proof. exact sweep_timeouts_no_panic. Qed.
Goal True. idtac "ASSUMPTIONS-OF C05_sweep_timeouts_no_panic". Abort.
Print Assumptions C05_sweep_timeouts_no_panic.
Example C05_sweep_timeouts_no_panic_nonvacuous :
  InvDef.core (firstn 12 c05np_demo)
  /\ exists e, In e (snd (sweep_timeouts (fst (run (init_db 1000000 1) (firstn 12 c05np_demo))))).
Proof. split; [split; [repeat constructor|vm_compute; reflexivity]|eexists; vm_compute; left; reflexivity]. Qed.

Theorem C05_sweep_expiries_no_panic : forall s, InvDef.Inv s -> ~ has_panic (snd (sweep_expiries s)).
Proof. exact sweep_expiries_no_panic. Qed.
Goal True. idtac "ASSUMPTIONS-OF C05_sweep_expiries_no_panic". Abort.
Print Assumptions C05_sweep_expiries_no_panic.
Example C05_sweep_expiries_no_panic_nonvacuous :
  exists e, In e (snd (sweep_expiries (fst (run (init_db 1000000 1)
              [AReq 1 (make_cmd true 1 0 101 7 0 5 0 2 0 0 None); AAdvance 3])))).
Proof. eexists; vm_compute; left; reflexivity. Qed.

(* every action of the core subset, in every state satisfying the invariant *)
Theorem C05_core_step_no_panic : forall s a,
  InvDef.Inv s -> TimeBase.core_action a -> next s < InvDef.MAXREC -> ~ has_panic (snd (step s a)).
Proof. exact core_step_no_panic. Qed.
Goal True. idtac "ASSUMPTIONS-OF C05_core_step_no_panic". Abort.
Print Assumptions C05_core_step_no_panic.
Example C05_core_step_no_panic_nonvacuous :
  InvDef.Inv (init_db 1000000 1) /\ next (init_db 1000000 1) < InvDef.MAXREC
  /\ snd (step (init_db 1000000 1) (AReq 1 (make_cmd true 1 0 101 7 0 5 0 10 0 0 None))) <> [].
Proof. split; [apply InvMain.inv_init|split; [reflexivity|vm_compute; discriminate]]. Qed.

(* all sweeps of a core run from the initial state *)
Theorem C05_no_sweep_panic_in_core_runs : forall t0 aoft acts,
  InvDef.core acts -> Forall no_sweep_panic (run_states (init_db t0 aoft) acts).
Proof. exact no_sweep_panic_core. Qed.
Goal True. idtac "ASSUMPTIONS-OF C05_no_sweep_panic_in_core_runs". Abort.
Print Assumptions C05_no_sweep_panic_in_core_runs.
Example C05_no_sweep_panic_in_core_runs_nonvacuous :
  InvDef.core c05np_demo /\ In ASweepT c05np_demo.
Proof. split; [split; [repeat constructor|vm_compute; reflexivity]|cbn; auto]. Qed.

(* (b) one sweep, panic hypothesis replaced by the invariant *)
Theorem C05_b_sweep_no_loss_inv : forall s,
  InvDef.Inv s -> TA s -> TW [] (checkT s) s -> (now s < checkT s + 7)%Z ->
  TW [] (now s + 1) (fst (sweep_timeouts s))
  /\ forall r l, tlive (fst (sweep_timeouts s)) r l -> (now s < l_tT l)%Z.
Proof. exact sweep_timeouts_no_loss_inv. Qed.
Goal True. idtac "ASSUMPTIONS-OF C05_b_sweep_no_loss_inv". Abort.
Print Assumptions C05_b_sweep_no_loss_inv.
Example C05_b_sweep_no_loss_inv_nonvacuous :
  InvDef.Inv (init_db 1000000 1) /\ TA (init_db 1000000 1) /\ TW [] (checkT (init_db 1000000 1)) (init_db 1000000 1)
  /\ (now (init_db 1000000 1) < checkT (init_db 1000000 1) + 7)%Z.
Proof. split; [apply InvMain.inv_init|split; [apply TA_init; lia|split; [apply TW_init|cbn; lia]]]. Qed.

Theorem C05_b_overdue_answered_inv : forall s r l,
  InvDef.Inv s -> TA s -> TW [] (checkT s) s -> (now s < checkT s + 7)%Z ->
  tlive s r l -> (l_tT l <= now s)%Z -> tdead (fst (sweep_timeouts s)) r.
Proof. exact sweep_answers_overdue_inv. Qed.
Goal True. idtac "ASSUMPTIONS-OF C05_b_overdue_answered_inv". Abort.
Print Assumptions C05_b_overdue_answered_inv.
(* the waiter (record 2, deadline t0 + 4) is live and overdue when the sweep of second t0 + 4 starts *)
Example C05_b_overdue_answered_inv_nonvacuous :
  let s := fst (run (init_db 1000000 1) (firstn 12 c05np_demo)) in
  aget (store s) 2 <> None /\ l_timeouted (getl s 2) = false /\ (l_tT (getl s 2%N) <= now s)%Z.
Proof. cbv zeta. split; [vm_compute; discriminate|split; [vm_compute; reflexivity|vm_compute; discriminate]]. Qed.

(* (b) runs: core runs from the initial state whose timeout sweeps lag by fewer than 7 seconds; no panic hypothesis *)
Theorem C05_b_no_loss_core : forall t0 aoft acts,
  (0 <= t0)%Z -> InvDef.core acts -> Forall sweep_lag_ok (run_states (init_db t0 aoft) acts) ->
  forall s, In (s, ASweepT) (run_states (init_db t0 aoft) acts) ->
  forall r l, tlive (fst (sweep_timeouts s)) r l ->
  (now s < timeout_deadline (l_cmd l) (l_start l))%Z.
Proof. exact timeout_no_loss_core. Qed.
Goal True. idtac "ASSUMPTIONS-OF C05_b_no_loss_core". Abort.
Print Assumptions C05_b_no_loss_core.
Example C05_b_no_loss_core_nonvacuous :
  InvDef.core c05np_demo /\ Forall sweep_lag_ok (run_states (init_db 1000000 1) c05np_demo).
Proof.
  split; [split; [repeat constructor|vm_compute; reflexivity]|].
  match goal with |- Forall _ ?x => let y := eval vm_compute in x in replace x with y by (vm_compute; reflexivity) end.
  repeat (apply Forall_cons; [|]); try apply Forall_nil; unfold sweep_lag_ok; cbn [snd fst]; try exact I.
  all: vm_compute; reflexivity.
Qed.

(* (b) regular schedules: only the schedule and the run length are assumed *)
Theorem C05_b_regular_no_loss_core : forall t0 aoft acts,
  (0 <= t0)%Z -> regular true acts -> N.of_nat (length acts) + 1 < InvDef.MAXREC ->
  Forall sweep_ok (run_states (init_db t0 aoft) acts)
  /\ forall s, In (s, ASweepT) (run_states (init_db t0 aoft) acts) ->
       (forall r l, tlive s r l -> (now s <= l_tT l)%Z)
       /\ (forall r l, tlive s r l -> l_tT l = now s -> tdead (fst (sweep_timeouts s)) r)
       /\ (forall r l, tlive (fst (sweep_timeouts s)) r l -> (now s < timeout_deadline (l_cmd l) (l_start l))%Z).
Proof. exact regular_no_loss_core. Qed.
Goal True. idtac "ASSUMPTIONS-OF C05_b_regular_no_loss_core". Abort.
Print Assumptions C05_b_regular_no_loss_core.
Example C05_b_regular_no_loss_core_nonvacuous :
  regular true c05np_demo /\ N.of_nat (length c05np_demo) + 1 < InvDef.MAXREC.
Proof. split; [cbn; repeat split|vm_compute; reflexivity]. Qed.

(* (a)+(b) regular schedules: the TIMEOUT reply of a sweep is emitted at server time exactly queue time + T*unit + 1 *)
Theorem C05_ab_regular_exact_core : forall t0 aoft acts,
  (0 <= t0)%Z -> regular true acts -> N.of_nat (length acts) + 1 < InvDef.MAXREC ->
  forall s, In (s, ASweepT) (run_states (init_db t0 aoft) acts) ->
  forall e, In e (snd (step s ASweepT)) -> is_tr e = true ->
  exists sq conn c lockid lc lrc d,
    In (sq, AReq conn c) (run_states (init_db t0 aoft) acts) /\ c_lock c = true
    /\ e = reply conn (c <| c_lockid := lockid |>) R_TIMEOUT lc lrc d
    /\ now s = (now sq + Z.of_N (c_timeout c) * tunit c + 1)%Z.
Proof. exact regular_timeout_exact_core. Qed.
Goal True. idtac "ASSUMPTIONS-OF C05_ab_regular_exact_core". Abort.
Print Assumptions C05_ab_regular_exact_core.
Example C05_ab_regular_exact_core_nonvacuous :
  exists s e, In (s, ASweepT) (run_states (init_db 1000000 1) c05np_demo) /\ In e (snd (step s ASweepT)) /\ is_tr e = true
              /\ now s = 1000004%Z.
Proof.
  eexists _, _. split; [|split; [|split]].
  - cbn [c05np_demo run_states]. do 12 right. left. reflexivity.
  - vm_compute. left. reflexivity.
  - reflexivity.
  - vm_compute. reflexivity.
Qed.
