(* C06 — holds expire in [E, E+2 s], notify the holder and free capacity.
   Model: coq/Engine/{Types,Queues,Timers,Engine,Engine2}.v; proofs: coq/Engine/TimeLocal.v, TimeExp.v.
   Proved here: (c) what doExpried does on a leader, (d) the CheckLockedEqual exception, and for (a)/(b) the local
   facts: the deadline formulas at every place where the terms of a hold are set, the short-wheel scan of
   checkTimeExpried (never early for every entry taken from the 16-slot wheel, never for the unlimited flag), the
   re-check spacing of AddExpried and the constant of the "update shortened the deadline" bound.
   NOT proved (partial): the run-level form of (a)/(b) for entries taken from the long expiry table; it needs the
   integrity of that table (a live hold is stored there exactly once, under its current deadline, with
   longWaitIndex set), which the timeout side did not need because a waiter's deadline never changes. *)
From Coq Require Import List NArith ZArith Bool Lia String.
From Slock Require Import Engine.Types Engine.Queues Engine.Timers Engine.Engine Engine.Engine2.
From Slock Require Import Engine.TimeBase Engine.TimeWheel Engine.TimeLocal Engine.TimeExp.
Import ListNotations.
Open Scope N_scope.

(* (a) the terms of a hold.  Grant (AddLock; the un-renew flag keeps the terms computed when the request arrived):
   start = now, deadline = now + Expried*unit + 1, or 2^63-1 with the unlimited flag *)
Theorem C06_a_terms_at_grant : forall s k r l,
  aget (store s) r = Some l -> has (c_tflag (l_cmd l)) TF_UNRENEW = false ->
  exists l', aget (store (add_lock s k r)) r = Some l' /\ l_cmd l' = l_cmd l /\ l_start l' = now s
             /\ l_eT l' = expiry_deadline (l_cmd l) (now s) /\ l_locked l' = 1 /\ l_conn l' = l_conn l.
Proof. exact add_lock_terms. Qed.
Goal True. idtac "ASSUMPTIONS-OF C06_a_terms_at_grant". Abort.
Print Assumptions C06_a_terms_at_grant.

Theorem C06_a_deadline_formula : forall c t,
  has (c_eflag c) EF_MILLISECOND = false ->
  expiry_deadline c t = if has (c_eflag c) EF_UNLIMITED then MAXT else (t + Z.of_N (c_expried c) * eunit' c + 1)%Z.
Proof. exact expiry_deadline_eq. Qed.
Goal True. idtac "ASSUMPTIONS-OF C06_a_deadline_formula". Abort.
Print Assumptions C06_a_deadline_formula.

(* update / re-entrant re-lock (UpdateLockedLock): the period restarts now with the new terms -- except for the
   request "unlimited flag with Expried = 0xffff", which replaces the command and keeps the running deadline *)
Theorem C06_a_terms_at_update : forall s k r c l,
  aget (store s) r = Some l ->
  exists l', aget (store (update_locked_lock s k r c)) r = Some l' /\ l_cmd l' = c
    /\ l_expried l' = l_expried l /\ l_locked l' = l_locked l
    /\ (if negb (has (c_eflag c) EF_UNLIMITED) || (c_expried c <? 65535)
        then l_start l' = now s /\ l_eT l' = expiry_deadline c (now s)
        else l_start l' = l_start l /\ l_eT l' = l_eT l).
Proof. exact update_locked_lock_terms. Qed.
Goal True. idtac "ASSUMPTIONS-OF C06_a_terms_at_update". Abort.
Print Assumptions C06_a_terms_at_update.

(* (a) NEVER EARLY for the wheel: whatever the state, every record the scan of a wheel slot hands to doExpried is,
   if it is a live hold, one with deadline <= now (any fuel, any slot, any lag) *)
Theorem C06_a_wheel_scan_never_early_partial : forall nowv slot fuel s due ev,
  EDue nowv due s ->
  let '(s', due', _) := sweep_e_slot fuel s slot nowv due ev in EDue nowv due' s'.
Proof. exact sweep_e_slot_due. Qed.
Goal True. idtac "ASSUMPTIONS-OF C06_a_wheel_scan_never_early_partial". Abort.
Print Assumptions C06_a_wheel_scan_never_early_partial.
Example C06_a_wheel_scan_nonvacuous : EDue 5 [] (init_db 0 1).
Proof. intros r l []. Qed.

(* ... hence never for the unlimited flag while server time is below 2^63-1 *)
Theorem C06_a_unlimited_never_due_partial : forall nowv due s r l,
  EDue nowv due s -> In r due -> elive s r l -> l_eT l = MAXT -> (nowv < MAXT)%Z -> False.
Proof. exact unlimited_not_due. Qed.
Goal True. idtac "ASSUMPTIONS-OF C06_a_unlimited_never_due_partial". Abort.
Print Assumptions C06_a_unlimited_never_due_partial.

(* (b) re-check spacing of AddExpried: a wheel entry is placed at a second d with checkE <= d <= checkE + 8 and
   d <= max(deadline, checkE) ... *)
Theorem C06_b_recheck_spacing_partial : forall chk l,
  (QUEUE_MAX_WAIT <? l_ecc l) = false ->
  (chk <= eslot_time chk l <= chk + 8)%Z /\ (eslot_time chk l <= Z.max (l_eT l) chk)%Z.
Proof. exact eslot_time_range. Qed.
Goal True. idtac "ASSUMPTIONS-OF C06_b_recheck_spacing_partial". Abort.
Print Assumptions C06_b_recheck_spacing_partial.
Example C06_b_recheck_spacing_nonvacuous : (QUEUE_MAX_WAIT <? l_ecc dummy_lock) = false.
Proof. reflexivity. Qed.

(* ... so an entry added at server time ta (checkE <= ta + 1) and not moved by an update at t1 >= ta that sets the
   deadline to eT' = t1 + E*unit + 1 is examined at a second d <= eT' + 8: the model's constant is 8 (the design note
   expected 9, the property allows 10) *)
Theorem C06_b_update_constant_partial : forall chk ta t1 eu d eT',
  (chk <= ta + 1)%Z -> (ta <= t1)%Z -> (0 <= eu)%Z -> (d <= chk + 8)%Z -> eT' = (t1 + eu + 1)%Z -> (d <= eT' + 8)%Z.
Proof. exact update_recheck_bound. Qed.
Goal True. idtac "ASSUMPTIONS-OF C06_b_update_constant_partial". Abort.
Print Assumptions C06_b_update_constant_partial.

(* (c) when a hold is ended by doExpried on a leader: ERelease for its full depth, then AOF records only, then an
   EXPRIED reply to the record's connection carrying the current command (its request id); the manager's locked
   count drops by exactly the depth (or the manager is removed because nothing refers to it any more), other keys
   are untouched, the reply carries the new count, and a wake-up pass for the key is pending *)
Theorem C06_c_expiry_effect : forall s r l m,
  aget (store s) r = Some l -> l_expried l = false -> leader s = true -> aget (mgrs s) (l_key l) = Some m ->
  exists s' aev lc lrc d,
    do_expried s r = (s', [ERelease (l_key l) r (l_locked l)] ++ aev ++ [reply (l_conn l) (l_cmd l) R_EXPRIED lc lrc d],
                      Some (mkWake (l_key l) None))
    /\ Forall is_aof aev
    /\ (mlocked s' (l_key l) = sub32 (mlocked s (l_key l)) (l_locked l) \/ aget (mgrs s') (l_key l) = None)
    /\ (forall k', k' <> l_key l -> mlocked s' k' = mlocked s k')
    /\ lc = mlocked s' (l_key l).
Proof. exact do_expried_leader. Qed.
Goal True. idtac "ASSUMPTIONS-OF C06_c_expiry_effect". Abort.
Print Assumptions C06_c_expiry_effect.
Example C06_c_expiry_effect_nonvacuous :
  let s := fst (step (init_db 1000000 1) (AReq 1 (make_cmd true 1 0 101 7 0 5 0 10 0 0 None))) in
  exists l m, aget (store s) 1 = Some l /\ l_expried l = false /\ leader s = true /\ aget (mgrs s) (l_key l) = Some m.
Proof. vm_compute. eexists _, _. repeat split. Qed.

(* (d) CheckLockedEqual, transcribed: equal counts, and the new deadline within one unit of the current one
   (unlimited: the keep-terms request, or an already unlimited hold) *)
Theorem C06_d_check_locked_equal : forall s l c,
  check_locked_equal s l c = true <->
  count_equal l c = true /\
  (if has (c_eflag c) EF_UNLIMITED then c_expried c = 65535 \/ l_eT l = MAXT
   else if has (c_eflag c) EF_MILLISECOND then True
   else (Z.abs (expiry_deadline c (now s) - l_eT l) <= eunit c)%Z).
Proof. exact check_locked_equal_spec. Qed.
Goal True. idtac "ASSUMPTIONS-OF C06_d_check_locked_equal". Abort.
Print Assumptions C06_d_check_locked_equal.

Theorem C06_d_within_one_unit : forall s l c,
  has (c_eflag c) EF_UNLIMITED = false -> has (c_eflag c) EF_MILLISECOND = false ->
  check_locked_equal s l c = true ->
  (Z.abs ((now s + Z.of_N (c_expried c) * eunit c + 1) - l_eT l) <= eunit c)%Z
  /\ c_count c = c_count (l_cmd l) /\ c_rcount c = c_rcount (l_cmd l)
  /\ has (c_tflag c) TF_PRIORITY = has (c_tflag (l_cmd l)) TF_PRIORITY.
Proof. exact check_locked_equal_within_unit. Qed.
Goal True. idtac "ASSUMPTIONS-OF C06_d_within_one_unit". Abort.
Print Assumptions C06_d_within_one_unit.

(* and then the update is ignored: LOCKED_ERROR, nothing changes *)
Theorem C06_d_equal_update_ignored : forall s conn c m r,
  has (c_flag c) LOCK_FLAG_CONCURRENT_CHECK && (c_timeout c =? 0) = false ->
  aget (mgrs s) (c_key c) = Some m -> leader s = true -> (0 <? m_locked m) = true ->
  has (c_flag c) LOCK_FLAG_SHOW = false -> get_locked_lock s m (c_lockid c) = Some r ->
  l_ack (getl s r) = 255 -> has (c_flag c) LOCK_FLAG_UPDATE = true -> has_data_flag c = false ->
  check_locked_equal s (getl s r) c = true ->
  lock_step s conn c
  = (s, [reply conn c R_LOCKED_ERROR (m_locked m) (l_locked (getl s r)) (data_of s (c_key c))], None).
Proof. exact lock_update_equal_ignored. Qed.
Goal True. idtac "ASSUMPTIONS-OF C06_d_equal_update_ignored". Abort.
Print Assumptions C06_d_equal_update_ignored.
Example C06_d_equal_update_ignored_nonvacuous :
  let s := fst (step (init_db 1000000 1) (AReq 1 (make_cmd true 1 0 101 7 0 5 0 10 0 0 None))) in
  let c := make_cmd true 2 2 101 7 0 5 0 11 0 0 None in
  exists m r, aget (mgrs s) (c_key c) = Some m /\ (0 <? m_locked m) = true /\ get_locked_lock s m (c_lockid c) = Some r
              /\ l_ack (getl s r) = 255 /\ check_locked_equal s (getl s r) c = true.
Proof.
  cbv zeta. set (s := fst (step _ _)). exists (getm s 7), 1. repeat split; vm_compute; reflexivity.
Qed.
