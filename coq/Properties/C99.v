From Slock Require Import Base.Util.
Theorem C99_demo : forall (m : amap N) k v, aget (aset m k v) k = Some v.
Proof. exact (@aget_aset_same N). Qed.
Goal True. idtac "ASSUMPTIONS-OF C99_demo". Abort.
Print Assumptions C99_demo.
