(* C02, depth arithmetic of re-entrant holds.  For a hold r that the lookup finds under the request's LockId:
     (i)   UnLock with Rcount > 0 and no priority flag at depth d > 1 takes off exactly one level;
     (ii)  at depth 1, or with Rcount = 0 or the priority flag, the hold ends (release event with the full depth);
     (iii) Lock by the holder adds exactly one level iff depth < 255, depth <= Rcount, no priority flag, Expried <> 0;
           with Expried = 0 it answers SUCCED and changes nothing; otherwise LOCKED_ERROR and nothing changes;
     (iv)  a request whose LockId holds nothing never changes the depth of a hold of any key (exceptions: the record
           Lock allocates, the current lock under UNLOCK_FLAG_FIRST).
   Each statement comes in a local form (every state, explicit side conditions) and for the states reached by runs of
   the core subset (side conditions discharged by the reachability invariant). *)
From Coq Require Import List NArith ZArith String Bool Lia.
From Slock Require Import Engine.Types Engine.Queues Engine.Timers Engine.Engine Engine.Engine2 Engine.LocalBase
  Engine.InvDef Engine.InvMain Engine.InvProps Engine.RunDepth2 Engine.RunDepth3 Engine.RunDepth4 Engine.RunDepth6.
Import ListNotations.
Open Scope N_scope.

(* ================================================================== (i) one level *)
Theorem C02_unlock_one_level : forall s conn c m r l s' ev w,
  unlock_step s conn c = (s', ev, w) ->
  aget (mgrs s) (c_key c) = Some m ->
  negb (leader s) && negb (has (c_flag c) UNLOCK_FLAG_FROM_AOF) = false ->
  get_locked_lock s m (c_lockid c) = Some r ->
  aget (store s) r = Some l -> l_ack l = 255 ->
  1 < l_locked l -> l_locked l <= 255 -> l_locked l <= m_locked m -> m_locked m < 4294967296 ->
  0 < c_rcount c -> has (c_tflag c) TF_PRIORITY = false -> c_data c = None ->
  (exists l', aget (store s') r = Some l' /\ l_locked l' = l_locked l - 1 /\ l_key l' = l_key l
              /\ l_cmd l' = l_cmd l /\ l_ack l' = 255)
  /\ (forall r', r' <> r -> aget (store s') r' = aget (store s) r')
  /\ (exists m', aget (mgrs s') (c_key c) = Some m' /\ m_locked m' = m_locked m - 1
                 /\ m_cur m' = m_cur m /\ m_locks m' = m_locks m /\ m_wait m' = m_wait m /\ m_waited m' = m_waited m
                 /\ (forall id, get_locked_lock s' m' id = get_locked_lock s m id))
  /\ (forall k', k' <> c_key c -> aget (mgrs s') k' = aget (mgrs s) k')
  /\ (exists aev, Forall (fun e => match e with EAof _ => True | _ => False end) aev
        /\ ev = [ERelease (c_key c) r 1] ++ aev
                ++ [EReply conn (c_req c) R_SUCCED (u16 (m_locked m - 1)) (l_locked l - 1) (c_lockid c) (c_count c)
                           (c_rcount c) (data_of s (c_key c))])
  /\ w = Some (mkWake (c_key c) (Some conn)).
Proof. exact unlock_one_level. Qed.
Goal True. idtac "ASSUMPTIONS-OF C02_unlock_one_level". Abort.
Print Assumptions C02_unlock_one_level.
(* LockId 7 (depth 3) unlocks with Rcount 1: depth 2, locked 4 -> 3 *)
Example C02_unlock_one_level_nonvacuous :
  exists m l s' w,
    unlock_step exd_state 1 (mkCmd false 9 0 7 5 0 0 0 0 0 1 None)
      = (s', [ERelease 5 1 1; EReply 1 9 R_SUCCED 3 2 7 0 1 None], w)
    /\ aget (mgrs exd_state) 5 = Some m /\ get_locked_lock exd_state m 7 = Some 1
    /\ aget (store exd_state) 1 = Some l /\ l_ack l = 255 /\ l_locked l = 3 /\ m_locked m = 4.
Proof. do 4 eexists. vm_compute. repeat split; reflexivity. Qed.

Theorem C02_unlock_one_level_reachable : forall t0 a acts, core acts ->
  let s := fst (run (init_db t0 a) acts) in
  forall conn c m r l s' ev w,
  unlock_step s conn c = (s', ev, w) ->
  aget (mgrs s) (c_key c) = Some m ->
  negb (leader s) && negb (has (c_flag c) UNLOCK_FLAG_FROM_AOF) = false ->
  get_locked_lock s m (c_lockid c) = Some r -> aget (store s) r = Some l ->
  1 < l_locked l -> 0 < c_rcount c -> has (c_tflag c) TF_PRIORITY = false -> c_data c = None ->
  Inv s'
  /\ (exists l', aget (store s') r = Some l' /\ l_locked l' = l_locked l - 1 /\ l_key l' = c_key c
                 /\ l_cmd l' = l_cmd l /\ c_lockid (l_cmd l') = c_lockid c /\ l_ack l' = 255)
  /\ (forall r', r' <> r -> aget (store s') r' = aget (store s) r')
  /\ (exists m', aget (mgrs s') (c_key c) = Some m' /\ m_locked m' = m_locked m - 1 /\ 1 <= m_locked m
                 /\ holders m' = holders m /\ In r (holders m') /\ m_wq m' = m_wq m
                 /\ get_locked_lock s' m' (c_lockid c) = Some r)
  /\ (forall k', k' <> c_key c -> aget (mgrs s') k' = aget (mgrs s) k')
  /\ (exists aev, Forall (fun e => match e with EAof _ => True | _ => False end) aev
        /\ ev = [ERelease (c_key c) r 1] ++ aev
                ++ [EReply conn (c_req c) R_SUCCED (u16 (m_locked m - 1)) (l_locked l - 1) (c_lockid c) (c_count c)
                           (c_rcount c) (data_of s (c_key c))])
  /\ w = Some (mkWake (c_key c) (Some conn)).
Proof. exact reach_unlock_one_level. Qed.
Goal True. idtac "ASSUMPTIONS-OF C02_unlock_one_level_reachable". Abort.
Print Assumptions C02_unlock_one_level_reachable.
Example C02_unlock_one_level_reachable_nonvacuous :
  core exd_hist
  /\ exists m l, aget (mgrs (fst (run (init_db 0 255) exd_hist))) 5 = Some m
       /\ get_locked_lock (fst (run (init_db 0 255) exd_hist)) m 7 = Some 1
       /\ aget (store (fst (run (init_db 0 255) exd_hist))) 1 = Some l /\ l_locked l = 3
       /\ leader (fst (run (init_db 0 255) exd_hist)) = true.
Proof. split; [exact exd_core|do 2 eexists; vm_compute; repeat split; reflexivity]. Qed.

(* ================================================================== (ii) the hold ends *)
Theorem C02_unlock_full_release : forall s conn c m r l s' ev w,
  unlock_step s conn c = (s', ev, w) ->
  aget (mgrs s) (c_key c) = Some m ->
  negb (leader s) && negb (has (c_flag c) UNLOCK_FLAG_FROM_AOF) = false ->
  get_locked_lock s m (c_lockid c) = Some r ->
  aget (store s) r = Some l -> l_ack l = 255 ->
  0 < l_locked l -> (l_locked l = 1 \/ c_rcount c = 0 \/ has (c_tflag c) TF_PRIORITY = true) ->
  l_locked l <= m_locked m -> m_locked m < 4294967296 -> c_data c = None ->
  (forall l', aget (store s') r = Some l' -> l_locked l' = 0)
  /\ (forall r' l', r' <> r -> aget (store s') r' = Some l' ->
        exists l0, aget (store s) r' = Some l0 /\ l_locked l' = l_locked l0 /\ l_key l' = l_key l0
                   /\ l_cmd l' = l_cmd l0 /\ l_ack l' = l_ack l0)
  /\ (forall m', aget (mgrs s') (c_key c) = Some m' -> m_locked m' = m_locked m - l_locked l)
  /\ (forall k' m', k' <> c_key c -> aget (mgrs s') k' = Some m' ->
        exists m0, aget (mgrs s) k' = Some m0 /\ m_locked m' = m_locked m0)
  /\ (exists aev, Forall (fun e => match e with EAof _ => True | _ => False end) aev
        /\ ev = [ERelease (c_key c) r (l_locked l)] ++ aev
                ++ [EReply conn (c_req c) R_SUCCED (u16 (m_locked (getm s' (c_key c)))) 0 (c_lockid c) (c_count c)
                           (c_rcount c) (data_of s (c_key c))])
  /\ w = Some (mkWake (c_key c) (Some conn)).
Proof. exact unlock_full_release. Qed.
Goal True. idtac "ASSUMPTIONS-OF C02_unlock_full_release". Abort.
Print Assumptions C02_unlock_full_release.
(* LockId 7 (depth 3) unlocks with Rcount 0: all three levels end, locked 4 -> 1, record 2 becomes the current lock *)
Example C02_unlock_full_release_nonvacuous :
  exists m l s' w,
    unlock_step exd_state 1 (mkCmd false 9 0 7 5 0 0 0 0 0 0 None)
      = (s', [ERelease 5 1 3; EReply 1 9 R_SUCCED 1 0 7 0 0 None], w)
    /\ aget (mgrs exd_state) 5 = Some m /\ get_locked_lock exd_state m 7 = Some 1
    /\ aget (store exd_state) 1 = Some l /\ l_ack l = 255 /\ l_locked l = 3 /\ m_locked m = 4
    /\ m_cur (getm s' 5) = Some 2.
Proof. do 4 eexists. vm_compute. repeat split; reflexivity. Qed.

Theorem C02_unlock_full_release_reachable : forall t0 a acts, core acts ->
  let s := fst (run (init_db t0 a) acts) in
  forall conn c m r l s' ev w,
  unlock_step s conn c = (s', ev, w) ->
  aget (mgrs s) (c_key c) = Some m ->
  negb (leader s) && negb (has (c_flag c) UNLOCK_FLAG_FROM_AOF) = false ->
  get_locked_lock s m (c_lockid c) = Some r -> aget (store s) r = Some l ->
  (l_locked l = 1 \/ c_rcount c = 0 \/ has (c_tflag c) TF_PRIORITY = true) -> c_data c = None ->
  Inv s'
  /\ (forall l', aget (store s') r = Some l' -> l_locked l' = 0)
  /\ (forall k' m' id, aget (mgrs s') k' = Some m' -> get_locked_lock s' m' id <> Some r)
  /\ (forall r' l', r' <> r -> aget (store s') r' = Some l' ->
        exists l0, aget (store s) r' = Some l0 /\ l_locked l' = l_locked l0 /\ l_key l' = l_key l0
                   /\ l_cmd l' = l_cmd l0 /\ l_ack l' = l_ack l0)
  /\ (forall m', aget (mgrs s') (c_key c) = Some m' -> m_locked m' = m_locked m - l_locked l /\ l_locked l <= m_locked m)
  /\ (forall k' m', k' <> c_key c -> aget (mgrs s') k' = Some m' ->
        exists m0, aget (mgrs s) k' = Some m0 /\ m_locked m' = m_locked m0)
  /\ (exists aev, Forall (fun e => match e with EAof _ => True | _ => False end) aev
        /\ ev = [ERelease (c_key c) r (l_locked l)] ++ aev
                ++ [EReply conn (c_req c) R_SUCCED (u16 (m_locked (getm s' (c_key c)))) 0 (c_lockid c) (c_count c)
                           (c_rcount c) (data_of s (c_key c))])
  /\ w = Some (mkWake (c_key c) (Some conn)).
Proof. exact reach_unlock_full_release. Qed.
Goal True. idtac "ASSUMPTIONS-OF C02_unlock_full_release_reachable". Abort.
Print Assumptions C02_unlock_full_release_reachable.
Example C02_unlock_full_release_reachable_nonvacuous :
  core exd_hist
  /\ exists m l, aget (mgrs (fst (run (init_db 0 255) exd_hist))) 5 = Some m
       /\ get_locked_lock (fst (run (init_db 0 255) exd_hist)) m 8 = Some 2
       /\ aget (store (fst (run (init_db 0 255) exd_hist))) 2 = Some l /\ l_locked l = 1
       /\ leader (fst (run (init_db 0 255) exd_hist)) = true.
Proof. split; [exact exd_core|do 2 eexists; vm_compute; repeat split; reflexivity]. Qed.

(* the reply's lcount is the new `locked` even when the key's manager is removed with its last record: then `locked`
   was exactly the depth of the hold *)
Theorem C02_full_release_count_reachable : forall t0 a acts, core acts ->
  let s := fst (run (init_db t0 a) acts) in
  forall conn c m r l s' ev w,
  unlock_step s conn c = (s', ev, w) ->
  aget (mgrs s) (c_key c) = Some m ->
  negb (leader s) && negb (has (c_flag c) UNLOCK_FLAG_FROM_AOF) = false ->
  get_locked_lock s m (c_lockid c) = Some r -> aget (store s) r = Some l ->
  (l_locked l = 1 \/ c_rcount c = 0 \/ has (c_tflag c) TF_PRIORITY = true) -> c_data c = None ->
  m_locked (getm s' (c_key c)) = m_locked m - l_locked l.
Proof. exact reach_full_release_count. Qed.
Goal True. idtac "ASSUMPTIONS-OF C02_full_release_count_reachable". Abort.
Print Assumptions C02_full_release_count_reachable.
(* a single hold of depth 2 is released in full: the key's manager is removed, lcount 0 = 2 - 2 *)
Example C02_full_release_count_reachable_nonvacuous :
  core [AReq 1 (exd_lock 1 7 3); AReq 1 (exd_lock 2 7 3)]
  /\ exists s' w, unlock_step (fst (run (init_db 0 255) [AReq 1 (exd_lock 1 7 3); AReq 1 (exd_lock 2 7 3)])) 1
                     (mkCmd false 9 0 7 5 0 0 0 0 0 0 None)
                   = (s', [ERelease 5 1 2; EReply 1 9 R_SUCCED 0 0 7 0 0 None], w)
                   /\ m_locked (getm (fst (run (init_db 0 255) [AReq 1 (exd_lock 1 7 3); AReq 1 (exd_lock 2 7 3)])) 5) = 2.
Proof. split; [split; [repeat constructor|vm_compute; reflexivity]|do 2 eexists; vm_compute; split; reflexivity]. Qed.

(* ================================================================== (iii) Lock by the holder *)
Theorem C02_relock_new_level : forall s conn c m r l s' ev w,
  lock_step s conn c = (s', ev, w) ->
  has (c_flag c) LOCK_FLAG_CONCURRENT_CHECK = false ->
  aget (mgrs s) (c_key c) = Some m ->
  negb (leader s) && negb (has (c_flag c) LOCK_FLAG_FROM_AOF) = false ->
  0 < m_locked m ->
  has (c_flag c) LOCK_FLAG_SHOW = false -> has (c_flag c) LOCK_FLAG_UPDATE = false ->
  get_locked_lock s m (c_lockid c) = Some r -> aget (store s) r = Some l -> l_ack l = 255 ->
  l_locked l < 255 -> l_locked l <= c_rcount c -> has (c_tflag c) TF_PRIORITY = false ->
  c_expried c <> 0 -> c_data c = None -> m_locked m + 1 < 4294967296 ->
  (exists l', aget (store s') r = Some l' /\ l_locked l' = l_locked l + 1 /\ l_key l' = l_key l
              /\ l_cmd l' = c /\ l_ack l' = 255)
  /\ (forall r', r' <> r -> aget (store s') r' = aget (store s) r')
  /\ (exists m', aget (mgrs s') (c_key c) = Some m' /\ m_locked m' = m_locked m + 1
                 /\ m_cur m' = m_cur m /\ m_locks m' = m_locks m /\ m_wait m' = m_wait m /\ m_waited m' = m_waited m)
  /\ (forall k', k' <> c_key c -> aget (mgrs s') k' = aget (mgrs s) k')
  /\ (exists aev, Forall (fun e => match e with EAof _ | EPanic _ => True | _ => False end) aev
        /\ ev = [EGrant (c_key c) r false (m_locked m) (cur_count s (c_key c)) (c_count c)] ++ aev
                ++ [EReply conn (c_req c) R_SUCCED (u16 (m_locked m + 1)) (l_locked l + 1) (c_lockid c) (c_count c)
                           (c_rcount c) (data_of s (c_key c))])
  /\ w = Some (mkWake (c_key c) (Some conn)).
Proof. exact relock_new_level. Qed.
Goal True. idtac "ASSUMPTIONS-OF C02_relock_new_level". Abort.
Print Assumptions C02_relock_new_level.
(* LockId 7 (depth 3, Rcount 3) locks again: depth 4, locked 5 *)
Example C02_relock_new_level_nonvacuous :
  exists m l s' w,
    lock_step exd_state 1 (exd_lock 5 7 3)
      = (s', [EGrant 5 1 false 4 2 2; EReply 1 5 R_SUCCED 5 4 7 2 3 None], w)
    /\ aget (mgrs exd_state) 5 = Some m /\ get_locked_lock exd_state m 7 = Some 1
    /\ aget (store exd_state) 1 = Some l /\ l_ack l = 255 /\ l_locked l = 3 /\ m_locked m = 4.
Proof. do 4 eexists. vm_compute. repeat split; reflexivity. Qed.

Theorem C02_relock_new_level_reachable : forall t0 a acts, core acts ->
  let s := fst (run (init_db t0 a) acts) in
  forall conn c m r l s' ev w,
  lock_step s conn c = (s', ev, w) ->
  has (c_flag c) LOCK_FLAG_CONCURRENT_CHECK = false ->
  aget (mgrs s) (c_key c) = Some m ->
  negb (leader s) && negb (has (c_flag c) LOCK_FLAG_FROM_AOF) = false ->
  has (c_flag c) LOCK_FLAG_SHOW = false -> has (c_flag c) LOCK_FLAG_UPDATE = false ->
  get_locked_lock s m (c_lockid c) = Some r -> aget (store s) r = Some l ->
  l_locked l < 255 -> l_locked l <= c_rcount c -> has (c_tflag c) TF_PRIORITY = false ->
  c_expried c <> 0 -> cmd_core c ->
  Inv s'
  /\ (exists l', aget (store s') r = Some l' /\ l_locked l' = l_locked l + 1 /\ l_key l' = c_key c
                 /\ l_cmd l' = c /\ l_ack l' = 255)
  /\ (forall r', r' <> r -> aget (store s') r' = aget (store s) r')
  /\ (exists m', aget (mgrs s') (c_key c) = Some m' /\ m_locked m' = m_locked m + 1 /\ m_locked m + 1 < 4294967296
                 /\ holders m' = holders m /\ In r (holders m') /\ m_wq m' = m_wq m)
  /\ (forall k', k' <> c_key c -> aget (mgrs s') k' = aget (mgrs s) k')
  /\ (exists aev, Forall (fun e => match e with EAof _ | EPanic _ => True | _ => False end) aev
        /\ ev = [EGrant (c_key c) r false (m_locked m) (cur_count s (c_key c)) (c_count c)] ++ aev
                ++ [EReply conn (c_req c) R_SUCCED (u16 (m_locked m + 1)) (l_locked l + 1) (c_lockid c) (c_count c)
                           (c_rcount c) (data_of s (c_key c))])
  /\ w = Some (mkWake (c_key c) (Some conn)).
Proof. exact reach_relock_new_level. Qed.
Goal True. idtac "ASSUMPTIONS-OF C02_relock_new_level_reachable". Abort.
Print Assumptions C02_relock_new_level_reachable.
Example C02_relock_new_level_reachable_nonvacuous :
  core exd_hist /\ cmd_core (exd_lock 5 7 3)
  /\ exists m l, aget (mgrs (fst (run (init_db 0 255) exd_hist))) 5 = Some m
       /\ get_locked_lock (fst (run (init_db 0 255) exd_hist)) m 7 = Some 1
       /\ aget (store (fst (run (init_db 0 255) exd_hist))) 1 = Some l /\ l_locked l = 3 /\ c_rcount (exd_lock 5 7 3) = 3.
Proof. split; [exact exd_core|split; [repeat split|do 2 eexists; vm_compute; repeat split; reflexivity]]. Qed.

(* Expried = 0: answered SUCCED with the current depth, nothing changes *)
Theorem C02_relock_probe : forall s conn c m r l,
  has (c_flag c) LOCK_FLAG_CONCURRENT_CHECK = false ->
  aget (mgrs s) (c_key c) = Some m ->
  negb (leader s) && negb (has (c_flag c) LOCK_FLAG_FROM_AOF) = false ->
  0 < m_locked m ->
  has (c_flag c) LOCK_FLAG_SHOW = false -> has (c_flag c) LOCK_FLAG_UPDATE = false ->
  get_locked_lock s m (c_lockid c) = Some r -> aget (store s) r = Some l -> l_ack l = 255 ->
  l_locked l < 255 -> l_locked l <= c_rcount c -> has (c_tflag c) TF_PRIORITY = false ->
  c_expried c = 0 ->
  lock_step s conn c =
    (s, [EReply conn (c_req c) R_SUCCED (u16 (m_locked m)) (l_locked l) (c_lockid c) (c_count c) (c_rcount c)
                (data_of s (c_key c))], None).
Proof. exact relock_probe. Qed.
Goal True. idtac "ASSUMPTIONS-OF C02_relock_probe". Abort.
Print Assumptions C02_relock_probe.
Example C02_relock_probe_nonvacuous :
  lock_step exd_state 1 (mkCmd true 5 0 7 5 0 0 0 0 2 3 None)
  = (exd_state, [EReply 1 5 R_SUCCED 4 3 7 2 3 None], None).
Proof. vm_compute. reflexivity. Qed.

Theorem C02_relock_probe_reachable : forall t0 a acts, core acts ->
  let s := fst (run (init_db t0 a) acts) in
  forall conn c m r l,
  has (c_flag c) LOCK_FLAG_CONCURRENT_CHECK = false ->
  aget (mgrs s) (c_key c) = Some m ->
  negb (leader s) && negb (has (c_flag c) LOCK_FLAG_FROM_AOF) = false ->
  has (c_flag c) LOCK_FLAG_SHOW = false -> has (c_flag c) LOCK_FLAG_UPDATE = false ->
  get_locked_lock s m (c_lockid c) = Some r -> aget (store s) r = Some l ->
  l_locked l < 255 -> l_locked l <= c_rcount c -> has (c_tflag c) TF_PRIORITY = false ->
  c_expried c = 0 ->
  lock_step s conn c =
    (s, [EReply conn (c_req c) R_SUCCED (u16 (m_locked m)) (l_locked l) (c_lockid c) (c_count c) (c_rcount c)
                (data_of s (c_key c))], None).
Proof. exact reach_relock_probe. Qed.
Goal True. idtac "ASSUMPTIONS-OF C02_relock_probe_reachable". Abort.
Print Assumptions C02_relock_probe_reachable.
Example C02_relock_probe_reachable_nonvacuous :
  core exd_hist
  /\ lock_step (fst (run (init_db 0 255) exd_hist)) 1 (mkCmd true 5 0 7 5 0 0 0 0 2 3 None)
     = (fst (run (init_db 0 255) exd_hist), [EReply 1 5 R_SUCCED 4 3 7 2 3 None], None).
Proof. split; [exact exd_core|vm_compute; reflexivity]. Qed.

(* depth 255, or deeper than the request's Rcount, or priority flag: LOCKED_ERROR with the current depth, nothing changes *)
Theorem C02_relock_refused : forall s conn c m r l,
  has (c_flag c) LOCK_FLAG_CONCURRENT_CHECK = false ->
  aget (mgrs s) (c_key c) = Some m ->
  negb (leader s) && negb (has (c_flag c) LOCK_FLAG_FROM_AOF) = false ->
  0 < m_locked m ->
  has (c_flag c) LOCK_FLAG_SHOW = false -> has (c_flag c) LOCK_FLAG_UPDATE = false ->
  get_locked_lock s m (c_lockid c) = Some r -> aget (store s) r = Some l -> l_ack l = 255 ->
  (255 <= l_locked l \/ c_rcount c < l_locked l \/ has (c_tflag c) TF_PRIORITY = true) ->
  lock_step s conn c =
    (s, [EReply conn (c_req c) R_LOCKED_ERROR (u16 (m_locked m)) (l_locked l) (c_lockid c) (c_count c) (c_rcount c)
                (data_of s (c_key c))], None).
Proof. exact relock_refused. Qed.
Goal True. idtac "ASSUMPTIONS-OF C02_relock_refused". Abort.
Print Assumptions C02_relock_refused.
Example C02_relock_refused_nonvacuous :
  lock_step exd_state 1 (exd_lock 5 7 2) = (exd_state, [EReply 1 5 R_LOCKED_ERROR 4 3 7 2 2 None], None).
Proof. vm_compute. reflexivity. Qed.

Theorem C02_relock_refused_reachable : forall t0 a acts, core acts ->
  let s := fst (run (init_db t0 a) acts) in
  forall conn c m r l,
  has (c_flag c) LOCK_FLAG_CONCURRENT_CHECK = false ->
  aget (mgrs s) (c_key c) = Some m ->
  negb (leader s) && negb (has (c_flag c) LOCK_FLAG_FROM_AOF) = false ->
  has (c_flag c) LOCK_FLAG_SHOW = false -> has (c_flag c) LOCK_FLAG_UPDATE = false ->
  get_locked_lock s m (c_lockid c) = Some r -> aget (store s) r = Some l ->
  (l_locked l = 255 \/ c_rcount c < l_locked l \/ has (c_tflag c) TF_PRIORITY = true) ->
  lock_step s conn c =
    (s, [EReply conn (c_req c) R_LOCKED_ERROR (u16 (m_locked m)) (l_locked l) (c_lockid c) (c_count c) (c_rcount c)
                (data_of s (c_key c))], None).
Proof. exact reach_relock_refused. Qed.
Goal True. idtac "ASSUMPTIONS-OF C02_relock_refused_reachable". Abort.
Print Assumptions C02_relock_refused_reachable.
Example C02_relock_refused_reachable_nonvacuous :
  core exd_hist
  /\ lock_step (fst (run (init_db 0 255) exd_hist)) 1 (exd_lock 5 7 2)
     = (fst (run (init_db 0 255) exd_hist), [EReply 1 5 R_LOCKED_ERROR 4 3 7 2 2 None], None).
Proof. split; [exact exd_core|vm_compute; reflexivity]. Qed.

(* the depth grows (by one) exactly under the four conditions *)
Theorem C02_relock_new_level_iff : forall t0 a acts, core acts ->
  let s := fst (run (init_db t0 a) acts) in
  forall conn c m r l s' ev w,
  lock_step s conn c = (s', ev, w) ->
  has (c_flag c) LOCK_FLAG_CONCURRENT_CHECK = false ->
  aget (mgrs s) (c_key c) = Some m ->
  negb (leader s) && negb (has (c_flag c) LOCK_FLAG_FROM_AOF) = false ->
  has (c_flag c) LOCK_FLAG_SHOW = false -> has (c_flag c) LOCK_FLAG_UPDATE = false ->
  get_locked_lock s m (c_lockid c) = Some r -> aget (store s) r = Some l -> c_data c = None ->
  ((exists l', aget (store s') r = Some l' /\ l_locked l' = l_locked l + 1)
   <-> (l_locked l < 255 /\ l_locked l <= c_rcount c /\ has (c_tflag c) TF_PRIORITY = false /\ c_expried c <> 0)).
Proof. exact reach_relock_new_level_iff. Qed.
Goal True. idtac "ASSUMPTIONS-OF C02_relock_new_level_iff". Abort.
Print Assumptions C02_relock_new_level_iff.
Example C02_relock_new_level_iff_nonvacuous :
  core exd_hist
  /\ (exists l', aget (store (fst (fst (lock_step (fst (run (init_db 0 255) exd_hist)) 1 (exd_lock 5 7 3))))) 1 = Some l'
                 /\ l_locked l' = 4)
  /\ (exists l', aget (store (fst (fst (lock_step (fst (run (init_db 0 255) exd_hist)) 1 (exd_lock 5 7 2))))) 1 = Some l'
                 /\ l_locked l' = 3).
Proof. split; [exact exd_core|split; eexists; vm_compute; split; reflexivity]. Qed.

(* ================================================================== (iv) a LockId that holds nothing *)
(* Lock: whatever the request does, only the freshly allocated record `next s` and the hold the lookup finds can change
   depth; every other record that is still stored is as it was; nothing else appears *)
Theorem C02_lock_depth_frame : forall s conn c s' ev w,
  lock_step s conn c = (s', ev, w) ->
  forall r l', aget (store s') r = Some l' ->
    r = next s
    \/ (exists m, aget (mgrs s) (c_key c) = Some m /\ 0 < m_locked m
                  /\ get_locked_lock s m (c_lockid (lock_target s c m)) = Some r)
    \/ exists l, aget (store s) r = Some l /\ l_locked l' = l_locked l /\ l_key l' = l_key l /\ l_cmd l' = l_cmd l
                 /\ l_ack l' = l_ack l.
Proof. exact lock_depth_frame. Qed.
Goal True. idtac "ASSUMPTIONS-OF C02_lock_depth_frame". Abort.
Print Assumptions C02_lock_depth_frame.
(* LockId 9 asks for the key (Count 2 < locked 4): queued as record 3; records 1 and 2 keep depths 3 and 1 *)
Example C02_lock_depth_frame_nonvacuous :
  exists s' l1 l2 l3, fst (fst (lock_step exd_state 3 (mkCmd true 5 0 9 5 0 5 0 10 2 0 None))) = s'
    /\ aget (store s') 1 = Some l1 /\ l_locked l1 = 3 /\ aget (store s') 2 = Some l2 /\ l_locked l2 = 1
    /\ next exd_state = 3 /\ aget (store s') 3 = Some l3 /\ l_locked l3 = 0.
Proof. do 4 eexists. vm_compute. repeat split; reflexivity. Qed.

Theorem C02_lock_unfound_frame : forall s conn c s' ev w,
  lock_step s conn c = (s', ev, w) ->
  has (c_flag c) LOCK_FLAG_SHOW = false ->
  (forall m, aget (mgrs s) (c_key c) = Some m -> get_locked_lock s m (c_lockid c) = None) ->
  (forall r l', r <> next s -> aget (store s') r = Some l' ->
     exists l, aget (store s) r = Some l /\ l_locked l' = l_locked l /\ l_key l' = l_key l /\ l_cmd l' = l_cmd l
               /\ l_ack l' = l_ack l)
  /\ (forall k' m', k' <> c_key c -> aget (mgrs s') k' = Some m' ->
        exists m0, aget (mgrs s) k' = Some m0 /\ m_locked m' = m_locked m0).
Proof. exact lock_unfound_frame. Qed.
Goal True. idtac "ASSUMPTIONS-OF C02_lock_unfound_frame". Abort.
Print Assumptions C02_lock_unfound_frame.
Example C02_lock_unfound_frame_nonvacuous :
  exists m, aget (mgrs exd_state) 5 = Some m /\ get_locked_lock exd_state m 9 = None
            /\ has (c_flag (mkCmd true 5 0 9 5 0 5 0 10 2 0 None)) LOCK_FLAG_SHOW = false.
Proof. eexists. vm_compute. repeat split; reflexivity. Qed.

Theorem C02_lock_unfound_frame_reachable : forall t0 a acts, core acts ->
  let s := fst (run (init_db t0 a) acts) in
  forall conn c s' ev w,
  lock_step s conn c = (s', ev, w) ->
  has (c_flag c) LOCK_FLAG_SHOW = false ->
  (forall m, aget (mgrs s) (c_key c) = Some m -> get_locked_lock s m (c_lockid c) = None) ->
  (forall r l l', aget (store s) r = Some l -> aget (store s') r = Some l' ->
     l_locked l' = l_locked l /\ l_key l' = l_key l /\ l_cmd l' = l_cmd l /\ l_ack l' = l_ack l)
  /\ (forall r, aget (store s) r = None -> r <> next s -> aget (store s') r = None)
  /\ aget (store s) (next s) = None
  /\ (forall k' m', k' <> c_key c -> aget (mgrs s') k' = Some m' ->
        exists m0, aget (mgrs s) k' = Some m0 /\ m_locked m' = m_locked m0).
Proof. exact reach_lock_unfound_frame. Qed.
Goal True. idtac "ASSUMPTIONS-OF C02_lock_unfound_frame_reachable". Abort.
Print Assumptions C02_lock_unfound_frame_reachable.
Example C02_lock_unfound_frame_reachable_nonvacuous :
  core exd_hist
  /\ exists m, aget (mgrs (fst (run (init_db 0 255) exd_hist))) 5 = Some m
               /\ get_locked_lock (fst (run (init_db 0 255) exd_hist)) m 9 = None.
Proof. split; [exact exd_core|eexists; vm_compute; split; reflexivity]. Qed.

(* UnLock, no UNLOCK_FLAG_FIRST: only a live waiter (cancel-wait) can be affected; no hold changes depth *)
Theorem C02_unlock_unfound_frame : forall s conn c s' ev w,
  unlock_step s conn c = (s', ev, w) ->
  has (c_flag c) UNLOCK_FLAG_FIRST = false ->
  (forall m, aget (mgrs s) (c_key c) = Some m -> get_locked_lock s m (c_lockid c) = None) ->
  (forall r l', aget (store s') r = Some l' ->
     exists l, aget (store s) r = Some l
               /\ ((has (c_flag c) UNLOCK_FLAG_CANCEL_WAIT = true /\ l_timeouted l = false)
                   \/ (l_locked l' = l_locked l /\ l_key l' = l_key l /\ l_cmd l' = l_cmd l /\ l_ack l' = l_ack l)))
  /\ (forall k' m', k' <> c_key c -> aget (mgrs s') k' = Some m' ->
        exists m0, aget (mgrs s) k' = Some m0 /\ m_locked m' = m_locked m0).
Proof. exact unlock_unfound_frame. Qed.
Goal True. idtac "ASSUMPTIONS-OF C02_unlock_unfound_frame". Abort.
Print Assumptions C02_unlock_unfound_frame.
Example C02_unlock_unfound_frame_nonvacuous :
  exists m s', aget (mgrs exd_state) 5 = Some m /\ get_locked_lock exd_state m 9 = None
    /\ unlock_step exd_state 3 (mkCmd false 5 2 9 5 0 0 0 0 0 0 None) = (s', [EReply 3 5 R_UNLOCK_ERROR 4 0 9 0 0 None], None).
Proof. do 2 eexists. vm_compute. repeat split; reflexivity. Qed.

Theorem C02_unlock_unfound_frame_reachable : forall t0 a acts, core acts ->
  let s := fst (run (init_db t0 a) acts) in
  forall conn c s' ev w,
  unlock_step s conn c = (s', ev, w) ->
  has (c_flag c) UNLOCK_FLAG_FIRST = false ->
  (forall m, aget (mgrs s) (c_key c) = Some m -> get_locked_lock s m (c_lockid c) = None) ->
  (forall r l l', aget (store s) r = Some l -> 0 < l_locked l -> aget (store s') r = Some l' ->
     l_locked l' = l_locked l /\ l_key l' = l_key l /\ l_cmd l' = l_cmd l /\ l_ack l' = l_ack l)
  /\ (forall r, aget (store s) r = None -> aget (store s') r = None)
  /\ (forall k' m', k' <> c_key c -> aget (mgrs s') k' = Some m' ->
        exists m0, aget (mgrs s) k' = Some m0 /\ m_locked m' = m_locked m0).
Proof. exact reach_unlock_unfound_frame. Qed.
Goal True. idtac "ASSUMPTIONS-OF C02_unlock_unfound_frame_reachable". Abort.
Print Assumptions C02_unlock_unfound_frame_reachable.
Example C02_unlock_unfound_frame_reachable_nonvacuous :
  core exd_hist
  /\ exists m, aget (mgrs (fst (run (init_db 0 255) exd_hist))) 5 = Some m
               /\ get_locked_lock (fst (run (init_db 0 255) exd_hist)) m 9 = None.
Proof. split; [exact exd_core|eexists; vm_compute; split; reflexivity]. Qed.

(* UnLock with UNLOCK_FLAG_FIRST on a held key: the current lock is the one released; every other record is as it was *)
Theorem C02_unlock_first_frame : forall s conn c m s' ev w,
  unlock_step s conn c = (s', ev, w) ->
  aget (mgrs s) (c_key c) = Some m -> 0 < m_locked m ->
  has (c_flag c) UNLOCK_FLAG_FIRST = true ->
  get_locked_lock s m (c_lockid c) = None ->
  (forall r l', m_cur m <> Some r -> aget (store s') r = Some l' ->
     exists l, aget (store s) r = Some l /\ l_locked l' = l_locked l /\ l_key l' = l_key l /\ l_cmd l' = l_cmd l
               /\ l_ack l' = l_ack l)
  /\ (forall k' m', k' <> c_key c -> aget (mgrs s') k' = Some m' ->
        exists m0, aget (mgrs s) k' = Some m0 /\ m_locked m' = m_locked m0).
Proof. exact unlock_first_frame. Qed.
Goal True. idtac "ASSUMPTIONS-OF C02_unlock_first_frame". Abort.
Print Assumptions C02_unlock_first_frame.
(* LockId 9 holds nothing; with UNLOCK_FLAG_FIRST the current lock (record 1, depth 3, Rcount 3) loses one level *)
Example C02_unlock_first_frame_nonvacuous :
  exists m s' w, aget (mgrs exd_state) 5 = Some m /\ get_locked_lock exd_state m 9 = None /\ m_cur m = Some 1
    /\ unlock_step exd_state 3 (mkCmd false 5 1 9 5 0 0 0 0 0 0 None)
       = (s', [ERelease 5 1 1; EReply 3 5 R_SUCCED 3 2 7 2 3 None], w).
Proof. do 3 eexists. vm_compute. repeat split; reflexivity. Qed.

Theorem C02_unlock_first_frame_reachable : forall t0 a acts, core acts ->
  let s := fst (run (init_db t0 a) acts) in
  forall conn c m cr s' ev w,
  unlock_step s conn c = (s', ev, w) ->
  aget (mgrs s) (c_key c) = Some m -> 0 < m_locked m -> m_cur m = Some cr ->
  has (c_flag c) UNLOCK_FLAG_FIRST = true ->
  get_locked_lock s m (c_lockid c) = None ->
  (forall r l l', r <> cr -> aget (store s) r = Some l -> aget (store s') r = Some l' ->
     l_locked l' = l_locked l /\ l_key l' = l_key l /\ l_cmd l' = l_cmd l /\ l_ack l' = l_ack l)
  /\ (forall r, aget (store s) r = None -> aget (store s') r = None)
  /\ (forall k' m', k' <> c_key c -> aget (mgrs s') k' = Some m' ->
        exists m0, aget (mgrs s) k' = Some m0 /\ m_locked m' = m_locked m0).
Proof. exact reach_unlock_first_frame. Qed.
Goal True. idtac "ASSUMPTIONS-OF C02_unlock_first_frame_reachable". Abort.
Print Assumptions C02_unlock_first_frame_reachable.
Example C02_unlock_first_frame_reachable_nonvacuous :
  core exd_hist
  /\ exists m, aget (mgrs (fst (run (init_db 0 255) exd_hist))) 5 = Some m
               /\ get_locked_lock (fst (run (init_db 0 255) exd_hist)) m 9 = None /\ m_cur m = Some 1 /\ m_locked m = 4.
Proof. split; [exact exd_core|eexists; vm_compute; repeat split; reflexivity]. Qed.

(* ================================================================== holds are not lost *)
(* Lock: a hold other than the one the lookup finds stays stored with its depth.  (A record is freed only when its
   reference count reaches zero; the only reference of a hold a Lock request can drop is a dead wait-queue entry, so
   the side condition asks for a count >= 2 when the hold also sits in the key's wait queue.) *)
Theorem C02_lock_keeps_holds : forall s conn c s' ev w r l,
  lock_step s conn c = (s', ev, w) ->
  aget (store s) r = Some l -> 0 < l_locked l -> r <> next s ->
  (forall m, aget (mgrs s) (c_key c) = Some m -> get_locked_lock s m (c_lockid (lock_target s c m)) <> Some r) ->
  NoDup (m_wq (getm s (c_key c))) ->
  (In r (m_wq (getm s (c_key c))) -> 2 <= l_refc l /\ l_refc l < 256) ->
  exists l', aget (store s') r = Some l' /\ l_locked l' = l_locked l /\ l_key l' = l_key l /\ l_cmd l' = l_cmd l
             /\ l_ack l' = l_ack l.
Proof. exact lock_keeps_holds. Qed.
Goal True. idtac "ASSUMPTIONS-OF C02_lock_keeps_holds". Abort.
Print Assumptions C02_lock_keeps_holds.
Example C02_lock_keeps_holds_nonvacuous :
  exists l m, aget (store exd_state) 2 = Some l /\ l_locked l = 1 /\ next exd_state = 3
    /\ aget (mgrs exd_state) 5 = Some m /\ get_locked_lock exd_state m 7 = Some 1 /\ m_wq (getm exd_state 5) = [].
Proof. do 2 eexists. vm_compute. repeat split; reflexivity. Qed.

Theorem C02_lock_keeps_holds_reachable : forall t0 a acts, core acts ->
  let s := fst (run (init_db t0 a) acts) in
  forall conn c s' ev w r l,
  lock_step s conn c = (s', ev, w) ->
  aget (store s) r = Some l -> 0 < l_locked l ->
  (forall m, aget (mgrs s) (c_key c) = Some m -> get_locked_lock s m (c_lockid (lock_target s c m)) <> Some r) ->
  exists l', aget (store s') r = Some l' /\ l_locked l' = l_locked l /\ l_key l' = l_key l /\ l_cmd l' = l_cmd l
             /\ l_ack l' = l_ack l.
Proof. exact reach_lock_keeps_holds. Qed.
Goal True. idtac "ASSUMPTIONS-OF C02_lock_keeps_holds_reachable". Abort.
Print Assumptions C02_lock_keeps_holds_reachable.
(* LockId 7 re-locks: the hold of LockId 8 (record 2) is not the one found *)
Example C02_lock_keeps_holds_reachable_nonvacuous :
  core exd_hist
  /\ exists l m, aget (store (fst (run (init_db 0 255) exd_hist))) 2 = Some l /\ l_locked l = 1
       /\ aget (mgrs (fst (run (init_db 0 255) exd_hist))) 5 = Some m
       /\ get_locked_lock (fst (run (init_db 0 255) exd_hist)) m 7 = Some 1.
Proof. split; [exact exd_core|do 2 eexists; vm_compute; repeat split; reflexivity]. Qed.

(* UnLock: a hold other than the one released (the one the lookup finds; the current lock under UNLOCK_FLAG_FIRST when
   the lookup finds nothing) stays stored with its depth *)
Theorem C02_unlock_keeps_holds : forall s conn c s' ev w r l,
  unlock_step s conn c = (s', ev, w) ->
  aget (store s) r = Some l -> 0 < l_locked l ->
  (forall m, aget (mgrs s) (c_key c) = Some m -> get_locked_lock s m (c_lockid c) <> Some r) ->
  (forall m, aget (mgrs s) (c_key c) = Some m -> get_locked_lock s m (c_lockid c) = None ->
             has (c_flag c) UNLOCK_FLAG_FIRST = true -> m_cur m <> Some r) ->
  (has (c_flag c) UNLOCK_FLAG_CANCEL_WAIT = true ->
     l_timeouted l = true /\ NoDup (m_wq (getm s (c_key c)))
     /\ (In r (m_wq (getm s (c_key c))) -> 2 <= l_refc l /\ l_refc l < 256)) ->
  exists l', aget (store s') r = Some l' /\ l_locked l' = l_locked l /\ l_key l' = l_key l /\ l_cmd l' = l_cmd l
             /\ l_ack l' = l_ack l.
Proof. exact unlock_keeps_holds. Qed.
Goal True. idtac "ASSUMPTIONS-OF C02_unlock_keeps_holds". Abort.
Print Assumptions C02_unlock_keeps_holds.
Example C02_unlock_keeps_holds_nonvacuous :
  exists l m, aget (store exd_state) 2 = Some l /\ l_locked l = 1
    /\ aget (mgrs exd_state) 5 = Some m /\ get_locked_lock exd_state m 7 = Some 1
    /\ has (c_flag (mkCmd false 9 0 7 5 0 0 0 0 0 0 None)) UNLOCK_FLAG_CANCEL_WAIT = false.
Proof. do 2 eexists. vm_compute. repeat split; reflexivity. Qed.

Theorem C02_unlock_keeps_holds_reachable : forall t0 a acts, core acts ->
  let s := fst (run (init_db t0 a) acts) in
  forall conn c s' ev w r l,
  unlock_step s conn c = (s', ev, w) ->
  aget (store s) r = Some l -> 0 < l_locked l ->
  (forall m, aget (mgrs s) (c_key c) = Some m -> get_locked_lock s m (c_lockid c) <> Some r) ->
  (forall m, aget (mgrs s) (c_key c) = Some m -> get_locked_lock s m (c_lockid c) = None ->
             has (c_flag c) UNLOCK_FLAG_FIRST = true -> m_cur m <> Some r) ->
  exists l', aget (store s') r = Some l' /\ l_locked l' = l_locked l /\ l_key l' = l_key l /\ l_cmd l' = l_cmd l
             /\ l_ack l' = l_ack l.
Proof. exact reach_unlock_keeps_holds. Qed.
Goal True. idtac "ASSUMPTIONS-OF C02_unlock_keeps_holds_reachable". Abort.
Print Assumptions C02_unlock_keeps_holds_reachable.
(* LockId 7 releases all its levels: the hold of LockId 8 (record 2, depth 1) is still there *)
Example C02_unlock_keeps_holds_reachable_nonvacuous :
  core exd_hist
  /\ exists l m l', aget (store (fst (run (init_db 0 255) exd_hist))) 2 = Some l /\ l_locked l = 1
       /\ aget (mgrs (fst (run (init_db 0 255) exd_hist))) 5 = Some m
       /\ get_locked_lock (fst (run (init_db 0 255) exd_hist)) m 7 = Some 1
       /\ aget (store (fst (fst (unlock_step (fst (run (init_db 0 255) exd_hist)) 1 (mkCmd false 9 0 7 5 0 0 0 0 0 0 None))))) 2 = Some l'
       /\ l_locked l' = 1.
Proof. split; [exact exd_core|do 3 eexists; vm_compute; repeat split; reflexivity]. Qed.

(* (iv) in full: a request whose LockId holds nothing on the key leaves every hold of every key stored and unchanged
   (UnLock with UNLOCK_FLAG_FIRST: every hold but the key's current lock) *)
Theorem C02_lock_unfound_holds_reachable : forall t0 a acts, core acts ->
  let s := fst (run (init_db t0 a) acts) in
  forall conn c s' ev w,
  lock_step s conn c = (s', ev, w) ->
  has (c_flag c) LOCK_FLAG_SHOW = false ->
  (forall m, aget (mgrs s) (c_key c) = Some m -> get_locked_lock s m (c_lockid c) = None) ->
  forall r l, aget (store s) r = Some l -> 0 < l_locked l ->
  exists l', aget (store s') r = Some l' /\ l_locked l' = l_locked l /\ l_key l' = l_key l /\ l_cmd l' = l_cmd l
             /\ l_ack l' = l_ack l.
Proof. exact reach_lock_unfound_holds. Qed.
Goal True. idtac "ASSUMPTIONS-OF C02_lock_unfound_holds_reachable". Abort.
Print Assumptions C02_lock_unfound_holds_reachable.
Example C02_lock_unfound_holds_reachable_nonvacuous :
  core exd_hist
  /\ exists m l1 l2, aget (mgrs (fst (run (init_db 0 255) exd_hist))) 5 = Some m
       /\ get_locked_lock (fst (run (init_db 0 255) exd_hist)) m 9 = None
       /\ aget (store (fst (run (init_db 0 255) exd_hist))) 1 = Some l1 /\ l_locked l1 = 3
       /\ aget (store (fst (run (init_db 0 255) exd_hist))) 2 = Some l2 /\ l_locked l2 = 1.
Proof. split; [exact exd_core|do 3 eexists; vm_compute; repeat split; reflexivity]. Qed.

Theorem C02_unlock_unfound_holds_reachable : forall t0 a acts, core acts ->
  let s := fst (run (init_db t0 a) acts) in
  forall conn c s' ev w,
  unlock_step s conn c = (s', ev, w) ->
  (forall m, aget (mgrs s) (c_key c) = Some m -> get_locked_lock s m (c_lockid c) = None) ->
  forall r l, aget (store s) r = Some l -> 0 < l_locked l ->
  (forall m, aget (mgrs s) (c_key c) = Some m -> has (c_flag c) UNLOCK_FLAG_FIRST = true -> m_cur m <> Some r) ->
  exists l', aget (store s') r = Some l' /\ l_locked l' = l_locked l /\ l_key l' = l_key l /\ l_cmd l' = l_cmd l
             /\ l_ack l' = l_ack l.
Proof. exact reach_unlock_unfound_holds. Qed.
Goal True. idtac "ASSUMPTIONS-OF C02_unlock_unfound_holds_reachable". Abort.
Print Assumptions C02_unlock_unfound_holds_reachable.
(* unlock-first by LockId 9: record 2 is not the current lock and keeps depth 1 *)
Example C02_unlock_unfound_holds_reachable_nonvacuous :
  core exd_hist
  /\ exists m l2 l2', aget (mgrs (fst (run (init_db 0 255) exd_hist))) 5 = Some m
       /\ get_locked_lock (fst (run (init_db 0 255) exd_hist)) m 9 = None /\ m_cur m = Some 1
       /\ aget (store (fst (run (init_db 0 255) exd_hist))) 2 = Some l2 /\ l_locked l2 = 1
       /\ aget (store (fst (fst (unlock_step (fst (run (init_db 0 255) exd_hist)) 3 (mkCmd false 5 1 9 5 0 0 0 0 0 0 None))))) 2 = Some l2'
       /\ l_locked l2' = 1.
Proof. split; [exact exd_core|do 3 eexists; vm_compute; repeat split; reflexivity]. Qed.
