(* C19 — client-library primitives keep their textbook guarantees (acceptance model over the regenerated client parameters). *)
From Coq Require Import NArith List Bool.
From Slock Require Import Gen.GenClient Client.Prims Client.PrimsProofs Client.PrioQueue.
Import ListNotations.
Local Open Scope N_scope.

(* the parameter table was regenerated completely (no gen_unsupported marker) *)
Example C19_gen_client_complete : gen_client_complete = 1.
Proof. reflexivity. Qed.

(* ---- Lock: every request on the key carries the Count/Rcount of client.NewLock => never two holds *)
Theorem C19_lock_exclusive : forall ops, Forall lock_op ops ->
  locked (run [] ops) <= 1 /\ (length (run [] ops) <= 1)%nat.
Proof. exact lock_exclusive. Qed.
Goal True. idtac "ASSUMPTIONS-OF C19_lock_exclusive". Abort.
Print Assumptions C19_lock_exclusive.
Example C19_lock_exclusive_nonvacuous :
  let l i := OLock (mkReq i lock_count lock_rcount false false false false) in
  let ops := [l 1; l 2; OUnlock 1 lock_rcount false; l 3; l 2] in
  Forall lock_op ops /\ run [] (firstn 2 ops) = [mkHold 1 1 0 0] /\ run [] ops = [mkHold 3 1 0 0].
Proof. cbv zeta. split; [repeat constructor | split; reflexivity]. Qed.

(* ---- Semaphore(n): every request carries Count = semaphore_count n (generated: n-1) => at most n holds, always *)
Theorem C19_semaphore_bound : forall n ops, 1 <= n -> n <= 0xffff -> Forall (semaphore_op n) ops ->
  locked (run [] ops) <= n /\ N.of_nat (length (run [] ops)) <= n.
Proof. exact semaphore_bound. Qed.
Goal True. idtac "ASSUMPTIONS-OF C19_semaphore_bound". Abort.
Print Assumptions C19_semaphore_bound.
Example C19_semaphore_bound_nonvacuous :
  let a i := OLock (mkReq i (semaphore_count 3) semaphore_rcount false false false false) in
  let ops := [a 1; a 2; a 3; a 4; OUnlockHead false; a 5; a 6] in
  Forall (semaphore_op 3) ops /\ length (run [] (firstn 4 ops)) = 3%nat /\
  map h_id (run [] ops) = [2; 3; 5].
Proof. cbv zeta. split; [repeat constructor | split; reflexivity]. Qed.

(* ---- MaxConcurrentFlow(n) *)
Theorem C19_flow_bound : forall n ops, 1 <= n -> n <= 0xffff -> Forall (flow_op n) ops ->
  locked (run [] ops) <= n /\ N.of_nat (length (run [] ops)) <= n.
Proof. exact flow_bound. Qed.
Goal True. idtac "ASSUMPTIONS-OF C19_flow_bound". Abort.
Print Assumptions C19_flow_bound.
Example C19_flow_bound_nonvacuous :
  let a i := OLock (mkReq i (flow_count 2) flow_rcount false false false false) in
  let ops := [a 1; a 2; a 3; OUnlock 1 flow_rcount false; a 3] in
  Forall (flow_op 2) ops /\ length (run [] (firstn 3 ops)) = 2%nat /\ map h_id (run [] ops) = [2; 3].
Proof. cbv zeta. split; [repeat constructor | split; reflexivity]. Qed.

(* ---- RWLock: readers Count rwlock_reader_count (0xffff), writers Count rwlock_writer_count (0) *)
Theorem C19_rwlock_writer_alone : forall ops h, Forall rw_op ops ->
  In h (run [] ops) -> h_count h = rwlock_writer_count -> run [] ops = [h].
Proof. exact rwlock_writer_alone. Qed.
Goal True. idtac "ASSUMPTIONS-OF C19_rwlock_writer_alone". Abort.
Print Assumptions C19_rwlock_writer_alone.

Theorem C19_rwlock_writer_accepted_only_when_free : forall ops r, Forall rw_op ops -> writer_req r ->
  snd (try_lock (run [] ops) r) = Granted -> run [] ops = [].
Proof. exact rwlock_writer_accepted_only_when_free. Qed.
Goal True. idtac "ASSUMPTIONS-OF C19_rwlock_writer_accepted_only_when_free". Abort.
Print Assumptions C19_rwlock_writer_accepted_only_when_free.

Theorem C19_rwlock_writer_excludes_all : forall ops h r, Forall rw_op ops ->
  In h (run [] ops) -> h_count h = rwlock_writer_count -> reader_req r \/ writer_req r ->
  try_lock (run [] ops) r = (run [] ops, Refused).
Proof. exact rwlock_writer_excludes_all. Qed.
Goal True. idtac "ASSUMPTIONS-OF C19_rwlock_writer_excludes_all". Abort.
Print Assumptions C19_rwlock_writer_excludes_all.

Theorem C19_rwlock_readers_share : forall ops r, Forall rw_op ops ->
  (forall h, In h (run [] ops) -> h_count h = rwlock_reader_count) -> locked (run [] ops) < 0xffff ->
  reader_req r -> find (r_id r) (run [] ops) = None -> r_wait_unlock r = false ->
  try_lock (run [] ops) r = (run [] ops ++ [mkHold (r_id r) 1 rwlock_reader_count rwlock_reader_rcount], Granted).
Proof. exact rwlock_readers_share. Qed.
Goal True. idtac "ASSUMPTIONS-OF C19_rwlock_readers_share". Abort.
Print Assumptions C19_rwlock_readers_share.

(* the code's unlimited-readers branch (db.go:2524-2536): with >= 0xffff reader holds outstanding a further reader is
   still granted, i.e. more than Count+1 = 65536 holds; hard stop at 0x7fffffff *)
Theorem C19_rwlock_unlimited_readers_branch : forall s r, s <> [] ->
  (forall h, In h s -> h_count h = rwlock_reader_count) ->
  reader_req r -> find (r_id r) s = None ->
  (0xffff <= locked s -> locked s < 0x7fffffff -> snd (try_lock s r) = Granted) /\
  (0x7fffffff <= locked s -> snd (try_lock s r) = Refused).
Proof. exact rwlock_unlimited_readers_branch. Qed.
Goal True. idtac "ASSUMPTIONS-OF C19_rwlock_unlimited_readers_branch". Abort.
Print Assumptions C19_rwlock_unlimited_readers_branch.

Definition C19_rd i := mkReq i rwlock_reader_count rwlock_reader_rcount false false false false.
Definition C19_wr i := mkReq i rwlock_writer_count rwlock_writer_rcount false false false false.
Example C19_rwlock_nonvacuous :
  let ops := [OLock (C19_rd 1); OLock (C19_rd 2); OLock (C19_wr 9); OUnlock 1 0 false; OUnlock 2 0 false;
              OLock (C19_wr 9); OLock (C19_rd 3); OLock (C19_wr 8)] in
  Forall rw_op ops /\
  map h_id (run [] (firstn 3 ops)) = [1; 2] /\            (* two readers together, the writer refused *)
  run [] ops = [mkHold 9 1 0 0] /\                        (* the writer alone; reader 3 and writer 8 refused *)
  reader_req (C19_rd 3) /\ writer_req (C19_wr 8) /\
  snd (try_lock [] (C19_wr 9)) = Granted.
Proof. cbv zeta. split; [repeat constructor; cbn; auto; left; repeat split | repeat split]. Qed.
Example C19_rwlock_unlimited_nonvacuous :
  (* hypotheses are satisfiable: a reader-only state whose depths sum to 70000 (one synthetic hold keeps the term small) *)
  let s := [mkHold 1 69999 rwlock_reader_count 0; mkHold 2 1 rwlock_reader_count 0] in
  s <> [] /\ (forall h, In h s -> h_count h = rwlock_reader_count) /\ reader_req (C19_rd 0) /\ find (r_id (C19_rd 0)) s = None /\
  locked s = 70000 /\ snd (try_lock s (C19_rd 0)) = Granted /\
  snd (try_lock [mkHold 1 0x7fffffff rwlock_reader_count 0] (C19_rd 0)) = Refused.
Proof.
  cbv zeta. repeat split; try discriminate.
  intros h [<-|[<-|[]]]; reflexivity.
Qed.

(* ---- RLock: Count rlock_count, Rcount rlock_rcount (0xff), one LockId per RLock object *)
Theorem C19_rlock_only_holder_reenters : forall ops h, Forall rl_op ops -> In h (run [] ops) ->
  run [] ops = [h] /\ h = rl_hold (h_id h) (h_depth h) /\ 1 <= h_depth h /\ h_depth h <= 0xff /\
  forall b r, rl_req b r ->
    (b <> h_id h -> try_lock (run [] ops) r = (run [] ops, Refused)) /\
    (b = h_id h -> h_depth h < 0xff -> try_lock (run [] ops) r = ([rl_hold (h_id h) (h_depth h + 1)], Granted)).
Proof. exact rlock_only_holder_reenters. Qed.
Goal True. idtac "ASSUMPTIONS-OF C19_rlock_only_holder_reenters". Abort.
Print Assumptions C19_rlock_only_holder_reenters.

Theorem C19_rlock_balanced_unlocks : forall a g0 gaps1 gaps2,
  Forall (other_op a) g0 -> Forall (Forall (other_op a)) gaps1 -> Forall (Forall (other_op a)) gaps2 ->
  let k := 1 + N.of_nat (length gaps1) in
  let j := N.of_nat (length gaps2) in
  k <= 0xff -> j <= k ->
  run [] (OLock (rl_mk a) :: g0 ++ nest a gaps1 ++ unnest a gaps2) = if j =? k then [] else [rl_hold a (k - j)].
Proof. intros a g0 gaps1 gaps2. rewrite run_cons. exact (rlock_balanced_unlocks a g0 gaps1 gaps2). Qed.
Goal True. idtac "ASSUMPTIONS-OF C19_rlock_balanced_unlocks". Abort.
Print Assumptions C19_rlock_balanced_unlocks.
Example C19_rlock_nonvacuous :
  let other := [OLock (rl_mk 7); OUnlock 7 rlock_rcount false] in
  Forall (other_op 1) other /\ Forall rl_op (OLock (rl_mk 1) :: other ++ nest 1 [other; other]) /\
  run [] (OLock (rl_mk 1) :: other ++ nest 1 [other; other] ++ unnest 1 [other; other]) = [rl_hold 1 1] /\
  run [] (OLock (rl_mk 1) :: other ++ nest 1 [other; other] ++ unnest 1 [other; other; other]) = [] /\
  run [] (OLock (rl_mk 1) :: other ++ nest 1 [other; other] ++ unnest 1 [other; other; other] ++ other) = [].
Proof. cbv zeta. repeat split; repeat constructor; cbn; congruence. Qed.

(* ---- PriorityLock: Count prioritylock_count, Rcount = priority, priority flag from the generated timeout word *)
Theorem C19_prioritylock_exclusive : forall ops, Forall prioritylock_op ops ->
  locked (run [] ops) <= 1 /\ (length (run [] ops) <= 1)%nat.
Proof. exact prioritylock_exclusive. Qed.
Goal True. idtac "ASSUMPTIONS-OF C19_prioritylock_exclusive". Abort.
Print Assumptions C19_prioritylock_exclusive.
Example C19_prioritylock_nonvacuous :
  let l i p := OLock (mkReq i prioritylock_count (prioritylock_rcount p) (prio_flag_of (prioritylock_timeout 30)) false false false) in
  let ops := [l 1 5; l 2 9; l 1 5; OUnlock 1 5 true; l 2 9] in
  Forall prioritylock_op ops /\ run [] (firstn 3 ops) = [mkHold 1 1 0 5] /\ run [] ops = [mkHold 2 1 0 9].
Proof.
  cbv zeta. split; [|split; reflexivity].
  repeat (apply Forall_cons; [first [exact I | (cbn; repeat split; first [reflexivity | (exists 30; reflexivity) | (eexists; reflexivity)])]|]). apply Forall_nil.
Qed.

(* the hand-over clause in the newcomer window (db.go:2163-2176: waited := false when locked = 0): waiters queued, key
   momentarily free, a newcomer NOT above the waiting maximum.  With the source as it is (switch false) it is accepted —
   the clause is refuted, replayed on the real server by checks/C19.py (signature monitor:priority:handover-barging);
   if LockDB.Lock consults the queue head (switch true) it is not. *)
Theorem C19_prioritylock_handover_newcomer_window :
  (lock_newcomer_checks_wait_queue = false ->
     newcomer_accepted 0 true false (prio_flag_of (prioritylock_timeout 5)) false true prioritylock_count prioritylock_count = true)
  /\
  (lock_newcomer_checks_wait_queue = true ->
     forall pf cur c, newcomer_accepted 0 true false pf false true cur c = false).
Proof. exact priority_newcomer_window. Qed.
Goal True. idtac "ASSUMPTIONS-OF C19_prioritylock_handover_newcomer_window". Abort.
Print Assumptions C19_prioritylock_handover_newcomer_window.
Example C19_prioritylock_handover_switch_is_a_boolean :
  lock_newcomer_checks_wait_queue = false \/ lock_newcomer_checks_wait_queue = true.
Proof. destruct lock_newcomer_checks_wait_queue; auto. Qed.

(* the waiters' priority ring (server/lock.go LockManagerPriorityRingQueue), every push/pop sequence: what the wake-up pass
   takes next (Head) has maximal priority among everything queued, and Pop removes exactly it *)
Theorem C19_prioritylock_queue_head_is_max : forall ops e, let q := qrun [] ops in
  head q = Some e ->
  (forall x, In x (elems q) -> e_prio x <= e_prio e) /\
  fst (pop q) = Some e /\
  (forall x, In x (elems q) <-> In x (elems (snd (pop q))) \/ x = e).
Proof. exact priority_ring_head_is_max. Qed.
Goal True. idtac "ASSUMPTIONS-OF C19_prioritylock_queue_head_is_max". Abort.
Print Assumptions C19_prioritylock_queue_head_is_max.
Example C19_prioritylock_queue_nonvacuous :
  let ops := [QPush (mkE 1 5); QPush (mkE 2 9); QPush (mkE 3 7); QPush (mkE 4 9); QPush (mkE 5 0); QPush (mkE 6 8)] in
  map fst (qrun [] ops) = [9; 8; 7; 5; 0] /\
  head (qrun [] ops) = Some (mkE 2 9) /\
  head (qrun [] (ops ++ [QPop])) = Some (mkE 4 9) /\
  head (qrun [] (ops ++ [QPop; QPop])) = Some (mkE 6 8) /\
  head (qrun [] (ops ++ [QPop; QPop; QPop; QPush (mkE 7 200)])) = Some (mkE 7 200) /\
  head (qrun [] (ops ++ [QPop; QPop; QPop; QPop; QPop; QPop])) = None.
Proof. cbv zeta. repeat split. Qed.

(* ---- Event.Wait (both modes) *)
Theorem C19_event_wait_acceptance : forall s r t, find (r_id r) s = None ->
  (event_wait_setmode_req t r -> fst (try_lock s r) = s /\ (snd (try_lock s r) = Granted -> locked s = 0)) /\
  (event_wait_clearmode_req t r -> fst (try_lock s r) = s /\ (snd (try_lock s r) = Granted -> locked s <> 0)).
Proof. exact event_wait_acceptance. Qed.
Goal True. idtac "ASSUMPTIONS-OF C19_event_wait_acceptance". Abort.
Print Assumptions C19_event_wait_acceptance.
Example C19_event_nonvacuous :
  let ws := mkReq 50 event_setmode_wait_count event_setmode_wait_rcount false true false false in
  let wc := mkReq 51 event_clearmode_wait_count event_clearmode_wait_rcount false true (wait_unlock_flag_of (event_clearmode_wait_timeout 3)) false in
  let cleared := [mkHold 77 1 event_setmode_eventlock_count event_setmode_eventlock_rcount] in     (* default-set event after Clear *)
  let set := [mkHold 77 1 event_clearmode_eventlock_count event_clearmode_eventlock_rcount] in     (* default-clear event after Set *)
  event_wait_setmode_req 3 ws /\ event_wait_clearmode_req 3 wc /\
  snd (try_lock cleared ws) = Refused /\ snd (try_lock [] ws) = Granted /\
  snd (try_lock [] wc) = Refused /\ snd (try_lock set wc) = Granted.
Proof. cbv zeta. repeat split. Qed.

(* Event.Wait of a default-clear event served by a wake-up pass (wakeUpWaitLocks = doLock only).  With the source as it is
   (switch false) a queued Wait is granted on a FREE key — "Wait returns only once the event is set" is refuted, replayed on
   the real server (signature monitor:event:wait-returned-while-clear:default-clear); if the pass re-checks the
   wait-when-unlock flag (switch true) a granted Wait implies a held key. *)
Theorem C19_event_wait_wake_pass : forall t r, event_wait_clearmode_req t r ->
  (wake_pass_rechecks_wait_when_unlock = false -> wake_grant [] r = true) /\
  (wake_pass_rechecks_wait_when_unlock = true -> forall s, wake_grant s r = true -> locked s <> 0).
Proof. exact event_wait_wake_pass. Qed.
Goal True. idtac "ASSUMPTIONS-OF C19_event_wait_wake_pass". Abort.
Print Assumptions C19_event_wait_wake_pass.
Example C19_event_wait_wake_pass_nonvacuous :
  let wc := mkReq 51 event_clearmode_wait_count event_clearmode_wait_rcount false true (wait_unlock_flag_of (event_clearmode_wait_timeout 3)) false in
  event_wait_clearmode_req 3 wc /\
  wake_grant [mkHold 77 1 event_clearmode_eventlock_count event_clearmode_eventlock_rcount] wc = true.
Proof. cbv zeta. repeat split. Qed.
