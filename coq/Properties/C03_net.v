(* C03, connection level -- ownership of command objects between lock records, per-connection free lists and replies in
   flight.  Statements only; model and proofs in coq/ReplyNet/Pool.v.  Tie to the code: the deterministic replay of
   harness/replynet (c03net det) executes the refutation witness below step by step on the real server. *)
From Coq Require Import List Arith Bool.
From Slock Require Import ReplyNet.Pool.
Import ListNotations.

(* If a hold's command object is recycled only after its last reader and into the free list of the connection that
   allocated it (guard_free), or if replies are built from a copy taken under the shard mutex (snapshot: the proposed
   repair), then for ALL request sequences and ALL interleavings of the deliveries of the replies in flight every frame
   written carries a RequestId that was received on the addressed connection: no reply reads a recycled command. *)
Theorem C03_net_no_reply_reads_recycled_command : forall cfg tr,
  guard_free cfg = true \/ snapshot cfg = true ->
  forall c r, In (c, r) (out (run cfg init tr)) -> In (c, r) (sent (run cfg init tr)).
Proof. exact no_reply_reads_recycled_command. Qed.
Goal True. idtac "ASSUMPTIONS-OF C03_net_no_reply_reads_recycled_command". Abort.
Print Assumptions C03_net_no_reply_reads_recycled_command.

(* non-vacuity: both disciplines are configurations, and under each the witness schedule below delivers W's own reply *)
Example C03_net_no_reply_reads_recycled_command_nonvacuous :
  (guard_free discipline_cfg = true \/ snapshot discipline_cfg = true) /\
  (guard_free repaired_cfg = true \/ snapshot repaired_cfg = true) /\
  In (1, 10) (out (run discipline_cfg init witness)) /\ In (1, 10) (out (run repaired_cfg init witness)).
Proof. vm_compute. intuition. Qed.

(* The code before /repo 9866a3d (UnLock frees the removed hold's command onto the releaser's free list while its grant reply may still
   be in flight; replies read the shared object): connection 1 receives a frame with RequestId 22, which only
   connection 2 ever sent, and never a frame for its own request 10. *)
Theorem C03_net_unlock_first_recycles_in_flight_command_refuted :
  exists tr c r, In (c, r) (out (run code_cfg init tr)) /\ ~ In (c, r) (sent (run code_cfg init tr)).
Proof. exact unlock_first_recycles_in_flight_command_refuted. Qed.
Goal True. idtac "ASSUMPTIONS-OF C03_net_unlock_first_recycles_in_flight_command_refuted". Abort.
Print Assumptions C03_net_unlock_first_recycles_in_flight_command_refuted.

Example C03_net_witness_loses_the_reply :
  out (run code_cfg init witness) = [(1, 22); (2, 20)] /\ ~ In (1, 10) (out (run code_cfg init witness)).
Proof. vm_compute. split; [reflexivity|]. intros [H|[H|[]]]; discriminate. Qed.
