(* C15: "a value operation attached to Lock / UnLock is applied exactly once, under the key's mutual exclusion, and
   the reply carries the value from immediately before the operation".
   LOCAL form: every theorem is about ONE call of lock_step / unlock_step / wake_grant / wake_iter (each is one
   critical section of the key's shard mutex in the model) and holds for EVERY state (no reachability assumption;
   requests that carry a value frame are outside the `core` subset of the global invariant).

   Vocabulary (coq/Engine/RunData*.v; written out in C15_value_effect_meaning / C15_aof_bit_invisible):
     gd s k                 = m_data (getm s k): the value stored for key k (None when the key has no manager)
     aofle a b              : b = a, or b = a with the isAof bit set (what the log helpers do to a stored value)
     mk_env c lk wt recov   : the parameters ProcessLockData reads: command type / Flag / ExpriedFlag / Expried of c,
                              lockManager.locked = lk, lockManager.waited = wt, requireRecover = recov
     vstep env frame ld a b ev : b is ONE application of the Data-model function to a:
                              process_lock_data env frame a ld = Ok (cur', _) and aofle cur' b; when the data layer
                              panics / meets EXECUTE: aofle a b and a panic event is in ev
     value_effect c flag env ld s k s' ev : every manager of s' at a key other than k carries the value that key had
                              in s; a manager of s' at k satisfies vstep ... (gd s k) ... when c carries a frame AND
                              flag is set, else aofle (gd s k) ...
     retarget c c1          : c1 is c up to the LockId (show + update re-targeting); uretarget: UnLock's variant
     quiet e                : e is a log record or a panic event *)
From Coq Require Import String List NArith ZArith.
From Slock Require Import Engine.Types Engine.Queues Engine.Timers Engine.Engine Engine.Engine2 Engine.LocalBase
  Engine.InvLockDefs Engine.RunData Engine.RunData2 Engine.RunData3 Engine.RunData4 Engine.RunData5 Engine.RunData6
  Engine.RunData7.
Import ListNotations.
Open Scope N_scope.

(* ================================================================== the vocabulary, written out *)
Theorem C15_value_effect_meaning : forall c flag env ld s k s' ev,
  value_effect c flag env ld s k s' ev <->
  (forall k0 m', k0 <> k -> aget (mgrs s') k0 = Some m' -> m_data m' = m_data (getm s k0))
  /\ (forall m', aget (mgrs s') k = Some m' ->
        match c_data c, flag with
        | Some frame, true =>
            match process_lock_data env frame (m_data (getm s k)) ld with
            | Ok (cur', _) =>
                m_data m' = cur' \/ m_data m' = option_map (fun d => set_isaof d true) cur'
            | _ =>
                (m_data m' = m_data (getm s k)
                 \/ m_data m' = option_map (fun d => set_isaof d true) (m_data (getm s k)))
                /\ exists site, In (EPanic site) ev
            end
        | _, _ =>
            m_data m' = m_data (getm s k) \/ m_data m' = option_map (fun d => set_isaof d true) (m_data (getm s k))
        end)
  /\ (forall frame, c_data c = Some frame -> flag = true ->
        match process_lock_data env frame (m_data (getm s k)) ld with Ok _ => False | _ => True end ->
        exists site, In (EPanic site) ev).
Proof. exact value_effect_meaning. Qed.
Goal True. idtac "ASSUMPTIONS-OF C15_value_effect_meaning". Abort.
Print Assumptions C15_value_effect_meaning.
(* Lock with a SET "a" frame on an empty database: afterwards key 5 holds "a" *)
Example C15_value_effect_meaning_nonvacuous :
  exists s' ev w,
    lock_step (init_db 0 255) 1 (mkCmd true 1 32 7 5 0 0 0 10 5 0 (Some [3;0;0;0;0;0;97])) = (s', ev, w)
    /\ value_effect (mkCmd true 1 32 7 5 0 0 0 10 5 0 (Some [3;0;0;0;0;0;97])) true
                    (mk_env (mkCmd true 1 32 7 5 0 0 0 10 5 0 (Some [3;0;0;0;0;0;97])) 1 false false) None
                    (init_db 0 255) 5 s' ev
    /\ data_of s' 5 = Some [3;0;0;0;0;0;97].
Proof.
  do 3 eexists. split; [vm_compute; reflexivity|]. split; [|vm_compute; reflexivity].
  apply value_effect_meaning. split; [|split].
  - intros k0 m' Hk Hm'. vm_compute in Hm'. destruct (5 =? k0) eqn:E; [apply N.eqb_eq in E; congruence|].
    destruct k0; try discriminate. repeat (destruct p; try discriminate).
  - intros m' Hm'. vm_compute in Hm'. inversion Hm'. vm_compute. left. reflexivity.
  - intros frame Hc _. inversion Hc. subst frame. vm_compute. contradiction.
Qed.

(* what clients see (GetLockData) ignores the isAof bit, and AofLockData changes at most that bit: "the value" is
   compared through data_of, or through m_data up to the bit *)
Theorem C15_aof_bit_invisible :
  (forall a b : option mdata,
     option_map (fun m => set_isaof m false) a = option_map (fun m => set_isaof m false) b ->
     get_lock_data a = get_lock_data b)
  /\ (forall islock cur ld,
        snd (fst (aof_lock_data islock cur ld)) = cur
        \/ snd (fst (aof_lock_data islock cur ld)) = option_map (fun m => set_isaof m true) cur)
  /\ (forall s k, data_of s k = get_lock_data (m_data (getm s k))).
Proof. exact aof_bit_invisible. Qed.
Goal True. idtac "ASSUMPTIONS-OF C15_aof_bit_invisible". Abort.
Print Assumptions C15_aof_bit_invisible.
(* with aofTime 0 the grant is logged at once and the stored value gets the bit *)
Example C15_aof_bit_invisible_nonvacuous :
  exists s', fst (step (init_db 0 0) (AReq 1 (mkCmd true 1 32 7 5 0 0 0 10 5 0 (Some [3;0;0;0;0;0;97])))) = s'
    /\ option_map d_isaof (m_data (getm s' 5)) = Some true /\ data_of s' 5 = Some [3;0;0;0;0;0;97].
Proof. eexists. split; [reflexivity|]. vm_compute. split; reflexivity. Qed.

(* ================================================================== (i) the reply carries the value from BEFORE *)
(* Lock: every reply goes to the requester, echoes its request id and carries data_of of the PRE-state, with two
   named exceptions where nothing is reported: the concurrent-check refusal on an unheld key (Go passes nil), and
   TIMEOUT / STATE_ERROR replies built AFTER the unreferenced manager -- and its value -- was removed *)
Theorem C15_lock_reply_value : forall s conn c s' ev w,
  lock_step s conn c = (s', ev, w) ->
  Forall (fun e => match e with
                   | EReply cn rq code lc lrc lid cnt rc d =>
                       cn = conn /\ rq = c_req c
                       /\ (d = data_of s (c_key c)
                           \/ (d = None /\ code = R_TIMEOUT /\ s' = s /\ m_locked (getm s (c_key c)) = 0)
                           \/ (d = None /\ (code = R_TIMEOUT \/ code = R_STATE_ERROR)
                               /\ aget (mgrs s') (c_key c) = None))
                   | _ => True
                   end) ev.
Proof. exact lock_reply_value. Qed.
Goal True. idtac "ASSUMPTIONS-OF C15_lock_reply_value". Abort.
Print Assumptions C15_lock_reply_value.
(* key 5 holds "a"; a re-lock with SET "b" is answered with "a" and leaves "b" *)
Example C15_lock_reply_value_nonvacuous :
  exists s',
    lock_step (fst (step (init_db 0 255) (AReq 1 (mkCmd true 1 32 7 5 0 0 0 10 5 0 (Some [3;0;0;0;0;0;97])))))
              1 (mkCmd true 2 32 7 5 0 0 0 10 5 3 (Some [3;0;0;0;0;0;98]))
    = (s', [EGrant 5 1 false 1 5 5; EReply 1 2 R_SUCCED 2 2 7 5 3 (Some [3;0;0;0;0;0;97])],
       Some (mkWake 5 (Some 1)))
    /\ data_of s' 5 = Some [3;0;0;0;0;0;98].
Proof. eexists. split; vm_compute; reflexivity. Qed.

(* the exceptions, named: a TIMEOUT / STATE_ERROR reply of Lock carries data_of of the POST-state (it is built after
   FreeLock + RemoveLockManager; equal to the pre-state value whenever the manager survives, C15_lock_reply_value),
   or it is the concurrent-check refusal with LOCK_WAIT_WHEN_UNLOCK on an unheld key, which reports nothing *)
Theorem C15_lock_refusal_reply_post_state : forall s conn c s' ev w cn rq code lc lrc lid cnt rc d,
  lock_step s conn c = (s', ev, w) -> In (EReply cn rq code lc lrc lid cnt rc d) ev ->
  code = R_TIMEOUT \/ code = R_STATE_ERROR ->
  d = data_of s' (c_key c)
  \/ (d = None /\ code = R_TIMEOUT /\ s' = s /\ m_locked (getm s (c_key c)) = 0
      /\ has (c_tflag c) TF_WAIT_WHEN_UNLOCK = true).
Proof. exact lock_refusal_reply_post_state. Qed.
Goal True. idtac "ASSUMPTIONS-OF C15_lock_refusal_reply_post_state". Abort.
Print Assumptions C15_lock_refusal_reply_post_state.
Example C15_lock_refusal_reply_post_state_nonvacuous :
  exists s',
    lock_step (fst (step (init_db 0 255) (AReq 1 (mkCmd true 1 32 7 5 0 0 0 10 0 0 (Some [3;0;0;0;0;0;97])))))
              2 (mkCmd true 6 32 8 5 0 0 0 10 0 0 (Some [3;0;0;0;0;0;98]))
    = (s', [EReply 2 6 R_TIMEOUT 1 0 8 0 0 (Some [3;0;0;0;0;0;97])], None).
Proof. eexists. vm_compute. reflexivity. Qed.

(* both exceptions are real.  (1) on a REACHABLE state: Lock (SET "a") then UnLock leaves key 5 unheld with value
   "a" (the record still sits in the expiry wheel, so the manager survives); a concurrent-check Lock with Timeout 0
   and LOCK_WAIT_WHEN_UNLOCK is answered TIMEOUT with NO value although the key has one (db.go: the reply is built
   with nil).  (2) any-state only: an unreferenced manager carrying a value, not the leader: STATE_ERROR is built
   after the manager was removed and reports nothing *)
Theorem C15_lock_reply_exceptions_real :
  (let s := fst (run (init_db 0 255)
                     [AReq 1 (mkCmd true 1 32 7 5 0 0 0 10 5 0 (Some [3;0;0;0;0;0;97]));
                      AReq 1 (mkCmd false 2 0 7 5 0 0 0 0 0 0 None)]) in
   data_of s 5 = Some [3;0;0;0;0;0;97]
   /\ lock_step s 2 (mkCmd true 3 8 9 5 512 0 0 10 5 0 None) = (s, [EReply 2 3 R_TIMEOUT 0 0 9 5 0 None], None))
  /\ (let s := (setm (init_db 0 255) 5 (new_mgr <| m_data := Some (mk_mdata [3;0;0;0;0;0;97] 0 false) |>))
                 <| leader := false |> in
      data_of s 5 = Some [3;0;0;0;0;0;97]
      /\ exists s', lock_step s 1 (mkCmd true 1 0 7 5 0 0 0 10 5 0 None)
                    = (s', [EReply 1 1 R_STATE_ERROR 0 0 7 5 0 None], None)).
Proof. exact lock_reply_exceptions_real. Qed.
Goal True. idtac "ASSUMPTIONS-OF C15_lock_reply_exceptions_real". Abort.
Print Assumptions C15_lock_reply_exceptions_real.

(* UnLock: the requester's replies (and the reply to a cancelled waiter, code UNLOCK_ERROR) carry data_of of the
   PRE-state; after a cancel that removed the unreferenced manager they carry nothing *)
Theorem C15_unlock_reply_value : forall s conn c s' ev w,
  unlock_step s conn c = (s', ev, w) ->
  Forall (fun e => match e with
                   | EReply cn rq code lc lrc lid cnt rc d =>
                       ((cn = conn /\ rq = c_req c) \/ code = R_UNLOCK_ERROR)
                       /\ (d = data_of s (c_key c)
                           \/ (d = None /\ (code = R_LOCKED_ERROR \/ code = R_UNLOCK_ERROR)
                               /\ aget (mgrs s') (c_key c) = None))
                   | _ => True
                   end) ev.
Proof. exact unlock_reply_value. Qed.
Goal True. idtac "ASSUMPTIONS-OF C15_unlock_reply_value". Abort.
Print Assumptions C15_unlock_reply_value.
(* key 5 holds "a"; UnLock with SET "b" is answered with "a" and leaves "b" *)
Example C15_unlock_reply_value_nonvacuous :
  exists s',
    unlock_step (fst (step (init_db 0 255) (AReq 1 (mkCmd true 1 32 7 5 0 0 0 10 5 0 (Some [3;0;0;0;0;0;97])))))
                1 (mkCmd false 5 32 7 5 0 0 0 0 0 0 (Some [3;0;0;0;0;0;98]))
    = (s', [ERelease 5 1 1; EReply 1 5 R_SUCCED 0 0 7 0 0 (Some [3;0;0;0;0;0;97])], Some (mkWake 5 (Some 1)))
    /\ data_of s' 5 = Some [3;0;0;0;0;0;98].
Proof. eexists. split; vm_compute; reflexivity. Qed.

(* wake-up pass: the reply of a served waiter goes to the waiter's connection, echoes its stored command and carries
   the value from immediately before ITS operation *)
Theorem C15_wake_reply_value : forall s k r via m s' ev,
  wake_grant s k r via = (s', ev) -> aget (mgrs s) k = Some m ->
  Forall (fun e => match e with
                   | EReply cn rq code _ _ lid _ _ d =>
                       cn = l_conn (getl s r) /\ rq = c_req (l_cmd (getl s r)) /\ lid = c_lockid (l_cmd (getl s r))
                       /\ code = R_SUCCED /\ d = data_of s k
                   | _ => True end) ev.
Proof. exact wake_reply_value. Qed.
Goal True. idtac "ASSUMPTIONS-OF C15_wake_reply_value". Abort.
Print Assumptions C15_wake_reply_value.
(* A holds key 5 (value "a"), W waits with SET "b"; A unlocks; the pass serves W: reply "a", value "b" *)
Example C15_wake_reply_value_nonvacuous :
  exists s' m,
    aget (mgrs (fst (fst (unlock_step
       (fst (run (init_db 0 255) [AReq 1 (mkCmd true 1 32 7 5 0 0 0 10 0 0 (Some [3;0;0;0;0;0;97]));
                                  AReq 3 (mkCmd true 7 32 9 5 0 5 0 10 0 0 (Some [3;0;0;0;0;0;98]))]))
       1 (mkCmd false 8 0 7 5 0 0 0 0 0 0 None))))) 5 = Some m
    /\ wake_grant (fst (fst (unlock_step
       (fst (run (init_db 0 255) [AReq 1 (mkCmd true 1 32 7 5 0 0 0 10 0 0 (Some [3;0;0;0;0;0;97]));
                                  AReq 3 (mkCmd true 7 32 9 5 0 5 0 10 0 0 (Some [3;0;0;0;0;0;98]))]))
       1 (mkCmd false 8 0 7 5 0 0 0 0 0 0 None)))) 5 2 None
       = (s', [EGrant 5 2 true 0 0 0; EReply 3 7 R_SUCCED 1 1 9 0 0 (Some [3;0;0;0;0;0;97])])
    /\ data_of s' 5 = Some [3;0;0;0;0;0;98].
Proof. do 2 eexists. split; [vm_compute; reflexivity|]. split; vm_compute; reflexivity. Qed.

(* ================================================================== (ii) a refused request changes no value *)
(* Lock answered TIMEOUT / STATE_ERROR / LOCK_ACK_WAITING / UNOWN_ERROR / LOCKED_ERROR (without the update flag):
   every manager of the new state carries exactly the value its key had before (a manager created and removed again
   leaves nothing), no pass is pending, and the refusal is the ONLY event: no value operation ran (no panic event) *)
Theorem C15_lock_refused_value : forall s conn c s' ev w e code,
  lock_step s conn c = (s', ev, w) -> In e ev ->
  match e with EReply _ _ r _ _ _ _ _ _ => Some r | _ => None end = Some code ->
  (code = R_TIMEOUT \/ code = R_STATE_ERROR \/ code = R_ACK_WAITING \/ code = R_UNOWN_ERROR
   \/ (code = R_LOCKED_ERROR /\ has (c_flag c) LOCK_FLAG_UPDATE = false)) ->
  (forall k0 m', aget (mgrs s') k0 = Some m' -> m_data m' = m_data (getm s k0)) /\ w = None /\ ev = [e].
Proof. exact lock_refused_value. Qed.
Goal True. idtac "ASSUMPTIONS-OF C15_lock_refused_value". Abort.
Print Assumptions C15_lock_refused_value.
(* key 5 held with Count 0; another LockId with SET "b", Timeout 0: TIMEOUT (8), the reply shows "a", value stays "a" *)
Example C15_lock_refused_value_nonvacuous :
  exists s',
    lock_step (fst (step (init_db 0 255) (AReq 1 (mkCmd true 1 32 7 5 0 0 0 10 0 0 (Some [3;0;0;0;0;0;97])))))
              2 (mkCmd true 6 32 8 5 0 0 0 10 0 0 (Some [3;0;0;0;0;0;98]))
    = (s', [EReply 2 6 R_TIMEOUT 1 0 8 0 0 (Some [3;0;0;0;0;0;97])], None)
    /\ data_of s' 5 = Some [3;0;0;0;0;0;97].
Proof. eexists. split; vm_compute; reflexivity. Qed.

(* a queued request (no event; without the update flag nothing else is silent) changes no value either *)
Theorem C15_lock_queued_value : forall s conn c s' w,
  lock_step s conn c = (s', [], w) -> has (c_flag c) LOCK_FLAG_UPDATE = false ->
  (forall k0 m', aget (mgrs s') k0 = Some m' -> m_data m' = m_data (getm s k0)) /\ w = None.
Proof. exact lock_queued_value. Qed.
Goal True. idtac "ASSUMPTIONS-OF C15_lock_queued_value". Abort.
Print Assumptions C15_lock_queued_value.
Example C15_lock_queued_value_nonvacuous :
  exists s',
    lock_step (fst (step (init_db 0 255) (AReq 1 (mkCmd true 1 32 7 5 0 0 0 10 0 0 (Some [3;0;0;0;0;0;97])))))
              3 (mkCmd true 7 32 9 5 0 5 0 10 0 0 (Some [3;0;0;0;0;0;98]))
    = (s', [], None) /\ data_of s' 5 = Some [3;0;0;0;0;0;97].
Proof. eexists. split; vm_compute; reflexivity. Qed.

(* UnLock whose only event is a refusal reply: nothing but UnlockErrorCount changes *)
Theorem C15_unlock_refused_value : forall s conn c s' ev w e code,
  unlock_step s conn c = (s', ev, w) -> ev = [e] ->
  match e with EReply _ _ r _ _ _ _ _ _ => Some r | _ => None end = Some code ->
  (code = R_UNLOCK_ERROR \/ code = R_UNOWN_ERROR \/ code = R_ACK_WAITING \/ code = R_STATE_ERROR) ->
  s' = bump (fun n => n <| n_unlockerr := (n_unlockerr n + 1)%Z |>) s /\ w = None
  /\ (forall k0 m', aget (mgrs s') k0 = Some m' -> m_data m' = m_data (getm s k0)).
Proof. exact unlock_refused_value. Qed.
Goal True. idtac "ASSUMPTIONS-OF C15_unlock_refused_value". Abort.
Print Assumptions C15_unlock_refused_value.
(* UnLock with a LockId that holds nothing, carrying SET "b": UNOWN_ERROR (7), reply shows "a", value stays "a" *)
Example C15_unlock_refused_value_nonvacuous :
  exists s',
    unlock_step (fst (step (init_db 0 255) (AReq 1 (mkCmd true 1 32 7 5 0 0 0 10 5 0 (Some [3;0;0;0;0;0;97])))))
                2 (mkCmd false 5 32 99 5 0 0 0 0 0 0 (Some [3;0;0;0;0;0;98]))
    = (s', [EReply 2 5 R_UNOWN_ERROR 1 0 99 0 0 (Some [3;0;0;0;0;0;97])], None)
    /\ data_of s' 5 = Some [3;0;0;0;0;0;97].
Proof. eexists. split; vm_compute; reflexivity. Qed.

(* UnLock without a SUCCED reply (refusals, cancel-wait whether it finds a waiter or not): no value operation;
   every value is kept, the one of the request's key up to the isAof bit *)
Theorem C15_unlock_no_release_value : forall s conn c s' ev w,
  unlock_step s conn c = (s', ev, w) ->
  (forall e, In e ev -> match e with EReply _ _ r _ _ _ _ _ _ => Some r | _ => None end <> Some R_SUCCED) ->
  (forall k0 m', k0 <> c_key c -> aget (mgrs s') k0 = Some m' -> m_data m' = m_data (getm s k0))
  /\ (forall m', aget (mgrs s') (c_key c) = Some m' -> aofle (m_data (getm s (c_key c))) (m_data m')).
Proof. exact unlock_no_release_value. Qed.
Goal True. idtac "ASSUMPTIONS-OF C15_unlock_no_release_value". Abort.
Print Assumptions C15_unlock_no_release_value.
(* the queued request of LockId 9 is cancelled by an UnLock carrying SET "c": the value stays "a" *)
Example C15_unlock_no_release_value_nonvacuous :
  exists s' e1 e2 w,
    unlock_step (fst (run (init_db 0 255) [AReq 1 (mkCmd true 1 32 7 5 0 0 0 10 0 0 (Some [3;0;0;0;0;0;97]));
                                           AReq 3 (mkCmd true 7 32 9 5 0 5 0 10 0 0 (Some [3;0;0;0;0;0;98]))]))
                4 (mkCmd false 9 34 9 5 0 0 0 0 0 0 (Some [3;0;0;0;0;0;99]))
    = (s', [e1; e2], w)
    /\ e1 = EReply 4 9 R_LOCKED_ERROR 1 0 9 0 0 (Some [3;0;0;0;0;0;97])
    /\ data_of s' 5 = Some [3;0;0;0;0;0;97].
Proof. do 4 eexists. split; [vm_compute; reflexivity|]. split; vm_compute; reflexivity. Qed.

(* the data flag and the frame disagree (flag without frame, frame without flag), or neither is present:
   no value operation at all *)
Theorem C15_lock_no_frame_value : forall s conn c s' ev w,
  lock_step s conn c = (s', ev, w) -> has_data_flag c = false \/ c_data c = None ->
  (forall k0 m', k0 <> c_key c -> aget (mgrs s') k0 = Some m' -> m_data m' = m_data (getm s k0))
  /\ (forall m', aget (mgrs s') (c_key c) = Some m' -> aofle (m_data (getm s (c_key c))) (m_data m')).
Proof. exact lock_no_frame_value. Qed.
Goal True. idtac "ASSUMPTIONS-OF C15_lock_no_frame_value". Abort.
Print Assumptions C15_lock_no_frame_value.
(* a frame without the flag is ignored *)
Example C15_lock_no_frame_value_nonvacuous :
  exists s' ev w,
    lock_step (init_db 0 255) 1 (mkCmd true 1 0 7 5 0 0 0 10 5 0 (Some [3;0;0;0;0;0;97])) = (s', ev, w)
    /\ has_data_flag (mkCmd true 1 0 7 5 0 0 0 10 5 0 (Some [3;0;0;0;0;0;97])) = false
    /\ data_of s' 5 = None.
Proof. do 3 eexists. split; [vm_compute; reflexivity|]. split; vm_compute; reflexivity. Qed.

Theorem C15_unlock_no_frame_value : forall s conn c s' ev w,
  unlock_step s conn c = (s', ev, w) -> has_udata_flag c = false \/ c_data c = None ->
  (forall k0 m', k0 <> c_key c -> aget (mgrs s') k0 = Some m' -> m_data m' = m_data (getm s k0))
  /\ (forall m', aget (mgrs s') (c_key c) = Some m' -> aofle (m_data (getm s (c_key c))) (m_data m')).
Proof. exact unlock_no_frame_value. Qed.
Goal True. idtac "ASSUMPTIONS-OF C15_unlock_no_frame_value". Abort.
Print Assumptions C15_unlock_no_frame_value.
(* the flag without a frame *)
Example C15_unlock_no_frame_value_nonvacuous :
  exists s' ev w,
    unlock_step (fst (step (init_db 0 255) (AReq 1 (mkCmd true 1 32 7 5 0 0 0 10 5 0 (Some [3;0;0;0;0;0;97])))))
                1 (mkCmd false 5 32 7 5 0 0 0 0 0 0 None) = (s', ev, w)
    /\ data_of s' 5 = Some [3;0;0;0;0;0;97].
Proof. do 3 eexists. split; vm_compute; reflexivity. Qed.

(* ================================================================== (iii) exactly once *)
(* structural form: after ANY Lock the value of the request's key is the old one (up to the isAof bit) or ONE
   application of the request's frame to the old value; all other keys keep their value *)
Theorem C15_lock_value_once : forall s conn c s' ev w,
  lock_step s conn c = (s', ev, w) ->
  (forall k0 m', k0 <> c_key c -> aget (mgrs s') k0 = Some m' -> m_data m' = m_data (getm s k0))
  /\ (forall m', aget (mgrs s') (c_key c) = Some m' ->
        aofle (m_data (getm s (c_key c))) (m_data m')
        \/ exists frame env ld,
             c_data c = Some frame /\ has_data_flag c = true /\ pe_islock env = c_lock c /\ pe_flag env = c_flag c
             /\ vstep env frame ld (m_data (getm s (c_key c))) (m_data m') ev).
Proof. exact lock_value_once. Qed.
Goal True. idtac "ASSUMPTIONS-OF C15_lock_value_once". Abort.
Print Assumptions C15_lock_value_once.
Example C15_lock_value_once_nonvacuous :
  exists s' ev w, lock_step (init_db 0 255) 1 (mkCmd true 1 32 7 5 0 0 0 10 5 0 (Some [3;0;0;0;0;0;97])) = (s', ev, w)
                  /\ data_of s' 5 = Some [3;0;0;0;0;0;97].
Proof. do 3 eexists. split; vm_compute; reflexivity. Qed.

Theorem C15_unlock_value_once : forall s conn c s' ev w,
  unlock_step s conn c = (s', ev, w) ->
  (forall k0 m', k0 <> c_key c -> aget (mgrs s') k0 = Some m' -> m_data m' = m_data (getm s k0))
  /\ (forall m', aget (mgrs s') (c_key c) = Some m' ->
        aofle (m_data (getm s (c_key c))) (m_data m')
        \/ exists frame env ld,
             c_data c = Some frame /\ has_udata_flag c = true /\ pe_islock env = c_lock c /\ pe_flag env = c_flag c
             /\ vstep env frame ld (m_data (getm s (c_key c))) (m_data m') ev).
Proof. exact unlock_value_once. Qed.
Goal True. idtac "ASSUMPTIONS-OF C15_unlock_value_once". Abort.
Print Assumptions C15_unlock_value_once.
Example C15_unlock_value_once_nonvacuous :
  exists s' ev w,
    unlock_step (fst (step (init_db 0 255) (AReq 1 (mkCmd true 1 32 7 5 0 0 0 10 5 0 (Some [3;0;0;0;0;0;97])))))
                1 (mkCmd false 5 32 7 5 0 0 0 0 0 0 (Some [3;0;0;0;0;0;98])) = (s', ev, w)
    /\ data_of s' 5 = Some [3;0;0;0;0;0;98].
Proof. do 3 eexists. split; vm_compute; reflexivity. Qed.

Theorem C15_wake_value_once : forall s k r via m s' ev,
  wake_grant s k r via = (s', ev) -> aget (mgrs s) k = Some m ->
  (forall k0 m', k0 <> k -> aget (mgrs s') k0 = Some m' -> m_data m' = m_data (getm s k0))
  /\ (forall m', aget (mgrs s') k = Some m' ->
        aofle (m_data (getm s k)) (m_data m')
        \/ exists frame env ld,
             c_data (l_cmd (getl s r)) = Some frame /\ has_data_flag (l_cmd (getl s r)) = true
             /\ pe_islock env = c_lock (l_cmd (getl s r)) /\ pe_flag env = c_flag (l_cmd (getl s r))
             /\ vstep env frame ld (m_data (getm s k)) (m_data m') ev).
Proof. exact wake_value_once. Qed.
Goal True. idtac "ASSUMPTIONS-OF C15_wake_value_once". Abort.
Print Assumptions C15_wake_value_once.
Example C15_wake_value_once_nonvacuous :
  exists s' ev m,
    aget (mgrs (fst (fst (unlock_step
       (fst (run (init_db 0 255) [AReq 1 (mkCmd true 1 32 7 5 0 0 0 10 0 0 (Some [3;0;0;0;0;0;97]));
                                  AReq 3 (mkCmd true 7 32 9 5 0 5 0 10 0 0 (Some [3;0;0;0;0;0;98]))]))
       1 (mkCmd false 8 0 7 5 0 0 0 0 0 0 None))))) 5 = Some m
    /\ wake_grant (fst (fst (unlock_step
       (fst (run (init_db 0 255) [AReq 1 (mkCmd true 1 32 7 5 0 0 0 10 0 0 (Some [3;0;0;0;0;0;97]));
                                  AReq 3 (mkCmd true 7 32 9 5 0 5 0 10 0 0 (Some [3;0;0;0;0;0;98]))]))
       1 (mkCmd false 8 0 7 5 0 0 0 0 0 0 None)))) 5 2 None = (s', ev)
    /\ data_of s' 5 = Some [3;0;0;0;0;0;98].
Proof. do 3 eexists. split; [vm_compute; reflexivity|]. split; vm_compute; reflexivity. Qed.

(* ---- Lock, fresh grant (new-holder event): ONE application, lockManager.locked is the count AFTER the increment,
   waited as before, the new record has no lock data yet; requireRecover is true exactly when the reply is deferred
   to the acknowledgement (no reply event in this output).  When the data layer panics the value is unchanged, the
   panic event is in the output, and the grant stands (the hypothesis) ---- *)
Theorem C15_lock_grant_value : forall s conn c s' ev w k' r' b cc rc,
  lock_step s conn c = (s', ev, w) -> In (EGrant k' r' true b cc rc) ev ->
  k' = c_key c /\ r' = next s
  /\ exists recov,
       (recov = true <->
        forall e, In e ev -> match e with EReply _ _ r _ _ _ _ _ _ => Some r | _ => None end = None)
       /\ value_effect c (has_data_flag c)
                       (mk_env c (add32 (m_locked (getm s (c_key c))) 1) (m_waited (getm s (c_key c))) recov) None
                       s (c_key c) s' ev.
Proof. exact lock_grant_value. Qed.
Goal True. idtac "ASSUMPTIONS-OF C15_lock_grant_value". Abort.
Print Assumptions C15_lock_grant_value.
(* an EXECUTE frame (outside the data model: Unsupported, reported like a panic): the grant stands, no value *)
Example C15_lock_grant_value_nonvacuous :
  exists s',
    lock_step (init_db 0 255) 1 (mkCmd true 1 32 7 5 0 0 0 10 5 0 (Some [2;0;0;0;5;0]))
    = (s', [EGrant 5 1 true 0 0 5; EPanic "unsupported-data"; EReply 1 1 R_SUCCED 1 1 7 5 0 None], None)
    /\ data_of s' 5 = None.
Proof. eexists. split; vm_compute; reflexivity. Qed.

(* the data layer fails on the frame of a granted Lock (panic of the unrepaired code, or an EXECUTE frame): the grant
   stands, the failure is reported by a panic event, no value changes *)
Theorem C15_lock_grant_failure : forall s conn c s' ev w k' r' b cc rc frame,
  lock_step s conn c = (s', ev, w) -> In (EGrant k' r' true b cc rc) ev ->
  c_data c = Some frame -> has_data_flag c = true ->
  (forall recov,
     match process_lock_data
             (mk_env c (add32 (m_locked (getm s (c_key c))) 1) (m_waited (getm s (c_key c))) recov)
             frame (m_data (getm s (c_key c))) None with Ok _ => False | _ => True end) ->
  ((forall k0 m', k0 <> c_key c -> aget (mgrs s') k0 = Some m' -> m_data m' = m_data (getm s k0))
   /\ (forall m', aget (mgrs s') (c_key c) = Some m' -> aofle (m_data (getm s (c_key c))) (m_data m')))
  /\ exists site, In (EPanic site) ev.
Proof. exact lock_grant_failure. Qed.
Goal True. idtac "ASSUMPTIONS-OF C15_lock_grant_failure". Abort.
Print Assumptions C15_lock_grant_failure.
Example C15_lock_grant_failure_nonvacuous :
  (exists s', lock_step (init_db 0 255) 1 (mkCmd true 1 32 7 5 0 0 0 10 5 0 (Some [2;0;0;0;5;0]))
              = (s', [EGrant 5 1 true 0 0 5; EPanic "unsupported-data"; EReply 1 1 R_SUCCED 1 1 7 5 0 None], None))
  /\ forall recov,
       match process_lock_data (mk_env (mkCmd true 1 32 7 5 0 0 0 10 5 0 (Some [2;0;0;0;5;0])) 1 false recov)
                               [2;0;0;0;5;0] None None with Ok _ => False | _ => True end.
Proof. split; [eexists; vm_compute; reflexivity|]. intros []; vm_compute; exact I. Qed.

(* ---- Lock, one more level of an own hold (re-entrant grant event) ---- *)
Theorem C15_lock_relock_value : forall s conn c s' ev w k' r' b cc rc,
  lock_step s conn c = (s', ev, w) -> In (EGrant k' r' false b cc rc) ev ->
  k' = c_key c /\ b = m_locked (getm s (c_key c))
  /\ (exists c1, retarget c c1 /\ get_locked_lock s (getm s (c_key c)) (c_lockid c1) = Some r')
  /\ value_effect c (has_data_flag c)
                  (mk_env c (add32 (m_locked (getm s (c_key c))) 1) (m_waited (getm s (c_key c))) false)
                  (l_data (getl s r')) s (c_key c) s' ev.
Proof. exact lock_relock_value. Qed.
Goal True. idtac "ASSUMPTIONS-OF C15_lock_relock_value". Abort.
Print Assumptions C15_lock_relock_value.
Example C15_lock_relock_value_nonvacuous :
  exists s' ev w,
    lock_step (fst (step (init_db 0 255) (AReq 1 (mkCmd true 1 32 7 5 0 0 0 10 5 0 (Some [3;0;0;0;0;0;97])))))
              1 (mkCmd true 2 32 7 5 0 0 0 10 5 3 (Some [3;0;0;0;0;0;98])) = (s', ev, w)
    /\ In (EGrant 5 1 false 1 5 5) ev /\ data_of s' 5 = Some [3;0;0;0;0;0;98].
Proof. do 3 eexists. split; [vm_compute; reflexivity|]. split; [left; reflexivity|vm_compute; reflexivity]. Qed.

(* ---- Lock, update of an own hold (update flag set; LOCKED_ERROR reports the update): ONE application with the
   counters unchanged ---- *)
Theorem C15_lock_update_value : forall s conn c s' ev w e,
  lock_step s conn c = (s', ev, w) -> has (c_flag c) LOCK_FLAG_UPDATE = true ->
  In e ev -> match e with EReply _ _ r _ _ _ _ _ _ => Some r | _ => None end = Some R_LOCKED_ERROR ->
  exists c1 r, retarget c c1 /\ get_locked_lock s (getm s (c_key c)) (c_lockid c1) = Some r
    /\ value_effect c (has_data_flag c)
                    (mk_env c (m_locked (getm s (c_key c))) (m_waited (getm s (c_key c))) false)
                    (l_data (getl s r)) s (c_key c) s' ev.
Proof. exact lock_update_value. Qed.
Goal True. idtac "ASSUMPTIONS-OF C15_lock_update_value". Abort.
Print Assumptions C15_lock_update_value.
Example C15_lock_update_value_nonvacuous :
  exists s',
    lock_step (fst (step (init_db 0 255) (AReq 1 (mkCmd true 1 32 7 5 0 0 0 10 5 0 (Some [3;0;0;0;0;0;97])))))
              1 (mkCmd true 3 34 7 5 0 0 0 20 5 0 (Some [3;0;0;0;0;0;98]))
    = (s', [EReply 1 3 R_LOCKED_ERROR 1 1 7 5 0 (Some [3;0;0;0;0;0;97])], Some (mkWake 5 (Some 1)))
    /\ data_of s' 5 = Some [3;0;0;0;0;0;98].
Proof. eexists. split; vm_compute; reflexivity. Qed.

(* ---- Lock with Expried = 0 answered SUCCED: a probe of an own hold (nothing changes) or the value write without
   a hold: ONE application with the counters unchanged ---- *)
Theorem C15_lock_zero_expiry_value : forall s conn c s' ev w e,
  lock_step s conn c = (s', ev, w) -> c_expried c = 0 ->
  In e ev -> match e with EReply _ _ r _ _ _ _ _ _ => Some r | _ => None end = Some R_SUCCED ->
  (s' = s /\ ev = [e])
  \/ value_effect c (has_data_flag c)
                  (mk_env c (m_locked (getm s (c_key c))) (m_waited (getm s (c_key c))) false) None
                  s (c_key c) s' ev.
Proof. exact lock_zero_expiry_value. Qed.
Goal True. idtac "ASSUMPTIONS-OF C15_lock_zero_expiry_value". Abort.
Print Assumptions C15_lock_zero_expiry_value.
(* key 5 is held (Count 5, value "a"); another LockId writes "b" with Expried = 0: reply "a", value "b" *)
Example C15_lock_zero_expiry_value_nonvacuous :
  exists s',
    lock_step (fst (step (init_db 0 255) (AReq 1 (mkCmd true 1 32 7 5 0 0 0 10 5 0 (Some [3;0;0;0;0;0;97])))))
              2 (mkCmd true 4 32 8 5 0 0 0 0 5 0 (Some [3;0;0;0;0;0;98]))
    = (s', [EReply 2 4 R_SUCCED 1 0 8 5 0 (Some [3;0;0;0;0;0;97])], None)
    /\ data_of s' 5 = Some [3;0;0;0;0;0;98].
Proof. eexists. split; vm_compute; reflexivity. Qed.

(* ---- OBSERVATION (the Go behaviour being modelled): an answered Lock with Expried = 0 on a key WITHOUT manager
   leaves no manager: the record it created was the only reference, so the manager is removed together with the
   value just written.  The written value is never observable; the reply carries None ---- *)
Theorem C15_zero_expiry_value_lost : forall s conn c s' ev w e code,
  lock_step s conn c = (s', ev, w) -> aget (mgrs s) (c_key c) = None -> c_expried c = 0 ->
  In e ev -> match e with EReply _ _ r _ _ _ _ _ _ => Some r | _ => None end = Some code ->
  aget (mgrs s') (c_key c) = None /\ data_of s' (c_key c) = None.
Proof. exact lock_fresh_zero_expiry_lost. Qed.
Goal True. idtac "ASSUMPTIONS-OF C15_zero_expiry_value_lost". Abort.
Print Assumptions C15_zero_expiry_value_lost.
Example C15_zero_expiry_value_lost_nonvacuous :
  exists s',
    lock_step (init_db 0 255) 2 (mkCmd true 4 32 8 6 0 0 0 0 5 0 (Some [3;0;0;0;0;0;98]))
    = (s', [EReply 2 4 R_SUCCED 0 0 8 5 0 None], None)
    /\ mgrs s' = [].
Proof. eexists. split; vm_compute; reflexivity. Qed.

(* ---- UnLock answered SUCCED, releasing d levels (d = 1 or the whole depth): ONE application with
   lockManager.locked AFTER the decrement; never recorded as recoverable.  c1 is the command as the release sees it
   (with UNLOCK_FLAG_FIRST the expiry terms come from the current holder; type, flag and frame never change) ---- *)
Theorem C15_unlock_release_value : forall s conn c s' ev w e k' r' d,
  unlock_step s conn c = (s', ev, w) -> In e ev ->
  match e with EReply _ _ r _ _ _ _ _ _ => Some r | _ => None end = Some R_SUCCED -> In (ERelease k' r' d) ev ->
  k' = c_key c /\ (d = 1 \/ d = l_locked (getl s r'))
  /\ exists c1,
       (c_lock c1 = c_lock c /\ c_req c1 = c_req c /\ c_flag c1 = c_flag c /\ c_key c1 = c_key c
        /\ c_data c1 = c_data c)
       /\ value_effect c (has_udata_flag c)
                       (mk_env c1 (sub32 (m_locked (getm s (c_key c))) d) (m_waited (getm s (c_key c))) false)
                       (l_data (getl s r')) s (c_key c) s' ev.
Proof. exact unlock_release_value. Qed.
Goal True. idtac "ASSUMPTIONS-OF C15_unlock_release_value". Abort.
Print Assumptions C15_unlock_release_value.
Example C15_unlock_release_value_nonvacuous :
  exists s' ev w,
    unlock_step (fst (step (init_db 0 255) (AReq 1 (mkCmd true 1 32 7 5 0 0 0 10 5 0 (Some [3;0;0;0;0;0;97])))))
                1 (mkCmd false 5 32 7 5 0 0 0 0 0 0 (Some [3;0;0;0;0;0;98])) = (s', ev, w)
    /\ In (ERelease 5 1 1) ev /\ In (EReply 1 5 R_SUCCED 0 0 7 0 0 (Some [3;0;0;0;0;0;97])) ev
    /\ data_of s' 5 = Some [3;0;0;0;0;0;98].
Proof.
  do 3 eexists. split; [vm_compute; reflexivity|].
  split; [left; reflexivity|]. split; [right; left; reflexivity|vm_compute; reflexivity].
Qed.

(* ---- wake-up pass: a queued request becomes a holder: ONE application of the frame of its STORED command, with
   the count AFTER the increment; recoverable exactly when its reply is deferred to the acknowledgement ---- *)
Theorem C15_wake_grant_value : forall s k r via m s' ev k' r' b cc rc,
  wake_grant s k r via = (s', ev) -> aget (mgrs s) k = Some m -> In (EGrant k' r' true b cc rc) ev ->
  k' = k /\ r' = r
  /\ exists recov,
       (recov = true <->
        forall e, In e ev -> match e with EReply _ _ r _ _ _ _ _ _ => Some r | _ => None end = None)
       /\ value_effect (l_cmd (getl s r)) (has_data_flag (l_cmd (getl s r)))
                       (mk_env (l_cmd (getl s r)) (add32 (m_locked m) 1) (m_waited m) recov) (l_data (getl s r))
                       s k s' ev.
Proof. exact wake_grant_value. Qed.
Goal True. idtac "ASSUMPTIONS-OF C15_wake_grant_value". Abort.
Print Assumptions C15_wake_grant_value.
Example C15_wake_grant_value_nonvacuous :
  exists s' ev m,
    aget (mgrs (fst (fst (unlock_step
       (fst (run (init_db 0 255) [AReq 1 (mkCmd true 1 32 7 5 0 0 0 10 0 0 (Some [3;0;0;0;0;0;97]));
                                  AReq 3 (mkCmd true 7 32 9 5 0 5 0 10 0 0 (Some [3;0;0;0;0;0;98]))]))
       1 (mkCmd false 8 0 7 5 0 0 0 0 0 0 None))))) 5 = Some m
    /\ wake_grant (fst (fst (unlock_step
       (fst (run (init_db 0 255) [AReq 1 (mkCmd true 1 32 7 5 0 0 0 10 0 0 (Some [3;0;0;0;0;0;97]));
                                  AReq 3 (mkCmd true 7 32 9 5 0 5 0 10 0 0 (Some [3;0;0;0;0;0;98]))]))
       1 (mkCmd false 8 0 7 5 0 0 0 0 0 0 None)))) 5 2 None = (s', ev)
    /\ In (EGrant 5 2 true 0 0 0) ev.
Proof. do 3 eexists. split; [vm_compute; reflexivity|]. split; [vm_compute; reflexivity|left; reflexivity]. Qed.

(* a served waiter with Expried = 0 (answered, no hold, no millisecond give-up): ONE application, counters unchanged *)
Theorem C15_wake_zero_expiry_value : forall s k r via m s' ev,
  wake_grant s k r via = (s', ev) -> aget (mgrs s) k = Some m ->
  (forall k' r' b cc rc, ~ In (EGrant k' r' true b cc rc) ev) -> (forall site, ev <> [EPanic site]) ->
  c_expried (l_cmd (getl s r)) = 0
  /\ value_effect (l_cmd (getl s r)) (has_data_flag (l_cmd (getl s r)))
                  (mk_env (l_cmd (getl s r)) (m_locked m) (m_waited m) false) (l_data (getl s r)) s k s' ev.
Proof. exact wake_zero_expiry_value. Qed.
Goal True. idtac "ASSUMPTIONS-OF C15_wake_zero_expiry_value". Abort.
Print Assumptions C15_wake_zero_expiry_value.
(* W waits with Expried = 0 and SET "b" (queued because the key is held with Count 0); after the release it is served *)
Example C15_wake_zero_expiry_value_nonvacuous :
  exists s' m,
    aget (mgrs (fst (fst (unlock_step
       (fst (run (init_db 0 255) [AReq 1 (mkCmd true 1 32 7 5 0 0 0 10 0 0 (Some [3;0;0;0;0;0;97]));
                                  AReq 3 (mkCmd true 7 32 9 5 0 5 0 0 0 0 (Some [3;0;0;0;0;0;98]))]))
       1 (mkCmd false 8 0 7 5 0 0 0 0 0 0 None))))) 5 = Some m
    /\ wake_grant (fst (fst (unlock_step
       (fst (run (init_db 0 255) [AReq 1 (mkCmd true 1 32 7 5 0 0 0 10 0 0 (Some [3;0;0;0;0;0;97]));
                                  AReq 3 (mkCmd true 7 32 9 5 0 5 0 0 0 0 (Some [3;0;0;0;0;0;98]))]))
       1 (mkCmd false 8 0 7 5 0 0 0 0 0 0 None)))) 5 2 None
       = (s', [EReply 3 7 R_SUCCED 0 0 9 0 0 (Some [3;0;0;0;0;0;97])])
    /\ data_of s' 5 = Some [3;0;0;0;0;0;98].
Proof. do 2 eexists. split; [vm_compute; reflexivity|]. split; vm_compute; reflexivity. Qed.

(* one iteration of wakeUpWaitLocks: nothing is served (no event, no value changes), or the first live waiter r is
   served by wake_grant in the state s1 reached by popping dead entries, which changes no value / count / waited *)
Theorem C15_wake_iter_value : forall s w s' ev res,
  wake_iter s w = (s', ev, res) ->
  (res = WDone /\ ev = [] /\ (forall k0 m', aget (mgrs s') k0 = Some m' -> m_data m' = m_data (getm s k0)))
  \/ (res = WMore
      /\ exists s1 r m, get_wait_lock s (w_key w) = (s1, Some r)
         /\ (forall k0 m', aget (mgrs s1) k0 = Some m' -> m_data m' = m_data (getm s k0))
         /\ (forall k0, m_data (getm s1 k0) = m_data (getm s k0))
         /\ aget (mgrs s) (w_key w) = Some m
         /\ exists m1, aget (mgrs s1) (w_key w) = Some m1 /\ m_locked m1 = m_locked m /\ m_waited m1 = m_waited m
         /\ wake_cases s1 (w_key w) r m1 s' ev).
Proof. exact wake_iter_value. Qed.
Goal True. idtac "ASSUMPTIONS-OF C15_wake_iter_value". Abort.
Print Assumptions C15_wake_iter_value.
Example C15_wake_iter_value_nonvacuous :
  exists s' ev,
    wake_iter (fst (fst (unlock_step
       (fst (run (init_db 0 255) [AReq 1 (mkCmd true 1 32 7 5 0 0 0 10 0 0 (Some [3;0;0;0;0;0;97]));
                                  AReq 3 (mkCmd true 7 32 9 5 0 5 0 10 0 0 (Some [3;0;0;0;0;0;98]))]))
       1 (mkCmd false 8 0 7 5 0 0 0 0 0 0 None)))) (mkWake 5 (Some 1)) = (s', ev, WMore)
    /\ data_of s' 5 = Some [3;0;0;0;0;0;98].
Proof. do 2 eexists. split; vm_compute; reflexivity. Qed.

(* ================================================================== complete case descriptions *)
(* every outcome of Lock: events and effect on the values (lock_cases / tail_cases: coq/Engine/RunData2.v, RunData3.v:
   A concurrent-check refusal | B STATE_ERROR | C refusal or probe on a held key | D update | E re-lock |
   F new record: 1 grant pending acknowledgement, 2 grant, 3 Expried = 0, 4 queued, 5 TIMEOUT, 6 millisecond flags) *)
Theorem C15_lock_cases : forall s conn c s' ev w,
  lock_step s conn c = (s', ev, w) -> lock_cases s conn c s' ev w.
Proof. exact lock_step_cases. Qed.
Goal True. idtac "ASSUMPTIONS-OF C15_lock_cases". Abort.
Print Assumptions C15_lock_cases.
Example C15_lock_cases_nonvacuous :
  exists s' ev w, lock_step (init_db 0 255) 1 (mkCmd true 1 32 7 5 0 0 0 10 5 0 (Some [3;0;0;0;0;0;97])) = (s', ev, w).
Proof. do 3 eexists. vm_compute. reflexivity. Qed.

(* every outcome of UnLock (unlock_cases: RunData4.v: A refusal | B cancel-wait success | C release of d levels) *)
Theorem C15_unlock_cases : forall s conn c s' ev w,
  unlock_step s conn c = (s', ev, w) -> unlock_cases s conn c s' ev w.
Proof. exact unlock_step_cases. Qed.
Goal True. idtac "ASSUMPTIONS-OF C15_unlock_cases". Abort.
Print Assumptions C15_unlock_cases.
Example C15_unlock_cases_nonvacuous :
  exists s' ev w, unlock_step (init_db 0 255) 1 (mkCmd false 5 32 7 5 0 0 0 0 0 0 (Some [3;0;0;0;0;0;98])) = (s', ev, w).
Proof. do 3 eexists. vm_compute. reflexivity. Qed.

(* every outcome of serving a waiter (wake_cases: RunData5.v) *)
Theorem C15_wake_cases : forall s k r via m s' ev,
  wake_grant s k r via = (s', ev) -> aget (mgrs s) k = Some m -> wake_cases s k r m s' ev.
Proof. exact wake_grant_cases. Qed.
Goal True. idtac "ASSUMPTIONS-OF C15_wake_cases". Abort.
Print Assumptions C15_wake_cases.
Example C15_wake_cases_nonvacuous :
  exists s' ev m,
    aget (mgrs (fst (fst (unlock_step
       (fst (run (init_db 0 255) [AReq 1 (mkCmd true 1 32 7 5 0 0 0 10 0 0 (Some [3;0;0;0;0;0;97]));
                                  AReq 3 (mkCmd true 7 32 9 5 0 5 0 10 0 0 (Some [3;0;0;0;0;0;98]))]))
       1 (mkCmd false 8 0 7 5 0 0 0 0 0 0 None))))) 5 = Some m
    /\ wake_grant (fst (fst (unlock_step
       (fst (run (init_db 0 255) [AReq 1 (mkCmd true 1 32 7 5 0 0 0 10 0 0 (Some [3;0;0;0;0;0;97]));
                                  AReq 3 (mkCmd true 7 32 9 5 0 5 0 10 0 0 (Some [3;0;0;0;0;0;98]))]))
       1 (mkCmd false 8 0 7 5 0 0 0 0 0 0 None)))) 5 2 None = (s', ev).
Proof. do 3 eexists. split; vm_compute; reflexivity. Qed.
