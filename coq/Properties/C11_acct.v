(* C11, engine accounting for the acknowledgement path (PARTIAL): a concrete engine invariant E for the contract
   `eng_contract` of Engine/AckSoundDefs.v and the clauses proved for it.
   E Q s P (Engine/AckAcctE.v) = the heap invariant of Engine/InvDef.v re-established for require-ack locks
   (Engine/AckAcctDef.v: the reference of a registration is a member of the ghost list g_xe = P, i.e. the reference
   equation reads  refCount = holder list + wait queue + timeout structures + expiry structures + (1 if r in P))
   + leader + RequestIds of allocated records distinct and in Q + pending records are not timeouted.
   Proved: 9 of the 11 clauses (ec_init, ec_leader, ec_alloc, ec_nodup, ec_inj, ec_pend, ec_shape, ec_setack, ec_drop).
   NOT proved: ec_step, ec_ack -- hence `EngineAccounting` is NOT derived here and the `_partial` theorems of
   C11_sound.v keep their hypothesis.  (ec_step as stated has no bound on the number of requests; the exact reference
   equation is only inductive while LockManager.refCount (uint32) cannot wrap, cf. `next s < MAXREC` in
   Engine/InvMain.inv_step.) *)
From Coq Require Import String List NArith ZArith.
From Slock Require Import Engine.Types Engine.Queues Engine.Timers Engine.Engine Engine.Engine2 Engine.Ack.
From Slock Require Import Engine.AckSoundDefs Engine.AckAcctE.
Import ListNotations.
Open Scope N_scope.

(* the clauses of eng_contract that only read the invariant *)
Theorem C11_acct_static_clauses :
  (forall t0 aoft, aoft <> 255 -> E [] (init_db t0 aoft) [])
  /\ (forall Q s P, E Q s P -> leader s = true)
  /\ (forall Q s P x, E Q s P -> In x P -> aget (store s) x <> None)
  /\ (forall Q s P, E Q s P -> NoDup P)
  /\ (forall Q s P x y lx ly, E Q s P -> aget (store s) x = Some lx -> aget (store s) y = Some ly ->
        c_req (l_cmd lx) = c_req (l_cmd ly) -> x = y)
  /\ (forall Q s P x, E Q s P -> pend s x -> In x P)
  /\ (forall Q s P x, E Q s P -> In x P -> pend s x ->
        l_expried (getl s x) = true /\ l_locked (getl s x) <> 0 /\ l_timeouted (getl s x) = false
        /\ has (c_eflag (l_cmd (getl s x))) EF_MILLISECOND = false).
Proof.
  exact (conj E_init (conj E_leader (conj E_alloc (conj E_nodup (conj E_inj (conj E_pend E_shape)))))).
Qed.
Goal True. idtac "ASSUMPTIONS-OF C11_acct_static_clauses". Abort.
Print Assumptions C11_acct_static_clauses.
Example C11_acct_static_clauses_nonvacuous : E [] (init_db 1000000 1) [].
Proof. apply E_init. discriminate. Qed.

(* ec_setack: the layer's write of the counter of a pending record *)
Theorem C11_acct_setack : forall Q s P x c, E Q s P -> In x P -> pend s x -> c <> 255 ->
  E Q (updl s x (fun l => l <| l_ack := c |>)) P.
Proof. exact E_setack. Qed.
Goal True. idtac "ASSUMPTIONS-OF C11_acct_setack". Abort.
Print Assumptions C11_acct_setack.

(* ec_drop: ProcessLeaderPushUnLock on a record that was rolled back -- DoAckLock drops the reference *)
Theorem C11_acct_drop : forall Q s P x s1 ev1 P', E Q s P -> In x P -> l_ack (getl s x) = 255 ->
  finish (do_ack s x false) = (s1, ev1) ->
  (forall y, In y P' <-> In y P /\ y <> x) -> NoDup P' -> E Q s1 P'.
Proof. exact E_drop. Qed.
Goal True. idtac "ASSUMPTIONS-OF C11_acct_drop". Abort.
Print Assumptions C11_acct_drop.
