(* C01, local form: whenever the engine adds a NEW holder to a key (events `EGrant _ _ true ..`, emitted by Lock and by
   the wake-up pass), the counters it saw -- lockManager.locked before the grant, Count of the oldest holder, the
   request's Count -- satisfy the admission rule doLock, and they are the values of the state in which doLock was
   evaluated.  Every state (no reachability assumption), every action, every sequence of actions. *)
From Coq Require Import String List NArith ZArith.
From Slock Require Import Engine.Types Engine.Queues Engine.Timers Engine.Engine Engine.Engine2 Engine.LocalC01.
Import ListNotations.
Open Scope N_scope.

Theorem C01_grant_rule : forall s a,
  Forall (fun e => match e with
                   | EGrant _ _ true before cc rc => do_lock_rule before cc rc = true
                   | _ => True end) (snd (step s a)).
Proof. exact C01_grant_rule_step. Qed.
Goal True. idtac "ASSUMPTIONS-OF C01_grant_rule". Abort.
Print Assumptions C01_grant_rule.
Example C01_grant_rule_nonvacuous :
  In (EGrant 5 1 true 0 0 0) (snd (step (init_db 0 0) (AReq 1 (mkCmd true 1 0 7 5 0 0 0 10 0 0 None)))).
Proof. vm_compute. auto. Qed.

Theorem C01_grant_rule_runs : forall s acts,
  Forall (Forall (fun e => match e with
                           | EGrant _ _ true before cc rc => do_lock_rule before cc rc = true
                           | _ => True end)) (snd (run s acts)).
Proof. exact C01_grant_rule_run. Qed.
Goal True. idtac "ASSUMPTIONS-OF C01_grant_rule_runs". Abort.
Print Assumptions C01_grant_rule_runs.
(* a second holder with Count 1 is accepted while one hold is outstanding: before = 1, cc = 1, rc = 1 *)
Example C01_grant_rule_runs_nonvacuous :
  In (EGrant 5 2 true 1 1 1)
     (concat (snd (run (init_db 0 0) [AReq 1 (mkCmd true 1 0 7 5 0 0 0 10 1 0 None);
                                      AReq 2 (mkCmd true 2 0 8 5 0 0 0 10 1 0 None)]))).
Proof. vm_compute. auto. Qed.

(* the recorded counters are the pre-state values: Lock *)
Theorem C01_lock_records_prestate : forall s conn c s' ev w,
  lock_step s conn c = (s', ev, w) ->
  Forall (fun e => match e with
                   | EGrant k r true b cc rc =>
                       k = c_key c /\
                       exists c1 s0,
                         new_lock (get_or_new_mgr s k) k conn c1 = (s0, r)
                         /\ c1 = c <| c_lockid := c_lockid c1 |>
                         /\ b = m_locked (getm s0 k) /\ cc = cur_count s0 k
                         /\ rc = c_count (l_cmd (getl s0 r)) /\ do_lock s0 k r = true
                   | _ => True end) ev.
Proof. exact lock_step_grants_explicit. Qed.
Goal True. idtac "ASSUMPTIONS-OF C01_lock_records_prestate". Abort.
Print Assumptions C01_lock_records_prestate.
Example C01_lock_records_prestate_nonvacuous :
  exists s' w, lock_step (init_db 0 255) 1 (mkCmd true 1 0 7 5 0 0 0 10 0 0 None)
               = (s', [EGrant 5 1 true 0 0 0; EReply 1 1 0 1 1 7 0 0 None], w).
Proof. eexists. eexists. vm_compute. reflexivity. Qed.

(* ... and the wake-up pass: the counters of the state right after GetWaitLock *)
Theorem C01_wake_records_prestate : forall s w s' ev res,
  wake_iter s w = (s', ev, res) ->
  Forall (fun e => match e with
                   | EGrant k r true b cc rc =>
                       let s0 := fst (get_wait_lock s (w_key w)) in
                       b = m_locked (getm s0 k) /\ cc = cur_count s0 k
                       /\ rc = c_count (l_cmd (getl s0 r)) /\ do_lock s0 k r = true
                   | _ => True end) ev.
Proof. exact wake_iter_grants. Qed.
Goal True. idtac "ASSUMPTIONS-OF C01_wake_records_prestate". Abort.
Print Assumptions C01_wake_records_prestate.
(* holder A (Count 0), waiter B queues, A unlocks: the wake-up pass grants B with before = 0 *)
Example C01_wake_records_prestate_nonvacuous :
  In (EGrant 5 2 true 0 0 0)
     (concat (snd (run (init_db 0 0) [AReq 1 (mkCmd true 1 0 7 5 0 0 0 10 0 0 None);
                                      AReq 2 (mkCmd true 2 0 8 5 0 5 0 10 0 0 None);
                                      AReq 1 (mkCmd false 3 0 7 5 0 0 0 0 0 0 None)]))).
Proof. vm_compute. auto 10. Qed.

(* arithmetic reading of the rule *)
Theorem C01_rule_meaning : forall b cc rc,
  do_lock_rule b cc rc = true ->
  b = 0 \/ (b <= cc /\ b <= rc /\ b < 65535) \/ (65535 <= b < 2147483647 /\ cc = 65535 /\ rc = 65535).
Proof. exact do_lock_rule_meaning. Qed.
Goal True. idtac "ASSUMPTIONS-OF C01_rule_meaning". Abort.
Print Assumptions C01_rule_meaning.
Example C01_rule_meaning_nonvacuous :
  do_lock_rule 0 0 0 = true /\ do_lock_rule 3 5 4 = true /\ do_lock_rule 70000 65535 65535 = true.
Proof. vm_compute. auto. Qed.

(* Count 0 is a mutex: a new holder is accepted only on an idle key *)
Theorem C01_count0_mutex : forall b cc, do_lock_rule b cc 0 = true -> b = 0.
Proof. exact do_lock_rule_count0. Qed.
Goal True. idtac "ASSUMPTIONS-OF C01_count0_mutex". Abort.
Print Assumptions C01_count0_mutex.
Example C01_count0_mutex_nonvacuous : do_lock_rule 0 0 0 = true /\ do_lock_rule 1 0 0 = false.
Proof. vm_compute. auto. Qed.

(* all users pass the same Count c < 0xffff: at most c holds before a grant, c + 1 after *)
Theorem C01_same_count : forall b c, c < 65535 -> do_lock_rule b c c = true -> b <= c.
Proof. exact do_lock_rule_same_count. Qed.
Goal True. idtac "ASSUMPTIONS-OF C01_same_count". Abort.
Print Assumptions C01_same_count.
Example C01_same_count_nonvacuous : do_lock_rule 3 3 3 = true /\ do_lock_rule 4 3 3 = false.
Proof. vm_compute. auto. Qed.
