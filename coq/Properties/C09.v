(* C09 -- followers apply the leader's log exactly and converge.  Statements only; proofs in Repl/ReplProofs.v (ring),
   Repl/SyncProofs.v (protocol), Repl/Transfer.v (boundary of the full transfer on rotated logs), Repl/Handover.v (lock
   hand-over of Aof.PushLock).  Models: Repl/Ring.v (ReplicationBufferQueue), Repl/Sync.v (SYNC protocol),
   Transfer.send_files (the sendFiles closure), Handover.hstep (interleavings of PushLock). *)
From Coq Require Import List NArith Bool PeanoNat.
From Slock Require Import Base.Util Repl.Ring Repl.ReplProofs Repl.Sync Repl.SyncProofs Repl.Transfer Repl.Handover.
Import ListNotations.

(* ---- ring refinement, all schedules of ring operations (Push / NewCursor / Pop / Head / Search / AddPoll / RemovePoll /
        Sent / handleInitSync-with-id), any buffer sizes: a Pop through any cursor returns exactly the next record of the
        pushed history, or the explicit out-of-buf error (only if the cursor's position was evicted), or EOF (only at the
        end) -- never a wrong record.  rguarded: < 2^64-2 pushes, < 2^32-2 AddPolls, RemovePoll only after AddPoll, and for the
        code as written AddPoll only on a cursor whose item is not on the free list (see C09_ring_R1_refuted). ---- *)
Theorem C09_ring_pop_refines : forall rc bufSize maxSize lastId ops,
  let s0 := Ring.init_state bufSize maxSize lastId in
  rguarded rc s0 (mkGhost [] 0) ops ->
  let s := fst (grun rc s0 (mkGhost [] 0) ops) in
  let g := snd (grun rc s0 (mkGhost [] 0) ops) in
  forall k c, aget (scurs s) k = Some c ->
    pop_ok rc (sring s) (ghist g) c (fst (pop rc (sring s) c)) (snd (pop rc (sring s) c)).
Proof. exact ring_pop_refines_all_schedules. Qed.
Goal True. idtac "ASSUMPTIONS-OF C09_ring_pop_refines". Abort.
Print Assumptions C09_ring_pop_refines.

Theorem C09_ring_search_iff_buffered : forall rc bufSize maxSize lastId ops,
  let s0 := Ring.init_state bufSize maxSize lastId in
  rguarded rc s0 (mkGhost [] 0) ops ->
  let s := fst (grun rc s0 (mkGhost [] 0) ops) in
  let g := snd (grun rc s0 (mkGhost [] 0) ops) in
  forall id c, (fst (search (sring s) id c) = ROk <-> exists it, In it (live (sring s)) /\ iid it = id) /\
               (forall k, aget (scurs s) k = Some c -> CInv (sring s) (ghist g) (snd (search (sring s) id c))).
Proof. exact ring_search_refines_all_schedules. Qed.
Goal True. idtac "ASSUMPTIONS-OF C09_ring_search_iff_buffered". Abort.
Print Assumptions C09_ring_search_iff_buffered.

(* non-vacuity: a server-lifecycle sequence on the code as written satisfies the guard and delivers records *)
Example C09_ring_guard_satisfiable :
  let ops := [OPush 1 1 7 100 None; ONewCur 0; OHead 0; OAddPoll 0; OPush 2 1 7 101 (Some (3, 9)); OSent 0; OPop 0; OSent 0; OPop 0] in
  rguarded code_rcfg (Ring.init_state 256 256 0) (mkGhost [] 0) ops /\
  nth 6 (snd (Ring.run code_rcfg (Ring.init_state 256 256 0) ops)) [] = [0; 2; 1; 7; 101; 4; 9; 1; 0; 2]%N.
Proof.
  split; [|vm_compute; reflexivity].
  simpl. repeat split; try (vm_compute; intros; discriminate); try (vm_compute; reflexivity).
  intros c Hc. inversion Hc; subst. intros _ r Hr. inversion Hr; subst. vm_compute. reflexivity.
Qed.

(* ---- the code as written: AddPoll on a cursor whose item was evicted (ring's first record) ---- *)
Theorem C09_ring_R1_refuted :
  r1_obs code_rcfg = [[0; 1; 1; 1000; 1000; 501; 7; 0; 0; 1]; [0; 3; 1; 1000; 1002; 0; 0; 0; 0; 3]]%N /\
  r1_obs fixed_rcfg = [[0; 1; 1; 1000; 1000; 501; 7; 0; 0; 1]; [2]]%N.
Proof. exact (conj ring_R1_refuted ring_R1_repaired). Qed.
Goal True. idtac "ASSUMPTIONS-OF C09_ring_R1_refuted". Abort.
Print Assumptions C09_ring_R1_refuted.

Open Scope nat_scope.

(* ---- protocol: no skip, no duplicate, no reorder.  Every configuration, every schedule of {leader append with any
        eviction, rotation, leader restart, connect, handleInitSync, message delivery, started, file chunk, live send/Pop,
        cut, follower restart} over any number of followers that stays out of the three defect windows (guarded). ---- *)
Theorem C09_sync_prefix_guarded : forall c acts, guarded c Sync.init_state acts ->
  forall f, applied (fol (Sync.run c Sync.init_state acts) f) =
            firstn (length (applied (fol (Sync.run c Sync.init_state acts) f))) (log (ld (Sync.run c Sync.init_state acts))).
Proof. exact sync_prefix_guarded. Qed.
Goal True. idtac "ASSUMPTIONS-OF C09_sync_prefix_guarded". Abort.
Print Assumptions C09_sync_prefix_guarded.

(* the repaired protocol (proposed_fixes/c09_*.diff): ALL schedules, no guard *)
Theorem C09_sync_prefix_fixed : forall acts f,
  applied (fol (Sync.run fixed_cfg Sync.init_state acts) f) =
  firstn (length (applied (fol (Sync.run fixed_cfg Sync.init_state acts) f))) (log (ld (Sync.run fixed_cfg Sync.init_state acts))).
Proof. exact sync_prefix_fixed. Qed.
Goal True. idtac "ASSUMPTIONS-OF C09_sync_prefix_fixed". Abort.
Print Assumptions C09_sync_prefix_fixed.

(* non-vacuity: a full transfer followed by live records is a guarded schedule of the code as written and converges *)
Example C09_sync_guard_satisfiable :
  let sched := [LAppend 7 1 0; LAppend 7 2 0; FConnect 0; LHandleSync 0; FRecv 0 false; LRecvStarted 0; LAppend 8 3 0;
                LSendFile 0; LSendFile 0; FRecv 0 false; FRecv 0 false; LSendLive 0 false; LSendLive 0 false; LSendLive 0 false;
                FRecv 0 false; FRecv 0 false] in
  guarded code_cfg Sync.init_state sched /\
  map rpay (applied (fol (Sync.run code_cfg Sync.init_state sched) 0)) = [1; 2; 3]%N.
Proof.
  split; [|vm_compute; reflexivity].
  simpl. repeat split; auto; intros; vm_compute; reflexivity.
Qed.

(* a resume never succeeds unless currentAofId names the record just before the cursor *)
Theorem C09_sync_resume_exact : forall c acts, guarded c Sync.init_state acts ->
  forall f b, let s := Sync.run c Sync.init_state acts in let x := fol s f in
  sph x = SWaitStarted false b ->
  exists r, length (applied x) > 0 /\ nth_error (log (ld s)) (length (applied x) - 1) = Some r /\ fcur x = rid_of r /\
            applied x = firstn (length (applied x)) (log (ld s)) /\
            match Sync.cseq x with Some p => S p = length (applied x) | None => length (applied x) = rstart (ld s) end.
Proof. exact sync_resume_exact. Qed.
Goal True. idtac "ASSUMPTIONS-OF C09_sync_resume_exact". Abort.
Print Assumptions C09_sync_resume_exact.

Example C09_sync_resume_reachable :
  let sched := [LAppend 7 1 0; LAppend 7 2 0; FConnect 0; LHandleSync 0; FRecv 0 false; LRecvStarted 0; LSendFile 0; FRecv 0 false;
                Cut 0; FConnect 0; LHandleSync 0] in
  guarded code_cfg Sync.init_state sched /\ sph (fol (Sync.run code_cfg Sync.init_state sched) 0) = SWaitStarted false zero_id.
Proof.
  split; [|vm_compute; reflexivity].
  simpl. repeat split; auto; try (intros; vm_compute; reflexivity).
  intros _ [H _]. vm_compute in H. discriminate.
Qed.

(* an evicted position yields the error / a full resync, never a silent jump *)
Theorem C09_sync_evicted_position_errors :
  (forall c L x p reused, Sync.cseq x = Some p -> S p < lo L -> rstart L <= p -> lo L < length (log L) ->
      a_pop c L x reused = POob) /\
  (forall L x i rest, c2s x = MSync (Some i) :: rest -> sph x = SIdle ->
      find_idx i (skipn (lo L) (log L)) (lo L) = None -> id_eqb i (mcur L) = false ->
      s2c (handle_sync L x) = s2c x ++ [MNotFound] /\ sph (handle_sync L x) = SIdle) /\
  (forall c x rest w, fph x = FWaitResp -> s2c x = MNotFound :: rest ->
      fcur (f_recv c x w) = zero_id /\ faof (f_recv c x w) = false /\ c2s (f_recv c x w) = c2s x ++ [MSync None]).
Proof. exact (conj a_pop_evicted (conj handle_sync_not_found recv_not_found)). Qed.
Goal True. idtac "ASSUMPTIONS-OF C09_sync_evicted_position_errors". Abort.
Print Assumptions C09_sync_evicted_position_errors.

(* progress: leader quiescent, link up, nothing in flight, cursor position still buffered: (|log| - n) rounds of
   [send; send; receive] make the follower's applied sequence equal to the leader's log *)
Theorem C09_sync_progress : forall c k s f n, ready (ld s) (fol s f) n -> n + k = length (log (ld s)) ->
  applied (fol (Sync.run c s (rounds f k)) f) = log (ld s) /\ ld (Sync.run c s (rounds f k)) = ld s.
Proof. exact sync_progress. Qed.
Goal True. idtac "ASSUMPTIONS-OF C09_sync_progress". Abort.
Print Assumptions C09_sync_progress.

Example C09_sync_ready_reachable :
  let sched := [LAppend 7 1 0; FConnect 0; LHandleSync 0; FRecv 0 false; LRecvStarted 0; LSendFile 0; FRecv 0 false;
                LAppend 8 2 0; LAppend 8 3 0] in
  ready (ld (Sync.run code_cfg Sync.init_state sched)) (fol (Sync.run code_cfg Sync.init_state sched) 0) 0.
Proof. vm_compute. repeat split; auto. right. repeat split; auto. Qed.

(* ---- the code as written violates the property: three schedules (replayed on the real binaries by checks/C09.py) ---- *)
Theorem C09_sync_F1_refuted :
  ~ prefix_ok (Sync.run (mkCfg true false false) Sync.init_state f1_sched) 0 /\
  ~ prefix_ok (Sync.run code_cfg Sync.init_state f1_sched) 0 /\
  map rpay (applied (fol (Sync.run code_cfg Sync.init_state f1_sched) 0)) = [4%N] /\
  map rpay (log (ld (Sync.run code_cfg Sync.init_state f1_sched))) = [1; 2; 3; 4]%N.
Proof. exact sync_F1_refuted. Qed.
Goal True. idtac "ASSUMPTIONS-OF C09_sync_F1_refuted". Abort.
Print Assumptions C09_sync_F1_refuted.

Theorem C09_sync_F2_refuted :
  ~ prefix_ok (Sync.run (mkCfg false false true) Sync.init_state f2_sched) 0 /\
  ~ prefix_ok (Sync.run code_cfg Sync.init_state f2_sched) 0 /\
  map rpay (applied (fol (Sync.run code_cfg Sync.init_state f2_sched) 0)) = [3%N].
Proof. exact sync_F2_refuted. Qed.
Goal True. idtac "ASSUMPTIONS-OF C09_sync_F2_refuted". Abort.
Print Assumptions C09_sync_F2_refuted.

Theorem C09_sync_F3_refuted :
  ~ prefix_ok (Sync.run (mkCfg false true false) Sync.init_state f3_sched) 0 /\
  ~ prefix_ok (Sync.run code_cfg Sync.init_state f3_sched) 0 /\
  applied (fol (Sync.run code_cfg Sync.init_state f3_sched) 0) = [mkRec (mkId 1 1 7) 1; mkRec (mkId 1 2 7) 2; marker_rec].
Proof. exact sync_F3_refuted. Qed.
Goal True. idtac "ASSUMPTIONS-OF C09_sync_F3_refuted". Abort.
Print Assumptions C09_sync_F3_refuted.

(* ---- Aof.PushLock publishes to the ring in append-file order.  All interleavings (every list of actions is a schedule;
        a blocked shard stutters), any number of shards and records, rotations at any append: with the hand-over
        `replGlock.Lock(); aofGlock.Unlock()` the ring is the file minus at most the two records that are inside PushLock,
        in file order; equal when no shard is inside; persisted ids strictly increase in (index, offset). ---- *)
Theorem C09_handover_ring_is_file : forall sched,
  let s := hrun true hinit sched in
  (exists q, hfile s = hring s ++ q /\ length q <= 2) /\
  hring s = firstn (length (hring s)) (hfile s) /\
  (quiescent s -> hring s = hfile s) /\
  ids_inc (hfile s).
Proof. exact handover_ring_is_file. Qed.
Goal True. idtac "ASSUMPTIONS-OF C09_handover_ring_is_file". Abort.
Print Assumptions C09_handover_ring_is_file.

(* non-vacuity: three shards, a rotation after the second record, interleaved; everybody has left PushLock *)
Example C09_handover_schedule_runs :
  let sched := [AR 0 1 false; AR 1 2 false; AR 0 1 false; AR 0 1 false; AR 1 2 true; AR 0 1 false; AR 1 2 true; AR 2 3 false; AR 0 1 false;
                AR 1 2 true; AR 0 1 false; AR 1 2 true; AR 2 3 false; AR 1 2 true; AR 2 3 false; AR 1 2 true; AR 2 3 false; AR 2 3 false;
                AR 2 3 false; AR 2 3 false; AR 1 2 false; AR 2 3 false; AR 2 3 false; AR 2 3 false; AR 2 3 false] in
  let s := hrun true hinit sched in
  quiescent s /\ map rid_of (hring s) = [mkId 1 1 7; mkId 1 2 7; mkId 2 1 7] /\ map rpay (hfile s) = [1; 2; 3]%N.
Proof. vm_compute. repeat split. Qed.

(* full transfer bounded by the ring's head at the handshake + live stream from that record on: whatever happens before
   the handshake, between handshake and sendFiles, and afterwards, the follower receives the ring, which is the file *)
Theorem C09_handover_full_transfer_gapfree : forall before mid after R0 h,
  let s1 := hrun true hinit before in
  let s2 := hrun true s1 mid in
  let s3 := hrun true s2 after in
  hring s1 = R0 ++ [h] ->
  send_files CmpLex (hfile s2) (rid_of h) = R0 /\
  send_files CmpLex (hfile s2) (rid_of h) ++ skipn (length R0) (hring s3) = hring s3 /\
  hring s3 = firstn (length (hring s3)) (hfile s3) /\
  (quiescent s3 -> send_files CmpLex (hfile s2) (rid_of h) ++ skipn (length R0) (hring s3) = hfile s3).
Proof. exact handover_full_transfer_gapfree. Qed.
Goal True. idtac "ASSUMPTIONS-OF C09_handover_full_transfer_gapfree". Abort.
Print Assumptions C09_handover_full_transfer_gapfree.

Example C09_handover_full_transfer_reachable :
  let before := [A 0 1; A 0 1; A 0 1; A 0 1; A 0 1; A 0 1; A 1 2; A 1 2; A 1 2; A 1 2; A 1 2] in
  exists R0 h, hring (hrun true hinit before) = R0 ++ [h] /\ rpay h = 2%N /\ map rpay R0 = [1%N].
Proof. exists [mkRec (mkId 1 1 7) 1], (mkRec (mkId 1 2 7) 2). vm_compute. repeat split. Qed.

(* the statement order `aofGlock.Unlock(); replGlock.Lock()`: two shards, ring = #2 #1, file = #1 #2; a follower whose
   handshake finds #1 at the head never receives #2; the same schedule under hand-over keeps the order *)
Theorem C09_handover_swapped_refuted :
  let s := hrun false hinit swap_sched in
  quiescent s /\ (forall t, hpc s t = Idle) /\
  map rpay (hfile s) = [1; 2]%N /\ map rpay (hring s) = [2; 1]%N /\ hring s <> hfile s /\
  (let s1 := hrun false hinit swap_sched in
   exists R0 h, hring s1 = R0 ++ [h] /\ rpay h = 1%N /\
     map rpay (send_files CmpLex (hfile s) (rid_of h) ++ skipn (length R0) (hring s)) = [1%N]) /\
  map rpay (hring (hrun true hinit swap_sched)) = map rpay (firstn 1 (hfile (hrun true hinit swap_sched))).
Proof. exact swapped_refuted. Qed.
Goal True. idtac "ASSUMPTIONS-OF C09_handover_swapped_refuted". Abort.
Print Assumptions C09_handover_swapped_refuted.

(* ---- the boundary of the full transfer on logs with rotation (offsets restart in every file).  For every log whose
        ids increase in (index, offset) and every boundary record k: sendFiles with the lexicographic test delivers
        exactly log[0,k), so transferred ++ live stream from k = the log; a boundary above every id (empty ring)
        transfers everything.  Second statement: the same for the leader of the protocol model at every moment of every
        schedule (any configuration), whose l_send_file decides by the same test. ---- *)
Theorem C09_transfer_then_live_is_log : forall l k h, ids_inc l -> nth_error l k = Some h ->
  send_files CmpLex l (rid_of h) = firstn k l /\ send_files CmpLex l (rid_of h) ++ skipn k l = l.
Proof. exact (fun l k h S H => conj (send_files_lex_prefix l k h S H) (transfer_then_live_is_log l k h S H)). Qed.
Goal True. idtac "ASSUMPTIONS-OF C09_transfer_then_live_is_log". Abort.
Print Assumptions C09_transfer_then_live_is_log.

Theorem C09_transfer_sync_leader : forall c acts k h,
  let L := ld (Sync.run c Sync.init_state acts) in
  nth_error (log L) k = Some h ->
  send_files CmpLex (log L) (rid_of h) ++ skipn k (log L) = log L /\
  send_files CmpLex (log L) (mkId (fidx L) (foff L + 1) 0) = log L.
Proof. exact sync_transfer_then_live_is_log. Qed.
Goal True. idtac "ASSUMPTIONS-OF C09_transfer_sync_leader". Abort.
Print Assumptions C09_transfer_sync_leader.

Example C09_transfer_rotated_log :
  ids_inc rot_log /\ nth_error rot_log 4 = Some (mkRec (mkId 2 2 8) 5) /\
  map rpay (send_files CmpLex rot_log (mkId 2 2 8)) = [1; 2; 3; 4]%N /\
  (let L := ld (Sync.run code_cfg Sync.init_state [LAppend 7 1 0; LAppend 7 2 0; LRotate; LAppend 8 3 0; LAppend 8 4 0]) in
   map (fun r => (xidx (rid_of r), xoff (rid_of r))) (log L) = [(1, 1); (1, 2); (2, 1); (2, 2)]%N).
Proof. split; [exact rot_log_inc|]. vm_compute. repeat split. Qed.

(* the offset-only test `lock.AofIndex > w.AofIndex || lock.AofOffset >= w.AofOffset`: equal to the lexicographic one while
   every persisted record is in the boundary's file; refuted after one rotation (the follower gets #1 and #5 of 5) *)
Theorem C09_transfer_offset_only_single_file : forall l w, (forall r, In r l -> xidx (rid_of r) = xidx w) ->
  send_files CmpOffOnly l w = send_files CmpLex l w.
Proof. exact send_files_offonly_single_file. Qed.
Goal True. idtac "ASSUMPTIONS-OF C09_transfer_offset_only_single_file". Abort.
Print Assumptions C09_transfer_offset_only_single_file.

Theorem C09_transfer_offset_only_refuted :
  ids_inc rot_log /\ nth_error rot_log 4 = Some (mkRec (mkId 2 2 8) 5) /\
  map rpay (send_files CmpOffOnly rot_log (mkId 2 2 8) ++ skipn 4 rot_log) = [1; 5]%N /\
  send_files CmpOffOnly rot_log (mkId 2 2 8) ++ skipn 4 rot_log <> rot_log /\
  send_files CmpLex rot_log (mkId 2 2 8) ++ skipn 4 rot_log = rot_log.
Proof. exact send_files_offonly_refuted. Qed.
Goal True. idtac "ASSUMPTIONS-OF C09_transfer_offset_only_refuted". Abort.
Print Assumptions C09_transfer_offset_only_refuted.
