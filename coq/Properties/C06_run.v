(* C06 at RUN level -- holds are never ended by time before their deadline; what the ending does.
   Model: coq/Engine/{Types,Queues,Timers,Engine,Engine2}.v; proofs: coq/Engine/RunExp{Scal,K,Steps,Steps2,Thm,Run}.v on top
   of the heap invariant Inv (Engine/Inv*.v), the refcount floor JR (Engine/RunDrainFloor*.v) and Engine/TimeExp.v.
   Core runs (InvDef.core): Lock/UnLock requests without require-ack / millisecond flags and without value frame, clock
   advances k >= 0 of ANY size, both sweeps in ANY order and with ANY lag, role changes; fewer than 2^24-2 actions.

   The missing piece of Properties/C06.v was the LONG expiry table: checkTimeExpried hands every entry of bucket t to
   doExpried without looking at its deadline.  KL (RunExpK.v) is the integrity invariant of the two long tables:
     - every stored entry of the long TIMEOUT table is a live waiter with longWaitIndex set, under key = its deadline;
     - every stored entry of the long EXPIRY table is no live waiter, and if it is a live hold it has longWaitIndex set
       and sits under key = its CURRENT deadline l_eT (updates / re-locks move it: update_and_rearm).
   It is proved for every state of every core run, by the same induction as Inv (one lemma per critical section).
   (b) "not late" is NOT proved at run level here: see C06_run_b_placement_partial for what is. *)
From Coq Require Import List NArith ZArith Bool Lia String.
From Slock Require Import Engine.Types Engine.Queues Engine.Timers Engine.Engine Engine.Engine2.
From Slock Require Import Engine.InvDef Engine.InvMain Engine.InvProps Engine.RunDrainFloor2 Engine.RunDrainFloor5.
From Slock Require Import Engine.TimeBase Engine.TimeExp Engine.TimeRun Engine.TimeEvents Engine.TimeLocal.
From Slock Require Import Engine.RunExpK Engine.RunExpSteps Engine.RunExpSteps2 Engine.RunExpThm Engine.RunExpRun Engine.RunExpTerms.
Import ListNotations.
Open Scope N_scope.

(* one second per tick, both sweeps after every tick *)
Fixpoint c06_ticks (n : nat) : list action :=
  match n with O => [] | S n' => AAdvance 1 :: ASweepT :: ASweepE :: c06_ticks n' end.
(* a hold of ONE MINUTE (minute flag 64, Expried = 1): re-checked on the wheel after 1,2,..,8 s (36 s), then moved to
   the long table under key t0+61; reported EXPRIED by the sweep of second t0 + 61 *)
Definition c06_long : list action := AReq 1 (make_cmd true 1 0 101 7 0 5 64 1 0 0 None) :: c06_ticks 62.
(* a hold of 100 s, shortened to 3 s by an update (flag 2) one second later: reported EXPRIED at t0 + 1 + 3 + 1 *)
Definition c06_upd : list action :=
  [AReq 1 (make_cmd true 1 0 101 7 0 5 0 100 0 0 None); AAdvance 1; ASweepE;
   AReq 1 (make_cmd true 2 2 101 7 0 5 0 3 0 0 None)] ++ c06_ticks 14.

Lemma c06_long_core : core c06_long.
Proof. split; [repeat constructor|vm_compute; reflexivity]. Qed.
Lemma c06_upd_core : core c06_upd.
Proof. split; [repeat constructor|vm_compute; reflexivity]. Qed.

(* ------------------------------------------------------------------ the invariant *)
Theorem C06_run_invariant_init : forall t0 aoft, (0 <= t0)%Z -> RX (init_db t0 aoft).
Proof. exact RX_init. Qed.
Goal True. idtac "ASSUMPTIONS-OF C06_run_invariant_init". Abort.
Print Assumptions C06_run_invariant_init.

Theorem C06_run_invariant_step : forall s a, RX s -> InvDef.core_action a = true -> next s < MAXREC -> RX (fst (step s a)).
Proof. exact RX_step. Qed.
Goal True. idtac "ASSUMPTIONS-OF C06_run_invariant_step". Abort.
Print Assumptions C06_run_invariant_step.
Example C06_run_invariant_step_nonvacuous : RX (init_db 1000000 1) /\ next (init_db 1000000 1) < MAXREC.
Proof. split; [apply RX_init; lia|reflexivity]. Qed.

(* the long expiry table of every reachable state: a live hold stored under key kk has longWaitIndex set and
   deadline kk (lkey = Z.to_N); and it is no live waiter *)
Theorem C06_run_long_table_integrity : forall t0 aoft acts,
  (0 <= t0)%Z -> core acts ->
  let s := fst (run (init_db t0 aoft) acts) in
  forall kk r l, In r (wheel_get (elong s) kk) -> aget (store s) r = Some l ->
    l_timeouted l = true /\ (l_expried l = false -> l_long l = true /\ lkey (l_eT l) = kk).
Proof.
  intros t0 aoft acts H0 Hc s kk r l I G. pose proof (long_table_integrity_core t0 aoft acts H0 Hc) as K.
  split; [eapply kl_e1; eauto|intros X; eapply kl_e2; eauto].
Qed.
Goal True. idtac "ASSUMPTIONS-OF C06_run_long_table_integrity". Abort.
Print Assumptions C06_run_long_table_integrity.
(* after 40 ticks the one-minute hold (record 1) sits in the long table under key t0 + 61 *)
Example C06_run_long_table_integrity_nonvacuous :
  core (firstn 121 c06_long)
  /\ exists l, aget (store (fst (run (init_db 1000000 1) (firstn 121 c06_long)))) 1 = Some l /\ l_expried l = false.
Proof.
  split; [split; [repeat constructor|vm_compute; reflexivity]|].
  eexists; split; vm_compute; reflexivity.
Qed.

(* ------------------------------------------------------------------ (a) NEVER EARLY *)
(* call level, any state satisfying the invariants, any lag: whenever the expiry sweep calls doExpried on a record that
   is a live hold at that moment, its deadline has been reached *)
Theorem C06_run_a_call_level : forall s,
  Inv s -> KL s -> (0 <= checkE s <= now s + 1)%Z ->
  forall s' r l, In (s', r) (expiry_calls s) -> elive s' r l -> (l_eT l <= now s)%Z.
Proof. exact expiry_call_not_early. Qed.
Goal True. idtac "ASSUMPTIONS-OF C06_run_a_call_level". Abort.
Print Assumptions C06_run_a_call_level.

(* run level, any tick sizes, any sweep schedule: every EXPRIED reply emitted by an expiry sweep of a core run is the
   reply of a doExpried call of that sweep on a live hold l -- addressed to l's connection, echoing l's current command
   (request id of the grant or of the last successful update / re-lock) -- and the deadline l_eT l has been reached *)
Theorem C06_run_a_never_early : forall t0 aoft acts,
  (0 <= t0)%Z -> core acts ->
  forall s, In (s, ASweepE) (run_states (init_db t0 aoft) acts) ->
  forall e, In e (snd (step s ASweepE)) -> is_er e = true ->
  exists s' r l lc lrc d, In (s', r) (expiry_calls s) /\ elive s' r l
    /\ e = reply (l_conn l) (l_cmd l) R_EXPRIED lc lrc d /\ (l_eT l <= now s)%Z.
Proof. exact expiry_never_early_core. Qed.
Goal True. idtac "ASSUMPTIONS-OF C06_run_a_never_early". Abort.
Print Assumptions C06_run_a_never_early.
(* the shortened hold is reported at t0 + 5 *)
Example C06_run_a_never_early_nonvacuous :
  core c06_upd
  /\ (exists s e, In (s, ASweepE) (run_states (init_db 1000000 1) c06_upd) /\ In e (snd (step s ASweepE)) /\ is_er e = true
                  /\ now s = 1000005%Z).
Proof.
  split; [exact c06_upd_core|].
  - eexists _, _. split; [|split; [|split]].
    + cbn [c06_upd c06_ticks run_states app]. do 15 right. left. reflexivity.
    + vm_compute. do 2 right. left. reflexivity.
    + reflexivity.
    + vm_compute. reflexivity.
Qed.

(* ... and the deadline stored in a live hold dominates the one computed from its current terms: for every live hold of
   every state of a core run, either its command is the "keep the running deadline" request (unlimited flag with
   Expried = 0xffff, the recorded sentinel finding -- excluded), or
       expiry_deadline (l_cmd l) (l_start l) <= l_eT l,
   where (C06_a_terms_at_grant / C06_a_terms_at_update) l_start is the server time of the grant or of the last successful
   update / re-lock and l_cmd the command of that request.  With C06_a_deadline_formula: a hold is never reported
   EXPRIED before  l_start + Expried*unit + 1  (never, for the unlimited flag). *)
Theorem C06_run_a_terms : forall t0 aoft acts,
  (0 <= t0)%Z -> core acts ->
  forall s, In (s, ASweepE) (run_states (init_db t0 aoft) acts) ->
  forall s' r l, In (s', r) (expiry_calls s) -> elive s' r l ->
  keep_terms (l_cmd l) = true \/ (expiry_deadline (l_cmd l) (l_start l) <= now s)%Z.
Proof. exact expiry_terms_core. Qed.
Goal True. idtac "ASSUMPTIONS-OF C06_run_a_terms". Abort.
Print Assumptions C06_run_a_terms.

Theorem C06_run_a_since_last_set : forall t0 aoft acts,
  (0 <= t0)%Z -> core acts ->
  forall s, In (s, ASweepE) (run_states (init_db t0 aoft) acts) ->
  forall s' r l, In (s', r) (expiry_calls s) -> elive s' r l ->
  keep_terms (l_cmd l) = false -> has (c_eflag (l_cmd l)) EF_UNLIMITED = false ->
  (l_start l + Z.of_N (c_expried (l_cmd l)) * eunit' (l_cmd l) + 1 <= now s)%Z.
Proof. exact expiry_since_last_set_core. Qed.
Goal True. idtac "ASSUMPTIONS-OF C06_run_a_since_last_set". Abort.
Print Assumptions C06_run_a_since_last_set.
Example C06_run_a_since_last_set_nonvacuous :
  exists s s' r l, In (s, ASweepE) (run_states (init_db 1000000 1) c06_upd) /\ In (s', r) (expiry_calls s) /\ elive s' r l
    /\ keep_terms (l_cmd l) = false /\ has (c_eflag (l_cmd l)) EF_UNLIMITED = false
    /\ l_start l = 1000001%Z /\ c_expried (l_cmd l) = 3 /\ now s = 1000005%Z.
Proof.
  eexists _, _, _, _. split; [|split; [|split; [|split; [|split; [|split; [|split]]]]]].
  - cbn [c06_upd c06_ticks run_states app]. do 15 right. left. reflexivity.
  - vm_compute. left. reflexivity.
  - split; vm_compute; reflexivity.
  - vm_compute. reflexivity.
  - vm_compute. reflexivity.
  - vm_compute. reflexivity.
  - vm_compute. reflexivity.
  - vm_compute. reflexivity.
Qed.

(* a hold whose deadline is 2^63-1 (granted with the unlimited-expiry flag) is never handed to doExpried as a live
   hold, hence never reported EXPRIED by a sweep, while server time is below 2^63-1.  (A hold that was granted with a
   finite deadline and later received the "unlimited flag + Expried = 0xffff" update keeps its finite l_eT: that is the
   recorded finding, and such a hold is not covered by the hypothesis l_eT = MAXT.) *)
Theorem C06_run_a_unlimited_never_expires : forall t0 aoft acts,
  (0 <= t0)%Z -> core acts ->
  forall s, In (s, ASweepE) (run_states (init_db t0 aoft) acts) -> (now s < MAXT)%Z ->
  forall s' r l, In (s', r) (expiry_calls s) -> elive s' r l -> l_eT l <> MAXT.
Proof. exact unlimited_never_expires_core. Qed.
Goal True. idtac "ASSUMPTIONS-OF C06_run_a_unlimited_never_expires". Abort.
Print Assumptions C06_run_a_unlimited_never_expires.
(* an unlimited hold (eflag 16384) is granted with deadline 2^63-1 and is still held 30 sweeps later *)
Example C06_run_a_unlimited_nonvacuous :
  let acts := AReq 1 (make_cmd true 1 0 101 7 0 5 16384 10 0 0 None) :: c06_ticks 30 in
  core acts /\ exists l, aget (store (fst (run (init_db 1000000 1) acts))) 1 = Some l /\ l_eT l = MAXT /\ l_expried l = false.
Proof.
  cbv zeta. split; [split; [repeat constructor|vm_compute; reflexivity]|].
  eexists. split; [vm_compute; reflexivity|split; vm_compute; reflexivity].
Qed.

(* ------------------------------------------------------------------ (b) what is proved: placement *)
(* every held record of a reachable state is referenced exactly once by the expiry structures (C17_refcount_floor), and
   if that reference is in the long table it is under the key of its current deadline; so the sweep of second l_eT
   (long table) or of one of the <= 8 s spaced re-check seconds (wheel, C06_b_recheck_spacing_partial) examines it.
   NOT proved at run level: the wheel side of "examined no later than d + 1 / new deadline + 8" (it needs the
   placement invariant of the 16-slot expiry wheel under regular schedules, the analogue of TimeWhere.TW for holds
   whose deadline can move). *)
Theorem C06_run_b_placement_partial : forall t0 aoft acts,
  (0 <= t0)%Z -> core acts ->
  let s := fst (run (init_db t0 aoft) acts) in
  forall r l, aget (store s) r = Some l -> 0 < l_locked l ->
    l_expried l = false
    /\ (occ r (wrefs (ewheel s)) + occ r (wrefs (elong s)) = 1)%nat
    /\ (forall kk, In r (wheel_get (elong s) kk) -> lkey (l_eT l) = kk).
Proof.
  intros t0 aoft acts H0 Hc s r l G D.
  destruct (reach_refc_floor t0 aoft acts Hc r l G) as (_ & A & B).
  assert (X : l_expried l = false) by (destruct (l_expried l); auto; specialize (B eq_refl); lia).
  split; [exact X|]. split; [apply A; exact D|].
  intros kk I. pose proof (long_table_integrity_core t0 aoft acts H0 Hc) as K. eapply kl_e2; eauto.
Qed.
Goal True. idtac "ASSUMPTIONS-OF C06_run_b_placement_partial". Abort.
Print Assumptions C06_run_b_placement_partial.
Example C06_run_b_placement_nonvacuous :
  exists l, aget (store (fst (run (init_db 1000000 1) (firstn 121 c06_long)))) 1 = Some l /\ 0 < l_locked l.
Proof. eexists. split; vm_compute; reflexivity. Qed.

(* ------------------------------------------------------------------ (c) what the ending does, at run level *)
(* every doExpried call of an expiry sweep of a core run on a live hold, on a leader: the deadline has been reached,
   the hold is released for its full depth (ERelease), only AOF records follow, the EXPRIED reply goes to the record's
   connection with its command, the key's locked count drops by exactly the depth (or the key manager is removed),
   other keys are untouched, and a wake-up pass for the key is pending -- fire_all runs it (`finish`) before the next
   call; what that pass grants is the subject of C04 (C04_wake_grants_all_admissible, C04_wake_serves_in_order) *)
Theorem C06_run_c_expiry_effect : forall t0 aoft acts,
  (0 <= t0)%Z -> core acts ->
  forall s, In (s, ASweepE) (run_states (init_db t0 aoft) acts) -> leader s = true ->
  forall s' r l, In (s', r) (expiry_calls s) -> elive s' r l ->
  (l_eT l <= now s)%Z
  /\ exists s'' aev lc lrc d,
    do_expried s' r = (s'', [ERelease (l_key l) r (l_locked l)] ++ aev ++ [reply (l_conn l) (l_cmd l) R_EXPRIED lc lrc d],
                       Some (mkWake (l_key l) None))
    /\ Forall is_aof aev
    /\ (mlocked s'' (l_key l) = sub32 (mlocked s' (l_key l)) (l_locked l) \/ aget (mgrs s'') (l_key l) = None)
    /\ (forall k', k' <> l_key l -> mlocked s'' k' = mlocked s' k')
    /\ lc = mlocked s'' (l_key l).
Proof. exact expiry_effect_core. Qed.
Goal True. idtac "ASSUMPTIONS-OF C06_run_c_expiry_effect". Abort.
Print Assumptions C06_run_c_expiry_effect.
Example C06_run_c_expiry_effect_nonvacuous :
  exists s s' r l, In (s, ASweepE) (run_states (init_db 1000000 1) c06_upd) /\ leader s = true
    /\ In (s', r) (expiry_calls s) /\ elive s' r l /\ now s = 1000005%Z.
Proof.
  eexists _, _, _, _. split; [|split; [|split; [|split]]].
  - cbn [c06_upd c06_ticks run_states app]. do 15 right. left. reflexivity.
  - vm_compute. reflexivity.
  - vm_compute. left. reflexivity.
  - split; vm_compute; reflexivity.
  - vm_compute. reflexivity.
Qed.
