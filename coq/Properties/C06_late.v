(* C06 at RUN level -- the UPPER BOUND: "a hold is ended no later than E+2 seconds after its deadline period started
   (within 10 seconds of the new deadline when an update shortened it)", for REGULAR schedules.
   Model: coq/Engine/{Types,Queues,Timers,Engine,Engine2}.v; proofs: coq/Engine/RunLate{Fr,Inv,Steps,Steps2,Sweep,Run}.v on
   top of RunExp*.v (RX = heap invariant Inv /\ refcount floor JR /\ long-table integrity KL; never-early is
   Properties/C06_run.v).

   late_run t0 aoft acts  :=  0 <= t0  /\  eregular true acts  /\  length acts + 1 < 2^24, where
   eregular ph acts  (ph = "the current second has been swept by the expiry sweeper"):
     AReq _ c   : c is a core command (no require-ack / millisecond flags, no value frame) WITHOUT the un-renew flag
                  0x100 of the timeout flags (with it the deadline is computed when the request ARRIVES; a waiter
                  granted after that deadline is a hold whose deadline lies arbitrarily far in the past);
     AAdvance k : k = 1 and ph = true (one-second ticks, an expiry sweep between any two ticks); afterwards ph = false;
     ASweepE    : anywhere; afterwards ph = true;     ASweepT : anywhere;
     ARole b    : b = true only (the node is leader throughout: on a follower doExpried re-arms persisted holds);
     AAck       : never.
   l_eT l is the deadline stored in a hold: grant / last successful update / re-lock at server time t with terms
   (E, unit) set it to t + E*unit + 1 (C06_a_terms_at_grant, C06_a_terms_at_update), 2^63-1 = MAXT with the unlimited flag.
   Theorems about "finite" deadlines carry l_eT l < MAXT.

   What is proved: the placement invariant EW of the 16-slot expiry wheel and of the long expiry table in every state;
   at every doExpried call of a sweep on a live hold:  l_eT <= now  and  sweep start second (checkE) <= l_eT + 8, and
   checkE <= l_eT (hence now = l_eT EXACTLY for every sweep but the first of the history) for a hold whose deadline no Lock
   request ever shortened (never updated / re-locked, or only lengthened); no held record survives: checkE <= l_eT + 8 in EVERY state.  The model's constant is 8 (the property
   allows 10). *)
From Coq Require Import List NArith ZArith Bool Lia String.
From Slock Require Import Engine.Types Engine.Queues Engine.Timers Engine.Engine Engine.Engine2.
From Slock Require Import Engine.InvDef Engine.InvMain Engine.InvProps.
From Slock Require Import Engine.TimeBase Engine.TimeExp Engine.TimeRun Engine.TimeEvents.
From Slock Require Import Engine.RunExpK Engine.RunExpThm Engine.RunExpRun.
From Slock Require Import Engine.RunLateFr Engine.RunLateInv Engine.RunLateSteps Engine.RunLateSweep Engine.RunLateRun.
Import ListNotations.
Open Scope N_scope.

(* ------------------------------------------------------------------ example histories (all shorter than 25 actions) *)
Fixpoint late_ticks (n : nat) : list action :=
  match n with O => [] | S n' => AAdvance 1 :: ASweepE :: late_ticks n' end.
Definition late_lock (req eflag e : N) := AReq 1 (make_cmd true req 0 101 7 0 5 eflag e 0 0 None).
Definition late_upd (req eflag e : N) := AReq 1 (make_cmd true req 2 101 7 0 5 eflag e 0 0 None).
(* a 5 s hold, never addressed again: reported EXPRIED at t0 + 6 = its deadline *)
Definition late_h5 : list action := late_lock 1 0 5 :: late_ticks 7.
(* a 100 s hold, at t0 + 4 shortened to E = 0 (new deadline t0 + 5): the wheel entry sits at second t0 + 8 *)
Definition late_short : list action := late_lock 1 0 100 :: late_ticks 4 ++ [late_upd 2 0 0] ++ late_ticks 4.
(* a 3 s hold, at t0 + 1 lengthened to 8 s (new deadline t0 + 10) *)
Definition late_long : list action := late_lock 1 0 3 :: late_ticks 1 ++ [late_upd 2 0 8] ++ late_ticks 9.
(* persist-immediately flag 0x100 and E = 8: into the long table at once, under key t0 + 9 *)
Definition late_tab : list action := late_lock 1 256 8 :: late_ticks 10.

Lemma late_h5_run : late_run 1000000 1 late_h5.      Proof. apply late_run_b. vm_compute. reflexivity. Qed.
Lemma late_short_run : late_run 1000000 1 late_short.  Proof. apply late_run_b. vm_compute. reflexivity. Qed.
Lemma late_long_run : late_run 1000000 1 late_long.    Proof. apply late_run_b. vm_compute. reflexivity. Qed.
Lemma late_tab_run : late_run 1000000 1 late_tab.      Proof. apply late_run_b. vm_compute. reflexivity. Qed.

(* ------------------------------------------------------------------ the invariant is inductive *)
Theorem C06_late_invariant_init : forall X t0 aoft, (0 <= t0)%Z -> RL X true (init_db t0 aoft).
Proof. exact RL_init. Qed.
Goal True. idtac "ASSUMPTIONS-OF C06_late_invariant_init". Abort.
Print Assumptions C06_late_invariant_init.

Theorem C06_late_invariant_step : forall X ph s a rest,
  RL X ph s -> eregular ph (a :: rest) -> next s < MAXREC -> TG X (s, a) ->
  exists ph', RL X ph' (fst (step s a)) /\ eregular ph' rest.
Proof. exact RL_step. Qed.
Goal True. idtac "ASSUMPTIONS-OF C06_late_invariant_step". Abort.
Print Assumptions C06_late_invariant_step.
Example C06_late_invariant_step_nonvacuous :
  RL (fun _ => True) true (init_db 1000000 1) /\ eregular true late_h5 /\ next (init_db 1000000 1) < MAXREC.
Proof. split; [apply RL_init; lia|]. split; [apply eregular_b_sound; vm_compute; reflexivity|reflexivity]. Qed.

(* one expiry sweep, in any state satisfying the invariants, at most 6 seconds behind, on a leader: afterwards EW holds
   from second now + 1 on, and every doExpried call on a live hold satisfies the due predicate
   Pdue X f0 now r e  :=  e <= now /\ (f0 <= e \/ MAXT <= e \/ (X r /\ f0 <= e + 8))   with f0 = checkE s, e = l_eT *)
Theorem C06_late_sweep : forall X s,
  Inv s -> KL s -> EWc X (checkE s) s -> (0 <= checkE s)%Z -> (now s < checkE s + 7)%Z -> leader s = true ->
  EWc X (now s + 1) (fst (sweep_expiries s))
  /\ forall s' r l, In (s', r) (expiry_calls s) -> elive s' r l -> Pdue X (checkE s) (now s) r (l_eT l).
Proof. exact sweep_expiries_late. Qed.
Goal True. idtac "ASSUMPTIONS-OF C06_late_sweep". Abort.
Print Assumptions C06_late_sweep.

(* ------------------------------------------------------------------ (1) PLACEMENT, every state of a regular run *)
(* leader; the sweeper is at most one second behind (not at all after its first sweep: C06_late_no_lag); every entry
   of slot k of the expiry wheel that is a live hold was placed for a second d with slot_of d = k that the sweeper has
   not passed (checkE <= d: never skipped), d <= now + 9, and d <= deadline + 8; every entry of the long table that is a
   live hold is stored under its current deadline, which the sweeper has not passed *)
Theorem C06_late_placement : forall t0 aoft acts,
  late_run t0 aoft acts ->
  forall s, (s = fst (run (init_db t0 aoft) acts) \/ exists a, In (s, a) (run_states (init_db t0 aoft) acts)) ->
  leader s = true /\ (now s <= checkE s + 1)%Z /\ (checkE s <= now s + 1)%Z
  /\ (forall k r l, In r (wheel_get (ewheel s) k) -> elive s r l ->
        exists d, slot_of d = k /\ (checkE s <= d <= now s + 9)%Z /\ ((d <= l_eT l + 8)%Z \/ (MAXT <= l_eT l)%Z))
  /\ (forall kk r l, In r (wheel_get (elong s) kk) -> elive s r l ->
        lkey (l_eT l) = kk /\ ((checkE s <= l_eT l)%Z \/ (MAXT <= l_eT l)%Z)).
Proof. exact late_placement. Qed.
Goal True. idtac "ASSUMPTIONS-OF C06_late_placement". Abort.
Print Assumptions C06_late_placement.
(* after the shortening update the live hold 1 (deadline t0 + 5) sits in wheel slot 8 = slot_of (t0 + 8) *)
Example C06_late_placement_nonvacuous :
  late_run 1000000 1 (firstn 10 late_short)
  /\ exists l, In 1 (wheel_get (ewheel (fst (run (init_db 1000000 1) (firstn 10 late_short)))) 8)
               /\ elive (fst (run (init_db 1000000 1) (firstn 10 late_short))) 1 l /\ l_eT l = 1000005%Z.
Proof.
  split; [apply late_run_b; vm_compute; reflexivity|].
  eexists. split; [vm_compute; left; reflexivity|]. split; [split; vm_compute; reflexivity|vm_compute; reflexivity].
Qed.

Theorem C06_late_no_lag : forall t0 aoft pre suf,
  late_run t0 aoft (pre ++ suf) -> In ASweepE pre ->
  (now (fst (run (init_db t0 aoft) pre)) <= checkE (fst (run (init_db t0 aoft) pre)))%Z.
Proof. exact late_no_lag. Qed.
Goal True. idtac "ASSUMPTIONS-OF C06_late_no_lag". Abort.
Print Assumptions C06_late_no_lag.
Example C06_late_no_lag_nonvacuous : late_run 1000000 1 (firstn 5 late_h5 ++ skipn 5 late_h5) /\ In ASweepE (firstn 5 late_h5).
Proof. split; [apply late_run_b; vm_compute; reflexivity|]. cbn. do 2 right. left. reflexivity. Qed.

(* ------------------------------------------------------------------ (2) a hold whose deadline was never shortened *)
(* never_addressed r0 s0 acts: no Lock request of the history finds record r0 by GetLockedLock (lock_target, the lookup
   at the head of LockDB.Lock that selects the target of an update / re-entrant re-lock) -- r0 was granted and never
   updated or re-locked.  never_shortened r0 s0 acts (weaker): every Lock request that addresses r0 carries terms whose
   deadline now + E*unit + 1 is >= r0's current deadline (or is the keep-the-running-deadline request): r0's deadline was
   only ever LENGTHENED.  Then whenever the expiry sweep hands r0 to doExpried as a live hold with a finite deadline,
   the deadline lies between the second the sweep started from and now; the sweep starts from now or now - 1 ... *)
Theorem C06_late_never_addressed_shortened : forall r0 s0 acts, never_addressed r0 s0 acts -> never_shortened r0 s0 acts.
Proof. exact never_addressed_shortened. Qed.
Goal True. idtac "ASSUMPTIONS-OF C06_late_never_addressed_shortened". Abort.
Print Assumptions C06_late_never_addressed_shortened.

Theorem C06_late_not_updated : forall t0 aoft acts r0,
  late_run t0 aoft acts -> never_shortened r0 (init_db t0 aoft) acts ->
  forall s, In (s, ASweepE) (run_states (init_db t0 aoft) acts) ->
  forall s' l, In (s', r0) (expiry_calls s) -> elive s' r0 l -> (l_eT l < MAXT)%Z ->
  (checkE s <= l_eT l <= now s)%Z /\ (now s <= checkE s + 1)%Z.
Proof. exact late_not_updated. Qed.
Goal True. idtac "ASSUMPTIONS-OF C06_late_not_updated". Abort.
Print Assumptions C06_late_not_updated.

(* ... and from now itself for every sweep but the first of the history: now = deadline = start + E*unit + 1, EXACTLY
   (with C06_run_a_never_early / C06_run_c_expiry_effect: the EXPRIED reply is emitted in that sweep) *)
Theorem C06_late_not_updated_exact : forall t0 aoft pre suf r0,
  late_run t0 aoft (pre ++ ASweepE :: suf) -> never_shortened r0 (init_db t0 aoft) (pre ++ ASweepE :: suf) ->
  In ASweepE pre ->
  forall s' l, In (s', r0) (expiry_calls (fst (run (init_db t0 aoft) pre))) -> elive s' r0 l -> (l_eT l < MAXT)%Z ->
  now (fst (run (init_db t0 aoft) pre)) = l_eT l.
Proof. exact late_not_updated_exact. Qed.
Goal True. idtac "ASSUMPTIONS-OF C06_late_not_updated_exact". Abort.
Print Assumptions C06_late_not_updated_exact.
(* the 5 s hold: handed to doExpried by the sweep of second t0 + 6 (the 6th sweep of the history) *)
Example C06_late_not_updated_exact_nonvacuous :
  late_run 1000000 1 (firstn 12 late_h5 ++ ASweepE :: skipn 13 late_h5)
  /\ never_shortened 1 (init_db 1000000 1) (firstn 12 late_h5 ++ ASweepE :: skipn 13 late_h5)
  /\ In ASweepE (firstn 12 late_h5)
  /\ exists s' l, In (s', 1) (expiry_calls (fst (run (init_db 1000000 1) (firstn 12 late_h5)))) /\ elive s' 1 l
       /\ (l_eT l < MAXT)%Z /\ l_eT l = 1000006%Z /\ l_start l = 1000000%Z.
Proof.
  split; [apply late_run_b; vm_compute; reflexivity|].
  split; [apply never_shortened_b_sound; vm_compute; reflexivity|].
  split; [cbn; do 2 right; left; reflexivity|].
  eexists _, _. split; [vm_compute; left; reflexivity|].
  split; [split; vm_compute; reflexivity|]. split; [vm_compute; reflexivity|]. split; vm_compute; reflexivity.
Qed.
(* the hold lengthened from 3 s to 8 s at t0 + 1 (new deadline t0 + 10) satisfies never_shortened and is handed to doExpried
   by the sweep of second t0 + 10 *)
Example C06_late_not_updated_exact_lengthened :
  late_run 1000000 1 (firstn 21 late_long ++ ASweepE :: skipn 22 late_long)
  /\ never_shortened 1 (init_db 1000000 1) (firstn 21 late_long ++ ASweepE :: skipn 22 late_long)
  /\ lock_target (fst (run (init_db 1000000 1) (firstn 3 late_long))) (make_cmd true 2 2 101 7 0 5 0 8 0 0 None) = Some 1
  /\ In ASweepE (firstn 21 late_long)
  /\ exists s' l, In (s', 1) (expiry_calls (fst (run (init_db 1000000 1) (firstn 21 late_long)))) /\ elive s' 1 l
       /\ (l_eT l < MAXT)%Z /\ l_eT l = 1000010%Z /\ now (fst (run (init_db 1000000 1) (firstn 21 late_long))) = 1000010%Z.
Proof.
  split; [apply late_run_b; vm_compute; reflexivity|].
  split; [apply never_shortened_b_sound; vm_compute; reflexivity|].
  split; [vm_compute; reflexivity|].
  split; [cbn; do 2 right; left; reflexivity|].
  eexists _, _. split; [vm_compute; left; reflexivity|].
  split; [split; vm_compute; reflexivity|]. split; [vm_compute; reflexivity|]. split; vm_compute; reflexivity.
Qed.

(* ... and it does not survive its deadline: in every state in which r0 is still held, the sweeper has not passed it *)
Theorem C06_late_not_updated_gone : forall t0 aoft acts r0,
  late_run t0 aoft acts -> never_shortened r0 (init_db t0 aoft) acts ->
  forall s, (s = fst (run (init_db t0 aoft) acts) \/ exists a, In (s, a) (run_states (init_db t0 aoft) acts)) ->
  forall l, aget (store s) r0 = Some l -> 0 < l_locked l ->
  l_expried l = false /\ ((checkE s <= l_eT l)%Z \/ (MAXT <= l_eT l)%Z).
Proof. exact late_not_updated_gone. Qed.
Goal True. idtac "ASSUMPTIONS-OF C06_late_not_updated_gone". Abort.
Print Assumptions C06_late_not_updated_gone.
Example C06_late_not_updated_gone_nonvacuous :
  never_shortened 1 (init_db 1000000 1) (firstn 9 late_h5)
  /\ exists l, aget (store (fst (run (init_db 1000000 1) (firstn 9 late_h5)))) 1 = Some l /\ 0 < l_locked l.
Proof.
  split; [apply never_shortened_b_sound; vm_compute; reflexivity|]. eexists. split; vm_compute; reflexivity.
Qed.

(* ------------------------------------------------------------------ (3) after an update / re-lock *)
(* every doExpried call of an expiry sweep on a live hold with a finite deadline l_eT (the deadline set by the grant or by
   the LAST successful update / re-lock): never early, and the sweep started from a second <= l_eT + 8 *)
Theorem C06_late_after_update : forall t0 aoft acts,
  late_run t0 aoft acts ->
  forall s, In (s, ASweepE) (run_states (init_db t0 aoft) acts) ->
  forall s' r l, In (s', r) (expiry_calls s) -> elive s' r l -> (l_eT l < MAXT)%Z ->
  (l_eT l <= now s)%Z /\ (checkE s <= l_eT l + 8)%Z /\ (now s <= checkE s + 1)%Z.
Proof. exact late_after_update. Qed.
Goal True. idtac "ASSUMPTIONS-OF C06_late_after_update". Abort.
Print Assumptions C06_late_after_update.

(* for every sweep but the first of the history:  deadline <= now <= deadline + 8 *)
Theorem C06_late_after_update_exact : forall t0 aoft pre suf,
  late_run t0 aoft (pre ++ ASweepE :: suf) -> In ASweepE pre ->
  forall s' r l, In (s', r) (expiry_calls (fst (run (init_db t0 aoft) pre))) -> elive s' r l -> (l_eT l < MAXT)%Z ->
  (l_eT l <= now (fst (run (init_db t0 aoft) pre)) <= l_eT l + 8)%Z.
Proof. exact late_after_update_exact. Qed.
Goal True. idtac "ASSUMPTIONS-OF C06_late_after_update_exact". Abort.
Print Assumptions C06_late_after_update_exact.
(* the shortened hold (new deadline t0 + 5) is handed over by the sweep of second t0 + 8 *)
Example C06_late_after_update_exact_nonvacuous :
  late_run 1000000 1 (firstn 17 late_short ++ ASweepE :: skipn 18 late_short)
  /\ In ASweepE (firstn 17 late_short)
  /\ exists s' l, In (s', 1) (expiry_calls (fst (run (init_db 1000000 1) (firstn 17 late_short)))) /\ elive s' 1 l
       /\ l_eT l = 1000005%Z /\ now (fst (run (init_db 1000000 1) (firstn 17 late_short))) = 1000008%Z.
Proof.
  split; [apply late_run_b; vm_compute; reflexivity|].
  split; [cbn; do 2 right; left; reflexivity|].
  eexists _, _. split; [vm_compute; left; reflexivity|].
  split; [split; vm_compute; reflexivity|]. split; vm_compute; reflexivity.
Qed.
(* the lengthened hold (3 s -> 8 s at t0 + 1, new deadline t0 + 10) is handed over at t0 + 10 *)
Example C06_late_lengthened_example :
  late_run 1000000 1 late_long
  /\ exists s' l, In (s', 1) (expiry_calls (fst (run (init_db 1000000 1) (firstn 21 late_long)))) /\ elive s' 1 l
       /\ l_eT l = 1000010%Z /\ now (fst (run (init_db 1000000 1) (firstn 21 late_long))) = 1000010%Z.
Proof.
  split; [exact late_long_run|].
  eexists _, _. split; [vm_compute; left; reflexivity|].
  split; [split; vm_compute; reflexivity|]. split; vm_compute; reflexivity.
Qed.
(* a long-table hold (flag 0x100, E = 8) fires at exactly its bucket time t0 + 9 *)
Example C06_late_long_table_example :
  late_run 1000000 1 late_tab
  /\ In 1 (wheel_get (elong (fst (run (init_db 1000000 1) (firstn 3 late_tab)))) (lkey 1000009))
  /\ exists s' l, In (s', 1) (expiry_calls (fst (run (init_db 1000000 1) (firstn 18 late_tab)))) /\ elive s' 1 l
       /\ l_eT l = 1000009%Z /\ now (fst (run (init_db 1000000 1) (firstn 18 late_tab))) = 1000009%Z.
Proof.
  split; [exact late_tab_run|]. split; [vm_compute; left; reflexivity|].
  eexists _, _. split; [vm_compute; left; reflexivity|].
  split; [split; vm_compute; reflexivity|]. split; vm_compute; reflexivity.
Qed.

(* event level: every EXPRIED reply of an expiry sweep of a regular run *)
Theorem C06_late_expried_reply : forall t0 aoft acts,
  late_run t0 aoft acts ->
  forall s, In (s, ASweepE) (run_states (init_db t0 aoft) acts) ->
  forall e, In e (snd (step s ASweepE)) -> is_er e = true ->
  exists s' r l lc lrc d, In (s', r) (expiry_calls s) /\ elive s' r l
    /\ e = reply (l_conn l) (l_cmd l) R_EXPRIED lc lrc d /\ (l_eT l <= now s)%Z
    /\ ((l_eT l < MAXT)%Z -> (checkE s <= l_eT l + 8)%Z /\ (now s <= checkE s + 1)%Z).
Proof. exact late_expried_reply. Qed.
Goal True. idtac "ASSUMPTIONS-OF C06_late_expried_reply". Abort.
Print Assumptions C06_late_expried_reply.
Example C06_late_expried_reply_nonvacuous :
  exists s e, In (s, ASweepE) (run_states (init_db 1000000 1) late_short) /\ In e (snd (step s ASweepE)) /\ is_er e = true
              /\ now s = 1000008%Z.
Proof.
  eexists _, _. split; [|split; [|split]].
  - cbn [late_short late_ticks late_lock late_upd run_states app]. do 17 right. left. reflexivity.
  - vm_compute. do 2 right. left. reflexivity.
  - reflexivity.
  - vm_compute. reflexivity.
Qed.

(* ------------------------------------------------------------------ (4) NOTHING IS LOST *)
(* every held record of every state of a regular run is a live hold, and the sweeper (which is at most one second behind
   server time, not at all after its first sweep) has not passed  deadline + 8:  no hold with a finite deadline is still
   held more than 8 ticks (the property allows 9 .. 10) after its deadline *)
Theorem C06_late_nothing_lost : forall t0 aoft acts,
  late_run t0 aoft acts ->
  forall s, (s = fst (run (init_db t0 aoft) acts) \/ exists a, In (s, a) (run_states (init_db t0 aoft) acts)) ->
  forall r l, aget (store s) r = Some l -> 0 < l_locked l ->
  l_expried l = false /\ ((checkE s <= l_eT l + 8)%Z \/ (MAXT <= l_eT l)%Z) /\ (now s <= checkE s + 1)%Z.
Proof. exact late_nothing_lost. Qed.
Goal True. idtac "ASSUMPTIONS-OF C06_late_nothing_lost". Abort.
Print Assumptions C06_late_nothing_lost.
(* the shortened hold is still held at t0 + 7 (deadline t0 + 5): 2 seconds late, within the bound *)
Example C06_late_nothing_lost_nonvacuous :
  exists l, aget (store (fst (run (init_db 1000000 1) (firstn 16 late_short)))) 1 = Some l /\ 0 < l_locked l
            /\ l_eT l = 1000005%Z /\ now (fst (run (init_db 1000000 1) (firstn 16 late_short))) = 1000007%Z.
Proof. eexists. split; [vm_compute; reflexivity|]. split; [reflexivity|]. split; vm_compute; reflexivity. Qed.

(* ------------------------------------------------------------------ why the un-renew flag is excluded *)
(* A holds key 7 for 100 s; B (lock id 102, un-renew flag 0x100 of the timeout flags, Timeout 30, Expried 2) queues at t0:
   its deadline t0 + 3 is computed when the request arrives.  A unlocks at t0 + 11, B is granted with the deadline 8
   seconds in the past and is handed to doExpried by the next sweep, at t0 + 12 = deadline + 9.  The schedule is
   regular in every other respect (one-second ticks, an expiry sweep after every tick, leader, core commands). *)
Definition late_unrenew : list action :=
  [AReq 1 (make_cmd true 1 0 101 7 0 5 0 100 0 0 None);
   AReq 2 (make_cmd true 2 0 102 7 256 30 0 2 0 0 None)] ++ late_ticks 11 ++
  [AReq 1 (make_cmd false 3 0 101 7 0 0 0 0 0 0 None)] ++ late_ticks 1.
Example C06_late_unrenew_flag_excluded :
  core late_unrenew /\ eregular_b true late_unrenew = false
  /\ eregular_b true (late_lock 1 0 100 :: AReq 2 (make_cmd true 2 0 102 7 0 30 0 2 0 0 None) :: skipn 2 late_unrenew) = true
  /\ exists s' l, In (s', 2) (expiry_calls (fst (run (init_db 1000000 1) (firstn 26 late_unrenew)))) /\ elive s' 2 l
       /\ l_eT l = 1000003%Z /\ now (fst (run (init_db 1000000 1) (firstn 26 late_unrenew))) = 1000012%Z.
Proof.
  split; [split; [repeat constructor|vm_compute; reflexivity]|].
  split; [vm_compute; reflexivity|]. split; [vm_compute; reflexivity|].
  eexists _, _. split; [vm_compute; left; reflexivity|].
  split; [split; vm_compute; reflexivity|]. split; vm_compute; reflexivity.
Qed.
