(* Link between the quorum bookkeeping (Quorum.v) and the acknowledgement layer of the engine model (Engine/Ack.v):
   `a_cfg` -- ReplicationAckDB.ackCount, which Ack.v keeps constant during a run and over which the engine-level C11
   theorems quantify -- is, for an ack DB of any reachable bookkeeping state without a replica set, the value of the
   generated UpdateDBAckCount on the current follower list. *)
From Coq Require Import List NArith ZArith.
From Slock Require Import Gen.GenDecision Engine.Ack AckGlue.Quorum.
Import ListNotations.
Open Scope N_scope.

Theorem quorum_engine_cfg : forall ops mode d c t0 aoft,
  let q := qrun (q_init mode None) ops in
  db_count q d = Some c ->
  a_cfg (init_astate t0 aoft c) = UpdateDBAckCount (count_in q).
Proof.
  intros ops mode d c t0 aoft q H. cbn [a_cfg init_astate].
  destruct (qrun_no_replset ops (q_init mode None) eq_refl (init_current mode None)) as [Hcur _].
  fold q in Hcur. apply db_count_in in H. unfold all_current in Hcur. rewrite Forall_forall in Hcur.
  exact (Hcur _ H).
Qed.
