(* Quorum bookkeeping around the ack counter of C11 (server/replication.go).

   ReplicationManager keeps the follower list `serverChannels` and one ReplicationAckDB per lock database
   (`ackDbs[dbId]`, created lazily).  Every ack DB caches in `ackCount` the number of acknowledgement events an
   ack-lock must collect (ProcessLeaderPushLock copies it into lock.ackCount).  The number is recomputed for ALL
   existing ack DBs by UpdateDBAckCount, whose callers are
       addServerChannel      (after the append to serverChannels)
       removeServerChannel   (after the filtered list was stored)
       GetOrNewAckDB         (only when a DB was created: NewReplicationAckDB starts at 1)
       SwitchToLeader
   Nothing else writes ReplicationAckDB.ackCount or serverChannels (ReplicationManager.Close empties both lists and
   is not modelled).  Config.AofAckMode is written at start-up only (config.go; CONFIG SET does not accept it), so the
   mode is a constant of the state.  With a replica set (`slock.arbiterManager != nil`) and a mode other than 2 the
   formula reads ArbiterManager.GetMajorityMemberCount(), which depends on `members`; AddMember / RemoveMember /
   UpdateMember / the member-list announcement assign `members` WITHOUT calling UpdateDBAckCount (operation QArbiter).

   The formula itself is NOT written here: `Slock.Gen.GenDecision.UpdateDBAckCount` is regenerated from the Go source
   by gen/go2coq on every run. *)
From Coq Require Import List NArith ZArith Bool Lia.
From Slock Require Import Gen.GenDecision.
Import ListNotations.
Open Scope N_scope.

Record qstate := mkQ {
  q_mode : N;                    (* Config.AofAckMode *)
  q_arb : option (list bool);    (* None: slock.arbiterManager == nil; Some l: one `arbiter != 0` flag per member *)
  q_chans : list N;              (* serverChannels (channel identities, list order) *)
  q_dbs : list (N * N)           (* non-nil entries of ackDbs: (dbId, ackCount), creation order *)
}.

(* ArbiterManager.GetMajorityMemberCount (server/arbiter.go) -- hand transcription, checked by the correspondence *)
Definition arb_majority (ms : list bool) : Z :=
  match ms with
  | [] => 0%Z
  | _ => (Z.quot (Z.of_nat (length (filter negb ms))) 2 + 1)%Z
  end.

(* the expressions UpdateDBAckCount reads, as the translator names them *)
Definition count_in (q : qstate) : UpdateDBAckCount_in :=
  mk_UpdateDBAckCount_in
    (match q_arb q with Some _ => true | None => false end)
    (q_mode q)
    (Z.of_nat (length (q_chans q)))
    (match q_arb q with Some ms => arb_majority ms | None => 0%Z end).

Definition cur_count (q : qstate) : N := UpdateDBAckCount (count_in q).

(* UpdateDBAckCount: for _, db := range ackDbs { if db != nil { db.ackCount = uint8(ackCount) } } *)
Definition update_all (q : qstate) : qstate :=
  mkQ (q_mode q) (q_arb q) (q_chans q) (map (fun p => (fst p, cur_count q)) (q_dbs q)).

Definition db_count (q : qstate) (d : N) : option N :=
  match find (fun p => N.eqb (fst p) d) (q_dbs q) with
  | Some p => Some (snd p)
  | None => None
  end.

(* GetOrNewAckDB *)
Definition get_or_new (q : qstate) (d : N) : qstate :=
  match db_count q d with
  | Some _ => q
  | None => update_all (mkQ (q_mode q) (q_arb q) (q_chans q) (q_dbs q ++ [(d, 1)]))
  end.

Inductive qop :=
| QAdd (c : N)                 (* addServerChannel(c) *)
| QRemove (c : N)              (* removeServerChannel(c) *)
| QGetDB (d : N)               (* GetOrNewAckDB(d) *)
| QReg (d : N)                 (* PushLock of a require-ack LOCK record on the leader: GetOrNewAckDB(d), then
                                  ProcessLeaderPushLock writes lock.ackCount = db.ackCount -- the output *)
| QLeader                      (* SwitchToLeader *)
| QArbiter (ms : list bool).   (* the replica-set member list is replaced (no effect without a replica set) *)

Definition qstep (q : qstate) (op : qop) : qstate * option N :=
  match op with
  | QAdd c => (update_all (mkQ (q_mode q) (q_arb q) (q_chans q ++ [c]) (q_dbs q)), None)
  | QRemove c =>
      (update_all (mkQ (q_mode q) (q_arb q) (filter (fun x => negb (N.eqb x c)) (q_chans q)) (q_dbs q)), None)
  | QGetDB d => (get_or_new q d, None)
  | QReg d => let q' := get_or_new q d in (q', db_count q' d)
  | QLeader => (update_all q, None)
  | QArbiter ms =>
      match q_arb q with
      | Some _ => (mkQ (q_mode q) (Some ms) (q_chans q) (q_dbs q), None)
      | None => (q, None)
      end
  end.

(* states after every operation, and the outputs *)
Fixpoint qtrace (q : qstate) (ops : list qop) : list (qstate * option N) :=
  match ops with
  | [] => []
  | op :: rest => let r := qstep q op in r :: qtrace (fst r) rest
  end.

Fixpoint qrun (q : qstate) (ops : list qop) : qstate :=
  match ops with
  | [] => q
  | op :: rest => qrun (fst (qstep q op)) rest
  end.

Definition q_init (mode : N) (arb : option (list bool)) : qstate := mkQ mode arb [] [].

(* ------------------------------------------------------------------------------------------------ invariant *)
(* every existing ack DB holds the count of the CURRENT follower set / configuration *)
Definition all_current (q : qstate) : Prop := Forall (fun p => snd p = cur_count q) (q_dbs q).

Definition is_arbiter_op (op : qop) : bool := match op with QArbiter _ => true | _ => false end.

Lemma cur_count_dbs_irrelevant : forall m a c d1 d2, cur_count (mkQ m a c d1) = cur_count (mkQ m a c d2).
Proof. reflexivity. Qed.

Lemma update_all_current : forall q, all_current (update_all q).
Proof.
  intro q. unfold all_current, update_all. cbn [q_dbs].
  apply Forall_forall. intros p Hp. apply in_map_iff in Hp. destruct Hp as [p0 [E _]]. subst p. reflexivity.
Qed.

Lemma get_or_new_current : forall q d, all_current q -> all_current (get_or_new q d).
Proof.
  intros q d H. unfold get_or_new. destruct (db_count q d); [exact H|apply update_all_current].
Qed.

(* any operation other than a member-list change keeps the invariant ... *)
Lemma qstep_current : forall q op, is_arbiter_op op = false -> all_current q -> all_current (fst (qstep q op)).
Proof.
  intros q op Hop H. destruct op; cbn [qstep fst]; try discriminate.
  - apply update_all_current.
  - apply update_all_current.
  - apply get_or_new_current; exact H.
  - apply get_or_new_current; exact H.
  - apply update_all_current.
Qed.

(* ... and a follower joining / leaving and SwitchToLeader ESTABLISH it, whatever the state was *)
Definition recomputes (op : qop) : bool :=
  match op with QAdd _ | QRemove _ | QLeader => true | _ => false end.

Lemma qstep_establishes : forall q op, recomputes op = true -> all_current (fst (qstep q op)).
Proof. intros q op H. destruct op; try discriminate; apply update_all_current. Qed.

(* without a replica set the member-list operation does nothing *)
Lemma qstep_current_no_arbiter : forall q op, q_arb q = None -> all_current q ->
  all_current (fst (qstep q op)) /\ q_arb (fst (qstep q op)) = None.
Proof.
  intros q op Ha H. destruct op.
  - split; [apply update_all_current|exact Ha].
  - split; [apply update_all_current|exact Ha].
  - split; [apply get_or_new_current; exact H|]. cbn. unfold get_or_new. destruct (db_count q d); exact Ha.
  - split; [apply get_or_new_current; exact H|]. cbn. unfold get_or_new. destruct (db_count q d); exact Ha.
  - split; [apply update_all_current|exact Ha].
  - cbn [qstep]. rewrite Ha. split; [exact H|exact Ha].
Qed.

(* every operation sequence: the invariant holds after EVERY operation *)
Theorem quorum_all_current : forall ops q,
  all_current q -> forallb (fun op => negb (is_arbiter_op op)) ops = true ->
  Forall (fun r => all_current (fst r)) (qtrace q ops).
Proof.
  induction ops as [|op rest IH]; intros q H Hops; cbn [qtrace]; [constructor|].
  cbn [forallb] in Hops. apply andb_prop in Hops. destruct Hops as [H1 H2].
  apply negb_true_iff in H1.
  assert (Hs := qstep_current q op H1 H).
  constructor; [exact Hs|apply IH; assumption].
Qed.

Theorem quorum_all_current_no_replset : forall ops q,
  q_arb q = None -> all_current q -> Forall (fun r => all_current (fst r)) (qtrace q ops).
Proof.
  induction ops as [|op rest IH]; intros q Ha H; cbn [qtrace]; [constructor|].
  destruct (qstep_current_no_arbiter q op Ha H) as [Hs Ha'].
  constructor; [exact Hs|apply IH; assumption].
Qed.

Lemma init_current : forall mode arb, all_current (q_init mode arb).
Proof. intros. constructor. Qed.

(* with a replica set: after a member-list change the counts are current again as soon as a follower joins or
   leaves or the node is (re)made leader *)
Theorem quorum_current_after_recompute : forall ops q op,
  recomputes op = true -> all_current (qrun q (ops ++ [op])).
Proof.
  induction ops as [|o rest IH]; intros q op H; cbn [app qrun].
  - apply qstep_establishes; exact H.
  - apply IH; exact H.
Qed.

(* ------------------------------------------------------------------------------------------------ registration *)
Lemma db_count_in : forall q d c, db_count q d = Some c -> In (d, c) (q_dbs q).
Proof.
  intros q d c H. unfold db_count in H. destruct (find _ _) as [p|] eqn:F; [|discriminate].
  injection H as <-. apply find_some in F. destruct F as [Hin He]. apply N.eqb_eq in He.
  destruct p as [a b]; cbn in *. subst a. exact Hin.
Qed.

Lemma find_app_new : forall (l : list (N * N)) d c,
  find (fun p => N.eqb (fst p) d) l = None -> find (fun p => N.eqb (fst p) d) (l ++ [(d, c)]) = Some (d, c).
Proof.
  induction l as [|a l IH]; intros d c H; cbn in *.
  - rewrite N.eqb_refl. reflexivity.
  - destruct (N.eqb (fst a) d); [discriminate|apply IH; exact H].
Qed.

Lemma find_map_snd : forall (l : list (N * N)) (d v : N),
  find (fun p => N.eqb (fst p) d) (map (fun p => (fst p, v)) l)
  = match find (fun p => N.eqb (fst p) d) l with Some p => Some (fst p, v) | None => None end.
Proof.
  induction l as [|a l IH]; intros d v; cbn; [reflexivity|].
  destruct (N.eqb (fst a) d); [reflexivity|apply IH].
Qed.

Lemma get_or_new_has : forall q d, exists c, db_count (get_or_new q d) d = Some c.
Proof.
  intros q d. unfold get_or_new. destruct (db_count q d) as [c|] eqn:E.
  - exists c. exact E.
  - unfold db_count in *. destruct (find _ (q_dbs q)) eqn:F; [discriminate|].
    cbn [update_all q_dbs]. rewrite find_map_snd, (find_app_new _ _ _ F). eexists. reflexivity.
Qed.

(* an ack-lock registered at any time is given exactly the count of the follower set of that moment *)
Theorem quorum_registration_count : forall q d,
  all_current q ->
  let r := qstep q (QReg d) in snd r = Some (cur_count (fst r)).
Proof.
  intros q d H. cbn [qstep fst snd].
  destruct (get_or_new_has q d) as [c Hc]. rewrite Hc. f_equal.
  assert (Hcur := get_or_new_current q d H).
  apply db_count_in in Hc. unfold all_current in Hcur. rewrite Forall_forall in Hcur.
  exact (Hcur _ Hc).
Qed.

Theorem quorum_registration_count_run : forall ops q,
  all_current q -> forallb (fun op => negb (is_arbiter_op op)) ops = true ->
  Forall (fun r => match snd r with Some c => c = cur_count (fst r) | None => True end) (qtrace q ops).
Proof.
  induction ops as [|op rest IH]; intros q H Hops; cbn [qtrace]; [constructor|].
  cbn [forallb] in Hops. apply andb_prop in Hops. destruct Hops as [H1 H2]. apply negb_true_iff in H1.
  constructor; [|apply IH; [apply qstep_current; assumption|exact H2]].
  destruct op; cbn [qstep snd]; try exact I.
  - pose proof (quorum_registration_count q d H) as R. cbn [qstep fst snd] in R. rewrite R. reflexivity.
  - destruct (q_arb q); exact I.
Qed.

(* ------------------------------------------------------------------------------------------------ what the number means *)
(* (these are statements about the GENERATED function: a changed formula in the source changes the definition and
   the lemmas stop checking) *)
Section Reading.
  Variable n : Z.                       (* len(serverChannels) *)
  Hypothesis Hn : (0 <= n < 255)%Z.

  (* no replica set, mode 0 or 2 ("all"): every follower plus the leader's own flush *)
  Lemma count_all : forall mode maj, mode <> 1 ->
    UpdateDBAckCount (mk_UpdateDBAckCount_in false mode n maj) = Z.to_N (n + 1).
  Proof.
    intros mode maj Hm. unfold UpdateDBAckCount. cbn.
    destruct (N.eqb_spec mode 1); [contradiction|].
    rewrite Z.mod_small by lia. reflexivity.
  Qed.

  (* no replica set, mode 1 ("most"): a strict majority of the n+1 nodes, never more than all of them *)
  Lemma count_majority : forall maj,
    let c := Z.of_N (UpdateDBAckCount (mk_UpdateDBAckCount_in false 1 n maj)) in
    (c = (n + 1) / 2 + 1 /\ n + 1 < 2 * c /\ c <= n + 1 + 1 /\ (1 <= n -> c <= n + 1))%Z.
  Proof.
    intros maj c. subst c. unfold UpdateDBAckCount.
    cbn [UpdateDBAckCount_in_has_arbiter UpdateDBAckCount_in_ack_mode UpdateDBAckCount_in_n_channels
         UpdateDBAckCount_in_majority N.eqb Pos.eqb].
    rewrite Z.quot_div_nonneg by lia.
    pose proof (Z.div_mod (n + 1) 2 ltac:(lia)) as D. pose proof (Z.mod_pos_bound (n + 1) 2 ltac:(lia)) as M.
    assert (0 <= (n + 1) / 2 <= n)%Z by lia.
    rewrite Z.mod_small by lia. rewrite Z2N.id by lia.
    repeat split; lia.
  Qed.

  (* replica set, mode 2: all followers plus the leader *)
  Lemma count_replset_all : forall maj,
    UpdateDBAckCount (mk_UpdateDBAckCount_in true 2 n maj) = Z.to_N (n + 1).
  Proof. intros. unfold UpdateDBAckCount. cbn. rewrite Z.mod_small by lia. reflexivity. Qed.

  (* replica set, other modes: the majority of the voting members as GetMajorityMemberCount reports it *)
  Lemma count_replset_majority : forall mode maj, mode <> 2 -> (0 <= maj < 256)%Z ->
    UpdateDBAckCount (mk_UpdateDBAckCount_in true mode n maj) = Z.to_N maj.
  Proof.
    intros mode maj Hm Hmaj. unfold UpdateDBAckCount. cbn.
    destruct (N.eqb_spec mode 2); [contradiction|]. rewrite Z.mod_small by lia. reflexivity.
  Qed.
End Reading.

(* the small configurations of the property text (0..2 followers) *)
Lemma count_table :
  map (fun n => UpdateDBAckCount (mk_UpdateDBAckCount_in false 0 n 0)) [0; 1; 2]%Z = [1; 2; 3]
  /\ map (fun n => UpdateDBAckCount (mk_UpdateDBAckCount_in false 1 n 0)) [0; 1; 2]%Z = [1; 2; 2]
  /\ map (fun n => UpdateDBAckCount (mk_UpdateDBAckCount_in false 2 n 0)) [0; 1; 2]%Z = [1; 2; 3].
Proof. repeat split; vm_compute; reflexivity. Qed.

Lemma qrun_no_replset : forall ops q, q_arb q = None -> all_current q ->
  all_current (qrun q ops) /\ q_arb (qrun q ops) = None /\ q_mode (qrun q ops) = q_mode q.
Proof.
  induction ops as [|op rest IH]; intros q Ha H; cbn [qrun]; [auto|].
  destruct (qstep_current_no_arbiter q op Ha H) as [Hs Ha'].
  destruct (IH _ Ha' Hs) as [A [B C]]. split; [exact A|]. split; [exact B|]. rewrite C.
  destruct op; cbn; try reflexivity; try (unfold get_or_new; destruct (db_count q d); reflexivity).
  rewrite Ha. reflexivity.
Qed.

(* in a reachable state (no replica set, fewer than 255 followers) every ack DB asks for followers+1 resp. the
   strict majority *)
Theorem quorum_count_meaning : forall ops mode,
  let q := qrun (q_init mode None) ops in
  (length (q_chans q) < 255)%nat ->
  forall d c, In (d, c) (q_dbs q) ->
    if N.eqb mode 1 then Z.of_N c = ((Z.of_nat (length (q_chans q)) + 1) / 2 + 1)%Z
    else c = N.of_nat (length (q_chans q) + 1).
Proof.
  intros ops mode q Hlen d c Hin.
  assert (Hall := qrun_no_replset ops (q_init mode None) eq_refl (init_current mode None)).
  fold q in Hall. cbn [q_mode q_init] in Hall.
  destruct Hall as [Hcur [Ha Hm]]. unfold all_current in Hcur. rewrite Forall_forall in Hcur.
  specialize (Hcur _ Hin). cbn [snd] in Hcur. subst c.
  unfold cur_count, count_in. rewrite Ha, Hm.
  destruct (N.eqb_spec mode 1) as [->|Hne].
  - destruct (count_majority (Z.of_nat (length (q_chans q))) ltac:(lia) 0%Z) as [E _]. exact E.
  - rewrite count_all by (try lia; exact Hne). lia.
Qed.

(* ------------------------------------------------------------------------------------------------ refutation *)
(* replica set, majority mode: a member-list change leaves every existing ack DB with the majority of the OLD list
   until the next follower joins/leaves.  One voting member (majority 1), ack DB 0 created, then the list grows to
   three voting members (majority 2): the DB still asks for 1. *)
Theorem quorum_all_current_refuted_replset :
  exists ops, let q := qrun (q_init 0 (Some [false])) ops in
    ~ all_current q /\ db_count q 0 = Some 1 /\ cur_count q = 2.
Proof.
  exists [QGetDB 0; QArbiter [false; false; false]]. vm_compute. split; [|split; reflexivity].
  intro H. inversion H as [|? ? E _]. discriminate E.
Qed.
