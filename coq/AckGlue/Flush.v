(* Write buffer of the append file and the reports "this ack request reached the leader's own log" (server/aof.go).

   AofFile keeps three buffers:  wbuf[0..windex)   64-byte records not yet written to the main file,
                                 dwbuf[0..dwindex) value payloads not yet written to the .dat file,
                                 ackRequests[0..ackIndex)  the buffered records that carry AOF_FLAG_REQUIRE_ACKED
                                                           (slices into wbuf).
   AofFile.Flush writes wbuf, then dwbuf, and tells Aof.lockAcked(request, ok) for every buffered ack request
   (-> AofChannel.AofAcked -> ReplicationAckDB.ProcessLeaderAofed, the leader's "own flush" acknowledgement, or
   DoAckLock(false)).  Flush runs on request (Aof.Flush / waitLockAofChannel), when wbuf is full (inside WriteLock),
   when a payload does not fit (inside WriteLockData) and inside Close.

   Records are numbered in the order Aof.PushLock hands them out (aofFileOffset): the n-th append of a run is
   record n.  Write outcomes are an oracle: WOk, or WFail k = the write call reported an error after k bytes had
   reached the file (os.File.Write returns err != nil whenever n < len, so the retry loops of Flush run once).

   Ghost components (not in the Go state) record what reached the files and what was asked:
     f_dmain  records whose 64 bytes are in the main file     f_ddata  records whose payload is in the .dat file
     f_regd   every request ever stored in ackRequests         f_wants  records appended with a payload *)
From Coq Require Import List NArith Bool.
Import ListNotations.
Open Scope N_scope.

Inductive wres := WOk | WFail (k : N).

Record fstate := mkF {
  f_open : bool;               (* file != nil (and dataFile != nil: Open fails otherwise in O_WRONLY mode) *)
  f_next : N;                  (* number of the next record *)
  f_main : list N;             (* wbuf: record numbers, windex = 64 * length *)
  f_data : list (N * N);       (* dwbuf: (record, payload length), dwindex = sum of the lengths *)
  f_acks : list N;             (* ackRequests[0..ackIndex) *)
  f_dmain : list N;
  f_ddata : list N;
  f_regd : list N;
  f_wants : list N
}.

Definition f_init : fstate := mkF true 0 [] [] [] [] [] [] [].

Definition dsum (l : list (N * N)) : N := fold_right (fun p a => snd p + a) 0 l.
Definition is_nil {A} (l : list A) : bool := match l with [] => true | _ => false end.
Definition report (l : list N) (b : bool) : list (N * bool) := map (fun r => (r, b)) l.

(* what a failed write left in the file *)
Definition written_main (l : list N) (k : N) : list N := firstn (N.to_nat (k / 64)) l.
Fixpoint written_data (l : list (N * N)) (k : N) : list N :=
  match l with
  | [] => []
  | (r, n) :: t => if n <=? k then r :: written_data t (k - n) else []
  end.

(* buffer capacities: wbuf holds cap records (bufSize/64), dwbuf bufSize*64 bytes *)
Definition dcap (cap : nat) : N := 4096 * N.of_nat cap.

(* AofFile.Flush *)
Definition flush (st : fstate) (wm wd : wres) : fstate * list (N * bool) * bool :=
  if negb (f_open st) then
    (* file == nil, dataFile == nil: nothing is written, the requests are reported true *)
    (mkF false (f_next st) (f_main st) (f_data st) [] (f_dmain st) (f_ddata st) (f_regd st) (f_wants st),
     report (f_acks st) true, false)
  else
  match (if is_nil (f_main st) then WOk else wm) with
  | WFail k =>
      (mkF true (f_next st) [] [] [] (f_dmain st ++ written_main (f_main st) k) (f_ddata st) (f_regd st) (f_wants st),
       report (f_acks st) false, true)
  | WOk =>
      let dm := f_dmain st ++ f_main st in
      match (if dsum (f_data st) =? 0 then WOk else wd) with
      | WFail k =>
          (mkF true (f_next st) [] [] [] dm (f_ddata st ++ written_data (f_data st) k) (f_regd st) (f_wants st),
           report (f_acks st) false, true)
      | WOk =>
          (mkF true (f_next st) [] [] [] dm (f_ddata st ++ map fst (f_data st)) (f_regd st) (f_wants st),
           report (f_acks st) true, false)
      end
  end.

(* AofFile.WriteLock for record r *)
Definition write_lock (cap : nat) (st : fstate) (r : N) (ack : bool) (wm wd : wres) : fstate * list (N * bool) * bool :=
  if negb (f_open st) then (st, [], true)                       (* "File Unopen" *)
  else
    let a := if ack then [r] else [] in
    let st1 := mkF true (f_next st) (f_main st ++ [r]) (f_data st) (f_acks st ++ a) (f_dmain st) (f_ddata st)
                   (f_regd st ++ a) (f_wants st) in
    if Nat.leb cap (length (f_main st1)) then flush st1 wm wd else (st1, [], false).

(* the unbuffered tail of WriteLockData: dataFile.Write(lock.data) *)
Definition write_direct (st : fstate) (r : N) (dw : wres) : fstate * list (N * bool) * bool :=
  if negb (is_nil (f_main st)) || (0 <? dsum (f_data st)) then (st, [], true)     (* "write lock data error" *)
  else
    match dw with
    | WOk => (mkF (f_open st) (f_next st) (f_main st) (f_data st) (f_acks st) (f_dmain st) (f_ddata st ++ [r])
                  (f_regd st) (f_wants st), [], false)
    | WFail _ => (st, [], true)
    end.

Definition flush_then_direct (st : fstate) (r : N) (wm wd dw : wres) : fstate * list (N * bool) * bool :=
  let '(st1, rep, err) := flush st wm wd in
  if err then (st1, rep, true)
  else let '(st2, rep2, err2) := write_direct st1 r dw in (st2, rep ++ rep2, err2).

(* AofFile.WriteLockData for record r with an n-byte payload *)
Definition write_lock_data (cap : nat) (st : fstate) (r n : N) (wm wd dw : wres) : fstate * list (N * bool) * bool :=
  if negb (f_open st) then (st, [], true)                       (* "data file error" *)
  else if negb (is_nil (f_main st)) then
    if n + dsum (f_data st) <=? dcap cap then
      (mkF true (f_next st) (f_main st) (f_data st ++ [(r, n)]) (f_acks st) (f_dmain st) (f_ddata st) (f_regd st)
           (f_wants st), [], false)
    else flush_then_direct st r wm wd dw
  else if 0 <? dsum (f_data st) then flush_then_direct st r wm wd dw
  else write_direct st r dw.

Inductive fop :=
| FAppend (ack : bool) (dlen : option N) (wm wd dw : wres)
    (* Aof.PushLock: WriteLock, then WriteLockData iff the record has the CONTAINS_DATA flag and WriteLock returned
       no error.  At most one Flush happens inside (outcomes wm, wd); dw is the outcome of the unbuffered write. *)
| FFlush (via_aof : bool) (wm wd : wres)
    (* via_aof = true: Aof.Flush (skips AofFile.Flush when windex = 0 and ackIndex = 0); false: AofFile.Flush *)
| FClose (wm wd : wres).
    (* AofFile.Close *)

Definition fstep (cap : nat) (st : fstate) (op : fop) : fstate * list (N * bool) * bool :=
  match op with
  | FAppend ack dlen wm wd dw =>
      let r := f_next st in
      let st0 := mkF (f_open st) (r + 1) (f_main st) (f_data st) (f_acks st) (f_dmain st) (f_ddata st) (f_regd st)
                     (f_wants st ++ match dlen with Some _ => [r] | None => [] end) in
      let '(st1, rep1, err1) := write_lock cap st0 r ack wm wd in
      if err1 then (st1, rep1, true)
      else match dlen with
           | None => (st1, rep1, false)
           | Some n => let '(st2, rep2, err2) := write_lock_data cap st1 r n wm wd dw in (st2, rep1 ++ rep2, err2)
           end
  | FFlush via wm wd =>
      if via && is_nil (f_main st) && is_nil (f_acks st) then (st, [], false) else flush st wm wd
  | FClose wm wd =>
      let '(st1, rep1, _) := if is_nil (f_main st) then (st, [], false) else flush st wm wd in
      (mkF false (f_next st1) (f_main st1) (f_data st1) [] (f_dmain st1) (f_ddata st1) (f_regd st1) (f_wants st1),
       rep1 ++ report (f_acks st1) false, false)
  end.

(* whole runs: final state and all reports in order *)
Fixpoint frun (cap : nat) (st : fstate) (ops : list fop) : fstate * list (N * bool) :=
  match ops with
  | [] => (st, [])
  | op :: rest =>
      let '(st1, rep, _) := fstep cap st op in
      let '(st2, reps) := frun cap st1 rest in (st2, rep ++ reps)
  end.

(* per-operation observations (what the correspondence check compares) *)
Fixpoint ftrace (cap : nat) (st : fstate) (ops : list fop) : list (fstate * list (N * bool) * bool) :=
  match ops with
  | [] => []
  | op :: rest => let x := fstep cap st op in x :: ftrace cap (fst (fst x)) rest
  end.

Definition durable (st : fstate) (r : N) : Prop :=
  In r (f_dmain st) /\ (In r (f_wants st) -> In r (f_ddata st)).
Definition durableb (st : fstate) (r : N) : bool * bool :=
  (existsb (N.eqb r) (f_dmain st), negb (existsb (N.eqb r) (f_wants st)) || existsb (N.eqb r) (f_ddata st)).
