(* Proofs about the write-buffer / ack-report model (Flush.v): every operation sequence, by an invariant. *)
From Coq Require Import List NArith Bool Lia Arith.
From Slock Require Import AckGlue.Flush.
Import ListNotations.
Open Scope N_scope.

(* ------------------------------------------------------------------------------------------------ small facts *)
Lemma is_nil_true : forall A (l : list A), is_nil l = true -> l = [].
Proof. destruct l; [reflexivity|discriminate]. Qed.

Lemma in_report : forall l b r c, In (r, c) (report l b) <-> (In r l /\ c = b).
Proof.
  intros l b r c. unfold report. rewrite in_map_iff. split.
  - intros [x [E H]]. injection E as -> ->. auto.
  - intros [H ->]. exists r. auto.
Qed.

Lemma map_fst_report : forall l b, map fst (report l b) = l.
Proof. intros. unfold report. rewrite map_map. cbn. apply map_id. Qed.

Lemma NoDup_app_tail : forall (a b : list N), NoDup (a ++ b) -> NoDup b.
Proof.
  induction a as [|x a IH]; intros b H; [exact H|]. cbn in H. inversion H; subst. apply IH. assumption.
Qed.

Lemma dsum_app : forall a b, dsum (a ++ b) = dsum a + dsum b.
Proof.
  induction a as [|p a IH]; intros b; [reflexivity|].
  change (dsum ((p :: a) ++ b)) with (snd p + dsum (a ++ b)). change (dsum (p :: a)) with (snd p + dsum a).
  rewrite IH. lia.
Qed.

(* ------------------------------------------------------------------------------------------------ Flush *)
Record flush_spec (st st' : fstate) (rep : list (N * bool)) (err : bool) : Prop := {
  fs_acks : f_acks st' = [];
  fs_rep : rep = report (f_acks st) (negb err);
  fs_next : f_next st' = f_next st;
  fs_open : f_open st' = f_open st;
  fs_regd : f_regd st' = f_regd st;
  fs_wants : f_wants st' = f_wants st;
  fs_dmain : incl (f_dmain st) (f_dmain st');
  fs_ddata : incl (f_ddata st) (f_ddata st');
  fs_bufs : f_open st = true -> f_main st' = [] /\ f_data st' = [];
  fs_ok : f_open st = true -> err = false -> incl (f_main st) (f_dmain st') /\ incl (map fst (f_data st)) (f_ddata st');
  fs_closed : f_open st = false -> f_main st' = f_main st /\ f_data st' = f_data st /\ err = false
}.

Lemma flush_ok : forall st wm wd st' rep err, flush st wm wd = (st', rep, err) -> flush_spec st st' rep err.
Proof.
  intros st wm wd st' rep err H. unfold flush in H.
  destruct (f_open st) eqn:Ho; cbn [negb] in H.
  - destruct (if is_nil (f_main st) then WOk else wm);
      [destruct (if dsum (f_data st) =? 0 then WOk else wd)|]; injection H as <- <- <-;
        constructor; cbn; auto; try (intro C; rewrite Ho in C; discriminate C); try (intros; split; reflexivity);
        try (apply incl_appl, incl_refl); try apply incl_refl; try (intros _ C; discriminate C).
    intros _ _. split; apply incl_appr, incl_refl.
  - injection H as <- <- <-.
    constructor; cbn; auto; try (intro C; rewrite Ho in C; discriminate C); try apply incl_refl.
Qed.

(* ------------------------------------------------------------------------------------------------ invariant *)
(* `e` is a record whose payload may still be missing from dwbuf (the record being appended, between WriteLock and
   WriteLockData); at operation boundaries e = f_next st, a number no record has yet *)
Record ginv (e : N) (st : fstate) : Prop := {
  g_acks_lt : Forall (fun r => r < f_next st) (f_acks st);
  g_regd_lt : Forall (fun r => r < f_next st) (f_regd st);
  g_wants_lt : Forall (fun r => r < f_next st) (f_wants st);
  g_acks_main : incl (f_acks st) (f_main st);
  g_main_data : f_main st = [] -> f_data st = [];
  g_closed : f_open st = false -> f_main st = [] /\ f_acks st = [];
  g_data : forall r, In r (f_acks st) -> In r (f_wants st) -> r <> e -> In r (map fst (f_data st));
  g_nodup : NoDup (f_regd st)
}.

Definition bounds (cap : nat) (st : fstate) : Prop :=
  ((1 <= cap)%nat -> (length (f_main st) < cap)%nat) /\ dsum (f_data st) <= dcap cap.

Definition finv (cap : nat) (st : fstate) : Prop := ginv (f_next st) st /\ bounds cap st.

Lemma finv_init : forall cap, finv cap f_init.
Proof.
  intro cap. split; [constructor|split]; cbn; auto; try constructor; try (intros; contradiction); try lia.
  intros ? [].
Qed.

Lemma Forall_lt_succ : forall l n, Forall (fun r => r < n) l -> Forall (fun r => r < n + 1) l.
Proof. intros l n H. eapply Forall_impl; [|exact H]. cbn. intros; lia. Qed.

Lemma Forall_lt_notin : forall l n, Forall (fun r => r < n) l -> ~ In n l.
Proof. intros l n H Hin. rewrite Forall_forall in H. specialize (H _ Hin). lia. Qed.

Lemma finv_data : forall cap st r, finv cap st -> In r (f_acks st) -> In r (f_wants st) -> In r (map fst (f_data st)).
Proof.
  intros cap st r [G _] Ha Hw. apply (g_data _ _ G); auto.
  intros ->. exact (Forall_lt_notin _ _ (g_acks_lt _ _ G) Ha).
Qed.

(* the state after a Flush satisfies the invariant (for any exempt record) *)
Lemma flush_ginv : forall e e' st wm wd st' rep err,
  ginv e st -> flush st wm wd = (st', rep, err) -> ginv e' st'.
Proof.
  intros e e' st wm wd st' rep err I H. apply flush_ok in H. destruct H, I.
  destruct (f_open st) eqn:Ho.
  - destruct (fs_bufs0 eq_refl) as [Hm Hd].
    constructor; rewrite ?fs_acks0, ?fs_next0, ?fs_regd0, ?fs_wants0, ?Hm, ?Hd; auto;
      try apply incl_nil_l; try (intros ? []).
  - destruct (fs_closed0 eq_refl) as [Hm [Hd _]]. destruct (g_closed0 eq_refl) as [Hm0 Ha0].
    constructor; rewrite ?fs_acks0, ?fs_next0, ?fs_regd0, ?fs_wants0, ?Hm, ?Hd; auto;
      try apply incl_nil_l; try (intros ? []).
Qed.

Lemma flush_bounds : forall cap e st wm wd st' rep err,
  ginv e st -> flush st wm wd = (st', rep, err) -> bounds cap st'.
Proof.
  intros cap e st wm wd st' rep err I H. apply flush_ok in H. destruct H, I.
  destruct (f_open st) eqn:Ho.
  - destruct (fs_bufs0 eq_refl) as [Hm Hd]. split; rewrite ?Hm, ?Hd; cbn; lia.
  - destruct (fs_closed0 eq_refl) as [Hm [Hd _]]. destruct (g_closed0 eq_refl) as [Hm0 Ha0].
    split; rewrite ?Hm, ?Hd, ?Hm0, ?(g_main_data0 Hm0); cbn; lia.
Qed.

(* a Flush in a state satisfying the invariant: true reports are durable *)
Lemma flush_true : forall e st wm wd st' rep err,
  ginv e st -> flush st wm wd = (st', rep, err) ->
  forall r, In (r, true) rep ->
    err = false /\ In r (f_acks st) /\ In r (f_dmain st') /\ (In r (f_wants st) -> r <> e -> In r (f_ddata st')).
Proof.
  intros e st wm wd st' rep err I H r Hr. apply flush_ok in H. destruct H, I.
  subst rep. apply in_report in Hr. destruct Hr as [Hin Hb].
  assert (He : err = false) by (destruct err; [discriminate|reflexivity]).
  destruct (f_open st) eqn:Ho.
  - destruct (fs_ok0 eq_refl He) as [Hm Hd].
    split; [exact He|]. split; [exact Hin|]. split; [apply Hm, g_acks_main0, Hin|].
    intros Hw Hne. apply Hd, g_data0; assumption.
  - destruct (g_closed0 eq_refl) as [_ Ha]. rewrite Ha in Hin. destruct Hin.
Qed.

Lemma write_direct_ok : forall st r dw st' rep err,
  f_main st = [] -> f_data st = [] ->
  write_direct st r dw = (st', rep, err) ->
  rep = [] /\ f_open st' = f_open st /\ f_next st' = f_next st /\ f_main st' = [] /\ f_data st' = [] /\
  f_acks st' = f_acks st /\ f_dmain st' = f_dmain st /\ f_regd st' = f_regd st /\ f_wants st' = f_wants st /\
  incl (f_ddata st) (f_ddata st') /\ (err = false -> In r (f_ddata st')).
Proof.
  intros st r dw st' rep err Hm Hd H. unfold write_direct in H. rewrite Hm, Hd in H. cbn in H.
  destruct dw; injection H as <- <- <-; cbn; rewrite ?Hm, ?Hd; repeat split; auto; try apply incl_refl;
    try discriminate.
  - apply incl_appl, incl_refl.
  - intros _. apply in_or_app. right. left. reflexivity.
Qed.

Lemma ginv_ext : forall e st st',
  ginv e st -> f_open st' = f_open st -> f_next st' = f_next st -> f_main st' = f_main st ->
  f_data st' = f_data st -> f_acks st' = f_acks st -> f_regd st' = f_regd st -> f_wants st' = f_wants st ->
  ginv e st'.
Proof.
  intros e st st' G E1 E2 E3 E4 E5 E6 E7. destruct G.
  constructor; rewrite ?E1, ?E2, ?E3, ?E4, ?E5, ?E6, ?E7; assumption.
Qed.

(* ------------------------------------------------------------------------------------------------ append *)
(* the state between "record copied into wbuf" and whatever WriteLock / WriteLockData do next *)
Definition buffered (st : fstate) (ack : bool) (dlen : option N) : fstate :=
  let r := f_next st in
  mkF true (r + 1) (f_main st ++ [r]) (f_data st) (f_acks st ++ (if ack then [r] else [])) (f_dmain st) (f_ddata st)
      (f_regd st ++ (if ack then [r] else [])) (f_wants st ++ match dlen with Some _ => [r] | None => [] end).

Definition with_payload (st : fstate) (r n : N) : fstate :=
  mkF true (f_next st) (f_main st) (f_data st ++ [(r, n)]) (f_acks st) (f_dmain st) (f_ddata st) (f_regd st) (f_wants st).

Definition append_result (cap : nat) (st : fstate) (ack : bool) (dlen : option N) (wm wd dw : wres) :=
  let r := f_next st in
  let st1 := buffered st ack dlen in
  let fits := match dlen with None => true | Some n => n + dsum (f_data st1) <=? dcap cap end in
  if negb (Nat.leb cap (length (f_main st1))) && fits then
    match dlen with None => (st1, [], false) | Some n => (with_payload st1 r n, [], false) end
  else
    let '(st1', rep1, err1) := flush st1 wm wd in
    if err1 then (st1', rep1, true)
    else match dlen with
         | None => (st1', rep1, false)
         | Some n => let '(st2, rep2, err2) := write_direct st1' r dw in (st2, rep1 ++ rep2, err2)
         end.

Lemma append_unfold : forall cap st ack dlen wm wd dw,
  f_open st = true -> fstep cap st (FAppend ack dlen wm wd dw) = append_result cap st ack dlen wm wd dw.
Proof.
  intros cap st ack dlen wm wd dw Ho. unfold append_result, fstep, write_lock.
  cbn [f_open f_next f_main f_data f_acks f_dmain f_ddata f_regd f_wants]. rewrite Ho. cbn [negb].
  fold (buffered st ack dlen).
  change (f_main (buffered st ack dlen)) with (f_main st ++ [f_next st]).
  destruct (Nat.leb cap (length (f_main st ++ [f_next st]))) eqn:Hc; cbn [negb andb].
  - destruct (flush (buffered st ack dlen) wm wd) as [[st1' rep1] err1] eqn:Hf.
    destruct err1; [reflexivity|]. destruct dlen as [n|]; [|reflexivity].
    pose proof (flush_ok _ _ _ _ _ _ Hf) as S. destruct S.
    destruct (fs_bufs0 eq_refl) as [Hm Hd].
    unfold write_lock_data. rewrite fs_open0. cbn [f_open buffered negb]. rewrite Hm, Hd. cbn [is_nil negb dsum fold_right].
    cbn. reflexivity.
  - destruct dlen as [n|]; [|reflexivity].
    unfold write_lock_data. cbn [f_open buffered negb f_main].
    assert (Hn : is_nil (f_main st ++ [f_next st]) = false) by (destruct (f_main st); reflexivity).
    rewrite Hn. cbn [negb f_data f_next].
    destruct (n + dsum (f_data st) <=? dcap cap) eqn:Hfit; cbn [f_data buffered] ; rewrite ?Hfit; [reflexivity|].
    unfold flush_then_direct. fold (buffered st ack (Some n)).
    destruct (flush (buffered st ack (Some n)) wm wd) as [[st1' rep1] err1].
    destruct err1; [reflexivity|]. cbn [f_next buffered].
    destruct (write_direct st1' (f_next st) dw) as [[st2 rep2] err2]. reflexivity.
Qed.

(* ------------------------------------------------------------------------------------------------ one operation *)
(* the requests an operation stores in ackRequests *)
Definition new_regd (st : fstate) (op : fop) : list N :=
  match op with
  | FAppend true _ _ _ _ => if f_open st then [f_next st] else []
  | _ => []
  end.

Definition appends_data (op : fop) : bool :=
  match op with FAppend _ (Some _) _ _ _ => true | _ => false end.

Definition is_flush_op (op : fop) : bool :=
  match op with FFlush _ _ _ | FClose _ _ => true | _ => false end.

Definition bufs_empty (st : fstate) : Prop := f_main st = [] /\ f_data st = [] /\ f_acks st = [].

Record step_spec (cap : nat) (st : fstate) (op : fop) (st' : fstate) (rep : list (N * bool)) (err : bool) : Prop := {
  ss_inv : finv cap st';
  ss_regd : f_regd st' = f_regd st ++ new_regd st op;
  ss_fifo : map fst rep ++ f_acks st' = f_acks st ++ new_regd st op;
  ss_true : forall r, In (r, true) rep ->
      In r (f_dmain st') /\
      (In r (f_wants st') -> In r (f_ddata st') \/ (err = true /\ r = f_next st /\ appends_data op = true));
  ss_err : f_open st = true -> err = true -> bufs_empty st';
  ss_flush : is_flush_op op = true -> bufs_empty st'
}.

Lemma buffered_ginv : forall st ack dlen, ginv (f_next st) st -> ginv (f_next st) (buffered st ack dlen).
Proof.
  intros st ack dlen G. destruct G. set (r := f_next st) in *.
  assert (Ha : forall x, In x (if ack then [r] else []) -> x = r) by (destruct ack; intros x Hx; [destruct Hx as [<-|[]]; reflexivity|destruct Hx]).
  assert (Hw : forall x, In x (match dlen with Some _ => [r] | None => [] end) -> x = r)
    by (destruct dlen; intros x Hx; [destruct Hx as [<-|[]]; reflexivity|destruct Hx]).
  constructor; cbn [buffered f_open f_next f_main f_data f_acks f_dmain f_ddata f_regd f_wants]; fold r.
  - apply Forall_app. split; [apply Forall_lt_succ; assumption|]. apply Forall_forall. intros x Hx. apply Ha in Hx. lia.
  - apply Forall_app. split; [apply Forall_lt_succ; assumption|]. apply Forall_forall. intros x Hx. apply Ha in Hx. lia.
  - apply Forall_app. split; [apply Forall_lt_succ; assumption|]. apply Forall_forall. intros x Hx. apply Hw in Hx. lia.
  - apply incl_app; [apply incl_appl; assumption|]. intros x Hx. apply Ha in Hx. subst x. apply in_or_app. right. left. reflexivity.
  - intros E. destruct (f_main st); discriminate E.
  - discriminate.
  - intros x Hx Hxw Hne. apply in_app_or in Hx. destruct Hx as [Hx|Hx]; [|apply Ha in Hx; contradiction].
    apply in_app_or in Hxw. destruct Hxw as [Hxw|Hxw]; [|apply Hw in Hxw; contradiction].
    apply g_data0; assumption.
  - destruct ack; [|rewrite app_nil_r; assumption].
    apply NoDup_Add with (a := r) (l := f_regd st).
    + rewrite <- (app_nil_r (f_regd st)) at 1. apply Add_app.
    + split; [assumption|apply Forall_lt_notin; assumption].
Qed.

Lemma append_ok : forall cap st ack dlen wm wd dw st' rep err,
  finv cap st -> f_open st = true ->
  append_result cap st ack dlen wm wd dw = (st', rep, err) ->
  step_spec cap st (FAppend ack dlen wm wd dw) st' rep err.
Proof.
  intros cap st ack dlen wm wd dw st' rep err [G B] Ho H.
  pose proof (buffered_ginv st ack dlen G) as G1.
  set (r := f_next st) in *. set (st1 := buffered st ack dlen) in *.
  assert (Hnew : new_regd st (FAppend ack dlen wm wd dw) = (if ack then [r] else [])).
  { cbn. rewrite Ho. destruct ack; reflexivity. }
  assert (Hrw : dlen = None -> ~ In r (f_wants st1)).
  { intros ->. cbn. rewrite app_nil_r. apply Forall_lt_notin, G. }
  unfold append_result in H. fold r st1 in H.
  destruct (negb (Nat.leb cap (length (f_main st1))) &&
            match dlen with Some n => n + dsum (f_data st1) <=? dcap cap | None => true end) eqn:Hc.
  - (* nothing is flushed *)
    apply andb_prop in Hc. destruct Hc as [Hc Hfit]. apply negb_true_iff, Nat.leb_gt in Hc.
    assert (Hst' : exists pl, st' = mkF true (r + 1) (f_main st1) (f_data st1 ++ pl) (f_acks st1) (f_dmain st1)
                                    (f_ddata st1) (f_regd st1) (f_wants st1) /\ rep = [] /\ err = false /\
                              (dlen = None -> pl = []) /\ (forall n, dlen = Some n -> pl = [(r, n)])).
    { destruct dlen as [n|]; injection H as <- <- <-.
      - exists [(r, n)]. repeat split; auto; try discriminate. intros ? E; injection E as ->; reflexivity.
      - exists []. cbn. rewrite app_nil_r. repeat split; auto; discriminate. }
    destruct Hst' as [pl [-> [-> [-> [HplN HplS]]]]].
    constructor; cbn [f_open f_next f_main f_data f_acks f_dmain f_ddata f_regd f_wants map app].
    + split.
      * destruct G1. constructor; cbn [f_open f_next f_main f_data f_acks f_dmain f_ddata f_regd f_wants]; auto.
        -- intros E. exfalso. unfold st1 in E. cbn in E. destruct (f_main st); discriminate E.
        -- intros x Hx Hxw _. rewrite map_app. apply in_or_app.
           destruct (N.eq_dec x r) as [->|Hne]; [|left; apply g_data0; assumption].
           right. destruct dlen as [n|]; [rewrite (HplS n eq_refl); left; reflexivity|].
           exfalso. exact (Hrw eq_refl Hxw).
      * unfold bounds. cbn [f_main f_data]. split; [intros _; exact Hc|].
        rewrite dsum_app. destruct dlen as [n|].
        -- rewrite (HplS n eq_refl). apply N.leb_le in Hfit.
           assert (E : dsum [(r, n)] = n) by (unfold dsum; cbn [fold_right snd]; lia). rewrite E. lia.
        -- rewrite (HplN eq_refl). destruct B as [_ B].
           change (dsum []) with 0. change (f_data st1) with (f_data st). lia.
    + rewrite Hnew. reflexivity.
    + rewrite Hnew. reflexivity.
    + intros x [].
    + discriminate.
    + discriminate.
  - (* a Flush of the buffered state *)
    destruct (flush st1 wm wd) as [[st1' rep1] err1] eqn:Hf.
    pose proof (flush_ginv r (r + 1) _ _ _ _ _ _ G1 Hf) as G1'.
    pose proof (flush_bounds cap r _ _ _ _ _ _ G1 Hf) as B1'.
    pose proof (flush_true r _ _ _ _ _ _ G1 Hf) as T.
    pose proof (flush_ok _ _ _ _ _ _ Hf) as S. destruct S.
    destruct (fs_bufs0 eq_refl) as [Hm Hd].
    assert (Hn1 : f_next st1' = r + 1) by (rewrite fs_next0; reflexivity).
    assert (Hfifo : map fst rep1 ++ f_acks st1' = f_acks st ++ (if ack then [r] else [])).
    { rewrite fs_acks0, fs_rep0, map_fst_report, app_nil_r. reflexivity. }
    destruct err1.
    + (* the Flush failed *)
      injection H as <- <- <-.
      constructor.
      * split; [rewrite Hn1; exact G1'|exact B1'].
      * rewrite fs_regd0, Hnew. reflexivity.
      * rewrite Hnew. exact Hfifo.
      * intros x Hx. destruct (T x Hx) as [C _]. discriminate C.
      * intros _ _. repeat split; assumption.
      * discriminate.
    + destruct dlen as [n|].
      * (* payload written directly after the Flush *)
        destruct (write_direct st1' r dw) as [[st2 rep2] err2] eqn:Hw.
        injection H as <- <- <-.
        destruct (write_direct_ok _ _ _ _ _ _ Hm Hd Hw) as [-> [E1 [E2 [E3 [E4 [E5 [E6 [E7 [E8 [E9 E10]]]]]]]]]].
        rewrite app_nil_r.
        assert (G2 : ginv (r + 1) st2).
        { apply (ginv_ext _ st1'); auto. rewrite E3, Hm. reflexivity. rewrite E4, Hd. reflexivity. }
        constructor.
        -- split; [rewrite E2, Hn1; exact G2|]. split; rewrite ?E3, ?E4; cbn; [intros; lia|apply N.le_0_l].
        -- rewrite E7, fs_regd0, Hnew. reflexivity.
        -- rewrite Hnew, E5. exact Hfifo.
        -- intros x Hx. destruct (T x Hx) as [_ [_ [Tm Td]]]. split; [rewrite E6; exact Tm|].
           intros Hxw. rewrite E8, fs_wants0 in Hxw.
           destruct (N.eq_dec x r) as [->|Hne]; [|left; apply E9, Td; assumption].
           destruct err2; [right; repeat split; reflexivity|left; apply E10; reflexivity].
        -- intros _ _. repeat split; [exact E3|exact E4|rewrite E5; exact fs_acks0].
        -- discriminate.
      * injection H as <- <- <-.
        constructor.
        -- split; [rewrite Hn1; exact G1'|exact B1'].
        -- rewrite fs_regd0, Hnew. reflexivity.
        -- rewrite Hnew. exact Hfifo.
        -- intros x Hx. destruct (T x Hx) as [_ [_ [Tm Td]]]. split; [exact Tm|].
           intros Hxw. rewrite fs_wants0 in Hxw. left. apply Td; [exact Hxw|].
           intros ->. exact (Hrw eq_refl Hxw).
        -- discriminate.
        -- discriminate.
Qed.

Lemma finv_acks_notnext : forall cap st r, finv cap st -> In r (f_acks st) -> r <> f_next st.
Proof. intros cap st r [G _] H ->. exact (Forall_lt_notin _ _ (g_acks_lt _ _ G) H). Qed.

Lemma finv_bufs_empty_when_idle : forall cap st, finv cap st -> f_main st = [] -> bufs_empty st.
Proof.
  intros cap st [G _] Hm. destruct G. repeat split; auto.
  destruct (f_acks st) as [|x l]; [reflexivity|]. specialize (g_acks_main0 x (or_introl eq_refl)). rewrite Hm in g_acks_main0.
  destruct g_acks_main0.
Qed.

Lemma flush_op_ok : forall cap st wm wd st' rep err,
  finv cap st -> flush st wm wd = (st', rep, err) ->
  finv cap st' /\ f_regd st' = f_regd st /\ map fst rep ++ f_acks st' = f_acks st /\
  (forall r, In (r, true) rep -> In r (f_dmain st') /\ (In r (f_wants st') -> In r (f_ddata st'))) /\
  bufs_empty st' /\ f_next st' = f_next st /\ f_open st' = f_open st.
Proof.
  intros cap st wm wd st' rep err I H. pose proof I as [G B].
  pose proof (flush_ginv _ (f_next st) _ _ _ _ _ _ G H) as G'.
  pose proof (flush_bounds cap _ _ _ _ _ _ _ G H) as B'.
  pose proof (flush_true _ _ _ _ _ _ _ G H) as T.
  pose proof (flush_ok _ _ _ _ _ _ H) as S. destruct S.
  split; [split; [rewrite fs_next0; exact G'|exact B']|].
  split; [exact fs_regd0|].
  split; [rewrite fs_acks0, fs_rep0, map_fst_report, app_nil_r; reflexivity|].
  split.
  { intros r Hr. destruct (T r Hr) as [_ [Ha [Tm Td]]]. split; [exact Tm|].
    rewrite fs_wants0. intro Hw. apply Td; [exact Hw|]. exact (finv_acks_notnext _ _ _ I Ha). }
  split; [|auto].
  destruct (f_open st) eqn:Ho.
  - destruct (fs_bufs0 eq_refl). repeat split; assumption.
  - destruct (fs_closed0 eq_refl) as [Hm [Hd _]]. destruct (g_closed _ _ G Ho) as [Hm0 _].
    repeat split; [rewrite Hm; exact Hm0|rewrite Hd; exact (g_main_data _ _ G Hm0)|exact fs_acks0].
Qed.

Lemma step_ok : forall cap st op st' rep err,
  finv cap st -> fstep cap st op = (st', rep, err) -> step_spec cap st op st' rep err.
Proof.
  intros cap st op st' rep err I H.
  destruct op as [ack dlen wm wd dw | via wm wd | wm wd].
  - (* FAppend *)
    destruct (f_open st) eqn:Ho.
    + rewrite (append_unfold _ _ _ _ _ _ _ Ho) in H. apply append_ok; assumption.
    + (* closed: "File Unopen" *)
      cbn [fstep] in H. unfold write_lock in H. cbn [f_open] in H. rewrite Ho in H. cbn [negb] in H.
      injection H as <- <- <-.
      destruct I as [G B]. pose proof G as G0. destruct G0.
      assert (Hnew : new_regd st (FAppend ack dlen wm wd dw) = []) by (cbn; rewrite Ho; destruct ack; reflexivity).
      constructor; cbn [f_open f_next f_main f_data f_acks f_dmain f_ddata f_regd f_wants map app].
      * split; [|exact B].
        constructor; cbn [f_open f_next f_main f_data f_acks f_dmain f_ddata f_regd f_wants]; auto;
          try (apply Forall_lt_succ; assumption).
        -- apply Forall_app. split; [apply Forall_lt_succ; assumption|].
           destruct dlen; repeat constructor. lia.
        -- intros x Hx. destruct (g_closed0 Ho) as [_ Ha]. rewrite Ha in Hx. destruct Hx.
      * rewrite Hnew, app_nil_r. reflexivity.
      * rewrite Hnew, app_nil_r. reflexivity.
      * intros x [].
      * rewrite Ho. discriminate.
      * discriminate.
  - (* FFlush *)
    cbn [fstep] in H.
    assert (Hnew : new_regd st (FFlush via wm wd) = []) by reflexivity.
    destruct (via && is_nil (f_main st) && is_nil (f_acks st)) eqn:Hg.
    + injection H as <- <- <-.
      apply andb_prop in Hg. destruct Hg as [Hg _]. apply andb_prop in Hg. destruct Hg as [_ Hm]. apply is_nil_true in Hm.
      constructor; cbn [map app]; rewrite ?Hnew, ?app_nil_r; auto.
      * intros x [].
      * discriminate.
      * intros _. exact (finv_bufs_empty_when_idle _ _ I Hm).
    + destruct (flush_op_ok _ _ _ _ _ _ _ I H) as [I' [Er [Ef [Et [Eb [En Eo]]]]]].
      constructor; rewrite ?Hnew, ?app_nil_r; auto.
      intros x Hx. destruct (Et x Hx) as [A1 A2]. split; [exact A1|]. intro Hw. left. exact (A2 Hw).
  - (* FClose *)
    cbn [fstep] in H.
    assert (Hnew : new_regd st (FClose wm wd) = []) by reflexivity.
    assert (Hpre : exists st1 rep1 e1,
              (if is_nil (f_main st) then (st, [], false) else flush st wm wd) = (st1, rep1, e1) /\
              finv cap st1 /\ f_regd st1 = f_regd st /\ map fst rep1 ++ f_acks st1 = f_acks st /\
              (forall r, In (r, true) rep1 -> In r (f_dmain st1) /\ (In r (f_wants st1) -> In r (f_ddata st1))) /\
              bufs_empty st1).
    { destruct (is_nil (f_main st)) eqn:Hm.
      - exists st, [], false. apply is_nil_true in Hm.
        split; [reflexivity|]. split; [exact I|]. split; [reflexivity|]. split; [reflexivity|].
        split; [intros r []|]. exact (finv_bufs_empty_when_idle _ _ I Hm).
      - destruct (flush st wm wd) as [[st1 rep1] e1] eqn:Hf. exists st1, rep1, e1.
        destruct (flush_op_ok _ _ _ _ _ _ _ I Hf) as [I' [Er [Ef [Et [Eb _]]]]].
        split; [reflexivity|]. split; [exact I'|]. split; [exact Er|]. split; [exact Ef|]. split; [exact Et|exact Eb]. }
    destruct Hpre as [st1 [rep1 [e1 [E [I1 [Er [Ef [Et [Em [Ed Ea]]]]]]]]]]. rewrite E in H.
    injection H as <- <- <-. rewrite Ea. cbn [report map]. rewrite app_nil_r.
    destruct I1 as [G1 B1]. pose proof G1 as G0. destruct G0.
    constructor; cbn [f_open f_next f_main f_data f_acks f_dmain f_ddata f_regd f_wants]; rewrite ?Hnew, ?app_nil_r; auto.
    + split; [|exact B1].
      constructor; cbn [f_open f_next f_main f_data f_acks f_dmain f_ddata f_regd f_wants]; auto;
        try apply incl_nil_l; try (intros ? []).
    + rewrite <- Ef, Ea, app_nil_r. reflexivity.
    + intros x Hx. destruct (Et x Hx) as [A1 A2]. split; [exact A1|]. intro Hw. left. exact (A2 Hw).
    + discriminate.
    + intros _. repeat split; auto.
Qed.

(* ------------------------------------------------------------------------------------------------ whole runs *)
Lemma frun_ok : forall cap ops st,
  finv cap st ->
  finv cap (fst (frun cap st ops)) /\
  exists new, f_regd (fst (frun cap st ops)) = f_regd st ++ new /\
              map fst (snd (frun cap st ops)) ++ f_acks (fst (frun cap st ops)) = f_acks st ++ new.
Proof.
  intros cap ops. induction ops as [|op rest IH]; intros st I; cbn [frun].
  - split; [exact I|]. exists []. cbn. rewrite !app_nil_r. split; reflexivity.
  - destruct (fstep cap st op) as [[st1 rep] err] eqn:Hs.
    pose proof (step_ok _ _ _ _ _ _ I Hs) as S. destruct S.
    destruct (IH st1 ss_inv0) as [I2 [new [E1 E2]]].
    destruct (frun cap st1 rest) as [st2 reps] eqn:Hr. cbn [fst snd] in *.
    split; [exact I2|]. exists (new_regd st op ++ new).
    split.
    + rewrite E1, ss_regd0, app_assoc. reflexivity.
    + rewrite map_app, <- app_assoc, E2, app_assoc, ss_fifo0, app_assoc. reflexivity.
Qed.

Lemma reachable_inv : forall cap ops, finv cap (fst (frun cap f_init ops)).
Proof. intros. apply frun_ok, finv_init. Qed.

(* (2) the requests are reported in the order they were stored, each exactly once; what has not been reported yet
   is exactly the content of ackRequests *)
Theorem flush_reports_fifo_once : forall cap ops,
  let r := frun cap f_init ops in
  map fst (snd r) ++ f_acks (fst r) = f_regd (fst r) /\ NoDup (f_regd (fst r)).
Proof.
  intros cap ops r. subst r.
  destruct (frun_ok cap ops f_init (finv_init cap)) as [[G _] [new [E1 E2]]]. cbn [f_init f_regd f_acks app] in *.
  split; [rewrite E1, E2; reflexivity|apply G].
Qed.

(* (1) guarded, (3) and "reported by the first flush": one operation from any reachable state *)
Theorem flush_step_props : forall cap ops op st' rep err,
  let st := fst (frun cap f_init ops) in
  fstep cap st op = (st', rep, err) ->
  (forall r, In (r, true) rep ->
     In r (f_dmain st') /\
     (In r (f_wants st') -> In r (f_ddata st') \/ (err = true /\ r = f_next st /\ appends_data op = true)))
  /\ (f_open st = true -> err = true -> bufs_empty st')
  /\ (is_flush_op op = true -> bufs_empty st').
Proof.
  intros cap ops op st' rep err st H.
  pose proof (step_ok _ _ _ _ _ _ (reachable_inv cap ops) H) as S. destruct S. auto.
Qed.

(* (1) in the form "true means durable", for every operation that did not itself end in an error *)
Theorem flush_true_durable : forall cap ops op st' rep,
  let st := fst (frun cap f_init ops) in
  fstep cap st op = (st', rep, false) -> forall r, In (r, true) rep -> durable st' r.
Proof.
  intros cap ops op st' rep st H r Hr.
  destruct (flush_step_props cap ops op st' rep false H) as [T _]. destruct (T r Hr) as [A B].
  split; [exact A|]. intro Hw. destruct (B Hw) as [D|[C _]]; [exact D|discriminate C].
Qed.

(* the buffers never overflow: windex < len(wbuf) after every operation, ackIndex <= windex/64, dwindex <= len(dwbuf) *)
Theorem flush_buffers_in_range : forall cap ops,
  let st := fst (frun cap f_init ops) in
  (1 <= cap)%nat ->
  (length (f_acks st) <= length (f_main st) < cap)%nat /\ dsum (f_data st) <= dcap cap.
Proof.
  intros cap ops st Hc. subst st.
  destruct (flush_reports_fifo_once cap ops) as [E ND]. cbn zeta in E, ND.
  destruct (reachable_inv cap ops) as [G [B1 B2]].
  split; [split; [|exact (B1 Hc)]|exact B2].
  apply NoDup_incl_length; [|apply G].
  rewrite <- E in ND. exact (NoDup_app_tail _ _ ND).
Qed.

(* ------------------------------------------------------------------------------------------------ refutation *)
(* (1) unguarded is FALSE for the current code: when the record that fills wbuf carries a value, WriteLock's own
   Flush reports the request true BEFORE WriteLockData writes the value (unbuffered); that write may fail.
   wbuf of one record, one require-ack record with an 8-byte value, the .dat write fails: *)
Theorem flush_true_durable_refuted :
  exists cap ops, let r := frun cap f_init ops in
    exists x, In (x, true) (snd r) /\ In x (f_wants (fst r)) /\ ~ In x (f_ddata (fst r)).
Proof.
  exists 1%nat, [FAppend true (Some 8) WOk WOk (WFail 0)]. exists 0. vm_compute.
  split; [left; reflexivity|]. split; [left; reflexivity|intros []].
Qed.
