(* Bytes: facts about little-endian byte arithmetic on N used by the codec proofs (C14) and by everything
   that re-uses the 64-byte records (AOF, replication).  No axioms. *)
From Coq Require Import NArith ZArith List Lia Zify ZifyN ZifyBool ZifyNat Bool.
Import ListNotations.
Local Open Scope N_scope.

(* lia with N div/mod by constants (zify turns N.modulo into Z.rem, hence the euclidean variant). *)
Ltac dlia := zify; Z.to_euclidean_division_equations; lia.

Definition byte (x : N) : Prop := x < 256.
Definition bytes (l : list N) : Prop := Forall (fun x => x < 256) l.

(* ------------------------------------------------------------------ disjoint lor is + *)

Lemma bits_above a n i : a < 2^n -> n <= i -> N.testbit a i = false.
Proof.
  intros H Hi. destruct (N.eq_dec a 0) as [->|Hz]; [apply N.bits_0|].
  apply N.bits_above_log2. apply N.lt_le_trans with n; auto.
  apply N.log2_lt_pow2; lia.
Qed.

Lemma land_low_shiftl a b n : a < 2^n -> N.land a (N.shiftl b n) = 0.
Proof.
  intros H. apply N.bits_inj_0. intro i. rewrite N.land_spec.
  destruct (N.lt_ge_cases i n).
  - rewrite N.shiftl_spec_low by auto. apply andb_false_r.
  - rewrite (bits_above a n i) by auto. reflexivity.
Qed.

Lemma lor_shiftl_add a b n : a < 2^n -> N.lor a (N.shiftl b n) = a + b * 2^n.
Proof.
  intros H. rewrite <- N.shiftl_mul_pow2.
  rewrite <- N.lxor_lor by (apply land_low_shiftl; auto).
  symmetry. apply N.add_nocarry_lxor. apply land_low_shiftl; auto.
Qed.

Lemma lor_mul_add a b c k : c = 2^k -> a < c -> N.lor a (b * c) = a + b * c.
Proof.
  intros -> H. rewrite <- (N.shiftl_mul_pow2 b k). rewrite lor_shiftl_add by auto.
  rewrite N.shiftl_mul_pow2. reflexivity.
Qed.

(* ------------------------------------------------------------------ structural upper bounds *)

Lemma ub_mod a m : m <> 0 -> a mod m <= N.pred m.
Proof. intros. apply N.lt_le_pred. apply N.mod_upper_bound; auto. Qed.
Lemma ub_mul a q u : a <= u -> a * q <= u * q.
Proof. intros. apply N.mul_le_mono_r; auto. Qed.
Lemma ub_add a b u v : a <= u -> b <= v -> a + b <= u + v.
Proof. intros. lia. Qed.
Lemma ub_div a q u : a <= u -> a / q <= u.
Proof.
  intros. apply N.le_trans with a; auto.
  destruct q as [|q].
  - destruct a; unfold N.div; simpl; lia.
  - apply N.div_le_upper_bound; [discriminate|]. nia.
Qed.
Lemma ub_hyp a c : a < c -> a <= N.pred c.
Proof. apply N.lt_le_pred. Qed.
Lemma ub_refl (a : N) : a <= a.
Proof. lia. Qed.
Lemma lt_of_ub a u c : a <= u -> u < c -> a < c.
Proof. lia. Qed.

(* prove  e <= ?u  structurally, instantiating ?u with a closed expression *)
Ltac prove_ub :=
  lazymatch goal with
  | |- ?a mod ?m <= _ => apply (ub_mod a m); discriminate
  | |- ?a * ?q <= _ => eapply ub_mul; prove_ub
  | |- ?a + ?b <= _ => eapply ub_add; prove_ub
  | |- ?a / ?q <= _ => eapply ub_div; prove_ub
  | |- ?a <= _ =>
      first [ is_var a;
              match goal with H : a < ?c |- _ => exact (ub_hyp a c H) end
            | match goal with H : a < ?c |- _ => exact (ub_hyp a c H) end
            | let v := eval vm_compute in a in
              (match v with N0 => idtac | Npos _ => idtac end); apply ub_refl ]
  end.

(* prove  e < c  for a closed constant c *)
Ltac prove_lt := eapply lt_of_ub; [ prove_ub | vm_compute; reflexivity ].

(* ------------------------------------------------------------------ normalisation *)

Ltac pow_consts :=
  repeat match goal with
  | |- context[2 ^ ?n] => let v := eval vm_compute in (2 ^ n) in change (2 ^ n) with v
  end.

Ltac norm_shifts := rewrite ?N.shiftr_div_pow2, ?N.shiftl_mul_pow2; pow_consts.

Lemma mod_mod_le a m c : m <> 0 -> m <= c -> (a mod m) mod c = a mod m.
Proof. intros Hm Hle. apply N.mod_small. pose proof (N.mod_upper_bound a m Hm). lia. Qed.
Lemma mod_small_le v m c : v < m -> m <= c -> v mod c = v.
Proof. intros. apply N.mod_small. lia. Qed.

(* remove every  e mod c  with e < c; cheap inner shapes first so that the structural bound prover
   is not run (and failed) on deep terms *)
Ltac kill_mods :=
  repeat match goal with
  | |- context[(?a mod ?m) mod ?c] => rewrite (mod_mod_le a m c) by (clear; lia)
  | H : ?v < ?m |- context[?v mod ?c] => rewrite (mod_small_le v m c H) by (clear; lia)
  end;
  repeat match goal with
  | |- context[(?a * ?q) mod ?c] => rewrite (N.mod_small (a * q) c) by prove_lt
  end;
  repeat match goal with
  | |- context[?a mod ?c] => rewrite (N.mod_small a c) by prove_lt
  end.

Ltac kill_lors :=
  repeat match goal with
  | |- context[N.lor ?a (?b * ?c)] =>
      let k := eval vm_compute in (N.log2 c) in
      rewrite (lor_mul_add a b c k eq_refl) by prove_lt
  end.

Ltac byte_norm := norm_shifts; kill_mods; kill_lors.

(* ------------------------------------------------------------------ little-endian split / join *)

Fixpoint le_split (n : nat) (x : N) : list N :=
  match n with
  | O => []
  | S n => x mod 256 :: le_split n (x / 256)
  end.

Fixpoint le_join (l : list N) : N :=
  match l with
  | [] => 0
  | b :: t => b + 256 * le_join t
  end.

Lemma le_split_length n x : length (le_split n x) = n.
Proof. revert x; induction n; simpl; auto. Qed.

Lemma le_split_bytes n x : bytes (le_split n x).
Proof.
  unfold bytes. revert x; induction n; simpl; intros; constructor; auto.
  apply N.mod_upper_bound; discriminate.
Qed.

Lemma le_join_split n x : le_join (le_split n x) = x mod 256 ^ N.of_nat n.
Proof.
  revert x; induction n; intros.
  - simpl. rewrite N.mod_1_r. reflexivity.
  - cbn [le_split le_join]. rewrite IHn.
    rewrite Nnat.Nat2N.inj_succ, N.pow_succ_r by lia.
    rewrite (N.mod_mul_r x 256 (256 ^ N.of_nat n)); try discriminate; auto.
    apply N.pow_nonzero; discriminate.
Qed.

Lemma le_join_split_small n x : x < 256 ^ N.of_nat n -> le_join (le_split n x) = x.
Proof. intros. rewrite le_join_split. apply N.mod_small; auto. Qed.

Lemma le_join_bound l : bytes l -> le_join l < 256 ^ N.of_nat (length l).
Proof.
  induction 1; cbn [le_join length].
  - simpl. lia.
  - rewrite Nnat.Nat2N.inj_succ, N.pow_succ_r by lia. nia.
Qed.

Lemma le_split_join l : bytes l -> le_split (length l) (le_join l) = l.
Proof.
  induction 1; cbn [le_join length le_split]; auto.
  f_equal.
  - rewrite (N.mul_comm 256), N.mod_add by discriminate. apply N.mod_small; auto.
  - rewrite (N.mul_comm 256), N.div_add by discriminate.
    rewrite (N.div_small x 256) by auto. rewrite N.add_0_l. auto.
Qed.

(* explicit forms met in the transcribed codecs *)
Lemma via_split2 x L : x < 65536 ->
  L = x mod 256 + (x / 256) mod 256 * 256 -> L = x.
Proof. intros H ->. dlia. Qed.

Ltac fold_const_muls :=
  repeat match goal with
  | |- context[N.pos ?a * N.pos ?b] =>
      let v := eval vm_compute in (N.pos a * N.pos b) in change (N.pos a * N.pos b) with v
  end.

Lemma via_split4 x L : x < 4294967296 ->
  L = x mod 256 + (x / 256) mod 256 * 256 + (x / 65536) mod 256 * 65536 + (x / 16777216) mod 256 * 16777216 -> L = x.
Proof.
  intros H ->. rewrite <- (le_join_split_small 4 x) at 5 by exact H.
  cbn [le_split le_join]. rewrite !N.div_div by discriminate. fold_const_muls. lia.
Qed.

Lemma via_split8 x L : x < 18446744073709551616 ->
  L = x mod 256 + (x / 256) mod 256 * 256 + (x / 65536) mod 256 * 65536 + (x / 16777216) mod 256 * 16777216
      + (x / 4294967296) mod 256 * 4294967296 + (x / 1099511627776) mod 256 * 1099511627776
      + (x / 281474976710656) mod 256 * 281474976710656 + (x / 72057594037927936) mod 256 * 72057594037927936 -> L = x.
Proof.
  intros H ->. rewrite <- (le_join_split_small 8 x) at 9 by exact H.
  cbn [le_split le_join]. rewrite !N.div_div by discriminate. fold_const_muls. lia.
Qed.

(* ------------------------------------------------------------------ lists *)

Lemma Forall_nth_byte (b : list N) i : bytes b -> nth i b 0 < 256.
Proof.
  intros H. revert i. induction H; intros [|i]; simpl; auto; lia.
Qed.

Lemma nth_eta (n : nat) (l : list N) : length l = n -> map (fun i => nth i l 0) (seq 0 n) = l.
Proof.
  intros <-. induction l; simpl; auto.
  f_equal. rewrite <- seq_shift, map_map. exact IHl.
Qed.

Lemma list_eq_nth (n : nat) (l l' : list N) :
  length l = n -> length l' = n -> (forall i, (i < n)%nat -> nth i l 0 = nth i l' 0) -> l = l'.
Proof.
  intros H1 H2 H. apply (nth_ext l l' 0 0); [congruence|].
  intros i Hi. apply H. congruence.
Qed.
