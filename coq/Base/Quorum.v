(* Quorum intersection: two duplicate-free sub-collections of an n-element universe whose sizes add up to more
   than n share an element; in particular two majorities (each >= n/2+1). Stdlib only. *)
From Coq Require Import List Arith NArith Lia.
Import ListNotations.

Section Quorum.
  Context {A : Type} (dec : forall x y : A, {x = y} + {x <> y}).

  Lemma quorum_intersect (U l1 l2 : list A) :
    NoDup l1 -> NoDup l2 -> incl l1 U -> incl l2 U -> length U < length l1 + length l2 ->
    exists x, In x l1 /\ In x l2.
  Proof.
    intros N1 N2 I1 I2 L.
    destruct (Exists_dec (fun x => In x l2) l1 (fun x => in_dec dec x l2)) as [E|NE].
    - apply Exists_exists in E. exact E.
    - exfalso.
      assert (ND : NoDup (l1 ++ l2)).
      { clear L I1 I2. induction l1 as [|a r IH]; cbn; [exact N2|].
        inversion N1 as [|? ? Ha Hr]; subst. constructor.
        + intro H. apply in_app_or in H. destruct H as [H|H]; [exact (Ha H)|]. apply NE. constructor. exact H.
        + apply IH; [exact Hr|]. intro X. apply NE. constructor 2. exact X. }
      assert (IN : incl (l1 ++ l2) U) by (apply incl_app; auto).
      pose proof (NoDup_incl_length ND IN) as H. rewrite app_length in H. lia.
  Qed.
End Quorum.

Lemma two_majorities_nat (n a b : nat) : n / 2 + 1 <= a -> n / 2 + 1 <= b -> n < a + b.
Proof.
  intros. pose proof (Nat.div_mod n 2 ltac:(lia)). pose proof (Nat.mod_upper_bound n 2 ltac:(lia)). lia.
Qed.

Lemma two_majorities_N (n a b : N) : (n / 2 + 1 <= a -> n / 2 + 1 <= b -> n < a + b)%N.
Proof.
  intros. pose proof (N.div_mod n 2 ltac:(lia)). pose proof (N.mod_upper_bound n 2 ltac:(lia)). lia.
Qed.
