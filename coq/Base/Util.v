(* Shared utilities: flag tests, association maps keyed by N, list helpers. Stdlib only. *)
From Coq Require Export List NArith ZArith Bool Lia.
Export ListNotations.
Open Scope N_scope.

Definition has (x m : N) : bool := negb (N.land x m =? 0).

(* Go's unsigned fixed-width arithmetic (uint8 / uint32 wrap-around), written out *)
Definition add8 (x y : N) : N := (x + y) mod 256.
Definition dec8 (x : N) : N := (x + 255) mod 256.
Definition add32 (x y : N) : N := (x + y) mod 4294967296.
Definition sub32 (x y : N) : N := (x + 4294967296 - y mod 4294967296) mod 4294967296.
Definition dec32 (x : N) : N := sub32 x 1.

(* ---------- association maps keyed by N (first binding wins; set removes older bindings) ---------- *)
Section AMap.
  Context {V : Type}.
  Definition amap := list (N * V).
  Fixpoint aget (m : amap) (k : N) : option V :=
    match m with
    | [] => None
    | (k', v) :: r => if k' =? k then Some v else aget r k
    end.
  Fixpoint adel (m : amap) (k : N) : amap :=
    match m with
    | [] => []
    | (k', v) :: r => if k' =? k then adel r k else (k', v) :: adel r k
    end.
  Definition aset (m : amap) (k : N) (v : V) : amap := (k, v) :: adel m k.

  Lemma aget_adel_same m k : aget (adel m k) k = None.
  Proof. induction m as [|[k' v] r IH]; simpl; auto. destruct (k' =? k) eqn:E; simpl; auto. rewrite E; auto. Qed.
  Lemma aget_adel_other m k k' : k <> k' -> aget (adel m k) k' = aget m k'.
  Proof.
    intros H. induction m as [|[k0 v] r IH]; simpl; auto.
    destruct (k0 =? k) eqn:E.
    - apply N.eqb_eq in E. subst. destruct (k =? k') eqn:E2; auto. apply N.eqb_eq in E2. congruence.
    - simpl. rewrite IH. reflexivity.
  Qed.
  Lemma aget_aset_same m k v : aget (aset m k v) k = Some v.
  Proof. unfold aset; simpl. rewrite N.eqb_refl. reflexivity. Qed.
  Lemma aget_aset_other m k k' v : k <> k' -> aget (aset m k v) k' = aget m k'.
  Proof.
    intros H. unfold aset; simpl. destruct (k =? k') eqn:E.
    - apply N.eqb_eq in E. congruence.
    - apply aget_adel_other; auto.
  Qed.
End AMap.
Arguments amap : clear implicits.
