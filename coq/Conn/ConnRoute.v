(* Property C18, reply routing across reconnects: invariants of the proxy targets and of SLock.clients over all runs.

   A proxy (one per connection, index = connection number) points at a connection object or at the default protocol.
   ProxyServerProtocol.ProcessLockResultCommandLocked re-points a proxy that sits on the default protocol to
   clients[clientId] -- only if that connection accepted it (AddProxy succeeded: it is not closed; switch chk_addproxy,
   derived from the source).  Under that switch, for every run from the initial state:
     - a proxy only ever points at an OPEN connection, its own or one that announced the proxy's client id;
     - clients[X] is a binary connection whose current announced id is X; it is open unless its Close is under way;
     - every frame goes to the requester itself or to a connection that announced the (closed) requester's client id;
     - a reply of a closed connection with client id X is DELIVERED whenever some connection is registered under X.
   Without the switch the second and the last statement are refuted (proxy glued to a dead connection). *)
From Coq Require Import String.
From Slock Require Import Engine.Types Engine.Queues Engine.Timers Engine.Engine Engine.Engine2 Conn.Conn Conn.ConnProofs.
Open Scope N_scope.

(* ------------------------------------------------------------------ the invariants *)
Definition reg_ok (cs : amap connrec) (cl : amap N) (ev : amap (list N)) : Prop :=
  forall X c, aget cl X = Some c ->
    k_kind (conn_of cs c) = KBin /\ k_inited (conn_of cs c) = true /\ k_cid (conn_of cs c) = X /\ In X (evr ev c).

Definition tgt_ok (cs : amap connrec) (ev : amap (list N)) (tg : amap (option N)) : Prop :=
  (forall p c, aget tg p = Some (Some c) ->
     is_open cs c = true /\ (c = p \/ (is_open cs p = false /\ In (k_cid (conn_of cs p)) (evr ev c)))) /\
  (forall p, is_open cs p = true -> aget tg p = Some (Some p)).

Definition ann_ok (cs : amap connrec) (ev : amap (list N)) : Prop :=
  (forall c X, In X (evr ev c) -> exists k, aget cs c = Some k /\ k_kind k = KBin) /\
  (forall c, k_kind (conn_of cs c) = KText -> k_inited (conn_of cs c) = false).

Definition inv1 (st : cstate) : Prop :=
  reg_ok (cs_conns st) (cs_clients st) (cs_ever st) /\
  tgt_ok (cs_conns st) (cs_ever st) (r_target (cs_rs st)) /\
  ann_ok (cs_conns st) (cs_ever st).

(* between two steps a closed connection is no longer INITed, unless its Close is blocked for ever *)
Definition settled (st : cstate) : Prop :=
  forall c, is_open (cs_conns st) c = false -> ~ In c (cs_stuck st) -> k_inited (conn_of (cs_conns st) c) = false.

(* ------------------------------------------------------------------ small facts *)
Lemma conn_of_aset_same cs c k : conn_of (aset cs c k) c = k.
Proof. unfold conn_of. rewrite aget_aset_same. reflexivity. Qed.
Lemma conn_of_aset_other cs c c' k : c <> c' -> conn_of (aset cs c k) c' = conn_of cs c'.
Proof. intros D. unfold conn_of. rewrite aget_aset_other by auto. reflexivity. Qed.
Lemma is_open_aset_same cs c k : is_open (aset cs c k) c = k_open k.
Proof. unfold is_open. rewrite aget_aset_same. reflexivity. Qed.
Lemma is_open_aset_other cs c c' k : c <> c' -> is_open (aset cs c k) c' = is_open cs c'.
Proof. intros D. unfold is_open. rewrite aget_aset_other by auto. reflexivity. Qed.
Lemma evr_aset_same ev c l : evr (aset ev c l) c = l.
Proof. unfold evr. rewrite aget_aset_same. reflexivity. Qed.
Lemma evr_aset_other ev c c' l : c <> c' -> evr (aset ev c l) c' = evr ev c'.
Proof. intros D. unfold evr. rewrite aget_aset_other by auto. reflexivity. Qed.
Lemma is_open_none cs c : aget cs c = None -> is_open cs c = false.
Proof. unfold is_open. intros ->. reflexivity. Qed.
Lemma is_open_some cs c k : aget cs c = Some k -> is_open cs c = k_open k.
Proof. unfold is_open. intros ->. reflexivity. Qed.
Lemma conn_of_some cs c k : aget cs c = Some k -> conn_of cs c = k.
Proof. unfold conn_of. intros ->. reflexivity. Qed.

Lemma aget_repoint tg c p :
  aget (repoint_all tg c) p =
  match aget tg p with
  | Some (Some c') => if c' =? c then Some None else Some (Some c')
  | x => x
  end.
Proof.
  unfold repoint_all. induction tg as [|[q v] r IH]; simpl; [reflexivity|].
  destruct v as [c'|]; simpl.
  - destruct (c' =? c) eqn:E; simpl; destruct (q =? p); auto; rewrite E; reflexivity.
  - destruct (q =? p); auto.
Qed.

(* ------------------------------------------------------------------ frames of one result, under reg_ok *)
Lemma bin_result_frames cf cs cl ev origin r to o r' : reg_ok cs cl ev -> forall fuel c,
  In (CFrame to o r') (fst (bin_result fuel cf cs cl c origin r)) ->
  o = origin /\ is_open cs to = true /\
  (to = c \/ (is_open cs c = false /\ In (k_cid (conn_of cs c)) (evr ev to))).
Proof.
  intros R. induction fuel as [|f IH]; intros c; simpl.
  - intros [H|[]]. discriminate H.
  - destruct (k_open (conn_of cs c)) eqn:Ko.
    + intros [H|[]]. inversion H; subst. rewrite is_open_conn_of. auto.
    + destruct (negb (k_inited (conn_of cs c))); [intros [H|[]]; discriminate H|].
      destruct (aget cl (k_cid (conn_of cs c))) as [c'|] eqn:Ec; [|intros [H|[]]; discriminate H].
      destruct (c' =? c); [destruct (fix_closed_rec cf); intros [H|[]]; discriminate H|].
      intros H. destruct (IH c' H) as (A & B & C). split; [exact A|]. split; [exact B|].
      right. split; [rewrite is_open_conn_of; exact Ko|].
      destruct (R _ _ Ec) as (_ & _ & Rc & Ri).
      destruct C as [->|[_ C]]; [exact Ri|]. rewrite Rc in C. exact C.
Qed.

Lemma locked_result_frames cf cs cl ev rs c origin r to o r' : reg_ok cs cl ev ->
  In (CFrame to o r') (snd (fst (locked_result cf cs cl rs c origin r))) ->
  o = origin /\ is_open cs to = true /\
  (to = c \/ (is_open cs c = false /\ In (k_cid (conn_of cs c)) (evr ev to))).
Proof.
  intros R. unfold locked_result. destruct (k_kind (conn_of cs c)).
  - pose proof (bin_result_frames cf cs cl ev origin r to o r' R 3%nat c) as H.
    destruct (bin_result 3 cf cs cl c origin r) as [e oc]. exact H.
  - destruct ((rp_req r =? getN (r_await rs) c) && negb (getN (r_await rs) c =? 0)).
    + intros H. destruct (text_push_sound _ _ _ _ _ _ _ _ _ H) as (A & B & C). subst.
      rewrite is_open_conn_of. auto.
    + intros [H|[]]. discriminate H.
Qed.

Lemma sync_result_frames cf cs cl ev rs c r to o r' : reg_ok cs cl ev ->
  In (CFrame to o r') (snd (fst (sync_result cf cs cl rs c r))) ->
  o = c /\ is_open cs to = true /\
  (to = c \/ (is_open cs c = false /\ In (k_cid (conn_of cs c)) (evr ev to))).
Proof.
  intros R. unfold sync_result. destruct (k_kind (conn_of cs c)).
  - pose proof (bin_result_frames cf cs cl ev c r to o r' R 3%nat c) as H.
    destruct (bin_result 3 cf cs cl c c r) as [e oc]. exact H.
  - intros H. destruct (text_push_sound _ _ _ _ _ _ _ _ _ H) as (A & B & C). subst.
    rewrite is_open_conn_of. auto.
Qed.

(* the statement about one delivered frame *)
Definition deliv_ok (cs : amap connrec) (ev : amap (list N)) (to o : N) : Prop :=
  is_open cs to = true /\ (to = o \/ (is_open cs o = false /\ In (k_cid (conn_of cs o)) (evr ev to))).

Lemma async_result_frames cf cs cl ev rs p r to o r' : reg_ok cs cl ev -> tgt_ok cs ev (r_target rs) ->
  In (CFrame to o r') (snd (fst (async_result cf cs cl rs p r))) -> o = p /\ deliv_ok cs ev to p.
Proof.
  intros R [T1 T2]. unfold async_result.
  destruct (aget (r_target rs) p) as [[c|]|] eqn:Et.
  - intros H. destruct (locked_result_frames _ _ _ _ _ _ _ _ _ _ _ R H) as (A & B & C).
    destruct (T1 _ _ Et) as [Oc Tc]. split; [exact A|]. split; [exact B|].
    destruct C as [->|[C _]]; [|congruence]. destruct Tc as [->|Tc]; auto.
  - destruct (aget cl (k_cid (conn_of cs p))) as [c'|] eqn:Ec; [|intros [H|[]]; discriminate H].
    intros H. destruct (locked_result_frames _ _ _ _ _ _ _ _ _ _ _ R H) as (A & B & C).
    split; [exact A|]. split; [exact B|]. right.
    assert (Op : is_open cs p = false).
    { destruct (is_open cs p) eqn:E; [|reflexivity]. rewrite (T2 _ E) in Et. discriminate Et. }
    split; [exact Op|]. destruct (R _ _ Ec) as (_ & _ & Rc & Ri).
    destruct C as [->|[_ C]]; [exact Ri|]. rewrite Rc in C. exact C.
  - destruct (aget cl (k_cid (conn_of cs p))) as [c'|] eqn:Ec; [|intros [H|[]]; discriminate H].
    intros H. destruct (locked_result_frames _ _ _ _ _ _ _ _ _ _ _ R H) as (A & B & C).
    split; [exact A|]. split; [exact B|]. right.
    assert (Op : is_open cs p = false).
    { destruct (is_open cs p) eqn:E; [|reflexivity]. rewrite (T2 _ E) in Et. discriminate Et. }
    split; [exact Op|]. destruct (R _ _ Ec) as (_ & _ & Rc & Ri).
    destruct C as [->|[_ C]]; [exact Ri|]. rewrite Rc in C. exact C.
Qed.

(* ------------------------------------------------------------------ targets stay well-formed *)
Lemma tgt_set cs cl ev tg p c' :
  reg_ok cs cl ev -> tgt_ok cs ev tg ->
  (forall c, aget tg p <> Some (Some c)) -> aget cl (k_cid (conn_of cs p)) = Some c' -> is_open cs c' = true ->
  tgt_ok cs ev (aset tg p (Some c')).
Proof.
  intros R [T1 T2] Np Ec Oc.
  assert (Op : is_open cs p = false).
  { destruct (is_open cs p) eqn:E; [|reflexivity]. exfalso. apply (Np p). apply T2. exact E. }
  split.
  - intros q c0. destruct (N.eq_dec p q) as [<-|D].
    + rewrite aget_aset_same. intros H. inversion H; subst c0. split; [exact Oc|]. right. split; [exact Op|].
      apply (R _ _ Ec).
    + rewrite aget_aset_other by auto. apply T1.
  - intros q Oq. destruct (N.eq_dec p q) as [<-|D]; [congruence|]. rewrite aget_aset_other by auto. apply T2. exact Oq.
Qed.

Lemma async_result_tgt cf cs cl ev rs p r :
  chk_addproxy cf = true -> reg_ok cs cl ev -> tgt_ok cs ev (r_target rs) ->
  tgt_ok cs ev (r_target (fst (fst (async_result cf cs cl rs p r)))).
Proof.
  intros Chk R T. unfold async_result.
  destruct (aget (r_target rs) p) as [[c|]|] eqn:Et.
  - rewrite locked_result_target. exact T.
  - destruct (aget cl (k_cid (conn_of cs p))) as [c'|] eqn:Ec; [|exact T].
    rewrite locked_result_target. rewrite Chk. cbn [negb]. rewrite orb_false_r.
    destruct (is_open cs c') eqn:Oc; [|exact T].
    unfold set_target. cbn [r_target]. eapply tgt_set; eauto. intros c. rewrite Et. discriminate.
  - destruct (aget cl (k_cid (conn_of cs p))) as [c'|] eqn:Ec; [|exact T].
    rewrite locked_result_target. rewrite Chk. cbn [negb]. rewrite orb_false_r.
    destruct (is_open cs c') eqn:Oc; [|exact T].
    unfold set_target. cbn [r_target]. eapply tgt_set; eauto. intros c. rewrite Et. discriminate.
Qed.

(* route: the target invariant is kept and every frame is legitimate *)
Lemma route_inv cf cs cl ev who evs : chk_addproxy cf = true -> reg_ok cs cl ev -> forall rs,
  tgt_ok cs ev (r_target rs) ->
  tgt_ok cs ev (r_target (fst (fst (route cf cs cl rs who evs)))) /\
  (forall to o r, In (CFrame to o r) (snd (fst (route cf cs cl rs who evs))) -> deliv_ok cs ev to o).
Proof.
  intros Chk R. induction evs as [|e rest IH]; intros rs T; simpl; [split; [exact T|intros ? ? ? []]|].
  destruct e; try (apply IH; exact T).
  set (rp := mkRep req result lcount lrcount lockid).
  set (one := match who with
              | Some (c, q) => if (conn =? c) && (req =? q) then sync_result cf cs cl rs c rp else async_result cf cs cl rs conn rp
              | None => async_result cf cs cl rs conn rp end).
  assert (One : tgt_ok cs ev (r_target (fst (fst one))) /\
                (forall to o r, In (CFrame to o r) (snd (fst one)) -> deliv_ok cs ev to o)).
  { assert (A : tgt_ok cs ev (r_target (fst (fst (async_result cf cs cl rs conn rp)))) /\
                (forall to o r, In (CFrame to o r) (snd (fst (async_result cf cs cl rs conn rp))) -> deliv_ok cs ev to o)).
    { split; [apply async_result_tgt; auto|].
      intros to o r H. destruct (async_result_frames _ _ _ _ _ _ _ _ _ _ R T H) as [-> D]. exact D. }
    unfold one. destruct who as [[c q]|]; [|exact A].
    destruct ((conn =? c) && (req =? q)); [|exact A].
    split; [rewrite sync_result_target; exact T|].
    intros to o r H. destruct (sync_result_frames _ _ _ _ _ _ _ _ _ _ R H) as (-> & B & C). split; auto. }
  destruct one as [[rs1 ev1] o1]. cbn [fst snd] in One. destruct One as [T1 F1].
  destruct o1; [|split; [exact T1|exact F1]..].
  destruct (IH rs1 T1) as [T2 F2]. destruct (route cf cs cl rs1 who rest) as [[rs2 ev2] o2]. cbn [fst snd] in *.
  split; [exact T2|]. intros to o r H. apply in_app_or in H. destruct H; eauto.
Qed.

(* ------------------------------------------------------------------ exec_req / run_wills / sweeps *)
Definition st_tgt (st0 st : cstate) : Prop := tgt_ok (cs_conns st0) (cs_ever st0) (r_target (cs_rs st)).
Definition st_frames (st0 : cstate) (evs : list cevent) : Prop :=
  forall to o r, In (CFrame to o r) evs -> deliv_ok (cs_conns st0) (cs_ever st0) to o.

Lemma st_frames_app st0 a b : st_frames st0 a -> st_frames st0 b -> st_frames st0 (a ++ b).
Proof. intros A B to o r H. apply in_app_or in H. destruct H; eauto. Qed.
Lemma st_frames_cons_ghost st0 e a : is_ghost e = true -> st_frames st0 a -> st_frames st0 (e :: a).
Proof. intros G A to o r [H|H]; [subst e; discriminate G|eauto]. Qed.
Lemma gh_is_ghost c w x : is_ghost (gh c w x) = true.
Proof. unfold gh. destruct (db_missing x); reflexivity. Qed.

Lemma exec_req_inv cf st c x w :
  chk_addproxy cf = true -> reg_ok (cs_conns st) (cs_clients st) (cs_ever st) -> st_tgt st st ->
  st_tgt st (fst (fst (exec_req cf st c x w))) /\ st_frames st (snd (fst (exec_req cf st c x w))).
Proof.
  intros Chk R T. unfold st_tgt, exec_req in *. destruct (db_missing x).
  { pose proof (sync_result_target cf (cs_conns st) (cs_clients st) (cs_rs st) c
                  (mkRep (c_req (x_cmd x)) R_UNKNOWN_DB 0 0 (c_lockid (x_cmd x)))) as ST.
    pose proof (fun to o r => sync_result_frames cf (cs_conns st) (cs_clients st) (cs_ever st) (cs_rs st) c
                  (mkRep (c_req (x_cmd x)) R_UNKNOWN_DB 0 0 (c_lockid (x_cmd x))) to o r R) as SF.
    destruct (sync_result cf (cs_conns st) (cs_clients st) (cs_rs st) c
                (mkRep (c_req (x_cmd x)) R_UNKNOWN_DB 0 0 (c_lockid (x_cmd x)))) as [[rs1 ce1] o1].
    cbn [fst snd set_rs cs_rs cs_conns cs_ever] in *. rewrite ST. split; [exact T|].
    apply st_frames_cons_ghost; [reflexivity|]. intros to o r H. destruct (SF _ _ _ H) as (-> & B & C). split; auto. }
  destruct (if c_lock (x_cmd x) then lock_step (cs_db st) c (x_cmd x) else unlock_step (cs_db st) c (x_cmd x)) as [[d1 ev1] wk].
  destruct (route_inv cf (cs_conns st) (cs_clients st) (cs_ever st) (Some (c, c_req (x_cmd x))) ev1 Chk R (cs_rs st) T) as [T1 F1].
  destruct (route cf (cs_conns st) (cs_clients st) (cs_rs st) (Some (c, c_req (x_cmd x))) ev1) as [[rs1 ce1] o1].
  cbn [fst snd] in T1, F1.
  destruct o1; [|split; [exact T1|apply st_frames_cons_ghost; [reflexivity|exact F1]]..].
  destruct wk as [wk|]; [|split; [exact T1|apply st_frames_cons_ghost; [reflexivity|exact F1]]].
  destruct (run_wake (wake_fuel d1 (w_key wk)) d1 wk) as [d2 ev2].
  destruct (route_inv cf (cs_conns st) (cs_clients st) (cs_ever st) (Some (c, c_req (x_cmd x))) ev2 Chk R rs1 T1) as [T2 F2].
  destruct (route cf (cs_conns st) (cs_clients st) rs1 (Some (c, c_req (x_cmd x))) ev2) as [[rs2 ce2] o2].
  cbn [fst snd] in *. split; [exact T2|].
  apply st_frames_cons_ghost; [reflexivity|]. intros to o r H. apply in_app_or in H. destruct H; eauto.
Qed.

Lemma run_wills_ever cf c ws : forall st, cs_ever (fst (fst (run_wills cf st c ws))) = cs_ever st.
Proof.
  induction ws as [|[b cm] rest IH]; intros st; [reflexivity|].
  destruct b; simpl.
  - specialize (IH (set_wills st c (wills_of st c ++ [(false, cm)]))).
    destruct (run_wills cf (set_wills st c (wills_of st c ++ [(false, cm)])) c rest) as [[st2 ev2] ok]. exact IH.
  - pose proof (exec_req_ever cf st c cm true) as E.
    destruct (exec_req cf st c cm true) as [[st1 ev1] o]. cbn [fst snd] in *.
    destruct o; [|exact E..].
    specialize (IH st1). destruct (run_wills cf st1 c rest) as [[st2 ev2] ok]. cbn [fst snd] in *. congruence.
Qed.

Lemma run_wills_inv cf c ws : chk_addproxy cf = true -> forall st,
  reg_ok (cs_conns st) (cs_clients st) (cs_ever st) -> st_tgt st st ->
  st_tgt st (fst (fst (run_wills cf st c ws))) /\ st_frames st (snd (fst (run_wills cf st c ws))).
Proof.
  intros Chk. induction ws as [|[b cm] rest IH]; intros st R T; [simpl; split; [exact T|intros ? ? ? []]|].
  destruct b; simpl.
  - specialize (IH (set_wills st c (wills_of st c ++ [(false, cm)])) R T).
    destruct (run_wills cf (set_wills st c (wills_of st c ++ [(false, cm)])) c rest) as [[st2 ev2] ok].
    cbn [fst snd] in *. destruct IH as [I1 I2]. split; [exact I1|]. apply st_frames_cons_ghost; [reflexivity|exact I2].
  - destruct (exec_req_inv cf st c cm true Chk R T) as [T1 F1].
    pose proof (exec_req_frame cf st c cm true) as Fr. cbv zeta in Fr.
    pose proof (exec_req_ever cf st c cm true) as Ev.
    destruct (exec_req cf st c cm true) as [[st1 ev1] o]. cbn [fst snd] in *.
    destruct Fr as (Fc & Fl & _).
    destruct o; [|split; [exact T1|exact F1]..].
    assert (R1 : reg_ok (cs_conns st1) (cs_clients st1) (cs_ever st1)) by (rewrite Fc, Fl, Ev; exact R).
    assert (T1' : st_tgt st1 st1) by (unfold st_tgt in *; rewrite Fc, Ev; exact T1).
    specialize (IH st1 R1 T1'). destruct (run_wills cf st1 c rest) as [[st2 ev2] ok]. cbn [fst snd] in *.
    unfold st_tgt, st_frames in *. rewrite Fc, Ev in IH. destruct IH as [I1 I2]. split; [exact I1|].
    intros to o r H. apply in_app_or in H. destruct H; eauto.
Qed.

Lemma route_sweep_inv cf st res :
  chk_addproxy cf = true -> reg_ok (cs_conns st) (cs_clients st) (cs_ever st) -> st_tgt st st ->
  let st' := fst (route_sweep cf st res) in
  st_tgt st st' /\ st_frames st (snd (route_sweep cf st res)) /\
  cs_conns st' = cs_conns st /\ cs_clients st' = cs_clients st /\ cs_ever st' = cs_ever st.
Proof.
  intros Chk R T. unfold route_sweep. destruct res as [d evs].
  destruct (route_inv cf (cs_conns st) (cs_clients st) (cs_ever st) None evs Chk R (cs_rs st) T) as [T1 F1].
  destruct (route cf (cs_conns st) (cs_clients st) (cs_rs st) None evs) as [[rs ce] o]. cbn [fst snd] in *.
  unfold st_tgt, st_frames in *.
  destruct o; cbn [fst snd set_dead set_rs set_db cs_conns cs_clients cs_ever cs_rs];
    (split; [exact T1|]); (split; [exact F1|]); auto.
Qed.

Lemma route_sweep_inv_clients cf st res : cs_clients (fst (route_sweep cf st res)) = cs_clients st.
Proof.
  unfold route_sweep. destruct res as [d evs].
  destruct (route cf (cs_conns st) (cs_clients st) (cs_rs st) None evs) as [[rs ce] o]. destruct o; reflexivity.
Qed.

(* ------------------------------------------------------------------ one step keeps inv1; its frames are legitimate
   with respect to the state after the step *)
Ltac cbn_st := cbn [fst snd cs_db cs_conns cs_clients cs_wills cs_rs cs_ever cs_dead cs_stuck set_db set_rs set_conns
                      set_clients set_wills set_dead add_stuck add_ever set_target r_target].

Lemma tgt_ok_mono cs ev ev' tg :
  (forall c X, In X (evr ev c) -> In X (evr ev' c)) -> tgt_ok cs ev tg -> tgt_ok cs ev' tg.
Proof.
  intros M [T1 T2]. split; [|exact T2]. intros p c H. destruct (T1 _ _ H) as [A [B|[B C]]]; split; auto.
Qed.

Lemma deliv_ok_conns cs cs' ev to o :
  (forall c, is_open cs' c = is_open cs c) -> (forall c, k_cid (conn_of cs' c) = k_cid (conn_of cs c)) ->
  deliv_ok cs ev to o -> deliv_ok cs' ev to o.
Proof. intros A B [D1 D2]. split; [rewrite A; exact D1|]. destruct D2 as [->|[D2 D3]]; auto. right. rewrite A, B. auto. Qed.

Definition step_frames (st' : cstate) (evs : list cevent) : Prop :=
  forall to o r, In (CFrame to o r) evs -> deliv_ok (cs_conns st') (cs_ever st') to o.

Lemma step_inv1 cf st a :
  chk_addproxy cf = true -> inv1 st ->
  inv1 (fst (cstep cf st a)) /\ step_frames (fst (cstep cf st a)) (snd (cstep cf st a)).
Proof.
  intros Chk I. pose proof I as (R & T & An). unfold cstep.
  destruct (cs_dead st); [split; [exact I|intros ? ? ? []]|].
  destruct a as [c k|c cid|c x|c x|c|k| |].
  - (* COpen *)
    destruct (aget (cs_conns st) c) eqn:E; [split; [exact I|intros ? ? ? []]|].
    split; [|intros ? ? ? []]. unfold inv1. cbn_st.
    assert (Oc : is_open (cs_conns st) c = false) by (apply is_open_none; exact E).
    assert (Ev : evr (cs_ever st) c = []).
    { destruct (evr (cs_ever st) c) as [|X l] eqn:Ee; [reflexivity|]. destruct An as [A1 _].
      destruct (A1 c X) as (k0 & K0 & _); [rewrite Ee; left; reflexivity|congruence]. }
    assert (Nreg : forall X, aget (cs_clients st) X <> Some c).
    { intros X H. destruct (R _ _ H) as (_ & Ri & _). unfold conn_of in Ri. rewrite E in Ri. discriminate Ri. }
    split; [|split].
    + intros X c0 H. assert (c <> c0) by (intros <-; exact (Nreg _ H)).
      rewrite conn_of_aset_other by auto. apply R. exact H.
    + destruct T as [T1 T2]. split.
      * intros p c0. destruct (N.eq_dec c p) as [<-|D].
        -- rewrite aget_aset_same. intros H. inversion H; subst c0. rewrite is_open_aset_same. auto.
        -- rewrite aget_aset_other by auto. intros H. destruct (T1 _ _ H) as [A B].
           assert (c <> c0) by (intros <-; congruence).
           rewrite is_open_aset_other by auto. split; [exact A|].
           destruct B as [B|[B1 B2]]; [left; exact B|right].
           rewrite is_open_aset_other, conn_of_aset_other by auto. auto.
      * intros p. destruct (N.eq_dec c p) as [<-|D].
        -- intros _. apply aget_aset_same.
        -- rewrite is_open_aset_other, aget_aset_other by auto. apply T2.
    + destruct An as [A1 A2]. split.
      * intros c0 X H. destruct (N.eq_dec c c0) as [<-|D]; [rewrite Ev in H; destruct H|].
        rewrite aget_aset_other by auto. eapply A1; eauto.
      * intros c0. destruct (N.eq_dec c c0) as [<-|D]; [rewrite conn_of_aset_same; reflexivity|].
        rewrite conn_of_aset_other by auto. apply A2.
  - (* CInit *)
    destruct (aget (cs_conns st) c) as [k|] eqn:E; [|split; [exact I|intros ? ? ? []]].
    destruct (k_open k && match k_kind k with KBin => true | KText => false end) eqn:U; [|split; [exact I|intros ? ? ? []]].
    apply andb_prop in U. destruct U as [Ko Kb].
    assert (Kk : k_kind k = KBin) by (destruct (k_kind k); [reflexivity|discriminate Kb]).
    split; [|intros to o r [H|[]]; discriminate H]. unfold inv1. cbn_st.
    set (cl := if k_inited k
               then match aget (cs_clients st) (k_cid k) with
                    | Some c' => if c' =? c then adel (cs_clients st) (k_cid k) else cs_clients st
                    | None => cs_clients st end
               else cs_clients st).
    assert (Cl : forall X c0, aget cl X = Some c0 -> aget (cs_clients st) X = Some c0 /\ c0 <> c).
    { intros X c0 H.
      assert (Old : aget (cs_clients st) X = Some c0).
      { unfold cl in H. destruct (k_inited k); [|exact H].
        destruct (aget (cs_clients st) (k_cid k)) as [c'|]; [|exact H].
        destruct (c' =? c); [|exact H]. destruct (N.eq_dec (k_cid k) X) as [<-|D].
        - rewrite aget_adel_same in H. discriminate H.
        - rewrite aget_adel_other in H by auto. exact H. }
      split; [exact Old|]. intros ->.
      destruct (R _ _ Old) as (_ & Ri & Rc & _). rewrite (conn_of_some _ _ _ E) in Ri, Rc.
      unfold cl in H. rewrite Ri, Rc, Old, N.eqb_refl, aget_adel_same in H. discriminate H. }
    split; [|split].
    + intros X c0. destruct (N.eq_dec cid X) as [<-|D].
      * rewrite aget_aset_same. intros H. inversion H; subst c0.
        rewrite conn_of_aset_same, evr_aset_same. cbn. auto.
      * rewrite aget_aset_other by auto. intros H. destruct (Cl _ _ H) as [Old Nc].
        rewrite conn_of_aset_other, evr_aset_other by auto. apply R. exact Old.
    + destruct T as [T1 T2]. split.
      * intros p c0 H. destruct (T1 _ _ H) as [A B]. split.
        -- destruct (N.eq_dec c c0) as [<-|D]; [rewrite is_open_aset_same; reflexivity|].
           rewrite is_open_aset_other by auto. exact A.
        -- destruct B as [B|[B1 B2]]; [left; exact B|right].
           assert (c <> p) by (intros <-; rewrite (is_open_some _ _ _ E) in B1; congruence).
           rewrite is_open_aset_other, conn_of_aset_other by auto. split; [exact B1|].
           destruct (N.eq_dec c c0) as [<-|D]; [rewrite evr_aset_same; right; exact B2|].
           rewrite evr_aset_other by auto. exact B2.
      * intros p. destruct (N.eq_dec c p) as [<-|D].
        -- intros _. apply T2. rewrite (is_open_some _ _ _ E). exact Ko.
        -- rewrite is_open_aset_other by auto. apply T2.
    + destruct An as [A1 A2]. split.
      * intros c0 X. destruct (N.eq_dec c c0) as [<-|D].
        -- intros _. rewrite aget_aset_same. eexists; split; [reflexivity|exact Kk].
        -- rewrite evr_aset_other, aget_aset_other by auto. apply A1.
      * intros c0. destruct (N.eq_dec c c0) as [<-|D].
        -- rewrite conn_of_aset_same. cbn. rewrite Kk. discriminate.
        -- rewrite conn_of_aset_other by auto. apply A2.
  - (* CReq *)
    destruct (usable st c && modelled (k_kind (conn_of (cs_conns st) c)) x); [|split; [exact I|intros ? ? ? []]].
    set (st0 := match k_kind (conn_of (cs_conns st) c) with
                | KText => set_rs st (set_await (cs_rs st) c (c_req (x_cmd x))) | KBin => st end).
    assert (F0 : cs_conns st0 = cs_conns st /\ cs_clients st0 = cs_clients st /\ cs_ever st0 = cs_ever st /\
                 r_target (cs_rs st0) = r_target (cs_rs st)).
    { unfold st0. destruct (k_kind (conn_of (cs_conns st) c)); auto. }
    destruct F0 as (F01 & F02 & F03 & F04).
    assert (R0 : reg_ok (cs_conns st0) (cs_clients st0) (cs_ever st0)) by (rewrite F01, F02, F03; exact R).
    assert (T0 : st_tgt st0 st0) by (unfold st_tgt; rewrite F01, F03, F04; exact T).
    destruct (exec_req_inv cf st0 c x false Chk R0 T0) as [T1 F1].
    pose proof (exec_req_frame cf st0 c x false) as Fr. cbv zeta in Fr.
    pose proof (exec_req_ever cf st0 c x false) as Ev.
    destruct (exec_req cf st0 c x false) as [[st1 ev1] o]. cbn [fst snd] in *.
    destruct Fr as (Fc & Fl & _). unfold st_tgt, st_frames, step_frames, inv1 in *.
    destruct o; cbn_st; rewrite Fc, Fl, Ev, F01, F02, F03 in *; auto.
  - (* CWill *)
    destruct (usable st c && modelled (k_kind (conn_of (cs_conns st) c)) x); [|split; [exact I|intros ? ? ? []]].
    destruct (k_kind (conn_of (cs_conns st) c)); cbn_st.
    + split; [exact I|]. intros to o r [H|[]]. discriminate H.
    + split; [exact I|]. intros to o r [H|[H|[]]]; discriminate H.
  - (* CClose *)
    destruct (aget (cs_conns st) c) as [k|] eqn:E; [|split; [exact I|intros ? ? ? []]].
    destruct (k_open k && match k_kind k with KBin => true | KText => negb (text_busy st c) end) eqn:U;
      [|split; [exact I|intros ? ? ? []]].
    apply andb_prop in U. destruct U as [Ko _].
    set (cs1 := aset (cs_conns st) c (mkConn (k_kind k) false (k_inited k) (k_cid k))).
    set (st1 := set_conns st cs1).
    set (st2 := set_rs st1 (mkRs (repoint_all (r_target (cs_rs st1)) c) (r_await (cs_rs st1)) (r_chan (cs_rs st1)))).
    set (st3 := set_wills st2 c []).
    assert (Kc : conn_of (cs_conns st) c = k) by (apply conn_of_some; exact E).
    assert (Oc : is_open (cs_conns st) c = true) by (rewrite (is_open_some _ _ _ E); exact Ko).
    assert (Cid : forall c0, k_cid (conn_of cs1 c0) = k_cid (conn_of (cs_conns st) c0)).
    { intros c0. unfold cs1. destruct (N.eq_dec c c0) as [<-|D]; [rewrite conn_of_aset_same, Kc; reflexivity|].
      rewrite conn_of_aset_other by auto. reflexivity. }
    assert (R3 : reg_ok (cs_conns st3) (cs_clients st3) (cs_ever st3)).
    { unfold st3, st2, st1. cbn_st. intros X c0 H. destruct (R _ _ H) as (A & B & C & D).
      unfold cs1. destruct (N.eq_dec c c0) as [<-|Dn].
      - rewrite conn_of_aset_same. rewrite Kc in A, B, C. cbn. auto.
      - rewrite conn_of_aset_other by auto. auto. }
    assert (T3 : st_tgt st3 st3).
    { unfold st_tgt, st3, st2, st1. cbn_st. destruct T as [T1 T2]. split.
      - intros p c0. rewrite aget_repoint. destruct (aget (r_target (cs_rs st)) p) as [[c'|]|] eqn:Et; try discriminate.
        destruct (c' =? c) eqn:Ec; [discriminate|]. intros H. inversion H; subst c0.
        apply N.eqb_neq in Ec. destruct (T1 _ _ Et) as [A B].
        unfold cs1. rewrite is_open_aset_other by auto. split; [exact A|].
        destruct B as [B|[B1 B2]]; [left; exact B|right].
        assert (c <> p) by (intros <-; congruence).
        rewrite is_open_aset_other by auto. fold cs1. rewrite Cid. auto.
      - intros p. unfold cs1. destruct (N.eq_dec c p) as [<-|D]; [rewrite is_open_aset_same; discriminate|].
        rewrite is_open_aset_other by auto. intros Op. rewrite aget_repoint, (T2 _ Op).
        destruct (p =? c) eqn:Ep; [apply N.eqb_eq in Ep; congruence|reflexivity]. }
    assert (W2 : wills_of st2 c = wills_of st c) by reflexivity.
    rewrite W2. fold cs1 st1 st2 st3.
    destruct (run_wills_inv cf c (wills_of st c) Chk st3 R3 T3) as [T4 F4].
    pose proof (run_wills_frame cf c (wills_of st c) st3) as [RF1 RF2].
    pose proof (run_wills_ever cf c (wills_of st c) st3) as RE.
    destruct (run_wills cf st3 c (wills_of st c)) as [[st4 ev] completed]. cbn [fst snd] in *.
    assert (C3 : cs_conns st3 = cs1) by reflexivity.
    assert (L3 : cs_clients st3 = cs_clients st) by reflexivity.
    assert (E3 : cs_ever st3 = cs_ever st) by reflexivity.
    assert (An4 : ann_ok cs1 (cs_ever st)).
    { destruct An as [A1 A2]. split.
      - intros c0 X H. destruct (A1 _ _ H) as (k0 & K0 & K1). unfold cs1.
        destruct (N.eq_dec c c0) as [<-|D].
        + rewrite aget_aset_same. eexists; split; [reflexivity|]. cbn. congruence.
        + rewrite aget_aset_other by auto. eauto.
      - intros c0. unfold cs1. destruct (N.eq_dec c c0) as [<-|D].
        + rewrite conn_of_aset_same. cbn. intros H. specialize (A2 c). rewrite Kc in A2. auto.
        + rewrite conn_of_aset_other by auto. apply A2. }
    assert (Mid : inv1 st4 /\ step_frames st4 ev).
    { unfold inv1, step_frames, st_tgt, st_frames in *. rewrite RF1, RF2, RE, C3, L3, E3 in *. auto. }
    destruct completed; [|exact Mid].
    destruct (k_kind k) eqn:Kk; [|exact Mid].
    destruct (k_inited k) eqn:Ki; [|exact Mid].
    (* unregister and forget the INIT *)
    destruct Mid as [(R4 & T4' & An4') F4']. unfold inv1, step_frames. cbn_st.
    set (cs5 := aset (cs_conns st4) c (mkConn KBin false false (k_cid k))).
    assert (Same : forall c0, is_open cs5 c0 = is_open (cs_conns st4) c0 /\
                              k_cid (conn_of cs5 c0) = k_cid (conn_of (cs_conns st4) c0) /\
                              k_kind (conn_of cs5 c0) = k_kind (conn_of (cs_conns st4) c0)).
    { intros c0. unfold cs5. rewrite RF1, C3. unfold cs1. destruct (N.eq_dec c c0) as [<-|D].
      - rewrite !is_open_aset_same, !conn_of_aset_same. cbn. auto.
      - repeat rewrite is_open_aset_other by auto. repeat rewrite conn_of_aset_other by auto. auto. }
    split.
    + split; [|split].
      * assert (Old : forall X c0,
                 aget (match aget (cs_clients st4) (k_cid k) with
                       | Some c' => if c' =? c then adel (cs_clients st4) (k_cid k) else cs_clients st4
                       | None => cs_clients st4 end) X = Some c0 ->
                 aget (cs_clients st4) X = Some c0 /\ c0 <> c).
        { assert (Rk : forall X, aget (cs_clients st4) X = Some c -> X = k_cid k).
          { intros X H. destruct (R4 _ _ H) as (_ & _ & Rc & _). rewrite RF1, C3 in Rc. unfold cs1 in Rc.
            rewrite conn_of_aset_same in Rc. cbn in Rc. congruence. }
          destruct (aget (cs_clients st4) (k_cid k)) as [c'|] eqn:Eg.
          - destruct (c' =? c) eqn:Ec; intros X c0 H.
            + apply N.eqb_eq in Ec. subst c'. destruct (N.eq_dec (k_cid k) X) as [<-|D].
              * rewrite aget_adel_same in H. discriminate H.
              * rewrite aget_adel_other in H by auto. split; [exact H|]. intros ->. apply D. symmetry. apply Rk. exact H.
            + apply N.eqb_neq in Ec. split; [exact H|]. intros ->. rewrite (Rk _ H) in H. congruence.
          - intros X c0 H. split; [exact H|]. intros ->. rewrite (Rk _ H) in H. congruence. }
        intros X c0 H. destruct (Old _ _ H) as [Old' Nc]. clear Old. rename Old' into Old.
        fold cs5. unfold cs5. rewrite conn_of_aset_other by auto. apply R4. exact Old.
      * fold cs5. destruct T4' as [T1 T2]. split.
        -- intros p c0 H. destruct (T1 _ _ H) as [A B]. destruct (Same c0) as (S1 & _). destruct (Same p) as (S2 & S3 & _).
           rewrite S1, S2, S3. auto.
        -- intros p. destruct (Same p) as (S1 & _). rewrite S1. apply T2.
      * fold cs5. destruct An4' as [A1 A2]. split.
        -- intros c0 X H. destruct (A1 _ _ H) as (k0 & K0 & K1). unfold cs5.
           destruct (N.eq_dec c c0) as [<-|D].
           ++ rewrite aget_aset_same. eexists; split; [reflexivity|reflexivity].
           ++ rewrite aget_aset_other by auto. eauto.
        -- intros c0. unfold cs5. destruct (N.eq_dec c c0) as [<-|D].
           ++ rewrite conn_of_aset_same. intros _. reflexivity.
           ++ rewrite conn_of_aset_other by auto. apply A2.
    + fold cs5. intros to o r H. apply (deliv_ok_conns (cs_conns st4));
        [intros c0; destruct (Same c0) as (S1 & _); exact S1|intros c0; destruct (Same c0) as (_ & S2 & _); exact S2|].
      apply (F4' _ _ _ H).
  - (* CAdvance *)
    split; [exact I|intros ? ? ? []].
  - (* CSweepT *)
    pose proof (route_sweep_inv cf st (step (cs_db st) ASweepT) Chk R T) as F. cbv zeta in F.
    destruct F as (F1 & F2 & F3 & F4 & F5). unfold inv1, st_tgt, st_frames, step_frames in *. rewrite F3, F4, F5. auto.
  - (* CSweepE *)
    pose proof (route_sweep_inv cf st (step (cs_db st) ASweepE) Chk R T) as F. cbv zeta in F.
    destruct F as (F1 & F2 & F3 & F4 & F5). unfold inv1, st_tgt, st_frames, step_frames in *. rewrite F3, F4, F5. auto.
Qed.

(* ------------------------------------------------------------------ settled: kept by every step that leaves the process alive *)
Lemma step_settled cf st a :
  inv1 st -> settled st -> cs_dead (fst (cstep cf st a)) = false -> settled (fst (cstep cf st a)).
Proof.
  intros (R & T & An) S. pose proof (step_monotone cf st a) as [_ Mono]. revert Mono. unfold cstep.
  destruct (cs_dead st) eqn:Dd; [intros _ _; exact S|].
  assert (Keep : forall st', (forall c0, conn_of (cs_conns st') c0 = conn_of (cs_conns st) c0) ->
                             (forall c0, is_open (cs_conns st') c0 = is_open (cs_conns st) c0) ->
                             (forall x, In x (cs_stuck st) -> In x (cs_stuck st')) -> settled st').
  { intros st' A B M c0 Oc Ns. rewrite A. apply S; [rewrite <- B; exact Oc|]. intros H. apply Ns. apply M. exact H. }
  destruct a as [c k|c cid|c x|c x|c|k| |].
  - destruct (aget (cs_conns st) c) eqn:E; [intros _ _; exact S|]. intros Mono _ c0 Oc Ns. revert Oc Ns. cbn_st.
    destruct (N.eq_dec c c0) as [<-|D]; [rewrite is_open_aset_same; discriminate|].
    rewrite is_open_aset_other, conn_of_aset_other by auto. apply S.
  - destruct (aget (cs_conns st) c) as [k|] eqn:E; [|intros _ _; exact S].
    destruct (k_open k && match k_kind k with KBin => true | KText => false end) eqn:U; [|intros _ _; exact S].
    apply andb_prop in U. destruct U as [Ko _].
    intros Mono _ c0 Oc Ns. revert Oc Ns. cbn_st.
    destruct (N.eq_dec c c0) as [<-|D]; [rewrite is_open_aset_same; cbn; discriminate|].
    rewrite is_open_aset_other, conn_of_aset_other by auto. apply S.
  - destruct (usable st c && modelled (k_kind (conn_of (cs_conns st) c)) x); [|intros _ _; exact S].
    set (st0 := match k_kind (conn_of (cs_conns st) c) with
                | KText => set_rs st (set_await (cs_rs st) c (c_req (x_cmd x))) | KBin => st end).
    assert (F0 : cs_conns st0 = cs_conns st) by (unfold st0; destruct (k_kind (conn_of (cs_conns st) c)); auto).
    pose proof (exec_req_frame cf st0 c x false) as Fr. cbv zeta in Fr.
    destruct (exec_req cf st0 c x false) as [[st1 ev1] o]. cbn [fst snd] in *.
    destruct Fr as (Fc & _). intros Mono _. apply Keep; [| |exact Mono]; intros c0; destruct o; cbn_st; rewrite Fc, F0; reflexivity.
  - destruct (usable st c && modelled (k_kind (conn_of (cs_conns st) c)) x); [|intros _ _; exact S].
    intros Mono _. apply Keep; [| |exact Mono]; intros c0; destruct (k_kind (conn_of (cs_conns st) c)); reflexivity.
  - destruct (aget (cs_conns st) c) as [k|] eqn:E; [|intros _ _; exact S].
    destruct (k_open k && match k_kind k with KBin => true | KText => negb (text_busy st c) end) eqn:U; [|intros _ _; exact S].
    set (cs1 := aset (cs_conns st) c (mkConn (k_kind k) false (k_inited k) (k_cid k))).
    match goal with |- context [run_wills cf ?s c ?w] =>
      pose proof (run_wills_frame cf c w s) as [RF1 _]; pose proof (run_wills_interrupted cf c w s) as RI;
      destruct (run_wills cf s c w) as [[st4 ev] completed] end.
    cbn [fst snd] in *. change (cs_conns st4 = cs1) in RF1.
    assert (Kc : conn_of (cs_conns st) c = k) by (apply conn_of_some; exact E).
    assert (Oth : forall cs', (forall c0, c <> c0 -> conn_of cs' c0 = conn_of (cs_conns st) c0 /\ is_open cs' c0 = is_open (cs_conns st) c0) ->
                  forall st', cs_conns st' = cs' -> (forall x, In x (cs_stuck st) -> In x (cs_stuck st')) ->
                  (is_open cs' c = false -> ~ In c (cs_stuck st') -> k_inited (conn_of cs' c) = false) -> settled st').
    { intros cs' A st' Ec M Hc c0 Oc Ns. rewrite Ec in *. destruct (N.eq_dec c c0) as [<-|D]; [apply Hc; auto|].
      destruct (A _ D) as [A1 A2]. rewrite A1. apply S; [rewrite <- A2; exact Oc|]. intros H. apply Ns. apply M. exact H. }
    assert (A1 : forall c0, c <> c0 -> conn_of cs1 c0 = conn_of (cs_conns st) c0 /\ is_open cs1 c0 = is_open (cs_conns st) c0).
    { intros c0 D. unfold cs1. rewrite conn_of_aset_other, is_open_aset_other by auto. auto. }
    destruct completed.
    + destruct (k_kind k) eqn:Kk; [destruct (k_inited k) eqn:Ki|]; intros Mono _.
      * cbn_st. apply (Oth (aset (cs_conns st4) c (mkConn KBin false false (k_cid k)))); [|reflexivity|exact Mono|].
        -- intros c0 D. rewrite RF1. rewrite conn_of_aset_other, is_open_aset_other by auto. apply A1. exact D.
        -- intros _ _. rewrite conn_of_aset_same. reflexivity.
      * apply (Oth cs1 A1); [exact RF1|exact Mono|]. intros _ _. unfold cs1. rewrite conn_of_aset_same. reflexivity.
      * apply (Oth cs1 A1); [exact RF1|exact Mono|]. intros _ _. unfold cs1. rewrite conn_of_aset_same. cbn.
        destruct An as [_ A2]. specialize (A2 c). rewrite Kc in A2. auto.
    + cbn [fst snd]. intros Mono Dd'. apply (Oth cs1 A1); [exact RF1|exact Mono|].
      intros _ Ns. exfalso. destruct (RI eq_refl) as [X|X]; [congruence|contradiction].
  - intros Mono _. apply Keep; [| |exact Mono]; reflexivity.
  - pose proof (route_sweep_frame cf st (step (cs_db st) ASweepT)) as F. cbv zeta in F. destruct F as (F1 & _).
    intros Mono _. apply Keep; [| |exact Mono]; intros c0; rewrite F1; reflexivity.
  - pose proof (route_sweep_frame cf st (step (cs_db st) ASweepE)) as F. cbv zeta in F. destruct F as (F1 & _).
    intros Mono _. apply Keep; [| |exact Mono]; intros c0; rewrite F1; reflexivity.
Qed.

(* ------------------------------------------------------------------ whole runs *)
Lemma init_inv t0 a : inv1 (init_cstate t0 a) /\ settled (init_cstate t0 a).
Proof.
  split; [split; [|split; [split|split]]|]; cbn.
  - intros X c H. discriminate H.
  - intros p c H. discriminate H.
  - intros p H. discriminate H.
  - intros c X H. destruct H.
  - intros c H. discriminate H.
  - intros c _ _. reflexivity.
Qed.

Lemma crun_inv1 cf acts : chk_addproxy cf = true -> forall st, inv1 st -> inv1 (fst (crun cf st acts)).
Proof.
  intros Chk. induction acts as [|a rest IH]; intros st I; [exact I|].
  destruct (crun_cons cf st a rest) as [-> _]. apply IH. apply (step_inv1 cf st a Chk I).
Qed.

Lemma crun_settled cf acts : chk_addproxy cf = true -> forall st,
  inv1 st -> settled st -> cs_dead (fst (crun cf st acts)) = false -> settled (fst (crun cf st acts)).
Proof.
  intros Chk. induction acts as [|a rest IH]; intros st I S D; [exact S|].
  destruct (crun_cons cf st a rest) as [E _]. rewrite E in *.
  assert (D1 : cs_dead (fst (cstep cf st a)) = false).
  { destruct (cs_dead (fst (cstep cf st a))) eqn:X; [|reflexivity].
    destruct (crun_monotone cf rest (fst (cstep cf st a))) as [M _]. rewrite (M X) in D. discriminate D. }
  apply IH; [apply (step_inv1 cf st a Chk I)|apply step_settled; auto|exact D].
Qed.

(* a proxy is only ever pointed at a connection that accepted it: an open one -- its own, or one that announced the
   client id of the proxy's (closed) connection *)
Theorem proxy_target_accepting cf t0 aoft acts :
  chk_addproxy cf = true ->
  let st := fst (crun cf (init_cstate t0 aoft) acts) in
  forall p c, aget (r_target (cs_rs st)) p = Some (Some c) ->
    is_open (cs_conns st) c = true /\
    (c = p \/ (is_open (cs_conns st) p = false /\ In (k_cid (conn_of (cs_conns st) p)) (evr (cs_ever st) c))).
Proof.
  intros Chk st p c H. destruct (crun_inv1 cf acts Chk _ (proj1 (init_inv t0 aoft))) as (_ & [T1 _] & _).
  apply T1. exact H.
Qed.

(* SLock.clients: the entry for X is a live binary connection whose current announced id is X *)
Theorem registered_is_live_announcer cf t0 aoft acts :
  chk_addproxy cf = true ->
  let st := fst (crun cf (init_cstate t0 aoft) acts) in
  cs_dead st = false ->
  forall X c, aget (cs_clients st) X = Some c -> ~ In c (cs_stuck st) ->
    is_open (cs_conns st) c = true /\ k_kind (conn_of (cs_conns st) c) = KBin /\
    k_inited (conn_of (cs_conns st) c) = true /\ k_cid (conn_of (cs_conns st) c) = X /\ In X (evr (cs_ever st) c).
Proof.
  intros Chk st D X c H Ns. subst st. destruct (init_inv t0 aoft) as [I0 S0].
  pose proof (crun_inv1 cf acts Chk _ I0) as (R & _ & _).
  pose proof (crun_settled cf acts Chk _ I0 S0 D) as S.
  destruct (R _ _ H) as (A & B & C & E). split; [|auto].
  match goal with |- ?o = true => destruct o eqn:O; [reflexivity|] end. rewrite (S c O Ns) in B. discriminate B.
Qed.

(* an accepted INIT registers the connection; the registration stays until that connection re-INITs or closes or
   another connection announces the same id (no invariant needed: read off cstep) *)
Theorem init_registers cf st c cid k :
  cs_dead st = false -> aget (cs_conns st) c = Some k -> k_open k = true -> k_kind k = KBin ->
  aget (cs_clients (fst (cstep cf st (CInit c cid)))) cid = Some c /\
  In cid (evr (cs_ever (fst (cstep cf st (CInit c cid)))) c).
Proof.
  intros D E Ko Kk. unfold cstep. rewrite D, E, Ko, Kk. cbn [andb]. cbn_st. rewrite aget_aset_same, evr_aset_same. split; [reflexivity|left; reflexivity].
Qed.

Theorem registration_stable cf st a X c :
  aget (cs_clients st) X = Some c ->
  match a with CInit c' X' => c' <> c /\ X' <> X | CClose c' => c' <> c | _ => True end ->
  aget (cs_clients (fst (cstep cf st a))) X = Some c.
Proof.
  intros H Ha. unfold cstep. destruct (cs_dead st); [exact H|].
  destruct a as [c' k|c' cid|c' x|c' x|c'|k| |].
  - destruct (aget (cs_conns st) c'); exact H.
  - destruct Ha as [D1 D2]. destruct (aget (cs_conns st) c') as [k|]; [|exact H].
    destruct (k_open k && match k_kind k with KBin => true | KText => false end); [|exact H].
    cbn_st. rewrite aget_aset_other by auto.
    destruct (k_inited k); [|exact H].
    destruct (aget (cs_clients st) (k_cid k)) as [c''|] eqn:Eg; [|exact H].
    destruct (c'' =? c') eqn:Ec; [|exact H]. apply N.eqb_eq in Ec. subst c''.
    rewrite aget_adel_other; [exact H|]. intros <-. congruence.
  - destruct (usable st c' && modelled (k_kind (conn_of (cs_conns st) c')) x); [|exact H].
    match goal with |- context [exec_req cf ?s c' x false] =>
      pose proof (exec_req_frame cf s c' x false) as Fr; cbv zeta in Fr;
      assert (F0 : cs_clients s = cs_clients st) by (destruct (k_kind (conn_of (cs_conns st) c')); reflexivity);
      destruct (exec_req cf s c' x false) as [[st1 ev1] o] end.
    cbn [fst snd] in *. destruct Fr as (_ & Fl & _). destruct o; cbn_st; rewrite Fl, F0; exact H.
  - destruct (usable st c' && modelled (k_kind (conn_of (cs_conns st) c')) x); [|exact H].
    destruct (k_kind (conn_of (cs_conns st) c')); exact H.
  - destruct (aget (cs_conns st) c') as [k|]; [|exact H].
    destruct (k_open k && match k_kind k with KBin => true | KText => negb (text_busy st c') end); [|exact H].
    match goal with |- context [run_wills cf ?s c' ?w] =>
      pose proof (run_wills_frame cf c' w s) as [_ RF2]; destruct (run_wills cf s c' w) as [[st4 ev] completed] end.
    cbn [fst snd] in *. change (cs_clients st4 = cs_clients st) in RF2.
    destruct completed; [|cbn [fst]; rewrite RF2; exact H].
    destruct (k_kind k); [destruct (k_inited k)|]; cbn_st; try (rewrite RF2; exact H).
    rewrite RF2. destruct (aget (cs_clients st) (k_cid k)) as [c''|] eqn:Eg; [|exact H].
    destruct (c'' =? c') eqn:Ec; [|exact H]. apply N.eqb_eq in Ec. subst c''.
    rewrite aget_adel_other; [exact H|]. intros <-. congruence.
  - exact H.
  - pose proof (route_sweep_inv_clients cf st (step (cs_db st) ASweepT)) as F. rewrite F. exact H.
  - pose proof (route_sweep_inv_clients cf st (step (cs_db st) ASweepE)) as F. rewrite F. exact H.
Qed.

(* every frame a step emits, in every reachable state: it goes to the requester itself, or the requester is closed and
   the receiver is an open connection that announced the requester's client id (states after the step) *)
Theorem frames_never_to_stranger cf t0 aoft acts a :
  chk_addproxy cf = true ->
  let st := fst (crun cf (init_cstate t0 aoft) acts) in
  let st' := fst (cstep cf st a) in
  forall to o r, In (CFrame to o r) (snd (cstep cf st a)) ->
    is_open (cs_conns st') to = true /\
    (to = o \/ (is_open (cs_conns st') o = false /\ In (k_cid (conn_of (cs_conns st') o)) (evr (cs_ever st') to))).
Proof.
  intros Chk st st' to o r H.
  destruct (step_inv1 cf st a Chk (crun_inv1 cf acts Chk _ (proj1 (init_inv t0 aoft)))) as [_ F].
  exact (F _ _ _ H).
Qed.

Lemma bin_open_frame cf cs cl c origin r :
  k_kind (conn_of cs c) = KBin -> is_open cs c = true -> forall rs,
  locked_result cf cs cl rs c origin r = (rs, [CFrame c origin r], OOk).
Proof.
  intros Kk Oc rs. unfold locked_result. rewrite Kk. cbn. rewrite <- is_open_conn_of, Oc. reflexivity.
Qed.

(* an asynchronous reply for a CLOSED connection p with client id X, in every reachable state: delivered to the open
   connection that adopted p's proxy, else to the connection registered under X (which adopts the proxy), and dropped
   only when neither exists *)
Theorem reply_delivered_or_dropped cf t0 aoft acts :
  chk_addproxy cf = true ->
  let st := fst (crun cf (init_cstate t0 aoft) acts) in
  cs_dead st = false ->
  forall p r, is_open (cs_conns st) p = false ->
    let X := k_cid (conn_of (cs_conns st) p) in
    (forall c, aget (cs_clients st) X = Some c -> ~ In c (cs_stuck st)) ->
    let res := async_result cf (cs_conns st) (cs_clients st) (cs_rs st) p r in
    snd res = OOk /\
    match aget (r_target (cs_rs st)) p with
    | Some (Some t) =>
        snd (fst res) = [CFrame t p r] /\ is_open (cs_conns st) t = true /\ In X (evr (cs_ever st) t)
    | _ =>
        match aget (cs_clients st) X with
        | Some c => snd (fst res) = [CFrame c p r] /\ is_open (cs_conns st) c = true /\ In X (evr (cs_ever st) c) /\
                    aget (r_target (fst (fst res))) p = Some (Some c)
        | None => snd (fst res) = [CDropped p r]
        end
    end.
Proof.
  intros Chk st D p r Op X Ns res. subst res X st.
  destruct (init_inv t0 aoft) as [I0 S0].
  pose proof (crun_inv1 cf acts Chk _ I0) as (R & [T1 T2] & [A1 A2]).
  pose proof (crun_settled cf acts Chk _ I0 S0 D) as S.
  set (st := fst (crun cf (init_cstate t0 aoft) acts)) in *.
  unfold async_result.
  destruct (aget (r_target (cs_rs st)) p) as [[t|]|] eqn:Et.
  - destruct (T1 _ _ Et) as [Ot [->|[_ Hin]]]; [congruence|].
    destruct (A1 _ _ Hin) as (k & Ek & Kk).
    rewrite (bin_open_frame cf (cs_conns st) (cs_clients st) t p r); auto.
    rewrite (conn_of_some _ _ _ Ek). exact Kk.
  - destruct (aget (cs_clients st) (k_cid (conn_of (cs_conns st) p))) as [c|] eqn:Ec; [|split; reflexivity].
    destruct (R _ _ Ec) as (Kk & Ki & Kc & Hin).
    assert (Oc : is_open (cs_conns st) c = true).
    { destruct (is_open (cs_conns st) c) eqn:O; [reflexivity|]. rewrite (S c O (Ns c eq_refl)) in Ki. discriminate Ki. }
    rewrite Oc. cbn [orb]. rewrite (bin_open_frame cf (cs_conns st) (cs_clients st) c p r); auto.
    cbn [fst snd set_target r_target]. rewrite aget_aset_same. auto.
  - destruct (aget (cs_clients st) (k_cid (conn_of (cs_conns st) p))) as [c|] eqn:Ec; [|split; reflexivity].
    destruct (R _ _ Ec) as (Kk & Ki & Kc & Hin).
    assert (Oc : is_open (cs_conns st) c = true).
    { destruct (is_open (cs_conns st) c) eqn:O; [reflexivity|]. rewrite (S c O (Ns c eq_refl)) in Ki. discriminate Ki. }
    rewrite Oc. cbn [orb]. rewrite (bin_open_frame cf (cs_conns st) (cs_clients st) c p r); auto.
    cbn [fst snd set_target r_target]. rewrite aget_aset_same. auto.
Qed.

(* ------------------------------------------------------------------ witnesses *)
(* H (1) holds keys 7 and 8; B (2, client id 5) queues a request behind each and disconnects; A (3) announces 5,
   registers the will "UNLOCK key 7 with H's lock id" and disconnects: while A closes, its will wakes B's first
   request, whose answer is looked up under client id 5 while the only such connection is the one being torn down;
   A2 (4) announces 5 and stays. *)
Definition w_reconnect_twice : list caction :=
  [COpen 1 KBin; COpen 2 KBin; CInit 2 5;
   CReq 1 (lockc 11 101 7 0 120); CReq 1 (lockc 12 102 8 0 120);
   CReq 2 (lockc 21 201 7 60 5); CReq 2 (lockc 22 202 8 60 5); CClose 2;
   COpen 3 KBin; CInit 3 5; CWill 3 (unlockc 31 101 7); CClose 3;
   COpen 4 KBin; CInit 4 5].
Definition a_reply : rep := mkRep 22 0 0 0 202.

(* the code as it is: B's proxy stays on the default protocol through A's Close; the next reply reaches A2, which adopts it *)
Lemma reconnect_twice_delivered :
  let st := fst (crun cf_repaired (init_cstate 1000000 1) w_reconnect_twice) in
  cs_dead st = false /\ cs_stuck st = [] /\ is_open (cs_conns st) 2 = false /\
  aget (r_target (cs_rs st)) 2 = Some None /\ aget (cs_clients st) 5 = Some 4 /\
  snd (fst (async_result cf_repaired (cs_conns st) (cs_clients st) (cs_rs st) 2 a_reply)) = [CFrame 4 2 a_reply] /\
  frame_to 4 2 (snd (cstep cf_repaired st (CReq 1 (unlockc 13 102 8)))) = true.
Proof. vm_compute. repeat split; reflexivity. Qed.

(* the AddProxy result ignored: B's proxy is glued to the dead connection A; the reply is dropped although A2 is
   registered under the same client id and open *)
Lemma reconnect_twice_lost :
  let st := fst (crun cf_no_addproxy_check (init_cstate 1000000 1) w_reconnect_twice) in
  cs_dead st = false /\ cs_stuck st = [] /\ is_open (cs_conns st) 2 = false /\
  aget (r_target (cs_rs st)) 2 = Some (Some 3) /\ is_open (cs_conns st) 3 = false /\
  aget (cs_clients st) (k_cid (conn_of (cs_conns st) 2)) = Some 4 /\ is_open (cs_conns st) 4 = true /\
  snd (fst (async_result cf_no_addproxy_check (cs_conns st) (cs_clients st) (cs_rs st) 2 a_reply)) = [CDropped 2 a_reply] /\
  frame_to 4 2 (snd (cstep cf_no_addproxy_check st (CReq 1 (unlockc 13 102 8)))) = false.
Proof. vm_compute. repeat split; reflexivity. Qed.

Lemma proxy_glued_refuted_ex :
  exists acts p c c2 r,
    let st := fst (crun cf_no_addproxy_check (init_cstate 1000000 1) acts) in
    cs_dead st = false /\ cs_stuck st = [] /\ is_open (cs_conns st) p = false /\
    aget (r_target (cs_rs st)) p = Some (Some c) /\ is_open (cs_conns st) c = false /\
    aget (cs_clients st) (k_cid (conn_of (cs_conns st) p)) = Some c2 /\ is_open (cs_conns st) c2 = true /\
    snd (fst (async_result cf_no_addproxy_check (cs_conns st) (cs_clients st) (cs_rs st) p r)) = [CDropped p r].
Proof.
  exists w_reconnect_twice, 2, 3, 4, a_reply. vm_compute. repeat split; reflexivity.
Qed.

(* wills naming a missing database (an UNLOCK for database 9, a LOCK and an UNLOCK for DbId 0xff) between ordinary ones:
   all five are executed, in order; the later ordinary wills still take effect (key 7 released, key 8 held) *)
Definition w_failing_wills : list caction :=
  [COpen 2 KBin; CReq 1 (lockc 11 101 7 0 30);
   CWill 1 (unlockd 9 12 101 7); CWill 1 (unlockc 13 101 7); CWill 1 (lockd 255 14 103 8 0 30); CWill 1 (lockc 15 102 8 0 30);
   CWill 1 (unlockd 255 16 102 8); CClose 1].

Lemma failing_wills_example :
  let r := crun cf_repaired (init_cstate 1000000 1) (COpen 1 KBin :: w_failing_wills) in
  cs_dead (fst r) = false /\ cs_stuck (fst r) = [] /\ is_open (cs_conns (fst r)) 1 = false /\
  will_steps 1 (events (snd r)) =
    [unlockd 9 12 101 7; unlockc 13 101 7; lockd 255 14 103 8 0 30; lockc 15 102 8 0 30; unlockd 255 16 102 8] /\
  regs 1 (events (snd r)) = will_steps 1 (events (snd r)) /\
  map db_missing (will_steps 1 (events (snd r))) = [true; false; true; false; true] /\
  n_locked (cnt (cs_db (fst r))) = 1%Z /\ n_unlock (cnt (cs_db (fst r))) = 1%Z.
Proof. vm_compute. repeat split; reflexivity. Qed.
