(* Proofs about the connection layer (property C18): will execution, engine frame, reply routing. *)
From Coq Require Import String.
From Slock Require Import Engine.Types Engine.Queues Engine.Timers Engine.Engine Engine.Engine2 Conn.Conn.
Open Scope N_scope.

(* ------------------------------------------------------------------ observers on event lists *)
Definition is_ghost (e : cevent) : bool :=
  match e with CEngine _ _ _ | CNoDb _ _ _ | CRequeued _ _ | CRegistered _ _ => true | _ => false end.

(* commands of WILLs of connection c that ProcessCommad executed (case COMMAND_LOCK / COMMAND_UNLOCK entered: db.Lock /
   db.UnLock called, or -- for a missing database -- RESULT_UNKNOWN_DB answered and the command freed), in order *)
Fixpoint will_steps (c : N) (evs : list cevent) : list xcmd :=
  match evs with
  | [] => []
  | CEngine c' true cm :: r => if c' =? c then cm :: will_steps c r else will_steps c r
  | CNoDb c' true cm :: r => if c' =? c then cm :: will_steps c r else will_steps c r
  | _ :: r => will_steps c r
  end.

(* the ghost mark of one executed command *)
Definition gh (c : N) (w : bool) (x : xcmd) : cevent := if db_missing x then CNoDb c w x else CEngine c w x.

(* commands accepted into the will queue of c, in order *)
Fixpoint regs (c : N) (evs : list cevent) : list xcmd :=
  match evs with
  | [] => []
  | CRegistered c' cm :: r => if c' =? c then cm :: regs c r else regs c r
  | _ :: r => regs c r
  end.

Lemma will_steps_app c a b : will_steps c (a ++ b) = will_steps c a ++ will_steps c b.
Proof.
  induction a as [|e a IH]; simpl; auto.
  destruct e; simpl; auto; destruct will; auto; destruct (c0 =? c); simpl; congruence.
Qed.
Lemma regs_app c a b : regs c (a ++ b) = regs c a ++ regs c b.
Proof.
  induction a as [|e a IH]; simpl; auto.
  destruct e; simpl; auto. destruct (c0 =? c); simpl; congruence.
Qed.

Definition ghostfree (evs : list cevent) : Prop := forallb (fun e => negb (is_ghost e)) evs = true.

Lemma ghostfree_app a b : ghostfree a -> ghostfree b -> ghostfree (a ++ b).
Proof. unfold ghostfree. intros. rewrite forallb_app. rewrite H, H0. reflexivity. Qed.
Lemma ghostfree_will_steps c evs : ghostfree evs -> will_steps c evs = [].
Proof.
  unfold ghostfree. induction evs as [|e r IH]; simpl; auto.
  intros H. apply andb_prop in H. destruct H as [H1 H2]. destruct e; simpl in *; auto; discriminate.
Qed.
Lemma ghostfree_regs c evs : ghostfree evs -> regs c evs = [].
Proof.
  unfold ghostfree. induction evs as [|e r IH]; simpl; auto.
  intros H. apply andb_prop in H. destruct H as [H1 H2]. destruct e; simpl in *; auto; discriminate.
Qed.

(* ------------------------------------------------------------------ routing emits no ghost events *)
Lemma bin_result_ghostfree fuel cf cs cl c o r : ghostfree (fst (bin_result fuel cf cs cl c o r)).
Proof.
  revert c. induction fuel as [|f IH]; intros c; simpl; [reflexivity|].
  destruct (k_open (conn_of cs c)); [reflexivity|].
  destruct (negb (k_inited (conn_of cs c))); [reflexivity|].
  destruct (aget cl (k_cid (conn_of cs c))) as [c'|]; [|reflexivity].
  destruct (c' =? c); [destruct (fix_closed_rec cf); reflexivity|]. apply IH.
Qed.

Lemma text_push_ghostfree cf cs rs c o r : ghostfree (snd (fst (text_push cf cs rs c o r))).
Proof.
  unfold text_push.
  destruct (negb (is_open cs c) && fix_text_closed cf); [reflexivity|].
  destruct (is_open cs c); [reflexivity|].
  destruct (getN (r_chan (set_await rs c 0)) c <? LOCKWAITER_CAP); reflexivity.
Qed.

Lemma locked_result_ghostfree cf cs cl rs c o r : ghostfree (snd (fst (locked_result cf cs cl rs c o r))).
Proof.
  unfold locked_result. destruct (k_kind (conn_of cs c)).
  - pose proof (bin_result_ghostfree 3 cf cs cl c o r) as H.
    destruct (bin_result 3 cf cs cl c o r) as [ev oc]. exact H.
  - destruct ((rp_req r =? getN (r_await rs) c) && negb (getN (r_await rs) c =? 0)).
    + apply text_push_ghostfree.
    + reflexivity.
Qed.

Lemma async_result_ghostfree cf cs cl rs p r : ghostfree (snd (fst (async_result cf cs cl rs p r))).
Proof.
  unfold async_result.
  destruct (aget (r_target rs) p) as [[c|]|].
  - apply locked_result_ghostfree.
  - destruct (aget cl (k_cid (conn_of cs p))); [apply locked_result_ghostfree|reflexivity].
  - destruct (aget cl (k_cid (conn_of cs p))); [apply locked_result_ghostfree|reflexivity].
Qed.

Lemma sync_result_ghostfree cf cs cl rs c r : ghostfree (snd (fst (sync_result cf cs cl rs c r))).
Proof.
  unfold sync_result. destruct (k_kind (conn_of cs c)).
  - pose proof (bin_result_ghostfree 3 cf cs cl c c r) as H.
    destruct (bin_result 3 cf cs cl c c r) as [ev oc]. exact H.
  - apply text_push_ghostfree.
Qed.

Lemma route_ghostfree cf cs cl who evs : forall rs, ghostfree (snd (fst (route cf cs cl rs who evs))).
Proof.
  induction evs as [|e rest IH]; intros rs; simpl; [reflexivity|].
  destruct e; try apply IH.
  set (one := match who with
              | Some (c, q) => if (conn =? c) && (req =? q) then sync_result cf cs cl rs c (mkRep req result lcount lrcount lockid)
                               else async_result cf cs cl rs conn (mkRep req result lcount lrcount lockid)
              | None => async_result cf cs cl rs conn (mkRep req result lcount lrcount lockid) end).
  assert (G1 : ghostfree (snd (fst one))).
  { unfold one. destruct who as [[c q]|].
    - destruct ((conn =? c) && (req =? q)); [apply sync_result_ghostfree|apply async_result_ghostfree].
    - apply async_result_ghostfree. }
  destruct one as [[rs1 ev1] o1]. simpl in G1.
  destruct o1; try exact G1.
  specialize (IH rs1). destruct (route cf cs cl rs1 who rest) as [[rs2 ev2] o2]. simpl in *.
  apply ghostfree_app; assumption.
Qed.

(* ------------------------------------------------------------------ exec_req: shape and frame *)
Lemma exec_req_shape cf st c cm w :
  exists ev, snd (fst (exec_req cf st c cm w)) = gh c w cm :: ev /\ ghostfree ev.
Proof.
  unfold exec_req, gh. destruct (db_missing cm).
  { pose proof (sync_result_ghostfree cf (cs_conns st) (cs_clients st) (cs_rs st) c
                  (mkRep (c_req (x_cmd cm)) R_UNKNOWN_DB 0 0 (c_lockid (x_cmd cm)))) as G.
    destruct (sync_result cf (cs_conns st) (cs_clients st) (cs_rs st) c
                (mkRep (c_req (x_cmd cm)) R_UNKNOWN_DB 0 0 (c_lockid (x_cmd cm)))) as [[rs1 ce1] o1].
    eexists; split; [reflexivity|exact G]. }
  destruct (if c_lock (x_cmd cm) then lock_step (cs_db st) c (x_cmd cm) else unlock_step (cs_db st) c (x_cmd cm)) as [[d1 ev1] wk].
  pose proof (route_ghostfree cf (cs_conns st) (cs_clients st) (Some (c, c_req (x_cmd cm))) ev1 (cs_rs st)) as G1.
  destruct (route cf (cs_conns st) (cs_clients st) (cs_rs st) (Some (c, c_req (x_cmd cm))) ev1) as [[rs1 ce1] o1]. simpl in G1.
  destruct o1; try (eexists; split; [reflexivity|exact G1]).
  destruct wk as [wk|]; [|eexists; split; [reflexivity|exact G1]].
  destruct (run_wake (wake_fuel d1 (w_key wk)) d1 wk) as [d2 ev2].
  pose proof (route_ghostfree cf (cs_conns st) (cs_clients st) (Some (c, c_req (x_cmd cm))) ev2 rs1) as G2.
  destruct (route cf (cs_conns st) (cs_clients st) rs1 (Some (c, c_req (x_cmd cm))) ev2) as [[rs2 ce2] o2]. simpl in G2.
  eexists; split; [reflexivity|]. apply ghostfree_app; assumption.
Qed.

Lemma exec_req_frame cf st c cm w :
  let st' := fst (fst (exec_req cf st c cm w)) in
  cs_conns st' = cs_conns st /\ cs_clients st' = cs_clients st /\ cs_wills st' = cs_wills st /\
  cs_dead st' = cs_dead st /\ cs_stuck st' = cs_stuck st.
Proof.
  unfold exec_req. destruct (db_missing cm).
  { destruct (sync_result cf (cs_conns st) (cs_clients st) (cs_rs st) c
                (mkRep (c_req (x_cmd cm)) R_UNKNOWN_DB 0 0 (c_lockid (x_cmd cm)))) as [[rs1 ce1] o1].
    simpl; repeat split; reflexivity. }
  destruct (if c_lock (x_cmd cm) then lock_step (cs_db st) c (x_cmd cm) else unlock_step (cs_db st) c (x_cmd cm)) as [[d1 ev1] wk].
  destruct (route cf (cs_conns st) (cs_clients st) (cs_rs st) (Some (c, c_req (x_cmd cm))) ev1) as [[rs1 ce1] o1].
  destruct o1; [|simpl; repeat split; reflexivity..].
  destruct wk as [wk|]; [|simpl; repeat split; reflexivity].
  destruct (run_wake (wake_fuel d1 (w_key wk)) d1 wk) as [d2 ev2].
  destruct (route cf (cs_conns st) (cs_clients st) rs1 (Some (c, c_req (x_cmd cm))) ev2) as [[rs2 ce2] o2].
  simpl; repeat split; reflexivity.
Qed.

Lemma exec_req_ever cf st c cm w : cs_ever (fst (fst (exec_req cf st c cm w))) = cs_ever st.
Proof.
  unfold exec_req. destruct (db_missing cm).
  { destruct (sync_result cf (cs_conns st) (cs_clients st) (cs_rs st) c
                (mkRep (c_req (x_cmd cm)) R_UNKNOWN_DB 0 0 (c_lockid (x_cmd cm)))) as [[rs1 ce1] o1].
    reflexivity. }
  destruct (if c_lock (x_cmd cm) then lock_step (cs_db st) c (x_cmd cm) else unlock_step (cs_db st) c (x_cmd cm)) as [[d1 ev1] wk].
  destruct (route cf (cs_conns st) (cs_clients st) (cs_rs st) (Some (c, c_req (x_cmd cm))) ev1) as [[rs1 ce1] o1].
  destruct o1; [|reflexivity..].
  destruct wk as [wk|]; [|reflexivity].
  destruct (run_wake (wake_fuel d1 (w_key wk)) d1 wk) as [d2 ev2].
  destruct (route cf (cs_conns st) (cs_clients st) rs1 (Some (c, c_req (x_cmd cm))) ev2) as [[rs2 ce2] o2].
  reflexivity.
Qed.

(* what one executed command does to the lock engine: nothing when it names a missing database *)
Definition eng_step (c : N) (d : db) (x : xcmd) : db :=
  if db_missing x then d else fst (step d (AReq c (x_cmd x))).

(* without an interruption of the requesting goroutine the engine part of exec_req is exactly the engine's request step *)
Lemma exec_is_step cf st c cm w :
  snd (exec_req cf st c cm w) = OOk ->
  cs_db (fst (fst (exec_req cf st c cm w))) = eng_step c (cs_db st) cm.
Proof.
  unfold exec_req, eng_step, step, finish. destruct (db_missing cm).
  { destruct (sync_result cf (cs_conns st) (cs_clients st) (cs_rs st) c
                (mkRep (c_req (x_cmd cm)) R_UNKNOWN_DB 0 0 (c_lockid (x_cmd cm)))) as [[rs1 ce1] o1].
    reflexivity. }
  destruct (if c_lock (x_cmd cm) then lock_step (cs_db st) c (x_cmd cm) else unlock_step (cs_db st) c (x_cmd cm)) as [[d1 ev1] wk].
  destruct (route cf (cs_conns st) (cs_clients st) (cs_rs st) (Some (c, c_req (x_cmd cm))) ev1) as [[rs1 ce1] o1].
  destruct o1; [|cbn [snd]; discriminate..].
  destruct wk as [wk|]; [|reflexivity].
  destruct (run_wake (wake_fuel d1 (w_key wk)) d1 wk) as [d2 ev2].
  destruct (route cf (cs_conns st) (cs_clients st) rs1 (Some (c, c_req (x_cmd cm))) ev2) as [[rs2 ce2] o2].
  reflexivity.
Qed.

(* ------------------------------------------------------------------ the will loop of Close *)
Definition plain (ws : list wcmd) : Prop := forallb (fun w => negb (fst w)) ws = true.
Definition runnable (ws : list wcmd) : list xcmd := map snd (filter (fun w => negb (fst w)) ws).

Lemma runnable_plain ws : plain ws -> runnable ws = map snd ws.
Proof.
  unfold plain, runnable. induction ws as [|[b cm] r IH]; simpl; auto.
  destruct b; simpl; [discriminate|]. intros H. rewrite IH; auto.
Qed.

Lemma will_steps_engine_self c cm ev : ghostfree ev -> will_steps c (gh c true cm :: ev) = [cm].
Proof. intros G. unfold gh. destruct (db_missing cm); simpl; rewrite N.eqb_refl; rewrite ghostfree_will_steps; auto. Qed.
Lemma will_steps_engine_other c c' w cm ev : c <> c' -> ghostfree ev -> will_steps c' (gh c w cm :: ev) = [].
Proof.
  intros D G. unfold gh. destruct (db_missing cm); simpl; destruct w.
  - destruct (c =? c') eqn:E; [apply N.eqb_eq in E; congruence|]. apply ghostfree_will_steps; auto.
  - apply ghostfree_will_steps; auto.
  - destruct (c =? c') eqn:E; [apply N.eqb_eq in E; congruence|]. apply ghostfree_will_steps; auto.
  - apply ghostfree_will_steps; auto.
Qed.
Lemma will_steps_engine_req c0 c cm ev : ghostfree ev -> will_steps c0 (gh c false cm :: ev) = [].
Proof. intros G. unfold gh. destruct (db_missing cm); simpl; apply ghostfree_will_steps; auto. Qed.
Lemma regs_engine c0 c w cm ev : ghostfree ev -> regs c0 (gh c w cm :: ev) = [].
Proof. intros G. unfold gh. destruct (db_missing cm); simpl; apply ghostfree_regs; auto. Qed.

Ltac exec_case cf st c cm E :=
  let ev := fresh "ev" in let Hs := fresh "Hs" in let G := fresh "G" in
  destruct (exec_req_shape cf st c cm true) as [ev [Hs G]];
  pose proof (exec_req_frame cf st c cm true) as Fr; cbv zeta in Fr;
  destruct (exec_req cf st c cm true) as [[?st1 ?ev1] ?o] eqn:E; cbn [fst snd] in Hs, Fr; subst.

Lemma run_wills_frame cf c ws : forall st,
  cs_conns (fst (fst (run_wills cf st c ws))) = cs_conns st /\
  cs_clients (fst (fst (run_wills cf st c ws))) = cs_clients st.
Proof.
  induction ws as [|[b cm] rest IH]; intros st; [simpl; auto|].
  destruct b; simpl.
  - specialize (IH (set_wills st c (wills_of st c ++ [(false, cm)]))).
    destruct (run_wills cf (set_wills st c (wills_of st c ++ [(false, cm)])) c rest) as [[st2 ev2] ok]. exact IH.
  - exec_case cf st c cm E. destruct Fr as (F1 & F2 & F3 & F4 & F5).
    destruct o.
    + specialize (IH st1). destruct (run_wills cf st1 c rest) as [[st2 ev2] ok]. cbn [fst snd] in *.
      destruct IH; split; congruence.
    + cbn [fst snd]. auto.
    + cbn [fst snd]. auto.
Qed.

Lemma run_wills_regs cf c c0 ws : forall st, regs c0 (snd (fst (run_wills cf st c ws))) = [].
Proof.
  induction ws as [|[b cm] rest IH]; intros st; [reflexivity|].
  destruct b; simpl.
  - specialize (IH (set_wills st c (wills_of st c ++ [(false, cm)]))).
    destruct (run_wills cf (set_wills st c (wills_of st c ++ [(false, cm)])) c rest) as [[st2 ev2] ok]. exact IH.
  - exec_case cf st c cm E.
    destruct o.
    + specialize (IH st1). destruct (run_wills cf st1 c rest) as [[st2 ev2] ok]. cbn [fst snd] in *.
      change (gh c true cm :: ev ++ ev2) with ((gh c true cm :: ev) ++ ev2).
      rewrite regs_app, IH, regs_engine; auto.
    + cbn [fst snd]. apply regs_engine; auto.
    + cbn [fst snd]. apply regs_engine; auto.
Qed.

Lemma wills_of_set_other st c c' ws : c <> c' -> aget (cs_wills (set_wills st c ws)) c' = aget (cs_wills st) c'.
Proof. intros D. unfold set_wills. cbn [cs_wills]. apply aget_aset_other; auto. Qed.

Lemma run_wills_other cf c c' ws : c <> c' -> forall st,
  will_steps c' (snd (fst (run_wills cf st c ws))) = [] /\
  aget (cs_wills (fst (fst (run_wills cf st c ws)))) c' = aget (cs_wills st) c'.
Proof.
  intros D. induction ws as [|[b cm] rest IH]; intros st; [simpl; auto|].
  destruct b; simpl.
  - specialize (IH (set_wills st c (wills_of st c ++ [(false, cm)]))).
    destruct (run_wills cf (set_wills st c (wills_of st c ++ [(false, cm)])) c rest) as [[st2 ev2] ok].
    cbn [fst snd] in *. destruct IH as [I1 I2]. split; [exact I1|]. rewrite I2. apply wills_of_set_other; auto.
  - exec_case cf st c cm E. destruct Fr as (F1 & F2 & F3 & F4 & F5).
    destruct o.
    + specialize (IH st1). destruct (run_wills cf st1 c rest) as [[st2 ev2] ok]. cbn [fst snd] in *.
      destruct IH as [I1 I2]. split.
      * change (gh c true cm :: ev ++ ev2) with ((gh c true cm :: ev) ++ ev2).
        rewrite will_steps_app, I1, will_steps_engine_other; auto.
      * congruence.
    + cbn [fst snd]. split; [apply will_steps_engine_other; auto|]. cbn [set_dead cs_wills]. congruence.
    + cbn [fst snd]. split; [apply will_steps_engine_other; auto|]. cbn [add_stuck cs_wills]. congruence.
Qed.

Lemma run_wills_completed cf c ws : forall st,
  snd (run_wills cf st c ws) = true ->
  will_steps c (snd (fst (run_wills cf st c ws))) = runnable ws /\
  cs_dead (fst (fst (run_wills cf st c ws))) = cs_dead st /\
  cs_stuck (fst (fst (run_wills cf st c ws))) = cs_stuck st.
Proof.
  induction ws as [|[b cm] rest IH]; intros st; [simpl; auto|].
  destruct b; simpl.
  - specialize (IH (set_wills st c (wills_of st c ++ [(false, cm)]))).
    destruct (run_wills cf (set_wills st c (wills_of st c ++ [(false, cm)])) c rest) as [[st2 ev2] ok].
    cbn [fst snd] in *. intros H. specialize (IH H). exact IH.
  - exec_case cf st c cm E. destruct Fr as (F1 & F2 & F3 & F4 & F5).
    destruct o.
    + specialize (IH st1). destruct (run_wills cf st1 c rest) as [[st2 ev2] ok]. cbn [fst snd] in *.
      intros H. destruct (IH H) as (I1 & I2 & I3). split; [|split; congruence].
      change (gh c true cm :: ev ++ ev2) with ((gh c true cm :: ev) ++ ev2).
      rewrite will_steps_app, I1, will_steps_engine_self; auto.
    + cbn [fst snd]. discriminate.
    + cbn [fst snd]. discriminate.
Qed.

Lemma run_wills_interrupted cf c ws : forall st,
  snd (run_wills cf st c ws) = false ->
  cs_dead (fst (fst (run_wills cf st c ws))) = true \/ In c (cs_stuck (fst (fst (run_wills cf st c ws)))).
Proof.
  induction ws as [|[b cm] rest IH]; intros st; [simpl; discriminate|].
  destruct b; simpl.
  - specialize (IH (set_wills st c (wills_of st c ++ [(false, cm)]))).
    destruct (run_wills cf (set_wills st c (wills_of st c ++ [(false, cm)])) c rest) as [[st2 ev2] ok]. exact IH.
  - exec_case cf st c cm E.
    destruct o.
    + specialize (IH st1). destruct (run_wills cf st1 c rest) as [[st2 ev2] ok]. exact IH.
    + cbn [fst snd]. intros _. left. reflexivity.
    + cbn [fst snd]. intros _. right. cbn [add_stuck cs_stuck]. left. reflexivity.
Qed.

Lemma run_wills_monotone cf c ws : forall st,
  (cs_dead st = true -> cs_dead (fst (fst (run_wills cf st c ws))) = true) /\
  (forall x, In x (cs_stuck st) -> In x (cs_stuck (fst (fst (run_wills cf st c ws))))).
Proof.
  induction ws as [|[b cm] rest IH]; intros st; [simpl; auto|].
  destruct b; simpl.
  - specialize (IH (set_wills st c (wills_of st c ++ [(false, cm)]))).
    destruct (run_wills cf (set_wills st c (wills_of st c ++ [(false, cm)])) c rest) as [[st2 ev2] ok]. exact IH.
  - exec_case cf st c cm E. destruct Fr as (F1 & F2 & F3 & F4 & F5).
    destruct o.
    + specialize (IH st1). destruct (run_wills cf st1 c rest) as [[st2 ev2] ok]. cbn [fst snd] in *.
      destruct IH as [I1 I2]. split; [intros H; apply I1; congruence|intros x H; apply I2; rewrite F5; exact H].
    + cbn [fst snd set_dead cs_dead cs_stuck]. split; [auto|intros x H; rewrite F5; exact H].
    + cbn [fst snd add_stuck cs_dead cs_stuck]. split; [congruence|intros x H; right; rewrite F5; exact H].
Qed.

Lemma run_wills_plain_queue cf c ws : plain ws -> forall st,
  aget (cs_wills (fst (fst (run_wills cf st c ws)))) c = aget (cs_wills st) c.
Proof.
  unfold plain. induction ws as [|[b cm] rest IH]; intros P st; [reflexivity|].
  simpl in P. destruct b; [discriminate|]. simpl in P. simpl.
  exec_case cf st c cm E. destruct Fr as (F1 & F2 & F3 & F4 & F5).
  destruct o.
  - specialize (IH P st1). destruct (run_wills cf st1 c rest) as [[st2 ev2] ok]. cbn [fst snd] in *. congruence.
  - cbn [fst snd set_dead cs_wills]. congruence.
  - cbn [fst snd add_stuck cs_wills]. congruence.
Qed.

(* ------------------------------------------------------------------ one step, seen from one connection c *)
Lemma wills_of_set_same st c ws : wills_of (set_wills st c ws) c = ws.
Proof. unfold wills_of, set_wills. cbn [cs_wills]. rewrite aget_aset_same. reflexivity. Qed.
Lemma wills_of_set_other' st c c' ws : c <> c' -> wills_of (set_wills st c ws) c' = wills_of st c'.
Proof. intros D. unfold wills_of. rewrite wills_of_set_other; auto. Qed.
Lemma wills_of_ext st st' c : aget (cs_wills st') c = aget (cs_wills st) c -> wills_of st' c = wills_of st c.
Proof. unfold wills_of. intros ->. reflexivity. Qed.

Lemma route_sweep_frame cf st res :
  let st' := fst (route_sweep cf st res) in
  cs_conns st' = cs_conns st /\ cs_wills st' = cs_wills st /\ ghostfree (snd (route_sweep cf st res)) /\
  (cs_dead st = true -> cs_dead st' = true) /\ cs_stuck st' = cs_stuck st.
Proof.
  unfold route_sweep. destruct res as [d evs].
  pose proof (route_ghostfree cf (cs_conns st) (cs_clients st) None evs (cs_rs st)) as G.
  destruct (route cf (cs_conns st) (cs_clients st) (cs_rs st) None evs) as [[rs ce] o]. cbn [fst snd] in *.
  destruct o; cbn; repeat split; auto.
Qed.

Definition still_open (st st' : cstate) (c : N) (kr : connrec) (ev : list cevent) : Prop :=
  exists kr', aget (cs_conns st') c = Some kr' /\ k_open kr' = true /\ k_kind kr' = k_kind kr /\
              wills_of st' c = wills_of st c ++ map (pair false) (regs c ev) /\ will_steps c ev = [].

Definition closed_now (st st' : cstate) (c : N) (ev : list cevent) : Prop :=
  exists kr', aget (cs_conns st') c = Some kr' /\ k_open kr' = false /\ regs c ev = [] /\
              (cs_dead st' = true \/ In c (cs_stuck st') \/ will_steps c ev = map snd (wills_of st c)).

Lemma still_open_same st c kr : aget (cs_conns st) c = Some kr -> k_open kr = true -> still_open st st c kr [].
Proof. intros H O. exists kr. simpl. rewrite app_nil_r. auto. Qed.

Lemma still_open_frame st st' c kr ev :
  aget (cs_conns st) c = Some kr -> k_open kr = true ->
  cs_conns st' = cs_conns st -> cs_wills st' = cs_wills st -> regs c ev = [] -> will_steps c ev = [] ->
  still_open st st' c kr ev.
Proof.
  intros H O Hc Hw Hr Hs. exists kr. rewrite Hc, Hr. simpl. rewrite app_nil_r.
  repeat split; auto. apply wills_of_ext. rewrite Hw. reflexivity.
Qed.

Ltac cbn_cs := cbn [fst snd cs_db cs_conns cs_clients cs_wills cs_rs cs_ever cs_dead cs_stuck set_db set_rs set_conns set_clients
                      set_wills set_dead add_stuck add_ever regs will_steps map app k_open k_kind k_inited k_cid].

Lemma step_open cf st a c kr :
  aget (cs_conns st) c = Some kr -> k_open kr = true -> plain (wills_of st c) ->
  (k_kind kr = KText -> fix_will_lock cf = true /\ fix_will_unlock cf = true) ->
  still_open st (fst (cstep cf st a)) c kr (snd (cstep cf st a)) \/
  closed_now st (fst (cstep cf st a)) c (snd (cstep cf st a)).
Proof.
  intros Hc Ho Hp Hfix. unfold cstep.
  destruct (cs_dead st) eqn:Dd; [left; apply still_open_same; auto|].
  destruct a as [c' k|c' cid|c' cm|c' cm|c'|k| |].
  - (* COpen *)
    left. destruct (aget (cs_conns st) c') eqn:E; [apply still_open_same; auto|].
    assert (c' <> c) by (intros ->; congruence).
    cbn [fst snd]. exists kr. cbn_cs. rewrite aget_aset_other by auto. rewrite app_nil_r.
    repeat split; auto. unfold wills_of. cbn_cs. rewrite aget_aset_other by auto. reflexivity.
  - (* CInit *)
    left. destruct (aget (cs_conns st) c') as [k'|] eqn:E; [|apply still_open_same; auto].
    destruct (k_open k' && match k_kind k' with KBin => true | KText => false end) eqn:U; [|apply still_open_same; auto].
    cbn [fst snd]. destruct (N.eq_dec c' c) as [->|D].
    + rewrite Hc in E. inversion E; subst k'. eexists. cbn_cs. rewrite aget_aset_same. rewrite app_nil_r.
      repeat split; auto.
    + exists kr. cbn_cs. rewrite aget_aset_other by auto. rewrite app_nil_r. repeat split; auto.
  - (* CReq *)
    left. destruct (usable st c' && modelled (k_kind (conn_of (cs_conns st) c')) cm); [|apply still_open_same; auto].
    set (st0 := match k_kind (conn_of (cs_conns st) c') with
                | KText => set_rs st (set_await (cs_rs st) c' (c_req (x_cmd cm))) | KBin => st end).
    assert (F0 : cs_conns st0 = cs_conns st /\ cs_wills st0 = cs_wills st).
    { unfold st0. destruct (k_kind (conn_of (cs_conns st) c')); auto. }
    destruct (exec_req_shape cf st0 c' cm false) as [ev [Hs G]].
    pose proof (exec_req_frame cf st0 c' cm false) as Fr. cbv zeta in Fr.
    destruct (exec_req cf st0 c' cm false) as [[st1 ev1] o]. cbn [fst snd] in *. subst ev1.
    destruct Fr as (F1 & F2 & F3 & F4 & F5). destruct F0 as [F01 F02].
    apply still_open_frame; auto.
    + destruct o; cbn; congruence.
    + destruct o; cbn; congruence.
    + apply regs_engine; auto.
    + apply will_steps_engine_req; auto.
  - (* CWill *)
    left. destruct (usable st c' && modelled (k_kind (conn_of (cs_conns st) c')) cm) eqn:U; [|apply still_open_same; auto].
    destruct (N.eq_dec c' c) as [->|D].
    + assert (K : conn_of (cs_conns st) c = kr) by (unfold conn_of; rewrite Hc; reflexivity).
      rewrite K. destruct (k_kind kr) eqn:Kk.
      * cbn [fst snd]. exists kr. cbn_cs. rewrite N.eqb_refl. repeat split; auto.
        unfold wills_of at 1. cbn_cs. rewrite aget_aset_same. reflexivity.
      * destruct (Hfix eq_refl) as [FL FU].
        assert (W : will_typed cf cm = false) by (unfold will_typed; destruct (c_lock (x_cmd cm)); [rewrite FL|rewrite FU]; reflexivity).
        rewrite W. cbn [fst snd]. exists kr. cbn_cs. rewrite N.eqb_refl. repeat split; auto.
        unfold wills_of at 1. cbn_cs. rewrite aget_aset_same. reflexivity.
    + assert (N1 : (c' =? c) = false) by (apply N.eqb_neq; auto).
      destruct (k_kind (conn_of (cs_conns st) c')); cbn [fst snd].
      * exists kr. cbn_cs. rewrite N1. cbn_cs. rewrite app_nil_r. repeat split; auto.
        unfold wills_of. cbn_cs. rewrite aget_aset_other by auto. reflexivity.
      * exists kr. cbn_cs. rewrite N1. cbn_cs. rewrite app_nil_r. repeat split; auto.
        unfold wills_of. cbn_cs. rewrite aget_aset_other by auto. reflexivity.
  - (* CClose *)
    destruct (aget (cs_conns st) c') as [k'|] eqn:E; [|left; apply still_open_same; auto].
    destruct (k_open k' && match k_kind k' with KBin => true | KText => negb (text_busy st c') end) eqn:U;
      [|left; apply still_open_same; auto].
    set (st1 := set_conns st (aset (cs_conns st) c' (mkConn (k_kind k') false (k_inited k') (k_cid k')))).
    set (st2 := set_rs st1 (mkRs (repoint_all (r_target (cs_rs st1)) c') (r_await (cs_rs st1)) (r_chan (cs_rs st1)))).
    set (st3 := set_wills st2 c' []).
    assert (W2 : wills_of st2 c' = wills_of st c') by reflexivity.
    rewrite W2.
    pose proof (run_wills_frame cf c' (wills_of st c') st3) as [RF1 RF2].
    pose proof (run_wills_regs cf c' c (wills_of st c') st3) as RR.
    pose proof (run_wills_completed cf c' (wills_of st c') st3) as RC.
    pose proof (run_wills_interrupted cf c' (wills_of st c') st3) as RI.
    destruct (N.eq_dec c' c) as [->|D].
    + right. rewrite Hc in E. inversion E; subst k'. clear E.
      destruct (run_wills cf st3 c (wills_of st c)) as [[st4 ev] completed]. cbn [fst snd] in *.
      assert (C3 : aget (cs_conns st4) c = Some (mkConn (k_kind kr) false (k_inited kr) (k_cid kr))).
      { rewrite RF1. unfold st3, st2, st1. cbn_cs. rewrite aget_aset_same. reflexivity. }
      destruct completed.
      * destruct (RC eq_refl) as (S1 & S2 & S3).
        assert (Fin : will_steps c ev = map snd (wills_of st c)) by (rewrite S1; apply runnable_plain; auto).
        destruct (k_kind kr); [destruct (k_inited kr)|]; cbn [fst snd].
        -- eexists. cbn_cs. rewrite aget_aset_same. repeat split; auto.
        -- eexists. split; [exact C3|]. repeat split; auto.
        -- eexists. split; [exact C3|]. repeat split; auto.
      * cbn [fst snd]. eexists. split; [exact C3|]. repeat split; auto.
        destruct (RI eq_refl); auto.
    + left. pose proof (run_wills_other cf c' c (wills_of st c') D st3) as [RO1 RO2].
      destruct (run_wills cf st3 c' (wills_of st c')) as [[st4 ev] completed]. cbn [fst snd] in *.
      assert (C3 : aget (cs_conns st4) c = Some kr).
      { rewrite RF1. unfold st3, st2, st1. cbn_cs. rewrite aget_aset_other by auto. exact Hc. }
      assert (W3 : wills_of st4 c = wills_of st c).
      { apply wills_of_ext. rewrite RO2. unfold st3. rewrite wills_of_set_other by auto. reflexivity. }
      assert (Done : forall stf, cs_wills stf = cs_wills st4 -> aget (cs_conns stf) c = Some kr ->
                                 still_open st stf c kr ev).
      { intros stf Hw Hcf. exists kr. rewrite RR. simpl. rewrite app_nil_r. repeat split; auto.
        rewrite <- W3. apply wills_of_ext. rewrite Hw. reflexivity. }
      destruct completed; [|apply Done; auto].
      destruct (k_kind k'); [destruct (k_inited k')|]; cbn [fst snd]; apply Done; auto.
      cbn_cs. rewrite aget_aset_other by auto. exact C3.
  - (* CAdvance *)
    left. cbn [fst snd]. apply still_open_frame; auto.
  - (* CSweepT *)
    left. pose proof (route_sweep_frame cf st (step (cs_db st) ASweepT)) as F. cbv zeta in F.
    destruct F as (F1 & F2 & F3 & F4 & F5).
    apply still_open_frame; auto; [apply ghostfree_regs|apply ghostfree_will_steps]; auto.
  - (* CSweepE *)
    left. pose proof (route_sweep_frame cf st (step (cs_db st) ASweepE)) as F. cbv zeta in F.
    destruct F as (F1 & F2 & F3 & F4 & F5).
    apply still_open_frame; auto; [apply ghostfree_regs|apply ghostfree_will_steps]; auto.
Qed.

Lemma caction_eq_close (a : caction) (c : N) : {a = CClose c} + {a <> CClose c}.
Proof.
  destruct a; try (right; discriminate).
  destruct (N.eq_dec c0 c) as [->|D]; [left; reflexivity|right; intros H; inversion H; auto].
Qed.

(* ------------------------------------------------------------------ will steps happen in the Close step of their connection only *)
Lemma wills_only_at_close cf st a c : a <> CClose c -> will_steps c (snd (cstep cf st a)) = [].
Proof.
  intros NC. unfold cstep. destruct (cs_dead st); [reflexivity|].
  destruct a as [c' k|c' cid|c' cm|c' cm|c'|k| |].
  - destruct (aget (cs_conns st) c'); reflexivity.
  - destruct (aget (cs_conns st) c') as [k'|]; [|reflexivity].
    destruct (k_open k' && match k_kind k' with KBin => true | KText => false end); reflexivity.
  - destruct (usable st c' && modelled (k_kind (conn_of (cs_conns st) c')) cm); [|reflexivity].
    set (st0 := match k_kind (conn_of (cs_conns st) c') with
                | KText => set_rs st (set_await (cs_rs st) c' (c_req (x_cmd cm))) | KBin => st end).
    destruct (exec_req_shape cf st0 c' cm false) as [ev [Hs G]].
    destruct (exec_req cf st0 c' cm false) as [[st1 ev1] o]. cbn [fst snd] in *. subst ev1.
    destruct o; apply will_steps_engine_req; auto.
  - destruct (usable st c' && modelled (k_kind (conn_of (cs_conns st) c')) cm); [|reflexivity].
    destruct (k_kind (conn_of (cs_conns st) c')); reflexivity.
  - assert (D : c' <> c) by (intros ->; apply NC; reflexivity).
    destruct (aget (cs_conns st) c') as [k'|]; [|reflexivity].
    destruct (k_open k' && match k_kind k' with KBin => true | KText => negb (text_busy st c') end); [|reflexivity].
    match goal with |- context [run_wills cf ?s c' ?w] => pose proof (run_wills_other cf c' c w D s) as [RO _];
      destruct (run_wills cf s c' w) as [[st4 ev] completed] end.
    cbn [fst snd] in *.
    destruct completed; [|exact RO].
    destruct (k_kind k'); [destruct (k_inited k')|]; exact RO.
  - reflexivity.
  - pose proof (route_sweep_frame cf st (step (cs_db st) ASweepT)) as F. cbv zeta in F.
    apply ghostfree_will_steps. apply F.
  - pose proof (route_sweep_frame cf st (step (cs_db st) ASweepE)) as F. cbv zeta in F.
    apply ghostfree_will_steps. apply F.
Qed.

Lemma step_closed cf st a c kr :
  aget (cs_conns st) c = Some kr -> k_open kr = false ->
  (exists kr', aget (cs_conns (fst (cstep cf st a))) c = Some kr' /\ k_open kr' = false) /\
  will_steps c (snd (cstep cf st a)) = [] /\ regs c (snd (cstep cf st a)) = [].
Proof.
  intros Hc Ho.
  assert (NU : usable st c = false) by (unfold usable; rewrite Hc, Ho; reflexivity).
  destruct (caction_eq_close a c) as [->|NC].
  - (* its own Close again: refused *)
    unfold cstep. destruct (cs_dead st); [repeat split; eauto|].
    rewrite Hc, Ho. cbn [andb fst snd]. repeat split; eauto.
  - split; [|split; [apply wills_only_at_close; auto|]].
    + unfold cstep. destruct (cs_dead st); [eauto|].
      destruct a as [c' k|c' cid|c' cm|c' cm|c'|k| |].
      * destruct (aget (cs_conns st) c') eqn:E; [eauto|].
        assert (c' <> c) by (intros ->; congruence).
        exists kr. cbn_cs. rewrite aget_aset_other by auto. auto.
      * destruct (aget (cs_conns st) c') as [k'|] eqn:E; [|eauto].
        destruct (k_open k' && match k_kind k' with KBin => true | KText => false end) eqn:U; [|eauto].
        assert (c' <> c). { intros ->. rewrite Hc in E. inversion E; subst k'. rewrite Ho in U. discriminate. }
        exists kr. cbn_cs. rewrite aget_aset_other by auto. auto.
      * destruct (usable st c' && modelled (k_kind (conn_of (cs_conns st) c')) cm); [|eauto].
        set (st0 := match k_kind (conn_of (cs_conns st) c') with
                    | KText => set_rs st (set_await (cs_rs st) c' (c_req (x_cmd cm))) | KBin => st end).
        assert (F0 : cs_conns st0 = cs_conns st) by (unfold st0; destruct (k_kind (conn_of (cs_conns st) c')); auto).
        pose proof (exec_req_frame cf st0 c' cm false) as Fr. cbv zeta in Fr.
        destruct (exec_req cf st0 c' cm false) as [[st1 ev1] o]. cbn [fst snd] in *.
        destruct Fr as (F1 & _). exists kr. destruct o; cbn_cs; rewrite F1, F0; auto.
      * destruct (usable st c' && modelled (k_kind (conn_of (cs_conns st) c')) cm); [|eauto].
        destruct (k_kind (conn_of (cs_conns st) c')); exists kr; cbn_cs; auto.
      * assert (D : c' <> c) by (intros ->; apply NC; reflexivity).
        destruct (aget (cs_conns st) c') as [k'|] eqn:E; [|eauto].
        destruct (k_open k' && match k_kind k' with KBin => true | KText => negb (text_busy st c') end); [|eauto].
        match goal with |- context [run_wills cf ?s c' ?w] => pose proof (run_wills_frame cf c' w s) as [RF _];
          destruct (run_wills cf s c' w) as [[st4 ev] completed] end.
        cbn [fst snd] in *.
        assert (C3 : aget (cs_conns st4) c = Some kr).
        { rewrite RF. cbn_cs. rewrite aget_aset_other by auto. exact Hc. }
        destruct completed; [|eauto].
        destruct (k_kind k'); [destruct (k_inited k')|]; cbn [fst snd]; eauto.
        exists kr. cbn_cs. rewrite aget_aset_other by auto. auto.
      * exists kr. cbn_cs. auto.
      * pose proof (route_sweep_frame cf st (step (cs_db st) ASweepT)) as F. cbv zeta in F.
        destruct F as (F1 & _). exists kr. rewrite F1. auto.
      * pose proof (route_sweep_frame cf st (step (cs_db st) ASweepE)) as F. cbv zeta in F.
        destruct F as (F1 & _). exists kr. rewrite F1. auto.
    + unfold cstep. destruct (cs_dead st); [reflexivity|].
      destruct a as [c' k|c' cid|c' cm|c' cm|c'|k| |].
      * destruct (aget (cs_conns st) c'); reflexivity.
      * destruct (aget (cs_conns st) c') as [k'|]; [|reflexivity].
        destruct (k_open k' && match k_kind k' with KBin => true | KText => false end); reflexivity.
      * destruct (usable st c' && modelled (k_kind (conn_of (cs_conns st) c')) cm); [|reflexivity].
        set (st0 := match k_kind (conn_of (cs_conns st) c') with
                    | KText => set_rs st (set_await (cs_rs st) c' (c_req (x_cmd cm))) | KBin => st end).
        destruct (exec_req_shape cf st0 c' cm false) as [ev [Hs G]].
        destruct (exec_req cf st0 c' cm false) as [[st1 ev1] o]. cbn [fst snd] in *. subst ev1.
        apply regs_engine; auto.
      * destruct (usable st c' && modelled (k_kind (conn_of (cs_conns st) c')) cm) eqn:U; [|reflexivity].
        apply andb_prop in U. destruct U as [U _].
        assert (D : (c' =? c) = false). { apply N.eqb_neq. intros ->. congruence. }
        destruct (k_kind (conn_of (cs_conns st) c')); cbn_cs; rewrite D; reflexivity.
      * destruct (aget (cs_conns st) c') as [k'|]; [|reflexivity].
        destruct (k_open k' && match k_kind k' with KBin => true | KText => negb (text_busy st c') end); [|reflexivity].
        match goal with |- context [run_wills cf ?s c' ?w] => pose proof (run_wills_regs cf c' c w s) as RR;
          destruct (run_wills cf s c' w) as [[st4 ev] completed] end.
        cbn [fst snd] in *.
        destruct completed; [|exact RR].
        destruct (k_kind k'); [destruct (k_inited k')|]; exact RR.
      * reflexivity.
      * pose proof (route_sweep_frame cf st (step (cs_db st) ASweepT)) as F. cbv zeta in F.
        apply ghostfree_regs. apply F.
      * pose proof (route_sweep_frame cf st (step (cs_db st) ASweepE)) as F. cbv zeta in F.
        apply ghostfree_regs. apply F.
Qed.

(* ------------------------------------------------------------------ death and blocked Closes are permanent *)
Lemma step_monotone cf st a :
  (cs_dead st = true -> cs_dead (fst (cstep cf st a)) = true) /\
  (forall x, In x (cs_stuck st) -> In x (cs_stuck (fst (cstep cf st a)))).
Proof.
  unfold cstep. destruct (cs_dead st) eqn:Dd; [auto|]. split; [discriminate|]. intros x Hx.
  destruct a as [c' k|c' cid|c' cm|c' cm|c'|k| |].
  - destruct (aget (cs_conns st) c'); auto.
  - destruct (aget (cs_conns st) c') as [k'|]; auto.
    destruct (k_open k' && match k_kind k' with KBin => true | KText => false end); auto.
  - destruct (usable st c' && modelled (k_kind (conn_of (cs_conns st) c')) cm); auto.
    set (st0 := match k_kind (conn_of (cs_conns st) c') with
                | KText => set_rs st (set_await (cs_rs st) c' (c_req (x_cmd cm))) | KBin => st end).
    assert (F0 : cs_stuck st0 = cs_stuck st) by (unfold st0; destruct (k_kind (conn_of (cs_conns st) c')); auto).
    pose proof (exec_req_frame cf st0 c' cm false) as Fr. cbv zeta in Fr.
    destruct (exec_req cf st0 c' cm false) as [[st1 ev1] o]. cbn [fst snd] in *.
    destruct Fr as (_ & _ & _ & _ & F5). destruct o; cbn_cs; rewrite F5, F0; auto.
  - destruct (usable st c' && modelled (k_kind (conn_of (cs_conns st) c')) cm); auto. destruct (k_kind (conn_of (cs_conns st) c')); auto.
  - destruct (aget (cs_conns st) c') as [k'|]; auto.
    destruct (k_open k' && match k_kind k' with KBin => true | KText => negb (text_busy st c') end); auto.
    match goal with |- context [run_wills cf ?s c' ?w] => pose proof (run_wills_monotone cf c' w s) as [_ RM];
      destruct (run_wills cf s c' w) as [[st4 ev] completed] end.
    cbn [fst snd] in *. specialize (RM x Hx).
    destruct completed; auto.
    destruct (k_kind k'); [destruct (k_inited k')|]; auto.
  - auto.
  - pose proof (route_sweep_frame cf st (step (cs_db st) ASweepT)) as F. cbv zeta in F.
    destruct F as (_ & _ & _ & _ & F5). rewrite F5. auto.
  - pose proof (route_sweep_frame cf st (step (cs_db st) ASweepE)) as F. cbv zeta in F.
    destruct F as (_ & _ & _ & _ & F5). rewrite F5. auto.
Qed.

Lemma crun_cons cf st a rest :
  fst (crun cf st (a :: rest)) = fst (crun cf (fst (cstep cf st a)) rest) /\
  snd (crun cf st (a :: rest)) = snd (cstep cf st a) :: snd (crun cf (fst (cstep cf st a)) rest).
Proof.
  simpl. destruct (cstep cf st a) as [s1 e1]. cbn [fst snd]. destruct (crun cf s1 rest) as [s2 es]. split; reflexivity.
Qed.

Lemma crun_monotone cf acts : forall st,
  (cs_dead st = true -> cs_dead (fst (crun cf st acts)) = true) /\
  (forall x, In x (cs_stuck st) -> In x (cs_stuck (fst (crun cf st acts)))).
Proof.
  induction acts as [|a rest IH]; intros st; [simpl; auto|].
  destruct (crun_cons cf st a rest) as [-> _].
  destruct (step_monotone cf st a) as [M1 M2]. destruct (IH (fst (cstep cf st a))) as [I1 I2].
  split; auto.
Qed.

(* ------------------------------------------------------------------ whole runs *)
Definition events (tr : list (list cevent)) : list cevent := concat tr.

Lemma run_closed cf acts : forall st c kr,
  aget (cs_conns st) c = Some kr -> k_open kr = false ->
  (exists kr', aget (cs_conns (fst (crun cf st acts))) c = Some kr' /\ k_open kr' = false) /\
  will_steps c (events (snd (crun cf st acts))) = [] /\ regs c (events (snd (crun cf st acts))) = [].
Proof.
  induction acts as [|a rest IH]; intros st c kr Hc Ho; [simpl; eauto|].
  destruct (crun_cons cf st a rest) as [-> ->].
  destruct (step_closed cf st a c kr Hc Ho) as ([kr' [Hc' Ho']] & S1 & S2).
  destruct (IH _ c kr' Hc' Ho') as (I1 & I2 & I3).
  split; [exact I1|]. unfold events in *. simpl. rewrite will_steps_app, regs_app, S1, S2, I2, I3. auto.
Qed.

Lemma plain_app_false ws l : plain ws -> plain (ws ++ map (pair false) l).
Proof.
  unfold plain. intros H. rewrite forallb_app. apply andb_true_intro. split; [exact H|].
  induction l; simpl; auto.
Qed.

Lemma run_open cf acts : forall st c kr,
  aget (cs_conns st) c = Some kr -> k_open kr = true -> plain (wills_of st c) ->
  (k_kind kr = KText -> fix_will_lock cf = true /\ fix_will_unlock cf = true) ->
  cs_dead (fst (crun cf st acts)) = false -> ~ In c (cs_stuck (fst (crun cf st acts))) ->
  exists kr', aget (cs_conns (fst (crun cf st acts))) c = Some kr' /\
    if k_open kr'
    then will_steps c (events (snd (crun cf st acts))) = [] /\
         wills_of (fst (crun cf st acts)) c = wills_of st c ++ map (pair false) (regs c (events (snd (crun cf st acts))))
    else will_steps c (events (snd (crun cf st acts))) = map snd (wills_of st c) ++ regs c (events (snd (crun cf st acts))).
Proof.
  induction acts as [|a rest IH]; intros st c kr Hc Ho Hp Hfix Hd Hs.
  - exists kr. simpl. rewrite Hc, Ho. simpl. rewrite app_nil_r. auto.
  - destruct (crun_cons cf st a rest) as [E1 E2]. rewrite E1 in Hd, Hs. rewrite E1, E2. clear E1 E2.
    destruct (crun_monotone cf rest (fst (cstep cf st a))) as [M1 M2].
    destruct (step_open cf st a c kr Hc Ho Hp Hfix) as [SO|CN].
    + destruct SO as (kr1 & Hc1 & Ho1 & Hk1 & Hw1 & Hs1).
      assert (Hp1 : plain (wills_of (fst (cstep cf st a)) c)) by (rewrite Hw1; apply plain_app_false; auto).
      assert (Hfix1 : k_kind kr1 = KText -> fix_will_lock cf = true /\ fix_will_unlock cf = true) by (rewrite Hk1; auto).
      destruct (IH _ c kr1 Hc1 Ho1 Hp1 Hfix1 Hd Hs) as (kr' & Hc' & Hres).
      exists kr'. split; [exact Hc'|]. unfold events in *. simpl.
      rewrite will_steps_app, regs_app, Hs1. simpl.
      destruct (k_open kr').
      * destruct Hres as [R1 R2]. split; [exact R1|]. rewrite R2, Hw1, map_app, app_assoc. reflexivity.
      * rewrite Hres, Hw1, map_app, map_map. simpl. rewrite map_id, app_assoc. reflexivity.
    + destruct CN as (kr1 & Hc1 & Ho1 & Hr1 & Hfin).
      destruct (run_closed cf rest _ c kr1 Hc1 Ho1) as ([kr' [Hc' Ho']] & R1 & R2).
      exists kr'. split; [exact Hc'|]. rewrite Ho'. unfold events in *. simpl.
      rewrite will_steps_app, regs_app, R1, R2, Hr1, app_nil_r. simpl. rewrite app_nil_r.
      destruct Hfin as [Dd|[St|Fin]]; [|exfalso; apply Hs; apply M2; exact St|exact Fin].
      rewrite (M1 Dd) in Hd. discriminate.
Qed.

Lemma crun_dead_fix cf acts : forall st, cs_dead st = true -> fst (crun cf st acts) = st.
Proof.
  induction acts as [|a rest IH]; intros st D; [reflexivity|].
  destruct (crun_cons cf st a rest) as [-> _].
  assert (E : fst (cstep cf st a) = st) by (unfold cstep; rewrite D; reflexivity).
  rewrite E. apply IH; auto.
Qed.

(* THE will theorem.  A connection c that does not exist yet is opened (binary, or text with the will type rewrite in
   place) and anything at all happens afterwards (any actions of any connections, sweeps, its own Close at any point).
   If the process survives and the Close of c does not block: while c is open no will of c has run; once c is closed
   the engine calls made for its wills are exactly the commands it registered, each once, in registration order. *)
Theorem wills_exactly_once cf st1 c k acts :
  aget (cs_conns st1) c = None ->
  (k = KText -> fix_will_lock cf = true /\ fix_will_unlock cf = true) ->
  let st := fst (crun cf st1 (COpen c k :: acts)) in
  let ev := events (snd (crun cf st1 (COpen c k :: acts))) in
  cs_dead st = false -> ~ In c (cs_stuck st) ->
  will_steps c ev = if is_open (cs_conns st) c then [] else regs c ev.
Proof.
  intros Hn Hfix st ev Hd Hs. subst st ev.
  destruct (crun_cons cf st1 (COpen c k) acts) as [E1 E2]. rewrite E1 in Hd, Hs. rewrite E1, E2. clear E1 E2.
  destruct (cs_dead st1) eqn:D1.
  { assert (E : fst (cstep cf st1 (COpen c k)) = st1) by (unfold cstep; rewrite D1; reflexivity).
    rewrite E in Hd. rewrite crun_dead_fix in Hd by auto. congruence. }
  assert (Es : cstep cf st1 (COpen c k) =
               (set_rs (set_wills (set_conns st1 (aset (cs_conns st1) c (mkConn k true false 0))) c [])
                       (set_target (cs_rs (set_wills (set_conns st1 (aset (cs_conns st1) c (mkConn k true false 0))) c [])) c (Some c)), [])).
  { unfold cstep. rewrite D1, Hn. reflexivity. }
  rewrite Es in *. cbn [fst snd] in *.
  match goal with |- context [crun cf ?s acts] => set (st2 := s) in * end.
  assert (Hc2 : aget (cs_conns st2) c = Some (mkConn k true false 0)) by (unfold st2; cbn_cs; apply aget_aset_same).
  assert (Hw2 : wills_of st2 c = []) by (unfold st2, wills_of; cbn_cs; rewrite aget_aset_same; reflexivity).
  assert (Hp2 : plain (wills_of st2 c)) by (rewrite Hw2; reflexivity).
  destruct (run_open cf acts st2 c _ Hc2 eq_refl Hp2 Hfix Hd Hs) as (kr' & Hc' & Hres).
  unfold events in *. simpl. unfold is_open. rewrite Hc'.
  destruct (k_open kr'); [apply Hres|]. rewrite Hres, Hw2. reflexivity.
Qed.

(* the queue of an open connection is its registrations (same hypotheses) *)
Theorem will_queue_is_registrations cf st1 c k acts :
  aget (cs_conns st1) c = None ->
  (k = KText -> fix_will_lock cf = true /\ fix_will_unlock cf = true) ->
  let st := fst (crun cf st1 (COpen c k :: acts)) in
  let ev := events (snd (crun cf st1 (COpen c k :: acts))) in
  cs_dead st = false -> ~ In c (cs_stuck st) -> is_open (cs_conns st) c = true ->
  wills_of st c = map (pair false) (regs c ev).
Proof.
  intros Hn Hfix st ev Hd Hs Hop. subst st ev.
  destruct (crun_cons cf st1 (COpen c k) acts) as [E1 E2]. rewrite E1 in Hd, Hs, Hop. rewrite E1, E2. clear E1 E2.
  destruct (cs_dead st1) eqn:D1.
  { assert (E : fst (cstep cf st1 (COpen c k)) = st1) by (unfold cstep; rewrite D1; reflexivity).
    rewrite E in Hd. rewrite crun_dead_fix in Hd by auto. congruence. }
  assert (Es : cstep cf st1 (COpen c k) =
               (set_rs (set_wills (set_conns st1 (aset (cs_conns st1) c (mkConn k true false 0))) c [])
                       (set_target (cs_rs (set_wills (set_conns st1 (aset (cs_conns st1) c (mkConn k true false 0))) c [])) c (Some c)), [])).
  { unfold cstep. rewrite D1, Hn. reflexivity. }
  rewrite Es in *. cbn [fst snd] in *.
  match goal with |- context [crun cf ?s acts] => set (st2 := s) in * end.
  assert (Hc2 : aget (cs_conns st2) c = Some (mkConn k true false 0)) by (unfold st2; cbn_cs; apply aget_aset_same).
  assert (Hw2 : wills_of st2 c = []) by (unfold st2, wills_of; cbn_cs; rewrite aget_aset_same; reflexivity).
  assert (Hp2 : plain (wills_of st2 c)) by (rewrite Hw2; reflexivity).
  destruct (run_open cf acts st2 c _ Hc2 eq_refl Hp2 Hfix Hd Hs) as (kr' & Hc' & Hres).
  unfold events in *. simpl. unfold is_open in Hop. rewrite Hc' in Hop. rewrite Hop in Hres.
  destruct Hres as [_ R]. rewrite R, Hw2. reflexivity.
Qed.

(* ------------------------------------------------------------------ what Close does to the lock engine *)
Lemma run_wills_db cf c ws : forall st,
  snd (run_wills cf st c ws) = true ->
  cs_db (fst (fst (run_wills cf st c ws))) =
  fold_left (eng_step c) (runnable ws) (cs_db st).
Proof.
  induction ws as [|[b cm] rest IH]; intros st; [reflexivity|].
  destruct b; simpl.
  - specialize (IH (set_wills st c (wills_of st c ++ [(false, cm)]))).
    destruct (run_wills cf (set_wills st c (wills_of st c ++ [(false, cm)])) c rest) as [[st2 ev2] ok].
    cbn [fst snd] in *. intros H. rewrite (IH H). reflexivity.
  - pose proof (exec_is_step cf st c cm true) as ES.
    destruct (exec_req cf st c cm true) as [[st1 ev1] o]. cbn [fst snd] in *.
    destruct o; [|cbn [snd]; discriminate..].
    specialize (IH st1). destruct (run_wills cf st1 c rest) as [[st2 ev2] ok]. cbn [fst snd] in *.
    intros H. rewrite (IH H). unfold runnable. simpl. rewrite (ES eq_refl). reflexivity.
Qed.

(* A Close that runs to its end changes the engine exactly as if the connection had issued its registered will commands
   as ordinary requests, one after the other: holds it took and requests it left queued are touched by nothing else. *)
Theorem close_engine_effect cf st c kr :
  aget (cs_conns st) c = Some kr -> cs_dead st = false ->
  cs_dead (fst (cstep cf st (CClose c))) = false -> ~ In c (cs_stuck (fst (cstep cf st (CClose c)))) ->
  cs_db (fst (cstep cf st (CClose c))) =
  if k_open kr && match k_kind kr with KBin => true | KText => negb (text_busy st c) end
  then fold_left (eng_step c) (runnable (wills_of st c)) (cs_db st)
  else cs_db st.
Proof.
  intros Hc Hd. unfold cstep. rewrite Hd, Hc.
  destruct (k_open kr && match k_kind kr with KBin => true | KText => negb (text_busy st c) end); [|reflexivity].
  match goal with |- context [run_wills cf ?s c ?w] =>
    pose proof (run_wills_db cf c w s) as RD; pose proof (run_wills_interrupted cf c w s) as RI;
    destruct (run_wills cf s c w) as [[st4 ev] completed] end.
  cbn [fst snd] in *.
  destruct completed.
  - intros _ _.
    destruct (k_kind kr); [destruct (k_inited kr)|]; cbn [fst snd]; exact (RD eq_refl).
  - cbn [fst snd]. intros D S. destruct (RI eq_refl) as [X|X]; [congruence|contradiction].
Qed.

Theorem close_without_wills_keeps_engine cf st c :
  wills_of st c = [] -> cs_db (fst (cstep cf st (CClose c))) = cs_db st.
Proof.
  intros W. unfold cstep. destruct (cs_dead st); [reflexivity|].
  destruct (aget (cs_conns st) c) as [k|]; [|reflexivity].
  destruct (k_open k && match k_kind k with KBin => true | KText => negb (text_busy st c) end); [|reflexivity].
  match goal with |- context [run_wills cf ?s c ?w] => replace w with (@nil wcmd) by (symmetry; exact W) end.
  simpl. destruct (k_kind k); [destruct (k_inited k)|]; reflexivity.
Qed.

Theorem bookkeeping_keeps_engine cf st a :
  match a with COpen _ _ | CInit _ _ | CWill _ _ => True | _ => False end ->
  cs_db (fst (cstep cf st a)) = cs_db st.
Proof.
  unfold cstep. destruct (cs_dead st); [reflexivity|].
  destruct a as [c' k|c' cid|c' cm|c' cm|c'|k| |]; intros H; try contradiction.
  - destruct (aget (cs_conns st) c'); reflexivity.
  - destruct (aget (cs_conns st) c') as [k'|]; [|reflexivity].
    destruct (k_open k' && match k_kind k' with KBin => true | KText => false end); reflexivity.
  - destruct (usable st c' && modelled (k_kind (conn_of (cs_conns st) c')) cm); [|reflexivity]. destruct (k_kind (conn_of (cs_conns st) c')); reflexivity.
Qed.

(* ------------------------------------------------------------------ reply routing *)
(* forwarding chain of BinaryServerProtocol.ProcessLockResultCommand: a closed connection that is still INITed hands the
   result to whoever is registered under its client id *)
Inductive fwd (cs : amap connrec) (cl : amap N) : N -> N -> Prop :=
| fwd_here c : fwd cs cl c c
| fwd_next c c' d :
    k_open (conn_of cs c) = false -> k_inited (conn_of cs c) = true ->
    aget cl (k_cid (conn_of cs c)) = Some c' -> c' <> c -> fwd cs cl c' d -> fwd cs cl c d.

Lemma is_open_conn_of cs c : is_open cs c = k_open (conn_of cs c).
Proof. unfold is_open, conn_of. destruct (aget cs c); reflexivity. Qed.

Lemma fwd_split cs cl c to : fwd cs cl c to -> to = c \/ exists c0, aget cl (k_cid (conn_of cs c)) = Some c0 /\ fwd cs cl c0 to.
Proof. intros H. inversion H; subst; [left; reflexivity|right; eauto]. Qed.

Lemma bin_result_sound cf cs cl origin r to o r' fuel : forall c,
  In (CFrame to o r') (fst (bin_result fuel cf cs cl c origin r)) ->
  o = origin /\ k_open (conn_of cs to) = true /\ fwd cs cl c to.
Proof.
  induction fuel as [|f IH]; intros c; simpl.
  - intros [H|[]]. discriminate H.
  - destruct (k_open (conn_of cs c)) eqn:Ko.
    + intros [H|[]]. inversion H; subst. repeat split; auto. constructor.
    + destruct (negb (k_inited (conn_of cs c))) eqn:Ki; [intros [H|[]]; discriminate H|].
      destruct (aget cl (k_cid (conn_of cs c))) as [c'|] eqn:Ec; [|intros [H|[]]; discriminate H].
      destruct (c' =? c) eqn:Eq.
      * destruct (fix_closed_rec cf); intros [H|[]]; discriminate H.
      * intros H. destruct (IH c' H) as (A & B & C). repeat split; auto.
        apply fwd_next with c'; auto.
        -- apply negb_false_iff in Ki. exact Ki.
        -- apply N.eqb_neq. exact Eq.
Qed.

Lemma text_push_sound cf cs rs c origin r to o r' :
  In (CFrame to o r') (snd (fst (text_push cf cs rs c origin r))) ->
  o = origin /\ k_open (conn_of cs to) = true /\ to = c.
Proof.
  unfold text_push.
  destruct (negb (is_open cs c) && fix_text_closed cf); [intros [H|[]]; discriminate H|].
  destruct (is_open cs c) eqn:Io.
  - intros [H|[]]. inversion H; subst. rewrite <- is_open_conn_of. auto.
  - destruct (getN (r_chan (set_await rs c 0)) c <? LOCKWAITER_CAP); intros [H|[]]; discriminate H.
Qed.

Lemma text_push_target cf cs rs c origin r : r_target (fst (fst (text_push cf cs rs c origin r))) = r_target rs.
Proof.
  unfold text_push.
  destruct (negb (is_open cs c) && fix_text_closed cf); [reflexivity|].
  destruct (is_open cs c); [reflexivity|].
  destruct (getN (r_chan (set_await rs c 0)) c <? LOCKWAITER_CAP); reflexivity.
Qed.

Lemma locked_result_sound cf cs cl rs c origin r to o r' :
  In (CFrame to o r') (snd (fst (locked_result cf cs cl rs c origin r))) ->
  o = origin /\ k_open (conn_of cs to) = true /\ fwd cs cl c to.
Proof.
  unfold locked_result. destruct (k_kind (conn_of cs c)).
  - pose proof (bin_result_sound cf cs cl origin r to o r' 3 c) as H.
    destruct (bin_result 3 cf cs cl c origin r) as [ev oc]. exact H.
  - destruct ((rp_req r =? getN (r_await rs) c) && negb (getN (r_await rs) c =? 0)).
    + intros H. destruct (text_push_sound _ _ _ _ _ _ _ _ _ H) as (A & B & C). subst. repeat split; auto. constructor.
    + intros [H|[]]. discriminate H.
Qed.

Lemma locked_result_target cf cs cl rs c origin r : r_target (fst (fst (locked_result cf cs cl rs c origin r))) = r_target rs.
Proof.
  unfold locked_result. destruct (k_kind (conn_of cs c)).
  - destruct (bin_result 3 cf cs cl c origin r) as [ev oc]. reflexivity.
  - destruct ((rp_req r =? getN (r_await rs) c) && negb (getN (r_await rs) c =? 0)); [apply text_push_target|reflexivity].
Qed.

(* targets only ever move to the connection registered under the proxy's own client id *)
Definition tinv (cs : amap connrec) (cl : amap N) (rs0 rs : rstate) : Prop :=
  forall p c0, aget (r_target rs) p = Some (Some c0) ->
               aget (r_target rs0) p = Some (Some c0) \/ aget cl (k_cid (conn_of cs p)) = Some c0.

Lemma async_result_sound cf cs cl rs0 rs p r to o r' :
  tinv cs cl rs0 rs ->
  In (CFrame to o r') (snd (fst (async_result cf cs cl rs p r))) ->
  o = p /\ k_open (conn_of cs to) = true /\
  exists c0, (aget (r_target rs0) p = Some (Some c0) \/ aget cl (k_cid (conn_of cs p)) = Some c0) /\ fwd cs cl c0 to.
Proof.
  intros T. unfold async_result.
  destruct (aget (r_target rs) p) as [[c|]|] eqn:Et.
  - intros H. destruct (locked_result_sound _ _ _ _ _ _ _ _ _ _ H) as (A & B & C). repeat split; auto.
    exists c. split; auto.
  - destruct (aget cl (k_cid (conn_of cs p))) as [c'|] eqn:Ec; [|intros [H|[]]; discriminate H].
    intros H. destruct (locked_result_sound _ _ _ _ _ _ _ _ _ _ H) as (A & B & C). repeat split; auto.
    exists c'. split; auto.
  - destruct (aget cl (k_cid (conn_of cs p))) as [c'|] eqn:Ec; [|intros [H|[]]; discriminate H].
    intros H. destruct (locked_result_sound _ _ _ _ _ _ _ _ _ _ H) as (A & B & C). repeat split; auto.
    exists c'. split; auto.
Qed.

Lemma tinv_set cs cl rs0 rs p c' :
  tinv cs cl rs0 rs -> aget cl (k_cid (conn_of cs p)) = Some c' -> tinv cs cl rs0 (set_target rs p (Some c')).
Proof.
  intros T Ec q c0. unfold set_target. cbn [r_target].
  destruct (N.eq_dec p q) as [->|D].
  - rewrite aget_aset_same. intros H. inversion H; subst. right. exact Ec.
  - rewrite aget_aset_other by auto. apply T.
Qed.

Lemma tinv_ext cs cl rs0 rs rs' : r_target rs' = r_target rs -> tinv cs cl rs0 rs -> tinv cs cl rs0 rs'.
Proof. unfold tinv. intros -> T. exact T. Qed.

Lemma async_result_tinv cf cs cl rs0 rs p r :
  tinv cs cl rs0 rs -> tinv cs cl rs0 (fst (fst (async_result cf cs cl rs p r))).
Proof.
  intros T. unfold async_result.
  destruct (aget (r_target rs) p) as [[c|]|] eqn:Et.
  - eapply tinv_ext; [apply locked_result_target|exact T].
  - destruct (aget cl (k_cid (conn_of cs p))) as [c'|] eqn:Ec; [|exact T].
    eapply tinv_ext; [apply locked_result_target|].
    destruct (is_open cs c' || negb (chk_addproxy cf)); [apply tinv_set; auto|exact T].
  - destruct (aget cl (k_cid (conn_of cs p))) as [c'|] eqn:Ec; [|exact T].
    eapply tinv_ext; [apply locked_result_target|].
    destruct (is_open cs c' || negb (chk_addproxy cf)); [apply tinv_set; auto|exact T].
Qed.

Lemma sync_result_sound cf cs cl rs c r to o r' :
  In (CFrame to o r') (snd (fst (sync_result cf cs cl rs c r))) ->
  o = c /\ k_open (conn_of cs to) = true /\ fwd cs cl c to.
Proof.
  unfold sync_result. destruct (k_kind (conn_of cs c)).
  - pose proof (bin_result_sound cf cs cl c r to o r' 3 c) as H.
    destruct (bin_result 3 cf cs cl c c r) as [ev oc]. exact H.
  - intros H. destruct (text_push_sound _ _ _ _ _ _ _ _ _ H) as (A & B & C). subst. repeat split; auto. constructor.
Qed.

Lemma sync_result_target cf cs cl rs c r : r_target (fst (fst (sync_result cf cs cl rs c r))) = r_target rs.
Proof.
  unfold sync_result. destruct (k_kind (conn_of cs c)).
  - destruct (bin_result 3 cf cs cl c c r) as [ev oc]. reflexivity.
  - apply text_push_target.
Qed.

Definition routed_ok (cs : amap connrec) (cl : amap N) (rs0 : rstate) (to o : N) : Prop :=
  k_open (conn_of cs to) = true /\
  (to = o \/ exists c0, (aget (r_target rs0) o = Some (Some c0) \/ aget cl (k_cid (conn_of cs o)) = Some c0) /\ fwd cs cl c0 to).

Lemma route_sound_gen cf cs cl who evs rs0 to o r : forall rs,
  tinv cs cl rs0 rs ->
  In (CFrame to o r) (snd (fst (route cf cs cl rs who evs))) -> routed_ok cs cl rs0 to o.
Proof.
  induction evs as [|e rest IH]; intros rs T; simpl; [intros []|].
  destruct e; try (apply IH; exact T).
  set (rp := mkRep req result lcount lrcount lockid).
  assert (One : forall rs1 ev1 o1,
            match who with
            | Some (c, q) => if (conn =? c) && (req =? q) then sync_result cf cs cl rs c rp else async_result cf cs cl rs conn rp
            | None => async_result cf cs cl rs conn rp end = (rs1, ev1, o1) ->
            tinv cs cl rs0 rs1 /\ (In (CFrame to o r) ev1 -> routed_ok cs cl rs0 to o)).
  { intros rs1 ev1 o1 E.
    assert (A : forall res, res = (rs1, ev1, o1) -> res = async_result cf cs cl rs conn rp ->
                tinv cs cl rs0 rs1 /\ (In (CFrame to o r) ev1 -> routed_ok cs cl rs0 to o)).
    { intros res E1 E2. split.
      - pose proof (async_result_tinv cf cs cl rs0 rs conn rp T) as X. rewrite <- E2, E1 in X. exact X.
      - intros H. pose proof (async_result_sound cf cs cl rs0 rs conn rp to o r T) as X. rewrite <- E2, E1 in X.
        destruct (X H) as (P & Q & R). subst. split; auto. }
    destruct who as [[c q]|]; [|eapply A; [exact E|reflexivity]].
    destruct ((conn =? c) && (req =? q)); [|eapply A; [exact E|reflexivity]].
    split.
    - eapply tinv_ext; [|exact T]. pose proof (sync_result_target cf cs cl rs c rp) as X. rewrite E in X. exact X.
    - intros H. pose proof (sync_result_sound cf cs cl rs c rp to o r) as X. rewrite E in X.
      destruct (X H) as (P & Q & R). subst. split; auto.
      destruct (fwd_split _ _ _ _ R) as [->|[c0 [F1 F2]]]; [left; reflexivity|right; exists c0; auto]. }
  destruct (match who with
            | Some (c, q) => if (conn =? c) && (req =? q) then sync_result cf cs cl rs c rp else async_result cf cs cl rs conn rp
            | None => async_result cf cs cl rs conn rp end) as [[rs1 ev1] o1] eqn:E.
  destruct (One rs1 ev1 o1 eq_refl) as [T1 F1].
  destruct o1; [|exact F1..].
  specialize (IH rs1 T1). destruct (route cf cs cl rs1 who rest) as [[rs2 ev2] o2]. cbn [fst snd] in *.
  intros H. apply in_app_or in H. destruct H; auto.
Qed.

Theorem route_sound cf cs cl who evs rs0 to o r :
  In (CFrame to o r) (snd (fst (route cf cs cl rs0 who evs))) ->
  k_open (conn_of cs to) = true /\
  (to = o \/ exists c0, (aget (r_target rs0) o = Some (Some c0) \/ aget cl (k_cid (conn_of cs o)) = Some c0) /\ fwd cs cl c0 to).
Proof.
  intros H. apply (route_sound_gen cf cs cl who evs rs0 to o r rs0); auto.
  intros p c0 X. left. exact X.
Qed.

(* ------------------------------------------------------------------ refutation witnesses (the faithful, unrepaired variant) *)
Definition cf_unrepaired : cfg := mkCfg false false false false true.
Definition cf_text_will_only : cfg := mkCfg true true false false true.
Definition cf_repaired : cfg := mkCfg true true true true true.
(* the AddProxy result ignored in ProxyServerProtocol.ProcessLockResultCommandLocked (everything else repaired) *)
Definition cf_no_addproxy_check : cfg := mkCfg true true true true false.

Definition lockd (db req lockid key timeout expried : N) : xcmd := mkX db (make_cmd true req 0 lockid key 0 timeout 0 expried 0 0 None).
Definition unlockd (db req lockid key : N) : xcmd := mkX db (make_cmd false req 0 lockid key 0 0 0 0 0 0 None).
Definition lockc := lockd 0.
Definition unlockc := unlockd 0.

Definition run0 (cf : cfg) (acts : list caction) : cstate * list cevent :=
  let r := crun cf (init_cstate 1000000 1) acts in (fst r, events (snd r)).

Definition frame_to (to origin : N) (evs : list cevent) : bool :=
  existsb (fun e => match e with CFrame t o _ => (t =? to) && (o =? origin) | _ => false end) evs.
Definition has_crash (evs : list cevent) : bool := existsb (fun e => match e with CCrash _ => true | _ => false end) evs.
Definition has_blocked (c : N) (evs : list cevent) : bool :=
  existsb (fun e => match e with CBlocked c' => c' =? c | _ => false end) evs.

(* text connection, one will, closed: no engine call is made for the will, the queue still holds it *)
Definition w_text_will : list caction :=
  [COpen 1 KText; CWill 1 (lockc 1000001 101 7 0 30); CClose 1].

Lemma refuted_text_will :
  let r := run0 cf_unrepaired w_text_will in
  cs_dead (fst r) = false /\ cs_stuck (fst r) = [] /\ is_open (cs_conns (fst r)) 1 = false /\
  regs 1 (snd r) = [lockc 1000001 101 7 0 30] /\ will_steps 1 (snd r) = [] /\
  wills_of (fst r) 1 = [(false, lockc 1000001 101 7 0 30)].
Proof. vm_compute. repeat split; reflexivity. Qed.

(* binary connection that sent INIT, one replying will, closed: ProcessLockResultCommand forwards to itself for ever *)
Definition w_closed_recursion : list caction :=
  [COpen 1 KBin; CInit 1 77; CWill 1 (lockc 11 101 7 0 30); CClose 1].

Lemma refuted_closed_recursion :
  let r := run0 cf_unrepaired w_closed_recursion in
  cs_dead (fst r) = true /\ has_crash (snd r) = true.
Proof. vm_compute. split; reflexivity. Qed.

(* connection 1 never sends INIT, takes a hold that will expire, closes; connection 2 registers the all-zero client id:
   the expiry notice of connection 1's hold is delivered to connection 2 *)
Definition w_zero_clientid : list caction :=
  [COpen 1 KBin; COpen 2 KBin; CReq 1 (lockc 11 101 7 0 3); CInit 2 0; CClose 1; CAdvance 5; CSweepE].

Lemma refuted_zero_clientid :
  let r := run0 cf_repaired w_zero_clientid in
  cs_dead (fst r) = false /\ frame_to 2 1 (snd r) = true /\
  k_inited (conn_of (cs_conns (fst r)) 1) = false /\ k_cid (conn_of (cs_conns (fst r)) 1) = 0.
Proof. vm_compute. repeat split; reflexivity. Qed.

(* same with a text connection (which cannot announce an id at all) and a waiter granted after the close *)
Definition w_zero_clientid_text : list caction :=
  [COpen 1 KText; COpen 2 KBin; CReq 1 (lockc 1000001 101 7 0 3); CInit 2 0; CClose 1; CAdvance 5; CSweepE].

Lemma refuted_zero_clientid_text :
  let r := run0 cf_repaired w_zero_clientid_text in
  cs_dead (fst r) = false /\ frame_to 2 1 (snd r) = true.
Proof. vm_compute. split; reflexivity. Qed.

(* with only the will type rewrite in place: six replying wills on a text connection; the fifth answer blocks Close for
   ever, the sixth will never runs *)
Definition w_text_block : list caction :=
  [COpen 1 KText;
   CWill 1 (lockc 1000001 101 5001 0 30); CWill 1 (lockc 1000002 102 5002 0 30); CWill 1 (lockc 1000003 103 5003 0 30);
   CWill 1 (lockc 1000004 104 5004 0 30); CWill 1 (lockc 1000005 105 5005 0 30); CWill 1 (lockc 1000006 106 5006 0 30);
   CClose 1].

Lemma refuted_text_close_blocks :
  let r := run0 cf_text_will_only w_text_block in
  cs_dead (fst r) = false /\ cs_stuck (fst r) = [1] /\ has_blocked 1 (snd r) = true /\
  length (regs 1 (snd r)) = 6%nat /\ length (will_steps 1 (snd r)) = 5%nat.
Proof. vm_compute. repeat split; reflexivity. Qed.

(* non-vacuity of wills_exactly_once: a binary connection with three wills (lock, lock, unlock of its own hold), closed
   by the client while another connection waits for the held key; everything survives *)
Definition w_binary_ok : list caction :=
  [COpen 2 KBin; CReq 1 (lockc 11 101 7 0 30); CWill 1 (lockc 12 102 8 0 30); CWill 1 (lockc 13 103 9 0 30);
   CWill 1 (unlockc 14 101 7); CReq 2 (lockc 21 201 7 10 30); CClose 1].

Lemma binary_wills_example :
  let r := crun cf_unrepaired (init_cstate 1000000 1) (COpen 1 KBin :: w_binary_ok) in
  cs_dead (fst r) = false /\ cs_stuck (fst r) = [] /\ is_open (cs_conns (fst r)) 1 = false /\
  will_steps 1 (events (snd r)) = [lockc 12 102 8 0 30; lockc 13 103 9 0 30; unlockc 14 101 7] /\
  frame_to 2 2 (events (snd r)) = true.
Proof. vm_compute. repeat split; reflexivity. Qed.

Lemma text_wills_example :
  let r := crun cf_repaired (init_cstate 1000000 1) (COpen 1 KText :: [CWill 1 (lockc 1000001 101 7 0 30); CWill 1 (lockc 1000002 102 8 0 30); CClose 1]) in
  cs_dead (fst r) = false /\ cs_stuck (fst r) = [] /\ is_open (cs_conns (fst r)) 1 = false /\
  will_steps 1 (events (snd r)) = [lockc 1000001 101 7 0 30; lockc 1000002 102 8 0 30].
Proof. vm_compute. repeat split; reflexivity. Qed.

(* ------------------------------------------------------------------ existential forms (used by Properties/C18.v) *)
Lemma text_will_refuted_ex :
  exists acts c,
    let st := fst (crun cf_unrepaired (init_cstate 1000000 1) acts) in
    let ev := events (snd (crun cf_unrepaired (init_cstate 1000000 1) acts)) in
    cs_dead st = false /\ cs_stuck st = [] /\ is_open (cs_conns st) c = false /\
    regs c ev <> [] /\ will_steps c ev = [] /\ wills_of st c <> [].
Proof.
  exists w_text_will, 1. vm_compute.
  repeat split; try reflexivity; intros H; discriminate H.
Qed.

Lemma closed_recursion_refuted_ex :
  exists acts,
    cs_dead (fst (crun cf_unrepaired (init_cstate 1000000 1) acts)) = true /\
    has_crash (events (snd (crun cf_unrepaired (init_cstate 1000000 1) acts))) = true.
Proof. exists w_closed_recursion. vm_compute. split; reflexivity. Qed.

Lemma zero_clientid_refuted_ex :
  exists acts a b,
    let st := fst (crun cf_repaired (init_cstate 1000000 1) acts) in
    let ev := events (snd (crun cf_repaired (init_cstate 1000000 1) acts)) in
    a <> b /\ cs_dead st = false /\ frame_to b a ev = true /\
    k_inited (conn_of (cs_conns st) a) = false /\ regs a ev = [] /\
    (forall cid, ~ In (CInit a cid) acts).
Proof.
  exists w_zero_clientid, 1, 2. vm_compute.
  split; [intros H; discriminate H|]. repeat split; try reflexivity.
  intros cid H. repeat (destruct H as [H|H]; [discriminate H|]). exact H.
Qed.

Lemma text_close_blocks_refuted_ex :
  exists acts c,
    let st := fst (crun cf_text_will_only (init_cstate 1000000 1) acts) in
    let ev := events (snd (crun cf_text_will_only (init_cstate 1000000 1) acts)) in
    cs_dead st = false /\ In c (cs_stuck st) /\ is_open (cs_conns st) c = false /\
    Nat.ltb (length (will_steps c ev)) (length (regs c ev)) = true.
Proof.
  exists w_text_block, 1. vm_compute.
  repeat split; try reflexivity. left; reflexivity.
Qed.
