(* Connection layer on top of the lock-engine model (property C18).
   Mirrors server/protocol.go: BinaryServerProtocol / TextServerProtocol (Close, Init, ProcessCommad WILL cases,
   ProcessLockResultCommand[Locked]), ProxyServerProtocol.ProcessLockResultCommandLocked, SLock.clients; and the
   text handlers commandHandlerLock / commandHandlerUnlock (will registration, lockWaiter hand-over).

   One connection = one number c.  The engine's l_conn (the proxy a lock record points at) is the number of the
   connection that issued the request: every connection owns exactly one proxy (proxys[0]) and adopted proxies keep
   their identity, so "proxy p" and "connection p" share the index.

   Source-derived switches (computed from /repo by checks/C18.py on every run, never chosen by hand):
     fix_will_lock / fix_will_unlock : commandHandlerLock / commandHandlerUnlock rewrite CommandType to LOCK / UNLOCK
                                       before queueing a will (the binary path always does);
     fix_closed_rec : BinaryServerProtocol.ProcessLockResultCommand does not forward to itself when the closed
                      connection is still the one registered under its client id;
     fix_text_closed : TextServerProtocol.ProcessLockResultCommand returns at once on a closed connection instead of
                      pushing the result into lockWaiter;
     chk_addproxy : ProxyServerProtocol.ProcessLockResultCommandLocked re-points the proxy to clients[clientId] only
                      when that connection accepted it (AddProxy returned nil, i.e. it is not closed).

   Databases: only database 0 exists (the lock engine model is one LockDB).  A command carries its DbId (`xcmd`);
   ProcessCommad / ProcessParse answer RESULT_UNKNOWN_DB without entering the engine for DbId 0xff and for an UNLOCK
   naming a database that does not exist (`db_missing`).  Outside the modelled fragment (`modelled`, such actions are
   no-ops and are never generated): a LOCK for a database 1..254 (it would create one), any DbId but 0 on a text
   connection (SELECT). *)
From Coq Require Import String.
From Slock Require Import Engine.Types Engine.Queues Engine.Timers Engine.Engine Engine.Engine2.
Open Scope N_scope.

Inductive kind := KBin | KText.

Record cfg := mkCfg { fix_will_lock : bool; fix_will_unlock : bool; fix_closed_rec : bool; fix_text_closed : bool;
                      chk_addproxy : bool }.

(* a LOCK / UNLOCK command together with the DbId it names *)
Record xcmd := mkX { x_db : N; x_cmd : cmd }.
Definition R_UNKNOWN_DB : N := 3.
Definition db_missing (x : xcmd) : bool :=
  (x_db x =? 255) || (negb (x_db x =? 0) && negb (c_lock (x_cmd x))).

(* per-connection fields written only by open / INIT / Close *)
Record connrec := mkConn {
  k_kind : kind;
  k_open : bool;        (* not closed *)
  k_inited : bool;      (* BinaryServerProtocol.inited *)
  k_cid : N             (* proxys[0].clientId; 0 = the all-zero id of a connection that never sent INIT *)
}.

(* fields written by reply routing *)
Record rstate := mkRs {
  r_target : amap (option N);  (* proxy p -> Some c : p.serverProtocol = connection c; None : defaultServerProtocol *)
  r_await : amap N;            (* text: lockRequestId (0 = none outstanding) *)
  r_chan : amap N              (* text: results sitting unread in lockWaiter (capacity 4) *)
}.

Definition LOCKWAITER_CAP : N := 4.

Definition wcmd := (bool * xcmd)%type.   (* (still WILL-typed?, command) *)

Record cstate := mkCs {
  cs_db : db;
  cs_conns : amap connrec;
  cs_clients : amap N;               (* SLock.clients : client id -> connection *)
  cs_wills : amap (list wcmd);       (* willCommands, registration order *)
  cs_rs : rstate;
  cs_ever : amap (list N);           (* ghost: the client ids each connection has announced (accepted INITs) *)
  cs_dead : bool;                    (* the process died (unbounded recursion) *)
  cs_stuck : list N                  (* connections whose closing goroutine is blocked on lockWaiter *)
}.

Definition init_cstate (t0 : Z) (aoft : N) : cstate :=
  mkCs (init_db t0 aoft) [] [] [] (mkRs [] [] []) [] false [].

Record rep := mkRep { rp_req : N; rp_res : N; rp_lc : N; rp_lrc : N; rp_lockid : N }.

Inductive cevent :=
| CFrame (to origin : N) (r : rep)    (* a lock result reached the client of connection `to`; origin = requester *)
| CDropped (origin : N) (r : rep)
| CSwallowed (c : N) (r : rep)        (* pushed into the lockWaiter of a closing text connection; nobody reads it *)
| CInitOk (c inittype : N)
| CWillOk (c : N)                     (* text "+OK" after a will registration *)
| CEngine (c : N) (will : bool) (cm : xcmd)  (* ghost: db.Lock / db.UnLock entered on behalf of c *)
| CNoDb (c : N) (will : bool) (cm : xcmd)    (* ghost: the LOCK / UNLOCK case answered RESULT_UNKNOWN_DB for c; no engine call *)
| CRequeued (c : N) (cm : xcmd)       (* ghost: Close -> ProcessCommad pushed a WILL-typed command back *)
| CRegistered (c : N) (cm : xcmd)     (* ghost: a will command was accepted into the will queue of c *)
| CCrash (c : N)                      (* unbounded recursion in ProcessLockResultCommand of closed connection c *)
| CBlocked (c : N)                    (* Close of c blocks forever on lockWaiter <- result *)
| CLoopFuel.

Inductive outcome := OOk | OCrash | OBlock.

(* ------------------------------------------------------------------ small accessors *)
Definition conn_of (cs : amap connrec) (c : N) : connrec :=
  match aget cs c with Some k => k | None => mkConn KBin false false 0 end.
Definition is_open (cs : amap connrec) (c : N) : bool :=
  match aget cs c with Some k => k_open k | None => false end.
Definition getN (m : amap N) (c : N) : N := match aget m c with Some v => v | None => 0 end.
Definition evr (m : amap (list N)) (c : N) : list N := match aget m c with Some l => l | None => [] end.

Definition set_target (rs : rstate) (p : N) (t : option N) : rstate :=
  mkRs (aset (r_target rs) p t) (r_await rs) (r_chan rs).
Definition set_await (rs : rstate) (c v : N) : rstate :=
  mkRs (r_target rs) (aset (r_await rs) c v) (r_chan rs).
Definition set_chan (rs : rstate) (c v : N) : rstate :=
  mkRs (r_target rs) (r_await rs) (aset (r_chan rs) c v).

(* ------------------------------------------------------------------ reply routing *)
(* BinaryServerProtocol.ProcessLockResultCommand on object c (protocol.go:1541-1645); the Locked variant is the same
   function (1647-1649).  fuel only bounds the chain of forwards (at most two hops by the clients invariant). *)
Fixpoint bin_result (fuel : nat) (cf : cfg) (cs : amap connrec) (clients : amap N) (c origin : N) (r : rep)
  : list cevent * outcome :=
  match fuel with
  | O => ([CLoopFuel], OOk)
  | S f =>
      let k := conn_of cs c in
      if k_open k then ([CFrame c origin r], OOk)
      else if negb (k_inited k) then ([CDropped origin r], OOk)
      else match aget clients (k_cid k) with
           | None => ([CDropped origin r], OOk)
           | Some c' =>
               if c' =? c then
                 if fix_closed_rec cf then ([CDropped origin r], OOk) else ([CCrash c], OCrash)
               else bin_result f cf cs clients c' origin r
           end
  end.

(* TextServerProtocol.ProcessLockResultCommand (2473-2509): no closed check; zero lockRequestId; lockWaiter <- result *)
Definition text_push (cf : cfg) (cs : amap connrec) (rs : rstate) (c origin : N) (r : rep) : rstate * list cevent * outcome :=
  if negb (is_open cs c) && fix_text_closed cf then (rs, [CDropped origin r], OOk) else
  let rs := set_await rs c 0 in
  if is_open cs c then (rs, [CFrame c origin r], OOk)          (* the handler is parked on <-lockWaiter and writes it out *)
  else if getN (r_chan rs) c <? LOCKWAITER_CAP
  then (set_chan rs c (getN (r_chan rs) c + 1), [CSwallowed c r], OOk)
  else (rs, [CBlocked c], OBlock).

(* X.ProcessLockResultCommandLocked for the connection object c *)
Definition locked_result (cf : cfg) (cs : amap connrec) (clients : amap N) (rs : rstate) (c origin : N) (r : rep)
  : rstate * list cevent * outcome :=
  match k_kind (conn_of cs c) with
  | KBin => let '(ev, o) := bin_result 3 cf cs clients c origin r in (rs, ev, o)
  | KText =>
      (* 2511-2521: dropped unless it answers the outstanding request *)
      if (rp_req r =? getN (r_await rs) c) && negb (getN (r_await rs) c =? 0)
      then text_push cf cs rs c origin r
      else (rs, [CDropped origin r], OOk)
  end.

(* ProxyServerProtocol.ProcessLockResultCommandLocked (163-181) for the proxy of connection p *)
Definition async_result (cf : cfg) (cs : amap connrec) (clients : amap N) (rs : rstate) (p : N) (r : rep)
  : rstate * list cevent * outcome :=
  match aget (r_target rs) p with
  | Some (Some c) => locked_result cf cs clients rs c p r
  | _ =>
      match aget clients (k_cid (conn_of cs p)) with
      | Some c' =>
          (* AddProxy fails on a closed connection; the assignment is guarded by its result (chk_addproxy) *)
          let rs' := if is_open cs c' || negb (chk_addproxy cf) then set_target rs p (Some c') else rs in
          locked_result cf cs clients rs' c' p r
      | None => (rs, [CDropped p r], OOk)
      end
  end.

(* serverProtocol.ProcessLockResultCommand for the requesting object c itself *)
Definition sync_result (cf : cfg) (cs : amap connrec) (clients : amap N) (rs : rstate) (c : N) (r : rep)
  : rstate * list cevent * outcome :=
  match k_kind (conn_of cs c) with
  | KBin => let '(ev, o) := bin_result 3 cf cs clients c c r in (rs, ev, o)
  | KText => text_push cf cs rs c c r
  end.

(* route the replies of one engine step; who = Some (c, req): the step is db.Lock/UnLock called by object c for request
   req -- its own answer takes the synchronous path, everything else goes through the lock's proxy.  Stops at the
   first crash / block (nothing after it happens in that goroutine). *)
Fixpoint route (cf : cfg) (cs : amap connrec) (clients : amap N) (rs : rstate) (who : option (N * N)) (evs : list event)
  : rstate * list cevent * outcome :=
  match evs with
  | [] => (rs, [], OOk)
  | EReply p req res lc lrc lockid _ _ _ :: rest =>
      let r := mkRep req res lc lrc lockid in
      let '(rs1, ev1, o1) :=
        match who with
        | Some (c, q) => if (p =? c) && (req =? q) then sync_result cf cs clients rs c r
                         else async_result cf cs clients rs p r
        | None => async_result cf cs clients rs p r
        end in
      match o1 with
      | OOk => let '(rs2, ev2, o2) := route cf cs clients rs1 who rest in (rs2, ev1 ++ ev2, o2)
      | _ => (rs1, ev1, o1)
      end
  | _ :: rest => route cf cs clients rs who rest
  end.

(* ------------------------------------------------------------------ one db.Lock / db.UnLock call by object c *)
Definition set_db (st : cstate) (d : db) : cstate :=
  mkCs d (cs_conns st) (cs_clients st) (cs_wills st) (cs_rs st) (cs_ever st) (cs_dead st) (cs_stuck st).
Definition set_rs (st : cstate) (rs : rstate) : cstate :=
  mkCs (cs_db st) (cs_conns st) (cs_clients st) (cs_wills st) rs (cs_ever st) (cs_dead st) (cs_stuck st).
Definition set_conns (st : cstate) (cs : amap connrec) : cstate :=
  mkCs (cs_db st) cs (cs_clients st) (cs_wills st) (cs_rs st) (cs_ever st) (cs_dead st) (cs_stuck st).
Definition set_clients (st : cstate) (cl : amap N) : cstate :=
  mkCs (cs_db st) (cs_conns st) cl (cs_wills st) (cs_rs st) (cs_ever st) (cs_dead st) (cs_stuck st).
Definition set_wills (st : cstate) (c : N) (ws : list wcmd) : cstate :=
  mkCs (cs_db st) (cs_conns st) (cs_clients st) (aset (cs_wills st) c ws) (cs_rs st) (cs_ever st) (cs_dead st) (cs_stuck st).
Definition set_dead (st : cstate) : cstate :=
  mkCs (cs_db st) (cs_conns st) (cs_clients st) (cs_wills st) (cs_rs st) (cs_ever st) true (cs_stuck st).
Definition add_ever (st : cstate) (c cid : N) : cstate :=
  mkCs (cs_db st) (cs_conns st) (cs_clients st) (cs_wills st) (cs_rs st) (aset (cs_ever st) c (cid :: evr (cs_ever st) c))
       (cs_dead st) (cs_stuck st).
Definition add_stuck (st : cstate) (c : N) : cstate :=
  mkCs (cs_db st) (cs_conns st) (cs_clients st) (cs_wills st) (cs_rs st) (cs_ever st) (cs_dead st) (c :: cs_stuck st).
Definition wills_of (st : cstate) (c : N) : list wcmd :=
  match aget (cs_wills st) c with Some w => w | None => [] end.

(* the request body and its immediate answer; then (only if that goroutine is still alive) the wake-up pass.
   Lemma exec_is_step (ConnProofs) : without crash/block the engine part is exactly `step db (AReq c cm)`.
   A command naming a missing database is answered RESULT_UNKNOWN_DB on the requester's own (synchronous) path and
   freed; the engine is not entered (ProcessParse / ProcessCommad, cases COMMAND_LOCK and COMMAND_UNLOCK). *)
Definition exec_req (cf : cfg) (st : cstate) (c : N) (x : xcmd) (will : bool) : cstate * list cevent * outcome :=
  let cm := x_cmd x in
  if db_missing x then
    let '(rs1, ce1, o1) := sync_result cf (cs_conns st) (cs_clients st) (cs_rs st) c
                             (mkRep (c_req cm) R_UNKNOWN_DB 0 0 (c_lockid cm)) in
    (set_rs st rs1, CNoDb c will x :: ce1, o1)
  else
  let '(d1, ev1, w) := if c_lock cm then lock_step (cs_db st) c cm else unlock_step (cs_db st) c cm in
  let who := Some (c, c_req cm) in
  let '(rs1, ce1, o1) := route cf (cs_conns st) (cs_clients st) (cs_rs st) who ev1 in
  let st1 := set_rs (set_db st d1) rs1 in
  match o1 with
  | OOk =>
      match w with
      | None => (st1, CEngine c will x :: ce1, OOk)
      | Some wk =>
          let '(d2, ev2) := run_wake (wake_fuel d1 (w_key wk)) d1 wk in
          let '(rs2, ce2, o2) := route cf (cs_conns st) (cs_clients st) rs1 who ev2 in
          (set_rs (set_db st1 d2) rs2, CEngine c will x :: ce1 ++ ce2, o2)
      end
  | _ => (st1, CEngine c will x :: ce1, o1)
  end.

(* ------------------------------------------------------------------ Close: drain the will queue *)
(* returns completed? = the loop ran to its end (no crash, not blocked).  The error ProcessCommad returns (a will whose
   RESULT_UNKNOWN_DB answer could not be written) is discarded by Close: the loop goes on with the next command. *)
Fixpoint run_wills (cf : cfg) (st : cstate) (c : N) (ws : list wcmd) : cstate * list cevent * bool :=
  match ws with
  | [] => (st, [], true)
  | (true, cm) :: rest =>
      (* ProcessCommad, case COMMAND_WILL_LOCK / WILL_UNLOCK: a new queue is created, the type rewritten, pushed *)
      let st' := set_wills st c (wills_of st c ++ [(false, cm)]) in
      let '(st'', ev, ok) := run_wills cf st' c rest in (st'', CRequeued c cm :: ev, ok)
  | (false, cm) :: rest =>
      let '(st', ev, o) := exec_req cf st c cm true in
      match o with
      | OOk => let '(st'', ev', ok) := run_wills cf st' c rest in (st'', ev ++ ev', ok)
      | OCrash => (set_dead st', ev, false)
      | OBlock => (add_stuck st' c, ev, false)
      end
  end.

Definition repoint_all (tg : amap (option N)) (c : N) : amap (option N) :=
  map (fun kv => match snd kv with
                 | Some c' => if c' =? c then (fst kv, None) else kv
                 | None => kv end) tg.

Definition will_typed (cf : cfg) (x : xcmd) : bool :=
  if c_lock (x_cmd x) then negb (fix_will_lock cf) else negb (fix_will_unlock cf).

(* the fragment of (connection kind, command) pairs the model speaks about *)
Definition modelled (k : kind) (x : xcmd) : bool :=
  (x_db x =? 0) || match k with KBin => db_missing x | KText => false end.

(* ------------------------------------------------------------------ actions *)
Inductive caction :=
| COpen (c : N) (k : kind)
| CInit (c cid : N)
| CReq (c : N) (cm : xcmd)
| CWill (c : N) (cm : xcmd)
| CClose (c : N)
| CAdvance (k : Z)
| CSweepT
| CSweepE.

Definition text_busy (st : cstate) (c : N) : bool := negb (getN (r_await (cs_rs st)) c =? 0).

Definition usable (st : cstate) (c : N) : bool :=
  match aget (cs_conns st) c with
  | Some k => k_open k && match k_kind k with KBin => true | KText => negb (text_busy st c) end
  | None => false
  end.

Definition route_sweep (cf : cfg) (st : cstate) (res : db * list event) : cstate * list cevent :=
  let '(d, evs) := res in
  let '(rs, ce, o) := route cf (cs_conns st) (cs_clients st) (cs_rs st) None evs in
  let st' := set_rs (set_db st d) rs in
  (match o with OCrash => set_dead st' | _ => st' end, ce).

Definition cstep (cf : cfg) (st : cstate) (a : caction) : cstate * list cevent :=
  if cs_dead st then (st, []) else
  match a with
  | COpen c k =>
      match aget (cs_conns st) c with
      | Some _ => (st, [])
      | None =>
          let st := set_conns st (aset (cs_conns st) c (mkConn k true false 0)) in
          let st := set_wills st c [] in
          (set_rs st (set_target (cs_rs st) c (Some c)), [])
      end
  | CInit c cid =>
      match aget (cs_conns st) c with
      | Some k =>
          if k_open k && match k_kind k with KBin => true | KText => false end then
            (* Init (739-753) then the INIT case of ProcessCommad (1406-1420) *)
            let cl := if k_inited k
                      then match aget (cs_clients st) (k_cid k) with
                           | Some c' => if c' =? c then adel (cs_clients st) (k_cid k) else cs_clients st
                           | None => cs_clients st end
                      else cs_clients st in
            let ity := match aget cl cid with Some _ => 1 | None => 0 end in
            let st := set_conns st (aset (cs_conns st) c (mkConn (k_kind k) true true cid)) in
            (add_ever (set_clients st (aset cl cid c)) c cid, [CInitOk c ity])
          else (st, [])
      | None => (st, [])
      end
  | CReq c cm =>
      if usable st c && modelled (k_kind (conn_of (cs_conns st) c)) cm then
        let st := match k_kind (conn_of (cs_conns st) c) with
                  | KText => set_rs st (set_await (cs_rs st) c (c_req (x_cmd cm)))   (* lockRequestId = RequestId, 2694 / 2741 *)
                  | KBin => st end in
        let '(st', ev, o) := exec_req cf st c cm false in
        (match o with OCrash => set_dead st' | _ => st' end, ev)
      else (st, [])
  | CWill c cm =>
      if usable st c && modelled (k_kind (conn_of (cs_conns st) c)) cm then
        match k_kind (conn_of (cs_conns st) c) with
        | KBin => (set_wills st c (wills_of st c ++ [(false, cm)]), [CRegistered c cm])           (* 1476-1498 *)
        | KText => (set_wills st c (wills_of st c ++ [(will_typed cf cm, cm)]), [CRegistered c cm; CWillOk c])   (* 2678-2688, 2723-2733 *)
        end
      else (st, [])
  | CClose c =>
      match aget (cs_conns st) c with
      | Some k =>
          if k_open k && match k_kind k with KBin => true | KText => negb (text_busy st c) end then
            (* closed := true; every proxy pointing here -> default protocol; willCommands := nil; drain *)
            let st := set_conns st (aset (cs_conns st) c (mkConn (k_kind k) false (k_inited k) (k_cid k))) in
            let st := set_rs st (mkRs (repoint_all (r_target (cs_rs st)) c) (r_await (cs_rs st)) (r_chan (cs_rs st))) in
            let ws := wills_of st c in
            let st := set_wills st c [] in
            let '(st, ev, completed) := run_wills cf st c ws in
            if completed then
              (* 784-794: unregister the client id if it still maps to this connection (text: nothing) *)
              match k_kind k with
              | KBin =>
                  if k_inited k then
                    let cl := match aget (cs_clients st) (k_cid k) with
                              | Some c' => if c' =? c then adel (cs_clients st) (k_cid k) else cs_clients st
                              | None => cs_clients st end in
                    let st := set_conns st (aset (cs_conns st) c (mkConn KBin false false (k_cid k))) in
                    (set_clients st cl, ev)
                  else (st, ev)
              | KText => (st, ev)
              end
            else (st, ev)
          else (st, [])
      | None => (st, [])
      end
  | CAdvance k => (set_db st (fst (step (cs_db st) (AAdvance k))), [])
  | CSweepT => route_sweep cf st (step (cs_db st) ASweepT)
  | CSweepE => route_sweep cf st (step (cs_db st) ASweepE)
  end.

Fixpoint crun (cf : cfg) (st : cstate) (acts : list caction) : cstate * list (list cevent) :=
  match acts with
  | [] => (st, [])
  | a :: rest => let '(s1, e1) := cstep cf st a in
                 let '(s2, es) := crun cf s1 rest in (s2, e1 :: es)
  end.

(* wrappers for the extracted driver *)
Definition mk_cfg (a b c d e : bool) : cfg := mkCfg a b c d e.
Definition mk_xcmd (db : N) (cm : cmd) : xcmd := mkX db cm.
Definition conn_fields (k : connrec) : bool * bool * bool * N :=
  (match k_kind k with KBin => true | KText => false end, k_open k, k_inited k, k_cid k).
