(* Reply exactness, part 4: from the critical sections to `step` (sequential granularity: a request or a sweep runs
   to completion including its wake-up passes) and to runs.
   A step is a sequence of critical sections; every reply is exact with respect to the state returned by ITS OWN
   critical section, which is in general not the final state of the step:
     - the SUCCED reply of an UnLock carries `locked` as UnLock left it; the wake-up pass that follows may grant
       waiters and raise `locked` again before the step ends (unlock_reply_not_final_state below);
     - every waiter served by the pass gets the counters of the state right after its own grant. *)
From Coq Require Import String ZifyN ZifyBool.
From Slock Require Import Engine.Types Engine.Queues Engine.Timers Engine.Engine Engine.Engine2 Engine.LocalBase
  Engine.LocalC04 Engine.LocalRelease Engine.LocalWake
  Engine.RunReplyBase Engine.RunReplyLock Engine.RunReplyUnlock Engine.RunReplyWake.
Open Scope N_scope.

(* ------------------------------------------------------------------ the wake-up pass as a chain of exact grants *)
Inductive wake_exact (w : wake) : db -> list event -> db -> Prop :=
| we_done s s' : wake_iter s w = (s', [], WDone) -> wake_exact w s [] s'
| we_more s s1 ev1 r ev' s' :
    wake_iter s w = (s1, ev1, WMore) ->
    snd (get_wait_lock s (w_key w)) = Some r ->
    Forall (wro (fst (get_wait_lock s (w_key w))) (w_key w) r s1) ev1 ->
    wake_exact w s1 ev' s' ->
    wake_exact w s (ev1 ++ ev') s'.

Lemma wake_trace_exact s w s' ev : wake_trace s w s' ev -> wake_exact w s ev s'.
Proof.
  induction 1 as [s w s' ev H | s w s1 ev1 s' ev' H _ IH].
  - pose proof (wake_iter_counts _ _ _ _ _ H) as E. cbn in E. subst ev. apply we_done. exact H.
  - destruct (wake_iter_counts _ _ _ _ _ H) as (r & Hr & HF). eapply we_more; eauto.
Qed.

(* what `finish` adds to a critical section *)
Definition pass_exact (w : option wake) (s1 : db) (ev2 : list event) (s2 : db) : Prop :=
  match w with
  | None => ev2 = [] /\ s2 = s1
  | Some wk => wake_exact wk s1 ev2 s2
  end.

Lemma finish_exact s1 ev1 w :
  exists ev2, finish (s1, ev1, w) = (fst (finish (s1, ev1, w)), ev1 ++ ev2)
              /\ pass_exact w s1 ev2 (fst (finish (s1, ev1, w))).
Proof.
  destruct w as [wk|].
  - destruct (finish_some_trace s1 ev1 wk) as (s' & ev' & Hf & Ht & _).
    exists ev'. rewrite Hf. cbn [fst]. split; [reflexivity|]. apply wake_trace_exact. exact Ht.
  - exists []. cbn. rewrite app_nil_r. auto.
Qed.

(* every reply of a pass is a SUCCED reply whose LRCount is the depth of the served waiter in the state returned by
   its own grant: 1 for a new holder, the waiter's unchanged depth for Expried = 0 *)
Lemma wake_exact_replies w : forall s ev s', wake_exact w s ev s' ->
  Forall (fun e => match e with
                   | EReply _ _ res lc lrc _ _ _ _ =>
                       res = R_SUCCED /\ exists s0 s1 r, lc = u16 (mlk s1 (w_key w)) /\ lrc = dep s1 r
                         /\ (lrc = 1 /\ mlk s1 (w_key w) = add32 (mlk s0 (w_key w)) 1
                             \/ lrc = dep s0 r /\ mlk s1 (w_key w) = mlk s0 (w_key w))
                   | _ => True end) ev.
Proof.
  induction 1 as [s s' H | s s1 ev1 r ev' s' H Hr HF _ IH]; [constructor|].
  apply Forall_app. split; [|exact IH].
  eapply Forall_impl; [|exact HF]. intros [] He; simpl in *; auto.
  destruct He as (-> & -> & -> & Hm & Hd). split; [reflexivity|].
  exists (fst (get_wait_lock s (w_key w))), s1, r. split; [reflexivity|]. split; [reflexivity|].
  destruct (0 <? c_expried _); [left|right]; rewrite Hd; auto.
Qed.

(* ------------------------------------------------------------------ a request *)
Definition req_section (s : db) (conn : N) (c : cmd) : db * list event * option wake :=
  if c_lock c then lock_step s conn c else unlock_step s conn c.
Definition req_ok (s : db) (c : cmd) (s1 : db) (e : event) : Prop :=
  if c_lock c then lock_reply_ok s c s1 e else uro s c s1 e.

Theorem step_req_counts s conn c :
  exists s1 ev1 w ev2,
    req_section s conn c = (s1, ev1, w)
    /\ step s (AReq conn c) = (fst (step s (AReq conn c)), ev1 ++ ev2)
    /\ Forall (req_ok s c s1) ev1
    /\ (forall wk, w = Some wk -> w_key wk = c_key c)
    /\ pass_exact w s1 ev2 (fst (step s (AReq conn c))).
Proof.
  unfold req_section, req_ok. cbn [step].
  destruct (c_lock c).
  - destruct (lock_step s conn c) as [[s1 ev1] w] eqn:E.
    destruct (finish_exact s1 ev1 w) as (ev2 & Hf & Hp).
    exists s1, ev1, w, ev2. split; [reflexivity|]. split; [exact Hf|]. split; [eapply lock_step_counts; exact E|].
    split; [|exact Hp]. intros wk Hw. eapply lock_step_wake_key; eauto.
  - destruct (unlock_step s conn c) as [[s1 ev1] w] eqn:E.
    destruct (finish_exact s1 ev1 w) as (ev2 & Hf & Hp).
    exists s1, ev1, w, ev2. split; [reflexivity|]. split; [exact Hf|]. split; [eapply unlock_step_counts; exact E|].
    split; [|exact Hp]. intros wk Hw. eapply unlock_step_wake_key; eauto.
Qed.

(* ------------------------------------------------------------------ the sweeps *)
(* firing the due list: doTimeOut / doExpried of each record followed by its wake-up pass *)
Inductive fire_exact (f : db -> ref -> db * list event * option wake) (Q : db -> ref -> db -> list event -> Prop)
  : db -> list ref -> db -> list event -> Prop :=
| fe_nil s : fire_exact f Q s [] s []
| fe_cons s r rest s1 ev1 w ev2 s2 s3 ev3 :
    f s r = (s1, ev1, w) -> Q s r s1 ev1 ->
    finish (s1, ev1, w) = (s2, ev1 ++ ev2) -> pass_exact w s1 ev2 s2 ->
    fire_exact f Q s2 rest s3 ev3 ->
    fire_exact f Q s (r :: rest) s3 ((ev1 ++ ev2) ++ ev3).

Lemma fire_all_exact f (Q : db -> ref -> db -> list event -> Prop) :
  (forall s r s1 ev1 w, f s r = (s1, ev1, w) -> Q s r s1 ev1) ->
  forall due s, fire_exact f Q s due (fst (fire_all f s due)) (snd (fire_all f s due)).
Proof.
  intros HQ. induction due as [|r rest IH]; intros s; cbn [fire_all].
  - apply fe_nil.
  - destruct (f s r) as [[s1 ev1] w] eqn:E.
    destruct (finish_exact s1 ev1 w) as (ev2 & Hf & Hp).
    destruct (finish (s1, ev1, w)) as [s2 e12] eqn:Ef. cbn [fst] in *.
    specialize (IH s2). destruct (fire_all f s2 rest) as [s3 ev3]. cbn [fst snd] in *.
    apply tuple2_inv in Hf. destruct Hf as [_ Hf]. subst e12.
    eapply fe_cons; eauto.
Qed.

(* the statement about the replies of doTimeOut / doExpried for record r *)
Definition timeout_ok (s : db) (r : ref) (s1 : db) (ev1 : list event) : Prop :=
  match aget (store s) r with
  | Some l => Forall (tro R_TIMEOUT (cancel_val s (l_key l) r) s r (l_key l) s1) ev1
  | None => Forall norep ev1
  end.
Definition expried_ok (s : db) (r : ref) (s1 : db) (ev1 : list event) : Prop :=
  match aget (store s) r with
  | Some l => Forall (tro R_EXPRIED (sub32 (mlk s (l_key l)) (dep s r)) s r (l_key l) s1) ev1
  | None => Forall norep ev1
  end.

Lemma do_timeout_ok s r s1 ev1 w : do_timeout s r = (s1, ev1, w) -> timeout_ok s r s1 ev1.
Proof.
  intros H. unfold timeout_ok. destruct (aget (store s) r) as [l|] eqn:E.
  - eapply do_timeout_counts; eauto.
  - unfold do_timeout in H. rewrite E in H. inv_tuple H. repeat constructor.
Qed.
Lemma do_expried_ok s r s1 ev1 w : do_expried s r = (s1, ev1, w) -> expried_ok s r s1 ev1.
Proof.
  intros H. unfold expried_ok. destruct (aget (store s) r) as [l|] eqn:E.
  - eapply do_expried_counts; eauto.
  - unfold do_expried in H. rewrite E in H. inv_tuple H. repeat constructor.
Qed.

(* the timeout sweep, second by second: collect the due records (no event), fire them *)
Inductive sweep_t_exact : nat -> db -> Z -> Z -> db -> list event -> Prop :=
| st_O s t nowv : sweep_t_exact O s t nowv s []
| st_S n s t nowv s1 due s2 e2 s3 e3 :
    collect_timeouts s t nowv = (s1, due) ->
    fire_exact do_timeout timeout_ok s1 due s2 e2 ->
    sweep_t_exact n s2 (t + 1)%Z nowv s3 e3 ->
    sweep_t_exact (S n) s t nowv s3 (e2 ++ e3).

Lemma sweep_t_secs_exact n : forall s t nowv,
  sweep_t_exact n s t nowv (fst (sweep_t_secs n s t nowv)) (snd (sweep_t_secs n s t nowv)).
Proof.
  induction n as [|n IH]; intros s t nowv; cbn [sweep_t_secs].
  - apply st_O.
  - destruct (collect_timeouts s t nowv) as [s1 due] eqn:E1.
    pose proof (fire_all_exact do_timeout timeout_ok do_timeout_ok due s1) as HF.
    destruct (fire_all do_timeout s1 due) as [s2 e2]. cbn [fst snd] in HF.
    specialize (IH s2 (t + 1)%Z nowv). destruct (sweep_t_secs n s2 (t + 1)%Z nowv) as [s3 e3]. cbn [fst snd] in *.
    eapply st_S; eauto.
Qed.

Theorem step_sweep_t_counts s :
  sweep_t_exact (Z.to_nat (now s + 1 - checkT s)) (s <| checkT := (now s + 1)%Z |>) (checkT s) (now s)
    (fst (step s ASweepT)) (snd (step s ASweepT)).
Proof. cbn [step]. unfold sweep_timeouts. apply sweep_t_secs_exact. Qed.

(* the expiry sweep: collecting may emit log records (no reply) *)
Lemma sweep_e_slot_nr fuel : forall s slot nowv due ev0 s' due' ev,
  sweep_e_slot fuel s slot nowv due ev0 = (s', due', ev) -> Forall norep ev0 -> Forall norep ev.
Proof.
  induction fuel as [|f IH]; intros s slot nowv due ev0 s' due' ev H H0; simpl in H.
  - inv_tuple H. exact H0.
  - repeat (split_hyp H); inv_tuple H; auto.
    all: try (eapply IH; [eassumption|]; try assumption).
    all: apply Forall_app; split; auto; eapply add_expried_nr; eassumption.
Qed.

Lemma collect_expiries_nr s t nowv s' due ev : collect_expiries s t nowv = (s', due, ev) -> Forall norep ev.
Proof.
  unfold collect_expiries. intros H.
  destruct (sweep_e_slot _ _ _ _ _ _) as [[s1 d1] e1] eqn:E1.
  apply sweep_e_slot_nr in E1; [|constructor].
  repeat (split_hyp H); inv_tuple H; auto.
Qed.

Inductive sweep_e_exact : nat -> db -> Z -> Z -> db -> list event -> Prop :=
| se_O s t nowv : sweep_e_exact O s t nowv s []
| se_S n s t nowv s1 due e1 s2 e2 s3 e3 :
    collect_expiries s t nowv = (s1, due, e1) -> Forall norep e1 ->
    fire_exact do_expried expried_ok s1 due s2 e2 ->
    sweep_e_exact n s2 (t + 1)%Z nowv s3 e3 ->
    sweep_e_exact (S n) s t nowv s3 (e1 ++ e2 ++ e3).

Lemma sweep_e_secs_exact n : forall s t nowv,
  sweep_e_exact n s t nowv (fst (sweep_e_secs n s t nowv)) (snd (sweep_e_secs n s t nowv)).
Proof.
  induction n as [|n IH]; intros s t nowv; cbn [sweep_e_secs].
  - apply se_O.
  - destruct (collect_expiries s t nowv) as [[s1 due] e1] eqn:E1.
    pose proof (fire_all_exact do_expried expried_ok do_expried_ok due s1) as HF.
    destruct (fire_all do_expried s1 due) as [s2 e2]. cbn [fst snd] in HF.
    specialize (IH s2 (t + 1)%Z nowv). destruct (sweep_e_secs n s2 (t + 1)%Z nowv) as [s3 e3]. cbn [fst snd] in *.
    eapply se_S; eauto. eapply collect_expiries_nr; exact E1.
Qed.

Theorem step_sweep_e_counts s :
  sweep_e_exact (Z.to_nat (now s + 1 - checkE s)) (s <| checkE := (now s + 1)%Z |>) (checkE s) (now s)
    (fst (step s ASweepE)) (snd (step s ASweepE)).
Proof. cbn [step]. unfold sweep_expiries. apply sweep_e_secs_exact. Qed.

(* ------------------------------------------------------------------ the reply of an UnLock is not about the final state *)
(* holder A (connection 1) unlocks key 7 while B (connection 2) waits: the SUCCED reply to A carries LCount 0, the
   value UnLock left; the wake-up pass of the same step grants B (its reply carries LCount 1), so `locked` is 1 when
   the step ends.  make_cmd islock req flag lockid key tflag timeout eflag expried count rcount data *)
Definition unlock_wake_history : list action :=
  [AReq 1 (make_cmd true 1 0 101 7 0 5 0 10 0 0 None); AReq 2 (make_cmd true 2 0 102 7 0 5 0 10 0 0 None);
   AReq 1 (make_cmd false 3 0 101 7 0 0 0 0 0 0 None)].

Lemma unlock_reply_not_final_state :
  let '(s, evs) := run (init_db 1000000 1) unlock_wake_history in
  last evs [] = [ERelease 7 1 1; EReply 1 3 R_SUCCED 0 0 101 0 0 None;
                 EGrant 7 2 true 0 0 0; EReply 2 2 R_SUCCED 1 1 102 0 0 None]
  /\ mlk s 7 = 1.
Proof. vm_compute. split; reflexivity. Qed.

(* ------------------------------------------------------------------ lifting an event predicate to steps and runs *)
Section LiftAll.
  Variable P : event -> Prop.
  Hypothesis HN : forall e, norep e -> P e.
  Hypothesis H_lock : forall s conn c s' ev w, lock_step s conn c = (s', ev, w) -> Forall P ev.
  Hypothesis H_unlock : forall s conn c s' ev w, unlock_step s conn c = (s', ev, w) -> Forall P ev.
  Hypothesis H_wake : forall s k r via s' ev, wake_grant s k r via = (s', ev) -> Forall P ev.
  Hypothesis H_to : forall s r s' ev w, do_timeout s r = (s', ev, w) -> Forall P ev.
  Hypothesis H_ex : forall s r s' ev w, do_expried s r = (s', ev, w) -> Forall P ev.
  Hypothesis H_ack : forall s r ok s' ev w, do_ack s r ok = (s', ev, w) -> Forall P ev.

  Lemma wake_iter_PA s w s' ev res : wake_iter s w = (s', ev, res) -> Forall P ev.
  Proof.
    unfold wake_iter. intros H.
    destruct (aget (mgrs s) (w_key w)) as [m|]; [|inv_tuple H; constructor].
    destruct (negb (m_waited m)); [inv_tuple H; constructor|].
    destruct (get_wait_lock s (w_key w)) as [s1 wl].
    destruct wl as [r|]; [|inv_tuple H; constructor].
    destruct (negb (do_lock s1 (w_key w) r)); [inv_tuple H; constructor|].
    destruct (wake_grant s1 (w_key w) r (w_conn w)) as [s2 ev2] eqn:E2. inv_tuple H. eapply H_wake; eauto.
  Qed.

  Lemma run_wake_PA fuel : forall s w s' ev, run_wake fuel s w = (s', ev) -> Forall P ev.
  Proof.
    induction fuel as [|f IH]; intros s w s' ev H; simpl in H.
    - inv_tuple H. repeat constructor. apply HN. exact I.
    - destruct (wake_iter s w) as [[s1 e1] res] eqn:E1. apply wake_iter_PA in E1.
      destruct res.
      + inv_tuple H. exact E1.
      + destruct (run_wake f s1 w) as [s2 e2] eqn:E2. inv_tuple H.
        apply Forall_app. split; [exact E1 | eapply IH; eassumption].
  Qed.

  Lemma finish_PA s ev w s' ev' : Forall P ev -> finish (s, ev, w) = (s', ev') -> Forall P ev'.
  Proof.
    intros H0 H. unfold finish in H. destruct w as [w|].
    - destruct (run_wake _ s w) as [s1 e1] eqn:E1. inv_tuple H.
      apply Forall_app. split; [exact H0 | eapply run_wake_PA; eassumption].
    - inv_tuple H. exact H0.
  Qed.

  Lemma fire_all_PA (f : db -> ref -> db * list event * option wake) :
    (forall s r s' ev w, f s r = (s', ev, w) -> Forall P ev) ->
    forall due s s' ev, fire_all f s due = (s', ev) -> Forall P ev.
  Proof.
    intros Hf. induction due as [|r rest IH]; intros s s' ev H; simpl in H.
    - inv_tuple H. constructor.
    - destruct (f s r) as [[s0 e0] w0] eqn:E0.
      destruct (finish (s0, e0, w0)) as [s1 e1] eqn:E1.
      destruct (fire_all f s1 rest) as [s2 e2] eqn:E2. inv_tuple H.
      apply Forall_app. split; [|eapply IH; eassumption].
      eapply finish_PA; [|eassumption]. eapply Hf; eassumption.
  Qed.

  Lemma sweep_t_secs_PA n : forall s t nowv s' ev, sweep_t_secs n s t nowv = (s', ev) -> Forall P ev.
  Proof.
    induction n as [|n IH]; intros s t nowv s' ev H; simpl in H.
    - inv_tuple H. constructor.
    - destruct (collect_timeouts s t nowv) as [s1 due] eqn:E1.
      destruct (fire_all do_timeout s1 due) as [s2 e2] eqn:E2.
      destruct (sweep_t_secs n s2 (t + 1)%Z nowv) as [s3 e3] eqn:E3. inv_tuple H.
      apply Forall_app. split; [|eapply IH; eassumption].
      eapply fire_all_PA; [|eassumption]. exact H_to.
  Qed.

  Lemma sweep_e_secs_PA n : forall s t nowv s' ev, sweep_e_secs n s t nowv = (s', ev) -> Forall P ev.
  Proof.
    induction n as [|n IH]; intros s t nowv s' ev H; simpl in H.
    - inv_tuple H. constructor.
    - destruct (collect_expiries s t nowv) as [[s1 due] e1] eqn:E1.
      destruct (fire_all do_expried s1 due) as [s2 e2] eqn:E2.
      destruct (sweep_e_secs n s2 (t + 1)%Z nowv) as [s3 e3] eqn:E3. inv_tuple H.
      apply Forall_app. split; [apply (norep_impl _ _ HN); eapply collect_expiries_nr; eassumption|].
      apply Forall_app. split; [|eapply IH; eassumption].
      eapply fire_all_PA; [|eassumption]. exact H_ex.
  Qed.

  Lemma step_PA s a : Forall P (snd (step s a)).
  Proof.
    destruct a as [conn c|k| | |r ok|b]; simpl.
    - destruct (c_lock c).
      + destruct (lock_step s conn c) as [[s1 e1] w1] eqn:E1.
        destruct (finish (s1, e1, w1)) as [s2 e2] eqn:E2. simpl.
        eapply finish_PA; [|eassumption]. eapply H_lock; eassumption.
      + destruct (unlock_step s conn c) as [[s1 e1] w1] eqn:E1.
        destruct (finish (s1, e1, w1)) as [s2 e2] eqn:E2. simpl.
        eapply finish_PA; [|eassumption]. eapply H_unlock; eassumption.
    - constructor.
    - unfold sweep_timeouts. destruct (sweep_t_secs _ _ _ _) as [s1 e1] eqn:E1. simpl.
      eapply sweep_t_secs_PA; eassumption.
    - unfold sweep_expiries. destruct (sweep_e_secs _ _ _ _) as [s1 e1] eqn:E1. simpl.
      eapply sweep_e_secs_PA; eassumption.
    - destruct (do_ack s r ok) as [[s1 e1] w1] eqn:E1.
      destruct (finish (s1, e1, w1)) as [s2 e2] eqn:E2. simpl.
      eapply finish_PA; [|eassumption]. eapply H_ack; eassumption.
    - constructor.
  Qed.

  Lemma run_PA acts : forall s, Forall (Forall P) (snd (run s acts)).
  Proof.
    induction acts as [|a rest IH]; intros s; simpl.
    - constructor.
    - pose proof (step_PA s a) as Hs. destruct (step s a) as [s1 e1]. simpl in Hs.
      specialize (IH s1). destruct (run s1 rest) as [s2 es]. simpl in *. constructor; assumption.
  Qed.
End LiftAll.

(* ------------------------------------------------------------------ numeric corollary for all runs *)
(* the result codes a critical section can answer with *)
Definition res_in (l : list N) (e : event) : Prop :=
  match e with EReply _ _ res _ _ _ _ _ _ => In res l | _ => True end.
Lemma res_in_norep l e : norep e -> res_in l e.
Proof. destruct e; simpl; auto; contradiction. Qed.

Lemma lock_step_res s conn c s' ev w :
  lock_step s conn c = (s', ev, w) ->
  Forall (res_in [R_SUCCED; R_LOCKED_ERROR; R_UNOWN_ERROR; R_TIMEOUT; R_STATE_ERROR; R_ACK_WAITING]) ev.
Proof.
  intros H. unfold lock_step in H. cbv beta iota zeta in H.
  Time repeat (split_hyp H); inv_tuple H.
  all: match goal with |- Forall (res_in ?l) _ => assert (HN : forall e, norep e -> res_in l e) by (intros e; apply res_in_norep) end.
  all: nr_solve HN.
  all: cbn; tauto.
Qed.

Lemma do_ack_res s r ok s' ev w :
  do_ack s r ok = (s', ev, w) -> Forall (res_in [R_SUCCED; R_LOCKED_ERROR; R_ERROR]) ev.
Proof.
  intros H. unfold do_ack in H. cbv beta iota zeta in H.
  Time repeat (split_hyp H); inv_tuple H.
  all: match goal with |- Forall (res_in ?l) _ => assert (HN : forall e, norep e -> res_in l e) by (intros e; apply res_in_norep) end.
  all: nr_solve HN.
  all: cbn; tauto.
Qed.

(* a TIMEOUT, EXPRIED or STATE_ERROR reply never addresses a live hold: its LRCount is 0 *)
Definition zero_lrc (e : event) : Prop :=
  match e with
  | EReply _ _ res _ lrc _ _ _ _ => res = R_TIMEOUT \/ res = R_EXPRIED \/ res = R_STATE_ERROR -> lrc = 0
  | _ => True
  end.

Ltac res_cases H := destruct H as [H|[H|H]]; subst.

Theorem zero_lrc_step s a : Forall zero_lrc (snd (step s a)).
Proof.
  apply step_PA.
  - intros [] H; simpl in *; auto; contradiction.
  - intros s0 conn c s' ev w H.
    pose proof (lock_step_res _ _ _ _ _ _ H) as HR. apply lock_step_counts in H.
    apply Forall_forall. intros e He.
    pose proof (proj1 (Forall_forall _ _) HR e He) as R. pose proof (proj1 (Forall_forall _ _) H e He) as C.
    destruct e; simpl in *; auto. intros Hx. destruct C as (_ & _ & C).
    destruct Hx as [Hx|[Hx|Hx]]; subst; try exact C.
    exfalso. cbn in R. repeat (destruct R as [R|R]; [vm_compute in R; discriminate R|]). exact R.
  - intros s0 conn c s' ev w H. apply unlock_step_counts in H.
    eapply Forall_impl; [|exact H]. intros [] C; simpl in *; auto. intros Hx.
    destruct Hx as [Hx|[Hx|Hx]]; subst; cbn in C; tauto.
  - intros s0 k r via s' ev H.
    assert (HR : Forall (res_in [R_SUCCED]) ev).
    { unfold wake_grant in H. cbv beta iota zeta in H. repeat (split_hyp H); inv_tuple H.
      all: assert (HN : forall e, norep e -> res_in [R_SUCCED] e) by (intros e; apply res_in_norep).
      all: nr_solve HN. all: cbn; tauto. }
    eapply Forall_impl; [|exact HR]. intros [] R; simpl in *; auto. intros Hx.
    destruct R as [R|[]]. subst. destruct Hx as [Hx|[Hx|Hx]]; vm_compute in Hx; discriminate Hx.
  - intros s0 r s' ev w H. apply do_timeout_ok in H. unfold timeout_ok in H.
    destruct (aget (store s0) r).
    + eapply Forall_impl; [|exact H]. intros [] C; simpl in *; auto. tauto.
    + eapply Forall_impl; [|exact H]. intros [] C; simpl in *; auto. contradiction.
  - intros s0 r s' ev w H. apply do_expried_ok in H. unfold expried_ok in H.
    destruct (aget (store s0) r).
    + eapply Forall_impl; [|exact H]. intros [] C; simpl in *; auto. tauto.
    + eapply Forall_impl; [|exact H]. intros [] C; simpl in *; auto. contradiction.
  - intros s0 r ok s' ev w H. apply do_ack_res in H.
    eapply Forall_impl; [|exact H]. intros [] R; simpl in *; auto. intros Hx. exfalso.
    destruct Hx as [Hx|[Hx|Hx]]; subst;
      repeat (destruct R as [R|R]; [vm_compute in R; discriminate R|]); exact R.
Qed.

Theorem zero_lrc_run s acts : Forall (Forall zero_lrc) (snd (run s acts)).
Proof.
  revert s. induction acts as [|a rest IH]; intros s; simpl.
  - constructor.
  - pose proof (zero_lrc_step s a) as Hs. destruct (step s a) as [s1 e1]. simpl in Hs.
    specialize (IH s1). destruct (run s1 rest) as [s2 es]. simpl in *. constructor; assumption.
Qed.
