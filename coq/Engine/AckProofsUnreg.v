(* C11, the acknowledgement layer, part 2: registrations dropped by an UNLOCK record (ProcessLeaderPushUnLock,
   `unregister`) and "an acknowledgement only ever answers the request it was registered for".
   (1) the three cases of `unregister`; (2) the index discipline of the layer (every run, no hypothesis): indices are
   issued once, a dropped index never comes back, an acknowledgement event for it does nothing; (3) DoAckLock addresses
   its reply to the connection and RequestId of the record's own command, every state; (4) the run monitor
   `arun_ok2` = `arun_ok` + `reg_sound` (every registered record is allocated and still carries the RequestId it was
   registered under -- what the engine's reference counting is there to guarantee: the acknowledgement path holds a
   reference from AddLock to DoAckLock; it is a HYPOTHESIS here, violated by the re-entrant re-lock finding) and the
   theorem: in such a run an acknowledgement event for registration i answers only the RequestId registered under i. *)
From Coq Require Import String ZifyN ZifyBool ZifyNat.
From Slock Require Import Engine.Types Engine.Queues Engine.Timers Engine.Engine Engine.Engine2 Engine.Ack.
From Slock Require Import Engine.AckProofsBase Engine.AckProofsAck Engine.AckProofsRel Engine.AckProofsGlobal.
Open Scope N_scope.

(* ================================================================== 1. the cases of ProcessLeaderPushUnLock *)
(* the lock object was released before its UNLOCK record was handled (lock.command == nil) *)
Theorem unregister_released : forall st r, aget (store (a_db st)) r = None -> unregister st r = (st, []).
Proof. intros st r H. unfold unregister. cbv zeta. rewrite H. reflexivity. Qed.

(* no registration under the RequestId the lock carries: nothing happens *)
Theorem unregister_unknown : forall st r l,
  aget (store (a_db st)) r = Some l -> reg_find_req (a_reg st) (c_req (l_cmd l)) = None -> unregister st r = (st, []).
Proof. intros st r l H F. unfold unregister. cbv zeta. rewrite H, F. reflexivity. Qed.

(* a registration under that RequestId: it is dropped, DoAckLock(lock, false) runs on the record's lock *)
Theorem unregister_known : forall st r l i r0,
  aget (store (a_db st)) r = Some l -> reg_find_req (a_reg st) (c_req (l_cmd l)) = Some (i, r0) ->
  unregister st r =
    (let '(s', ev) := finish (do_ack (a_db st) r false) in (mkA s' (a_cfg st) (reg_del (a_reg st) i) (a_next st), ev)).
Proof. intros st r l i r0 H F. unfold unregister. cbv zeta. rewrite H, F. reflexivity. Qed.

Lemma reg_find_req_in reg q i r : reg_find_req reg q = Some (i, r) -> In (i, (q, r)) reg.
Proof.
  induction reg as [|[j [q' r']] rest IH]; simpl; [discriminate|]. destruct (q' =? q) eqn:E.
  - intros H. inv H. apply N.eqb_eq in E. subst. left. reflexivity.
  - intros H. right. auto.
Qed.

(* ================================================================== 2. the index discipline *)
Lemma reg_find_del_same reg i : reg_find (reg_del reg i) i = None.
Proof.
  induction reg as [|[j v] rest IH]; simpl; [reflexivity|]. destruct (j =? i) eqn:E; simpl; [exact IH|].
  rewrite E. exact IH.
Qed.

Lemma reg_find_del_none reg i j : reg_find reg j = None -> reg_find (reg_del reg i) j = None.
Proof.
  induction reg as [|[k v] rest IH]; simpl; [reflexivity|]. destruct (k =? j) eqn:E; [discriminate|]. intros H.
  destruct (k =? i); simpl; [auto|]. rewrite E. auto.
Qed.

Lemma reg_find_app_none reg j e : reg_find reg j = None -> fst e <> j -> reg_find (reg ++ [e]) j = None.
Proof.
  induction reg as [|[k v] rest IH]; simpl; intros H Hn.
  - destruct e as [k v]. cbn in Hn. apply N.eqb_neq in Hn. rewrite Hn. reflexivity.
  - destruct (k =? j); [discriminate|]. auto.
Qed.

(* index i was issued and has no registration (any more) *)
Definition gone (st : astate) (i : N) : Prop := i < a_next st /\ reg_find (a_reg st) i = None.

Theorem gone_ack_event : forall st i ok, gone st i -> ack_event st i ok = (st, []).
Proof. intros st i ok [_ H]. apply ack_event_unknown. exact H. Qed.

Lemma register_gone st r st' ev i : gone st i -> register st r = (st', ev) -> gone st' i.
Proof.
  intros [L F] H. unfold register in H. cbv zeta in H. cbn [a_db a_cfg a_reg a_next] in H.
  destruct (aget (store (a_db st)) r); [|inv H; split; cbn; [lia|exact F]].
  match type of H with (if ?c then _ else _) = _ => destruct c end.
  - destruct (finish (do_ack (a_db st) r false)) as [s1 e1]. inv H. split; cbn; [lia|exact F].
  - inv H. split; cbn; [lia|]. apply reg_find_app_none; auto. cbn. lia.
Qed.

Lemma unregister_gone st r st' ev i : gone st i -> unregister st r = (st', ev) -> gone st' i.
Proof.
  intros [L F] H. unfold unregister in H. cbv zeta in H.
  destruct (aget (store (a_db st)) r) as [l|]; [|inv H; split; auto].
  destruct (reg_find_req (a_reg st) (c_req (l_cmd l))) as [[j r0]|]; [|inv H; split; auto].
  destruct (finish (do_ack (a_db st) r false)) as [s1 e1]. inv H. split; cbn; [exact L|apply reg_find_del_none; exact F].
Qed.

Lemma post_go_gone fuel : forall st todo acc st' ev i, gone st i -> post_go fuel st todo acc = (st', ev) -> gone st' i.
Proof.
  induction fuel as [|f IH]; simpl; intros st todo acc st' ev i G H.
  - inv H. exact G.
  - destruct todo as [|e rest]; [inv H; exact G|].
    destruct e; eauto.
    destruct (a_ref r) as [x|]; eauto. destruct (leader (a_db st)); eauto.
    destruct (a_lock r).
    + destruct (register st x) as [st1 e1] eqn:E. eapply IH; [|exact H]. eapply register_gone; eauto.
    + destruct (unregister st x) as [st1 e1] eqn:E. eapply IH; [|exact H]. eapply unregister_gone; eauto.
Qed.

Lemma with_post_gone st reg res st' ev i :
  i < a_next st -> reg_find reg i = None ->
  with_post (mkA (a_db st) (a_cfg st) reg (a_next st)) res = (st', ev) -> gone st' i.
Proof.
  intros L F H. unfold with_post in H. destruct res as [s e]. cbn [a_cfg a_reg a_next] in H.
  eapply post_go_gone; [|exact H]. split; cbn; auto.
Qed.

Lemma ack_event_gone st j ok st' ev i : gone st i -> ack_event st j ok = (st', ev) -> gone st' i.
Proof.
  intros [L F] H. unfold ack_event in H. destruct (reg_find (a_reg st) j) as [[q r]|]; [|inv H; split; auto].
  cbv zeta in H.
  match type of H with (if ?c then _ else _) = _ => destruct c end.
  - eapply (with_post_gone st (reg_del (a_reg st) j)); [exact L|apply reg_find_del_none; exact F|exact H].
  - match type of H with (if ?c then _ else _) = _ => destruct c end.
    + inv H. split; cbn; auto.
    + eapply (with_post_gone st (reg_del (a_reg st) j)); [exact L|apply reg_find_del_none; exact F|exact H].
Qed.

Lemma astep_gone st a st' ev i : gone st i -> astep st a = (st', ev) -> gone st' i.
Proof.
  intros G H. destruct a as [a|j ok]; cbn [astep] in H.
  - destruct G as [L F]. replace st with (mkA (a_db st) (a_cfg st) (a_reg st) (a_next st)) in H at 1 by (destruct st; reflexivity).
    eapply with_post_gone; eauto.
  - eapply ack_event_gone; eauto.
Qed.

Lemma arun_gone acts : forall st i, gone st i -> gone (fst (arun st acts)) i.
Proof.
  induction acts as [|a rest IH]; simpl; intros st i G; [exact G|].
  destruct (astep st a) as [st1 e1] eqn:E. specialize (IH st1 i (astep_gone _ _ _ _ _ G E)).
  destruct (arun st1 rest) as [st2 es]. exact IH.
Qed.

(* every index in the table was issued: every run, no hypothesis *)
Definition idx_ok (st : astate) : Prop := forall e, In e (a_reg st) -> fst e < a_next st.

Lemma register_idx st r st' ev : idx_ok st -> register st r = (st', ev) -> idx_ok st'.
Proof.
  intros I H. unfold register in H. cbv zeta in H. cbn [a_db a_cfg a_reg a_next] in H.
  destruct (aget (store (a_db st)) r); [|inv H; intros e He; specialize (I e He); cbn in *; lia].
  match type of H with (if ?c then _ else _) = _ => destruct c end.
  - destruct (finish (do_ack (a_db st) r false)) as [s1 e1]. inv H. intros e He. specialize (I e He). cbn in *. lia.
  - inv H. intros e He. cbn in *. apply in_app_or in He. destruct He as [He|[<-|[]]]; [specialize (I e He); lia|cbn; lia].
Qed.

Lemma unregister_idx st r st' ev : idx_ok st -> unregister st r = (st', ev) -> idx_ok st'.
Proof.
  intros I H. unfold unregister in H. cbv zeta in H.
  destruct (aget (store (a_db st)) r) as [l|]; [|inv H; auto].
  destruct (reg_find_req (a_reg st) (c_req (l_cmd l))) as [[j r0]|]; [|inv H; auto].
  destruct (finish (do_ack (a_db st) r false)) as [s1 e1]. inv H. intros e He. cbn in *. apply reg_del_in in He. apply I. tauto.
Qed.

Lemma post_go_idx fuel : forall st todo acc st' ev, idx_ok st -> post_go fuel st todo acc = (st', ev) -> idx_ok st'.
Proof.
  induction fuel as [|f IH]; simpl; intros st todo acc st' ev G H.
  - inv H. exact G.
  - destruct todo as [|e rest]; [inv H; exact G|].
    destruct e; eauto.
    destruct (a_ref r) as [x|]; eauto. destruct (leader (a_db st)); eauto.
    destruct (a_lock r).
    + destruct (register st x) as [st1 e1] eqn:E. eapply IH; [|exact H]. eapply register_idx; eauto.
    + destruct (unregister st x) as [st1 e1] eqn:E. eapply IH; [|exact H]. eapply unregister_idx; eauto.
Qed.

Lemma with_post_idx st reg res st' ev :
  (forall e, In e reg -> fst e < a_next st) ->
  with_post (mkA (a_db st) (a_cfg st) reg (a_next st)) res = (st', ev) -> idx_ok st'.
Proof.
  intros I H. unfold with_post in H. destruct res as [s e]. cbn [a_cfg a_reg a_next] in H.
  eapply post_go_idx; [|exact H]. exact I.
Qed.

Lemma astep_idx st a st' ev : idx_ok st -> astep st a = (st', ev) -> idx_ok st'.
Proof.
  intros I H. destruct a as [a|j ok]; cbn [astep] in H.
  - replace st with (mkA (a_db st) (a_cfg st) (a_reg st) (a_next st)) in H at 1 by (destruct st; reflexivity).
    eapply with_post_idx; eauto.
  - unfold ack_event in H. destruct (reg_find (a_reg st) j) as [[q r]|]; [|inv H; auto].
    cbv zeta in H.
    assert (D : forall e, In e (reg_del (a_reg st) j) -> fst e < a_next st).
    { intros e He. apply reg_del_in in He. apply I. tauto. }
    match type of H with (if ?c then _ else _) = _ => destruct c end.
    + eapply (with_post_idx st (reg_del (a_reg st) j)); eauto.
    + match type of H with (if ?c then _ else _) = _ => destruct c end.
      * inv H. exact I.
      * eapply (with_post_idx st (reg_del (a_reg st) j)); eauto.
Qed.

Lemma arun_idx acts : forall st, idx_ok st -> idx_ok (fst (arun st acts)).
Proof.
  induction acts as [|a rest IH]; simpl; intros st G; [exact G|].
  destruct (astep st a) as [st1 e1] eqn:E. specialize (IH st1 (astep_idx _ _ _ _ G E)).
  destruct (arun st1 rest) as [st2 es]. exact IH.
Qed.

Lemma idx_ok_init t0 aoft cfg : idx_ok (init_astate t0 aoft cfg).
Proof. intros e []. Qed.

(* THE UNREGISTRATION THEOREM.  Any state whose table holds issued indices only (every reachable state: arun_idx).  An
   UNLOCK record carrying lock r, whose command's RequestId is registered (under index i, for whichever lock): the
   registration is dropped and DoAckLock(r, false) runs -- and from then on, whatever happens (any continuation of
   the run), an acknowledgement event for index i produces no event and changes nothing. *)
Theorem unlock_record_drops_registration : forall st r l i r0 st' ev,
  idx_ok st ->
  aget (store (a_db st)) r = Some l ->
  reg_find_req (a_reg st) (c_req (l_cmd l)) = Some (i, r0) ->
  unregister st r = (st', ev) ->
  (exists s', finish (do_ack (a_db st) r false) = (s', ev)
              /\ st' = mkA s' (a_cfg st) (reg_del (a_reg st) i) (a_next st))
  /\ reg_find (a_reg st') i = None
  /\ forall acts ok, let st2 := fst (arun st' acts) in ack_event st2 i ok = (st2, []).
Proof.
  intros st r l i r0 st' ev I H F U.
  rewrite (unregister_known _ _ _ _ _ H F) in U.
  destruct (finish (do_ack (a_db st) r false)) as [s1 e1] eqn:E. inv U.
  assert (G : gone (mkA s1 (a_cfg st) (reg_del (a_reg st) i) (a_next st)) i).
  { split; cbn [a_reg a_next]; [|apply reg_find_del_same].
    apply (I (i, (c_req (l_cmd l), r0))). apply reg_find_req_in. exact F. }
  split; [eexists; split; reflexivity|]. split; [apply G|].
  intros acts ok st2. apply gone_ack_event. apply arun_gone. exact G.
Qed.

(* the same for a reachable state *)
Theorem unlock_record_drops_registration_run : forall t0 aoft cfg pre r l i r0 st' ev,
  let st := fst (arun (init_astate t0 aoft cfg) pre) in
  aget (store (a_db st)) r = Some l ->
  reg_find_req (a_reg st) (c_req (l_cmd l)) = Some (i, r0) ->
  unregister st r = (st', ev) ->
  reg_find (a_reg st') i = None
  /\ forall acts ok, let st2 := fst (arun st' acts) in ack_event st2 i ok = (st2, []).
Proof.
  intros t0 aoft cfg pre r l i r0 st' ev st H F U.
  destruct (unlock_record_drops_registration st r l i r0 st' ev) as (_ & A & B); auto.
  apply arun_idx. apply idx_ok_init.
Qed.

(* ================================================================== 3. DoAckLock answers the record's own request *)
Definition reply_for (conn req : N) (e : event) : Prop :=
  match e with EReply c q _ _ _ _ _ _ _ => c = conn /\ q = req | _ => True end.

Lemma ends_with_reply_for ev l res lc lrc d :
  ends_with ev (ack_reply l res lc lrc d) -> Forall (reply_for (l_conn l) (c_req (l_cmd l))) ev.
Proof.
  intros (p & -> & F). apply Forall_app. split.
  - eapply Forall_impl; [|exact F]. intros [] Hn; simpl in *; auto; contradiction.
  - constructor; [|constructor]. unfold ack_reply. simpl. auto.
Qed.

Theorem do_ack_answers_own : forall s r ok l s' ev w,
  aget (store s) r = Some l -> do_ack s r ok = (s', ev, w) ->
  Forall (reply_for (l_conn l) (c_req (l_cmd l))) ev.
Proof.
  intros s r ok l s' ev w E D.
  destruct (N.eq_dec (l_ack l) 255) as [A|A].
  { rewrite (do_ack_none_pending _ _ _ _ E A) in D. inv D. constructor. }
  destruct (l_expried l) eqn:B.
  2:{ destruct (do_ack_stale _ _ _ _ _ _ _ E A (or_introl B) D) as (_ & _ & lc & lrc & d & W).
      eapply ends_with_reply_for; eauto. }
  destruct (N.eq_dec (l_locked l) 0) as [L|L].
  { destruct (do_ack_stale _ _ _ _ _ _ _ E A (or_intror L) D) as (_ & _ & lc & lrc & d & W).
    eapply ends_with_reply_for; eauto. }
  destruct ok.
  2:{ destruct (do_ack_failed _ _ _ _ _ _ E A B L D) as (_ & (lc & lrc & d & W) & _).
      eapply ends_with_reply_for; eauto. }
  destruct (has (c_eflag (l_cmd l)) EF_MILLISECOND) eqn:M.
  { destruct (do_ack_msec _ _ _ _ _ _ E A B L M D) as (-> & _). repeat constructor. }
  destruct (do_ack_succed _ _ _ _ _ _ E A B L M D) as (_ & _ & lc & lrc & d & W).
  eapply ends_with_reply_for; eauto.
Qed.

(* a positive DoAckLock never leaves a wake-up pass pending and pushes LOCK records of its own lock only *)
Definition rec_of (r : ref) (e : event) : Prop :=
  match e with EAof a => a_lock a = true /\ (a_ref a = Some r \/ a_ref a = None) | _ => True end.

Lemma push_lock_aof_rec s k r f s' ev : push_lock_aof s k r f = (s', ev) -> Forall (rec_of r) ev.
Proof.
  unfold push_lock_aof. intros H. repeat (split_hyp H); inv H; try apply Forall_nil.
  apply Forall_cons; [|apply Forall_nil]. unfold rec_of, mk_aofrec. cbn [a_lock a_ref].
  split; [reflexivity|]. destruct (has _ TF_REQUIRE_ACKED); auto.
Qed.

Lemma repeat_push_lock_aof_rec n : forall s k r s' ev, repeat_push_lock_aof n s k r = (s', ev) -> Forall (rec_of r) ev.
Proof.
  induction n as [|n IH]; simpl; intros s k r s' ev H.
  - inv H. constructor.
  - destruct (push_lock_aof s k r 0) as [s1 e1] eqn:E1.
    destruct (repeat_push_lock_aof n s1 k r) as [s2 e2] eqn:E2. inv H.
    apply Forall_app. split; [eapply push_lock_aof_rec; eauto | eapply IH; eauto].
Qed.

Lemma add_expried_rec s k r s' ev : add_expried s k r = (s', ev) -> Forall (rec_of r) ev.
Proof.
  unfold add_expried. intros H.
  match type of H with (if ?c then _ else _) = _ => destruct c end.
  - eapply repeat_push_lock_aof_rec; eauto.
  - inv H. constructor.
Qed.

Lemma Forall_rec_quiet_noaof r ev : Forall (fun e => match e with EAof _ => False | _ => True end) ev -> Forall (rec_of r) ev.
Proof. intros H. eapply Forall_impl; [|exact H]. intros [] Hq; simpl in *; auto; contradiction. Qed.

Lemma do_ack_true_shape : forall s r s' ev w, do_ack s r true = (s', ev, w) -> w = None /\ Forall (rec_of r) ev.
Proof.
  intros s r s' ev w D. unfold do_ack in D.
  destruct (aget (store s) r) as [l|] eqn:E; [|inv D; split; [reflexivity|repeat constructor]].
  cbv zeta in D.
  repeat (split_hyp D); inv D; (split; [reflexivity|]);
    repeat first [ apply Forall_nil
                 | apply Forall_cons; [exact I|]
                 | apply Forall_app; split
                 | eapply add_expried_rec; eassumption ].
Qed.

(* ================================================================== 4. the run monitor and the theorem *)
Definition entry_sound (s : db) (e : N * (N * ref)) : bool :=
  match aget (store s) (snd (snd e)) with Some l => c_req (l_cmd l) =? fst (snd e) | None => false end.
(* every registered record is allocated and carries the RequestId it was registered under *)
Definition reg_sound (st : astate) : bool := forallb (entry_sound (a_db st)) (a_reg st).

Fixpoint arun_ok2 (st : astate) (acts : list aaction) : bool :=
  match acts with
  | [] => true
  | a :: rest => reg_sound st && astep_ok st a && arun_ok2 (fst (astep st a)) rest
  end.

Lemma arun_ok2_ok : forall acts st, arun_ok2 st acts = true -> arun_ok st acts = true.
Proof.
  induction acts as [|a rest IH]; simpl; intros st H; [reflexivity|].
  apply andb_prop in H. destruct H as [H1 H2]. apply andb_prop in H1. destruct H1 as [_ H1]. rewrite H1, (IH _ H2). reflexivity.
Qed.

Lemma arun_ok2_app st a1 a2 : arun_ok2 st (a1 ++ a2) = arun_ok2 st a1 && arun_ok2 (fst (arun st a1)) a2.
Proof.
  revert st. induction a1 as [|a rest IH]; simpl; intros st; [reflexivity|].
  destruct (astep st a) as [st1 e1] eqn:E. cbn [fst]. destruct (arun st1 rest) as [st2 es] eqn:E2. cbn [fst].
  rewrite IH, E2. cbn [fst]. rewrite andb_assoc. reflexivity.
Qed.

Lemma reg_sound_find st i q r :
  reg_sound st = true -> reg_find (a_reg st) i = Some (q, r) ->
  exists l, aget (store (a_db st)) r = Some l /\ c_req (l_cmd l) = q.
Proof.
  intros S F. unfold reg_sound in S. rewrite forallb_forall in S.
  specialize (S _ (reg_find_in _ _ _ F)). unfold entry_sound in S. cbn [fst snd] in S.
  destruct (aget (store (a_db st)) r) as [l|]; [|discriminate]. exists l. split; [reflexivity|]. apply N.eqb_eq. exact S.
Qed.

(* records of a lock that has nothing pending are never (re-)registered in a monitored run: post-processing them is
   the identity (up to the out-of-fuel mark, which the fuel of with_post excludes for them) *)
Lemma post_go_own_records fuel : forall st todo acc r,
  post_ok fuel st todo = true ->
  Forall (rec_of r) todo -> l_ack (getl (a_db st) r) = 255 ->
  post_go fuel st todo acc = (st, acc) \/ post_go fuel st todo acc = (st, acc ++ [EPanic "ack-post-out-of-fuel"%string]).
Proof.
  induction fuel as [|f IH]; simpl; intros st todo acc r OK R A.
  - right. reflexivity.
  - destruct todo as [|e rest]; [left; reflexivity|]. inversion R as [|? ? R1 R2]; subst.
    destruct e; eauto.
    destruct (a_ref r0) as [x|] eqn:Ar; eauto. destruct (leader (a_db st)); eauto.
    cbn in R1. destruct R1 as [Al Rx]. rewrite Ar in Rx. destruct Rx as [Rx|Rx]; [|discriminate]. inv Rx. rewrite Al in *.
    apply andb_prop in OK. destruct OK as [Fr _]. unfold reg_fresh in Fr. apply andb_prop in Fr. destruct Fr as [Fr _].
    apply N.eqb_eq in Fr. rewrite A in Fr. discriminate.
Qed.

Lemma Forall_reply_for_snoc conn q ev s : Forall (reply_for conn q) ev -> Forall (reply_for conn q) (ev ++ [EPanic s]).
Proof. intros H. apply Forall_app. split; [exact H|repeat constructor]. Qed.

(* one acknowledgement event, any state that passes the monitor *)
Theorem ack_event_answers_registered : forall st i ok q r,
  reg_sound st = true -> ack_event_ok st i ok = true ->
  reg_find (a_reg st) i = Some (q, r) ->
  exists l, aget (store (a_db st)) r = Some l /\ c_req (l_cmd l) = q
    (* a positive event: every reply of the whole step goes to the connection and RequestId registered under i *)
    /\ (ok = true -> Forall (reply_for (l_conn l) q) (snd (ack_event st i ok)))
    (* a negative event runs DoAckLock(false) on the registered record: its own reply goes to that request and is
       not SUCCED (what follows in the step is the wake-up pass serving queued requests) *)
    /\ (ok = false ->
        ack_event st i ok = with_post (drop_reg st i) (finish (do_ack (a_db st) r false))
        /\ forall s' ev0 w, do_ack (a_db st) r false = (s', ev0, w) ->
             Forall (reply_for (l_conn l) q) ev0 /\ Forall (fun e => is_succed e = false) ev0).
Proof.
  intros st i ok q r S OK F.
  destruct (reg_sound_find _ _ _ _ S F) as (l & E & Q). exists l. split; [exact E|]. split; [exact Q|]. split.
  - intros ->. unfold ack_event_ok in OK. apply andb_prop in OK. destruct OK as [_ OK]. rewrite F in OK. cbv zeta in OK.
    unfold ack_event. rewrite F. cbv zeta. cbn [negb orb] in *. rewrite (getl_of _ _ _ E) in *.
    destruct (l_ack l =? 255) eqn:A.
    + (* nothing pending on the record: DoAckLock drops a reference, no event *)
      apply N.eqb_eq in A. rewrite (do_ack_none_pending _ _ false _ E A). cbn [finish]. unfold with_post. cbn. constructor.
    + destruct (0 <? dec8 (l_ack l)) eqn:C; [constructor|].
      set (s1 := updl (a_db st) r (fun l0 => l0 <| l_ack := dec8 (l_ack l) |>)) in *.
      set (l1 := l <| l_ack := dec8 (l_ack l) |>).
      assert (E1 : aget (store s1) r = Some l1).
      { unfold s1. rewrite aget_store_updl, N.eqb_refl, E. reflexivity. }
      destruct (do_ack s1 r true) as [[s2 ev] w] eqn:D.
      destruct (do_ack_true_shape _ _ _ _ _ D) as (-> & R). cbn [finish] in *.
      pose proof (do_ack_answers_own _ _ _ _ _ _ _ E1 D) as O. change (l_conn l1) with (l_conn l) in O.
      change (l_cmd l1) with (l_cmd l) in O. rewrite Q in O.
      pose proof (do_ack_done _ _ _ _ _ _ D) as A2.
      unfold with_post, with_post_ok in *. cbn [a_cfg a_reg a_next] in *.
      match goal with |- context [post_go ?fu ?st0 ev ev] =>
        destruct (post_go_own_records fu st0 ev ev r OK R A2) as [P|P]; rewrite P; cbn [snd] end.
      * exact O.
      * apply Forall_reply_for_snoc. exact O.
  - intros ->. split; [eapply ack_event_fails; eauto|].
    intros s' ev0 w D. split.
    + rewrite <- Q. eapply do_ack_answers_own; eauto.
    + apply Forall_forall. intros e He. destruct (is_succed e) eqn:Se; [|reflexivity].
      exfalso. destruct (proj1 (do_ack_succed_iff _ _ _ _ _ _ D)) as [X _]; [exists e; auto|discriminate].
Qed.

(* THE RUN THEOREM.  Every run from the initial state that passes the monitor `arun_ok2`: an acknowledgement event
   for registration i finds the record it was registered for, still carrying the registered RequestId, and answers
   nobody else. *)
Theorem late_ack_never_answers_another_request : forall cfg t0 aoft pre i ok q r,
  arun_ok2 (init_astate t0 aoft cfg) (pre ++ [AAckEvt i ok]) = true ->
  let st := fst (arun (init_astate t0 aoft cfg) pre) in
  reg_find (a_reg st) i = Some (q, r) ->
  exists l, aget (store (a_db st)) r = Some l /\ c_req (l_cmd l) = q
    /\ (ok = true -> Forall (reply_for (l_conn l) q) (snd (ack_event st i ok)))
    /\ (ok = false ->
        ack_event st i ok = with_post (drop_reg st i) (finish (do_ack (a_db st) r false))
        /\ forall s' ev0 w, do_ack (a_db st) r false = (s', ev0, w) ->
             Forall (reply_for (l_conn l) q) ev0 /\ Forall (fun e => is_succed e = false) ev0).
Proof.
  intros cfg t0 aoft pre i ok q r OK st F.
  rewrite arun_ok2_app in OK. apply andb_prop in OK. destruct OK as [_ OK]. fold st in OK. cbn [arun_ok2] in OK.
  apply andb_prop in OK. destruct OK as [OK _]. apply andb_prop in OK. destruct OK as [S A]. cbn [astep_ok] in A.
  eapply ack_event_answers_registered; eauto.
Qed.
