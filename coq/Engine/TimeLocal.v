(* Timer theorems, part 5: local (single critical section) facts for C05 (c),(d) and C06 (c),(d). *)
From Coq Require Import String ZifyN ZifyBool ZifyNat.
From Slock Require Import Engine.Types Engine.Queues Engine.Timers Engine.Engine Engine.Engine2 Engine.TimeBase.
Open Scope N_scope.

(* ------------------------------------------------------------------ C06 (d): CheckLockedEqual *)
Definition eunit (c : cmd) : Z := if has (c_eflag c) EF_MINUTE then 60%Z else 1%Z.

Theorem check_locked_equal_spec s l c :
  check_locked_equal s l c = true <->
  count_equal l c = true /\
  (if has (c_eflag c) EF_UNLIMITED then c_expried c = 65535 \/ l_eT l = MAXT
   else if has (c_eflag c) EF_MILLISECOND then True
   else (Z.abs (expiry_deadline c (now s) - l_eT l) <= eunit c)%Z).
Proof.
  unfold check_locked_equal, expiry_deadline, eunit.
  destruct (has (c_eflag c) EF_UNLIMITED).
  - destruct (c_expried c =? 65535) eqn:E.
    + apply N.eqb_eq in E. intuition.
    + apply N.eqb_neq in E. rewrite andb_true_iff, Z.eqb_eq. intuition.
  - destruct (has (c_eflag c) EF_MILLISECOND); [intuition|].
    rewrite andb_true_iff, Z.leb_le. destruct (has (c_eflag c) EF_MINUTE); intuition.
Qed.

Lemma count_equal_spec l c :
  count_equal l c = true <->
  c_count c = c_count (l_cmd l) /\ c_rcount c = c_rcount (l_cmd l)
  /\ has (c_tflag c) TF_PRIORITY = has (c_tflag (l_cmd l)) TF_PRIORITY.
Proof.
  unfold count_equal. rewrite !andb_true_iff, !N.eqb_eq, Bool.eqb_true_iff. intuition.
Qed.

(* second/minute expiries: "equal" means the new deadline is within one unit of the current one and counts agree *)
Corollary check_locked_equal_within_unit s l c :
  has (c_eflag c) EF_UNLIMITED = false -> has (c_eflag c) EF_MILLISECOND = false ->
  check_locked_equal s l c = true ->
  (Z.abs ((now s + Z.of_N (c_expried c) * eunit c + 1) - l_eT l) <= eunit c)%Z
  /\ c_count c = c_count (l_cmd l) /\ c_rcount c = c_rcount (l_cmd l)
  /\ has (c_tflag c) TF_PRIORITY = has (c_tflag (l_cmd l)) TF_PRIORITY.
Proof.
  intros U M H. apply check_locked_equal_spec in H. rewrite U, M in H. destruct H as [CE D].
  apply count_equal_spec in CE. split; auto.
  unfold expiry_deadline, eunit in *. rewrite U, M in D. destruct (has (c_eflag c) EF_MINUTE); lia.
Qed.

(* ... and then the update is ignored: LOCKED_ERROR, state untouched (request without value frame) *)
Theorem lock_update_equal_ignored s conn c m r :
  has (c_flag c) LOCK_FLAG_CONCURRENT_CHECK && (c_timeout c =? 0) = false ->
  aget (mgrs s) (c_key c) = Some m -> leader s = true -> (0 <? m_locked m) = true ->
  has (c_flag c) LOCK_FLAG_SHOW = false -> get_locked_lock s m (c_lockid c) = Some r ->
  l_ack (getl s r) = 255 -> has (c_flag c) LOCK_FLAG_UPDATE = true -> has_data_flag c = false ->
  check_locked_equal s (getl s r) c = true ->
  lock_step s conn c
  = (s, [reply conn c R_LOCKED_ERROR (m_locked m) (l_locked (getl s r)) (data_of s (c_key c))], None).
Proof.
  intros H1 H2 H3 H4 H5 H6 H7 H8 H9 H10. unfold lock_step. cbv zeta.
  rewrite H1, H2. rewrite (getm_some s (c_key c) m H2) || idtac.
  unfold getm at 1. rewrite H2.
  rewrite H3. cbn [negb andb].
  replace (getm s (c_key c)) with m by (unfold getm; rewrite H2; reflexivity).
  rewrite H4, H5. cbn [andb]. rewrite H6, H7. change (negb (255 =? 255)) with false. cbv iota.
  rewrite H8, H9, H10. cbn [app]. unfold getm. rewrite H2. reflexivity.
Qed.

(* ------------------------------------------------------------------ C06 (c): what doExpried does on a leader *)
Definition mlocked (s : db) (k : N) : N := m_locked (getm s k).
Definition is_aof (e : event) : Prop := match e with EAof _ => True | _ => False end.

Lemma getm_updl s r f k : getm (updl s r f) k = getm s k.
Proof. unfold getm. rewrite updl_mgrs. reflexivity. Qed.

Lemma getm_updm s k f k' : getm (updm s k f) k' = if k =? k' then (match aget (mgrs s) k with Some m => f m | None => new_mgr end) else getm s k'.
Proof.
  unfold getm, updm. destruct (aget (mgrs s) k) eqn:G.
  - unfold setm. match goal with |- context [mgrs (?x <| mgrs := ?y |>)] => change (mgrs (x <| mgrs := y |>)) with y end.
    rewrite aget_aset. destruct (k =? k') eqn:E; auto.
  - destruct (k =? k') eqn:E; auto. apply N.eqb_eq in E; subst k'. rewrite G. reflexivity.
Qed.

Lemma mlocked_updm s k f k' : (forall m, m_locked (f m) = m_locked m) -> mlocked (updm s k f) k' = mlocked s k'.
Proof.
  intros H. unfold mlocked. rewrite getm_updm. destruct (k =? k') eqn:E; auto.
  apply N.eqb_eq in E; subst k'. unfold getm. destruct (aget (mgrs s) k); auto.
Qed.

Lemma mlocked_free_lock s r k : mlocked (free_lock s r) k = mlocked s k.
Proof.
  unfold free_lock. destruct (aget (store s) r); auto. rewrite mlocked_updm; auto.
Qed.

Lemma mlocked_unref s r k : mlocked (unref s r) k = mlocked s k.
Proof.
  unfold unref. destruct (aget (store s) r); auto. destruct (dec8 (l_refc l) =? 0); [rewrite mlocked_free_lock|]; reflexivity.
Qed.

Lemma mlocked_promote fuel : forall s q k, mlocked (fst (fst (promote fuel s q))) k = mlocked s k.
Proof.
  induction fuel as [|f IH]; intros s q k; cbn; auto.
  destruct (hq_pop q) as [[r|] q']; cbn; auto.
  destruct (0 <? l_locked (getl s r)); cbn; auto. rewrite IH. apply mlocked_unref.
Qed.

Lemma mlocked_drop fuel : forall s q k, mlocked (fst (drop_dead_heads fuel s q)) k = mlocked s k.
Proof.
  induction fuel as [|f IH]; intros s q k; cbn; auto.
  destruct (hq_head q) as [r|]; cbn; auto.
  destruct (0 <? l_locked (getl s r)); cbn; auto. destruct (hq_pop q) as [o q']. rewrite IH. apply mlocked_unref.
Qed.

Lemma mlocked_updl s r f k : mlocked (updl s r f) k = mlocked s k.
Proof. unfold mlocked. rewrite getm_updl. reflexivity. Qed.

Lemma mlocked_remove_lock s k r k' : mlocked (remove_lock s k r) k' = mlocked s k'.
Proof.
  unfold remove_lock. cbv zeta.
  destruct (match m_cur (getm _ k) with Some c => c =? r | None => false end).
  - destruct (m_locks (getm _ k)) as [q|].
    + match goal with |- context [promote ?f ?a ?b] =>
        pose proof (mlocked_promote f a b k') as P; destruct (promote f a b) as [[s' q'] nc] end.
      cbn [fst] in P. rewrite mlocked_updm; auto. rewrite P, !mlocked_updl. reflexivity.
    + rewrite mlocked_updm; auto. rewrite !mlocked_updl. reflexivity.
  - destruct (m_locks (getm _ k)) as [q|]; [|apply mlocked_updl].
    match goal with |- context [drop_dead_heads ?f ?a ?b] =>
      pose proof (mlocked_drop f a b k') as P; destruct (drop_dead_heads f a b) as [s' q'] end.
    cbn [fst] in P. rewrite mlocked_updm; auto. rewrite P, mlocked_updl. reflexivity.
Qed.

Lemma push_unlock_aof_spec s k r lc uc ia fl k' :
  mlocked (fst (push_unlock_aof s k r lc uc ia fl)) k' = mlocked s k'
  /\ Forall is_aof (snd (push_unlock_aof s k r lc uc ia fl)).
Proof.
  unfold push_unlock_aof. destruct (negb (leader s)); [split; [reflexivity|constructor]|].
  destruct (match uc with Some u => has (c_flag u) UNLOCK_FLAG_FROM_AOF | None => false end).
  { cbn [fst snd]. rewrite mlocked_updl. split; [reflexivity|constructor]. }
  destruct (aof_lock_data false (m_data (getm s k)) (l_data (getl s r))) as [[d cur'] ld']. cbn [fst snd].
  rewrite !mlocked_updl, mlocked_updm; auto. split; auto. repeat constructor.
Qed.

Lemma mlocked_remove_mgr s k k' :
  mlocked (remove_mgr_if_unref s k) k' = mlocked s k' \/ (k' = k /\ aget (mgrs (remove_mgr_if_unref s k)) k = None).
Proof.
  unfold remove_mgr_if_unref. destruct (aget (mgrs s) k) eqn:G; auto. destruct (m_ref m =? 0); auto.
  destruct (N.eq_dec k' k) as [->|NE].
  - right. split; auto. cbn. apply aget_adel_same.
  - left. unfold mlocked, getm. cbn. rewrite aget_adel_other; auto.
Qed.

(* C06 (c) *)
Theorem do_expried_leader s r l m :
  aget (store s) r = Some l -> l_expried l = false -> leader s = true -> aget (mgrs s) (l_key l) = Some m ->
  exists s' aev lc lrc d,
    do_expried s r = (s', [ERelease (l_key l) r (l_locked l)] ++ aev ++ [reply (l_conn l) (l_cmd l) R_EXPRIED lc lrc d],
                      Some (mkWake (l_key l) None))
    /\ Forall is_aof aev
    /\ (mlocked s' (l_key l) = sub32 (mlocked s (l_key l)) (l_locked l) \/ aget (mgrs s') (l_key l) = None)
    /\ (forall k', k' <> l_key l -> mlocked s' k' = mlocked s k')
    /\ lc = mlocked s' (l_key l).
Proof.
  intros G E L GM. unfold do_expried. rewrite G, E, L. cbn [negb andb]. cbv zeta.
  set (k := l_key l).
  set (s1 := updm (updl s r (fun l0 => l0 <| l_expried := true |>)) k (fun m => m <| m_locked := sub32 (m_locked m) (l_locked l) |>)).
  assert (forall k', mlocked s1 k' = if k =? k' then (match aget (mgrs s) k with Some m => sub32 (m_locked m) (l_locked l) | None => 0 end) else mlocked s k') as M1.
  { intros k'. unfold s1, mlocked. rewrite getm_updm, updl_mgrs. destruct (k =? k'); [|rewrite getm_updl; reflexivity].
    destruct (aget (mgrs s) k); reflexivity. }
  match goal with |- context [if ?b then push_unlock_aof ?a1 ?a2 ?a3 ?a4 ?a5 ?a6 ?a7 else (?x, [])] =>
    assert (exists s2 aev, (if b then push_unlock_aof a1 a2 a3 a4 a5 a6 a7 else (x, [])) = (s2, aev)
                           /\ Forall is_aof aev /\ forall k', mlocked s2 k' = mlocked s1 k') as (s2 & aev & E2 & FA & M2)
  end.
  { destruct (l_isaof _).
    - match goal with |- context [push_unlock_aof ?a1 ?a2 ?a3 ?a4 ?a5 ?a6 ?a7] =>
        pose proof (fun k' => push_unlock_aof_spec a1 a2 a3 a4 a5 a6 a7 k') as P;
        destruct (push_unlock_aof a1 a2 a3 a4 a5 a6 a7) as [s2 aev] end.
      exists s2, aev. split; auto. split; [apply (P 0)|intros k'; apply (P k')].
    - exists s1, []. auto. }
  fold s1. rewrite E2.
  set (s3 := remove_lock s2 k r).
  assert (forall k', mlocked s3 k' = mlocked s1 k') as M3 by (intros k'; unfold s3; rewrite mlocked_remove_lock; auto).
  set (s4 := unref s3 r).
  assert (forall k', mlocked s4 k' = mlocked s1 k') as M4 by (intros k'; unfold s4; rewrite mlocked_unref; auto).
  match goal with |- context [bump ?f ?x] => set (s5 := x) end.
  eexists _, aev, _, _, _. split; [reflexivity|]. split; auto.
  assert (forall k', mlocked (bump (fun n => n <| n_locked := (n_locked n - Z.of_N (l_locked l))%Z |> <| n_expried := (n_expried n + 1)%Z |>) s5) k' = mlocked s5 k') as MB by reflexivity.
  assert (mgrs (bump (fun n => n <| n_locked := (n_locked n - Z.of_N (l_locked l))%Z |> <| n_expried := (n_expried n + 1)%Z |>) s5) = mgrs s5) as GB by reflexivity.
  assert (forall k', mlocked s5 k' = mlocked s4 k' \/ (k' = k /\ aget (mgrs s5) k = None)) as M5.
  { intros k'. unfold s5. destruct (match aget (store s4) r with None => true | Some _ => false end); auto.
    apply mlocked_remove_mgr. }
  split; [|split].
  - rewrite MB, GB. destruct (M5 k) as [E5|[_ E5]]; auto. left. rewrite E5, M4, M1, N.eqb_refl.
    unfold mlocked, getm. fold k in GM. rewrite GM. reflexivity.
  - intros k' NE. rewrite MB. destruct (M5 k') as [E5|[E5 _]]; [|congruence]. rewrite E5, M4, M1.
    destruct (k =? k') eqn:EQ; auto. apply N.eqb_eq in EQ. congruence.
  - reflexivity.
Qed.

(* ------------------------------------------------------------------ C05 (d): tombstones *)
(* doTimeOut on a tombstoned record (granted, cancelled or already timed out) answers nothing *)
Theorem do_timeout_tombstone s r l :
  aget (store s) r = Some l -> l_timeouted l = true ->
  snd (fst (do_timeout s r)) = [] /\ snd (do_timeout s r) = None.
Proof. intros G T. unfold do_timeout. rewrite G, T. split; reflexivity. Qed.

