(* Run-level theorems, part 1 (property C05 (b) / C06): under the heap invariant of Engine/Inv*.v the timeout sweep and
   the expiry sweep emit NO `EPanic` value at all: no use-after-free in doTimeOut / doExpried ("uaf:..."), no wake-up
   pass running out of fuel, no unmodelled millisecond branch, no value-layer crash.  This discharges the hypothesis
   `~ has_panic (snd (sweep_timeouts s))` of the C05 (b) theorems (Engine/Time*.v) for reachable states.
   Structure: one lemma per critical section under `GInv s (gk xt xe k)` (the invariant between two critical sections,
   with the references the sweepers hold), chained exactly like the `*_ginv` lemmas of InvSteps / InvUnlock / InvSweep. *)
From Coq Require Import String ZifyN ZifyBool ZifyNat.
From Slock Require Import Engine.Types Engine.Queues Engine.Timers Engine.Engine Engine.Engine2 Engine.InvDef Engine.InvBase
  Engine.InvPrims Engine.InvRec Engine.InvWheel Engine.InvQueue Engine.InvQueue2 Engine.InvSteps Engine.InvLockDefs Engine.InvLock
  Engine.InvUnlock Engine.InvSweep Engine.InvMain Engine.InvProps.
From Slock Require Engine.LocalBase Engine.LocalWake.
Open Scope N_scope.

(* ---------------------------------------------------------------- events that are not a panic value *)
Definition np (e : event) : Prop := match e with EPanic _ => False | _ => True end.

Lemma only_aof_np ev : LocalBase.only_aof ev -> Forall np ev.
Proof. intros H. eapply Forall_impl; [|exact H]. intros []; simpl; auto. Qed.

Lemma add_expried_np s k r : Forall np (snd (add_expried s k r)).
Proof.
  destruct (add_expried s k r) as [s' ev] eqn:E. apply only_aof_np. eapply LocalBase.add_expried_only_aof; eauto.
Qed.
Lemma push_lock_aof_np s k r f : Forall np (snd (push_lock_aof s k r f)).
Proof.
  destruct (push_lock_aof s k r f) as [s' ev] eqn:E. apply only_aof_np. eapply LocalBase.push_lock_aof_only_aof; eauto.
Qed.
Lemma push_unlock_aof_np s k r lc uc b f : Forall np (snd (push_unlock_aof s k r lc uc b f)).
Proof.
  destruct (push_unlock_aof s k r lc uc b f) as [s' ev] eqn:E. apply only_aof_np.
  eapply LocalBase.push_unlock_aof_only_aof; eauto.
Qed.

Lemma np_reply conn c a b d e : np (reply conn c a b d e).  Proof. exact I. Qed.

Lemma process_data_none s k r c b : c_data c = None -> process_data s k r c b = (s, []).
Proof. unfold process_data. intros ->. reflexivity. Qed.

(* ---------------------------------------------------------------- one grant of the wake-up pass (any state) *)
Lemma wake_grant_np s k r via : cmd_core (l_cmd (getl s r)) -> Forall np (snd (wake_grant s k r via)).
Proof.
  intros (Hack & Hms & Hems & Hd). unfold wake_grant. rewrite Hack. cbn [andb]. cbv zeta.
  rewrite Hems.
  match goal with |- context [if l_long ?l then remove_long_timeout ?a r else ?b] =>
    set (s1 := if l_long l then remove_long_timeout a r else b) end.
  destruct (0 <? c_expried (l_cmd (getl s r))).
  - destruct (has_data_flag (l_cmd (getl s r))).
    + rewrite process_data_none by exact Hd.
      match goal with |- context [add_expried ?a ?b ?c] => pose proof (add_expried_np a b c) as A; destruct (add_expried a b c) as [s2 aev] end.
      cbn [snd] in *. repeat (apply Forall_app; split); auto; repeat constructor.
    + match goal with |- context [add_expried ?a ?b ?c] => pose proof (add_expried_np a b c) as A; destruct (add_expried a b c) as [s2 aev] end.
      cbn [snd] in *. repeat (apply Forall_app; split); auto; repeat constructor.
  - destruct (has_data_flag (l_cmd (getl s r))).
    + rewrite process_data_none by exact Hd.
      match goal with |- context [if ?c then _ else _] => destruct c end.
      * match goal with |- context [push_lock_aof ?a ?b ?c ?d] => pose proof (push_lock_aof_np a b c d) as A; destruct (push_lock_aof a b c d) as [s2 aev] end.
        cbn [snd] in *. repeat (apply Forall_app; split); auto; repeat constructor.
      * cbn [snd]. repeat constructor.
    + cbn [snd]. repeat constructor.
Qed.

(* ---------------------------------------------------------------- one iteration of the pass, between critical sections *)
Lemma wake_iter_np s xt xe k w : GInv s (gk xt xe k) -> w_key w = k -> Forall np (snd (fst (wake_iter s w))).
Proof.
  intros G Hw. unfold wake_iter. rewrite Hw. destruct (aget (mgrs s) k) as [m|] eqn:Hm; [|constructor].
  destruct (negb (m_waited m)); [constructor|].
  pose proof (get_wait_lock_ginv s (gk xt xe k) k G) as P.
  destruct (get_wait_lock s k) as [s1 wl]. destruct P as [G1 [LF [_ [_ [_ P4]]]]]; auto.
  destruct wl as [r|]; [|constructor].
  destruct P4 as [Hin [l [Hr Ht]]].
  destruct (negb (do_lock s1 k r)); [constructor|].
  pose proof (wake_grant_np s1 k r (w_conn w)) as A.
  rewrite (getl_some _ _ _ Hr) in A. specialize (A (ro_cmd _ _ _ _ (gi_rec _ _ G1 r l Hr))).
  destruct (wake_grant s1 k r (w_conn w)) as [s2 ev]. exact A.
Qed.

Lemma wake_trace_np s w s' ev : LocalWake.wake_trace s w s' ev ->
  forall xt xe k, GInv s (gk xt xe k) -> w_key w = k -> Forall np ev.
Proof.
  induction 1 as [s w s' ev H | s w s1 ev1 s' ev' H _ IH]; intros xt xe k G Hw.
  - pose proof (wake_iter_np s xt xe k w G Hw) as A. rewrite H in A. exact A.
  - pose proof (wake_iter_np s xt xe k w G Hw) as A. pose proof (wake_iter_ginv s xt xe k w G Hw) as G1.
    rewrite H in A, G1. cbn [fst snd] in *. apply Forall_app. split; [exact A|]. eapply IH; eauto.
Qed.

Lemma finish_np s ev w xt xe k : GInv s (gk xt xe k) -> (forall w0, w = Some w0 -> w_key w0 = k) -> Forall np ev ->
  Forall np (snd (finish (s, ev, w))).
Proof.
  intros G Hw Hev. destruct w as [w0|]; [|exact Hev].
  destruct (LocalWake.finish_some_trace s ev w0) as (s' & ev' & E & T & _). rewrite E. cbn [snd].
  apply Forall_app. split; [exact Hev|]. eapply wake_trace_np; eauto.
Qed.

(* ---------------------------------------------------------------- doTimeOut on a reference held by the sweeper *)
Lemma do_timeout_np s xe k0 r rest : GInv s (gk (r :: rest) xe k0) -> Forall np (snd (fst (do_timeout s r))).
Proof.
  intros G. destruct (stored_of_xt s _ r rest G eq_refl) as [l Hr].
  unfold do_timeout. rewrite Hr. destruct (l_timeouted l) eqn:Et; [constructor|].
  destruct (gi_rec _ _ G r l Hr) as [A1 A2 A3 A4 A5 A6 A7 A8 A9 A10 A11].
  destruct (A6 Et) as [Q1 [Q2 [Q3 Q4]]].
  cbv zeta. rewrite Q3. change (0 <? 0) with false. cbv iota.
  destruct (get_wait_lock _ (l_key l)) as [s2 w]. cbn [fst snd app]. repeat constructor.
Qed.

(* ---------------------------------------------------------------- doExpried on a reference held by the sweeper *)
Lemma do_expried_np s xt k0 r rest : GInv s (gk xt (r :: rest) k0) -> Forall np (snd (fst (do_expried s r))).
Proof.
  intros G. destruct (stored_of_xe s _ r rest G eq_refl) as [l Hr].
  unfold do_expried. rewrite Hr. destruct (l_expried l); [constructor|].
  destruct (negb (leader s) && l_isaof l && _).
  - cbv zeta. match goal with |- context [add_expried ?a ?b ?c] => pose proof (add_expried_np a b c) as A; destruct (add_expried a b c) as [s2 aev] end.
    exact A.
  - cbv zeta.
    match goal with |- context [if l_isaof ?x then push_unlock_aof ?a ?b ?c ?d ?e ?f ?g else _] =>
      pose proof (push_unlock_aof_np a b c d e f g) as A; destruct (l_isaof x); [destruct (push_unlock_aof a b c d e f g) as [s2 aev]|] end.
    + cbn [fst snd] in *. apply Forall_cons; [exact I|]. apply Forall_app. split; [exact A|]. repeat constructor.
    + cbn [fst snd app]. repeat constructor.
Qed.

(* ---------------------------------------------------------------- firing the due lists *)
Lemma fire_all_t_np due : forall s xe k, GInv s (gk due xe k) -> Forall np (snd (fire_all do_timeout s due)).
Proof.
  induction due as [|r rest IH]; intros s xe k G; simpl; [constructor|].
  destruct (do_timeout_ginv s xe k r rest G) as [k1 [G1 Hw]].
  pose proof (do_timeout_np s xe k r rest G) as A.
  destruct (do_timeout s r) as [[s1 e1] w] eqn:Ed. cbn [fst snd] in *.
  pose proof (finish_ginv s1 e1 w rest xe k1 G1 Hw) as G2.
  pose proof (finish_np s1 e1 w rest xe k1 G1 Hw A) as A2.
  destruct (finish (s1, e1, w)) as [s2 e2]. cbn [fst snd] in *.
  specialize (IH s2 xe k1 G2). destruct (fire_all do_timeout s2 rest) as [s3 e3]. cbn [snd] in *.
  apply Forall_app. split; auto.
Qed.

Lemma fire_all_e_np due : forall s xt k, GInv s (gk xt due k) -> Forall np (snd (fire_all do_expried s due)).
Proof.
  induction due as [|r rest IH]; intros s xt k G; simpl; [constructor|].
  destruct (do_expried_ginv s xt k r rest G) as [k1 [G1 Hw]].
  pose proof (do_expried_np s xt k r rest G) as A.
  destruct (do_expried s r) as [[s1 e1] w] eqn:Ed. cbn [fst snd] in *.
  pose proof (finish_ginv s1 e1 w xt rest k1 G1 Hw) as G2.
  pose proof (finish_np s1 e1 w xt rest k1 G1 Hw A) as A2.
  destruct (finish (s1, e1, w)) as [s2 e2]. cbn [fst snd] in *.
  specialize (IH s2 xt k1 G2). destruct (fire_all do_expried s2 rest) as [s3 e3]. cbn [snd] in *.
  apply Forall_app. split; auto.
Qed.

(* the collecting half of the expiry sweeper only emits log records (re-arming a hold may persist it) *)
Lemma sweep_e_slot_np fuel : forall s slot nowv due ev,
  Forall np ev -> Forall np (snd (sweep_e_slot fuel s slot nowv due ev)).
Proof.
  induction fuel as [|f IH]; intros s slot nowv due ev Hev; simpl; [exact Hev|].
  destruct (wheel_get (ewheel s) slot) as [|r rest]; [exact Hev|].
  cbv zeta.
  match goal with |- context [match aget (store ?x) r with None => true | Some _ => false end] =>
    destruct (match aget (store x) r with None => true | Some _ => false end) end; [exact Hev|].
  match goal with |- context [negb (l_expried ?x)] => destruct (negb (l_expried x)) end.
  - match goal with |- context [(nowv <? ?x)%Z] => destruct (nowv <? x)%Z end.
    + match goal with |- context [add_expried ?a ?b ?c] => pose proof (add_expried_np a b c) as A; destruct (add_expried a b c) as [s2 aev] end.
      cbn [snd] in A. apply IH. apply Forall_app. split; auto.
    + apply IH. exact Hev.
  - apply IH. exact Hev.
Qed.

Lemma collect_expiries_np s t nowv : Forall np (snd (collect_expiries s t nowv)).
Proof.
  unfold collect_expiries.
  pose proof (sweep_e_slot_np (10 * length (wheel_get (ewheel s) (slot_of t)) + 10) s (slot_of t) nowv [] [] (Forall_nil _)) as A.
  destruct (sweep_e_slot _ s (slot_of t) nowv [] []) as [[s1 due] ev]. cbn [snd] in A.
  destruct (aget (elong s1) (lkey t)) as [items|]; [|exact A].
  destruct (sweep_long _ items false due) as [s2 due2]. exact A.
Qed.

(* ---------------------------------------------------------------- the sweeps *)
Lemma sweep_t_secs_np n : forall s t nowv, Inv s -> Forall np (snd (sweep_t_secs n s t nowv)).
Proof.
  induction n as [|n IH]; intros s t nowv G; simpl; [constructor|].
  pose proof (collect_timeouts_ginv s [] 0 t nowv (inv_gk s 0 G)) as G1.
  destruct (collect_timeouts s t nowv) as [s1 due]. cbn [fst snd] in G1.
  destruct (fire_all_t_ginv due s1 [] 0 G1) as [k' G2].
  pose proof (fire_all_t_np due s1 [] 0 G1) as A.
  destruct (fire_all do_timeout s1 due) as [s2 e2]. cbn [fst snd] in *.
  specialize (IH s2 (t + 1)%Z nowv (gk_inv s2 k' G2)).
  destruct (sweep_t_secs n s2 (t + 1)%Z nowv) as [s3 e3]. cbn [snd] in *. apply Forall_app. split; auto.
Qed.

Lemma sweep_e_secs_np n : forall s t nowv, Inv s -> Forall np (snd (sweep_e_secs n s t nowv)).
Proof.
  induction n as [|n IH]; intros s t nowv G; simpl; [constructor|].
  pose proof (collect_expiries_ginv s [] 0 t nowv (inv_gk s 0 G)) as G1.
  pose proof (collect_expiries_np s t nowv) as A0.
  destruct (collect_expiries s t nowv) as [[s1 due] e1]. cbn [fst snd] in G1, A0.
  destruct (fire_all_e_ginv due s1 [] 0 G1) as [k' G2].
  pose proof (fire_all_e_np due s1 [] 0 G1) as A.
  destruct (fire_all do_expried s1 due) as [s2 e2]. cbn [fst snd] in *.
  specialize (IH s2 (t + 1)%Z nowv (gk_inv s2 k' G2)).
  destruct (sweep_e_secs n s2 (t + 1)%Z nowv) as [s3 e3]. cbn [snd] in *.
  apply Forall_app. split; auto. apply Forall_app. split; auto.
Qed.

Theorem sweep_timeouts_np s : Inv s -> Forall np (snd (sweep_timeouts s)).
Proof. intros G. unfold sweep_timeouts. apply sweep_t_secs_np. apply (inv_scalar s); auto. Qed.

Theorem sweep_expiries_np s : Inv s -> Forall np (snd (sweep_expiries s)).
Proof. intros G. unfold sweep_expiries. apply sweep_e_secs_np. apply (inv_scalar s); auto. Qed.

(* in the vocabulary of the timer theorems *)
Lemma np_no_panic ev : Forall np ev -> forall site, ~ In (EPanic site) ev.
Proof. intros H site Hi. rewrite Forall_forall in H. exact (H _ Hi). Qed.

(* ---------------------------------------------------------------- requests: Lock / UnLock of the core subset (any state) *)
Import LocalBase.

Lemma update_and_rearm_np s k r c s' ev :
  has (c_eflag c) EF_MILLISECOND = false -> update_and_rearm s k r c = (s', ev) -> Forall np ev.
Proof.
  intros Hems H. unfold update_and_rearm in H. rewrite Hems in H. cbn [negb] in H.
  repeat (split_hyp H); inv_tuple H; try constructor.
  match goal with E : add_expried _ _ _ = (_, ?e) |- _ => apply only_aof_np; eapply add_expried_only_aof; exact E end.
Qed.

Ltac np_solve :=
  repeat (first [apply Forall_app; split | apply Forall_cons | apply Forall_nil]);
  try exact I;
  try solve [ apply only_aof_np; eapply push_lock_aof_only_aof; eassumption
            | apply only_aof_np; eapply push_unlock_aof_only_aof; eassumption
            | apply only_aof_np; eapply add_expried_only_aof; eassumption
            | eapply update_and_rearm_np; [|eassumption]; assumption ].

(* process_data on a command without value frame *)
Ltac pd_none Hd :=
  repeat match goal with
         | E : process_data _ _ _ _ _ = _ |- _ => rewrite (process_data_none _ _ _ _ _ Hd) in E; inv_tuple E
         end.

Lemma ls_tail_np s conn c k waited s' ev w : cmd_core c -> ls_tail s conn c k waited = (s', ev, w) -> Forall np ev.
Proof.
  intros (Hack & Hms & Hems & Hd) H. unfold ls_tail in H. rewrite Hack, Hms, Hems in H. cbn [andb] in H.
  repeat (split_hyp H); inv_tuple H; pd_none Hd; np_solve.
Qed.

Lemma some_inj {A} (a b : A) : Some a = Some b -> a = b.
Proof. intros H. inversion H. reflexivity. Qed.

Lemma ls_held_np s conn c k m s' ev w c' wt : cmd_core c -> ls_held s conn c k m = (Some (s', ev, w), c', wt) -> Forall np ev.
Proof.
  intros (Hack & Hms & Hems & Hd) H. rewrite ls_held_eq in H. cbv zeta in H.
  match type of H with context [if has (c_flag c) LOCK_FLAG_SHOW then ?a else c] =>
    set (c1 := if has (c_flag c) LOCK_FLAG_SHOW then a else c) in H end.
  assert (Hc1 : c_tflag c1 = c_tflag c /\ c_eflag c1 = c_eflag c /\ c_data c1 = c_data c).
  { subst c1. destruct (has (c_flag c) LOCK_FLAG_SHOW); cbn; auto. }
  clearbody c1. destruct Hc1 as (Htf1 & Hef1 & Hd1). rewrite <- Hd1 in Hd. rewrite <- Hef1 in Hems.
  unfold ls_update, ls_relock in H. rewrite Htf1, Hack in H. cbn [andb] in H. rewrite ?andb_false_r in H.
  repeat (split_hyp H); apply tuple3_inv in H; destruct H as (H & _ & _); try discriminate H;
    apply some_inj in H; inv_tuple H; pd_none Hd; np_solve.
Qed.

(* when the held phase falls through to the new-record tail, the command is the request with at most the LockId replaced *)
Lemma ls_held_none_cmd s conn c k m c' wt :
  ls_held s conn c k m = (None, c', wt) -> c' = c \/ exists x, c' = c <| c_lockid := x |>.
Proof.
  intros H. rewrite ls_held_eq in H. cbv zeta in H. unfold ls_update, ls_relock in H.
  repeat (split_hyp H); apply tuple3_inv in H; destruct H as (H & H2 & _); try discriminate H; subst c'; eauto.
  all: destruct (has (c_flag c) LOCK_FLAG_SHOW); eauto.
Qed.

Lemma lock_step_np s conn c s' ev w : cmd_core c -> lock_step s conn c = (s', ev, w) -> Forall np ev.
Proof.
  intros Hc H. rewrite lock_step_eq in H. cbv zeta in H.
  destruct (ls_pre s conn c (c_key c)) as [pev|] eqn:Ep.
  - inv_tuple H. unfold ls_pre in Ep. repeat (split_hyp Ep); inv Ep; np_solve.
  - destruct (negb (leader (ls_mgr s (c_key c))) && negb (has (c_flag c) LOCK_FLAG_FROM_AOF)).
    + inv_tuple H. np_solve.
    + destruct (ls_held (ls_mgr s (c_key c)) conn c (c_key c) (getm (ls_mgr s (c_key c)) (c_key c))) as [[[res|] c'] wt] eqn:Eh.
      * destruct res as [[s1 e1] w1]. inv_tuple H. eapply ls_held_np; eauto.
      * assert (Hc' : cmd_core c').
        { destruct (ls_held_none_cmd _ _ _ _ _ _ _ Eh) as [->|[x ->]]; auto; apply cmd_core_lockid; auto. }
        eapply ls_tail_np; eauto.
Qed.

Lemma cancel_wait_lock_np s conn c s' ev w : cancel_wait_lock s conn c = (s', ev, w) -> Forall np ev.
Proof. unfold cancel_wait_lock. intros H. repeat (split_hyp H); inv_tuple H; np_solve. Qed.

Lemma release_hold_np s k conn c r d s' ev : c_data c = None -> release_hold s k conn c r d = (s', ev) -> Forall np ev.
Proof. intros Hd H. unfold release_hold in H. repeat (split_hyp H); inv_tuple H; pd_none Hd; np_solve. Qed.

Lemma ul_body_np s conn c k r s' ev w : c_data c = None -> ul_body s conn c k r = (s', ev, w) -> Forall np ev.
Proof.
  intros Hd H. unfold ul_body in H. repeat (split_hyp H); inv_tuple H; pd_none Hd; np_solve.
  all: eapply release_hold_np; eauto.
Qed.

Lemma unlock_step_np s conn c s' ev w : c_data c = None -> unlock_step s conn c = (s', ev, w) -> Forall np ev.
Proof.
  intros Hd H. rewrite unlock_step_eq in H. cbv zeta in H. unfold ul_target, ul_err in H.
  repeat (split_hyp H); inv_tuple H; np_solve.
  all: try (eapply cancel_wait_lock_np; eassumption).
  all: try (eapply ul_body_np; [|eassumption]; exact Hd).
  all: try match goal with E : inl _ = inl _ |- _ => inv E end.
  all: try match goal with E : inr _ = inl _ |- _ => discriminate E end.
  all: try (eapply ul_body_np; [|eassumption]; cbn; exact Hd).
Qed.

(* ---------------------------------------------------------------- every core action, in every state satisfying Inv *)
Theorem core_step_np s a : Inv s -> core_action a = true -> next s < MAXREC -> Forall np (snd (step s a)).
Proof.
  intros G Ha Hb. destruct a as [conn c|k| | |r ok|b]; cbn [step core_action] in *.
  - apply cmd_core_b_iff in Ha. pose proof (inv_gk s (c_key c) G) as G1.
    assert (R : res_ok [] [] (c_key c) (if c_lock c then lock_step s conn c else unlock_step s conn c)).
    { destruct (c_lock c); [apply lock_step_ginv; auto|apply unlock_step_ginv; auto; apply Ha]. }
    assert (A : Forall np (snd (fst (if c_lock c then lock_step s conn c else unlock_step s conn c)))).
    { destruct (c_lock c).
      - destruct (lock_step s conn c) as [[s1 ev] w] eqn:E. eapply lock_step_np; eauto.
      - destruct (unlock_step s conn c) as [[s1 ev] w] eqn:E. eapply unlock_step_np; eauto. apply Ha. }
    destruct (if c_lock c then lock_step s conn c else unlock_step s conn c) as [[s1 ev] w]. destruct R as [R1 R2]. cbn [fst snd] in *.
    eapply finish_np; eauto.
  - constructor.
  - apply sweep_timeouts_np; auto.
  - apply sweep_expiries_np; auto.
  - discriminate.
  - constructor.
Qed.
