(* Timer theorems, part 2: the critical sections of Engine.v / Engine2.v as timeout frames.
   Lock is a frame except for its queueing exit (L6), which is exposed as `queue_tail`. *)
From Coq Require Import String ZifyN ZifyBool ZifyNat.
From Slock Require Import Engine.Types Engine.Queues Engine.Timers Engine.Engine Engine.Engine2.
From Slock Require Import Engine.TimeBase Engine.TimeFrame.
Open Scope N_scope.

(* holders are never live waiters (true of the core subset: no ack-pending holds) *)
Definition HD (s : db) : Prop := forall r, isholder s r -> tdead s r.

Lemma HD_frame C s s' : HD s -> tframe C s s' -> HD s'.
Proof.
  intros H F r I. destruct (tf_hold _ _ _ F r I) as [I'|[D _]]; auto. eapply tframe_dead; eauto.
Qed.

(* holder references and stored records are allocated (below `next`) *)
Definition HF (s : db) : Prop := forall r, isholder s r -> r < next s.
Definition SK (s : db) : Prop := forall r l, aget (store s) r = Some l -> r < next s.

Lemma HF_frame C s s' : HF s -> tframe C s s' -> HF s'.
Proof.
  intros H F r I. pose proof (tf_next _ _ _ F). destruct (tf_hold _ _ _ F r I) as [I'|[_ L]]; auto.
  specialize (H r I'). lia.
Qed.

Lemma SK_frame C s s' : SK s -> tframe C s s' -> SK s'.
Proof.
  intros H F r l' G. pose proof (tf_next _ _ _ F). destruct (tf_keys _ _ _ F r l' G) as [(l & A)|]; auto.
  specialize (H r l A). lia.
Qed.

Lemma lt_next_frame C s s' r : tframe C s s' -> r < next s -> r < next s'.
Proof. intros F H. pose proof (tf_next _ _ _ F). lia. Qed.

Lemma new_lock_next s k conn c : next s < next (fst (new_lock s k conn c)).
Proof. unfold new_lock. cbn [fst]. unfold updm, setm. destruct (aget _ _); cbn; lia. Qed.

Lemma Pstore_frame (C P : cmd -> Prop) s s' : (forall c, C c -> P c) -> Pstore P s -> tframe C s s' -> Pstore P s'.
Proof.
  intros CP H F r l' G. destruct (tf_cmd _ _ _ F r l' G) as [X|(l & A & B)]; auto. rewrite B. eapply H; eauto.
Qed.

Lemma tdead_updl_kill s r f : (forall l, l_timeouted (f l) = true) -> tdead (updl s r f) r.
Proof.
  intros Hf l H. rewrite aget_updl, N.eqb_refl in H. destruct (aget (store s) r); cbn in H; try discriminate.
  injection H as <-. auto.
Qed.

Lemma tdead_absent s r : aget (store s) r = None -> tdead s r.
Proof. intros H l G. congruence. Qed.

Lemma new_lock_snd s k conn c : snd (new_lock s k conn c) = next s.
Proof. reflexivity. Qed.

Lemma new_lock_aget s k conn c :
  aget (store (fst (new_lock s k conn c))) (next s)
  = Some (mkLock k c conn None (now s)
            (if has (c_tflag c) TF_UNRENEW then expiry_deadline c (now s) else 0%Z)
            (timeout_deadline c (now s)) false 1
            (if has (c_tflag c) TF_UNRENEW then initial_ecc c (expiry_deadline c (now s)) (now s) else 1)
            0 0 255 true true 0 false).
Proof.
  unfold new_lock. cbn [fst]. rewrite (tview_store _ _ (updm_tview _ _ _)).
  cbn. rewrite N.eqb_refl. destruct (has (c_tflag c) TF_UNRENEW); reflexivity.
Qed.

Lemma new_lock_dead s k conn c : tdead (fst (new_lock s k conn c)) (next s).
Proof. intros l H. rewrite new_lock_aget in H. injection H as <-. reflexivity. Qed.

Lemma tframe_mono (C C' : cmd -> Prop) s s' : (forall c, C c -> C' c) -> tframe C s s' -> tframe C' s s'.
Proof.
  intros H [n1 c1 x1 w1 g1 v1 m1 y1 h1]. constructor; auto.
  intros r l' G. destruct (m1 r l' G); auto.
Qed.

Section Steps.
Variable C : cmd -> Prop.

Lemma get_locked_lock_holder s k lockid r : get_locked_lock s (getm s k) lockid = Some r -> isholder s r.
Proof.
  intros H. apply (getm_holder s k). unfold get_locked_lock in H. unfold holder_refs.
  destruct (m_cur (getm s k)) as [c|]; try discriminate.
  destruct (c_lockid (l_cmd (getl s c)) =? lockid). { injection H as <-. apply in_app_iff; left; left; auto. }
  destruct (m_locks (getm s k)) as [q|]; try discriminate. apply in_app_iff; right. unfold hq_getlock in H. unfold hq_refs.
  assert (forall items, find_locked s items lockid = Some r -> In r items) as FL.
  { induction items as [|x rest IH]; cbn; try discriminate.
    destruct ((0 <? l_locked (getl s x)) && (c_lockid (l_cmd (getl s x)) =? lockid)); auto. intros [= ->]; auto. }
  destruct (find_locked s (hq_fast q) lockid) eqn:E.
  - injection H as <-. apply in_app_iff; left; auto.
  - destruct (hq_scale q) as [[items mp]|]; try discriminate. apply in_app_iff; right. apply in_app_iff; right.
    eapply in_map_snd_aget; eauto.
Qed.

(* ---------------------------------------------------------------- AddLock / UpdateLockedLock on a dead record *)
Lemma getl_dead s r : tdead s r -> l_timeouted (getl s r) = true.
Proof. intros D. unfold getl. destruct (aget (store s) r) eqn:G; auto. Qed.

Lemma getl_cmd_cases s r : l_cmd (getl s r) = dummy_cmd \/ exists l0, aget (store s) r = Some l0 /\ l_cmd (getl s r) = l_cmd l0.
Proof. unfold getl. destruct (aget (store s) r); [right; eauto|left; reflexivity]. Qed.

Hypothesis Cdummy : C dummy_cmd.
Hypothesis Ccore : forall c, C c -> core_cmd c.

Lemma add_lock_frame s k r : tdead s r -> r < next s -> tframe C s (add_lock s k r).
Proof.
  intros D0 FR. apply getl_dead in D0. unfold add_lock. pose proof (getl_cmd_cases s r) as GC. set (l0 := getl s r) in *.
  match goal with |- context [setl s r ?l] => set (l' := l) end.
  assert (l_timeouted l' = true /\ l_cmd l' = l_cmd l0) as [D' Cm].
  { unfold l'. destruct (has (c_tflag (l_cmd l0)) TF_UNRENEW); destruct (has (c_flag (l_cmd l0)) LOCK_FLAG_FROM_AOF);
      destruct (has (c_tflag (l_cmd l0)) TF_REQUIRE_ACKED); cbn;
      repeat match goal with |- context [match ?x with _ => _ end] => destruct x end; cbn; auto. }
  assert (tframe C s (setl s r l')) as F1.
  { apply tframe_setl_dead; auto. rewrite Cm. destruct GC as [->|GC]; auto. }
  assert (tdead (setl s r l') r) as D1.
  { intros l H. rewrite aget_setl, N.eqb_refl in H. injection H as <-. auto. }
  assert (getm (setl s r l') k = getm s k) as M1 by reflexivity.
  cbv zeta. destruct (m_cur (getm s k)) as [cr|] eqn:CUR.
  - match goal with |- context [hq_push ?a ?q r] =>
      destruct (hq_push_frame C a q r) as [A B]; destruct (hq_push a q r) as [s' q'] eqn:HP end.
    cbn [fst snd] in A, B.
    apply tframe_updm_in; [eapply tframe_trans; eauto|].
    intros x I. unfold holder_refs in I. cbn in I. apply in_app_iff in I. destruct I as [I|I].
    + apply (tf_hold _ _ _ (tframe_trans _ _ _ _ F1 A)). apply (getm_holder s' k). unfold holder_refs.
      apply in_app_iff; left; auto.
    + apply B in I. destruct I as [<-|I]; [right; split; [eapply tframe_dead; eauto|eapply lt_next_frame; eauto]|].
      left. apply (getm_holder s k). unfold holder_refs. apply in_app_iff; right.
      destruct (m_locks (getm s k)); auto; try destruct I.
  - apply tframe_updm_in; auto.
    intros x I. rewrite M1 in I. unfold holder_refs in I. cbn in I. destruct I as [<-|I]; [right; split; auto|].
    left. apply (getm_holder s k). unfold holder_refs. rewrite CUR. auto.
Qed.

(* the same for a record known to be allocated: no use of the dummy command *)
Lemma add_lock_frame_p s k r l0 :
  aget (store s) r = Some l0 -> tdead s r -> r < next s -> tframe C s (add_lock s k r).
Proof.
  intros G0 D0 FR. apply getl_dead in D0. unfold add_lock. rewrite (getl_some _ _ _ G0) in *.
  match goal with |- context [setl s r ?l] => set (l' := l) end.
  assert (l_timeouted l' = true /\ l_cmd l' = l_cmd l0) as [D' Cm].
  { unfold l'. destruct (has (c_tflag (l_cmd l0)) TF_UNRENEW); destruct (has (c_flag (l_cmd l0)) LOCK_FLAG_FROM_AOF);
      destruct (has (c_tflag (l_cmd l0)) TF_REQUIRE_ACKED); cbn;
      repeat match goal with |- context [match ?x with _ => _ end] => destruct x end; cbn; auto. }
  assert (tframe C s (setl s r l')) as F1.
  { apply tframe_setl_dead; auto. right. exists l0. auto. }
  assert (tdead (setl s r l') r) as D1.
  { intros l H. rewrite aget_setl, N.eqb_refl in H. injection H as <-. auto. }
  assert (getm (setl s r l') k = getm s k) as M1 by reflexivity.
  cbv zeta. destruct (m_cur (getm s k)) as [cr|] eqn:CUR.
  - match goal with |- context [hq_push ?a ?q r] =>
      destruct (hq_push_frame C a q r) as [A B]; destruct (hq_push a q r) as [s' q'] eqn:HP end.
    cbn [fst snd] in A, B.
    apply tframe_updm_in; [eapply tframe_trans; eauto|].
    intros x I. unfold holder_refs in I. cbn in I. apply in_app_iff in I. destruct I as [I|I].
    + apply (tf_hold _ _ _ (tframe_trans _ _ _ _ F1 A)). apply (getm_holder s' k). unfold holder_refs.
      apply in_app_iff; left; auto.
    + apply B in I. destruct I as [<-|I]; [right; split; [eapply tframe_dead; eauto|eapply lt_next_frame; eauto]|].
      left. apply (getm_holder s k). unfold holder_refs. apply in_app_iff; right.
      destruct (m_locks (getm s k)); auto; try destruct I.
  - apply tframe_updm_in; auto.
    intros x I. rewrite M1 in I. unfold holder_refs in I. cbn in I. destruct I as [<-|I]; [right; split; auto|].
    left. apply (getm_holder s k). unfold holder_refs. rewrite CUR. auto.
Qed.

Lemma update_locked_lock_frame s k r c : tdead s r -> r < next s -> C c -> tframe C s (update_locked_lock s k r c).
Proof.
  intros D0 FR Hc. apply getl_dead in D0. unfold update_locked_lock. set (l0 := getl s r) in *.
  match goal with |- tframe _ _ (setl s r ?l) => set (l' := l) end.
  assert (l_timeouted l' = true /\ l_cmd l' = c) as [D' Cm].
  { unfold l'. repeat match goal with |- context [if ?x then _ else _] => destruct x end; cbn; auto. }
  apply tframe_setl_dead; auto. left; rewrite Cm; auto.
Qed.

Lemma update_locked_lock_dead s k r c : tdead s r -> tdead (update_locked_lock s k r c) r.
Proof.
  intros D l H. unfold update_locked_lock in H. rewrite aget_setl, N.eqb_refl in H. injection H as <-.
  assert (l_timeouted (getl s r) = true) as D0.
  { unfold getl. destruct (aget (store s) r) eqn:G; auto. }
  repeat match goal with |- context [if ?x then _ else _] => destruct x end; cbn; auto.
Qed.

(* ---------------------------------------------------------------- symbolic execution helpers *)
Ltac break_inner :=
  match goal with
  | |- context [match ?X with _ => _ end] =>
      lazymatch X with
      | context [match _ with _ => _ end] => fail
      | _ => destruct X eqn:?
      end
  end.

Ltac frame_hyp :=
  match goal with
  | E : add_expried ?s ?k ?r = (?s', _) |- _ =>
      lazymatch goal with F : tframe C s s' |- _ => fail | _ =>
        let F := fresh "F" in pose proof (add_expried_frame C s k r) as F; rewrite E in F; cbn [fst] in F end
  | E : push_lock_aof ?s ?k ?r ?fl = (?s', _) |- _ =>
      lazymatch goal with F : tframe C s s' |- _ => fail | _ =>
        let F := fresh "F" in pose proof (push_lock_aof_frame C s k r fl) as F; rewrite E in F; cbn [fst] in F end
  | E : push_unlock_aof ?s ?k ?r ?lc ?uc ?ia ?fl = (?s', _) |- _ =>
      lazymatch goal with F : tframe C s s' |- _ => fail | _ =>
        let F := fresh "F" in pose proof (push_unlock_aof_frame C s k r lc uc ia fl) as F; rewrite E in F; cbn [fst] in F end
  | E : process_data ?s ?k ?r ?c ?rc = (?s', _) |- _ =>
      lazymatch goal with F : tframe C s s' |- _ => fail | _ =>
        let F := fresh "F" in pose proof (process_data_frame C s k r c rc) as F; rewrite E in F; cbn [fst] in F end
  | E : get_wait_lock ?s ?k = (?s', _) |- _ =>
      lazymatch goal with F : tframe C s s' |- _ => fail | _ =>
        let F := fresh "F" in pose proof (get_wait_lock_frame C s k) as F; rewrite E in F; cbn [fst] in F end
  end.

Ltac tdead_tac :=
  lazymatch goal with
  | H : tdead ?x ?r |- tdead ?x ?r => exact H
  | |- tdead (updl _ ?r (fun l => l <| l_timeouted := true |>)) ?r => apply tdead_updl_kill; reflexivity
  | H : tdead ?y ?r |- tdead ?x ?r => apply (tframe_dead C y x r); [tf|exact H]
  end
with tf :=
  lazymatch goal with
  | |- tframe _ ?s ?s => apply tframe_refl
  | F : tframe _ ?s ?t |- tframe _ ?s ?t => exact F
  | F : tframe _ ?x ?t |- tframe _ ?s ?t => apply (tframe_trans C s x t); [tf|exact F]
  | |- tframe _ ?s (updl ?x ?r ?f) => apply (tframe_trans C s x); [tf|apply tframe_updl; updl_side]
  | |- tframe _ ?s (updm ?x ?k ?f) => apply (tframe_trans C s x); [tf|apply tframe_updm; intros ?m; apply incl_refl]
  | |- tframe _ ?s (bump ?f ?x) => apply (tframe_trans C s x); [tf|apply tframe_bump]
  | |- tframe _ ?s (remove_mgr_if_unref ?x ?k) => apply (tframe_trans C s x); [tf|apply tframe_remove_mgr]
  | |- tframe _ ?s (free_lock ?x ?r) => apply (tframe_trans C s x); [tf|apply tframe_free_lock]
  | |- tframe _ ?s (unref ?x ?r) => apply (tframe_trans C s x); [tf|apply tframe_unref]
  | |- tframe _ ?s (remove_lock ?x ?k ?r) => apply (tframe_trans C s x); [tf|apply tframe_remove_lock]
  | |- tframe _ ?s (add_wait_lock ?x ?k ?r) => apply (tframe_trans C s x); [tf|apply add_wait_lock_frame]
  | |- tframe _ ?s (remove_long_expried ?x ?r ?e) => apply (tframe_trans C s x); [tf|apply remove_long_expried_frame]
  | |- tframe _ ?s (remove_long_timeout ?x ?r) =>
      apply (tframe_trans C s x); [tf|apply tframe_remove_long_timeout; tdead_tac]
  | |- tframe _ ?s (if ?b then _ else _) => destruct b; tf
  | |- tframe _ ?s (match ?o with Some _ => _ | None => _ end) => destruct o; tf
  end.

(* ---------------------------------------------------------------- update / re-lock re-arm *)
Lemma update_and_rearm_frame s k r c : tdead s r -> r < next s -> C c -> tframe C s (fst (update_and_rearm s k r c)).
Proof.
  intros D FR Hc. unfold update_and_rearm.
  pose proof (update_locked_lock_frame s k r c D FR Hc) as FU.
  cbv zeta. repeat break_inner; cbn [fst]; repeat frame_hyp; tf.
Qed.

(* ---------------------------------------------------------------- UnLock *)
Lemma release_hold_frame s k conn c r depth : tframe C s (fst (release_hold s k conn c r depth)).
Proof.
  unfold release_hold. cbv zeta. repeat break_inner; cbn [fst]; repeat frame_hyp; tf.
Qed.

Lemma cancel_wait_lock_frame s conn c : tframe C s (fst (fst (cancel_wait_lock s conn c))).
Proof.
  unfold cancel_wait_lock. cbv zeta. repeat break_inner; cbn [fst]; repeat frame_hyp; tf.
Qed.

Ltac frame_hyp2 :=
  match goal with
  | E : release_hold ?s ?k ?conn ?c ?r ?d = (?s', _) |- _ =>
      lazymatch goal with F : tframe C s s' |- _ => fail | _ =>
        let F := fresh "F" in pose proof (release_hold_frame s k conn c r d) as F; rewrite E in F; cbn [fst] in F end
  | E : cancel_wait_lock ?s ?conn ?c = (?s', _, _) |- _ =>
      lazymatch goal with F : tframe C s s' |- _ => fail | _ =>
        let F := fresh "F" in pose proof (cancel_wait_lock_frame s conn c) as F; rewrite E in F; cbn [fst] in F end
  end.

Lemma unlock_step_frame s conn c : tframe C s (fst (fst (unlock_step s conn c))).
Proof.
  unfold unlock_step. cbv beta zeta. repeat break_inner; cbn [fst]; repeat frame_hyp; repeat frame_hyp2; try tf.
  all: try (apply cancel_wait_lock_frame).
Qed.

(* ---------------------------------------------------------------- wake-up pass *)
Ltac tf2 :=
  lazymatch goal with
  | |- tframe _ ?s ?s => apply tframe_refl
  | |- tframe _ ?s (add_lock ?x ?k ?r) =>
      apply (tframe_trans C s x);
      [tf2|apply add_lock_frame;
           [tdead_tac|match goal with H : r < next ?y |- _ => apply (lt_next_frame C y x r); [tf|exact H] end]]
  | |- tframe _ ?s (updl ?x ?r ?f) => apply (tframe_trans C s x); [tf2|apply tframe_updl; updl_side]
  | |- tframe _ ?s (updm ?x ?k ?f) => apply (tframe_trans C s x); [tf2|apply tframe_updm; intros ?m; apply incl_refl]
  | |- tframe _ ?s (bump ?f ?x) => apply (tframe_trans C s x); [tf2|apply tframe_bump]
  | F : tframe _ ?s ?t |- tframe _ ?s ?t => exact F
  | F : tframe _ ?x ?t |- tframe _ ?s ?t => apply (tframe_trans C s x t); [tf2|exact F]
  | |- _ => tf
  end.

Lemma get_wait_lock_live s k s' r :
  get_wait_lock s k = (s', Some r) -> dead_waiter (getl s' r) = false.
Proof.
  unfold get_wait_lock. destruct (m_wait (getm s k)) as [q|]; [|discriminate].
  assert (forall fuel s q s1 q1, get_wait_loop fuel s q = (s1, q1, Some r) -> dead_waiter (getl s1 r) = false) as L.
  { induction fuel as [|f IH]; intros s0 q0 s1 q1; cbn; [discriminate|].
    destruct (wq_head q0) as [x|]; [|discriminate].
    destruct (dead_waiter (getl s0 x)) eqn:DW; [apply IH|]. intros [= <- <- <-]. auto. }
  destruct (get_wait_loop _ s q) as [[s1 q1] w] eqn:GL. intros [= <- ->].
  rewrite (getl_tview _ _ r (updm_tview _ _ _)). eapply L; eauto.
Qed.

Lemma wake_grant_frame s k r via :
  core_cmd (l_cmd (getl s r)) -> r < next s -> tframe C s (fst (wake_grant s k r via)).
Proof.
  intros (H1 & H2 & H3 & H4) FR. unfold wake_grant. cbv zeta. rewrite H1. cbn [andb].
  set (s1 := updl s r (fun l => l <| l_timeouted := true |>)).
  assert (tdead s1 r) as D1 by (apply tdead_updl_kill; reflexivity).
  assert (tframe C s s1) as F1 by (apply tframe_updl; updl_side).
  set (s2 := if l_long (getl s r) then remove_long_timeout s1 r else s1).
  assert (tframe C s1 s2) as F2 by (unfold s2; destruct (l_long (getl s r)); [apply tframe_remove_long_timeout; auto|apply tframe_refl]).
  assert (tdead s2 r) as D2 by (eapply tframe_dead; eauto).
  clearbody s2 s1.
  repeat break_inner; cbn [fst]; repeat frame_hyp; tf2.
Qed.

Lemma wake_iter_frame s w :
  Pstore core_cmd s -> SK s -> tframe C s (fst (fst (wake_iter s w))).
Proof.
  intros PS KS. unfold wake_iter. destruct (aget (mgrs s) (w_key w)); [|apply tframe_refl].
  destruct (negb (m_waited m)); [apply tframe_refl|].
  pose proof (get_wait_lock_frame C s (w_key w)) as F. pose proof (get_wait_lock_live s (w_key w)) as L.
  destruct (get_wait_lock s (w_key w)) as [s1 [r|]]; cbn [fst] in *.
  - destruct (negb (do_lock s1 (w_key w) r)); [exact F|].
    assert (Pstore core_cmd s1) as PS1 by (eapply Pstore_frame; eauto).
    assert (SK s1) as KS1 by (eapply SK_frame; eauto).
    assert (core_cmd (l_cmd (getl s1 r)) /\ r < next s1) as [CC FR].
    { specialize (L s1 r eq_refl). unfold getl in *. destruct (aget (store s1) r) eqn:G; [split; [eapply PS1|eapply KS1]; eauto|].
      cbn in L. discriminate. }
    pose proof (wake_grant_frame s1 (w_key w) r (w_conn w) CC FR) as F2.
    destruct (wake_grant s1 (w_key w) r (w_conn w)) as [s2 ev]; cbn [fst] in *. eapply tframe_trans; eauto.
  - tf.
Qed.

Lemma run_wake_frame fuel : forall s w, Pstore core_cmd s -> SK s -> tframe C s (fst (run_wake fuel s w)).
Proof.
  induction fuel as [|f IH]; intros s w PS KS; cbn; [apply tframe_refl|].
  pose proof (wake_iter_frame s w PS KS) as F. destruct (wake_iter s w) as [[s1 ev] [|]]; cbn [fst] in *; auto.
  assert (Pstore core_cmd s1) as PS1 by (eapply Pstore_frame; eauto).
  assert (SK s1) as KS1 by (eapply SK_frame; eauto).
  specialize (IH s1 w PS1 KS1). destruct (run_wake f s1 w) as [s2 ev2]; cbn [fst] in *. eapply tframe_trans; eauto.
Qed.

Lemma finish_frame s0 res :
  Pstore core_cmd s0 -> SK s0 -> tframe C s0 (fst (fst res)) -> tframe C s0 (fst (finish res)).
Proof.
  intros PS KS F. destruct res as [[s ev] [w|]]; cbn [fst finish] in *; auto.
  assert (Pstore core_cmd s) as PS1 by (eapply Pstore_frame; eauto).
  assert (SK s) as KS1 by (eapply SK_frame; eauto).
  pose proof (run_wake_frame (wake_fuel s (w_key w)) s w PS1 KS1) as F2.
  destruct (run_wake _ s w) as [s2 ev2]; cbn [fst] in *. eapply tframe_trans; eauto.
Qed.

(* presence-based variants (no dummy command needed): used with C := fun _ => False, where a frame cannot create
   records at all *)
Ltac tf2p P :=
  lazymatch goal with
  | |- tframe _ ?s ?s => apply tframe_refl
  | |- tframe _ ?s (add_lock ?x ?k ?r) =>
      apply (tframe_trans C s x);
      [tf2p P|eapply add_lock_frame_p;
           [exact P|tdead_tac|match goal with H : r < next ?y |- _ => apply (lt_next_frame C y x r); [tf|exact H] end]]
  | |- tframe _ ?s (updl ?x ?r ?f) => apply (tframe_trans C s x); [tf2p P|apply tframe_updl; updl_side]
  | |- tframe _ ?s (updm ?x ?k ?f) => apply (tframe_trans C s x); [tf2p P|apply tframe_updm; intros ?m; apply incl_refl]
  | |- tframe _ ?s (bump ?f ?x) => apply (tframe_trans C s x); [tf2p P|apply tframe_bump]
  | F : tframe _ ?s ?t |- tframe _ ?s ?t => exact F
  | F : tframe _ ?x ?t |- tframe _ ?s ?t => apply (tframe_trans C s x t); [tf2p P|exact F]
  | |- _ => tf
  end.

Lemma present_updl s r f r' : aget (store s) r' <> None -> aget (store (updl s r f)) r' <> None.
Proof. intros H. rewrite aget_updl. destruct (r =? r'); auto. destruct (aget (store s) r'); cbn; congruence. Qed.

Lemma present_remove_long_timeout s r r' : aget (store s) r' <> None -> aget (store (remove_long_timeout s r)) r' <> None.
Proof.
  intros H. unfold remove_long_timeout. destruct (aget (tlong s) _); apply present_updl; auto.
Qed.

Lemma wake_grant_frame_p s k r via :
  aget (store s) r <> None -> core_cmd (l_cmd (getl s r)) -> r < next s -> tframe C s (fst (wake_grant s k r via)).
Proof.
  intros PR (H1 & H2 & H3 & H4) FR. unfold wake_grant. cbv zeta. rewrite H1. cbn [andb].
  set (s1 := updl s r (fun l => l <| l_timeouted := true |>)).
  assert (tdead s1 r) as D1 by (apply tdead_updl_kill; reflexivity).
  assert (tframe C s s1) as F1 by (apply tframe_updl; updl_side).
  set (s2 := if l_long (getl s r) then remove_long_timeout s1 r else s1).
  assert (tframe C s1 s2) as F2 by (unfold s2; destruct (l_long (getl s r)); [apply tframe_remove_long_timeout; auto|apply tframe_refl]).
  assert (tdead s2 r) as D2 by (eapply tframe_dead; eauto).
  assert (exists l2, aget (store s2) r = Some l2) as (l2 & P2).
  { assert (aget (store s2) r <> None) as X.
    { unfold s2. destruct (l_long (getl s r)); [apply present_remove_long_timeout|]; apply present_updl; auto. }
    destruct (aget (store s2) r); [eauto|congruence]. }
  clearbody s2 s1.
  repeat break_inner; cbn [fst]; repeat frame_hyp; tf2p P2.
Qed.

Lemma wake_iter_frame_p s w :
  Pstore core_cmd s -> SK s -> tframe C s (fst (fst (wake_iter s w))).
Proof.
  intros PS KS. unfold wake_iter. destruct (aget (mgrs s) (w_key w)); [|apply tframe_refl].
  destruct (negb (m_waited m)); [apply tframe_refl|].
  pose proof (get_wait_lock_frame C s (w_key w)) as F. pose proof (get_wait_lock_live s (w_key w)) as L.
  destruct (get_wait_lock s (w_key w)) as [s1 [r|]]; cbn [fst] in *.
  - destruct (negb (do_lock s1 (w_key w) r)); [exact F|].
    assert (Pstore core_cmd s1) as PS1 by (eapply Pstore_frame; eauto).
    assert (SK s1) as KS1 by (eapply SK_frame; eauto).
    assert (aget (store s1) r <> None /\ core_cmd (l_cmd (getl s1 r)) /\ r < next s1) as (PR & CC & FR).
    { specialize (L s1 r eq_refl). unfold getl in *. destruct (aget (store s1) r) eqn:G;
        [lsplit; [congruence|eapply PS1; eauto|eapply KS1; eauto]|].
      cbn in L. discriminate. }
    pose proof (wake_grant_frame_p s1 (w_key w) r (w_conn w) PR CC FR) as F2.
    destruct (wake_grant s1 (w_key w) r (w_conn w)) as [s2 ev]; cbn [fst] in *. eapply tframe_trans; eauto.
  - tf.
Qed.

Lemma run_wake_frame_p fuel : forall s w, Pstore core_cmd s -> SK s -> tframe C s (fst (run_wake fuel s w)).
Proof.
  induction fuel as [|f IH]; intros s w PS KS; cbn; [apply tframe_refl|].
  pose proof (wake_iter_frame_p s w PS KS) as F. destruct (wake_iter s w) as [[s1 ev] [|]]; cbn [fst] in *; auto.
  assert (Pstore core_cmd s1) as PS1 by (eapply Pstore_frame; eauto).
  assert (SK s1) as KS1 by (eapply SK_frame; eauto).
  specialize (IH s1 w PS1 KS1). destruct (run_wake f s1 w) as [s2 ev2]; cbn [fst] in *. eapply tframe_trans; eauto.
Qed.

Lemma finish_frame_p s0 res :
  Pstore core_cmd s0 -> SK s0 -> tframe C s0 (fst (fst res)) -> tframe C s0 (fst (finish res)).
Proof.
  intros PS KS F. destruct res as [[s ev] [w|]]; cbn [fst finish] in *; auto.
  assert (Pstore core_cmd s) as PS1 by (eapply Pstore_frame; eauto).
  assert (SK s) as KS1 by (eapply SK_frame; eauto).
  pose proof (run_wake_frame_p (wake_fuel s (w_key w)) s w PS1 KS1) as F2.
  destruct (run_wake _ s w) as [s2 ev2]; cbn [fst] in *. eapply tframe_trans; eauto.
Qed.

(* ---------------------------------------------------------------- doTimeOut / doExpried *)
Lemma do_timeout_frame s r : tframe C s (fst (fst (do_timeout s r))).
Proof.
  unfold do_timeout. destruct (aget (store s) r) as [l|]; [|apply tframe_refl].
  cbv zeta. repeat break_inner; cbn [fst]; repeat frame_hyp; tf.
Qed.

Lemma do_expried_frame s r : tframe C s (fst (fst (do_expried s r))).
Proof.
  unfold do_expried. destruct (aget (store s) r) as [l|]; [|apply tframe_refl].
  cbv zeta. repeat break_inner; cbn [fst]; repeat frame_hyp; tf.
Qed.

(* C05 (d): doTimeOut tombstones the record before it replies; a (non-ack) grant tombstones it too *)
Lemma do_timeout_kills s r : tdead (fst (fst (do_timeout s r))) r.
Proof.
  unfold do_timeout. destruct (aget (store s) r) as [l|] eqn:G; [|apply tdead_absent; auto].
  destruct (l_timeouted l) eqn:T.
  - assert (tdead s r) as D0 by (intros l0 G0; congruence).
    cbv zeta. repeat break_inner; cbn [fst]; tdead_tac.
  - set (s1 := updl s r (fun l => l <| l_timeouted := true |>)).
    assert (tdead s1 r) as D1 by (apply tdead_updl_kill; reflexivity).
    cbv zeta. fold s1. clearbody s1. repeat break_inner; cbn [fst]; repeat frame_hyp; tdead_tac.
Qed.

Lemma wake_grant_kills s k r via :
  core_cmd (l_cmd (getl s r)) -> r < next s -> tdead (fst (wake_grant s k r via)) r.
Proof.
  intros (H1 & H2 & H3 & H4) FR. unfold wake_grant. cbv zeta. rewrite H1. cbn [andb].
  set (s1 := updl s r (fun l => l <| l_timeouted := true |>)).
  assert (tdead s1 r) as D1 by (apply tdead_updl_kill; reflexivity).
  assert (tframe C s s1) as F1 by (apply tframe_updl; updl_side).
  set (s2 := if l_long (getl s r) then remove_long_timeout s1 r else s1).
  assert (tframe C s1 s2) as F2 by (unfold s2; destruct (l_long (getl s r)); [apply tframe_remove_long_timeout; auto|apply tframe_refl]).
  assert (tdead s2 r) as D2 by (eapply tframe_dead; eauto).
  clearbody s2 s1.
  repeat break_inner; cbn [fst]; repeat frame_hyp;
    match goal with |- tdead ?x r => apply (tframe_dead C s2 x r); [tf2|exact D2] end.
Qed.

(* ---------------------------------------------------------------- Lock *)
Definition queue_tail (s1 : db) (k : N) (r : ref) : db :=
  bump (fun n => n <| n_wait := (n_wait n + 1)%Z |>)
       (updl (add_timeout (add_wait_lock s1 k r) r) r (fun l => l <| l_refc := add8 (l_refc l) 1 |>)).

Lemma new_lock_split s k conn c d r : new_lock s k conn c = (d, r) -> d = fst (new_lock s k conn c) /\ r = next s.
Proof. intros E. rewrite E. cbn [fst]. split; auto. apply (f_equal snd) in E. cbn in E. auto. Qed.

Lemma tframe_updl_dead s r f :
  tdead s r -> (forall l, l_timeouted l = true -> l_timeouted (f l) = true) -> (forall l, l_cmd (f l) = l_cmd l) ->
  tframe C s (updl s r f).
Proof.
  intros D Hf Hc. apply tframe_store.
  - apply updl_now. - apply updl_checkT. - rewrite updl_next; lia. - apply updl_twheel. - apply updl_tlong. - apply updl_mgrs.
  - intros r' l' H1. rewrite aget_updl in H1. destruct (r =? r') eqn:E.
    + apply N.eqb_eq in E; subst r'. destruct (aget (store s) r) eqn:G; cbn in H1; try discriminate. injection H1 as <-.
      left. lsplit; [apply Hf; apply (D _ G)| |]; right; exists l; auto.
    + right. exists l'. lsplit; auto.
Qed.

Ltac tf3 :=
  lazymatch goal with
  | |- tframe _ ?s (fst (new_lock ?x ?k ?conn ?c)) => apply (tframe_trans C s x); [tf3|apply tframe_new_lock; auto]
  | |- tframe _ ?s (setm ?x ?k new_mgr) => apply (tframe_trans C s x); [tf3|apply tframe_setm_new; assumption]
  | |- tframe _ ?s (fst (update_and_rearm ?x ?k ?r ?c)) =>
      apply (tframe_trans C s x); [tf3|apply update_and_rearm_frame; [tdead3|fresh3|auto]]
  | |- tframe _ ?s (add_lock ?x ?k ?r) => apply (tframe_trans C s x); [tf3|apply add_lock_frame; [tdead3|fresh3]]
  | |- tframe _ ?s (updl ?x ?r ?f) =>
      apply (tframe_trans C s x);
      [tf3|first [solve [apply tframe_updl; updl_side]
                 |apply tframe_updl_dead; [tdead3|intros; cbn; auto|intros; reflexivity]]]
  | |- tframe _ ?s (updm ?x ?k ?f) => apply (tframe_trans C s x); [tf3|apply tframe_updm; intros ?m; apply incl_refl]
  | |- tframe _ ?s (bump ?f ?x) => apply (tframe_trans C s x); [tf3|apply tframe_bump]
  | |- tframe _ ?s (remove_mgr_if_unref ?x ?k) => apply (tframe_trans C s x); [tf3|apply tframe_remove_mgr]
  | |- tframe _ ?s (free_lock ?x ?r) => apply (tframe_trans C s x); [tf3|apply tframe_free_lock]
  | |- tframe _ ?s ?s => apply tframe_refl
  | F : tframe _ ?s ?t |- tframe _ ?s ?t => exact F
  | F : tframe _ ?x ?t |- tframe _ ?s ?t => apply (tframe_trans C s x t); [tf3|exact F]
  end
with tdead3 :=
  lazymatch goal with
  | H : tdead ?x ?r |- tdead ?x ?r => exact H
  | |- tdead (fst (new_lock ?x _ _ _)) (next ?x) => apply new_lock_dead
  | H : tdead ?y ?r |- tdead ?x ?r => apply (tframe_dead C y x r); [tf3|exact H]
  | |- tdead ?x (next ?y) => apply (tframe_dead C (fst (new_lock y _ _ _)) x (next y)); [tf3|apply new_lock_dead]
  end
with fresh3 :=
  lazymatch goal with
  | H : ?r < next ?x |- ?r < next ?x => exact H
  | H : ?r < next ?y |- ?r < next ?x => apply (lt_next_frame C y x r); [tf3|exact H]
  | |- next ?y < next (fst (new_lock ?y _ _ _)) => apply new_lock_next
  | |- next ?y < next ?x => apply (lt_next_frame C (fst (new_lock y _ _ _)) x (next y)); [tf3|apply new_lock_next]
  end.

Lemma tflag_lockid c x : c_tflag (c <| c_lockid := x |>) = c_tflag c. Proof. reflexivity. Qed.
Lemma eflag_lockid c x : c_eflag (c <| c_lockid := x |>) = c_eflag c. Proof. reflexivity. Qed.
Lemma data_lockid c x : c_data (c <| c_lockid := x |>) = c_data c. Proof. reflexivity. Qed.

Lemma getm_fresh s k f : getm (bump f (setm s k new_mgr)) k = new_mgr.
Proof. unfold getm, bump, updc, setm. cbn. rewrite N.eqb_refl. reflexivity. Qed.

Lemma isholder_fresh_mgr s k f x : isholder (bump f (setm s k new_mgr)) x -> isholder s x.
Proof.
  intros (k' & m' & A & B). change (aget (aset (mgrs s) k new_mgr) k' = Some m') in A. rewrite aget_aset in A.
  destruct (k =? k'). - injection A as <-. destruct B. - exists k', m'; auto.
Qed.

Lemma lock_step_shape s conn c :
  HD s -> HF s -> C c -> (forall x, C (c <| c_lockid := x |>)) ->
  tframe C s (fst (fst (lock_step s conn c))) \/
  (exists s0 c1, tframe C s s0 /\ next s0 = next s /\ now s0 = now s /\ checkT s0 = checkT s
      /\ (c1 = c \/ exists x, c1 = c <| c_lockid := x |>)
      /\ (forall x, isholder s0 x -> isholder s x)
      /\ fst (fst (lock_step s conn c)) = queue_tail (fst (new_lock s0 (c_key c) conn c1)) (c_key c) (next s)
      /\ snd (fst (lock_step s conn c)) = [] /\ snd (lock_step s conn c) = None
      /\ (0 <? c_timeout c1) = true /\ has (c_tflag c1) TF_MILLISECOND = false).
Proof.
  intros HDs HFs Cc Cx. unfold lock_step. cbv zeta.
  repeat break_inner; cbn [fst snd];
  repeat match goal with E : new_lock _ _ _ _ = (_, _) |- _ => apply new_lock_split in E; destruct E; subst end;
  repeat frame_hyp;
  repeat match goal with
  | E : get_locked_lock ?x (getm ?x ?k) ?id = Some ?r |- _ =>
      lazymatch goal with D : tdead x r |- _ => fail | _ =>
        assert (tdead x r) by (apply (HD_frame C s x HDs); [tf3|eapply get_locked_lock_holder; eauto]);
        assert (r < next x) by (apply (HF_frame C s x HFs); [tf3|eapply get_locked_lock_holder; eauto]) end
  end.
  all: repeat match goal with
  | E : update_and_rearm ?x ?k ?r ?c1 = (?s', _) |- _ =>
      lazymatch goal with F : tframe C x s' |- _ => fail | _ =>
        let F := fresh "F" in
        assert (tframe C x s') as F
          by (pose proof (update_and_rearm_frame x k r c1) as F; rewrite E in F; cbn [fst] in F; apply F; [tdead3|fresh3|auto]) end
  end.
  all: try (exfalso; match goal with H : (0 <? m_locked (getm (bump _ (setm _ ?k new_mgr)) ?k)) = true |- _ =>
              rewrite getm_fresh in H; discriminate H end).
  all: try (left; tf3; fail).
  all: try (exfalso; destruct (Ccore _ Cc) as (HA & HM & HE & HDa);
            match goal with H : context [TF_REQUIRE_ACKED] |- _ =>
              rewrite ?tflag_lockid in H; rewrite HA in H; rewrite ?andb_false_r in H; cbn [andb] in H; discriminate H end).
  all: try match goal with
       | |- tframe _ _ (bump _ (updl (add_timeout (add_wait_lock (fst (new_lock ?s0 _ _ ?c1)) _ _) _) _ _)) \/ _ =>
           right; exists s0, c1; lsplit;
            [tf3|reflexivity|reflexivity|reflexivity|(left; reflexivity) || (right; eexists; reflexivity)
            |first [intros ? ?; assumption|apply isholder_fresh_mgr]
            |reflexivity|reflexivity|reflexivity
            |match goal with H : (0 <? c_timeout _) && _ = true |- _ => apply andb_prop in H; destruct H; assumption end
            |assumption]
       end.
Qed.

End Steps.
