(* Value operations attached to Lock / UnLock (property C15), part 2: the effect of one request on the stored values.
   `vstep`        : the Data-model function applied exactly once (or, when it panics, nothing + an EPanic event)
   `value_effect` : what a whole engine function does to the values of ALL keys
   `*_cases`      : complete case descriptions (events + value effect) of the phases of Lock (ls_tail here). *)
From Coq Require Import String ZifyN ZifyBool.
From Slock Require Import Engine.Types Engine.Queues Engine.Timers Engine.Engine Engine.Engine2 Engine.LocalBase
  Engine.InvLockDefs Engine.RunData.
Open Scope N_scope.

(* ------------------------------------------------------------------ definitions used by the statements *)
(* the parameters ProcessLockData reads from the command and from the key manager *)
Definition mk_env (c : cmd) (locked : N) (waited recov : bool) : pd_env :=
  Build_pd_env (c_lock c) (c_flag c) (c_eflag c) (c_expried c) locked waited recov.

(* b is the value after ONE application of the frame to a (modulo the isAof bit); when the data layer panics /
   meets an EXECUTE frame, the value is unchanged and a panic event is in the output *)
Definition vstep (env : pd_env) (frame : bytes) (ld : option lockdata) (a b : option mdata) (ev : list event) : Prop :=
  match process_lock_data env frame a ld with
  | Ok (cur', _) => aofle cur' b
  | _ => aofle a b /\ exists site, In (EPanic site) ev
  end.

(* every manager of s' carries the value its key had in s (None for a key without manager) *)
Definition vals_kept (s s' : db) : Prop :=
  forall k0 m', aget (mgrs s') k0 = Some m' -> m_data m' = gd s k0.

(* all keys other than k: exactly the old value; key k: one application when the request carries a frame and the
   flag, else the old value modulo the isAof bit *)
Definition value_effect (c : cmd) (flag : bool) (env : pd_env) (ld : option lockdata) (s : db) (k : N) (s' : db)
           (ev : list event) : Prop :=
  (forall k0 m', k0 <> k -> aget (mgrs s') k0 = Some m' -> m_data m' = gd s k0)
  /\ (forall m', aget (mgrs s') k = Some m' ->
        match c_data c, flag with
        | Some frame, true => vstep env frame ld (gd s k) (m_data m') ev
        | _, _ => aofle (gd s k) (m_data m')
        end)
  (* a failing value operation is reported, whether or not the manager survives *)
  /\ (forall frame, c_data c = Some frame -> flag = true ->
        pd_failed (process_lock_data env frame (gd s k) ld) -> exists site, In (EPanic site) ev).

(* ------------------------------------------------------------------ basic facts *)
Lemma getm_updm_same Y k f m : aget (mgrs Y) k = Some m -> getm (updm Y k f) k = f m.
Proof. intros H. unfold getm. rewrite aget_mgrs_updm, N.eqb_refl, H. reflexivity. Qed.
Lemma getm_updm_other Y k f k0 : k <> k0 -> getm (updm Y k f) k0 = getm Y k0.
Proof.
  intros H. unfold getm. rewrite aget_mgrs_updm. destruct (k =? k0) eqn:E; [apply N.eqb_eq in E; contradiction|].
  reflexivity.
Qed.
Lemma gd_updm Y k f k0 : (forall m, m_data (f m) = m_data m) -> gd (updm Y k f) k0 = gd Y k0.
Proof.
  intros Hf. unfold gd, getm. rewrite aget_mgrs_updm. destruct (k =? k0) eqn:E; [|reflexivity].
  apply N.eqb_eq in E. subst k0. destruct (aget (mgrs Y) k); cbn [option_map]; auto.
Qed.
Lemma gd_updl Y r f k0 : gd (updl Y r f) k0 = gd Y k0.
Proof. unfold gd. rewrite getm_updl. reflexivity. Qed.

Lemma vals_kept_of_mrel s x : mrel le_data true s x -> vals_kept s x.
Proof.
  intros H k0 m' Hm'. destruct (mrel_back _ _ _ _ _ _ H Hm') as (m & Hm & Hle).
  unfold gd. rewrite (getm_some _ _ _ Hm). exact Hle.
Qed.

Lemma vals_kept_data_of s s' k m' : vals_kept s s' -> aget (mgrs s') k = Some m' -> data_of s' k = data_of s k.
Proof.
  intros H Hm'. rewrite !data_of_gd. f_equal. unfold gd at 1. rewrite (getm_some _ _ _ Hm'). apply H, Hm'.
Qed.

Lemma vals_kept_gd_eq s s0 x : (forall k0, gd s0 k0 = gd s k0) -> vals_kept s0 x -> vals_kept s x.
Proof. intros He H k0 m' Hm'. rewrite <- He. apply H, Hm'. Qed.

(* no value operation ran: relation (c) *)
Lemma value_effect_marked c flag env ld s k s' ev :
  mrel (le_mark k) true s s' -> (flag = false \/ c_data c = None) -> value_effect c flag env ld s k s' ev.
Proof.
  intros H Hf. split; [|split].
  - intros k0 m' Hk Hm'. destruct (mrel_back _ _ _ _ _ _ H Hm') as (m & Hm & Hle).
    unfold le_mark in Hle. apply N.eqb_neq in Hk. rewrite Hk in Hle.
    unfold gd. rewrite (getm_some _ _ _ Hm). exact Hle.
  - intros m' Hm'. destruct (mrel_back _ _ _ _ _ _ H Hm') as (m & Hm & Hle).
    unfold le_mark in Hle. rewrite N.eqb_refl in Hle.
    unfold gd. rewrite (getm_some _ _ _ Hm).
    destruct Hf as [-> | ->]; [destruct (c_data c)|]; exact Hle.
  - intros frame Hc Hfl _. destruct Hf as [-> | Hn]; [discriminate|congruence].
Qed.

Lemma value_effect_gd_eq c flag env ld s s0 k s' ev :
  (forall k0, gd s0 k0 = gd s k0) -> value_effect c flag env ld s0 k s' ev -> value_effect c flag env ld s k s' ev.
Proof.
  intros He (H1 & H2 & H3). split; [|split].
  - intros k0 m' Hk Hm'. rewrite <- He. auto.
  - intros m' Hm'. specialize (H2 m' Hm'). rewrite <- He. exact H2.
  - intros frame Hc Hfl Hp. rewrite <- He in Hp. eauto.
Qed.

(* vals_kept is stronger *)
Lemma value_effect_kept c env ld s k s' ev :
  vals_kept s s' -> value_effect c false env ld s k s' ev.
Proof.
  intros H. split; [|split].
  - intros k0 m' _ Hm'. auto.
  - intros m' Hm'. rewrite (H k m' Hm'). destruct (c_data c); apply aofle_refl.
  - intros frame _ Hfl. discriminate Hfl.
Qed.

(* ONE call of process_data in state X, followed by helpers that keep every value modulo the bit at k *)
Lemma value_effect_ran c X k r b d1 pev s s' ev lk wt ld :
  process_data X k r c b = (d1, pev) ->
  mrel (le_mark k) true d1 s' ->
  (pev = [] \/ exists site, In (EPanic site) ev) ->
  (forall k0, gd X k0 = gd s k0) ->
  m_locked (getm X k) = lk -> m_waited (getm X k) = wt -> l_data (getl X r) = ld ->
  value_effect c true (mk_env c lk wt b) ld s k s' ev.
Proof.
  intros E Hpost Hpev Hgd Hlk Hwt Hld.
  apply process_data_spec in E.
  destruct (c_data c) as [frame|] eqn:Ec.
  2:{ destruct E as (-> & _).
      apply value_effect_gd_eq with (s0 := X); auto.
      apply value_effect_marked; auto. }
  unfold pd_env_of in E. rewrite Hlk, Hwt, Hld in E. fold (mk_env c lk wt b) in E.
  split; [|split].
  - intros k0 m' Hk Hm'. destruct (mrel_back _ _ _ _ _ _ Hpost Hm') as (m1 & Hm1 & Hle).
    unfold le_mark in Hle. apply N.eqb_neq in Hk. rewrite Hk in Hle. apply N.eqb_neq in Hk.
    rewrite <- Hgd. rewrite Hle.
    destruct (process_lock_data _ frame _ _) as [[cur' ld']| | |].
    2-4: destruct E as (-> & _); unfold gd; rewrite (getm_some _ _ _ Hm1); reflexivity.
    destruct E as (-> & _). rewrite mgrs_updl in Hm1.
    unfold gd. rewrite <- (getm_updm_other X k (fun m => m <| m_data := cur' |>) k0) by congruence.
    rewrite (getm_some _ _ _ Hm1). reflexivity.
  - intros m' Hm'. rewrite Ec. unfold vstep. rewrite <- (Hgd k).
    destruct (mrel_back _ _ _ _ _ _ Hpost Hm') as (m1 & Hm1 & Hle).
    unfold le_mark in Hle. rewrite N.eqb_refl in Hle.
    destruct (process_lock_data _ frame _ _) as [[cur' ld']| | |].
    + destruct E as (-> & _). rewrite mgrs_updl, aget_mgrs_updm, N.eqb_refl in Hm1.
      destruct (aget (mgrs X) k); [|discriminate]. cbn [option_map] in Hm1. inv Hm1. exact Hle.
    + destruct E as (-> & site' & ->). split.
      * unfold gd. rewrite (getm_some _ _ _ Hm1). exact Hle.
      * destruct Hpev as [Hp|Hp]; [discriminate|exact Hp].
    + destruct E as (-> & site' & ->). split.
      * unfold gd. rewrite (getm_some _ _ _ Hm1). exact Hle.
      * destruct Hpev as [Hp|Hp]; [discriminate|exact Hp].
    + destruct E as (-> & site' & ->). split.
      * unfold gd. rewrite (getm_some _ _ _ Hm1). exact Hle.
      * destruct Hpev as [Hp|Hp]; [discriminate|exact Hp].
  - intros frame0 Hc0 _ Hp. rewrite Ec in Hc0. inv Hc0. rewrite <- (Hgd k) in Hp.
    destruct (process_lock_data _ frame0 _ _) as [[cur' ld']| | |]; [contradiction| | |].
    all: destruct E as (_ & site' & ->); destruct Hpev as [Hx|Hx]; [discriminate|exact Hx].
Qed.

(* the record created by new_lock *)
Lemma new_lock_ref s k conn c s0 r : new_lock s k conn c = (s0, r) -> r = next s.
Proof. unfold new_lock. intros H. inv_tuple H. reflexivity. Qed.
Lemma new_lock_l_data s k conn c s0 r : new_lock s k conn c = (s0, r) -> l_data (getl s0 r) = None.
Proof.
  unfold new_lock. intros H. inv_tuple H.
  rewrite getl_updm. unfold getl. cbn [store set]. rewrite aget_aset_same. reflexivity.
Qed.
Lemma new_lock_l_locked s k conn c s0 r : new_lock s k conn c = (s0, r) -> l_locked (getl s0 r) = 0.
Proof.
  unfold new_lock. intros H. inv_tuple H.
  rewrite getl_updm. unfold getl. cbn [store set]. rewrite aget_aset_same. reflexivity.
Qed.

(* records other than the ones unref'd are untouched by the compaction of a holder queue *)
Lemma getl_unref_other x r0 r : r0 <> r -> getl (unref x r0) r = getl x r.
Proof.
  intros Hn. unfold unref. destruct (aget (store x) r0) as [l|] eqn:E; auto.
  assert (H1 : getl (setl x r0 (l <| l_refc := dec8 (l_refc l) |>)) r = getl x r).
  { unfold getl. cbn [store setl set]. rewrite aget_aset. apply N.eqb_neq in Hn. rewrite Hn. reflexivity. }
  destruct (dec8 (l_refc l) =? 0); auto.
  unfold free_lock. destruct (aget (store (setl x r0 _)) r0) as [l1|]; auto.
  rewrite getl_updm. rewrite <- H1. unfold getl. cbn [store setl set].
  rewrite aget_adel. apply N.eqb_neq in Hn. rewrite Hn. reflexivity.
Qed.

Lemma hq_compact_getl items : forall x x' kept r,
  hq_compact x items = (x', kept) -> (0 <? l_locked (getl x r)) = true -> getl x' r = getl x r.
Proof.
  induction items as [|r0 rest IH]; intros x x' kept r H Hr; simpl in H.
  - inv_tuple H. reflexivity.
  - destruct (0 <? l_locked (getl x r0)) eqn:E0.
    + destruct (hq_compact x rest) as [x1 k1] eqn:E. inv_tuple H. eapply IH; eauto.
    + assert (Hn : r0 <> r) by (intros ->; congruence).
      rewrite (IH _ _ _ r H); rewrite getl_unref_other; auto.
Qed.

Lemma hq_push_getl x q r x' q' r1 :
  hq_push x q r = (x', q') -> (0 <? l_locked (getl x r1)) = true -> getl x' r1 = getl x r1.
Proof.
  intros H Hr. unfold hq_push in H. repeat (split_hyp H); inv_tuple H; auto.
  all: eapply hq_compact_getl; eauto.
Qed.

Definition add_lock_rec (s : db) (k : N) (r : ref) : lockrec :=
  let l := getl s r in
  let c := l_cmd l in
  let l := if has (c_tflag c) TF_UNRENEW then l
           else let eT := expiry_deadline c (now s) in
                l <| l_start := now s |> <| l_eT := eT |> <| l_ecc := initial_ecc c eT (now s) |> in
  let m := getm s k in
  let aoft := match m_cur m with None => aoftime_of s c | Some cr => l_aoftime (getl s cr) end in
  let l := l <| l_aoftime := aoft |> <| l_locked := 1 |> <| l_refc := add8 (l_refc l) 1 |> in
  if has (c_flag c) LOCK_FLAG_FROM_AOF then l <| l_isaof := true |>
  else if has (c_tflag c) TF_REQUIRE_ACKED then l <| l_ack := 0 |> else l.

Lemma add_lock_rec_fields s k r :
  l_data (add_lock_rec s k r) = l_data (getl s r) /\ l_locked (add_lock_rec s k r) = 1.
Proof.
  unfold add_lock_rec. cbv zeta.
  destruct (has (c_flag (l_cmd (getl s r))) LOCK_FLAG_FROM_AOF);
  destruct (has (c_tflag (l_cmd (getl s r))) TF_REQUIRE_ACKED);
  destruct (has (c_tflag (l_cmd (getl s r))) TF_UNRENEW); split; reflexivity.
Qed.

Lemma add_lock_unfold s k r :
  add_lock s k r =
  let s1 := setl s r (add_lock_rec s k r) in
  match m_cur (getm s k) with
  | None => updm s1 k (fun m => m <| m_cur := Some r |>)
  | Some _ =>
      let q := match m_locks (getm s k) with Some q => q | None => hq_empty end in
      let '(s', q') := hq_push s1 q r in
      updm s' k (fun m => m <| m_locks := Some q' |>)
  end.
Proof. reflexivity. Qed.

(* AddLock keeps the record's lock data *)
Lemma add_lock_l_data s k r : l_data (getl (add_lock s k r) r) = l_data (getl s r).
Proof.
  rewrite add_lock_unfold. cbv zeta.
  assert (H1 : getl (setl s r (add_lock_rec s k r)) r = add_lock_rec s k r).
  { unfold getl. cbn [store setl set]. rewrite aget_aset_same. reflexivity. }
  destruct (m_cur (getm s k)).
  - destruct (hq_push _ _ r) as [x1 q1] eqn:E. rewrite getl_updm.
    rewrite (hq_push_getl _ _ _ _ _ r E).
    + rewrite H1. apply add_lock_rec_fields.
    + rewrite H1. rewrite (proj2 (add_lock_rec_fields s k r)). reflexivity.
  - rewrite getl_updm, H1. apply add_lock_rec_fields.
Qed.

(* events: a list of quiet events contains no reply and no grant *)
Lemma quiet_no_reply mid cn rq res lc lrc lid cnt rc d :
  Forall quiet mid -> ~ In (EReply cn rq res lc lrc lid cnt rc d) mid.
Proof. intros H Hin. rewrite Forall_forall in H. apply (H _ Hin). Qed.
Lemma quiet_no_grant mid k r b x y z : Forall quiet mid -> ~ In (EGrant k r b x y z) mid.
Proof. intros H Hin. rewrite Forall_forall in H. apply (H _ Hin). Qed.
Lemma quiet_no_release mid k r d : Forall quiet mid -> ~ In (ERelease k r d) mid.
Proof. intros H Hin. rewrite Forall_forall in H. apply (H _ Hin). Qed.

Ltac quiet_solve := ev_solve quiet_ok_quiet.

(* a panic event of process_data is in the output: used for the side condition of value_effect_ran *)
Ltac pev_solve :=
  match goal with
  | E : process_data _ _ _ _ _ = (_, ?pev) |- (?pev = [] \/ _) =>
      let Hs := fresh in
      pose proof (process_data_spec _ _ _ _ _ _ _ E) as Hs;
      destruct (c_data _); [|left; exact (proj2 Hs)];
      match type of Hs with
      | match ?o with _ => _ end =>
          destruct o as [[? ?]| | |];
          [ left; exact (proj2 Hs)
          | right; destruct Hs as (_ & ? & ->); eexists; repeat (first [apply in_or_app; left; left; reflexivity | apply in_or_app; right | right]); left; reflexivity ..]
      end
  end.

(* ------------------------------------------------------------------ Lock: the new-record phase (ls_tail) *)
(* s is the state after GetOrNewLockManager: the key has a manager m.  r = next s is the new record.
   c1 is the command as it is echoed in replies (c up to the LockId), c the request. *)
Definition tail_cases (s : db) (conn : N) (c c1 : cmd) (k : N) (m : mgr) (s' : db) (ev : list event) (w : option wake)
  : Prop :=
  let r := next s in
  let env lk recov := mk_env c lk (m_waited m) recov in
  (* 1: new hold, acknowledgement required: no reply yet, the operation is recorded as recoverable *)
  ((0 <? c_expried c) = true /\ w = None
     /\ (exists b cc mid, ev = EGrant k r true b cc (c_count c1) :: mid /\ Forall quiet mid)
     /\ value_effect c (has_data_flag c) (env (add32 (m_locked m) 1) true) None s k s' ev)
  (* 2: new hold *)
  \/ ((0 <? c_expried c) = true
      /\ (exists b cc mid lc lrc,
            ev = EGrant k r true b cc (c_count c1) :: mid ++ [reply conn c1 R_SUCCED lc lrc (data_of s k)]
            /\ Forall quiet mid)
      /\ value_effect c (has_data_flag c) (env (add32 (m_locked m) 1) false) None s k s' ev)
  (* 3: Expried = 0: value write / probe without a hold; the record is freed at once *)
  \/ ((0 <? c_expried c) = false
      /\ (exists mid lc lrc, ev = mid ++ [reply conn c1 R_SUCCED lc lrc (data_of s k)] /\ Forall quiet mid)
      /\ value_effect c (has_data_flag c) (env (m_locked m) false) None s k s' ev)
  (* 4: queued *)
  \/ (ev = [] /\ w = None /\ vals_kept s s')
  (* 5: refused: TIMEOUT *)
  \/ (w = None /\ vals_kept s s'
      /\ exists lc lrc, ev = [reply conn c1 R_TIMEOUT lc lrc (data_of s' k)]
         /\ (forall m', aget (mgrs s') k = Some m' -> data_of s' k = data_of s k))
  (* 6: millisecond flags: outside the model *)
  \/ (w = None /\ (exists site, ev = [EPanic site])
      /\ (vals_kept s s'
          \/ ((0 <? c_expried c) = true
              /\ exists recov, value_effect c (has_data_flag c) (env (add32 (m_locked m) 1) recov) None s k s' ev))).

Lemma ls_tail_cases s conn c k waited m s' ev w :
  ls_tail s conn c k waited = (s', ev, w) -> aget (mgrs s) k = Some m -> tail_cases s conn c c k m s' ev w.
Proof.
  intros H Hm. unfold tail_cases. cbv zeta.
  unfold ls_tail in H.
  destruct (new_lock s k conn c) as [s0 r] eqn:En.
  pose proof (new_lock_ref _ _ _ _ _ _ En) as Hr. rewrite <- Hr.
  pose proof (new_lock_l_data _ _ _ _ _ _ En) as Hld0.
  assert (H0 : mrel le_core false s s0) by rd.
  destruct (mrel_core_getm s s0 k H0) as (Hgd0 & Hlk0 & Hwt0).
  rewrite (getm_some _ _ _ Hm) in Hlk0, Hwt0.
  assert (Hgd0' : forall k0, gd s0 k0 = gd s k0) by (intros k0; apply mrel_core_gd, H0).
  (* the state at the value operation of a grant *)
  assert (HY : mrel le_core false s (add_lock s0 k r)) by rd.
  destruct (mrel_false_exists _ _ _ _ _ HY Hm) as (mY & HmY).
  destruct (mrel_core_getm s _ k HY) as (HgdY & HlkY & HwtY).
  rewrite (getm_some _ _ _ Hm) in HlkY, HwtY. rewrite (getm_some _ _ _ HmY) in HlkY, HwtY.
  set (X := updm (add_lock s0 k r) k (fun m => m <| m_locked := add32 (m_locked m) 1 |>)) in *.
  assert (HgdX : forall k0, gd X k0 = gd s k0).
  { intros k0. unfold X. rewrite gd_updm by reflexivity. apply mrel_core_gd, HY. }
  assert (HlkX : m_locked (getm X k) = add32 (m_locked m) 1).
  { unfold X. rewrite (getm_updm_same _ _ _ _ HmY). cbn. rewrite HlkY. reflexivity. }
  assert (HwtX : m_waited (getm X k) = m_waited m).
  { unfold X. rewrite (getm_updm_same _ _ _ _ HmY). cbn. exact HwtY. }
  assert (HldX : l_data (getl X r) = None).
  { unfold X. rewrite getl_updm, add_lock_l_data. exact Hld0. }
  assert (HdX : data_of X k = data_of s k) by (rewrite !data_of_gd, HgdX; reflexivity).
  assert (Hd0 : data_of s0 k = data_of s k) by (rewrite !data_of_gd, Hgd0; reflexivity).
  assert (HXd : mrel le_data true s X).
  { apply mrel_rm_weaken. unfold X. apply mrel_updm; [rd|intros; reflexivity|].
    apply mrel_core_data, HY. }
  assert (HXs : mrel (le_mark k) true s X) by (apply mrel_data_mark, HXd).
  assert (H0s : mrel le_data true s s0) by (apply mrel_rm_weaken, mrel_core_data, H0).
  cbv beta iota zeta in H.
  fold X in H.
  repeat (split_hyp H); inv_tuple H.
  all: rewrite ?HdX, ?Hd0.
  all: assert (HXr : mrel (le_mark k) true X X) by (apply mrel_refl; rd).
  all: assert (H0r : mrel (le_mark k) true s0 s0) by (apply mrel_refl; rd).
  all: assert (H0m : mrel (le_mark k) true s s0) by (apply mrel_data_mark, H0s).
  all: try match goal with E : process_data _ _ _ _ _ = (?d1, _) |- _ =>
         assert (Hdr : mrel (le_mark k) true d1 d1) by (apply mrel_refl; rd) end.
  all: first
    [ (* 1 *) left; split; [reflexivity|]; split; [reflexivity|]; split;
      [ do 3 eexists; split; [reflexivity|quiet_solve]
      | first [ eapply value_effect_ran; [eassumption|rd|pev_solve|exact HgdX|exact HlkX|exact HwtX|exact HldX]
              | apply value_effect_marked; [eapply mrel_trans; [rd|exact HXs|rd]|left; reflexivity] ] ]
    | (* 2 *) right; left; split; [reflexivity|]; split;
      [ do 5 eexists; split; [rewrite ?app_assoc; reflexivity|quiet_solve]
      | first [ eapply value_effect_ran; [eassumption|rd|pev_solve|exact HgdX|exact HlkX|exact HwtX|exact HldX]
              | apply value_effect_marked; [eapply mrel_trans; [rd|exact HXs|rd]|left; reflexivity] ] ]
    | (* 3 *) right; right; left; split; [reflexivity|]; split;
      [ do 3 eexists; split; [rewrite ?app_assoc; reflexivity|quiet_solve]
      | first [ eapply value_effect_ran; [eassumption|rd|pev_solve|exact Hgd0'|exact Hlk0|exact Hwt0|exact Hld0]
              | apply value_effect_marked; [eapply mrel_trans; [rd|exact H0m|rd]|left; reflexivity] ] ]
    | (* 4 *) do 3 right; left; split; [reflexivity|]; split; [reflexivity|];
      apply vals_kept_of_mrel; eapply mrel_trans; [rd|exact H0s|rd]
    | (* 5 *) do 4 right; left; split; [reflexivity|];
      match goal with |- vals_kept ?a ?b /\ _ =>
        assert (Hk : vals_kept a b) by (apply vals_kept_of_mrel; eapply mrel_trans; [rd|exact H0s|rd]) end;
      split; [exact Hk|]; do 2 eexists; split; [reflexivity|];
      intros m' Hm'; eapply vals_kept_data_of; eauto
    | (* 6 *) do 5 right; split; [reflexivity|]; split; [eexists; reflexivity|];
      first [ left; apply vals_kept_of_mrel; first [exact HXd | eapply mrel_trans; [solve [rd]|exact H0s|solve [rd]]]
            | right; split; [reflexivity|]; eexists; eapply value_effect_ran;
              [eassumption|exact Hdr|right; eexists; left; reflexivity|exact HgdX|exact HlkX|exact HwtX|exact HldX] ]
    | idtac ].
Qed.

(* ------------------------------------------------------------------ Lock on a held key: update and re-lock *)
Lemma l_data_updl Y r g r0 : (forall l, l_data (g l) = l_data l) -> l_data (getl (updl Y r g) r0) = l_data (getl Y r0).
Proof.
  intros Hg. rewrite getl_updl. destruct (r =? r0) eqn:E; [|reflexivity].
  apply N.eqb_eq in E. subst r0. unfold getl. destruct (aget (store Y) r); [apply Hg|reflexivity].
Qed.

(* s: the key has manager m; r: the hold found by GetLockedLock; the reply carries ldata *)
Lemma ls_update_cases s conn c1 k m r l ldata s' ev w c' wt :
  ls_update s conn c1 k m r l ldata = (Some (s', ev, w), c', wt) -> aget (mgrs s) k = Some m ->
  (exists mid, ((ev = mid /\ w = None)
                \/ exists lc lrc, ev = mid ++ [reply conn c1 R_LOCKED_ERROR lc lrc ldata])
               /\ Forall quiet mid)
  /\ value_effect c1 (has_data_flag c1) (mk_env c1 (m_locked m) (m_waited m) false) (l_data (getl s r)) s k s' ev.
Proof.
  intros H Hm. unfold ls_update in H.
  assert (Hsr : mrel (le_mark k) true s s) by (apply mrel_refl; rd).
  assert (Hlk : m_locked (getm s k) = m_locked m) by (rewrite (getm_some _ _ _ Hm); reflexivity).
  assert (Hwt : m_waited (getm s k) = m_waited m) by (rewrite (getm_some _ _ _ Hm); reflexivity).
  repeat (split_hyp H); inv_tuple H.
  all: match goal with Hx : Some _ = Some _ |- _ => apply (f_equal (fun o => match o with Some x => x | None => (s, [], None) end)) in Hx; cbv beta iota in Hx; inv_tuple Hx end.
  all: try match goal with E : process_data _ _ _ _ _ = (?d1, _) |- _ =>
         assert (Hdr : mrel (le_mark k) true d1 d1) by (apply mrel_refl; rd) end.
  all: split;
    [ eexists; split; [first [ right; do 2 eexists; rewrite ?app_assoc; reflexivity | left; split; reflexivity ]|quiet_solve]
    | first [ eapply value_effect_ran; [eassumption|rd|pev_solve|reflexivity|exact Hlk|exact Hwt|reflexivity]
            | apply value_effect_marked; [rd|left; reflexivity] ] ].
Qed.

Lemma ls_relock_cases s conn c1 k m r l ldata s' ev w c' wt :
  ls_relock s conn c1 k m r l ldata = (Some (s', ev, w), c', wt) -> aget (mgrs s) k = Some m ->
  (* probe: Expried = 0 on a LockId that holds the key *)
  (s' = s /\ w = None /\ ev = [reply conn c1 R_SUCCED (m_locked m) (l_locked l) ldata])
  (* one more level *)
  \/ ((c_expried c1 =? 0) = false
      /\ (exists cc mid lc lrc,
         ev = EGrant k r false (m_locked m) cc (c_count c1) :: mid ++ [reply conn c1 R_SUCCED lc lrc ldata]
         /\ Forall quiet mid)
      /\ value_effect c1 (has_data_flag c1) (mk_env c1 (add32 (m_locked m) 1) (m_waited m) false) (l_data (getl s r))
                      s k s' ev).
Proof.
  intros H Hm. unfold ls_relock in H.
  set (X := updl (updm s k (fun m => m <| m_locked := add32 (m_locked m) 1 |>)) r
                 (fun l => l <| l_locked := add8 (l_locked l) 1 |>)) in *.
  assert (HgdX : forall k0, gd X k0 = gd s k0).
  { intros k0. unfold X. rewrite gd_updl, gd_updm by reflexivity. reflexivity. }
  assert (HlkX : m_locked (getm X k) = add32 (m_locked m) 1).
  { unfold X. rewrite getm_updl, (getm_updm_same _ _ _ _ Hm). reflexivity. }
  assert (HwtX : m_waited (getm X k) = m_waited m).
  { unfold X. rewrite getm_updl, (getm_updm_same _ _ _ _ Hm). reflexivity. }
  assert (HldX : l_data (getl X r) = l_data (getl s r)).
  { unfold X. rewrite l_data_updl by reflexivity. rewrite getl_updm. reflexivity. }
  assert (HXs : mrel (le_mark k) true s X).
  { unfold X. apply mrel_updl. apply mrel_updm; [rd|rd|]. apply mrel_refl; rd. }
  repeat (split_hyp H); inv_tuple H.
  all: match goal with Hx : Some _ = Some _ |- _ => apply (f_equal (fun o => match o with Some x => x | None => (s, [], None) end)) in Hx; cbv beta iota in Hx; inv_tuple Hx end.
  all: try match goal with E : process_data _ _ _ _ _ = (?d1, _) |- _ =>
         assert (Hdr : mrel (le_mark k) true d1 d1) by (apply mrel_refl; rd) end.
  all: first
    [ left; split; [reflexivity|]; split; reflexivity
    | right; split; [reflexivity|]; split;
      [ do 4 eexists; split; [rewrite ?app_assoc; reflexivity|quiet_solve]
      | first [ eapply value_effect_ran; [eassumption|rd|pev_solve|exact HgdX|exact HlkX|exact HwtX|exact HldX]
              | apply value_effect_marked; [eapply mrel_trans; [rd|exact HXs|rd]|left; reflexivity] ] ] ].
Qed.

(* ------------------------------------------------------------------ Lock on a held key: all of ls_held *)
(* the request as the rest of Lock sees it: only the LockId may have been replaced (show + update re-targeting) *)
Definition retarget (c c1 : cmd) : Prop := c1 = c <| c_lockid := c_lockid c1 |>.
Lemma retarget_refl c : retarget c c.
Proof. unfold retarget. destruct c; reflexivity. Qed.
Lemma retarget_set c x : retarget c (c <| c_lockid := x |>).
Proof. unfold retarget. destruct c; reflexivity. Qed.
Lemma retarget_fields c c1 : retarget c c1 ->
  c_data c1 = c_data c /\ c_flag c1 = c_flag c /\ c_lock c1 = c_lock c /\ c_eflag c1 = c_eflag c
  /\ c_expried c1 = c_expried c /\ c_req c1 = c_req c /\ c_key c1 = c_key c /\ c_count c1 = c_count c
  /\ c_rcount c1 = c_rcount c /\ c_tflag c1 = c_tflag c /\ c_timeout c1 = c_timeout c.
Proof. intros ->. destruct c; cbn. repeat split. Qed.
Lemma retarget_env c c1 lk wt b : retarget c c1 -> mk_env c1 lk wt b = mk_env c lk wt b.
Proof.
  intros H. destruct (retarget_fields _ _ H) as (_ & H2 & H3 & H4 & H5 & _).
  unfold mk_env. rewrite H2, H3, H4, H5. reflexivity.
Qed.
Lemma retarget_data_flag c c1 : retarget c c1 -> has_data_flag c1 = has_data_flag c.
Proof. intros H. unfold has_data_flag. rewrite (proj1 (proj2 (retarget_fields _ _ H))). reflexivity. Qed.
Lemma retarget_value_effect c c1 flag env ld s k s' ev :
  retarget c c1 -> value_effect c1 flag env ld s k s' ev -> value_effect c flag env ld s k s' ev.
Proof. intros H. unfold value_effect. rewrite (proj1 (retarget_fields _ _ H)). auto. Qed.

Definition lock_refusal_or_probe (c : cmd) (code : N) : Prop :=
  code = R_UNOWN_ERROR \/ code = R_ACK_WAITING
  \/ (has (c_flag c) LOCK_FLAG_UPDATE = false /\ (code = R_LOCKED_ERROR \/ (code = R_SUCCED /\ c_expried c = 0))).

Lemma ls_held_cases s conn c k m res c1 wt :
  ls_held s conn c k m = (res, c1, wt) -> aget (mgrs s) k = Some m ->
  retarget c c1 /\
  match res with
  | None => True
  | Some (s', ev, w) =>
      (* refused, or probe of an own hold: nothing changes *)
      (s' = s /\ w = None
       /\ exists c2 code lc lrc, ev = [reply conn c2 code lc lrc (data_of s k)] /\ c_req c2 = c_req c
                                 /\ lock_refusal_or_probe c code)
      (* update of an own hold *)
      \/ (has (c_flag c) LOCK_FLAG_UPDATE = true
          /\ exists r, get_locked_lock s m (c_lockid c1) = Some r
          /\ (exists mid, ((ev = mid /\ w = None)
                           \/ exists lc lrc, ev = mid ++ [reply conn c1 R_LOCKED_ERROR lc lrc (data_of s k)])
                          /\ Forall quiet mid)
          /\ value_effect c (has_data_flag c) (mk_env c (m_locked m) (m_waited m) false) (l_data (getl s r)) s k s' ev)
      (* one more level of an own hold *)
      \/ (has (c_flag c) LOCK_FLAG_UPDATE = false /\ (c_expried c =? 0) = false
          /\ exists r, get_locked_lock s m (c_lockid c1) = Some r
          /\ (exists cc mid lc lrc,
                ev = EGrant k r false (m_locked m) cc (c_count c1) :: mid ++ [reply conn c1 R_SUCCED lc lrc (data_of s k)]
                /\ Forall quiet mid)
          /\ value_effect c (has_data_flag c) (mk_env c (add32 (m_locked m) 1) (m_waited m) false)
                          (l_data (getl s r)) s k s' ev)
  end.
Proof.
  intros H Hm. rewrite ls_held_eq in H. cbv zeta in H.
  destruct (0 <? m_locked m).
  2:{ repeat (split_hyp H); inv_tuple H; (split; [apply retarget_refl|]); auto.
      left. split; [reflexivity|]. split; [reflexivity|]. do 4 eexists. split; [reflexivity|]. split; [reflexivity|].
      left. reflexivity. }
  set (cl := c_lockid (l_cmd (getl s match m_cur m with Some cr => cr | None => 0 end))) in *.
  assert (Hrt : retarget c (if has (c_flag c) LOCK_FLAG_SHOW then c <| c_lockid := cl |> else c)).
  { destruct (has (c_flag c) LOCK_FLAG_SHOW); [apply retarget_set|apply retarget_refl]. }
  set (cx := if has (c_flag c) LOCK_FLAG_SHOW then c <| c_lockid := cl |> else c) in *.
  destruct (retarget_fields _ _ Hrt) as (Hf1 & Hf2 & Hf3 & Hf4 & Hf5 & Hf6 & Hf7 & Hf8 & Hf9 & Hf10 & Hf11).
  destruct (has (c_flag c) LOCK_FLAG_SHOW && negb (has (c_flag c) LOCK_FLAG_UPDATE)) eqn:Esu.
  { inv_tuple H. split; [exact Hrt|]. left. split; [reflexivity|]. split; [reflexivity|].
    do 4 eexists. split; [reflexivity|]. split; [cbn; exact Hf6|]. left. reflexivity. }
  destruct (get_locked_lock s m (c_lockid cx)) as [r|] eqn:Eg.
  2:{ inv_tuple H. split; [exact Hrt|exact I]. }
  destruct (negb (l_ack (getl s r) =? 255)).
  { inv_tuple H. split; [exact Hrt|]. left. split; [reflexivity|]. split; [reflexivity|].
    do 4 eexists. split; [reflexivity|]. split; [exact Hf6|]. right. left. reflexivity. }
  rewrite Hf2 in H.
  destruct (has (c_flag c) LOCK_FLAG_UPDATE) eqn:Eu.
  - (* update *)
    assert (Hc1 : c1 = cx).
    { unfold ls_update in H. repeat (split_hyp H); inv_tuple H; reflexivity. }
    subst c1. split; [exact Hrt|].
    destruct res as [[[s' ev] w]|].
    2:{ unfold ls_update in H. repeat (split_hyp H); inv_tuple H; discriminate. }
    right. left. split; [first [exact Eu|reflexivity]|]. exists r. split; [exact Eg|].
    destruct (ls_update_cases _ _ _ _ _ _ _ _ _ _ _ _ _ H Hm) as (Hshape & Hval).
    split; [exact Hshape|].
    rewrite (retarget_data_flag _ _ Hrt), (retarget_env _ _ _ _ _ Hrt) in Hval.
    eapply retarget_value_effect; eauto.
  - destruct ((l_locked (getl s r) <? 255) && (l_locked (getl s r) <=? c_rcount cx) && negb (has (c_tflag cx) TF_PRIORITY)).
    + (* re-lock *)
      assert (Hc1 : c1 = cx).
      { unfold ls_relock in H. repeat (split_hyp H); inv_tuple H; reflexivity. }
      subst c1. split; [exact Hrt|].
      destruct res as [[[s' ev] w]|].
      2:{ unfold ls_relock in H. repeat (split_hyp H); inv_tuple H; discriminate. }
      destruct (ls_relock_cases _ _ _ _ _ _ _ _ _ _ _ _ _ H Hm) as [(-> & -> & ->)|(Hnz & Hshape & Hval)].
      * unfold ls_relock in H. destruct (c_expried cx =? 0) eqn:Ez.
        -- left. split; [reflexivity|]. split; [reflexivity|]. do 4 eexists. split; [reflexivity|].
           split; [exact Hf6|]. right. right. split; [first [exact Eu|reflexivity]|]. right. split; [reflexivity|].
           rewrite <- Hf5. apply N.eqb_eq, Ez.
        -- exfalso. repeat (split_hyp H); inv_tuple H;
           match goal with Hx : Some _ = Some _ |- _ => apply (f_equal (fun o => match o with Some (_, e, _) => length e | None => O end)) in Hx; cbv beta iota in Hx end;
           rewrite !app_length in *; cbn [length] in *; lia.
      * right. right. split; [first [exact Eu|reflexivity]|]. split; [rewrite <- Hf5; exact Hnz|].
        exists r. split; [exact Eg|]. split; [exact Hshape|].
        rewrite (retarget_data_flag _ _ Hrt), (retarget_env _ _ _ _ _ Hrt) in Hval.
        eapply retarget_value_effect; eauto.
    + inv_tuple H. split; [exact Hrt|]. left. split; [reflexivity|]. split; [reflexivity|].
      do 4 eexists. split; [reflexivity|]. split; [exact Hf6|]. right. right. split; [first [exact Eu|reflexivity]|]. left. reflexivity.
Qed.
