(* Local facts, part 4b (property C04): a hold never ends without a pending wake-up pass -- every function that
   emits a release event (or answers a queued request) also returns a pass for that key.  Every state. *)
From Coq Require Import String ZifyN ZifyBool.
From Slock Require Import Engine.Types Engine.Queues Engine.Timers Engine.Engine Engine.Engine2 Engine.LocalBase
  Engine.LocalFrames Engine.LocalC01 Engine.LocalC04.
Open Scope N_scope.

Lemma unlock_step_wake_key s conn c s' ev w wk : unlock_step s conn c = (s', ev, w) -> w = Some wk -> w_key wk = c_key c.
Proof.
  unfold unlock_step, cancel_wait_lock. intros H Hw.
  repeat (split_hyp H); inv_tuple H; try discriminate.
  all: inv Hw; reflexivity.
Qed.

(* ------------------------------------------------------------------ a hold never ends without a pending pass:
   every function that emits a release event returns a wake-up pass (for the key of that release) *)
Definition no_release (e : event) : Prop := match e with ERelease _ _ _ => False | _ => True end.
Lemma quiet_ok_no_release : quiet_ok no_release.
Proof. intros [] H; simpl in *; auto. Qed.

Definition releases_only (k : N) (e : event) : Prop := match e with ERelease k' _ _ => k' = k | _ => True end.
Lemma quiet_ok_releases_only k : quiet_ok (releases_only k).
Proof. intros [] H; simpl in *; auto; contradiction. Qed.

Ltac nr_solve := ev_solve quiet_ok_no_release.
Ltac ro_solve k := ev_solve (quiet_ok_releases_only k); try reflexivity.

Lemma lock_step_no_release s conn c s' ev w : lock_step s conn c = (s', ev, w) -> Forall no_release ev.
Proof. unfold lock_step. intros H. repeat (split_hyp H); inv_tuple H; nr_solve. Qed.

Lemma cancel_wait_lock_cases s conn c s' ev w :
  cancel_wait_lock s conn c = (s', ev, w) ->
  Forall (releases_only (c_key c)) ev /\
  ((w = None /\ s' = bump (fun n => n <| n_unlockerr := (n_unlockerr n + 1)%Z |>) s
    /\ ev = [reply conn c R_UNLOCK_ERROR (m_locked (getm s (c_key c))) 0 (data_of s (c_key c))])
   \/ w = Some (mkWake (c_key c) None)).
Proof.
  unfold cancel_wait_lock. intros H. repeat (split_hyp H); inv_tuple H.
  all: split; [ro_solve (c_key c) | auto].
Qed.

Lemma release_hold_releases s k conn c r d s' ev : release_hold s k conn c r d = (s', ev) -> Forall (releases_only k) ev.
Proof. unfold release_hold. intros H. repeat (split_hyp H); inv_tuple H; ro_solve k. Qed.

Lemma unlock_step_release s conn c s' ev w :
  unlock_step s conn c = (s', ev, w) ->
  Forall (releases_only (c_key c)) ev /\ (w = None -> Forall no_release ev).
Proof.
  unfold unlock_step. intros H. repeat (split_hyp H); inv_tuple H.
  all: try match goal with E : cancel_wait_lock _ _ _ = _ |- _ =>
         apply cancel_wait_lock_cases in E; destruct E as (E1 & [(Ew & _ & Eev)|Ew]);
         [ split; [exact E1|]; intros _; rewrite Eev; nr_solve
         | split; [exact E1|]; rewrite Ew; discriminate ] end.
  all: split; [ro_solve (c_key c)|first [discriminate | intros _; nr_solve]].
  all: eapply release_hold_releases; eassumption.
Qed.

Lemma do_timeout_cases s r s' ev w :
  do_timeout s r = (s', ev, w) ->
  (w = None /\ Forall quiet ev)
  \/ (exists l, aget (store s) r = Some l /\ l_timeouted l = false /\ w = Some (mkWake (l_key l) None)
                /\ Forall (releases_only (l_key l)) ev).
Proof.
  unfold do_timeout. intros H.
  destruct (aget (store s) r) as [l|] eqn:El; [|inv_tuple H; left; split; auto; repeat constructor].
  destruct (l_timeouted l) eqn:Et; [inv_tuple H; left; split; auto; constructor|].
  right. exists l. split; auto. split; auto.
  repeat (split_hyp H); inv_tuple H.
  all: split; [reflexivity|ro_solve (l_key l)].
Qed.

Lemma do_expried_cases s r s' ev w :
  do_expried s r = (s', ev, w) ->
  (w = None /\ Forall quiet ev)
  \/ (exists l, aget (store s) r = Some l /\ l_expried l = false /\ w = Some (mkWake (l_key l) None)
                /\ Forall (releases_only (l_key l)) ev).
Proof.
  unfold do_expried. intros H.
  destruct (aget (store s) r) as [l|] eqn:El; [|inv_tuple H; left; split; auto; repeat constructor].
  destruct (l_expried l) eqn:Et; [inv_tuple H; left; split; auto; constructor|].
  match type of H with (if ?c then _ else _) = _ => destruct c end.
  - left. destruct (add_expried _ (l_key l) r) as [s1 e1] eqn:E. inv_tuple H. split; auto.
    apply only_aof_quiet. eapply add_expried_only_aof; eauto.
  - right. exists l. split; auto. split; auto.
    repeat (split_hyp H); inv_tuple H.
    all: split; [reflexivity|ro_solve (l_key l)].
Qed.

Lemma do_ack_cases s r ok s' ev w :
  do_ack s r ok = (s', ev, w) ->
  (w = None /\ Forall no_release ev)
  \/ (exists l, aget (store s) r = Some l /\ w = Some (mkWake (l_key l) None) /\ Forall (releases_only (l_key l)) ev).
Proof.
  unfold do_ack. intros H.
  destruct (aget (store s) r) as [l|] eqn:El; [|inv_tuple H; left; split; auto; repeat constructor].
  repeat (split_hyp H); inv_tuple H.
  all: first [ left; split; [reflexivity|nr_solve]
             | right; exists l; split; [reflexivity|]; split; [reflexivity|ro_solve (l_key l)] ].
Qed.

Lemma cancel_wait_lock_wake_key s conn c s' ev w wk :
  cancel_wait_lock s conn c = (s', ev, w) -> w = Some wk -> w_key wk = c_key c.
Proof.
  intros H Hw. apply cancel_wait_lock_cases in H. destruct H as (_ & [(E & _)|E]); rewrite E in Hw.
  - discriminate.
  - inv Hw. reflexivity.
Qed.
