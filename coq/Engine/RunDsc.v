(* Run-level theorems, part 3 (property C01): the "descent" frame.
   fr0 s s' : every lock record stored in s' was stored in s under the same reference, with the same key and the same
              command, and its depth l_locked in s' is at most its depth in s.
              Records may be freed; none is created; no record starts to hold or gains a level.
   Every helper of the engine except GetOrNewLock (creates a record), AddLock (l_locked := 1), the re-entrant
   increment and UpdateLockedLock (replaces the command) satisfies it, in every state.  All lemmas are in
   right-extension form `fr0 s x -> fr0 s (op x)` so that they chain by eauto (same scheme as LocalFrames.msub). *)
From Coq Require Import String ZifyN ZifyBool ZifyNat.
From Slock Require Import Engine.Types Engine.Queues Engine.Timers Engine.Engine Engine.Engine2 Engine.LocalBase.
Open Scope N_scope.

Definition same3 (l l' : lockrec) : Prop :=
  l_key l' = l_key l /\ l_cmd l' = l_cmd l /\ l_locked l' <= l_locked l.

Definition fr0 (s s' : db) : Prop :=
  forall r0 l', aget (store s') r0 = Some l' -> exists l, aget (store s) r0 = Some l /\ same3 l l'.

Lemma same3_refl l : same3 l l.
Proof. unfold same3. repeat split; auto. lia. Qed.
Lemma same3_trans a b c : same3 a b -> same3 b c -> same3 a c.
Proof. unfold same3. intros (A1 & A2 & A3) (B1 & B2 & B3). repeat split; try congruence. lia. Qed.

Create HintDb frdb.

Lemma fr0_refl s : fr0 s s.
Proof. intros r l H. exists l. split; auto. apply same3_refl. Qed.

Lemma fr0_trans a b c : fr0 a b -> fr0 b c -> fr0 a c.
Proof.
  intros H1 H2 r l3 H3. destruct (H2 _ _ H3) as (l2 & G2 & S2). destruct (H1 _ _ G2) as (l1 & G1 & S1).
  exists l1. split; auto. eapply same3_trans; eauto.
Qed.

Lemma fr0_store_eq s x x' : store x' = store x -> fr0 s x -> fr0 s x'.
Proof. intros E H r l G. rewrite E in G. eauto. Qed.

Lemma fr0_updm s x k f : fr0 s x -> fr0 s (updm x k f).
Proof. apply fr0_store_eq, store_updm. Qed.
Lemma fr0_setm s x k m : fr0 s x -> fr0 s (setm x k m).
Proof. apply fr0_store_eq. reflexivity. Qed.
Lemma fr0_updc s x f : fr0 s x -> fr0 s (updc x f).
Proof. apply fr0_store_eq. reflexivity. Qed.
Lemma fr0_bump s x f : fr0 s x -> fr0 s (bump f x).
Proof. apply fr0_store_eq. reflexivity. Qed.
Lemma fr0_remove_mgr s x k : fr0 s x -> fr0 s (remove_mgr_if_unref x k).
Proof.
  apply fr0_store_eq. unfold remove_mgr_if_unref. destruct (aget (mgrs x) k) as [m|]; auto.
  destruct (m_ref m =? 0); reflexivity.
Qed.

Lemma fr0_updl s x r f : (forall l, same3 l (f l)) -> fr0 s x -> fr0 s (updl x r f).
Proof.
  intros Hf H r0 l' G. rewrite aget_store_updl in G. destruct (r =? r0) eqn:E; [|eauto].
  apply N.eqb_eq in E. subst r0. destruct (aget (store x) r) as [l1|] eqn:E1; [|discriminate].
  cbn in G. inv G. destruct (H _ _ E1) as (l & G1 & S1). exists l. split; auto.
  eapply same3_trans; eauto.
Qed.

(* same, the side condition may use what the record is *)
Lemma fr0_updl_at s x r f : (forall l, aget (store x) r = Some l -> same3 l (f l)) -> fr0 s x -> fr0 s (updl x r f).
Proof.
  intros Hf H r0 l' G. rewrite aget_store_updl in G. destruct (r =? r0) eqn:E; [|eauto].
  apply N.eqb_eq in E. subst r0. destruct (aget (store x) r) as [l1|] eqn:E1; [|discriminate].
  cbn in G. inv G. destruct (H _ _ E1) as (l & G1 & S1). exists l. split; auto.
  eapply same3_trans; eauto.
Qed.

Lemma fr0_setl_upd s x r l1 l2 : aget (store x) r = Some l1 -> same3 l1 l2 -> fr0 s x -> fr0 s (setl x r l2).
Proof.
  intros E1 S H r0 l' G. change (store (setl x r l2)) with (aset (store x) r l2) in G. rewrite aget_aset in G.
  destruct (r =? r0) eqn:E; [|eauto]. apply N.eqb_eq in E. subst r0. inv G.
  destruct (H _ _ E1) as (l & G1 & S1). exists l. split; auto. eapply same3_trans; eauto.
Qed.

Lemma fr0_adel s x x' r : store x' = adel (store x) r -> fr0 s x -> fr0 s x'.
Proof.
  intros E H r0 l' G. rewrite E, aget_adel in G. destruct (r =? r0); [discriminate|eauto].
Qed.

(* side conditions of fr0_updl for record updates written with the RecordUpdate notation *)
Ltac same3_solve :=
  let l := fresh "l" in let H := fresh "H" in
  intros l; unfold same3; cbn; repeat split; auto; try lia.

#[export] Hint Resolve fr0_refl fr0_updm fr0_setm fr0_updc fr0_bump fr0_remove_mgr : frdb.
#[export] Hint Extern 1 (fr0 _ (set _ _ ?x)) => (eapply (fr0_store_eq _ x); [reflexivity|]) : frdb.
#[export] Hint Extern 1 (fr0 _ (if ?c then _ else _)) => destruct c : frdb.
#[export] Hint Extern 1 (fr0 _ (match ?c with _ => _ end)) => destruct c : frdb.
#[export] Hint Extern 2 (fr0 _ (updl _ _ _)) => (apply fr0_updl; [same3_solve|]) : frdb.

Ltac frs := eauto 80 with frdb.

Lemma fr0_free_lock s x r : fr0 s x -> fr0 s (free_lock x r).
Proof.
  intros H. unfold free_lock. destruct (aget (store x) r) eqn:E; auto.
  apply fr0_updm. eapply fr0_adel; [|exact H]. reflexivity.
Qed.
#[export] Hint Resolve fr0_free_lock : frdb.

Lemma fr0_unref s x r : fr0 s x -> fr0 s (unref x r).
Proof.
  intros H. unfold unref. destruct (aget (store x) r) as [l|] eqn:E; auto. cbv zeta.
  assert (H1 : fr0 s (setl x r (l <| l_refc := dec8 (l_refc l) |>))).
  { eapply fr0_setl_upd; eauto. unfold same3. cbn. repeat split; auto. lia. }
  destruct (dec8 (l_refc l) =? 0); frs.
Qed.
#[export] Hint Resolve fr0_unref : frdb.

Lemma fr0_hq_compact items : forall s x x' kept, hq_compact x items = (x', kept) -> fr0 s x -> fr0 s x'.
Proof.
  induction items as [|r rest IH]; intros s x x' kept H Hs; simpl in H.
  - inv_tuple H. auto.
  - destruct (0 <? l_locked (getl x r)).
    + destruct (hq_compact x rest) as [x1 k1] eqn:E. inv_tuple H. eauto.
    + eapply IH; [exact H|]. frs.
Qed.

Lemma fr0_hq_push s x q r x' q' : hq_push x q r = (x', q') -> fr0 s x -> fr0 s x'.
Proof.
  intros H Hs. unfold hq_push in H. repeat (split_hyp H); inv_tuple H; auto.
  all: eapply fr0_hq_compact; eauto.
Qed.

Lemma fr0_promote fuel : forall s x q x' q' nc, promote fuel x q = (x', q', nc) -> fr0 s x -> fr0 s x'.
Proof.
  induction fuel as [|f IH]; intros s x q x' q' nc H Hs; simpl in H.
  - inv_tuple H. auto.
  - destruct (hq_pop q) as [[r|] q1]; [|inv_tuple H; auto].
    destruct (0 <? l_locked (getl x r)); [inv_tuple H; auto|].
    eapply IH; [exact H|]. frs.
Qed.

Lemma fr0_drop_dead_heads fuel : forall s x q x' q', drop_dead_heads fuel x q = (x', q') -> fr0 s x -> fr0 s x'.
Proof.
  induction fuel as [|f IH]; intros s x q x' q' H Hs; simpl in H.
  - inv_tuple H. auto.
  - destruct (hq_head q) as [r|]; [|inv_tuple H; auto].
    destruct (0 <? l_locked (getl x r)); [inv_tuple H; auto|].
    destruct (hq_pop q) as [o q1]. eapply IH; [exact H|]. frs.
Qed.

Lemma fr0_remove_lock s x k r : fr0 s x -> fr0 s (remove_lock x k r).
Proof.
  intros Hs. unfold remove_lock. cbv zeta.
  match goal with |- fr0 _ (if ?c then _ else _) => destruct c end.
  - destruct (m_locks (getm _ k)) as [q|]; [|frs].
    destruct (promote _ _ q) as [[x1 q1] nc] eqn:E.
    apply fr0_updm. eapply fr0_promote; [exact E|]. frs.
  - destruct (m_locks (getm _ k)) as [q|]; [|frs].
    destruct (drop_dead_heads _ _ _) as [x1 q1] eqn:E.
    apply fr0_updm. eapply fr0_drop_dead_heads; [exact E|]. frs.
Qed.
#[export] Hint Resolve fr0_remove_lock : frdb.

Lemma fr0_wq_compact items : forall s x x' kept, wq_compact x items = (x', kept) -> fr0 s x -> fr0 s x'.
Proof.
  induction items as [|r rest IH]; intros s x x' kept H Hs; simpl in H.
  - inv_tuple H. auto.
  - destruct (dead_waiter (getl x r)).
    + eapply IH; [exact H|]. frs.
    + destruct (wq_compact x rest) as [x1 k1] eqn:E. inv_tuple H. eauto.
Qed.

Lemma fr0_wq_push s x q r x' q' : wq_push x q r = (x', q') -> fr0 s x -> fr0 s x'.
Proof.
  intros H Hs. unfold wq_push in H. repeat (split_hyp H); inv_tuple H; auto.
  all: eapply fr0_wq_compact; eauto.
Qed.

Lemma fr0_add_wait_lock s x k r : fr0 s x -> fr0 s (add_wait_lock x k r).
Proof.
  intros Hs. unfold add_wait_lock. cbv zeta.
  destruct (wq_push x _ r) as [x1 q1] eqn:E.
  apply fr0_updm. apply fr0_updl; [same3_solve|]. eapply fr0_wq_push; eauto.
Qed.
#[export] Hint Resolve fr0_add_wait_lock : frdb.

Lemma fr0_get_wait_loop fuel : forall s x q x' q' res, get_wait_loop fuel x q = (x', q', res) -> fr0 s x -> fr0 s x'.
Proof.
  induction fuel as [|f IH]; intros s x q x' q' res H Hs; simpl in H.
  - inv_tuple H. auto.
  - destruct (wq_head q) as [r|]; [|inv_tuple H; auto].
    destruct (dead_waiter (getl x r)); [|inv_tuple H; auto].
    eapply IH; [exact H|]. frs.
Qed.

Lemma fr0_get_wait_lock s x k x' res : get_wait_lock x k = (x', res) -> fr0 s x -> fr0 s x'.
Proof.
  intros H Hs. unfold get_wait_lock in H.
  destruct (m_wait (getm x k)) as [q|]; [|inv_tuple H; auto].
  destruct (get_wait_loop _ x q) as [[x1 q1] r1] eqn:E. inv_tuple H.
  apply fr0_updm. eapply fr0_get_wait_loop; eauto.
Qed.

Lemma fr0_push_lock_aof s x k r fl x' ev : push_lock_aof x k r fl = (x', ev) -> fr0 s x -> fr0 s x'.
Proof. intros H Hs. unfold push_lock_aof in H. repeat (split_hyp H); inv_tuple H; frs. Qed.

Lemma fr0_push_unlock_aof s x k r lc uc b fl x' ev : push_unlock_aof x k r lc uc b fl = (x', ev) -> fr0 s x -> fr0 s x'.
Proof. intros H Hs. unfold push_unlock_aof in H. repeat (split_hyp H); inv_tuple H; frs. Qed.

Lemma fr0_repeat_push_lock_aof n : forall s x k r x' ev, repeat_push_lock_aof n x k r = (x', ev) -> fr0 s x -> fr0 s x'.
Proof.
  induction n as [|n IH]; intros s x k r x' ev H Hs; simpl in H.
  - inv_tuple H. auto.
  - destruct (push_lock_aof x k r 0) as [x1 e1] eqn:E1.
    destruct (repeat_push_lock_aof n x1 k r) as [x2 e2] eqn:E2. inv_tuple H.
    eapply IH; [exact E2|]. eapply fr0_push_lock_aof; eauto.
Qed.

Lemma fr0_add_timeout s x r : fr0 s x -> fr0 s (add_timeout x r).
Proof. intros Hs. unfold add_timeout. cbv zeta. frs. Qed.
Lemma fr0_remove_long_timeout s x r : fr0 s x -> fr0 s (remove_long_timeout x r).
Proof. intros Hs. unfold remove_long_timeout. cbv zeta. frs. Qed.
Lemma fr0_remove_long_expried s x r eT : fr0 s x -> fr0 s (remove_long_expried x r eT).
Proof. intros Hs. unfold remove_long_expried. frs. Qed.
#[export] Hint Resolve fr0_add_timeout fr0_remove_long_timeout fr0_remove_long_expried : frdb.

Lemma fr0_add_expried s x k r x' ev : add_expried x k r = (x', ev) -> fr0 s x -> fr0 s x'.
Proof.
  intros H Hs. unfold add_expried in H. cbv zeta in H.
  match type of H with (if ?c then _ else _) = _ => destruct c end.
  - eapply fr0_repeat_push_lock_aof; [exact H|]. frs.
  - inv_tuple H. frs.
Qed.

Lemma fr0_process_data s x k r c b x' ev : process_data x k r c b = (x', ev) -> fr0 s x -> fr0 s x'.
Proof. intros H Hs. unfold process_data in H. repeat (split_hyp H); inv_tuple H; frs. Qed.

(* equation-form lemmas, used on variables bound by a destructed let *)
Ltac fr_eq :=
  match goal with
  | E : hq_push _ _ _ = (?y, _) |- fr0 _ ?y => eapply fr0_hq_push; [exact E|]
  | E : wq_push _ _ _ = (?y, _) |- fr0 _ ?y => eapply fr0_wq_push; [exact E|]
  | E : get_wait_lock _ _ = (?y, _) |- fr0 _ ?y => eapply fr0_get_wait_lock; [exact E|]
  | E : push_lock_aof _ _ _ _ = (?y, _) |- fr0 _ ?y => eapply fr0_push_lock_aof; [exact E|]
  | E : push_unlock_aof _ _ _ _ _ _ _ = (?y, _) |- fr0 _ ?y => eapply fr0_push_unlock_aof; [exact E|]
  | E : add_expried _ _ _ = (?y, _) |- fr0 _ ?y => eapply fr0_add_expried; [exact E|]
  | E : process_data _ _ _ _ _ = (?y, _) |- fr0 _ ?y => eapply fr0_process_data; [exact E|]
  end.
#[export] Hint Extern 1 (fr0 _ ?y) => is_var y; fr_eq : frdb.

(* ---------------------------------------------------------------- critical sections that start no hold *)
Lemma fr0_release_hold s x k conn c r d x' ev : release_hold x k conn c r d = (x', ev) -> fr0 s x -> fr0 s x'.
Proof.
  intros H Hs. unfold release_hold in H. cbv zeta in H.
  repeat (split_hyp H); inv_tuple H.
  all: frs.
Qed.

Lemma fr0_cancel_wait_lock s conn c s' ev w : cancel_wait_lock s conn c = (s', ev, w) -> fr0 s s'.
Proof.
  unfold cancel_wait_lock. intros H. repeat (split_hyp H); inv_tuple H.
  all: frs.
Qed.

(* one level of a re-entrant hold: the guard 1 < depth keeps the hold alive *)
Lemma fr0_updl_dec8 s x r :
  (1 <? l_locked (getl x r)) = true -> fr0 s x -> fr0 s (updl x r (fun l => l <| l_locked := dec8 (l_locked l) |>)).
Proof.
  intros Hg. apply fr0_updl_at. intros l E. unfold getl in Hg. rewrite E in Hg. apply N.ltb_lt in Hg.
  unfold same3. cbn. repeat split; auto. unfold dec8.
  destruct (N.le_gt_cases (l_locked l) 256) as [B|B].
  - replace (l_locked l + 255) with ((l_locked l - 1) + 1 * 256) by lia. rewrite N.mod_add by lia.
    pose proof (N.mod_le (l_locked l - 1) 256). lia.
  - pose proof (N.mod_upper_bound (l_locked l + 255) 256). lia.
Qed.

Lemma fr0_unlock_step s conn c s' ev w : unlock_step s conn c = (s', ev, w) -> fr0 s s'.
Proof.
  unfold unlock_step. intros H. repeat (split_hyp H); inv_tuple H.
  all: try (eapply fr0_cancel_wait_lock; eassumption).
  all: try (eapply fr0_release_hold; [eassumption|]; frs).
  all: try solve [frs].
  all: repeat (first [apply fr0_bump | fr_eq | apply fr0_updm]).
  all: apply fr0_updl_dec8; [assumption|apply fr0_refl].
Qed.

Lemma fr0_do_timeout s r s' ev w : do_timeout s r = (s', ev, w) -> fr0 s s'.
Proof.
  unfold do_timeout. intros H. repeat (split_hyp H); inv_tuple H.
  all: frs.
Qed.

Lemma fr0_do_expried s r s' ev w : do_expried s r = (s', ev, w) -> fr0 s s'.
Proof.
  unfold do_expried. intros H. repeat (split_hyp H); inv_tuple H.
  all: frs.
Qed.

(* ---------------------------------------------------------------- the collecting halves of the sweepers *)
Lemma fr0_sweep_t_slot fuel : forall s x slot nowv due x' due',
  sweep_t_slot fuel x slot nowv due = (x', due') -> fr0 s x -> fr0 s x'.
Proof.
  induction fuel as [|f IH]; intros s x slot nowv due x' due' H Hs; simpl in H.
  - inv_tuple H. auto.
  - repeat (split_hyp H); try (inv_tuple H; frs).
    all: eapply IH; [exact H|]; frs.
Qed.

Lemma fr0_sweep_long items : forall s x b due x' due', sweep_long x items b due = (x', due') -> fr0 s x -> fr0 s x'.
Proof.
  induction items as [|r rest IH]; intros s x b due x' due' H Hs; simpl in H.
  - inv_tuple H. auto.
  - repeat (split_hyp H); try (inv_tuple H; frs).
    all: eapply IH; [exact H|]; frs.
Qed.

Lemma fr0_collect_timeouts s t nowv s' due : collect_timeouts s t nowv = (s', due) -> fr0 s s'.
Proof.
  unfold collect_timeouts. intros H.
  destruct (sweep_t_slot _ s (slot_of t) nowv []) as [s1 d1] eqn:E1.
  apply fr0_sweep_t_slot with (s := s) in E1; [|apply fr0_refl].
  destruct (aget (tlong s1) (lkey t)) as [items|]; [|inv_tuple H; auto].
  eapply fr0_sweep_long; [exact H|]. frs.
Qed.

Lemma fr0_sweep_e_slot fuel : forall s x slot nowv due ev x' due' ev',
  sweep_e_slot fuel x slot nowv due ev = (x', due', ev') -> fr0 s x -> fr0 s x'.
Proof.
  induction fuel as [|f IH]; intros s x slot nowv due ev x' due' ev' H Hs; simpl in H.
  - inv_tuple H. auto.
  - repeat (split_hyp H); try (inv_tuple H; frs).
    all: eapply IH; [exact H|]; frs.
Qed.

Lemma fr0_collect_expiries s t nowv s' due ev : collect_expiries s t nowv = (s', due, ev) -> fr0 s s'.
Proof.
  unfold collect_expiries. intros H.
  destruct (sweep_e_slot _ s (slot_of t) nowv [] []) as [[s1 d1] e1] eqn:E1.
  apply fr0_sweep_e_slot with (s := s) in E1; [|apply fr0_refl].
  destruct (aget (elong s1) (lkey t)) as [items|]; [|inv_tuple H; auto].
  destruct (sweep_long _ items false d1) as [s2 d2] eqn:E2. inv_tuple H.
  eapply fr0_sweep_long; [exact E2|]. frs.
Qed.
