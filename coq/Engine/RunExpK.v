(* Run-level expiry theorems (property C06), part 1: the long-table integrity invariant KL and the frame relation kfr.
   KL s : every stored entry of the long TIMEOUT table is a live waiter with longWaitIndex set, stored under its
          deadline; every stored entry of the long EXPIRY table is a record that is no live waiter, and if it is a
          live hold (l_expried = false) it has longWaitIndex set and is stored under its CURRENT deadline.
   kfr s s' : the two long tables are unchanged and every record stored in s' was stored in s with the same
          (l_long, l_timeouted, l_expried, l_eT, l_tT, l_start, l_cmd); records may be freed.
   All kfr lemmas are in right-extension form `kfr s x -> kfr s (op x)`.  Nothing here needs the heap invariant. *)
From Coq Require Import String ZifyN ZifyBool ZifyNat.
From Slock Require Import Engine.Types Engine.Queues Engine.Timers Engine.Engine Engine.Engine2.
From Slock Require Import Engine.TimeBase Engine.LocalBase Engine.TimeExp.
Open Scope N_scope.

Definition ksame (l l' : lockrec) : Prop :=
  l_long l' = l_long l /\ l_timeouted l' = l_timeouted l /\ l_expried l' = l_expried l
  /\ l_eT l' = l_eT l /\ l_tT l' = l_tT l /\ l_start l' = l_start l /\ l_cmd l' = l_cmd l.

Lemma ksame_refl l : ksame l l.
Proof. unfold ksame; intuition. Qed.
Lemma ksame_trans a b c : ksame a b -> ksame b c -> ksame a c.
Proof. unfold ksame; intuition congruence. Qed.

Definition kfr (s s' : db) : Prop :=
  tlong s' = tlong s /\ elong s' = elong s /\
  forall r l', aget (store s') r = Some l' -> exists l, aget (store s) r = Some l /\ ksame l l'.

Lemma kfr_refl s : kfr s s.
Proof. split; [|split]; auto. intros r l' H. exists l'. split; auto. apply ksame_refl. Qed.

Lemma kfr_trans a b c : kfr a b -> kfr b c -> kfr a c.
Proof.
  intros (A1 & A2 & A3) (B1 & B2 & B3). split; [congruence|]. split; [congruence|].
  intros r l' H. destruct (B3 r l' H) as (l1 & G1 & S1). destruct (A3 r l1 G1) as (l0 & G0 & S0).
  exists l0. split; auto. eapply ksame_trans; eauto.
Qed.

Lemma kfr_view s x x' : store x' = store x -> tlong x' = tlong x -> elong x' = elong x -> kfr s x -> kfr s x'.
Proof. intros E1 E2 E3 (A1 & A2 & A3). split; [congruence|]. split; [congruence|]. rewrite E1. exact A3. Qed.

Lemma kfr_tview s x x' : tview x' = tview x -> kfr s x -> kfr s x'.
Proof. unfold tview. intros E. injection E as E1 E2 E3 E4 E5 E6 E7 E8 E9 E10. apply kfr_view; auto. Qed.

Lemma kfr_updm s x k f : kfr s x -> kfr s (updm x k f).
Proof. apply kfr_tview, updm_tview. Qed.
Lemma kfr_setm s x k m : kfr s x -> kfr s (setm x k m).
Proof. apply kfr_tview, setm_tview. Qed.
Lemma kfr_updc s x f : kfr s x -> kfr s (updc x f).
Proof. apply kfr_tview, updc_tview. Qed.
Lemma kfr_bump s x f : kfr s x -> kfr s (bump f x).
Proof. apply kfr_tview, bump_tview. Qed.
Lemma kfr_remove_mgr s x k : kfr s x -> kfr s (remove_mgr_if_unref x k).
Proof. apply kfr_tview, remove_mgr_tview. Qed.
Lemma kfr_ewheel s x w : kfr s x -> kfr s (x <| ewheel := w |>).
Proof. apply kfr_view; reflexivity. Qed.
Lemma kfr_twheel s x w : kfr s x -> kfr s (x <| twheel := w |>).
Proof. apply kfr_view; reflexivity. Qed.

Lemma kfr_updl s x r f : (forall l, ksame l (f l)) -> kfr s x -> kfr s (updl x r f).
Proof.
  intros Hf (A1 & A2 & A3). split; [rewrite updl_tlong; auto|]. split; [rewrite updl_elong; auto|].
  intros r' l' H. rewrite aget_updl in H. destruct (r =? r').
  - destruct (aget (store x) r') as [l1|] eqn:G; cbn in H; [|discriminate]. injection H as <-.
    destruct (A3 r' l1 G) as (l0 & G0 & S0). exists l0. split; auto. eapply ksame_trans; eauto.
  - auto.
Qed.

Lemma kfr_setl s x r l l' : aget (store x) r = Some l -> ksame l l' -> kfr s x -> kfr s (setl x r l').
Proof.
  intros G S (A1 & A2 & A3). split; [exact A1|]. split; [exact A2|].
  intros r' l1 H. rewrite aget_setl in H. destruct (r =? r') eqn:E.
  - apply N.eqb_eq in E. subst r'. injection H as <-. destruct (A3 r l G) as (l0 & G0 & S0).
    exists l0. split; auto. eapply ksame_trans; eauto.
  - auto.
Qed.

Lemma kfr_del s x r : kfr s x -> kfr s (x <| store := adel (store x) r |>).
Proof.
  intros (A1 & A2 & A3). split; [exact A1|]. split; [exact A2|].
  intros r' l1 H. change (aget (adel (store x) r) r' = Some l1) in H. rewrite TimeBase.aget_adel in H.
  destruct (r =? r'); [discriminate|auto].
Qed.

Lemma kfr_free_lock s x r : kfr s x -> kfr s (free_lock x r).
Proof. intros H. unfold free_lock. destruct (aget (store x) r); auto. apply kfr_updm, kfr_del, H. Qed.

Lemma kfr_unref s x r : kfr s x -> kfr s (unref x r).
Proof.
  intros H. unfold unref. destruct (aget (store x) r) as [l|] eqn:G; auto.
  assert (H1 : kfr s (setl x r (l <| l_refc := dec8 (l_refc l) |>))).
  { eapply kfr_setl; eauto. unfold ksame; cbn; intuition. }
  destruct (dec8 (l_refc l) =? 0); auto. apply kfr_free_lock; auto.
Qed.

Lemma kfr_unref_rm s x r k : kfr s x ->
  kfr s (if match aget (store (unref x r)) r with None => true | Some _ => false end
         then remove_mgr_if_unref (unref x r) k else unref x r).
Proof.
  intros H. destruct (match aget (store (unref x r)) r with None => true | Some _ => false end);
    [apply kfr_remove_mgr|]; apply kfr_unref; auto.
Qed.

Create HintDb kdb.
#[export] Hint Resolve kfr_updm kfr_setm kfr_updc kfr_bump kfr_remove_mgr kfr_free_lock kfr_unref kfr_ewheel kfr_twheel : kdb.
#[export] Hint Extern 2 (kfr _ (updl _ _ _)) => (apply kfr_updl; [intros ?; unfold ksame; cbn; intuition|]) : kdb.
#[export] Hint Extern 1 (kfr _ (if ?c then _ else _)) => destruct c : kdb.
#[export] Hint Extern 1 (kfr _ (match ?c with _ => _ end)) => destruct c : kdb.
Ltac kf := eauto 60 with kdb.

(* ---------------------------------------------------------------- queues *)
Lemma kfr_hq_compact items : forall s x, kfr s x -> kfr s (fst (hq_compact x items)).
Proof.
  induction items as [|r t IH]; intros s x H; simpl; [exact H|].
  destruct (0 <? l_locked (getl x r)).
  - specialize (IH s x H). destruct (hq_compact x t). exact IH.
  - apply IH. kf.
Qed.
Lemma kfr_wq_compact items : forall s x, kfr s x -> kfr s (fst (wq_compact x items)).
Proof.
  induction items as [|r t IH]; intros s x H; simpl; [exact H|].
  destruct (dead_waiter (getl x r)).
  - apply IH. kf.
  - specialize (IH s x H). destruct (wq_compact x t). exact IH.
Qed.
Lemma kfr_hq_push s x q r : kfr s x -> kfr s (fst (hq_push x q r)).
Proof.
  intros H. unfold hq_push. destruct (hq_scale q) as [[it mp]|]; [exact H|].
  destruct (hq_cap q =? 0); [exact H|]. destruct (hq_len q <? hq_cap q); [exact H|].
  destruct (hq_fast q) eqn:FQ; [exact H|]. rewrite <- FQ.
  pose proof (kfr_hq_compact (hq_fast q) s x H) as A. destruct (hq_compact x (hq_fast q)) as [s' kept]. cbn [fst] in A.
  destruct (N.of_nat (length kept) <? hq_len q); [|destruct (hq_cap q <=? 128)]; exact A.
Qed.
Lemma kfr_wq_push s x q r : kfr s x -> kfr s (fst (wq_push x q r)).
Proof.
  intros H. unfold wq_push. destruct (wq_mode q); try exact H.
  destruct (wq_cap q =? 0); [exact H|]. destruct (wq_len q <? wq_cap q); [exact H|].
  destruct (wq_fast q) eqn:FQ; [exact H|]. rewrite <- FQ.
  pose proof (kfr_wq_compact (wq_fast q) s x H) as A. destruct (wq_compact x (wq_fast q)) as [s' kept]. cbn [fst] in A.
  destruct (N.of_nat (length kept) <? wq_len q); [|destruct (wq_cap q <=? 128)]; exact A.
Qed.
Lemma kfr_promote fuel : forall s x q, kfr s x -> kfr s (fst (fst (promote fuel x q))).
Proof.
  induction fuel as [|f IH]; intros s x q H; simpl; [exact H|].
  destruct (hq_pop q) as [[r|] q']; [|exact H].
  destruct (0 <? l_locked (getl x r)); [exact H|]. apply IH. kf.
Qed.
Lemma kfr_drop_dead fuel : forall s x q, kfr s x -> kfr s (fst (drop_dead_heads fuel x q)).
Proof.
  induction fuel as [|f IH]; intros s x q H; simpl; [exact H|].
  destruct (hq_head q) as [r|]; [|exact H].
  destruct (0 <? l_locked (getl x r)); [exact H|]. destruct (hq_pop q) as [o q']. apply IH. kf.
Qed.
Lemma kfr_remove_lock s x k r : kfr s x -> kfr s (remove_lock x k r).
Proof.
  intros H. unfold remove_lock. cbv zeta.
  set (x1 := updl x r (fun l => l <| l_locked := 0 |> <| l_ack := 255 |>)).
  assert (H1 : kfr s x1) by (unfold x1; kf).
  destruct (match m_cur (getm x1 k) with Some c => c =? r | None => false end).
  - destruct (m_locks (getm x1 k)) as [q|]; [|kf].
    match goal with |- context [promote ?f ?a ?b] =>
      pose proof (kfr_promote f s a b) as A; destruct (promote f a b) as [[s' q'] nc] end.
    cbn [fst] in A. apply kfr_updm. apply A. kf.
  - destruct (m_locks (getm x1 k)) as [q|]; [|exact H1].
    match goal with |- context [drop_dead_heads ?f ?a ?b] =>
      pose proof (kfr_drop_dead f s a b H1) as A; destruct (drop_dead_heads f a b) as [s' q'] end.
    cbn [fst] in A. apply kfr_updm. exact A.
Qed.
Lemma kfr_add_wait_lock s x k r : kfr s x -> kfr s (add_wait_lock x k r).
Proof.
  intros H. unfold add_wait_lock. cbv zeta.
  match goal with |- context [wq_push x ?q r] => pose proof (kfr_wq_push s x q r H) as A; destruct (wq_push x q r) as [s' q'] end.
  cbn [fst] in A. kf.
Qed.
Lemma kfr_get_wait_loop fuel : forall s x q, kfr s x -> kfr s (fst (fst (get_wait_loop fuel x q))).
Proof.
  induction fuel as [|f IH]; intros s x q H; simpl; [exact H|].
  destruct (wq_head q) as [r|]; [|exact H].
  destruct (dead_waiter (getl x r)); [|exact H]. apply IH. kf.
Qed.
Lemma kfr_get_wait_lock s x k : kfr s x -> kfr s (fst (get_wait_lock x k)).
Proof.
  intros H. unfold get_wait_lock. destruct (m_wait (getm x k)) as [q|]; [|exact H].
  match goal with |- context [get_wait_loop ?f x q] =>
    pose proof (kfr_get_wait_loop f s x q H) as A; destruct (get_wait_loop f x q) as [[s' q'] w] end.
  cbn [fst] in *. kf.
Qed.
#[export] Hint Resolve kfr_remove_lock kfr_add_wait_lock : kdb.

(* ---------------------------------------------------------------- AOF emission, value layer *)
Lemma kfr_push_lock_aof s x k r fl : kfr s x -> kfr s (fst (push_lock_aof x k r fl)).
Proof.
  intros H. unfold push_lock_aof. destruct (negb (leader x)); [exact H|].
  destruct (has _ _); cbn [fst]; [kf|].
  destruct (aof_lock_data _ _ _) as [[d cur'] ld']. cbn [fst]. kf.
Qed.
Lemma kfr_push_unlock_aof s x k r lc uc b fl : kfr s x -> kfr s (fst (push_unlock_aof x k r lc uc b fl)).
Proof.
  intros H. unfold push_unlock_aof. destruct (negb (leader x)); [exact H|].
  destruct (match uc with Some u => has (c_flag u) UNLOCK_FLAG_FROM_AOF | None => false end); cbn [fst]; [kf|].
  destruct (aof_lock_data _ _ _) as [[d cur'] ld']. cbn [fst]. kf.
Qed.
Lemma kfr_repeat_push n : forall s x k r, kfr s x -> kfr s (fst (repeat_push_lock_aof n x k r)).
Proof.
  induction n as [|n IH]; intros s x k r H; simpl; [exact H|].
  pose proof (kfr_push_lock_aof s x k r 0 H) as A. destruct (push_lock_aof x k r 0) as [x1 e1]. cbn [fst] in A.
  specialize (IH s x1 k r A). destruct (repeat_push_lock_aof n x1 k r) as [x2 e2]. exact IH.
Qed.
Lemma kfr_process_data s x k r c b : kfr s x -> kfr s (fst (process_data x k r c b)).
Proof.
  intros H. unfold process_data. destruct (c_data c); [|exact H].
  destruct (process_lock_data _ _ _ _) as [[cur' ld']| | |]; cbn [fst]; kf.
Qed.

(* ---------------------------------------------------------------- the invariant *)
Record KL (s : db) : Prop := mkKL {
  kl_t : forall kk r l, In r (wheel_get (tlong s) kk) -> aget (store s) r = Some l ->
         l_timeouted l = false /\ l_long l = true /\ lkey (l_tT l) = kk;
  kl_e1 : forall kk r l, In r (wheel_get (elong s) kk) -> aget (store s) r = Some l -> l_timeouted l = true;
  kl_e2 : forall kk r l, In r (wheel_get (elong s) kk) -> aget (store s) r = Some l -> l_expried l = false ->
          l_long l = true /\ lkey (l_eT l) = kk
}.

Lemma KL_kfr s s' : KL s -> kfr s s' -> KL s'.
Proof.
  intros [K1 K2 K3] (A1 & A2 & A3). constructor.
  - intros kk r l' I G. rewrite A1 in I. destruct (A3 r l' G) as (l & G0 & (S1 & S2 & S3 & S4 & S5 & _)).
    rewrite S1, S2, S5. eauto.
  - intros kk r l' I G. rewrite A2 in I. destruct (A3 r l' G) as (l & G0 & (S1 & S2 & S3 & S4 & S5 & _)).
    rewrite S2. eauto.
  - intros kk r l' I G X. rewrite A2 in I. destruct (A3 r l' G) as (l & G0 & (S1 & S2 & S3 & S4 & S5 & _)).
    rewrite S1, S4. rewrite S3 in X. eauto.
Qed.

Lemma KL_init t0 a : KL (init_db t0 a).
Proof. constructor; intros kk r l []. Qed.

(* a record that is in no long table may be rewritten at will *)
Lemma KL_setl_out s r l' :
  KL s -> (forall kk, ~ In r (wheel_get (tlong s) kk)) -> (forall kk, ~ In r (wheel_get (elong s) kk)) -> KL (setl s r l').
Proof.
  intros [K1 K2 K3] NT NE. constructor.
  - intros kk x l I G. change (tlong (setl s r l')) with (tlong s) in I. rewrite aget_setl in G.
    destruct (r =? x) eqn:E; [apply N.eqb_eq in E; subst x; exfalso; eapply NT; eauto|eauto].
  - intros kk x l I G. change (elong (setl s r l')) with (elong s) in I. rewrite aget_setl in G.
    destruct (r =? x) eqn:E; [apply N.eqb_eq in E; subst x; exfalso; eapply NE; eauto|eauto].
  - intros kk x l I G. change (elong (setl s r l')) with (elong s) in I. rewrite aget_setl in G.
    destruct (r =? x) eqn:E; [apply N.eqb_eq in E; subst x; exfalso; eapply NE; eauto|eauto].
Qed.

(* a record that is no live waiter is in no bucket of the long timeout table *)
Lemma KL_dead_not_tlong s r l kk : KL s -> aget (store s) r = Some l -> l_timeouted l = true -> ~ In r (wheel_get (tlong s) kk).
Proof. intros K G T I. destruct (kl_t _ K kk r l I G) as (A & _). congruence. Qed.
(* a live waiter is in no bucket of the long expiry table *)
Lemma KL_live_not_elong s r l kk : KL s -> aget (store s) r = Some l -> l_timeouted l = false -> ~ In r (wheel_get (elong s) kk).
Proof. intros K G T I. pose proof (kl_e1 _ K kk r l I G). congruence. Qed.

(* rewriting a stored record that is no live waiter and whose expiry-side fields (l_long, l_expried, l_eT) are kept,
   or that is dead on the expiry side before and after *)
Lemma KL_setl_dead s r l l' :
  KL s -> aget (store s) r = Some l -> l_timeouted l = true -> l_timeouted l' = true ->
  (l_expried l' = true \/ (l_expried l' = l_expried l /\ l_long l' = l_long l /\ l_eT l' = l_eT l)) ->
  KL (setl s r l').
Proof.
  intros K G T T' X. pose proof K as [K1 K2 K3]. constructor.
  - intros kk x lx I Gx. change (tlong (setl s r l')) with (tlong s) in I. rewrite aget_setl in Gx.
    destruct (r =? x) eqn:E; [apply N.eqb_eq in E; subst x; exfalso; eapply KL_dead_not_tlong; eauto|eauto].
  - intros kk x lx I Gx. change (elong (setl s r l')) with (elong s) in I. rewrite aget_setl in Gx.
    destruct (r =? x) eqn:E; [injection Gx as <-; auto|eauto].
  - intros kk x lx I Gx Ex. change (elong (setl s r l')) with (elong s) in I. rewrite aget_setl in Gx.
    destruct (r =? x) eqn:E; [|eauto]. apply N.eqb_eq in E; subst x. injection Gx as <-.
    destruct X as [X|(X1 & X2 & X3)]; [congruence|]. rewrite X2, X3. apply (K3 kk r l); auto. congruence.
Qed.

Lemma KL_updl_dead s r l f :
  KL s -> aget (store s) r = Some l -> l_timeouted l = true -> l_timeouted (f l) = true ->
  (l_expried (f l) = true \/ (l_expried (f l) = l_expried l /\ l_long (f l) = l_long l /\ l_eT (f l) = l_eT l)) ->
  KL (updl s r f).
Proof. intros K G T T' X. unfold updl. rewrite G. eapply KL_setl_dead; eauto. Qed.

(* wheels and tables: membership after the table updates of RemoveLong* *)
Lemma in_long_remove (w : amap (list ref)) kk0 q r kk x :
  aget w kk0 = Some q ->
  In x (wheel_get (match remove_ref q r with [] => adel w kk0 | _ :: _ => aset w kk0 (remove_ref q r) end) kk)
  <-> In x (wheel_get w kk) /\ (kk = kk0 -> x <> r).
Proof.
  intros G. unfold wheel_get at 1. destruct (remove_ref q r) eqn:RR.
  - rewrite TimeBase.aget_adel. destruct (kk0 =? kk) eqn:E.
    + apply N.eqb_eq in E; subst kk. unfold wheel_get; rewrite G. split; [intros []|].
      intros [I N]. assert (In x (remove_ref q r)) as H by (apply in_remove_ref; auto). rewrite RR in H; auto.
    + apply N.eqb_neq in E. fold (wheel_get w kk). intuition.
  - rewrite <- RR. rewrite TimeBase.aget_aset. destruct (kk0 =? kk) eqn:E.
    + apply N.eqb_eq in E; subst kk. unfold wheel_get; rewrite G. rewrite in_remove_ref. intuition.
    + apply N.eqb_neq in E. fold (wheel_get w kk). intuition.
Qed.

(* ---------------------------------------------------------------- AddTimeOut *)
Lemma KL_add_timeout s r :
  KL s -> (forall kk, ~ In r (wheel_get (tlong s) kk)) -> (forall kk, ~ In r (wheel_get (elong s) kk)) ->
  KL (add_timeout s r).
Proof.
  intros K NT NE. unfold add_timeout. cbv zeta.
  destruct (aget (store s) r) as [l|] eqn:G.
  - set (s1 := updl s r (fun l => l <| l_timeouted := false |>)).
    assert (G1 : aget (store s1) r = Some (l <| l_timeouted := false |>)).
    { unfold s1. rewrite aget_updl, N.eqb_refl, G. reflexivity. }
    assert (K1 : KL s1) by (unfold s1, updl; rewrite G; apply KL_setl_out; auto).
    assert (NT1 : forall kk, ~ In r (wheel_get (tlong s1) kk)) by (unfold s1; rewrite updl_tlong; auto).
    assert (NE1 : forall kk, ~ In r (wheel_get (elong s1) kk)) by (unfold s1; rewrite updl_elong; auto).
    clearbody s1. rewrite (getl_some _ _ _ G1).
    destruct (QUEUE_MAX_WAIT <? l_tcc (l <| l_timeouted := false |>)).
    + set (tT := if (l_tT (l <| l_timeouted := false |>) <? checkT s1)%Z then checkT s1 else l_tT (l <| l_timeouted := false |>)).
      unfold updl. rewrite G1.
      set (l2 := l <| l_timeouted := false |> <| l_tT := tT |> <| l_long := true |>).
      assert (K2 : KL (setl s1 r l2)) by (apply KL_setl_out; auto).
      destruct K2 as [A1 A2 A3]. constructor.
      * intros kk x lx I Gx. cbn in I. apply in_wheel_push in I. destruct I as [I|[<- ->]]; [eapply A1; eauto|].
        cbn in Gx. change (aget (store (setl s1 r l2)) r = Some lx) in Gx. rewrite aget_setl, N.eqb_refl in Gx.
        injection Gx as <-. unfold l2; cbn. auto.
      * intros kk x lx I Gx. eapply A2; eauto.
      * intros kk x lx I Gx. eapply A3; eauto.
    + set (s2 := s1 <| twheel := _ |>).
      assert (K2 : KL s2) by (eapply KL_kfr; [exact K1|apply kfr_twheel, kfr_refl]).
      unfold updl. change (store s2) with (store s1). rewrite G1. apply KL_setl_out; auto.
  - (* not stored: nothing but a table entry for an absent record *)
    assert (U : forall f, updl s r f = s) by (intros f; unfold updl; rewrite G; reflexivity).
    rewrite U. unfold getl. rewrite G.
    destruct (QUEUE_MAX_WAIT <? l_tcc dummy_lock).
    + rewrite U. destruct K as [A1 A2 A3]. constructor.
      * intros kk x lx I Gx. cbn in I. apply in_wheel_push in I. destruct I as [I|[_ ->]]; [eapply A1; eauto|].
        cbn in Gx. congruence.
      * intros kk x lx I Gx. eapply A2; eauto.
      * intros kk x lx I Gx. eapply A3; eauto.
    + unfold updl. cbn. rewrite G. eapply KL_kfr; [exact K|apply kfr_twheel, kfr_refl].
Qed.

(* ---------------------------------------------------------------- AddExpried *)
Lemma kfr_add_expried_arm s0 s k r : kfr s0 (arm s r) -> kfr s0 (fst (add_expried s k r)).
Proof.
  intros H. unfold add_expried. fold (arm s r). cbv zeta.
  match goal with |- context [if ?b then _ else _] => destruct b end; [apply kfr_repeat_push|]; exact H.
Qed.

Lemma KL_arm s r :
  KL s -> (forall kk, ~ In r (wheel_get (elong s) kk)) -> (forall l, aget (store s) r = Some l -> l_timeouted l = true) ->
  KL (arm s r).
Proof.
  intros K NE T. unfold arm. cbv zeta.
  destruct (aget (store s) r) as [l|] eqn:G.
  - specialize (T l eq_refl).
    assert (NT : forall kk, ~ In r (wheel_get (tlong s) kk)) by (intros kk; eapply KL_dead_not_tlong; eauto).
    set (s1 := updl s r (fun l => l <| l_expried := false |>)).
    assert (G1 : aget (store s1) r = Some (l <| l_expried := false |>)).
    { unfold s1. rewrite aget_updl, N.eqb_refl, G. reflexivity. }
    assert (K1 : KL s1) by (unfold s1, updl; rewrite G; apply KL_setl_out; auto).
    assert (NT1 : forall kk, ~ In r (wheel_get (tlong s1) kk)) by (unfold s1; rewrite updl_tlong; auto).
    assert (NE1 : forall kk, ~ In r (wheel_get (elong s1) kk)) by (unfold s1; rewrite updl_elong; auto).
    clearbody s1. rewrite (getl_some _ _ _ G1).
    destruct (QUEUE_MAX_WAIT <? l_ecc (l <| l_expried := false |>)).
    + set (eT := if (l_eT (l <| l_expried := false |>) <? checkE s1)%Z then checkE s1 else l_eT (l <| l_expried := false |>)).
      unfold updl. rewrite G1.
      set (l2 := l <| l_expried := false |> <| l_eT := eT |> <| l_long := true |>).
      assert (K2 : KL (setl s1 r l2)) by (apply KL_setl_out; auto).
      destruct K2 as [A1 A2 A3]. constructor.
      * intros kk x lx I Gx. eapply A1; eauto.
      * intros kk x lx I Gx. cbn in I. apply in_wheel_push in I. destruct I as [I|[<- ->]]; [eapply A2; eauto|].
        cbn in Gx. change (aget (store (setl s1 r l2)) r = Some lx) in Gx. rewrite aget_setl, N.eqb_refl in Gx.
        injection Gx as <-. unfold l2; cbn. exact T.
      * intros kk x lx I Gx Ex. cbn in I. apply in_wheel_push in I. destruct I as [I|[<- ->]]; [eapply A3; eauto|].
        cbn in Gx. change (aget (store (setl s1 r l2)) r = Some lx) in Gx. rewrite aget_setl, N.eqb_refl in Gx.
        injection Gx as <-. unfold l2; cbn. auto.
    + set (s2 := s1 <| ewheel := _ |>).
      assert (K2 : KL s2) by (eapply KL_kfr; [exact K1|apply kfr_ewheel, kfr_refl]).
      unfold updl. change (store s2) with (store s1). rewrite G1. apply KL_setl_out; auto.
  - assert (U : forall f, updl s r f = s) by (intros f; unfold updl; rewrite G; reflexivity).
    rewrite U. unfold getl. rewrite G.
    destruct (QUEUE_MAX_WAIT <? l_ecc dummy_lock).
    + rewrite U. destruct K as [A1 A2 A3]. constructor.
      * intros kk x lx I Gx. eapply A1; eauto.
      * intros kk x lx I Gx. cbn in I. apply in_wheel_push in I. destruct I as [I|[_ ->]]; [eapply A2; eauto|].
        cbn in Gx. congruence.
      * intros kk x lx I Gx Ex. cbn in I. apply in_wheel_push in I. destruct I as [I|[_ ->]]; [eapply A3; eauto|].
        cbn in Gx. congruence.
    + unfold updl. cbn. rewrite G. eapply KL_kfr; [exact K|apply kfr_ewheel, kfr_refl].
Qed.

Lemma KL_add_expried s k r :
  KL s -> (forall kk, ~ In r (wheel_get (elong s) kk)) -> (forall l, aget (store s) r = Some l -> l_timeouted l = true) ->
  KL (fst (add_expried s k r)).
Proof. intros K NE T. eapply KL_kfr; [apply KL_arm; eauto|]. apply kfr_add_expried_arm, kfr_refl. Qed.

(* ---------------------------------------------------------------- marking a live waiter as answered (wg_pre) *)
Definition kill (s : db) (r : ref) : db :=
  let l := getl s r in
  let s := updl s r (fun l => l <| l_timeouted := true |>) in
  if l_long l then remove_long_timeout s r else s.

Lemma KL_kill s r l : KL s -> aget (store s) r = Some l -> l_timeouted l = false -> KL (kill s r).
Proof.
  intros K G T. unfold kill. cbv zeta. rewrite (getl_some _ _ _ G).
  set (l1 := l <| l_timeouted := true |>).
  assert (U : updl s r (fun l => l <| l_timeouted := true |>) = setl s r l1) by (unfold updl; rewrite G; reflexivity).
  rewrite U.
  assert (NE : forall kk, ~ In r (wheel_get (elong s) kk)) by (intros kk; eapply KL_live_not_elong; eauto).
  pose proof K as [K1 K2 K3].
  destruct (l_long l) eqn:L.
  - unfold remove_long_timeout. change (getl (setl s r l1) r) with (getl (setl s r l1) r).
    assert (G1 : aget (store (setl s r l1)) r = Some l1) by (rewrite aget_setl, N.eqb_refl; reflexivity).
    rewrite (getl_some _ _ _ G1). change (l_tT l1) with (l_tT l). change (tlong (setl s r l1)) with (tlong s).
    destruct (aget (tlong s) (lkey (l_tT l))) as [q|] eqn:GQ.
    + set (s2 := setl s r l1 <| tlong := _ |>).
      assert (ST : forall x, aget (store s2) x = if r =? x then Some l1 else aget (store s) x).
      { intros x. unfold s2. change (aget (store (setl s r l1)) x = if r =? x then Some l1 else aget (store s) x). apply aget_setl. }
      assert (K2' : KL s2).
      { constructor.
        - intros kk x lx I Gx. unfold s2 in I. cbn in I. apply (in_long_remove (tlong s) _ q r kk x GQ) in I. destruct I as [I N].
          rewrite ST in Gx. destruct (r =? x) eqn:E.
          + apply N.eqb_eq in E; subst x. exfalso. destruct (K1 kk r l I G) as (_ & _ & KK). apply N; auto.
          + eauto.
        - intros kk x lx I Gx. unfold s2 in I. cbn in I. rewrite ST in Gx. destruct (r =? x) eqn:E; [|eauto].
          apply N.eqb_eq in E; subst x. exfalso. eapply NE; eauto.
        - intros kk x lx I Gx. unfold s2 in I. cbn in I. rewrite ST in Gx. destruct (r =? x) eqn:E; [|eauto].
          apply N.eqb_eq in E; subst x. exfalso. eapply NE; eauto. }
      assert (G2 : aget (store s2) r = Some l1) by (rewrite ST, N.eqb_refl; reflexivity).
      unfold updl. rewrite G2. apply KL_setl_out.
      * exact K2'.
      * intros kk I. unfold s2 in I. cbn in I. apply (in_long_remove (tlong s) _ q r kk r GQ) in I. destruct I as [I N].
        destruct (K1 kk r l I G) as (_ & _ & KK). apply N; auto.
      * intros kk I. unfold s2 in I. cbn in I. eapply NE; eauto.
    + unfold updl. rewrite G1.
      assert (NT : forall kk, ~ In r (wheel_get (tlong s) kk)).
      { intros kk I. destruct (K1 kk r l I G) as (_ & _ & KK). subst kk. unfold wheel_get in I. rewrite GQ in I. destruct I. }
      apply KL_setl_out; [apply KL_setl_out; auto|exact NT|exact NE].
  - assert (NT : forall kk, ~ In r (wheel_get (tlong s) kk)).
    { intros kk I. destruct (K1 kk r l I G) as (_ & KK & _). congruence. }
    apply KL_setl_out; auto.
Qed.

(* ---------------------------------------------------------------- RemoveLongExpried *)
(* membership in the long expiry table afterwards *)
Lemma remove_long_expried_elong s r eT kk x :
  In x (wheel_get (elong (remove_long_expried s r eT)) kk) -> In x (wheel_get (elong s) kk) /\ (kk = lkey eT -> x <> r).
Proof.
  unfold remove_long_expried. destruct (aget (elong s) (lkey eT)) as [q|] eqn:GQ.
  - rewrite updl_elong. cbn. intros I. apply (in_long_remove (elong s) _ q r kk x GQ) in I. exact I.
  - rewrite updl_elong. intros I. split; auto. intros -> ->. unfold wheel_get in I. rewrite GQ in I. destruct I.
Qed.

Lemma remove_long_expried_store s r eT x :
  aget (store (remove_long_expried s r eT)) x =
  if r =? x then option_map (fun l => if aget (elong s) (lkey eT) then l <| l_long := false |> <| l_refc := dec8 (l_refc l) |>
                                      else l <| l_long := false |>) (aget (store s) x)
  else aget (store s) x.
Proof.
  unfold remove_long_expried. destruct (aget (elong s) (lkey eT)) as [q|] eqn:GQ; rewrite aget_updl; reflexivity.
Qed.

Lemma remove_long_expried_tlong s r eT : tlong (remove_long_expried s r eT) = tlong s.
Proof. unfold remove_long_expried. destruct (aget (elong s) (lkey eT)); rewrite updl_tlong; reflexivity. Qed.

(* the record is no live waiter, and either dead on the expiry side or stored in the long table only under eT *)
Lemma KL_remove_long_expried s r eT :
  KL s ->
  (forall l, aget (store s) r = Some l -> l_timeouted l = true /\ (l_expried l = true \/ lkey (l_eT l) = lkey eT)) ->
  KL (remove_long_expried s r eT)
  /\ (forall l, aget (store s) r = Some l -> l_expried l = false -> forall kk, ~ In r (wheel_get (elong (remove_long_expried s r eT)) kk)).
Proof.
  intros K P. pose proof K as [K1 K2 K3]. split.
  - constructor.
    + intros kk x lx I Gx. rewrite remove_long_expried_tlong in I. rewrite remove_long_expried_store in Gx.
      destruct (r =? x) eqn:E; [|eauto]. apply N.eqb_eq in E; subst x.
      destruct (aget (store s) r) as [l|] eqn:G; [|discriminate]. exfalso. destruct (P l eq_refl) as [T _].
      eapply KL_dead_not_tlong; eauto.
    + intros kk x lx I Gx. apply remove_long_expried_elong in I. destruct I as [I N]. rewrite remove_long_expried_store in Gx.
      destruct (r =? x) eqn:E; [|eauto]. apply N.eqb_eq in E; subst x.
      destruct (aget (store s) r) as [l|] eqn:G; [|discriminate]. cbn in Gx. injection Gx as <-.
      destruct (aget (elong s) (lkey eT)); cbn; eapply K2; eauto.
    + intros kk x lx I Gx Ex. apply remove_long_expried_elong in I. destruct I as [I N]. rewrite remove_long_expried_store in Gx.
      destruct (r =? x) eqn:E; [|eauto]. apply N.eqb_eq in E; subst x.
      destruct (aget (store s) r) as [l|] eqn:G; [|discriminate]. cbn in Gx. injection Gx as <-. exfalso.
      assert (Ex0 : l_expried l = false) by (destruct (aget (elong s) (lkey eT)); exact Ex).
      destruct (P l eq_refl) as [_ [X|X]]; [congruence|].
      destruct (K3 kk r l I G Ex0) as [_ KK]. apply N; congruence.
  - intros l G Ex kk I. apply remove_long_expried_elong in I. destruct I as [I N].
    destruct (P l G) as [_ [X|X]]; [congruence|]. destruct (K3 kk r l I G Ex) as [_ KK]. apply N; congruence.
Qed.

(* ---------------------------------------------------------------- a fresh record *)
Lemma KL_new_lock s k conn c :
  KL s -> (forall kk, ~ In (next s) (wheel_get (tlong s) kk)) -> (forall kk, ~ In (next s) (wheel_get (elong s) kk)) ->
  KL (fst (new_lock s k conn c)).
Proof.
  intros K NT NE. unfold new_lock. cbn [fst]. eapply KL_kfr; [|apply kfr_updm, kfr_refl].
  match goal with |- KL (?s0 <| store := aset _ _ ?l |> <| next := ?n |>) =>
    assert (KL (setl s0 (next s0) l)) as H by (apply KL_setl_out; auto); destruct H as [A1 A2 A3] end.
  constructor; auto.
Qed.

(* ---------------------------------------------------------------- long-table buckets handed to the sweepers *)
Lemma KL_sweep_long (is_t : bool) items : forall s due,
  KL s ->
  (forall r l, In r items -> aget (store s) r = Some l ->
     if is_t then l_timeouted l = false /\ (forall kk, ~ In r (wheel_get (tlong s) kk))
     else l_timeouted l = true /\ (l_expried l = false -> forall kk, ~ In r (wheel_get (elong s) kk))) ->
  KL (fst (sweep_long s items is_t due)).
Proof.
  induction items as [|r rest IH]; intros s due K P; cbn [sweep_long]; [exact K|].
  set (s1 := updl s r (fun l => l <| l_long := false |>)).
  assert (K1 : KL s1).
  { unfold s1, updl. destruct (aget (store s) r) as [l|] eqn:G; [|exact K].
    specialize (P r l (or_introl eq_refl) G). destruct is_t.
    - destruct P as [T NT]. apply KL_setl_out; auto. intros kk. eapply KL_live_not_elong; eauto.
    - destruct P as [T NE]. pose proof K as [A1 A2 A3]. constructor.
      + intros kk x lx I Gx. change (tlong (setl s r (l <| l_long := false |>))) with (tlong s) in I. rewrite aget_setl in Gx.
        destruct (r =? x) eqn:E; [apply N.eqb_eq in E; subst x; exfalso; eapply KL_dead_not_tlong; eauto|eauto].
      + intros kk x lx I Gx. change (elong (setl s r (l <| l_long := false |>))) with (elong s) in I. rewrite aget_setl in Gx.
        destruct (r =? x) eqn:E; [injection Gx as <-; exact T|eauto].
      + intros kk x lx I Gx Ex. change (elong (setl s r (l <| l_long := false |>))) with (elong s) in I. rewrite aget_setl in Gx.
        destruct (r =? x) eqn:E; [|eauto]. apply N.eqb_eq in E; subst x. injection Gx as <-. exfalso. eapply NE; eauto. }
  assert (P1 : forall x l, In x rest -> aget (store s1) x = Some l ->
     if is_t then l_timeouted l = false /\ (forall kk, ~ In x (wheel_get (tlong s1) kk))
     else l_timeouted l = true /\ (l_expried l = false -> forall kk, ~ In x (wheel_get (elong s1) kk))).
  { intros x lx I Gx. unfold s1 in *. rewrite updl_tlong, updl_elong. rewrite aget_updl in Gx.
    destruct (r =? x) eqn:E.
    - apply N.eqb_eq in E; subst x. destruct (aget (store s) r) as [l|] eqn:G; [|discriminate]. cbn in Gx. injection Gx as <-.
      specialize (P r l (or_introl eq_refl) G). destruct is_t; exact P.
    - apply P; auto. right; auto. }
  clearbody s1.
  destruct (negb (if is_t then l_timeouted (getl s1 r) else l_expried (getl s1 r))); [apply IH; auto|].
  apply IH.
  - eapply KL_kfr; [exact K1|]. apply kfr_unref_rm, kfr_refl.
  - intros x lx I Gx.
    assert (F : kfr s1 (if match aget (store (unref s1 r)) r with None => true | Some _ => false end
                        then remove_mgr_if_unref (unref s1 r) (l_key (getl s1 r)) else unref s1 r))
      by (apply kfr_unref_rm, kfr_refl).
    destruct F as (F1 & F2 & F3). destruct (F3 x lx Gx) as (l0 & G0 & (S1 & S2 & S3 & _)).
    specialize (P1 x l0 I G0). rewrite F1, F2. destruct is_t; rewrite S2; [exact P1|]. rewrite S3. exact P1.
Qed.
