(* Timer theorems, part 13: the expiry side (C06).  Local facts: deadline formulas where the terms of a hold are set,
   what AddExpried does, and the short-wheel scan of checkTimeExpried (never-early for entries taken from the wheel).
   The global statement for entries taken from the long table needs the key/flag integrity of that table
   (each live hold stored there exactly once, under its current deadline, with longWaitIndex set), which is not
   proved here -- see the report. *)
From Coq Require Import String ZifyN ZifyBool ZifyNat.
From Slock Require Import Engine.Types Engine.Queues Engine.Timers Engine.Engine Engine.Engine2.
From Slock Require Import Engine.TimeBase Engine.TimeWheel.
Open Scope N_scope.

Ltac Zify.zify_post_hook ::= Z.div_mod_to_equations.

Definition eunit' (c : cmd) : Z := if has (c_eflag c) EF_MINUTE then 60%Z else 1%Z.
Definition elive (s : db) (r : ref) (l : lockrec) : Prop := aget (store s) r = Some l /\ l_expried l = false.

(* ------------------------------------------------------------------ deadline formulas *)
Lemma expiry_deadline_eq c t :
  has (c_eflag c) EF_MILLISECOND = false ->
  expiry_deadline c t = if has (c_eflag c) EF_UNLIMITED then MAXT else (t + Z.of_N (c_expried c) * eunit' c + 1)%Z.
Proof.
  intros M. unfold expiry_deadline, eunit'. rewrite M. destruct (has (c_eflag c) EF_UNLIMITED); auto.
  destruct (has (c_eflag c) EF_MINUTE); lia.
Qed.

(* compaction of the holder queue never touches a record that is held *)
Lemma unref_other s x r : x <> r -> aget (store (unref s x)) r = aget (store s) r.
Proof.
  intros NE. unfold unref. destruct (aget (store s) x) as [l|] eqn:G; auto.
  assert (aget (store (setl s x (l <| l_refc := dec8 (l_refc l) |>))) r = aget (store s) r) as A.
  { rewrite aget_setl. destruct (x =? r) eqn:E; auto. apply N.eqb_eq in E. congruence. }
  destruct (dec8 (l_refc l) =? 0); auto.
  unfold free_lock. destruct (aget (store (setl s x _)) x); auto.
  rewrite (tview_store _ _ (updm_tview _ _ _)).
  match goal with |- context [store (?y <| store := ?m |>)] => change (store (y <| store := m |>)) with m end.
  rewrite aget_adel. destruct (x =? r) eqn:E; auto. apply N.eqb_eq in E. congruence.
Qed.

Lemma hq_compact_other items : forall s r,
  (0 <? l_locked (getl s r)) = true -> aget (store (fst (hq_compact s items))) r = aget (store s) r.
Proof.
  induction items as [|x rest IH]; intros s r H; cbn; auto.
  destruct (0 <? l_locked (getl s x)) eqn:E.
  - specialize (IH s r H). destruct (hq_compact s rest); cbn in *; auto.
  - assert (x <> r) as NE by (intros ->; congruence).
    rewrite IH; [apply unref_other; auto|]. unfold getl. rewrite unref_other; auto.
Qed.

Lemma hq_push_other s q x r :
  (0 <? l_locked (getl s r)) = true -> aget (store (fst (hq_push s q x))) r = aget (store s) r.
Proof.
  intros H. unfold hq_push. destruct (hq_scale q) as [[items mp]|]; auto.
  destruct (hq_cap q =? 0); auto. destruct (hq_len q <? hq_cap q); auto.
  destruct (hq_fast q) eqn:FQ; auto. rewrite <- FQ.
  pose proof (hq_compact_other (hq_fast q) s r H) as A. destruct (hq_compact s (hq_fast q)) as [s' kept]. cbn [fst] in A.
  destruct (N.of_nat (length kept) <? hq_len q); [|destruct (hq_cap q <=? 128)]; cbn [fst]; auto.
Qed.

(* AddLock (grant): unless the un-renew flag keeps the terms computed at request time, the period starts now *)
Lemma add_lock_terms s k r l :
  aget (store s) r = Some l -> has (c_tflag (l_cmd l)) TF_UNRENEW = false ->
  exists l', aget (store (add_lock s k r)) r = Some l' /\ l_cmd l' = l_cmd l /\ l_start l' = now s
             /\ l_eT l' = expiry_deadline (l_cmd l) (now s) /\ l_locked l' = 1 /\ l_conn l' = l_conn l.
Proof.
  intros G U. unfold add_lock. rewrite (getl_some _ _ _ G). rewrite U. cbv zeta.
  match goal with |- context [setl s r ?x] => set (l1 := x) end.
  assert (aget (store (setl s r l1)) r = Some l1) as G1 by (rewrite aget_setl, N.eqb_refl; reflexivity).
  assert (l_cmd l1 = l_cmd l /\ l_start l1 = now s /\ l_eT l1 = expiry_deadline (l_cmd l) (now s) /\ l_locked l1 = 1
          /\ l_conn l1 = l_conn l) as P.
  { unfold l1. repeat match goal with |- context [if ?b then _ else _] => destruct b end; cbn; auto. }
  exists l1. split; auto.
  destruct (m_cur (getm s k)).
  - match goal with |- context [hq_push ?a ?q r] =>
      pose proof (hq_push_other a q r r) as HP; destruct (hq_push a q r) as [s' q'] end.
    cbn [fst] in HP. rewrite (tview_store _ _ (updm_tview _ _ _)). rewrite HP; auto.
    rewrite (getl_some _ _ _ G1). destruct P as (_ & _ & _ & -> & _). reflexivity.
  - rewrite (tview_store _ _ (updm_tview _ _ _)). exact G1.
Qed.

(* UpdateLockedLock (update / re-entrant re-lock): the period restarts now with the new terms, except for the
   "keep the current deadline" request (unlimited flag with Expried = 0xffff), which only replaces the command *)
Lemma update_locked_lock_terms s k r c l :
  aget (store s) r = Some l ->
  exists l', aget (store (update_locked_lock s k r c)) r = Some l' /\ l_cmd l' = c
    /\ l_expried l' = l_expried l /\ l_locked l' = l_locked l
    /\ (if negb (has (c_eflag c) EF_UNLIMITED) || (c_expried c <? 65535)
        then l_start l' = now s /\ l_eT l' = expiry_deadline c (now s)
        else l_start l' = l_start l /\ l_eT l' = l_eT l).
Proof.
  intros G. unfold update_locked_lock. rewrite (getl_some _ _ _ G). cbv zeta.
  eexists. split; [rewrite aget_setl, N.eqb_refl; reflexivity|].
  repeat match goal with |- context [if ?b then _ else _] => destruct b end; cbn; auto.
Qed.

(* ------------------------------------------------------------------ AddExpried *)
Definition eslot_time (chk : Z) (l : lockrec) : Z :=
  let d0 := (chk + Z.of_N (l_ecc l))%Z in
  if (l_eT l <? d0)%Z then (if (l_eT l <? chk)%Z then chk else l_eT l) else d0.

(* the re-check spacing: a short-wheel entry is examined again within ecc <= 8 seconds, and not after its deadline
   unless that has already passed *)
Lemma eslot_time_range chk l :
  (QUEUE_MAX_WAIT <? l_ecc l) = false ->
  (chk <= eslot_time chk l <= chk + 8)%Z /\ (eslot_time chk l <= Z.max (l_eT l) chk)%Z.
Proof.
  intros T. apply N.ltb_ge in T. unfold QUEUE_MAX_WAIT in T. unfold eslot_time.
  destruct (l_eT l <? chk + Z.of_N (l_ecc l))%Z eqn:E1.
  - apply Z.ltb_lt in E1. destruct (l_eT l <? chk)%Z eqn:E2; [apply Z.ltb_lt in E2|apply Z.ltb_ge in E2]; lia.
  - apply Z.ltb_ge in E1. lia.
Qed.

(* C06 (b), the constant: an entry added at server time ta (checkE <= ta + 1) sits at a second d <= ta + 9; if an
   update at t1 >= ta sets the deadline to eT' = t1 + E*unit + 1, the entry is examined no later than eT' + 8 *)
Lemma update_recheck_bound chk ta t1 eu d eT' :
  (chk <= ta + 1)%Z -> (ta <= t1)%Z -> (0 <= eu)%Z -> (d <= chk + 8)%Z -> eT' = (t1 + eu + 1)%Z ->
  (d <= eT' + 8)%Z.
Proof. lia. Qed.

Record same_but_expiry (s s' : db) : Prop := {
  se_now : now s' = now s; se_checkT : checkT s' = checkT s; se_checkE : checkE s' = checkE s;
  se_next : next s' = next s; se_leader : leader s' = leader s;
  se_twheel : twheel s' = twheel s; se_tlong : tlong s' = tlong s
}.

(* the record part of AddExpried (before the deferred LOCK records are pushed to the AOF) *)
Definition arm (s : db) (r : ref) : db :=
  let s := updl s r (fun l => l <| l_expried := false |>) in
  let l := getl s r in
  if QUEUE_MAX_WAIT <? l_ecc l then
    let eT := if (l_eT l <? checkE s)%Z then checkE s else l_eT l in
    let s := updl s r (fun l => l <| l_eT := eT |> <| l_long := true |>) in
    s <| elong := wheel_push (elong s) (lkey eT) r |>
  else
    let d0 := (checkE s + Z.of_N (l_ecc l))%Z in
    let d := if (l_eT l <? d0)%Z then (if (l_eT l <? checkE s)%Z then checkE s else l_eT l) else d0 in
    let s := s <| ewheel := wheel_push (ewheel s) (slot_of d) r |> in
    updl s r (fun l => l <| l_long := false |>).

Lemma arm_store s r l :
  aget (store s) r = Some l ->
  forall r', aget (store (arm s r)) r'
    = if r =? r'
      then Some (if QUEUE_MAX_WAIT <? l_ecc l
                 then l <| l_expried := false |> <| l_eT := if (l_eT l <? checkE s)%Z then checkE s else l_eT l |> <| l_long := true |>
                 else l <| l_expried := false |> <| l_long := false |>)
      else aget (store s) r'.
Proof.
  intros G r'. unfold arm. cbv zeta. rewrite (getl_updl_same _ _ _ _ G).
  change (l_ecc (l <| l_expried := false |>)) with (l_ecc l).
  change (l_eT (l <| l_expried := false |>)) with (l_eT l). rewrite updl_checkE.
  destruct (QUEUE_MAX_WAIT <? l_ecc l).
  - match goal with |- context [store (?x <| elong := ?w |>)] => change (store (x <| elong := w |>)) with (store x) end.
    rewrite !aget_updl. destruct (r =? r') eqn:E; auto. apply N.eqb_eq in E; subst r'. rewrite G. reflexivity.
  - rewrite aget_updl.
    match goal with |- context [store (?x <| ewheel := ?w |>)] => change (store (x <| ewheel := w |>)) with (store x) end.
    rewrite aget_updl. destruct (r =? r') eqn:E; auto. apply N.eqb_eq in E; subst r'. rewrite G. reflexivity.
Qed.

(* pushing LOCK records to the AOF does not change deadlines or tombstones *)
Definition eterms (l : lockrec) := (l_eT l, l_expried l, l_cmd l, l_start l, l_conn l, l_locked l, l_key l).

Definition esame_store (s s' : db) : Prop :=
  forall r, match aget (store s') r with
            | Some l' => exists l, aget (store s) r = Some l /\ eterms l' = eterms l
            | None => aget (store s) r = None
            end.

Lemma esame_refl s : esame_store s s.
Proof. intros r. destruct (aget (store s) r); eauto. Qed.

Lemma esame_trans a b c : esame_store a b -> esame_store b c -> esame_store a c.
Proof.
  intros A B r. specialize (B r). destruct (aget (store c) r) as [l2|].
  - destruct B as (l1 & G1 & E1). specialize (A r). rewrite G1 in A. destruct A as (l0 & G0 & E0).
    exists l0. split; auto. congruence.
  - specialize (A r). rewrite B in A. exact A.
Qed.

Lemma esame_updl s r f : (forall l, eterms (f l) = eterms l) -> esame_store s (updl s r f).
Proof.
  intros H x. rewrite aget_updl. destruct (r =? x).
  - destruct (aget (store s) x); cbn; eauto.
  - destruct (aget (store s) x); eauto.
Qed.

Lemma esame_tview s s' : store s' = store s -> esame_store s s'.
Proof. intros E r. rewrite E. destruct (aget (store s) r); eauto. Qed.

Lemma push_lock_aof_esame s k r fl : esame_store s (fst (push_lock_aof s k r fl)).
Proof.
  unfold push_lock_aof. destruct (negb (leader s)); [apply esame_refl|].
  destruct (has _ _); [apply esame_updl; reflexivity|].
  destruct (aof_lock_data _ _ _) as [[d cur'] ld']. cbn [fst].
  eapply esame_trans; [|apply esame_updl; reflexivity].
  eapply esame_trans; [|apply esame_updl; reflexivity].
  apply esame_tview. apply tview_store. apply updm_tview.
Qed.

Lemma repeat_push_esame n : forall s k r, esame_store s (fst (repeat_push_lock_aof n s k r)).
Proof.
  induction n as [|n IH]; intros s k r; cbn; [apply esame_refl|].
  pose proof (push_lock_aof_esame s k r 0) as A. destruct (push_lock_aof s k r 0) as [s1 e1]. cbn [fst] in A.
  specialize (IH s1 k r). destruct (repeat_push_lock_aof n s1 k r) as [s2 e2]. cbn [fst] in *.
  eapply esame_trans; eauto.
Qed.

Lemma add_expried_arm s k r : esame_store (arm s r) (fst (add_expried s k r)).
Proof.
  unfold add_expried. fold (arm s r). cbv zeta.
  match goal with |- context [if ?b then _ else _] => destruct b end; [apply repeat_push_esame|apply esame_refl].
Qed.

(* ------------------------------------------------------------------ the short-wheel scan of checkTimeExpried *)
(* every record the scan hands to doExpried is, if it is a live hold at all, one whose deadline has been reached *)
Definition EDue (nowv : Z) (due : list ref) (s : db) : Prop :=
  forall r l, In r due -> elive s r l -> (l_eT l <= nowv)%Z.

Lemma EDue_esame nowv due s s' : EDue nowv due s -> esame_store s s' -> EDue nowv due s'.
Proof.
  intros D E r l' I [G L]. specialize (E r). rewrite G in E. destruct E as (l & G0 & ET).
  unfold eterms in ET. injection ET as E1 E2 _ _ _ _ _. rewrite E1. apply (D r l); auto. split; auto. congruence.
Qed.

Lemma esame_unref s r : forall x, match aget (store (unref s r)) x with
                                   | Some l' => exists l, aget (store s) x = Some l /\ eterms l' = eterms l
                                   | None => True end.
Proof.
  intros x. unfold unref. destruct (aget (store s) r) as [l|] eqn:G.
  - assert (forall s0, store s0 = store (setl s r (l <| l_refc := dec8 (l_refc l) |>)) ->
            match aget (store s0) x with Some l' => exists l0, aget (store s) x = Some l0 /\ eterms l' = eterms l0 | None => True end) as A.
    { intros s0 E. rewrite E, aget_setl. destruct (r =? x) eqn:EQ.
      - apply N.eqb_eq in EQ; subst x. exists l. split; auto.
      - destruct (aget (store s) x); eauto. }
    destruct (dec8 (l_refc l) =? 0); [|apply A; reflexivity].
    unfold free_lock. destruct (aget (store (setl s r _)) r) eqn:G1; [|apply A; reflexivity].
    rewrite (tview_store _ _ (updm_tview _ _ _)).
    match goal with |- context [store (?y <| store := ?m |>)] => change (store (y <| store := m |>)) with m end.
    rewrite aget_adel. destruct (r =? x); auto. apply A. reflexivity.
  - destruct (aget (store s) x); eauto.
Qed.

Lemma EDue_unref nowv due s r : EDue nowv due s -> EDue nowv due (unref s r).
Proof.
  intros D x l' I [G L]. pose proof (esame_unref s r x) as E. rewrite G in E. destruct E as (l & G0 & ET).
  unfold eterms in ET. injection ET as E1 E2 _ _ _ _ _. rewrite E1. apply (D x l); auto. split; auto. congruence.
Qed.

Lemma EDue_mgr nowv due s s' : store s' = store s -> EDue nowv due s -> EDue nowv due s'.
Proof. intros E D r l I [G L]. rewrite E in G. apply (D r l); auto. split; auto. Qed.

Lemma EDue_app nowv d1 d2 s : EDue nowv d1 s -> EDue nowv d2 s -> EDue nowv (d1 ++ d2) s.
Proof. intros A B r l I. apply in_app_iff in I. destruct I; eauto. Qed.

Theorem sweep_e_slot_due nowv slot : forall fuel s due ev,
  EDue nowv due s ->
  let '(s', due', _) := sweep_e_slot fuel s slot nowv due ev in EDue nowv due' s'.
Proof.
  induction fuel as [|f IH]; intros s due ev D; cbn [sweep_e_slot]; [exact D|].
  destruct (wheel_get (ewheel s) slot) as [|r rest]; [exact D|].
  set (s1 := s <| ewheel := aset (ewheel s) slot rest |>).
  assert (EDue nowv due s1) as D1 by exact D.
  change (getl s1 r) with (getl s r). change (store s1) with (store s).
  destruct (aget (store s) r) as [l|] eqn:G.
  - rewrite (getl_some _ _ _ G). cbv iota.
    destruct (l_expried l) eqn:LV; cbn [negb].
    + (* tombstone *)
      match goal with |- context [remove_mgr_if_unref ?a ?b] =>
        assert (EDue nowv due (if match aget (store (unref s1 r)) r with None => true | Some _ => false end
                               then remove_mgr_if_unref (unref s1 r) (l_key l) else unref s1 r)) as D2 end.
      { destruct (match aget (store (unref s1 r)) r with None => true | Some _ => false end).
        - eapply EDue_mgr; [apply tview_store; apply remove_mgr_tview|]. apply EDue_unref; auto.
        - apply EDue_unref; auto. }
      apply IH; auto.
    + destruct (nowv <? l_eT l)%Z eqn:LT.
      * (* not yet: re-check later *)
        apply Z.ltb_lt in LT.
        set (s2 := updl s1 r (fun l0 => l0 <| l_ecc := (l_ecc l0 + 1) mod 256 |>)).
        set (l2 := l <| l_ecc := (l_ecc l + 1) mod 256 |>).
        assert (aget (store s2) r = Some l2) as G2.
        { unfold s2. rewrite aget_updl, N.eqb_refl. change (store s1) with (store s). rewrite G. reflexivity. }
        assert (EDue nowv due s2) as D2 by (eapply EDue_esame; [exact D1|apply esame_updl; reflexivity]).
        assert (~ In r due) as NI.
        { intros I. specialize (D r l I (conj G LV)). lia. }
        assert (EDue nowv due (arm s2 r)) as D3.
        { intros x lx I [Gx Lx]. rewrite (arm_store s2 r l2 G2) in Gx. destruct (r =? x) eqn:EQ.
          - apply N.eqb_eq in EQ; subst x. contradiction.
          - apply (D2 x lx); auto. split; auto. }
        pose proof (add_expried_arm s2 (l_key l) r) as EA.
        destruct (add_expried s2 (l_key l) r) as [s3 aev]. cbn [fst] in EA.
        apply IH; auto. eapply EDue_esame; eauto.
      * (* due *)
        apply Z.ltb_ge in LT. apply IH; auto. apply EDue_app; auto.
        intros x lx [<-|[]] [Gx _]. change (store s1) with (store s) in Gx. rewrite G in Gx. injection Gx as <-. auto.
  - cbv iota. apply EDue_app; auto. intros x lx [<-|[]] [Gx _]. change (store s1) with (store s) in Gx. congruence.
Qed.

(* in particular a hold with the unlimited-expiry flag (deadline 2^63-1) is never handed over by the wheel scan
   while server time is below 2^63-1 *)
Corollary unlimited_not_due nowv due s r l :
  EDue nowv due s -> In r due -> elive s r l -> l_eT l = MAXT -> (nowv < MAXT)%Z -> False.
Proof. intros D I LV E N. specialize (D r l I LV). lia. Qed.
