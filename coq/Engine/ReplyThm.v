(* C03, part 3: the local theorem on immediate replies (T1), packaged statements, the refutation outside the core
   subset (re-entrant re-lock with require-ack). *)
From Coq Require Import String ZifyN ZifyBool ZifyNat.
From Slock Require Import Engine.Types Engine.Queues Engine.Timers Engine.Engine Engine.Engine2
  Engine.ReplyBase Engine.ReplyLocal Engine.ReplyInv.
Open Scope N_scope.

Definition req_step (s : db) (conn : N) (c : cmd) : db * list event * option wake :=
  if c_lock c then lock_step s conn c else unlock_step s conn c.

(* the request was put into the wait queue of its key: a record for it (carrying its RequestId and connection, not
   tombstoned) is referenced from the queue *)
Definition queued (s s' : db) (conn : N) (c : cmd) : Prop :=
  waiting_in s' (c_key c) (next s)
  /\ exists c', c_req c' = c_req c
     /\ forall l', aget (store s') (next s) = Some l' -> l_cmd l' = c' /\ l_conn l' = conn /\ l_timeouted l' = false.

(* a live waiter of key k in state s *)
Definition live_waiter (s : db) (k : N) (r : ref) (l : lockrec) : Prop :=
  aget (store s) r = Some l /\ l_timeouted l = false /\ waiting_in s k r.

Theorem immediate_reply s conn c s1 ev1 w :
  core_cmd c -> req_step s conn c = (s1, ev1, w) ->
  (* answered at once: exactly one reply for the request, terminal, to the requesting connection ... *)
  (exists res, res <> R_EXPRIED
     /\ (rinfos ev1 = [(conn, c_req c, res)]
         (* ... plus, for an unlock that cancels a waiter, the answer to the cancelled request *)
         \/ (exists r l, c_lock c = false /\ live_waiter s (c_key c) r l /\ c_lockid (l_cmd l) = c_lockid c
                         /\ rinfos ev1 = [(conn, c_req c, res); (l_conn l, c_req (l_cmd l), R_UNLOCK_ERROR)])))
  (* or not answered: exactly when it was queued *)
  \/ (c_lock c = true /\ rinfos ev1 = [] /\ w = None /\ queued s s1 conn c).
Proof.
  intros CC E. unfold req_step in E. destruct (c_lock c) eqn:L.
  - apply lock_step_sum in E; auto.
    destruct E as [(res & K & R & Hres)|[(r & c' & (Hr & Hlt) & Hq & Hc & C & R)|[(r & c' & (Hr & Hlt) & Hq & Hc & C & Hh & R & Hw & Wt)|(r & c' & res & Hr & Hq & Hc & C & R & Hres)]]].
    + left. exists res. auto.
    + left. exists R_SUCCED. split; [intro X; vm_compute in X; discriminate X|auto].
    + right. split; auto. split; auto. split; auto. subst r. split; auto.
      exists c'. split; auto. intros l' Hl'. assert (X := chg_v _ _ _ _ C _ _ Hl'). rewrite N.eqb_refl in X.
      unfold view_of in X. inv X. auto.
    + left. exists res. split; auto. destruct Hres as [-> | ->]; intro X; vm_compute in X; discriminate X.
  - apply unlock_step_sum in E.
    destruct E as [(res & K & R & Hres)|(r & l & Hl & Ht & (Wt & _) & Hid & C & R)].
    + left. exists res. auto.
    + left. exists R_LOCKED_ERROR. split; [intro X; vm_compute in X; discriminate X|].
      right. exists r, l. unfold live_waiter. auto.
Qed.

(* replies of a wake-up iteration: none, or the grant of the live head waiter *)
Theorem wake_iter_replies s w s' ev res :
  wake_iter s w = (s', ev, res) ->
  rinfos ev = []
  \/ exists s1 r, get_wait_lock s (w_key w) = (s1, Some r) /\ l_timeouted (getl s1 r) = false
       /\ rinfos ev = [(l_conn (getl s1 r), c_req (l_cmd (getl s1 r)), R_SUCCED)].
Proof.
  unfold wake_iter. intros E.
  destruct (aget (mgrs s) (w_key w)) as [m|]; [|inv E; auto].
  destruct (negb (m_waited m)); [inv E; auto|].
  destruct (get_wait_lock s (w_key w)) as [s1 [r|]] eqn:G; [|inv E; auto].
  destruct (negb (do_lock s1 (w_key w) r)); [inv E; auto|].
  destruct (wake_grant s1 (w_key w) r (w_conn w)) as [s2 ev2] eqn:G2. inv E.
  destruct (wake_grant_rinfos _ _ _ _ _ _ G2) as [R|R]; auto.
  right. exists s1, r. split; auto. split; auto. eapply get_wait_lock_live; eauto.
Qed.
