(* Invariant proof, part 8: LockDB.Lock. *)
From Coq Require Import String ZifyN ZifyBool ZifyNat Permutation.
From Slock Require Import Engine.Types Engine.Queues Engine.Timers Engine.Engine Engine.Engine2 Engine.InvDef Engine.InvBase
  Engine.InvPrims Engine.InvRec Engine.InvWheel Engine.InvQueue Engine.InvQueue2 Engine.InvSteps Engine.InvLockDefs.
Open Scope N_scope.

Definition res_ok (xt xe : list ref) (k : N) (res : db * list event * option wake) : Prop :=
  GInv (fst (fst res)) (gk xt xe k) /\ (forall w, snd res = Some w -> w_key w = k).

Lemma res_ok_same s ev xt xe k : GInv s (gk xt xe k) -> res_ok xt xe k (s, ev, None).
Proof. intros G. split; [exact G|intros w H; discriminate]. Qed.

(* ---------------------------------------------------------------- the new lock record and what becomes of it *)
Lemma ls_tail_ginv s xt xe conn c k waited m :
  GInv s (gk xt xe k) -> cmd_core c -> aget (mgrs s) k = Some m -> next s < MAXREC ->
  res_ok xt xe k (ls_tail s conn c k waited).
Proof.
  intros G Hc Hm Hb. set (g := gk xt xe k) in *.
  destruct (new_lock_ginv s g k conn c m G Hm eq_refl eq_refl Hb Hc) as [Enl G1].
  destruct (fresh_zero s g (next s) G (N.le_refl _)) as [Fn [Fte [Fph Fl]]].
  unfold ls_tail. rewrite Enl in *. cbn [fst] in G1.
  set (r := next s) in *. set (l0 := fresh_rec s k conn c) in *.
  match goal with |- context [updm ?S k ?f] => set (s1 := updm S k f) in * end.
  assert (Hm1 : exists m1, aget (mgrs s1) k = Some m1 /\ holders m1 = holders m /\ m_wq m1 = m_wq m /\ m_locked m1 = m_locked m).
  { unfold s1, updm. cbn [mgrs]. change (mgrs (s <| store := aset (store s) r l0 |> <| next := r + 1 |>)) with (mgrs s). rewrite Hm.
    eexists. split; [rewrite mgrs_setm, aget_aset_same; reflexivity|]. destruct m; cbn. auto. }
  destruct Hm1 as [m1 [Hm1 [Hh1 [Hw1 Hl1]]]].
  assert (Hr1 : aget (store s1) r = Some l0).
  { unfold s1, updm. change (mgrs (s <| store := aset (store s) r l0 |> <| next := r + 1 |>)) with (mgrs s). rewrite Hm.
    change (store (setm _ k _)) with (aset (store s) r l0). apply aget_aset_same. }
  assert (Hwh : twheel s1 = twheel s /\ tlong s1 = tlong s /\ ewheel s1 = ewheel s /\ elong s1 = elong s).
  { unfold s1, updm. change (mgrs (s <| store := aset (store s) r l0 |> <| next := r + 1 |>)) with (mgrs s). rewrite Hm. auto. }
  destruct Hwh as [W1 [W2 [W3 W4]]].
  assert (Hte1 : tcount s1 g r = O /\ ecount s1 g r = O).
  { unfold tcount, ecount in *. rewrite W1, W2, W3, W4. lia. }
  destruct Hte1 as [Ht1 He1].
  specialize (Fl k). rewrite (getm_some _ _ _ Hm), occ_app in Fl.
  assert (Hh0 : occ r (holders m1) = O) by (rewrite Hh1; lia).
  assert (Hw0 : occ r (m_wq m1) = O) by (rewrite Hw1; lia).
  cbv zeta.
  destruct Hc as [C1 [C2 [C3 C4]]].
  destruct ((negb waited || has (c_tflag c) TF_PRIORITY && check_wait_priority s1 k c) && do_lock s1 k r) eqn:Eadm.
  - (* admitted *)
    apply andb_true_iff in Eadm. destruct Eadm as [_ Edl]. unfold do_lock in Edl. apply do_lock_rule_bound in Edl.
    rewrite (getm_some _ _ _ Hm1) in Edl.
    assert (Hwk : forall w, (if m_waited (getm s1 k) then Some (mkWake k (Some conn)) else None) = Some w -> w_key w = k).
    { intros w. destruct (m_waited (getm s1 k)); intros H; inversion H; reflexivity. }
    destruct (0 <? c_expried c) eqn:Eexp.
    + (* a hold *)
      rewrite C1. cbn [andb].
      assert (GG : GInv (grant_core s1 k r) (g <| g_cl := (g_cl g + 1)%Z |>)).
      { apply (grant_core_ginv s1 g k r l0 m1 G1); unfold g, gk; gs; auto. lia. }
      unfold grant_core in GG. cbv zeta in GG.
      destruct (has_data_flag c); rewrite ?(process_data_core _ _ _ _ _ C4); rewrite C3;
        destruct (add_expried _ k r) as [s4 aev]; cbn [fst] in GG; (split; [|exact Hwk]); cbn [fst];
        (eapply ginv_geq; [apply (updc_ginv _ _ _ 0%Z 0%Z GG); unfold g, gk; gs; cbn; lia|reflexivity]).
    + (* Expried = 0: no hold, the record is freed at once *)
      assert (Hfree : forall s2, GInv s2 g -> sim s1 s2 ->
                res_ok xt xe k (bump (fun n => n <| n_lock := (n_lock n + 1)%Z |>) (remove_mgr_if_unref (free_lock s2 r) k), [], None)).
      { intros s2 G2 S2. destruct (sim_stored s1 s2 r l0 S2 Hr1) as [l2 [Hr2 Hl2]].
        assert (Hrefc : l_refc l2 = 0) by (rewrite Hl2; reflexivity).
        assert (Hto : liveb l2 = 0%Z) by (rewrite Hl2; reflexivity).
        pose proof (free_lock_ginv s2 g r l2 G2 Hr2 Hrefc eq_refl) as G3. rewrite Hto in G3.
        split; [|intros w H; discriminate]. cbn [fst].
        eapply ginv_geq; [apply (updc_ginv _ _ _ 0%Z 0%Z); [apply remove_mgr_ginv; [exact G3|intros _; split; reflexivity]|..]; unfold g, gk; gs; cbn; lia|reflexivity]. }
      destruct (has_data_flag c).
      * rewrite (process_data_core _ _ _ _ _ C4).
        destruct (_ && _).
        -- destruct (push_lock_aof_ok s1 g k r 0 G1) as [G2 S2]. destruct (push_lock_aof s1 k r 0) as [s2 aev]. cbn [fst] in *.
           destruct (Hfree s2 G2 S2) as [X _]. split; [exact X|exact Hwk].
        -- destruct (Hfree s1 G1 (sim_refl s1)) as [X _]. split; [exact X|exact Hwk].
      * destruct (Hfree s1 G1 (sim_refl s1)) as [X _]. split; [exact X|exact Hwk].
  - destruct ((0 <? c_timeout c) && (negb (has (c_tflag c) TF_TIMEOUT_WHEN_DATA) || match data_of s1 k with None => true | Some _ => false end)).
    + (* queued *)
      rewrite C2.
      destruct (add_wait_lock_ginv s1 g k r l0 m1 G1) as [G2 [[n Hr2] Win Whold LF]]; unfold g, gk; gs; auto.
      set (s2 := add_wait_lock s1 k r) in *.
      set (l2 := l0 <| l_refc := n |>) in *.
      assert (Hte2 : tcount s2 g r = O /\ ecount s2 g r = O).
      { unfold tcount, ecount in *. rewrite (lf_tw _ _ LF), (lf_tl _ _ LF), (lf_ew _ _ LF), (lf_el _ _ LF). lia. }
      destruct Hte2 as [Ht2 He2].
      pose proof (ginv_borrow_t s2 g r l2 G2 Hr2 Ht2) as G3.
      assert (G4 : GInv (add_timeout s2 r) (g <| g_owe := [r] |> <| g_cw := 1%Z |>)).
      { eapply ginv_geq; [eapply (add_timeout_ginv s2 _ r _ l2 G3); unfold g, gk; gs; auto; try reflexivity|].
        - change (l_key l2) with k. rewrite Whold, (getm_some _ _ _ Hm1). exact Hh0.
        - unfold ecount in *. gs. exact He2.
        - change (l_key l2) with k. exact Win.
        - reflexivity. }
      destruct (aget (store (add_timeout s2 r)) r) as [l3|] eqn:Hr3; [|apply add_timeout_stored in Hr3; congruence].
      split; [|intros w H; discriminate]. cbn [fst].
      eapply ginv_geq; [apply (updc_ginv _ _ _ 0%Z 0%Z); [apply (updl_refc_owe _ _ r [] l3 G4); gs; auto|..]; unfold g, gk; gs; cbn; lia|reflexivity].
    + (* refused at once *)
      pose proof (free_lock_ginv s1 g r l0 G1 Hr1 eq_refl eq_refl) as G3.
      split; [|intros w H; discriminate]. cbn [fst].
      eapply ginv_geq; [apply remove_mgr_ginv; [exact G3|intros _; split; reflexivity]|reflexivity].
Qed.
