(* Invariant proof, part 8: LockDB.Lock. *)
From Coq Require Import String ZifyN ZifyBool ZifyNat Permutation.
From Slock Require Import Engine.Types Engine.Queues Engine.Timers Engine.Engine Engine.Engine2 Engine.InvDef Engine.InvBase
  Engine.InvPrims Engine.InvRec Engine.InvWheel Engine.InvQueue Engine.InvQueue2 Engine.InvSteps Engine.InvLockDefs.
Open Scope N_scope.

Definition res_ok (xt xe : list ref) (k : N) (res : db * list event * option wake) : Prop :=
  GInv (fst (fst res)) (gk xt xe k) /\ (forall w, snd res = Some w -> w_key w = k).

Lemma res_ok_same s ev xt xe k : GInv s (gk xt xe k) -> res_ok xt xe k (s, ev, None).
Proof. intros G. split; [exact G|intros w H; discriminate]. Qed.

(* ---------------------------------------------------------------- the new lock record and what becomes of it *)
Lemma ls_tail_ginv s xt xe conn c k waited m :
  GInv s (gk xt xe k) -> cmd_core c -> aget (mgrs s) k = Some m -> next s < MAXREC ->
  res_ok xt xe k (ls_tail s conn c k waited).
Proof.
  intros G Hc Hm Hb. set (g := gk xt xe k) in *.
  destruct (new_lock_ginv s g k conn c m G Hm eq_refl eq_refl Hb Hc) as [Enl G1].
  destruct (fresh_zero s g (next s) G (N.le_refl _)) as [Fn [Fte [Fph Fl]]].
  unfold ls_tail. rewrite Enl in *. cbn [fst] in G1.
  set (r := next s) in *. set (l0 := fresh_rec s k conn c) in *.
  match goal with |- context [updm ?S k ?f] => set (s1 := updm S k f) in * end.
  assert (Hm1 : exists m1, aget (mgrs s1) k = Some m1 /\ holders m1 = holders m /\ m_wq m1 = m_wq m /\ m_locked m1 = m_locked m).
  { unfold s1, updm. cbn [mgrs]. change (mgrs (s <| store := aset (store s) r l0 |> <| next := r + 1 |>)) with (mgrs s). rewrite Hm.
    eexists. split; [rewrite mgrs_setm, aget_aset_same; reflexivity|]. destruct m; cbn. auto. }
  destruct Hm1 as [m1 [Hm1 [Hh1 [Hw1 Hl1]]]].
  assert (Hr1 : aget (store s1) r = Some l0).
  { unfold s1, updm. change (mgrs (s <| store := aset (store s) r l0 |> <| next := r + 1 |>)) with (mgrs s). rewrite Hm.
    change (store (setm _ k _)) with (aset (store s) r l0). apply aget_aset_same. }
  assert (Hwh : twheel s1 = twheel s /\ tlong s1 = tlong s /\ ewheel s1 = ewheel s /\ elong s1 = elong s).
  { unfold s1, updm. change (mgrs (s <| store := aset (store s) r l0 |> <| next := r + 1 |>)) with (mgrs s). rewrite Hm. auto. }
  destruct Hwh as [W1 [W2 [W3 W4]]].
  assert (Hte1 : tcount s1 g r = O /\ ecount s1 g r = O).
  { unfold tcount, ecount in *. rewrite W1, W2, W3, W4. lia. }
  destruct Hte1 as [Ht1 He1].
  specialize (Fl k). rewrite (getm_some _ _ _ Hm), occ_app in Fl.
  assert (Hh0 : occ r (holders m1) = O) by (rewrite Hh1; lia).
  assert (Hw0 : occ r (m_wq m1) = O) by (rewrite Hw1; lia).
  cbv zeta.
  destruct Hc as [C1 [C2 [C3 C4]]].
  destruct ((negb waited || has (c_tflag c) TF_PRIORITY && check_wait_priority s1 k c) && do_lock s1 k r) eqn:Eadm.
  - (* accepted *)
    apply andb_true_iff in Eadm. destruct Eadm as [_ Edl]. unfold do_lock in Edl. apply do_lock_rule_bound in Edl.
    rewrite (getm_some _ _ _ Hm1) in Edl.
    assert (Hwk : forall w, (if m_waited (getm s1 k) then Some (mkWake k (Some conn)) else None) = Some w -> w_key w = k).
    { intros w. destruct (m_waited (getm s1 k)); intros H; inversion H; reflexivity. }
    destruct (0 <? c_expried c) eqn:Eexp.
    + (* a hold *)
      rewrite C1. cbn [andb].
      assert (GG : GInv (grant_core s1 k r) (g <| g_cl := (g_cl g + 1)%Z |>)).
      { apply (grant_core_ginv s1 g k r l0 m1 G1); unfold g, gk; gs; auto. lia. }
      unfold grant_core in GG. cbv zeta in GG.
      destruct (has_data_flag c); rewrite ?(process_data_core _ _ _ _ _ C4); cbv iota beta; rewrite C3;
        destruct (add_expried _ k r) as [s4 aev]; cbn [fst] in GG; (split; [|exact Hwk]); cbn [fst];
        (eapply ginv_geq; [apply (updc_ginv _ _ _ 0%Z 0%Z GG); unfold g, gk; gs; cbn; lia|reflexivity]).
    + (* Expried = 0: no hold, the record is freed at once *)
      assert (Hfree : forall s2, GInv s2 g -> sim s1 s2 ->
                res_ok xt xe k (bump (fun n => n <| n_lock := (n_lock n + 1)%Z |>) (remove_mgr_if_unref (free_lock s2 r) k), [], None)).
      { intros s2 G2 S2. destruct (sim_stored s1 s2 r l0 S2 Hr1) as [l2 [Hr2 Hl2]].
        assert (Hrefc : l_refc l2 = 0) by (rewrite Hl2; reflexivity).
        assert (Hto : liveb l2 = 0%Z) by (rewrite Hl2; reflexivity).
        pose proof (free_lock_ginv s2 g r l2 G2 Hr2 Hrefc eq_refl) as G3. rewrite Hto in G3.
        split; [|intros w H; discriminate]. cbn [fst].
        eapply ginv_geq; [eapply updc_ginv with (cl' := 0%Z) (cw' := 0%Z); [apply remove_mgr_ginv; [exact G3|intros _; split; reflexivity]|..]; unfold g, gk; gs; cbn; lia|reflexivity]. }
      destruct (has_data_flag c).
      * rewrite (process_data_core _ _ _ _ _ C4). cbv iota beta.
        destruct (_ && _).
        -- destruct (push_lock_aof_ok s1 g k r 0 G1) as [G2 S2]. destruct (push_lock_aof s1 k r 0) as [s2 aev]. cbn [fst] in *.
           destruct (Hfree s2 G2 S2) as [X _]. split; [exact X|exact Hwk].
        -- destruct (Hfree s1 G1 (sim_refl s1)) as [X _]. split; [exact X|exact Hwk].
      * destruct (Hfree s1 G1 (sim_refl s1)) as [X _]. split; [exact X|exact Hwk].
  - destruct ((0 <? c_timeout c) && (negb (has (c_tflag c) TF_TIMEOUT_WHEN_DATA) || match data_of s1 k with None => true | Some _ => false end)).
    + (* queued *)
      rewrite C2.
      destruct (add_wait_lock_ginv s1 g k r l0 m1 G1) as [G2 [[n Hr2] Win Whold LF]]; unfold g, gk; gs; auto.
      set (s2 := add_wait_lock s1 k r) in *.
      set (l2 := l0 <| l_refc := n |>) in *.
      assert (Hte2 : tcount s2 g r = O /\ ecount s2 g r = O).
      { unfold tcount, ecount in *. rewrite (lf_tw _ _ LF), (lf_tl _ _ LF), (lf_ew _ _ LF), (lf_el _ _ LF). lia. }
      destruct Hte2 as [Ht2 He2].
      pose proof (ginv_borrow_t s2 g r l2 G2 Hr2 Ht2) as G3.
      assert (G4 : GInv (add_timeout s2 r) (g <| g_owe := [r] |> <| g_cw := 1%Z |>)).
      { eapply ginv_geq; [eapply (add_timeout_ginv s2 _ r _ l2 G3); unfold g, gk; gs; auto; try reflexivity|].
        - change (l_key l2) with k. rewrite Whold, (getm_some _ _ _ Hm1). exact Hh0.
        - reflexivity. }
      destruct (aget (store (add_timeout s2 r)) r) as [l3|] eqn:Hr3; [|apply add_timeout_stored in Hr3; congruence].
      split; [|intros w H; discriminate]. cbn [fst].
      eapply ginv_geq; [eapply updc_ginv with (cl' := 0%Z) (cw' := 0%Z); [apply (updl_refc_owe _ _ r [] l3 G4); gs; auto|..]; unfold g, gk; gs; cbn; lia|reflexivity].
    + (* refused at once *)
      pose proof (free_lock_ginv s1 g r l0 G1 Hr1 eq_refl eq_refl) as G3.
      split; [|intros w H; discriminate]. cbn [fst].
      eapply ginv_geq; [apply remove_mgr_ginv; [exact G3|intros _; split; reflexivity]|reflexivity].
Qed.

(* ---------------------------------------------------------------- the key is held: show / update / re-entrant branches *)
Lemma mlocked_bound s xt xe k m : GInv s (gk xt xe k) -> aget (mgrs s) k = Some m -> next s < MAXREC ->
  m_locked m + 1 < 4294967296.
Proof.
  intros G Hm Hb. destruct (gi_mgr _ _ G k m Hm) as [B1 B2 B3 B4 B5 B6 B7 B8 B9 Bb B10 Bc].
  assert (Hd : forall r, l_locked (getl s r) <= 255).
  { intros r. destruct (aget (store s) r) as [l|] eqn:Hr.
    - rewrite (getl_some _ _ _ Hr). apply (ro_depth _ _ _ _ (gi_rec _ _ G r l Hr)).
    - rewrite (getl_none _ _ Hr). simpl. lia. }
  pose proof (sumdepth_bound s (holders m) Hd) as S1.
  assert (S2 : (length (holders m) <= length (store s))%nat).
  { apply nodup_stored_length; [apply (gi_wf_s _ _ G)|exact B4|].
    intros r Hi. apply B1. unfold phk, gk. gs. destruct (k =? k); simpl; rewrite occ_app; apply occ_In in Hi; lia. }
  pose proof (gi_len _ _ G) as S3. unfold dlk, gk in B6. gs. destruct (k =? k) in B6; unfold MAXREC in Hb; lia.
Qed.

Lemma cmd_core_lockid c x : cmd_core c -> cmd_core (c <| c_lockid := x |>).
Proof. unfold cmd_core. destruct c; cbn. auto. Qed.

Lemma ls_update_ok s xt xe conn c1 k m r l ldata :
  GInv s (gk xt xe k) -> aget (mgrs s) k = Some m -> cmd_core c1 ->
  aget (store s) r = Some l -> l_key l = k -> 0 < l_locked l -> c_lockid (l_cmd l) = c_lockid c1 ->
  l_timeouted l = true -> occ r (holders m) = 1%nat ->
  exists res, ls_update s conn c1 k m r l ldata = (Some res, c1, m_waited m) /\ res_ok xt xe k res.
Proof.
  intros G Hm Hc1 Hr Hkey Hd Hid Ht Hh. set (g := gk xt xe k) in *.
  pose proof Hc1 as [C1 [C2 [C3 C4]]].
  assert (Hupd : forall s2 aev, GInv s2 g ->
     exists res,
       (let s2 := updl s2 r (fun l => l <| l_conn := conn |>) in
        let from_aof := has (c_flag c1) LOCK_FLAG_FROM_AOF in
        if negb from_aof && has (c_tflag c1) TF_REQUIRE_ACKED && negb (l_aoftime (getl s2 r) =? 255) then
          let '(s3, e3) := push_lock_aof s2 k r AOF_FLAG_UPDATED in
          let s3 := updl s3 r (fun l => l <| l_refc := add8 (l_refc l) 1 |>) in
          (Some (s3, @nil event ++ aev ++ e3, None), c1, m_waited m)
        else
          let '(s3, e3) := if negb from_aof && l_isaof (getl s2 r) then push_lock_aof s2 k r AOF_FLAG_UPDATED else (s2, []) in
          (Some (s3, [] ++ aev ++ e3 ++ [reply conn c1 R_LOCKED_ERROR (m_locked (getm s3 k)) (l_locked (getl s3 r)) ldata],
                 Some (mkWake k (Some conn))), c1, m_waited m)) = (Some res, c1, m_waited m) /\ res_ok xt xe k res).
  { intros s2 aev G2. cbv zeta. rewrite C1, andb_false_r. cbn [andb].
    assert (G3 : GInv (updl s2 r (fun l => l <| l_conn := conn |>)) g).
    { apply updl_irrel; auto. intros l0 _. split; [unfold same_rel; destruct l0; cbn; intuition|destruct l0; cbn; auto]. }
    destruct (negb (has (c_flag c1) LOCK_FLAG_FROM_AOF) && l_isaof (getl (updl s2 r (fun l => l <| l_conn := conn |>)) r)).
    - destruct (push_lock_aof_ok _ g k r AOF_FLAG_UPDATED G3) as [G4 _].
      destruct (push_lock_aof _ k r AOF_FLAG_UPDATED) as [s3 e3]. eexists. split; [reflexivity|].
      split; [exact G4|intros w0 H; inversion H; reflexivity].
    - eexists. split; [reflexivity|]. split; [exact G3|intros w0 H; inversion H; reflexivity]. }
  pose proof (update_and_rearm_ginv s xt xe k 0%Z 0%Z r c1 l m G Hr Hkey Hm Hd Ht Hh Hc1 (eq_sym Hid)) as GU.
  unfold ls_update.
  destruct (has_data_flag c1); rewrite ?(process_data_core _ _ _ _ _ C4); cbv iota beta;
    match goal with |- context [if ?b then (Some (s, _, None), c1, m_waited m) else _] => destruct b end;
    try (eexists; split; [reflexivity|apply res_ok_same; auto]).
  all: destruct (update_and_rearm s k r c1) as [s2 aev]; cbn [fst] in GU; apply (Hupd s2 aev GU).
Qed.

Lemma ls_relock_ok s xt xe conn c1 k m r l ldata :
  GInv s (gk xt xe k) -> aget (mgrs s) k = Some m -> cmd_core c1 -> next s < MAXREC ->
  aget (store s) r = Some l -> l_key l = k -> 0 < l_locked l -> c_lockid (l_cmd l) = c_lockid c1 ->
  l_timeouted l = true -> occ r (holders m) = 1%nat -> l_locked l < 255 ->
  exists res, ls_relock s conn c1 k m r l ldata = (Some res, c1, m_waited m) /\ res_ok xt xe k res.
Proof.
  intros G Hm Hc1 Hb Hr Hkey Hd Hid Ht Hh Hlt. set (g := gk xt xe k) in *.
  pose proof Hc1 as [C1 [C2 [C3 C4]]].
  unfold ls_relock. destruct (c_expried c1 =? 0).
  { eexists. split; [reflexivity|apply res_ok_same; auto]. }
  cbv zeta.
  pose proof (mlocked_bound s xt xe k m G Hm Hb) as Hmb.
  destruct (gi_rec _ _ G r l Hr) as [A1 A2 A3 A4 A5 A6 A7 A8 A9 A10 A11].
  rewrite (updm_some _ _ _ _ Hm).
  set (m1 := m <| m_locked := add32 (m_locked m) 1 |>).
  assert (Hl1 : m_locked m1 = m_locked m + 1) by (unfold m1; cbn; apply add32_succ; auto).
  assert (G1 : GInv (setm s k m1) (g <| g_dl := (-1)%Z |> <| g_cl := 1%Z |>)).
  { eapply ginv_geq; [apply (setm_scalar s g k m m1 G Hm); try (destruct m; reflexivity); [lia|right; reflexivity]|].
    rewrite Hl1. unfold g, gk. gs.
    match goal with |- _ = ?g0 <| g_dl := ?e1 |> <| g_cl := ?e2 |> => replace e1 with (-1)%Z by lia; replace e2 with 1%Z by lia end. reflexivity. }
  set (s1 := setm s k m1) in *.
  assert (Hr1 : aget (store s1) r = Some l) by exact Hr.
  assert (Hm1 : aget (mgrs s1) k = Some m1) by (unfold s1; rewrite mgrs_setm, aget_aset_same; auto).
  assert (Hh1 : holders m1 = holders m) by (destruct m; reflexivity).
  rewrite (updl_some _ _ _ _ Hr1).
  set (l2 := l <| l_locked := add8 (l_locked l) 1 |>).
  assert (Hd2 : l_locked l2 = l_locked l + 1) by (unfold l2; cbn; apply add8_succ; lia).
  assert (G2 : GInv (setl s1 r l2) (gkc xt xe k 1 0)).
  { eapply ginv_geq; [apply (setl_depth s1 _ r l l2 G1 Hr1); unfold g, gk; gs; auto; try lia|].
    - intros _ _. rewrite Hkey. unfold s1. rewrite getm_setm_same, Hh1. exact Hh.
    - simpl. tauto.
    - rewrite Hkey. unfold s1 at 1. rewrite getm_setm_same, Hh1, Hh, Hd2. unfold g, gk, gkc. gs.
      match goal with |- _ = ?g0 <| g_dl := ?e1 |> => replace e1 with 0%Z by lia end. reflexivity. }
  set (s2 := setl s1 r l2) in *.
  assert (Hr2 : aget (store s2) r = Some l2) by (unfold s2; rewrite store_setl, aget_aset_same; auto).
  assert (Hm2 : aget (mgrs s2) k = Some m1) by exact Hm1.
  assert (GU : GInv (fst (update_and_rearm s2 k r c1)) (gkc xt xe k 1 0)).
  { apply (update_and_rearm_ginv s2 xt xe k 1%Z 0%Z r c1 l2 m1 G2 Hr2); auto; try lia. }
  assert (Htail : forall s3 aev pev, GInv s3 (gkc xt xe k 1 0) ->
    exists res,
     (let s2 := updl s3 r (fun l => l <| l_conn := conn |>) in
      let '(s3, e3) := if l_isaof (getl s2 r) then push_lock_aof s2 k r AOF_FLAG_UPDATED else (s2, []) in
      let s3 := bump (fun n => n <| n_lock := (n_lock n + 1)%Z |> <| n_locked := (n_locked n + 1)%Z |>) s3 in
      (Some (s3, [EGrant k r false (m_locked m) (cur_count s k) (c_count c1)] ++ pev ++ aev ++ e3
                 ++ [reply conn c1 R_SUCCED (m_locked (getm s3 k)) (l_locked (getl s3 r)) ldata], Some (mkWake k (Some conn))), c1, m_waited m))
     = (Some res, c1, m_waited m) /\ res_ok xt xe k res).
  { intros s3 aev pev G3. cbv zeta.
    assert (G4 : GInv (updl s3 r (fun l => l <| l_conn := conn |>)) (gkc xt xe k 1 0)).
    { apply updl_irrel; auto. intros l0 _. split; [unfold same_rel; destruct l0; cbn; intuition|destruct l0; cbn; auto]. }
    destruct (l_isaof (getl (updl s3 r (fun l => l <| l_conn := conn |>)) r)).
    - destruct (push_lock_aof_ok _ _ k r AOF_FLAG_UPDATED G4) as [G5 _].
      destruct (push_lock_aof _ k r AOF_FLAG_UPDATED) as [s4 e4]. eexists. split; [reflexivity|].
      split; [|intros w0 H; inversion H; reflexivity]. cbn [fst] in *.
      eapply ginv_geq; [eapply updc_ginv with (cl' := 0%Z) (cw' := 0%Z); [exact G5|..]; unfold gkc; gs; cbn; lia|reflexivity].
    - eexists. split; [reflexivity|].
      split; [|intros w0 H; inversion H; reflexivity]. cbn [fst] in *.
      eapply ginv_geq; [eapply updc_ginv with (cl' := 0%Z) (cw' := 0%Z); [exact G4|..]; unfold gkc; gs; cbn; lia|reflexivity]. }
  destruct (has_data_flag c1); rewrite ?(process_data_core _ _ _ _ _ C4); cbv iota beta;
    destruct (update_and_rearm s2 k r c1) as [s3 aev]; cbn [fst] in GU; apply (Htail s3 aev [] GU).
Qed.

Lemma ls_held_ginv s xt xe conn c k m :
  GInv s (gk xt xe k) -> aget (mgrs s) k = Some m -> cmd_core c -> next s < MAXREC ->
  match ls_held s conn c k m with
  | (Some res, _, _) => res_ok xt xe k res
  | (None, c', _) => cmd_core c'
  end.
Proof.
  intros G Hm Hc Hb. rewrite ls_held_eq.
  destruct (0 <? m_locked m).
  - cbv zeta.
    set (curl := getl s match m_cur m with Some cr => cr | None => 0 end).
    set (c1 := if has (c_flag c) LOCK_FLAG_SHOW then c <| c_lockid := c_lockid (l_cmd curl) |> else c).
    assert (Hc1 : cmd_core c1) by (unfold c1; destruct (has (c_flag c) LOCK_FLAG_SHOW); [apply cmd_core_lockid|]; auto).
    destruct (has (c_flag c) LOCK_FLAG_SHOW && negb (has (c_flag c) LOCK_FLAG_UPDATE)); [apply res_ok_same; auto|].
    destruct (get_locked_lock s m (c_lockid c1)) as [r|] eqn:Eg; [|exact Hc1].
    destruct (get_locked_lock_spec s xt xe k m _ r G Hm Eg) as [l [Hr [Hkey [Hd [Hid [Ht Hh]]]]]].
    rewrite (getl_some _ _ _ Hr).
    destruct (negb (l_ack l =? 255)); [apply res_ok_same; auto|].
    destruct (has (c_flag c1) LOCK_FLAG_UPDATE).
    + destruct (ls_update_ok s xt xe conn c1 k m r l (data_of s k) G Hm Hc1 Hr Hkey Hd Hid Ht Hh) as [res [E R]]. rewrite E. exact R.
    + destruct ((l_locked l <? 255) && (l_locked l <=? c_rcount c1) && negb (has (c_tflag c1) TF_PRIORITY)) eqn:Erl; [|apply res_ok_same; auto].
      apply andb_true_iff in Erl. destruct Erl as [Erl _]. apply andb_true_iff in Erl. destruct Erl as [Erl _]. apply N.ltb_lt in Erl.
      destruct (ls_relock_ok s xt xe conn c1 k m r l (data_of s k) G Hm Hc1 Hb Hr Hkey Hd Hid Ht Hh Erl) as [res [E R]]. rewrite E. exact R.
  - destruct (has (c_tflag c) TF_WAIT_WHEN_UNLOCK); [destruct (m_waited m && (c_count c =? 0))|]; auto. apply res_ok_same; auto.
Qed.

(* ---------------------------------------------------------------- LockDB.Lock *)
Lemma lock_step_ginv s xt xe conn c :
  GInv s (gk xt xe (c_key c)) -> cmd_core c -> next s < MAXREC ->
  res_ok xt xe (c_key c) (lock_step s conn c).
Proof.
  intros G Hc Hb. rewrite lock_step_eq. cbv zeta. set (k := c_key c) in *.
  destruct (ls_pre s conn c k); [apply res_ok_same; auto|].
  assert (Hmgr : GInv (ls_mgr s k) (gk xt xe k) /\ next (ls_mgr s k) = next s /\ exists m, aget (mgrs (ls_mgr s k)) k = Some m).
  { unfold ls_mgr. destruct (aget (mgrs s) k) as [m|] eqn:Hm; [eauto|].
    split; [apply new_mgr_ginv; auto|]. split; [reflexivity|]. exists new_mgr. change (mgrs (bump _ (setm s k new_mgr))) with (aset (mgrs s) k new_mgr). apply aget_aset_same. }
  destruct Hmgr as [G1 [N1 [m Hm]]]. set (s1 := ls_mgr s k) in *.
  destruct (negb (leader s1) && negb (has (c_flag c) LOCK_FLAG_FROM_AOF)).
  - split; [|intros w H; discriminate]. cbn [fst]. apply remove_mgr_ginv; [exact G1|intros _; split; reflexivity].
  - rewrite (getm_some _ _ _ Hm).
    assert (Hb1 : next s1 < MAXREC) by (rewrite N1; auto).
    pose proof (ls_held_ginv s1 xt xe conn c k m G1 Hm Hc Hb1) as P.
    destruct (ls_held s1 conn c k m) as [[[res|] c'] w]; [exact P|].
    apply (ls_tail_ginv s1 xt xe conn c' k w m G1 P Hm Hb1).
Qed.
