(* Local facts, part 6 (property C04): the statements of Properties/C04.v, assembled. *)
From Coq Require Import String ZifyN ZifyBool.
From Slock Require Import Engine.Types Engine.Queues Engine.Timers Engine.Engine Engine.Engine2 Engine.LocalBase
  Engine.LocalFrames Engine.LocalC01 Engine.LocalC04 Engine.LocalRelease Engine.LocalWake.
Open Scope N_scope.

Lemma lock_step_pending s conn c s' ev w :
  lock_step s conn c = (s', ev, w) ->
  (forall k m m', aget (mgrs s) k = Some m -> aget (mgrs s') k = Some m' -> m_locked m' < m_locked m ->
                  exists wk, w = Some wk /\ w_key wk = k)
  /\ (forall wk, w = Some wk -> w_key wk = c_key c)
  /\ Forall (fun e => match e with ERelease _ _ _ => False | _ => True end) ev.
Proof.
  intros H. split; [exact (lock_step_decrease _ _ _ _ _ _ H)|].
  split; [intros wk; exact (lock_step_wake_key _ _ _ _ _ _ wk H)|exact (lock_step_no_release _ _ _ _ _ _ H)].
Qed.

Lemma unlock_step_pending s conn c s' ev w :
  unlock_step s conn c = (s', ev, w) ->
  (forall k m m', aget (mgrs s) k = Some m -> aget (mgrs s') k = Some m' -> m_locked m' < m_locked m ->
                  exists wk, w = Some wk /\ w_key wk = k)
  /\ (forall wk, w = Some wk -> w_key wk = c_key c)
  /\ Forall (fun e => match e with ERelease k _ _ => k = c_key c | _ => True end) ev
  /\ (w = None -> Forall (fun e => match e with ERelease _ _ _ => False | _ => True end) ev).
Proof.
  intros H. split; [exact (unlock_step_decrease _ _ _ _ _ _ H)|].
  split; [intros wk; exact (unlock_step_wake_key _ _ _ _ _ _ wk H)|exact (unlock_step_release _ _ _ _ _ _ H)].
Qed.

Lemma cancel_wait_lock_pending s conn c s' ev w :
  cancel_wait_lock s conn c = (s', ev, w) ->
  (forall k m m', aget (mgrs s) k = Some m -> aget (mgrs s') k = Some m' -> m_locked m' < m_locked m ->
                  exists wk, w = Some wk /\ w_key wk = k)
  /\ Forall (fun e => match e with ERelease k _ _ => k = c_key c | _ => True end) ev
  /\ ((w = None /\ s' = bump (fun n => n <| n_unlockerr := (n_unlockerr n + 1)%Z |>) s
       /\ ev = [reply conn c R_UNLOCK_ERROR (m_locked (getm s (c_key c))) 0 (data_of s (c_key c))])
      \/ w = Some (mkWake (c_key c) None)).
Proof.
  intros H. split; [exact (cancel_wait_lock_decrease _ _ _ _ _ _ H)|exact (cancel_wait_lock_cases _ _ _ _ _ _ H)].
Qed.

Lemma do_timeout_pending s r s' ev w :
  do_timeout s r = (s', ev, w) ->
  (forall k m m', aget (mgrs s) k = Some m -> aget (mgrs s') k = Some m' -> m_locked m' < m_locked m ->
                  exists wk, w = Some wk /\ w_key wk = k)
  /\ ((w = None /\ Forall (fun e => match e with EAof _ | EPanic _ => True | _ => False end) ev)
      \/ (exists l, aget (store s) r = Some l /\ l_timeouted l = false /\ w = Some (mkWake (l_key l) None)
                    /\ Forall (fun e => match e with ERelease k _ _ => k = l_key l | _ => True end) ev)).
Proof.
  intros H. split; [exact (do_timeout_decrease _ _ _ _ _ H)|exact (do_timeout_cases _ _ _ _ _ H)].
Qed.

Lemma do_expried_pending s r s' ev w :
  do_expried s r = (s', ev, w) ->
  (forall k m m', aget (mgrs s) k = Some m -> aget (mgrs s') k = Some m' -> m_locked m' < m_locked m ->
                  exists wk, w = Some wk /\ w_key wk = k)
  /\ ((w = None /\ Forall (fun e => match e with EAof _ | EPanic _ => True | _ => False end) ev)
      \/ (exists l, aget (store s) r = Some l /\ l_expried l = false /\ w = Some (mkWake (l_key l) None)
                    /\ Forall (fun e => match e with ERelease k _ _ => k = l_key l | _ => True end) ev)).
Proof.
  intros H. split; [exact (do_expried_decrease _ _ _ _ _ H)|exact (do_expried_cases _ _ _ _ _ H)].
Qed.

Lemma do_ack_pending s r ok s' ev w :
  do_ack s r ok = (s', ev, w) ->
  (forall k m m', aget (mgrs s) k = Some m -> aget (mgrs s') k = Some m' -> m_locked m' < m_locked m ->
                  exists wk, w = Some wk /\ w_key wk = k)
  /\ ((w = None /\ Forall (fun e => match e with ERelease _ _ _ => False | _ => True end) ev)
      \/ (exists l, aget (store s) r = Some l /\ w = Some (mkWake (l_key l) None)
                    /\ Forall (fun e => match e with ERelease k _ _ => k = l_key l | _ => True end) ev)).
Proof.
  intros H. split; [exact (do_ack_decrease _ _ _ _ _ _ H)|exact (do_ack_cases _ _ _ _ _ _ H)].
Qed.

Lemma wake_iter_done_meaning s w s' ev :
  wake_iter s w = (s', ev, WDone) ->
  ev = [] /\
  (aget (mgrs s) (w_key w) = None /\ s' = s
   \/ (exists m, aget (mgrs s) (w_key w) = Some m /\ m_waited m = false /\ s' = s)
   \/ (exists m, aget (mgrs s) (w_key w) = Some m /\ m_waited m = true
         /\ snd (get_wait_lock s (w_key w)) = None
         /\ s' = remove_mgr_if_unref (updm (fst (get_wait_lock s (w_key w))) (w_key w)
                                       (fun m => m <| m_waited := false |>)) (w_key w)
         /\ forall m1, aget (mgrs (fst (get_wait_lock s (w_key w)))) (w_key w) = Some m1 ->
                       m_wait m1 = None \/ exists q1, m_wait m1 = Some q1 /\ wq_items q1 = [])
   \/ (exists m r, aget (mgrs s) (w_key w) = Some m /\ m_waited m = true
         /\ snd (get_wait_lock s (w_key w)) = Some r
         /\ do_lock (fst (get_wait_lock s (w_key w))) (w_key w) r = false
         /\ s' = fst (get_wait_lock s (w_key w))
         /\ dead_waiter (getl s' r) = false
         /\ forall m1, aget (mgrs s') (w_key w) = Some m1 -> exists q1, m_wait m1 = Some q1 /\ wq_head q1 = Some r)).
Proof.
  intros H. apply wake_iter_done in H. destruct H as (He & H). split; auto.
  destruct H as [H|[H|[H|H]]]; auto.
  - destruct H as (m & Hm & Hw & Hn & Hs). right. right. left. exists m.
    repeat (split; auto). pose proof (get_wait_lock_result s (w_key w) m Hm) as Hr. rewrite Hn in Hr. exact Hr.
  - destruct H as (m & r & Hm & Hw & Hn & Hd & Hs). right. right. right. exists m, r.
    repeat (split; auto); pose proof (get_wait_lock_result s (w_key w) m Hm) as Hr; rewrite Hn in Hr; subst s';
      destruct Hr; auto.
Qed.

Lemma wake_pass_within_fuel s ev w :
  wake_done_within (wake_fuel s (w_key w)) s w = true
  /\ (forall n, (wake_fuel s (w_key w) <= n)%nat -> run_wake n s w = run_wake (wake_fuel s (w_key w)) s w)
  /\ exists s' ev', finish (s, ev, Some w) = (s', ev ++ ev') /\ wake_trace s w s' ev'.
Proof.
  split; [apply wake_done_within_fuel|]. split.
  - intros n Hn. apply run_wake_fuel_indep; auto. apply wake_done_within_fuel.
  - destruct (finish_some_trace s ev w) as (s' & ev' & H1 & H2 & _). eauto.
Qed.

(* whatever `finish` returns after a pass is the result state of a WDone iteration *)
Lemma finish_ends_done s ev w s' evs :
  finish (s, ev, Some w) = (s', evs) -> exists s0, wake_iter s0 w = (s', [], WDone).
Proof.
  intros H. destruct (finish_some_trace s ev w) as (s1 & ev1 & H1 & H2 & _).
  rewrite H in H1. apply tuple2_inv in H1. destruct H1 as (-> & _).
  eapply wake_trace_ends; eauto.
Qed.

(* ------------------------------------------------------------------ example states for the non-vacuity examples *)
(* example states: A holds key 5 with Count 1 (LockId 7); B holds it too (LockId 8); W (LockId 9, Count 0) waits *)
Definition exA := mkCmd true 1 0 7 5 0 0 0 10 1 0 None.
Definition exB := mkCmd true 2 0 8 5 0 0 0 10 1 0 None.
Definition exW := mkCmd true 3 0 9 5 0 5 0 10 0 0 None.
Definition ex_held2 : db := fst (run (init_db 0 255) [AReq 1 exA; AReq 2 exB]).
Definition ex_waiting : db := fst (run (init_db 0 255) [AReq 1 exA; AReq 2 exB; AReq 3 exW]).

