(* Run-level expiry theorems (property C06), UPPER BOUND, part 3: the placement invariant EW (RunLateInv.v) is preserved by
   the wake-up pass and by LockDB.Lock, under the heap invariant GInv (fresh / waiting records are in no expiry
   structure; what GetLockedLock returns is a stored holder) and the long-table invariant KL.
   An update / re-lock may shorten the deadline of the record it addresses: that record must be in X. *)
From Coq Require Import String ZifyN ZifyBool ZifyNat.
From Slock Require Import Engine.Types Engine.Queues Engine.Timers Engine.Engine Engine.Engine2 Engine.InvDef Engine.InvBase
  Engine.InvPrims Engine.InvRec Engine.InvWheel Engine.InvQueue Engine.InvQueue2 Engine.InvSteps Engine.InvLockDefs Engine.InvLock
  Engine.InvUnlock Engine.InvSweep Engine.InvMain Engine.InvProps.
From Slock Require Import Engine.LocalBase Engine.LocalWake Engine.TimeBase Engine.TimeExp Engine.RunExpScal Engine.RunExpK
  Engine.RunExpSteps Engine.RunLateFr Engine.RunLateInv.
Open Scope N_scope.

Ltac Zify.zify_post_hook ::= Z.div_mod_to_equations.

Definition EWc (X : ref -> Prop) (f : Z) (s : db) : Prop := EW X f s /\ (f <= checkE s <= now s + 1)%Z.

Lemma EWc_wfr X f s s' : EWc X f s -> wfr s s' -> EWc X f s'.
Proof. intros [E C] F. split; [eapply EW_wfr; eauto|]. rewrite (wfr_checkE _ _ F), (wfr_now _ _ F). exact C. Qed.

Lemma wfr_notin_e s s' r : wfr s s' -> (forall k, ~ In r (wheel_get (ewheel s) k)) -> forall k, ~ In r (wheel_get (ewheel s') k).
Proof. intros (_ & _ & _ & W & _) H k I. apply (H k). apply W. exact I. Qed.
Lemma wfr_notin_l s s' r : wfr s s' -> (forall k, ~ In r (wheel_get (elong s) k)) -> forall k, ~ In r (wheel_get (elong s') k).
Proof. intros (_ & _ & _ & _ & W & _) H k I. apply (H k). apply W. exact I. Qed.

(* AddLock; locked++; AddExpried (the grant of a hold): the entry is placed for a second <= the new deadline *)
Lemma EWc_grant X f s k r l fn s4 aev :
  EWc X f s -> aget (store s) r = Some l ->
  (forall k0, ~ In r (wheel_get (ewheel s) k0)) -> (forall kk, ~ In r (wheel_get (elong s) kk)) ->
  add_expried (updm (add_lock s k r) k fn) k r = (s4, aev) -> EWc X f s4.
Proof.
  intros [E C] G NW NL EQ.
  pose proof (ew_nu _ _ _ E r l G) as U.
  destruct (EW_add_lock X f s k r l E G NW NL) as (E2 & NW2 & NL2).
  destruct (add_lock_terms s k r l G U) as (l2 & G2 & Cm & St & Et & _).
  set (s2 := updm (add_lock s k r) k fn) in *.
  assert (F2 : wfr (add_lock s k r) s2) by (apply wfr_updm, wfr_refl).
  assert (G2' : aget (store s2) r = Some l2) by (unfold s2; rewrite (tview_store _ _ (updm_tview _ _ _)); exact G2).
  assert (CE : checkE s2 = checkE s) by (unfold s2; rewrite ce_updm, ce_add_lock; reflexivity).
  assert (NO : now s2 = now s) by (unfold s2; rewrite nw_updm, nw_add_lock; reflexivity).
  pose proof (EW_add_expried X f s2 k r l2 (EW_wfr _ _ _ _ E2 F2) G2' (wfr_notin_e _ _ _ F2 NW2) (wfr_notin_l _ _ _ F2 NL2)) as A.
  rewrite EQ in A. cbn [fst] in A.
  pose proof (ce_add_expried s2 k r) as C4. pose proof (nw_add_expried s2 k r) as N4. rewrite EQ in C4, N4. cbn [fst] in C4, N4.
  split; [|rewrite C4, N4, CE, NO; exact C].
  apply A.
  - unfold stok. rewrite St, Et. apply expiry_deadline_stok.
  - rewrite CE, NO. exact C.
  - rewrite CE, Et. destruct (expiry_deadline_stok (l_cmd l) (now s)); [right; left; auto|left; lia].
Qed.

(* ---------------------------------------------------------------- wakeUpWaitLocks *)
Lemma wake_grant_EW X f s k r via l :
  EWc X f s -> aget (store s) r = Some l -> cmd_core (l_cmd l) ->
  (forall k0, ~ In r (wheel_get (ewheel s) k0)) -> (forall kk, ~ In r (wheel_get (elong s) kk)) ->
  EWc X f (fst (wake_grant s k r via)).
Proof.
  intros E G Hc NW NL. rewrite wake_grant_state by (rewrite (getl_some _ _ _ G); exact Hc). cbv zeta.
  rewrite wg_pre_kill.
  assert (F1 : wfr s (kill s r)) by (apply wfr_kill, wfr_refl).
  pose proof (EWc_wfr _ _ _ _ E F1) as E1.
  destruct (kill_store s r l G) as (l1 & G1 & T1).
  destruct (0 <? c_expried (l_cmd (getl s r))).
  - eapply EWc_wfr; [|apply wfr_bump, wfr_refl]. unfold grant_core. cbv zeta.
    destruct (add_expried _ k r) as [s4 aev] eqn:EQ. cbn [fst].
    eapply EWc_wfr; [eapply (EWc_grant X f (kill s r) k r l1); eauto|wf].
    + eapply wfr_notin_e; eauto.
    + eapply wfr_notin_l; eauto.
  - eapply EWc_wfr; [exact E1|]. apply wfr_bump. unfold wg_nohold.
    destruct (has_data_flag _); [|wf]. cbv zeta. destruct (_ && _); [apply wfr_push_lock_aof|]; wf.
Qed.

Lemma wake_iter_EW X f s xt xe k w : GInv s (gk xt xe k) -> w_key w = k -> EWc X f s -> EWc X f (fst (fst (wake_iter s w))).
Proof.
  intros G Hw E. unfold wake_iter. rewrite Hw. destruct (aget (mgrs s) k) as [m|] eqn:Hm; [|exact E].
  destruct (negb (m_waited m)); [exact E|].
  pose proof (get_wait_lock_ginv s (gk xt xe k) k G) as P.
  pose proof (wfr_get_wait_lock s s k (wfr_refl s)) as F.
  destruct (get_wait_lock s k) as [s1 wl]. destruct P as [G1 [LF [_ [_ [_ P4]]]]]; auto. cbn [fst] in F.
  pose proof (EWc_wfr _ _ _ _ E F) as E1.
  destruct wl as [r|].
  - destruct P4 as [Hin [l [Hr Ht]]].
    destruct (negb (do_lock s1 k r)); [exact E1|].
    destruct (ro_live _ _ _ _ (gi_rec _ _ G1 r l Hr) Ht) as [_ [Q _]]. unfold ecount in Q.
    pose proof (wake_grant_EW X f s1 k r (w_conn w) l E1 Hr (ro_cmd _ _ _ _ (gi_rec _ _ G1 r l Hr))) as A.
    destruct (wake_grant s1 k r (w_conn w)) as [s2 ev]. apply A.
    + intros k0. apply not_in_wrefs. lia.
    + intros kk. apply not_in_wrefs. lia.
  - cbn [fst]. eapply EWc_wfr; [exact E1|wf].
Qed.

Lemma run_wake_EW X f fuel : forall s xt xe k w, GInv s (gk xt xe k) -> w_key w = k -> EWc X f s -> EWc X f (fst (run_wake fuel s w)).
Proof.
  induction fuel as [|fu IH]; intros s xt xe k w G Hw E; simpl; [exact E|].
  pose proof (wake_iter_ginv s xt xe k w G Hw) as G1. pose proof (wake_iter_EW X f s xt xe k w G Hw E) as E1.
  destruct (wake_iter s w) as [[s' ev] [|]]; cbn [fst] in *; [exact E1|].
  specialize (IH s' xt xe k w G1 Hw E1). destruct (run_wake fu s' w) as [s'' ev']. exact IH.
Qed.

Lemma finish_EW X f s ev w xt xe k : GInv s (gk xt xe k) -> (forall w0, w = Some w0 -> w_key w0 = k) -> EWc X f s ->
  EWc X f (fst (finish (s, ev, w))).
Proof.
  intros G Hw E. unfold finish. destruct w as [w0|]; [|exact E].
  pose proof (run_wake_EW X f (wake_fuel s (w_key w0)) s xt xe k w0 G (Hw w0 eq_refl) E) as P.
  destruct (run_wake (wake_fuel s (w_key w0)) s w0) as [s' ev']. exact P.
Qed.

(* ---------------------------------------------------------------- update / re-lock *)
(* the update / re-lock with command c does not shorten the deadline of l *)
Definition nd_cmd (nowv : Z) (c : cmd) (l : lockrec) : Prop :=
  negb (has (c_eflag c) EF_UNLIMITED) || (c_expried c <? 65535) = true -> (l_eT l <= expiry_deadline c nowv)%Z.

Lemma ull_rec_late s k r c l :
  l_expried (ull_rec s k r c l) = l_expried l /\ l_cmd (ull_rec s k r c l) = c
  /\ ((negb (has (c_eflag c) EF_UNLIMITED) || (c_expried c <? 65535) = true
       /\ l_start (ull_rec s k r c l) = now s /\ l_eT (ull_rec s k r c l) = expiry_deadline c (now s))
      \/ (l_start (ull_rec s k r c l) = l_start l /\ l_eT (ull_rec s k r c l) = l_eT l)).
Proof.
  unfold ull_rec. cbv zeta.
  destruct (negb (has (c_eflag c) EF_UNLIMITED) || (c_expried c <? 65535)) eqn:EB;
    repeat match goal with |- context [if ?b then _ else _] =>
      lazymatch b with context [EF_MILLISECOND] => fail | context [EF_MINUTE] => fail | context [EF_UNLIMITED] => fail | _ => destruct b end end;
    cbn [l_start l_eT l_expried l_cmd set eta_lock]; auto 6.
Qed.

Lemma update_and_rearm_EW X f s k r c l :
  EWc X f s -> KL s -> aget (store s) r = Some l -> l_expried l = false -> stok l ->
  nu c -> has (c_eflag c) EF_MILLISECOND = false -> (X r \/ nd_cmd (now s) c l) ->
  (l_long l = true -> forall k0, ~ In r (wheel_get (ewheel s) k0)) ->
  EWc X f (fst (update_and_rearm s k r c)).
Proof.
  intros [E C] K G L Hst Hc Hms Hx NWl. unfold update_and_rearm. rewrite (getl_some _ _ _ G). cbv zeta.
  rewrite update_locked_lock_eq, (getl_some _ _ _ G).
  set (l1 := ull_rec s k r c l).
  destruct (ull_rec_late s k r c l) as (X1 & Cm & TT). fold l1 in X1, Cm, TT.
  assert (ST1 : stok l1).
  { unfold stok. destruct TT as [(_ & A & B)|[A B]]; rewrite A, B; [apply expiry_deadline_stok|exact Hst]. }
  assert (E1 : EW X f (setl s r l1)).
  { apply (EW_setl_in X f s r l l1 E G L); auto.
    - unfold nu. rewrite Cm. exact Hc.
    - intros d [D1 D2]. split; auto. destruct TT as [(EB & A & B)|[A B]]; rewrite A, B; [|exact D2].
      destruct Hx as [Hx|Hx]; [right; right; split; auto|]. specialize (Hx EB).
      destruct D2 as [D2|[D2|[D2 _]]]; [left; lia|right; left; lia|right; right; split; auto].
    - intros D. destruct TT as [(_ & A & B)|[A B]]; rewrite B; [|exact D].
      destruct (expiry_deadline_stok c (now s)); [right; auto|left; lia]. }
  assert (C1 : (f <= checkE (setl s r l1) <= now (setl s r l1) + 1)%Z) by exact C.
  destruct (l_long l) eqn:LL; [|split; assumption].
  rewrite Hms. cbn [negb].
  assert (G1 : aget (store (setl s r l1)) r = Some l1) by (rewrite aget_setl, N.eqb_refl; reflexivity).
  rewrite (getl_some _ _ _ G1).
  destruct (negb (l_eT l =? l_eT l1)%Z) eqn:Ene; [|split; assumption].
  set (s2 := remove_long_expried (setl s r l1) r (l_eT l)).
  assert (FR2 : wfr (setl s r l1) s2) by (unfold s2; apply wfr_remove_long_expried, wfr_refl).
  pose proof K as [K1 K2 K3].
  assert (NL2 : forall kk, ~ In r (wheel_get (elong s2) kk)).
  { intros kk I. apply remove_long_expried_elong in I. destruct I as [I0 N].
    change (elong (setl s r l1)) with (elong s) in I0. destruct (K3 kk r l I0 G L) as [_ KK]. apply N; auto. }
  assert (NW2 : forall k0, ~ In r (wheel_get (ewheel s2) k0)).
  { apply (wfr_notin_e _ _ _ FR2). exact (NWl eq_refl). }
  assert (G2 : exists l2, aget (store s2) r = Some l2 /\ wsame l1 l2).
  { unfold s2. rewrite remove_long_expried_store, N.eqb_refl, G1. cbn.
    match goal with |- context [if ?b then _ else _] => destruct b end;
      eexists; (split; [reflexivity|unfold wsame; cbn; repeat split; reflexivity]). }
  destruct G2 as (l2 & G2 & (W1 & W2 & W3 & W4)).
  pose proof (EW_add_expried X f s2 k r l2 (EW_wfr _ _ _ _ E1 FR2) G2 NW2 NL2) as A.
  pose proof (ce_add_expried s2 k r) as C4. pose proof (nw_add_expried s2 k r) as N4.
  destruct (add_expried s2 k r) as [s3 ev]. cbn [fst] in *.
  assert (CE : checkE s2 = checkE s) by (rewrite (wfr_checkE _ _ FR2); reflexivity).
  assert (NO : now s2 = now s) by (rewrite (wfr_now _ _ FR2); reflexivity).
  eapply EWc_wfr; [|apply wfr_updl; [intros ?; left; unfold wsame; cbn; auto|apply wfr_refl]].
  split; [|rewrite C4, N4, CE, NO; exact C].
  apply A.
  - unfold stok. rewrite W2, W3. exact ST1.
  - rewrite CE, NO. exact C.
  - rewrite CE, W2. destruct TT as [(_ & A1 & B1)|[A1 B1]].
    + rewrite B1. destruct (expiry_deadline_stok c (now s)); [right; left; auto|left; lia].
    + exfalso. apply negb_true_iff, Z.eqb_neq in Ene. congruence.
Qed.

Lemma update_and_rearm_EW_eq X f s k r c l s2 aev :
  update_and_rearm s k r c = (s2, aev) ->
  EWc X f s -> KL s -> aget (store s) r = Some l -> l_expried l = false -> stok l ->
  nu c -> has (c_eflag c) EF_MILLISECOND = false -> (X r \/ nd_cmd (now s) c l) ->
  (l_long l = true -> forall k0, ~ In r (wheel_get (ewheel s) k0)) -> EWc X f s2.
Proof. intros EQ E K G L S Hc Hms Hx NW. pose proof (update_and_rearm_EW X f s k r c l E K G L S Hc Hms Hx NW) as A. rewrite EQ in A. exact A. Qed.

(* ---------------------------------------------------------------- LockDB.Lock: the held phase *)
Lemma ls_update_EW X f s conn c1 k m r l ld res c' w :
  ls_update s conn c1 k m r l ld = (Some res, c', w) ->
  EWc X f s -> KL s -> aget (store s) r = Some l -> l_expried l = false -> cmd_core c1 -> nu c1 -> (X r \/ nd_cmd (now s) c1 l) ->
  (l_long l = true -> forall k0, ~ In r (wheel_get (ewheel s) k0)) ->
  EWc X f (fst (fst res)).
Proof.
  intros H E K G L (C1 & C2 & C3 & C4) Hn Hx NW. unfold ls_update in H. cbv zeta in H.
  pose proof (ew_st _ _ _ (proj1 E) r l (conj G L)) as ST.
  rewrite (process_data_core _ _ _ _ _ C4) in H.
  repeat (split_hyp H); inv_tuple H; some_subst; cbn [fst]; try exact E.
  all: match goal with EQ : update_and_rearm _ _ _ _ = (?y, _) |- _ =>
         pose proof (update_and_rearm_EW_eq X f _ _ _ _ _ _ _ EQ E K G L ST Hn C3 Hx NW) as EY end.
  all: eapply EWc_wfr; [exact EY|wf].
Qed.

Lemma ls_relock_EW X f s conn c1 k m r l ld res c' w :
  ls_relock s conn c1 k m r l ld = (Some res, c', w) ->
  EWc X f s -> KL s -> aget (store s) r = Some l -> l_timeouted l = true -> l_expried l = false -> cmd_core c1 -> nu c1 -> (X r \/ nd_cmd (now s) c1 l) ->
  (l_long l = true -> forall k0, ~ In r (wheel_get (ewheel s) k0)) ->
  EWc X f (fst (fst res)).
Proof.
  intros H E K G T L (C1 & C2 & C3 & C4) Hn Hx NW. unfold ls_relock in H. cbv zeta in H.
  pose proof (ew_st _ _ _ (proj1 E) r l (conj G L)) as ST.
  rewrite ?(process_data_core _ _ _ _ _ C4) in H.
  set (s1 := updl (updm s k (fun m0 => m0 <| m_locked := add32 (m_locked m0) 1 |>)) r (fun l0 => l0 <| l_locked := add8 (l_locked l0) 1 |>)) in *.
  assert (F1 : wfr s s1) by (unfold s1; wf).
  assert (K1 : KL s1) by (eapply KL_kfr; [exact K|unfold s1; kf]).
  pose proof (EWc_wfr _ _ _ _ E F1) as E1.
  assert (G1 : aget (store s1) r = Some (l <| l_locked := add8 (l_locked l) 1 |>)).
  { unfold s1. rewrite aget_updl, N.eqb_refl, (tview_store _ _ (updm_tview _ _ _)), G. reflexivity. }
  assert (NW1 : l_long (l <| l_locked := add8 (l_locked l) 1 |>) = true -> forall k0, ~ In r (wheel_get (ewheel s1) k0)).
  { intros LL. apply (wfr_notin_e _ _ _ F1). apply NW. exact LL. }
  assert (Hx1 : X r \/ nd_cmd (now s1) c1 (l <| l_locked := add8 (l_locked l) 1 |>)) by (rewrite (wfr_now _ _ F1); exact Hx).
  clearbody s1.
  repeat (split_hyp H); inv_tuple H; some_subst; cbn [fst]; try exact E.
  all: match goal with EQ : update_and_rearm _ _ _ _ = (?y, _) |- _ =>
         pose proof (update_and_rearm_EW_eq X f _ _ _ _ _ _ _ EQ E1 K1 G1 L ST Hn C3 Hx1 NW1) as EY end.
  all: eapply EWc_wfr; [exact EY|wf].
Qed.

Lemma ls_update_some s conn c1 k m r l ld c' w : ls_update s conn c1 k m r l ld = (None, c', w) -> False.
Proof.
  intros H. unfold ls_update in H. cbv zeta in H.
  repeat (split_hyp H); apply tuple3_inv in H; destruct H as (H & _); discriminate H.
Qed.
Lemma ls_relock_some s conn c1 k m r l ld c' w : ls_relock s conn c1 k m r l ld = (None, c', w) -> False.
Proof.
  intros H. unfold ls_relock in H. cbv zeta in H.
  repeat (split_hyp H); apply tuple3_inv in H; destruct H as (H & _); discriminate H.
Qed.
Lemma ls_held_none_tflag s conn c k m c' w : ls_held s conn c k m = (None, c', w) -> c_tflag c' = c_tflag c.
Proof.
  rewrite ls_held_eq. cbv zeta. intros H.
  destruct (0 <? m_locked m).
  - destruct (has (c_flag c) LOCK_FLAG_SHOW && negb (has (c_flag c) LOCK_FLAG_UPDATE)); [apply tuple3_inv in H; destruct H as (H & _); discriminate H|].
    match type of H with context [get_locked_lock ?a ?b ?d] => destruct (get_locked_lock a b d) as [r|] end.
    + match type of H with context [negb (l_ack ?x =? 255)] => destruct (negb (l_ack x =? 255)) end;
        [apply tuple3_inv in H; destruct H as (H & _); discriminate H|].
      match type of H with context [has (c_flag ?x) LOCK_FLAG_UPDATE] => destruct (has (c_flag x) LOCK_FLAG_UPDATE) end;
        [exfalso; eapply ls_update_some; eauto|].
      match type of H with (if ?b then _ else _) = _ => destruct b end;
        [exfalso; eapply ls_relock_some; eauto|apply tuple3_inv in H; destruct H as (H & _); discriminate H].
    + apply tuple3_inv in H. destruct H as (_ & H & _). subst c'. destruct (has (c_flag c) LOCK_FLAG_SHOW); reflexivity.
  - destruct (has (c_tflag c) TF_WAIT_WHEN_UNLOCK); [destruct (m_waited m && (c_count c =? 0))|];
      apply tuple3_inv in H; destruct H as (H1 & H2 & _); try discriminate H1; subst c'; reflexivity.
Qed.

(* the record an incoming Lock request addresses for an update / re-entrant re-lock, if any *)
Definition lock_target (s : db) (c : cmd) : option ref :=
  match aget (mgrs s) (c_key c) with
  | Some m =>
      if 0 <? m_locked m then
        let curl := getl s (match m_cur m with Some cr => cr | None => 0 end) in
        let c1 := if has (c_flag c) LOCK_FLAG_SHOW then c <| c_lockid := c_lockid (l_cmd curl) |> else c in
        get_locked_lock s m (c_lockid c1)
      else None
  | None => None
  end.

Lemma ls_held_EW X f s xt xe conn c k m res c' w :
  GInv s (gk xt xe k) -> aget (mgrs s) k = Some m -> c_key c = k -> cmd_core c -> nu c -> EWc X f s -> KL s -> XL s ->
  (forall r, lock_target s c = Some r -> X r \/ forall l, aget (store s) r = Some l -> nd_cmd (now s) c l) ->
  ls_held s conn c k m = (Some res, c', w) -> EWc X f (fst (fst res)).
Proof.
  intros G Hm Hk Hc Hn E K HX HT H. rewrite ls_held_eq in H.
  unfold lock_target in HT. rewrite Hk, Hm in HT.
  destruct (0 <? m_locked m).
  - cbv zeta in H, HT.
    set (curl := getl s match m_cur m with Some cr => cr | None => 0 end) in *.
    set (c1 := if has (c_flag c) LOCK_FLAG_SHOW then c <| c_lockid := c_lockid (l_cmd curl) |> else c) in *.
    assert (Hc1 : cmd_core c1) by (unfold c1; destruct (has (c_flag c) LOCK_FLAG_SHOW); [apply cmd_core_lockid|]; auto).
    assert (Hn1 : nu c1) by (unfold c1; destruct (has (c_flag c) LOCK_FLAG_SHOW); exact Hn).
    assert (Hnd : forall l0, nd_cmd (now s) c l0 -> nd_cmd (now s) c1 l0) by (unfold c1; destruct (has (c_flag c) LOCK_FLAG_SHOW); auto).
    clearbody c1.
    destruct (has (c_flag c) LOCK_FLAG_SHOW && negb (has (c_flag c) LOCK_FLAG_UPDATE)); [inv_tuple H; some_subst; exact E|].
    destruct (get_locked_lock s m (c_lockid c1)) as [r|] eqn:Eg; [|discriminate].
    destruct (get_locked_lock_spec s xt xe k m _ r G Hm Eg) as [l [Hr [Hkey [Hd [Hid [Ht Hh]]]]]].
    rewrite (getl_some _ _ _ Hr) in H.
    assert (L : l_expried l = false).
    { destruct (l_expried l) eqn:EE; auto. pose proof (HX r l Hr EE). lia. }
    assert (NW : l_long l = true -> forall k0, ~ In r (wheel_get (ewheel s) k0)).
    { intros LL k0. destruct (gi_rec _ _ G r l Hr) as [A1 A2 A3 A4 A5 A6 A7 A8 A9 A10 A11].
      destruct (A8 LL eq_refl) as [_ Q]. specialize (Q Ht).
      pose proof (occ_wheel_get_le r (elong s) (lkey (l_eT l))). unfold ecount in A5.
      apply not_in_wrefs. lia. }
    assert (Hx : X r \/ nd_cmd (now s) c1 l) by (destruct (HT r eq_refl) as [A|A]; [left; exact A|right; apply Hnd, A; exact Hr]).
    destruct (negb (l_ack l =? 255)); [inv_tuple H; some_subst; exact E|].
    destruct (has (c_flag c1) LOCK_FLAG_UPDATE); [eapply ls_update_EW; eauto|].
    destruct ((l_locked l <? 255) && (l_locked l <=? c_rcount c1) && negb (has (c_tflag c1) TF_PRIORITY));
      [eapply ls_relock_EW; eauto|inv_tuple H; some_subst; exact E].
  - destruct (has (c_tflag c) TF_WAIT_WHEN_UNLOCK); [destruct (m_waited m && (c_count c =? 0))|];
      try discriminate; inv_tuple H; some_subst; exact E.
Qed.

(* ---------------------------------------------------------------- LockDB.Lock: the new record *)
Lemma ls_tail_EW X f s xt xe conn c k waited m :
  GInv s (gk xt xe k) -> cmd_core c -> nu c -> aget (mgrs s) k = Some m -> next s < MAXREC -> EWc X f s ->
  EWc X f (fst (fst (ls_tail s conn c k waited))).
Proof.
  intros G Hc Hn Hm Hb E. set (g := gk xt xe k) in *.
  destruct (new_lock_ginv s g k conn c m G Hm eq_refl eq_refl Hb Hc) as [Enl G1].
  destruct (fresh_zero s g (next s) G (N.le_refl _)) as [Fn [Fte [Fph Fl]]].
  assert (NW : forall k0, ~ In (next s) (wheel_get (ewheel s) k0)).
  { intros k0. apply not_in_wrefs. unfold ecount in Fte. lia. }
  assert (NL : forall kk, ~ In (next s) (wheel_get (elong s) kk)).
  { intros kk. apply not_in_wrefs. unfold ecount in Fte. lia. }
  assert (F1 : wfr s (fst (new_lock s k conn c))) by (apply wfr_new_lock; [exact Hn|apply wfr_refl]).
  pose proof (EWc_wfr _ _ _ _ E F1) as E1.
  pose proof (wfr_notin_e _ _ _ F1 NW) as NW1. pose proof (wfr_notin_l _ _ _ F1 NL) as NL1.
  unfold ls_tail. rewrite Enl in *. cbn [fst] in G1, E1, NW1, NL1.
  set (r := next s) in *. set (l0 := fresh_rec s k conn c) in *.
  match goal with |- context [updm ?S k ?fn] => set (s1 := updm S k fn) in * end.
  assert (Hr1 : aget (store s1) r = Some l0).
  { unfold s1. rewrite (tview_store _ _ (updm_tview _ _ _)). cbn. apply aget_aset_same. }
  clearbody s1. cbv zeta.
  destruct Hc as [C1 [C2 [C3 C4]]].
  destruct ((negb waited || has (c_tflag c) TF_PRIORITY && check_wait_priority s1 k c) && do_lock s1 k r).
  - destruct (0 <? c_expried c).
    + rewrite C1. cbn [andb]. rewrite C3.
      destruct (has_data_flag c); rewrite ?(process_data_core _ _ _ _ _ C4); cbv iota beta;
        destruct (add_expried _ k r) as [s4 aev] eqn:EQ; cbn [fst];
        (eapply EWc_wfr; [eapply (EWc_grant X f s1 k r l0); eauto|wf]).
    + destruct (has_data_flag c).
      * rewrite (process_data_core _ _ _ _ _ C4). cbv iota beta.
        destruct (_ && _).
        -- destruct (push_lock_aof s1 k r 0) as [s2 aev] eqn:E2. cbn [fst]. eapply EWc_wfr; [exact E1|wf].
        -- cbn [fst]. eapply EWc_wfr; [exact E1|wf].
      * cbn [fst]. eapply EWc_wfr; [exact E1|wf].
  - destruct ((0 <? c_timeout c) && (negb (has (c_tflag c) TF_TIMEOUT_WHEN_DATA) || match data_of s1 k with None => true | Some _ => false end)).
    + rewrite C2. cbn [fst]. eapply EWc_wfr; [exact E1|wf].
    + cbn [fst]. eapply EWc_wfr; [exact E1|wf].
Qed.

Lemma lock_step_EW X f s xt xe conn c :
  GInv s (gk xt xe (c_key c)) -> cmd_core c -> nu c -> next s < MAXREC -> EWc X f s -> KL s -> XL s ->
  (forall r, lock_target s c = Some r -> X r \/ forall l, aget (store s) r = Some l -> nd_cmd (now s) c l) ->
  EWc X f (fst (fst (lock_step s conn c))).
Proof.
  intros G Hc Hn Hb E K HX HT. rewrite lock_step_eq. cbv zeta. set (k := c_key c) in *.
  destruct (ls_pre s conn c k); [exact E|].
  destruct (aget (mgrs s) k) as [m|] eqn:Hm.
  - assert (EM : ls_mgr s k = s) by (unfold ls_mgr; rewrite Hm; reflexivity). rewrite EM.
    destruct (negb (leader s) && negb (has (c_flag c) LOCK_FLAG_FROM_AOF)).
    + cbn [fst]. eapply EWc_wfr; [exact E|wf].
    + rewrite (getm_some _ _ _ Hm).
      pose proof (ls_held_ginv s xt xe conn c k m G Hm Hc Hb) as P.
      destruct (ls_held s conn c k m) as [[[res|] c'] w] eqn:Eh.
      * eapply (ls_held_EW X f s xt xe conn c k m); eauto.
      * assert (Hn' : nu c') by (unfold nu; rewrite (ls_held_none_tflag _ _ _ _ _ _ _ Eh); exact Hn).
        apply (ls_tail_EW X f s xt xe conn c' k w m G P Hn' Hm Hb E).
  - assert (G1 : GInv (ls_mgr s k) (gk xt xe k)) by (unfold ls_mgr; rewrite Hm; apply new_mgr_ginv; auto).
    assert (F1 : wfr s (ls_mgr s k)) by (unfold ls_mgr; rewrite Hm; wf).
    assert (N1 : next (ls_mgr s k) = next s) by (unfold ls_mgr; rewrite Hm; reflexivity).
    assert (Hm1 : aget (mgrs (ls_mgr s k)) k = Some new_mgr).
    { unfold ls_mgr. rewrite Hm. change (mgrs (bump _ (setm s k new_mgr))) with (aset (mgrs s) k new_mgr). apply aget_aset_same. }
    pose proof (EWc_wfr _ _ _ _ E F1) as E1. set (s1 := ls_mgr s k) in *.
    destruct (negb (leader s1) && negb (has (c_flag c) LOCK_FLAG_FROM_AOF)).
    + cbn [fst]. eapply EWc_wfr; [exact E1|wf].
    + rewrite (getm_some _ _ _ Hm1).
      assert (Hb1 : next s1 < MAXREC) by (rewrite N1; auto).
      pose proof (ls_held_ginv s1 xt xe conn c k new_mgr G1 Hm1 Hc Hb1) as P.
      destruct (ls_held s1 conn c k new_mgr) as [[[res|] c'] w] eqn:Eh.
      * exfalso. eapply ls_held_new_mgr; eauto.
      * assert (Hn' : nu c') by (unfold nu; rewrite (ls_held_none_tflag _ _ _ _ _ _ _ Eh); exact Hn).
        apply (ls_tail_EW X f s1 xt xe conn c' k w new_mgr G1 P Hn' Hm1 Hb1 E1).
Qed.
