(* Reply exactness, part 3: one grant of the wake-up pass (wake_grant / wake_iter), doTimeOut, doExpried.
   Every db value; no reachability invariant. *)
From Coq Require Import String ZifyN ZifyBool.
From Slock Require Import Engine.Types Engine.Queues Engine.Timers Engine.Engine Engine.Engine2 Engine.LocalBase
  Engine.RunReplyBase.
Open Scope N_scope.

Lemma mlk_chain_inc' s U S k :
  mfr (updm U k (fun m => m <| m_locked := add32 (m_locked m) 1 |>)) S -> mfr s U -> aget (mgrs s) k <> None ->
  mlk S k = add32 (mlk s k) 1.
Proof.
  intros H1 H2 Hk. rewrite (mfr_mlk _ _ k H1).
  rewrite (mlk_updm_locked U k (fun x => add32 x 1)); [|eapply mfr_has; eauto].
  rewrite (mfr_mlk _ _ k H2). reflexivity.
Qed.

Lemma dep_chain_add' x k r g S : deq (updm (add_lock x k r) k g) S -> dep S r = 1.
Proof.
  intros H. rewrite (H r), dep_updm, dep_add_lock, N.eqb_refl. reflexivity.
Qed.

(* ------------------------------------------------------------------ wakeUpWaitLock: one grant *)
(* the reply to a woken waiter r of key k: both counters are those of the state returned by the grant;
   with Expried > 0 the waiter becomes a holder (locked + 1, depth 1), with Expried = 0 nothing is held *)
Definition wro (s : db) (k : N) (r : ref) (s' : db) (e : event) : Prop :=
  match e with
  | EReply _ _ res lc lrc _ _ _ _ =>
      res = R_SUCCED /\ lc = u16 (mlk s' k) /\ lrc = dep s' r
      /\ mlk s' k = (if 0 <? c_expried (l_cmd (getl s r)) then add32 (mlk s k) 1 else mlk s k)
      /\ dep s' r = (if 0 <? c_expried (l_cmd (getl s r)) then 1 else dep s r)
  | _ => True
  end.
Lemma wro_norep s k r s' e : norep e -> wro s k r s' e.
Proof. destruct e; simpl; auto; contradiction. Qed.

Lemma wake_grant_counts s k r via s' ev :
  wake_grant s k r via = (s', ev) -> aget (mgrs s) k <> None -> Forall (wro s k r s') ev.
Proof.
  intros H Hk. unfold wake_grant in H. cbv beta iota zeta in H.
  repeat (split_hyp H); inv_tuple H.
  all: match goal with |- Forall (wro ?a ?b ?cc ?d) _ =>
         assert (HN : forall e, norep e -> wro a b cc d e) by (intros e; apply wro_norep) end.
  all: nr_solve HN.
  all: fold_counts; unfold wro, reply.
  all: match goal with A : (0 <? c_expried _) = _ |- _ => rewrite ?A end.
  all: split; [reflexivity|]; split; [reflexivity|]; split; [reflexivity|]; strip_bump; split.
  all: try solve [eapply mlk_chain_inc'; [mf|mf|exact Hk] | apply mfr_mlk; mf
                 | eapply dep_chain_add'; dq | apply deq_at; dq].
Qed.

(* one iteration of the pass: a final iteration (WDone) is silent; a serving iteration (WMore) answers the first live
   waiter r, found by GetWaitLock, with the counters of the state the iteration returns *)
Lemma wake_iter_counts s w s' ev res :
  wake_iter s w = (s', ev, res) ->
  match res with
  | WDone => ev = []
  | WMore => exists r, snd (get_wait_lock s (w_key w)) = Some r
                       /\ Forall (wro (fst (get_wait_lock s (w_key w))) (w_key w) r s') ev
  end.
Proof.
  unfold wake_iter. intros H.
  destruct (aget (mgrs s) (w_key w)) as [m|] eqn:Hm; [|inv_tuple H; auto].
  destruct (negb (m_waited m)); [inv_tuple H; auto|].
  destruct (get_wait_lock s (w_key w)) as [s1 wl] eqn:E1. cbn [fst snd].
  destruct wl as [r|]; [|inv_tuple H; auto].
  destruct (negb (do_lock s1 (w_key w) r)); [inv_tuple H; auto|].
  destruct (wake_grant s1 (w_key w) r (w_conn w)) as [s2 ev2] eqn:E2. inv_tuple H.
  exists r. split; [reflexivity|].
  eapply wake_grant_counts; [exact E2|].
  eapply mfr_has; [eapply mfr_get_wait_lock; [exact E1|apply mfr_refl]|]. congruence.
Qed.

(* ------------------------------------------------------------------ doTimeOut / doExpried *)
(* the reply about record r of key k: LCount is `locked` of the state returned, LRCount is 0 = the depth of the
   record in that state *)
Definition tro (res : N) (V : N) (s : db) (r : ref) (k : N) (s' : db) (e : event) : Prop :=
  match e with
  | EReply _ _ res' lc lrc _ _ _ _ =>
      res' = res /\ lc = u16 (mlk s' k) /\ lrc = 0 /\ dep s' r = 0
      /\ (aget (mgrs s) k <> None -> aget (mgrs s') k = None \/ mlk s' k = V)
  | _ => True
  end.
Lemma tro_norep res V s r k s' e : norep e -> tro res V s r k s' e.
Proof. destruct e; simpl; auto; contradiction. Qed.

Definition freed_then_mgr (s : db) (r : ref) (k : N) : db :=
  if match aget (store s) r with None => true | Some _ => false end then remove_mgr_if_unref s k else s.

Lemma freed_then_mgr_dfr s x r k : dfr s x -> dfr s (freed_then_mgr x r k).
Proof. intros H. unfold freed_then_mgr. destruct (match aget (store x) r with None => true | Some _ => false end); df. Qed.

Lemma freed_then_mgr_mlk x r k : mlk (freed_then_mgr x r k) k = mlk x k \/ aget (mgrs (freed_then_mgr x r k)) k = None.
Proof.
  unfold freed_then_mgr. destruct (match aget (store x) r with None => true | Some _ => false end); auto.
  apply mlk_remove_mgr.
Qed.

Lemma dep_bump f x r : dep (bump f x) r = dep x r. Proof. reflexivity. Qed.
Lemma mlk_bump f x k : mlk (bump f x) k = mlk x k. Proof. reflexivity. Qed.

(* the common end of doTimeOut / doExpried: refCount--, possibly FreeLock and RemoveLockManager, counters *)
Lemma fire_tail res V s r k S0 g conn c d :
  dep S0 r = 0 -> (aget (mgrs s) k <> None -> mlk S0 k = V) ->
  tro res V s r k
    (bump g (if match aget (store (unref S0 r)) r with Some _ => false | None => true end
             then remove_mgr_if_unref (unref S0 r) k else unref S0 r))
    (reply conn c res
       (m_locked (getm (bump g (if match aget (store (unref S0 r)) r with Some _ => false | None => true end
                                then remove_mgr_if_unref (unref S0 r) k else unref S0 r)) k))
       (l_locked (getl S0 r)) d).
Proof.
  intros D HV. unfold tro, reply. fold_counts. rewrite !dep_bump, !mlk_bump.
  split; [reflexivity|]. split; [reflexivity|]. split; [exact D|].
  assert (D1 : dep (unref S0 r) r = 0) by (eapply dfr_zero; [|exact D]; df).
  assert (V1 : mlk (unref S0 r) k = mlk S0 k) by (apply mfr_mlk; mf).
  destruct (match aget (store (unref S0 r)) r with Some _ => false | None => true end).
  - split; [rewrite (dep_store _ _ r (store_remove_mgr _ k)); exact D1|].
    intros Hk. destruct (mlk_remove_mgr (unref S0 r) k) as [E|E]; [right|left; exact E].
    rewrite E, V1. apply HV. exact Hk.
  - split; [exact D1|]. intros Hk. right. rewrite V1. apply HV. exact Hk.
Qed.

Lemma do_timeout_counts s r s' ev w l :
  do_timeout s r = (s', ev, w) -> aget (store s) r = Some l ->
  Forall (tro R_TIMEOUT (cancel_val s (l_key l) r) s r (l_key l) s') ev.
Proof.
  intros H Hl. unfold do_timeout in H. rewrite Hl in H. cbv beta iota zeta in H. set (k := l_key l) in *.
  destruct (l_timeouted l); [inv_tuple H; constructor|].
  assert (Hd : l_locked l = dep s r) by (unfold dep; rewrite (getl_some _ _ _ Hl); reflexivity).
  rewrite Hd in H. unfold cancel_val.
  destruct (0 <? dep s r) eqn:H0; cbv beta iota zeta in H.
  - repeat (split_hyp H); inv_tuple H.
    all: match goal with |- Forall (tro ?a ?b ?cc ?d ?e ?f) _ =>
           assert (HN : forall x, norep x -> tro a b cc d e f x) by (intros x; apply tro_norep) end.
    all: nr_solve HN; apply fire_tail.
    all: try solve [rewrite dep_bump, dep_remove_lock, N.eqb_refl; reflexivity].
    all: intros Hk; rewrite mlk_bump; eapply mlk_chain_sub; [mf|mf|exact Hk].
  - apply ltb0_false in H0.
    repeat (split_hyp H); inv_tuple H.
    all: match goal with |- Forall (tro ?a ?b ?cc ?d ?e ?f) _ =>
           assert (HN : forall x, norep x -> tro a b cc d e f x) by (intros x; apply tro_norep) end.
    all: nr_solve HN; apply fire_tail.
    all: try solve [eapply dfr_zero; [|exact H0]; df].
    all: intros _; apply mfr_mlk; mf.
Qed.

Lemma do_expried_counts s r s' ev w l :
  do_expried s r = (s', ev, w) -> aget (store s) r = Some l ->
  Forall (tro R_EXPRIED (sub32 (mlk s (l_key l)) (dep s r)) s r (l_key l) s') ev.
Proof.
  intros H Hl. unfold do_expried in H. rewrite Hl in H. cbv beta iota zeta in H. set (k := l_key l) in *.
  destruct (l_expried l); [inv_tuple H; constructor|].
  assert (Hd : l_locked l = dep s r) by (unfold dep; rewrite (getl_some _ _ _ Hl); reflexivity).
  rewrite Hd in H.
  destruct (negb (leader s) && l_isaof l && _).
  { destruct (add_expried _ k r) as [s1 e1] eqn:E. inv_tuple H.
    apply (norep_impl _ _ (fun x => tro_norep _ _ _ _ _ _ x)). eapply add_expried_nr; exact E. }
  repeat (split_hyp H); inv_tuple H.
  all: match goal with |- Forall (tro ?a ?b ?cc ?d ?e ?f) _ =>
         assert (HN : forall x, norep x -> tro a b cc d e f x) by (intros x; apply tro_norep) end.
  all: nr_solve HN; apply fire_tail.
  all: try solve [rewrite dep_remove_lock, N.eqb_refl; reflexivity].
  all: intros Hk; eapply mlk_chain_sub; [mf|mf|exact Hk].
Qed.
