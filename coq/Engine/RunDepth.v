(* Depth arithmetic of re-entrant holds (property C02), part 1: frame relations.  Every state, no invariant.
   deq l l'     : the record keeps its depth, key, command and ack counter
   qs r k s s'  : "quiet step" -- only record r and manager k may differ, and only in fields that do not matter for
                  the depth bookkeeping (record: everything but depth/key/command/ack; manager: the value data)
   dk X s s'    : every record stored in s' outside the exempt set X was stored in s with the same depth
                  (records may be freed, none is created outside X)
   All frame lemmas are in right-extension form  `R s0 s -> R s0 (op s)`. *)
From Coq Require Import String ZifyN ZifyBool ZifyNat.
From Slock Require Import Engine.Types Engine.Queues Engine.Timers Engine.Engine Engine.Engine2 Engine.LocalBase.
Open Scope N_scope.

(* ------------------------------------------------------------------ records and managers up to irrelevant fields *)
Definition deq (l l' : lockrec) : Prop :=
  l_locked l' = l_locked l /\ l_key l' = l_key l /\ l_cmd l' = l_cmd l /\ l_ack l' = l_ack l.
Definition mq (m m' : mgr) : Prop :=
  m_locked m' = m_locked m /\ m_cur m' = m_cur m /\ m_locks m' = m_locks m /\ m_wait m' = m_wait m
  /\ m_waited m' = m_waited m /\ m_ref m' = m_ref m.
Definition orl {A} (R : A -> A -> Prop) (a b : option A) : Prop :=
  match a, b with Some x, Some y => R x y | None, None => True | _, _ => False end.

Lemma deq_refl l : deq l l. Proof. repeat split. Qed.
Lemma deq_trans a b c : deq a b -> deq b c -> deq a c.
Proof. unfold deq. intros (A1 & A2 & A3 & A4) (B1 & B2 & B3 & B4). repeat split; congruence. Qed.
Lemma mq_refl m : mq m m. Proof. repeat split. Qed.
Lemma mq_trans a b c : mq a b -> mq b c -> mq a c.
Proof. unfold mq. intros (A1 & A2 & A3 & A4 & A5 & A6) (B1 & B2 & B3 & B4 & B5 & B6). repeat split; congruence. Qed.
Lemma orl_refl {A} (R : A -> A -> Prop) (HR : forall x, R x x) o : orl R o o.
Proof. destruct o; simpl; auto. Qed.
Lemma orl_trans {A} (R : A -> A -> Prop) (HR : forall x y z, R x y -> R y z -> R x z) a b c :
  orl R a b -> orl R b c -> orl R a c.
Proof. destruct a, b, c; simpl; try tauto. apply HR. Qed.

(* side conditions "this record update does not touch depth/key/command/ack" *)
Ltac deq_side := intros; unfold deq, mq; cbn; repeat split; reflexivity.

(* ------------------------------------------------------------------ quiet steps *)
Record qs (r : ref) (k : N) (s s' : db) : Prop := mkQs {
  qs_r : orl deq (aget (store s) r) (aget (store s') r);
  qs_o : forall r', r' <> r -> aget (store s') r' = aget (store s) r';
  qs_k : orl mq (aget (mgrs s) k) (aget (mgrs s') k);
  qs_ok : forall k', k' <> k -> aget (mgrs s') k' = aget (mgrs s) k';
  qs_leader : leader s' = leader s;
  qs_next : next s' = next s
}.

Lemma qs_refl r k s : qs r k s s.
Proof. constructor; auto; [apply orl_refl, deq_refl|apply orl_refl, mq_refl]. Qed.
Lemma qs_trans r k a b c : qs r k a b -> qs r k b c -> qs r k a c.
Proof.
  intros [A1 A2 A3 A4 A5 A6] [B1 B2 B3 B4 B5 B6]. constructor; try congruence.
  - eapply orl_trans; [exact deq_trans|exact A1|exact B1].
  - intros r' H. rewrite B2, A2; auto.
  - eapply orl_trans; [exact mq_trans|exact A3|exact B3].
  - intros k' H. rewrite B4, A4; auto.
Qed.

Lemma qs_same r k s s' : store s' = store s -> mgrs s' = mgrs s -> leader s' = leader s -> next s' = next s -> qs r k s s'.
Proof.
  intros E1 E2 E3 E4. constructor; auto; rewrite ?E1, ?E2; auto; [apply orl_refl, deq_refl|apply orl_refl, mq_refl].
Qed.

Lemma next_updl s r f : next (updl s r f) = next s. Proof. unfold updl. destruct aget; reflexivity. Qed.
Lemma next_updm s k f : next (updm s k f) = next s. Proof. unfold updm. destruct aget; reflexivity. Qed.

Lemma qs_updl r k s f : (forall l, deq l (f l)) -> qs r k s (updl s r f).
Proof.
  intros Hf. constructor; rewrite ?mgrs_updl; auto.
  - rewrite aget_store_updl, N.eqb_refl. destruct (aget (store s) r); simpl; auto.
  - intros r' H. rewrite aget_store_updl. destruct (r =? r') eqn:E; auto. apply N.eqb_eq in E. congruence.
  - apply orl_refl, mq_refl.
  - apply leader_updl.
  - apply next_updl.
Qed.

Lemma qs_updm r k s f : (forall m, mq m (f m)) -> qs r k s (updm s k f).
Proof.
  intros Hf. constructor; rewrite ?store_updm; auto.
  - apply orl_refl, deq_refl.
  - rewrite aget_mgrs_updm, N.eqb_refl. destruct (aget (mgrs s) k); simpl; auto.
  - intros k' H. rewrite aget_mgrs_updm. destruct (k =? k') eqn:E; auto. apply N.eqb_eq in E. congruence.
  - apply leader_updm.
  - apply next_updm.
Qed.

Lemma qsr r k s0 s s' : qs r k s s' -> qs r k s0 s -> qs r k s0 s'.
Proof. intros; eapply qs_trans; eauto. Qed.
Lemma qsr_same r k s0 s s' :
  store s' = store s -> mgrs s' = mgrs s -> leader s' = leader s -> next s' = next s -> qs r k s0 s -> qs r k s0 s'.
Proof. intros. eapply qs_trans; [eassumption|apply qs_same; auto]. Qed.
Lemma qsr_updl r k s0 s f : (forall l, deq l (f l)) -> qs r k s0 s -> qs r k s0 (updl s r f).
Proof. intros. eapply qs_trans; [eassumption|apply qs_updl; auto]. Qed.
Lemma qsr_updm r k s0 s f : (forall m, mq m (f m)) -> qs r k s0 s -> qs r k s0 (updm s k f).
Proof. intros. eapply qs_trans; [eassumption|apply qs_updm; auto]. Qed.
Lemma qsr_bump r k s0 s f : qs r k s0 s -> qs r k s0 (bump f s).
Proof. intros. apply (qsr_same r k s0 s); [reflexivity|reflexivity|reflexivity|reflexivity|assumption]. Qed.

Create HintDb qsdb.
#[export] Hint Resolve qs_refl qsr_updl qsr_updm qsr_bump : qsdb.
#[export] Hint Extern 1 (forall l : lockrec, deq _ _) => deq_side : qsdb.
#[export] Hint Extern 1 (forall m : mgr, mq _ _) => deq_side : qsdb.
#[export] Hint Extern 1 (qs _ _ _ (set _ _ ?x)) => (eapply (qsr_same _ _ _ x); [reflexivity|reflexivity|reflexivity|reflexivity|]) : qsdb.
#[export] Hint Extern 1 (qs _ _ _ (if ?c then _ else _)) => destruct c : qsdb.
#[export] Hint Extern 1 (qs _ _ _ (match ?c with _ => _ end)) => destruct c : qsdb.
Ltac qss := eauto 60 with qsdb.

Lemma push_lock_aof_qs r k s0 s fl s' ev : push_lock_aof s k r fl = (s', ev) -> qs r k s0 s -> qs r k s0 s'.
Proof. intros H Hs. unfold push_lock_aof in H. repeat (split_hyp H); inv_tuple H; qss. Qed.
Lemma push_unlock_aof_qs r k s0 s lc uc b fl s' ev : push_unlock_aof s k r lc uc b fl = (s', ev) -> qs r k s0 s -> qs r k s0 s'.
Proof. intros H Hs. unfold push_unlock_aof in H. repeat (split_hyp H); inv_tuple H; qss. Qed.
Lemma repeat_push_lock_aof_qs r k n : forall s0 s s' ev, repeat_push_lock_aof n s k r = (s', ev) -> qs r k s0 s -> qs r k s0 s'.
Proof.
  induction n as [|n IH]; intros s0 s s' ev H Hs; simpl in H.
  - inv_tuple H. auto.
  - destruct (push_lock_aof s k r 0) as [x1 e1] eqn:E1.
    destruct (repeat_push_lock_aof n x1 k r) as [x2 e2] eqn:E2. inv_tuple H.
    eapply IH; [exact E2|]. eapply push_lock_aof_qs; eauto.
Qed.
Lemma add_expried_qs r k s0 s s' ev : add_expried s k r = (s', ev) -> qs r k s0 s -> qs r k s0 s'.
Proof.
  intros H Hs. unfold add_expried in H. cbv zeta in H.
  match type of H with (if ?c then _ else _) = _ => destruct c end.
  - eapply repeat_push_lock_aof_qs; [exact H|]. qss.
  - inv_tuple H. qss.
Qed.
Lemma remove_long_expried_qs r k s0 s eT : qs r k s0 s -> qs r k s0 (remove_long_expried s r eT).
Proof. intros Hs. unfold remove_long_expried. qss. Qed.
#[export] Hint Resolve remove_long_expried_qs : qsdb.

(* the part of update_and_rearm after UpdateLockedLock *)
Lemma update_and_rearm_qs r k s c s' ev :
  update_and_rearm s k r c = (s', ev) -> qs r k (update_locked_lock s k r c) s'.
Proof.
  intros H. unfold update_and_rearm in H. cbv zeta in H.
  destruct (l_long (getl s r)); [|inv_tuple H; apply qs_refl].
  destruct (negb (has (c_eflag c) EF_MILLISECOND)); [|inv_tuple H; apply qs_refl].
  match type of H with (if ?c then _ else _) = _ => destruct c end; [|inv_tuple H; apply qs_refl].
  destruct (add_expried _ k r) as [x1 e1] eqn:E. inv_tuple H.
  apply qsr_updl; [deq_side|]. eapply add_expried_qs; [exact E|]. qss.
Qed.

(* reading a quiet step *)
Lemma qs_rec r k s s' l : qs r k s s' -> aget (store s) r = Some l -> exists l', aget (store s') r = Some l' /\ deq l l'.
Proof. intros Q H. pose proof (qs_r _ _ _ _ Q) as P. rewrite H in P. destruct (aget (store s') r) as [l'|]; simpl in P; [eauto|tauto]. Qed.
Lemma qs_mgr r k s s' m : qs r k s s' -> aget (mgrs s) k = Some m -> exists m', aget (mgrs s') k = Some m' /\ mq m m'.
Proof. intros Q H. pose proof (qs_k _ _ _ _ Q) as P. rewrite H in P. destruct (aget (mgrs s') k) as [m'|]; simpl in P; [eauto|tauto]. Qed.

(* the lookup depends on the records only through "depth > 0" and the LockId *)
Definition look_eq (s s' : db) : Prop :=
  forall r, (0 <? l_locked (getl s' r)) = (0 <? l_locked (getl s r))
            /\ c_lockid (l_cmd (getl s' r)) = c_lockid (l_cmd (getl s r)).

Lemma find_locked_ext s s' id items : look_eq s s' -> find_locked s' items id = find_locked s items id.
Proof.
  intros H. induction items as [|x t IH]; simpl; auto.
  destruct (H x) as [E1 E2]. rewrite E1, E2, IH. reflexivity.
Qed.

Lemma get_locked_lock_ext s s' m m' id :
  look_eq s s' -> m_cur m' = m_cur m -> m_locks m' = m_locks m -> get_locked_lock s' m' id = get_locked_lock s m id.
Proof.
  intros H E1 E2. unfold get_locked_lock. rewrite E1, E2. destruct (m_cur m) as [c|]; auto.
  destruct (H c) as [_ E3]. rewrite E3. destruct (_ =? id); auto.
  destruct (m_locks m) as [q|]; auto. unfold hq_getlock. rewrite (find_locked_ext s s'); auto.
Qed.

(* ------------------------------------------------------------------ depth frame *)
Definition dk (X : ref -> Prop) (s s' : db) : Prop :=
  forall r l', aget (store s') r = Some l' -> X r \/ exists l, aget (store s) r = Some l /\ deq l l'.

Lemma dk_refl X s : dk X s s.
Proof. intros r l H. right. exists l. split; auto. apply deq_refl. Qed.
Lemma dk_trans X a b c : dk X a b -> dk X b c -> dk X a c.
Proof.
  intros A B r l3 H. destruct (B r l3 H) as [HX|(l2 & H2 & E2)]; auto.
  destruct (A r l2 H2) as [HX|(l1 & H1 & E1)]; auto. right. exists l1. split; auto. eapply deq_trans; eauto.
Qed.
Lemma dk_weaken (X Y : ref -> Prop) s s' : (forall r, X r -> Y r) -> dk X s s' -> dk Y s s'.
Proof. intros HXY D r l H. destruct (D r l H) as [HX|HE]; auto. Qed.

Lemma dk_same X s s' : store s' = store s -> dk X s s'.
Proof. intros E r l H. rewrite E in H. right. exists l. split; auto. apply deq_refl. Qed.
Lemma dk_updl X s r f : (forall l, deq l (f l)) -> dk X s (updl s r f).
Proof.
  intros Hf r' l' H. rewrite aget_store_updl in H. destruct (r =? r') eqn:E.
  - apply N.eqb_eq in E. subst r'. destruct (aget (store s) r) as [l|] eqn:E2; simpl in H; [|discriminate].
    inv H. right. eauto.
  - right. exists l'. split; auto. apply deq_refl.
Qed.
Lemma dk_updl_X (X : ref -> Prop) s r f : X r -> dk X s (updl s r f).
Proof.
  intros HX r' l' H. rewrite aget_store_updl in H. destruct (r =? r') eqn:E.
  - apply N.eqb_eq in E. subst r'. auto.
  - right. exists l'. split; auto. apply deq_refl.
Qed.
Lemma dk_setl_X (X : ref -> Prop) s r l : X r -> dk X s (setl s r l).
Proof.
  intros HX r' l' H. change (store (setl s r l)) with (aset (store s) r l) in H. rewrite aget_aset in H.
  destruct (r =? r') eqn:E.
  - apply N.eqb_eq in E. subst r'. auto.
  - right. exists l'. split; auto. apply deq_refl.
Qed.
Lemma dk_setl X s r l l' : aget (store s) r = Some l -> deq l l' -> dk X s (setl s r l').
Proof.
  intros H0 Hd r' l2 H. change (store (setl s r l')) with (aset (store s) r l') in H. rewrite aget_aset in H.
  destruct (r =? r') eqn:E.
  - apply N.eqb_eq in E. subst r'. inv H. right. eauto.
  - right. exists l2. split; auto. apply deq_refl.
Qed.
Lemma dk_del X s r : dk X s (s <| store := adel (store s) r |>).
Proof.
  intros r' l' H. cbn in H. rewrite aget_adel in H. destruct (r =? r'); [discriminate|].
  right. exists l'. split; auto. apply deq_refl.
Qed.

Lemma dkr X s0 s s' : dk X s s' -> dk X s0 s -> dk X s0 s'.
Proof. intros; eapply dk_trans; eauto. Qed.
Lemma dkr_same X s0 s s' : store s' = store s -> dk X s0 s -> dk X s0 s'.
Proof. intros. eapply dk_trans; [eassumption|apply dk_same; auto]. Qed.
Lemma dkr_updl X s0 s r f : (forall l, deq l (f l)) -> dk X s0 s -> dk X s0 (updl s r f).
Proof. intros. eapply dk_trans; [eassumption|apply dk_updl; auto]. Qed.
Lemma dkr_updl_X (X : ref -> Prop) s0 s r f : X r -> dk X s0 s -> dk X s0 (updl s r f).
Proof. intros. eapply dk_trans; [eassumption|apply dk_updl_X; auto]. Qed.
Lemma dkr_setl_X (X : ref -> Prop) s0 s r l : X r -> dk X s0 s -> dk X s0 (setl s r l).
Proof. intros. eapply dk_trans; [eassumption|apply dk_setl_X; auto]. Qed.
Lemma dkr_updm X s0 s k f : dk X s0 s -> dk X s0 (updm s k f).
Proof. apply dkr_same, store_updm. Qed.
Lemma dkr_setm X s0 s k m : dk X s0 s -> dk X s0 (setm s k m).
Proof. apply dkr_same. reflexivity. Qed.
Lemma dkr_updc X s0 s f : dk X s0 s -> dk X s0 (updc s f).
Proof. apply dkr_same. reflexivity. Qed.
Lemma dkr_bump X s0 s f : dk X s0 s -> dk X s0 (bump f s).
Proof. apply dkr_same. reflexivity. Qed.

Create HintDb dkdb.
#[export] Hint Resolve dk_refl dkr_updm dkr_setm dkr_updc dkr_bump : dkdb.
#[export] Hint Resolve dkr_updl | 2 : dkdb.
#[export] Hint Resolve dkr_updl_X | 3 : dkdb.
#[export] Hint Extern 1 (forall l : lockrec, deq _ _) => deq_side : dkdb.
#[export] Hint Extern 1 (dk _ _ (set _ _ ?x)) => (eapply (dkr_same _ _ x); [reflexivity|]) : dkdb.
#[export] Hint Extern 1 (dk _ _ (if ?c then _ else _)) => destruct c : dkdb.
#[export] Hint Extern 1 (dk _ _ (match ?c with _ => _ end)) => destruct c : dkdb.
#[export] Hint Extern 1 (_ = _ \/ _ = _) => (first [left; reflexivity | right; reflexivity]) : dkdb.
#[export] Hint Extern 1 (@eq N _ _) => reflexivity : dkdb.
Ltac dks := eauto 60 with dkdb.

Section DK.
  Variable X : ref -> Prop.

  Lemma free_lock_dk s0 s r : dk X s0 s -> dk X s0 (free_lock s r).
  Proof.
    intros H. unfold free_lock. destruct (aget (store s) r); auto.
    apply dkr_updm. eapply dkr; [apply dk_del|auto].
  Qed.
  Hint Resolve free_lock_dk : dkdb.

  Lemma unref_dk s0 s r : dk X s0 s -> dk X s0 (unref s r).
  Proof.
    intros H. unfold unref. destruct (aget (store s) r) as [l|] eqn:E; auto.
    assert (dk X s0 (setl s r (l <| l_refc := dec8 (l_refc l) |>))).
    { eapply dkr; [eapply dk_setl; [exact E|deq_side]|auto]. }
    destruct (_ =? 0); dks.
  Qed.
  Hint Resolve unref_dk : dkdb.

  Lemma remove_mgr_dk s0 s k : dk X s0 s -> dk X s0 (remove_mgr_if_unref s k).
  Proof.
    intros H. unfold remove_mgr_if_unref. destruct (aget (mgrs s) k) as [m|]; auto.
    destruct (m_ref m =? 0); auto.
  Qed.
  Hint Resolve remove_mgr_dk : dkdb.

  Lemma hq_compact_dk items : forall s0 s s' kept, hq_compact s items = (s', kept) -> dk X s0 s -> dk X s0 s'.
  Proof.
    induction items as [|x rest IH]; simpl; intros s0 s s' kept H F.
    - inv_tuple H. auto.
    - destruct (0 <? l_locked (getl s x)).
      + destruct (hq_compact s rest) as [s1 k1] eqn:E. inv_tuple H. eauto.
      + eapply IH; [exact H|]. dks.
  Qed.

  Lemma hq_push_dk s0 s q r s' q' : hq_push s q r = (s', q') -> dk X s0 s -> dk X s0 s'.
  Proof.
    unfold hq_push. intros H F. repeat (split_hyp H); inv_tuple H; auto.
    all: eapply hq_compact_dk; eauto.
  Qed.

  Lemma promote_dk fuel : forall s0 s q s' q' nc, promote fuel s q = (s', q', nc) -> dk X s0 s -> dk X s0 s'.
  Proof.
    induction fuel as [|f IH]; simpl; intros s0 s q s' q' nc H F.
    - inv_tuple H. auto.
    - destruct (hq_pop q) as [[x|] q1]; [|inv_tuple H; auto].
      destruct (0 <? l_locked (getl s x)); [inv_tuple H; auto|]. eapply IH; [exact H|]. dks.
  Qed.

  Lemma drop_dead_heads_dk fuel : forall s0 s q s' q', drop_dead_heads fuel s q = (s', q') -> dk X s0 s -> dk X s0 s'.
  Proof.
    induction fuel as [|f IH]; simpl; intros s0 s q s' q' H F.
    - inv_tuple H. auto.
    - destruct (hq_head q) as [x|]; [|inv_tuple H; auto].
      destruct (0 <? l_locked (getl s x)); [inv_tuple H; auto|].
      destruct (hq_pop q) as [o q1]. eapply IH; [exact H|]. dks.
  Qed.

  (* RemoveLock ends the hold r: r must be exempt *)
  Lemma remove_lock_dk s0 s k r : X r -> dk X s0 s -> dk X s0 (remove_lock s k r).
  Proof.
    intros HX F. unfold remove_lock. cbv zeta.
    match goal with |- dk _ _ (if ?c then _ else _) => destruct c end.
    - destruct (m_locks (getm _ k)) as [q|]; [|dks].
      destruct (promote _ _ q) as [[x1 q1] nc] eqn:E.
      apply dkr_updm. eapply promote_dk; [exact E|]. dks.
    - destruct (m_locks (getm _ k)) as [q|]; [|dks].
      destruct (drop_dead_heads _ _ _) as [x1 q1] eqn:E.
      apply dkr_updm. eapply drop_dead_heads_dk; [exact E|]. dks.
  Qed.

  Lemma wq_compact_dk items : forall s0 s s' kept, wq_compact s items = (s', kept) -> dk X s0 s -> dk X s0 s'.
  Proof.
    induction items as [|x rest IH]; simpl; intros s0 s s' kept H F.
    - inv_tuple H. auto.
    - destruct (dead_waiter (getl s x)).
      + eapply IH; [exact H|]. dks.
      + destruct (wq_compact s rest) as [s1 k1] eqn:E. inv_tuple H. eauto.
  Qed.

  Lemma wq_push_dk s0 s q r s' q' : wq_push s q r = (s', q') -> dk X s0 s -> dk X s0 s'.
  Proof.
    unfold wq_push. intros H F. repeat (split_hyp H); inv_tuple H; auto.
    all: eapply wq_compact_dk; eauto.
  Qed.

  Lemma add_wait_lock_dk s0 s k r : dk X s0 s -> dk X s0 (add_wait_lock s k r).
  Proof.
    intros F. unfold add_wait_lock. cbv zeta.
    match goal with |- context [wq_push s ?q r] => destruct (wq_push s q r) as [s1 q1] eqn:E end.
    apply dkr_updm. apply dkr_updl; [deq_side|]. eapply wq_push_dk; eauto.
  Qed.

  Lemma get_wait_loop_dk fuel : forall s0 s q s' q' o, get_wait_loop fuel s q = (s', q', o) -> dk X s0 s -> dk X s0 s'.
  Proof.
    induction fuel as [|f IH]; simpl; intros s0 s q s' q' o H F.
    - inv_tuple H. auto.
    - destruct (wq_head q) as [x|]; [|inv_tuple H; auto].
      destruct (dead_waiter (getl s x)); [|inv_tuple H; auto]. eapply IH; [exact H|]. dks.
  Qed.

  Lemma get_wait_lock_dk s0 s k s' o : get_wait_lock s k = (s', o) -> dk X s0 s -> dk X s0 s'.
  Proof.
    unfold get_wait_lock. intros H F. destruct (m_wait (getm s k)) as [q|]; [|inv_tuple H; auto].
    destruct (get_wait_loop _ s q) as [[s1 q1] o1] eqn:E. inv_tuple H.
    apply dkr_updm. eapply get_wait_loop_dk; eauto.
  Qed.

  Lemma push_lock_aof_dk s0 s k r f s' ev : push_lock_aof s k r f = (s', ev) -> dk X s0 s -> dk X s0 s'.
  Proof. intros H F. unfold push_lock_aof in H. repeat (split_hyp H); inv_tuple H; dks. Qed.

  Lemma push_unlock_aof_dk s0 s k r lc uc b f s' ev : push_unlock_aof s k r lc uc b f = (s', ev) -> dk X s0 s -> dk X s0 s'.
  Proof. intros H F. unfold push_unlock_aof in H. repeat (split_hyp H); inv_tuple H; dks. Qed.

  Lemma repeat_push_lock_aof_dk n : forall s0 s k r s' ev, repeat_push_lock_aof n s k r = (s', ev) -> dk X s0 s -> dk X s0 s'.
  Proof.
    induction n as [|n IH]; simpl; intros s0 s k r s' ev H F.
    - inv_tuple H. auto.
    - destruct (push_lock_aof s k r 0) as [s1 e1] eqn:E1.
      destruct (repeat_push_lock_aof n s1 k r) as [s2 e2] eqn:E2. inv_tuple H.
      eapply IH; [exact E2|]. eapply push_lock_aof_dk; eauto.
  Qed.

  Lemma add_timeout_dk s0 s r : dk X s0 s -> dk X s0 (add_timeout s r).
  Proof. intros F. unfold add_timeout. cbv zeta. dks. Qed.

  Lemma remove_long_timeout_dk s0 s r : dk X s0 s -> dk X s0 (remove_long_timeout s r).
  Proof. intros F. unfold remove_long_timeout. cbv zeta. dks. Qed.

  Lemma remove_long_expried_dk s0 s r t : dk X s0 s -> dk X s0 (remove_long_expried s r t).
  Proof. intros F. unfold remove_long_expried. dks. Qed.

  Lemma add_expried_dk s0 s k r s' ev : add_expried s k r = (s', ev) -> dk X s0 s -> dk X s0 s'.
  Proof.
    unfold add_expried. cbv zeta. intros H F.
    match type of H with (if ?c then _ else _) = _ => destruct c end.
    - eapply repeat_push_lock_aof_dk; [exact H|]. dks.
    - inv_tuple H. dks.
  Qed.

  Lemma process_data_dk s0 s k r c b s' ev : process_data s k r c b = (s', ev) -> dk X s0 s -> dk X s0 s'.
  Proof. intros H F. unfold process_data in H. repeat (split_hyp H); inv_tuple H; dks. Qed.

  Lemma update_locked_lock_dk s0 s k r c : X r -> dk X s0 s -> dk X s0 (update_locked_lock s k r c).
  Proof. intros HX F. unfold update_locked_lock. cbv zeta. apply dkr_setl_X; auto. Qed.

  Lemma update_and_rearm_dk s0 s k r c s' ev : X r -> update_and_rearm s k r c = (s', ev) -> dk X s0 s -> dk X s0 s'.
  Proof.
    intros HX H F. unfold update_and_rearm in H. cbv zeta in H.
    pose proof (update_locked_lock_dk s0 s k r c HX F) as U.
    destruct (l_long (getl s r)); [|inv_tuple H; auto].
    destruct (negb (has (c_eflag c) EF_MILLISECOND)); [|inv_tuple H; auto].
    match type of H with (if ?c then _ else _) = _ => destruct c end; [|inv_tuple H; auto].
    destruct (add_expried _ k r) as [x1 e1] eqn:E. inv_tuple H.
    apply dkr_updl; [deq_side|]. eapply add_expried_dk; [exact E|].
    apply remove_long_expried_dk; auto.
  Qed.

  (* the new record is exempt *)
  Lemma new_lock_dk s0 s k conn c s' r : X (next s) -> new_lock s k conn c = (s', r) -> dk X s0 s -> r = next s /\ dk X s0 s'.
  Proof.
    intros HX H F. unfold new_lock in H. cbv zeta in H. inv_tuple H. split; [reflexivity|].
    apply dkr_updm. intros r' l' Hg.
    match type of Hg with aget (store ?x) _ = _ =>
      match x with context [aset (store s) (next s) ?L] => change (store x) with (aset (store s) (next s) L) in Hg end end.
    rewrite aget_aset in Hg.
    destruct (next s =? r') eqn:E; [apply N.eqb_eq in E; subst r'; auto|]. apply F; auto.
  Qed.

  Lemma add_lock_dk s0 s k r : X r -> dk X s0 s -> dk X s0 (add_lock s k r).
  Proof.
    intros HX F. unfold add_lock. cbv zeta.
    destruct (m_cur (getm s k)); [|apply dkr_updm, dkr_setl_X; auto].
    match goal with |- context [hq_push ?a ?q r] => destruct (hq_push a q r) as [x1 q1] eqn:E end.
    apply dkr_updm. eapply hq_push_dk; [exact E|]. apply dkr_setl_X; auto.
  Qed.
End DK.

#[export] Hint Resolve free_lock_dk unref_dk remove_mgr_dk remove_lock_dk add_wait_lock_dk add_timeout_dk
  remove_long_timeout_dk remove_long_expried_dk update_locked_lock_dk add_lock_dk : dkdb.
#[export] Hint Extern 1 (dk _ _ ?y) =>
  is_var y;
  match goal with
  | E : push_lock_aof _ _ _ _ = (y, _) |- _ => eapply push_lock_aof_dk; [exact E|]
  | E : push_unlock_aof _ _ _ _ _ _ _ = (y, _) |- _ => eapply push_unlock_aof_dk; [exact E|]
  | E : add_expried _ _ _ = (y, _) |- _ => eapply add_expried_dk; [exact E|]
  | E : process_data _ _ _ _ _ = (y, _) |- _ => eapply process_data_dk; [exact E|]
  | E : get_wait_lock _ _ = (y, _) |- _ => eapply get_wait_lock_dk; [exact E|]
  | E : update_and_rearm _ _ _ _ = (y, _) |- _ => eapply update_and_rearm_dk; [|exact E|]
  end : dkdb.

(* the full release of hold r *)
Lemma release_hold_dk (X : ref -> Prop) s0 s k conn c r d s' ev :
  X r -> release_hold s k conn c r d = (s', ev) -> dk X s0 s -> dk X s0 s'.
Proof.
  intros HX H F. unfold release_hold in H. cbv zeta in H.
  repeat (split_hyp H); inv_tuple H.
  all: dks.
Qed.

(* tombstone: the record, if still stored, has depth 0 *)
Definition tomb (r : ref) (s : db) : Prop := forall l, aget (store s) r = Some l -> l_locked l = 0.
